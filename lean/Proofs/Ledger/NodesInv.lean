import Proofs.Ledger.NodesPrims
/-!
# The structural invariant of the nodes ledger (C19 pool equation + C21 index exactness)
and the generic "one record is replaced" preservation lemma
-/
namespace Nodes
open Spec

/-- Invariant of the nodes store at operation boundaries. -/
structure Inv (s : State) : Prop where
  nodup : (s.vals.map (·.1)).Nodup
  keys : ∀ a v, aget s.vals a = some v → v.addr = a
  nonneg : ∀ a v, aget s.vals a = some v → 0 ≤ v.tokens
  bondedAll : ∀ a v, aget s.vals a = some v → v.status ≠ .unstaked
  pool : s.pool = sumBonded s.vals
  staked : ∀ x : Int × Addr, x ∈ s.stakedIdx ↔
    ∃ v, aget s.vals x.2 = some v ∧ v.status = .staked ∧ v.jailed = false ∧ powerOf v.tokens = x.1
  idxNodup : s.stakedIdx.Nodup
  chain : ∀ x : Bytes × Addr, x ∈ s.chainIdx ↔ ∃ v, aget s.vals x.2 = some v ∧ v.status = .staked ∧ x.1 ∈ v.chains
  queue : ∀ (t : Int) (a : Addr), a ∈ getQ s t ↔ ∃ v, aget s.vals a = some v ∧ v.status = .unstaking ∧ v.unstTime = t
  waitNodup : s.waiting.Nodup
  qNodup : (s.unstQ.map (·.1)).Nodup

/-- the record admitted at an address by a replacement -/
structure NewOk (a : Addr) (new : Option Val) : Prop where
  ok : ∀ v, new = some v → v.addr = a ∧ 0 ≤ v.tokens ∧ v.status ≠ .unstaked

/-- `s'` is `s` with the record at `a` replaced by `new` (or removed), all indexes adjusted -/
structure Replaces (s s' : State) (a : Addr) (new : Option Val) : Prop where
  vals : s'.vals = match new with
    | some v => aset s.vals a v
    | none => adel s.vals a
  staked : ∀ x : Int × Addr, x ∈ s'.stakedIdx ↔ (x ∈ s.stakedIdx ∧ x.2 ≠ a) ∨
    (∃ v, new = some v ∧ v.status = .staked ∧ v.jailed = false ∧ x = (powerOf v.tokens, a))
  idxNodup : s'.stakedIdx.Nodup
  chain : ∀ x : Bytes × Addr, x ∈ s'.chainIdx ↔ (x ∈ s.chainIdx ∧ x.2 ≠ a) ∨
    (∃ v, new = some v ∧ v.status = .staked ∧ x.2 = a ∧ x.1 ∈ v.chains)
  queue : ∀ (t : Int) (b : Addr), b ∈ getQ s' t ↔ (b ∈ getQ s t ∧ b ≠ a) ∨
    (∃ v, new = some v ∧ v.status = .unstaking ∧ b = a ∧ v.unstTime = t)
  pool : s'.pool = s.pool - contribOpt (aget s.vals a) + contribOpt new
  waiting : s'.waiting = s.waiting
  qNodup : (s'.unstQ.map (·.1)).Nodup

theorem aget_replaced {s s' : State} {a : Addr} {new : Option Val} (h : Replaces s s' a new) (b : Addr) :
    aget s'.vals b = if b = a then new else aget s.vals b := by
  rw [h.vals]
  cases new with
  | some v => simp only; rw [aget_aset]
  | none => simp only; rw [aget_adel]

theorem Inv.replace {s s' : State} (hi : Inv s) {a : Addr} {new : Option Val} (hn : NewOk a new)
    (h : Replaces s s' a new) : Inv s' := by
  have hg := aget_replaced h
  refine ⟨?_, ?_, ?_, ?_, ?_, ?_, h.idxNodup, ?_, ?_, by rw [h.waiting]; exact hi.waitNodup, h.qNodup⟩
  · rw [h.vals]
    cases new with
    | some v => exact nodup_aset hi.nodup a v
    | none => exact nodup_adel hi.nodup a
  · intro b v hb
    rw [hg] at hb
    by_cases e : b = a
    · rw [if_pos e] at hb; rw [e]; exact (hn.ok v hb).1
    · rw [if_neg e] at hb; exact hi.keys b v hb
  · intro b v hb
    rw [hg] at hb
    by_cases e : b = a
    · rw [if_pos e] at hb; exact (hn.ok v hb).2.1
    · rw [if_neg e] at hb; exact hi.nonneg b v hb
  · intro b v hb
    rw [hg] at hb
    by_cases e : b = a
    · rw [if_pos e] at hb; exact (hn.ok v hb).2.2
    · rw [if_neg e] at hb; exact hi.bondedAll b v hb
  · rw [h.pool, h.vals, hi.pool]
    cases new with
    | some v => simp only; rw [sumBonded_aset _ hi.nodup]; rfl
    | none => simp only; rw [sumBonded_adel _ hi.nodup]; simp [contribOpt]
  · intro x
    rw [h.staked, hi.staked, hg]
    by_cases e : x.2 = a
    · rw [if_pos e]
      constructor
      · rintro (⟨_, h2⟩ | ⟨v, hv, h1, h2, h3⟩)
        · exact absurd e h2
        · exact ⟨v, hv, h1, h2, by rw [h3]⟩
      · rintro ⟨v, hv, h1, h2, h3⟩
        refine Or.inr ⟨v, hv, h1, h2, ?_⟩
        rw [h3, ← e]
    · rw [if_neg e]
      constructor
      · rintro (⟨h1, _⟩ | ⟨v, _, _, _, h3⟩)
        · exact h1
        · exact absurd (by rw [h3]) e
      · intro h1
        exact Or.inl ⟨h1, e⟩
  · intro x
    rw [h.chain, hi.chain, hg]
    by_cases e : x.2 = a
    · rw [if_pos e]
      constructor
      · rintro (⟨_, h2⟩ | ⟨v, hv, h1, _, h3⟩)
        · exact absurd e h2
        · exact ⟨v, hv, h1, h3⟩
      · rintro ⟨v, hv, h1, h3⟩
        exact Or.inr ⟨v, hv, h1, e, h3⟩
    · rw [if_neg e]
      constructor
      · rintro (⟨h1, _⟩ | ⟨v, _, _, h3, _⟩)
        · exact h1
        · exact absurd h3 e
      · intro h1
        exact Or.inl ⟨h1, e⟩
  · intro t b
    rw [h.queue, hi.queue, hg]
    by_cases e : b = a
    · rw [if_pos e]
      constructor
      · rintro (⟨_, h2⟩ | ⟨v, hv, h1, _, h3⟩)
        · exact absurd e h2
        · exact ⟨v, hv, h1, h3⟩
      · rintro ⟨v, hv, h1, h3⟩
        exact Or.inr ⟨v, hv, h1, e, h3⟩
    · rw [if_neg e]
      constructor
      · rintro (⟨h1, _⟩ | ⟨v, _, _, h3, _⟩)
        · exact h1
        · exact absurd h3 e
      · intro h1
        exact Or.inl ⟨h1, e⟩

/-! ## Consequences of the invariant used to establish `Replaces` -/

/-- index entries of an address whose record is known -/
theorem Inv.staked_at {s : State} (hi : Inv s) {a : Addr} {v : Val} (hv : aget s.vals a = some v) (x : Int × Addr) :
    (x ∈ s.stakedIdx ∧ x ≠ v.stakedKey) ↔ (x ∈ s.stakedIdx ∧ x.2 ≠ a) := by
  have hk := hi.keys a v hv
  constructor
  · rintro ⟨h1, h2⟩
    refine ⟨h1, ?_⟩
    intro e
    obtain ⟨w, hw, _, _, hp⟩ := (hi.staked x).mp h1
    rw [e, hv] at hw
    injection hw with hw
    subst hw
    apply h2
    show x = (powerOf v.tokens, v.addr)
    rw [hk, ← e, hp]
  · rintro ⟨h1, h2⟩
    refine ⟨h1, ?_⟩
    intro e
    apply h2
    rw [e]
    exact hk

theorem Inv.staked_absent {s : State} (hi : Inv s) {a : Addr} (hv : aget s.vals a = none) (x : Int × Addr)
    (hx : x ∈ s.stakedIdx) : x.2 ≠ a := by
  intro e
  obtain ⟨w, hw, _⟩ := (hi.staked x).mp hx
  rw [e, hv] at hw
  cases hw

/-- index entries of an address whose record is not eligible -/
theorem Inv.staked_ineligible {s : State} (hi : Inv s) {a : Addr} {v : Val} (hv : aget s.vals a = some v)
    (hne : ¬ (v.status = .staked ∧ v.jailed = false)) (x : Int × Addr) (hx : x ∈ s.stakedIdx) : x.2 ≠ a := by
  intro e
  obtain ⟨w, hw, h1, h2, _⟩ := (hi.staked x).mp hx
  rw [e, hv] at hw
  injection hw with hw
  subst hw
  exact hne ⟨h1, h2⟩

theorem Inv.chain_at {s : State} (hi : Inv s) {a : Addr} {v : Val} (hv : aget s.vals a = some v) (x : Bytes × Addr) :
    (x ∈ s.chainIdx ∧ ¬ (x.2 = v.addr ∧ x.1 ∈ v.chains)) ↔ (x ∈ s.chainIdx ∧ x.2 ≠ a) := by
  have hk := hi.keys a v hv
  constructor
  · rintro ⟨h1, h2⟩
    refine ⟨h1, ?_⟩
    intro e
    obtain ⟨w, hw, _, hc⟩ := (hi.chain x).mp h1
    rw [e, hv] at hw
    injection hw with hw
    subst hw
    exact h2 ⟨by rw [hk, e], hc⟩
  · rintro ⟨h1, h2⟩
    refine ⟨h1, ?_⟩
    rintro ⟨e, _⟩
    exact h2 (by rw [e, hk])

theorem Inv.chain_absent {s : State} (hi : Inv s) {a : Addr} (hv : aget s.vals a = none) (x : Bytes × Addr)
    (hx : x ∈ s.chainIdx) : x.2 ≠ a := by
  intro e
  obtain ⟨w, hw, _⟩ := (hi.chain x).mp hx
  rw [e, hv] at hw
  cases hw

theorem Inv.chain_notStaked {s : State} (hi : Inv s) {a : Addr} {v : Val} (hv : aget s.vals a = some v)
    (hne : v.status ≠ .staked) (x : Bytes × Addr) (hx : x ∈ s.chainIdx) : x.2 ≠ a := by
  intro e
  obtain ⟨w, hw, h1, _⟩ := (hi.chain x).mp hx
  rw [e, hv] at hw
  injection hw with hw
  subst hw
  exact hne h1

theorem Inv.queue_at {s : State} (hi : Inv s) {a : Addr} {v : Val} (hv : aget s.vals a = some v) (t : Int) (b : Addr) :
    (b ∈ getQ s t ∧ ¬ (t = v.unstTime ∧ b = v.addr)) ↔ (b ∈ getQ s t ∧ b ≠ a) := by
  have hk := hi.keys a v hv
  constructor
  · rintro ⟨h1, h2⟩
    refine ⟨h1, ?_⟩
    intro e
    obtain ⟨w, hw, _, ht⟩ := (hi.queue t b).mp h1
    rw [e, hv] at hw
    injection hw with hw
    subst hw
    exact h2 ⟨ht.symm, by rw [hk, e]⟩
  · rintro ⟨h1, h2⟩
    refine ⟨h1, ?_⟩
    rintro ⟨_, e⟩
    exact h2 (by rw [e, hk])

theorem Inv.queue_absent {s : State} (hi : Inv s) {a : Addr} (hv : aget s.vals a = none) (t : Int) (b : Addr)
    (hb : b ∈ getQ s t) : b ≠ a := by
  intro e
  obtain ⟨w, hw, _⟩ := (hi.queue t b).mp hb
  rw [e, hv] at hw
  cases hw

theorem Inv.queue_notUnstaking {s : State} (hi : Inv s) {a : Addr} {v : Val} (hv : aget s.vals a = some v)
    (hne : v.status ≠ .unstaking) (t : Int) (b : Addr) (hb : b ∈ getQ s t) : b ≠ a := by
  intro e
  obtain ⟨w, hw, h1, _⟩ := (hi.queue t b).mp hb
  rw [e, hv] at hw
  injection hw with hw
  subst hw
  exact hne h1

/-- an unstaking record sits in its own queue slot only -/
theorem Inv.queue_time {s : State} (hi : Inv s) {a : Addr} {v : Val} (hv : aget s.vals a = some v) (t : Int)
    (hb : a ∈ getQ s t) : v.status = .unstaking ∧ v.unstTime = t := by
  obtain ⟨w, hw, h1, h2⟩ := (hi.queue t a).mp hb
  rw [hv] at hw
  injection hw with hw
  subst hw
  exact ⟨h1, h2⟩

/-- states that differ only in fields the invariant does not read -/
theorem Inv.congr {s s' : State} (hi : Inv s) (h1 : s'.vals = s.vals) (h2 : s'.stakedIdx = s.stakedIdx)
    (h3 : s'.chainIdx = s.chainIdx) (h4 : s'.unstQ = s.unstQ) (h5 : s'.pool = s.pool)
    (h6 : s'.waiting.Nodup) : Inv s' := by
  have hq : ∀ t, getQ s' t = getQ s t := fun t => by unfold getQ; rw [h4]
  refine ⟨?_, ?_, ?_, ?_, ?_, ?_, ?_, ?_, ?_, h6, by rw [h4]; exact hi.qNodup⟩
  · rw [h1]; exact hi.nodup
  · rw [h1]; exact hi.keys
  · rw [h1]; exact hi.nonneg
  · rw [h1]; exact hi.bondedAll
  · rw [h1, h5]; exact hi.pool
  · rw [h1, h2]; exact hi.staked
  · rw [h2]; exact hi.idxNodup
  · rw [h1, h3]; exact hi.chain
  · intro t a; rw [hq, h1]; exact hi.queue t a

end Nodes
