import Proofs.Ledger.Apps
/-!
# C20: every operation of the applications ledger keeps `pool − Σ bonded tokens`

`Keeps s s'` = well-formedness is preserved and the excess is unchanged.  The only operation
that is not `Keeps` is `donate` (a plain `MsgSend` to the pool's module-account address), which
raises the excess by the amount sent.
-/
namespace Apps

theorem put_del_self {κ α : Type} [DecidableEq κ] (m : List (κ × α)) (k : κ) (v : α) :
    put (del m k) k v = put m k v := by
  unfold put; rw [del_del]

theorem wt_staked {app : App} (h : app.status = stStaked) : wt app = app.tokens := by
  simp [wt, bonded, h]

theorem wt_unstaking {app : App} (h : app.status = stUnstaking) : wt app = app.tokens := by
  simp [wt, bonded, h, stUnstaking, stStaked]

theorem wt_unstaked {app : App} (h : app.status = stUnstaked) : wt app = 0 := by
  simp [wt, bonded, h, stUnstaked, stUnstaking, stStaked]

/-! ## MsgStake -/

theorem validateTransfer_some {s : St} {signer : Addr} {m : MsgStake} {cur : App}
    (h : validateTransfer s signer m = some cur) :
    get s.apps signer = some cur ∧ cur.status = stStaked ∧ get s.apps m.addr = none := by
  unfold validateTransfer at h
  split at h
  · simp at h
  · rename_i c hc
    split at h
    · simp at h
    · split at h
      · simp at h
      · rename_i h1 h2
        simp at h; subst h
        refine ⟨hc, by simpa using h1, ?_⟩
        simp [has] at h2
        exact h2

theorem transfer_apps (s : St) (signer : Addr) (cur : App) (m : MsgStake) :
    (transferApplication s signer cur m).apps
      = del (put s.apps m.addr { cur with status := stStaked, pk := m.pk }) signer := by
  simp [transferApplication]

theorem transfer_pool (s : St) (signer : Addr) (cur : App) (m : MsgStake) :
    (transferApplication s signer cur m).pool = s.pool := by
  simp [transferApplication]

theorem transfer_keeps {s : St} {signer : Addr} {m : MsgStake} {cur : App}
    (h : validateTransfer s signer m = some cur) : Keeps s (transferApplication s signer cur m) := by
  obtain ⟨hcur, hst, hnew⟩ := validateTransfer_some h
  have hne : m.addr ≠ signer := by
    intro e; rw [e, hcur] at hnew; simp at hnew
  have hw : wt { cur with status := stStaked, pk := m.pk } = wt cur := by
    rw [wt_staked (app := { cur with status := stStaked, pk := m.pk }) rfl, wt_staked hst]
  have he : WF s → excess (transferApplication s signer cur m) = excess s := by
    intro w
    unfold excess
    rw [transfer_apps, transfer_pool, sumBonded_del _ (nodup_put w.nodup _ _), sumBonded_put _ w.nodup,
      get_put_ne _ _ hne, hcur, hnew]
    simp only [wtOpt]
    omega
  refine ⟨fun w => ⟨?_, ?_, (he w) ▸ w.covers⟩, he⟩
  · rw [transfer_apps]; exact nodup_del (nodup_put w.nodup _ _) _
  · rw [transfer_apps]
    exact nonneg_del (nonneg_put w.nonneg _ (app := { cur with status := stStaked, pk := m.pk })
      (show 0 ≤ cur.tokens from nonneg_get w.nonneg hcur)) _

theorem editStake_keeps (s : St) (a : Addr) (cur : App) (m : MsgStake)
    (hcur : get s.apps a = some cur) (hst : cur.status = stStaked) : Keeps s (editStake s a cur m).2 := by
  unfold editStake
  by_cases hd : m.value - cur.tokens > 0
  · simp only [hd, if_true]
    cases htp : toPool s a (m.value - cur.tokens) with
    | none => exact Keeps.refl s
    | some s1 =>
      obtain ⟨ha, hp, h0, _⟩ := toPool_spec htp
      simp only
      refine Keeps.of_put a { cur with tokens := cur.tokens + (m.value - cur.tokens), maxRelays := s1.relays (cur.tokens + (m.value - cur.tokens)), chains := m.chains } (m.value - cur.tokens) ?_ ?_ ?_ ?_
      · simp [hp]
      · simp [ha, put_del_self]
      · intro w; have := nonneg_get w.nonneg hcur; simp; omega
      · rw [hcur]; simp only [wtOpt]
        rw [wt_staked hst, wt_staked (by simpa using hst)]
        simp; omega
  · simp only [hd, if_false]
    refine Keeps.of_put a { cur with chains := m.chains } 0 ?_ ?_ ?_ ?_
    · simp
    · simp [put_del_self]
    · intro w; simpa using nonneg_get w.nonneg hcur
    · rw [hcur]; simp only [wtOpt]
      rw [wt_staked hst, wt_staked (by simpa using hst)]
      simp

theorem validateStaking_ok_status {s : St} {m : MsgStake} {cur : App}
    (h : validateStaking s m = .ok) (hcur : get s.apps m.addr = some cur) (hns : cur.status ≠ stStaked) :
    cur.status = stUnstaked := by
  unfold validateStaking at h
  split at h
  · simp at h
  · split at h
    · simp at h
    · simp only [hcur] at h
      simp only [hns, if_false] at h
      by_cases hu : cur.status = stUnstaked
      · exact hu
      · have : (cur.status ≠ stUnstaked) = True := by simp [hu]
        simp [hu] at h

theorem stakeFresh_keeps (s : St) (m : MsgStake) (hw : wtOpt (get s.apps m.addr) = 0) :
    Keeps s (stakeFresh s m).2 := by
  unfold stakeFresh
  cases htp : toPool s m.addr m.value with
  | none => exact Keeps.refl s
  | some s1 =>
    obtain ⟨ha, hp, h0, _⟩ := toPool_spec htp
    refine Keeps.of_put m.addr (freshApp s1 m) m.value ?_ ?_ ?_ ?_
    · simp [hp]
    · simp [ha]
    · intro _; exact h0
    · rw [hw, wt_staked (app := freshApp s1 m) rfl]; simp [freshApp]

theorem stakeApplication_keeps (s : St) (m : MsgStake) (h : validateStaking s m = .ok) :
    Keeps s (stakeApplication s m).2 := by
  unfold stakeApplication
  cases hcur : get s.apps m.addr with
  | none =>
    simp only
    exact stakeFresh_keeps s m (by rw [hcur]; rfl)
  | some cur =>
    simp only
    by_cases hst : cur.status = stStaked
    · simp only [hst, if_true]
      exact editStake_keeps s m.addr cur m hcur hst
    · simp only [hst, if_false]
      have hu := validateStaking_ok_status h hcur hst
      exact stakeFresh_keeps s m (by rw [hcur]; simp only [wtOpt]; exact wt_unstaked hu)

theorem handleStake_keeps (s : St) (signer : Addr) (m : MsgStake) : Keeps s (handleStake s signer m).2 := by
  unfold handleStake
  cases ht : validateTransfer s signer m with
  | some cur => exact transfer_keeps ht
  | none =>
    simp only
    cases hv : validateStaking s m with
    | ok => exact stakeApplication_keeps s m hv
    | app c => exact Keeps.refl s
    | sdk c => exact Keeps.refl s
    | auth c => exact Keeps.refl s

theorem deductFee_keeps (s : St) (signer : Addr) (fee : Int) : Keeps s (deductFee s signer fee).2 :=
  Keeps.of_same (deductFee_spec s signer fee).1 (deductFee_spec s signer fee).2.1

theorem anteStake_keeps (s : St) (signer : Addr) (m : MsgStake) (fee : Int) : Keeps s (anteStake s signer m fee).2 := by
  unfold anteStake
  split
  · exact deductFee_keeps s signer fee
  · exact Keeps.refl s

theorem deliverStake_keeps (s : St) (signer : Addr) (m : MsgStake) (fee : Int) :
    Keeps s (deliverStake s signer m fee).2 := by
  unfold deliverStake
  split
  · have ha := anteStake_keeps s signer m fee
    split
    · rename_i s1 heq
      rw [heq] at ha
      exact ha.trans (handleStake_keeps s1 signer m)
    · rename_i e s1 hne heq
      rw [heq] at ha
      exact ha
  · exact Keeps.refl s

/-! ## MsgBeginUnstake -/

theorem beginUnstaking_keeps (s : St) (a : Addr) (app : App) (hcur : get s.apps a = some app)
    (hst : app.status = stStaked) : Keeps s (beginUnstaking s a app) := by
  unfold beginUnstaking
  refine Keeps.of_put a _ 0 ?_ rfl ?_ ?_
  · simp
  · intro w; simpa using nonneg_get w.nonneg hcur
  · rw [hcur]; simp only [wtOpt]
    rw [wt_staked hst, wt_unstaking (by rfl)]
    simp

theorem handleUnstake_keeps (s : St) (a : Addr) : Keeps s (handleUnstake s a).2 := by
  unfold handleUnstake
  cases hcur : get s.apps a with
  | none => exact Keeps.refl s
  | some app =>
    simp only
    by_cases hst : app.status = stStaked
    · simp only [hst, ne_eq, not_true_eq_false, if_false]
      split
      · exact Keeps.refl s
      · exact beginUnstaking_keeps s a app hcur hst
    · simp only [ne_eq, hst, not_false_eq_true, if_true]
      exact Keeps.refl s

theorem deliverUnstake_keeps (s : St) (signer a : Addr) (fee : Int) : Keeps s (deliverUnstake s signer a fee).2 := by
  unfold deliverUnstake
  split
  · have hd := deductFee_keeps s signer fee
    split
    · rename_i s1 heq
      rw [heq] at hd
      exact hd.trans (handleUnstake_keeps s1 a)
    · rename_i r hne
      exact hd
  · exact Keeps.refl s

/-! ## End blocker -/

theorem finishUnstaking_keeps (s : St) (a : Addr) (app : App) (hcur : get s.apps a = some app)
    (hst : app.status = stUnstaking) : Keeps s (finishUnstaking s a app) := by
  -- under WF the payout cannot fail; outside WF nothing is claimed
  refine ⟨?_, ?_⟩ <;> intro w
  all_goals
    have htok : 0 ≤ app.tokens := nonneg_get w.nonneg hcur
    have hle : wt app ≤ sumBonded s.apps := wt_le_sumBonded w.nonneg hcur
    have hwt : wt app = app.tokens := wt_unstaking hst
    have hcov := w.covers
    unfold excess at hcov
    have hpool : ¬ (s.pool < app.tokens) := by omega
    have hfp : fromPool { s with queue := queueRemove s.queue app.unstakingTime a } a app.tokens
        = some { s with queue := queueRemove s.queue app.unstakingTime a, pool := s.pool - app.tokens,
                        bals := put s.bals a (balOf { s with queue := queueRemove s.queue app.unstakingTime a } a + app.tokens) } := by
      simp [fromPool, hpool]
    have hk : Keeps s (finishUnstaking s a app) := by
      unfold finishUnstaking
      simp only [hfp]
      refine Keeps.of_del a (-app.tokens) ?_ ?_ ?_
      · simp; omega
      · simp [del_put_self]
      · rw [hcur]; simp only [wtOpt]; omega
  · exact hk.wf w
  · exact hk.ex w

theorem matureOne_keeps (s : St) (a : Addr) : Keeps s (matureOne s a) := by
  unfold matureOne
  cases hcur : get s.apps a with
  | none => exact Keeps.refl s
  | some app =>
    simp only
    by_cases hst : app.status = stUnstaking
    · simp only [hst, ne_eq, not_true_eq_false, if_false]
      split
      · exact Keeps.refl s
      · exact finishUnstaking_keeps s a app hcur hst
    · simp only [ne_eq, hst, not_false_eq_true, if_true]
      exact Keeps.refl s

theorem foldl_keeps {β : Type} (f : St → β → St) (hf : ∀ s b, Keeps s (f s b)) (l : List β) (s : St) :
    Keeps s (l.foldl f s) := by
  induction l generalizing s with
  | nil => exact Keeps.refl s
  | cons b l ih => exact (hf s b).trans (ih (f s b))

theorem endBlock_keeps (s : St) : Keeps s (endBlock s) := by
  unfold endBlock
  apply foldl_keeps
  intro st e
  exact (foldl_keeps matureOne matureOne_keeps e.2 st).trans (Keeps.of_same rfl rfl)

/-! ## Keeper-level operations -/

theorem burnStaked_spec {s s1 : St} {amt : Int} (h : burnStaked s amt = some s1) :
    s1.apps = s.apps ∧ ((amt ≤ 0 ∧ s1.pool = s.pool) ∨ (0 < amt ∧ s1.pool = s.pool - amt)) := by
  unfold burnStaked at h
  split at h
  · simp at h; subst h; exact ⟨rfl, Or.inl ⟨by assumption, rfl⟩⟩
  · split at h
    · simp at h
    · simp at h; subst h; exact ⟨rfl, Or.inr ⟨by omega, rfl⟩⟩

theorem burnStaked_ok {s : St} {amt : Int} (h : amt ≤ s.pool) : ∃ s1, burnStaked s amt = some s1 := by
  unfold burnStaked
  split
  · exact ⟨_, rfl⟩
  · split
    · omega
    · exact ⟨_, rfl⟩

theorem forceUnstake_keeps (s : St) (a : Addr) : Keeps s (forceUnstake s a).2 := by
  refine ⟨?_, ?_⟩ <;> intro w
  all_goals
    have hk : Keeps s (forceUnstake s a).2 := by
      unfold forceUnstake
      cases hcur : get s.apps a with
      | none => exact Keeps.refl s
      | some app =>
        simp only
        have htok : 0 ≤ app.tokens := nonneg_get w.nonneg hcur
        have hle : wt app ≤ sumBonded s.apps := wt_le_sumBonded w.nonneg hcur
        have hcov := w.covers
        unfold excess at hcov
        by_cases hst : app.status = stStaked
        · simp only [hst, if_true]
          have hwt : wt app = app.tokens := wt_staked hst
          obtain ⟨s2, hb⟩ := burnStaked_ok (s := delStaked s a app) (amt := app.tokens) (by simp; omega)
          simp only [hb]
          obtain ⟨ha2, hp2⟩ := burnStaked_spec hb
          refine Keeps.of_put a { app with tokens := 0, status := stUnstaked } (-app.tokens) ?_ ?_ ?_ ?_
          · rcases hp2 with ⟨h1, h2⟩ | ⟨h1, h2⟩
            · simp [h2]; omega
            · simp [h2]; omega
          · simp [ha2]
          · intro _; simp
          · rw [hcur]; simp only [wtOpt]
            rw [wt_unstaked (app := { app with tokens := 0, status := stUnstaked }) rfl]; omega
        · simp only [hst, if_false]
          by_cases hu : app.status = stUnstaking
          · simp only [hu, if_true]
            have hwt : wt app = app.tokens := wt_unstaking hu
            obtain ⟨s2, hb⟩ := burnStaked_ok
              (s := deleteApplication { s with queue := queueRemove s.queue app.unstakingTime a } a) (amt := app.tokens) (by simp; omega)
            simp only [hb]
            obtain ⟨ha2, hp2⟩ := burnStaked_spec hb
            refine Keeps.of_del a (-app.tokens) ?_ ?_ ?_
            · rcases hp2 with ⟨h1, h2⟩ | ⟨h1, h2⟩
              · simp [h2]; omega
              · simp [h2]; omega
            · simp [ha2]
            · rw [hcur]; simp only [wtOpt]; omega
          · simp only [hu, if_false]
            refine Keeps.of_del a 0 ?_ ?_ ?_
            · simp
            · simp
            · rw [hcur]; simp only [wtOpt]
              have : bonded app = false := by simp [bonded, hst, hu]
              simp [wt, this]
  · exact hk.wf w
  · exact hk.ex w

theorem jail_keeps (s : St) (a : Addr) : Keeps s (jail s a) := by
  unfold jail
  cases hcur : get s.apps a with
  | none => exact Keeps.refl s
  | some app =>
    simp only
    split
    · exact Keeps.refl s
    · refine Keeps.of_put a { app with jailed := true } 0 ?_ ?_ ?_ ?_
      · simp
      · simp
      · intro w; simpa using nonneg_get w.nonneg hcur
      · rw [hcur]; simp [wtOpt, wt, bonded]

theorem unjail_keeps (s : St) (a : Addr) : Keeps s (unjail s a) := by
  unfold unjail
  cases hcur : get s.apps a with
  | none => exact Keeps.refl s
  | some app =>
    simp only
    split
    · refine Keeps.of_put a { app with jailed := false } 0 ?_ ?_ ?_ ?_
      · simp
      · simp
      · intro w; simpa using nonneg_get w.nonneg hcur
      · rw [hcur]; simp [wtOpt, wt, bonded]
    · exact Keeps.refl s

/-! ## All operations -/

theorem donate_spec (s : St) (src : Addr) (amt : Int) :
    (donate s src amt).apps = s.apps ∧ (donate s src amt).pool = s.pool + donated s (.donate src amt) := by
  unfold donate donated
  by_cases h : amt ≤ 0 ∨ balOf s src < amt <;> simp [h]

/-- Every operation other than `donate` keeps well-formedness and the excess. -/
theorem step_keeps (s : St) (op : Op) (h : ∀ src amt, op ≠ .donate src amt) : Keeps s (step s op) := by
  cases op with
  | stake signer m fee => exact deliverStake_keeps s signer m fee
  | unstake signer a fee => exact deliverUnstake_keeps s signer a fee
  | beginBlock t => exact Keeps.of_same rfl rfl
  | endBlock => exact endBlock_keeps s
  | force a => exact forceUnstake_keeps s a
  | jail a => exact jail_keeps s a
  | unjail a => exact unjail_keeps s a
  | ext e => exact Keeps.of_same rfl rfl
  | donate src amt => exact absurd rfl (h src amt)

/-- General form: the excess moves exactly by what `donate` operations sent to the pool. -/
theorem step_excess (s : St) (op : Op) (w : WF s) :
    WF (step s op) ∧ excess (step s op) = excess s + donated s op := by
  cases op with
  | donate src amt =>
    obtain ⟨ha, hp⟩ := donate_spec s src amt
    have hd : 0 ≤ donated s (.donate src amt) := by unfold donated; split <;> omega
    have he : excess (step s (.donate src amt)) = excess s + donated s (.donate src amt) := by
      show excess (donate s src amt) = _
      unfold excess; rw [ha, hp]; omega
    refine ⟨⟨?_, ?_, ?_⟩, he⟩
    · show NodupKeys (donate s src amt).apps; rw [ha]; exact w.nodup
    · show NonNeg (donate s src amt).apps; rw [ha]; exact w.nonneg
    · rw [he]; have := w.covers; omega
  | stake signer m fee =>
    have k := step_keeps s (.stake signer m fee) (by intro _ _ h; cases h)
    exact ⟨k.wf w, by rw [k.ex w]; simp [donated]⟩
  | unstake signer a fee =>
    have k := step_keeps s (.unstake signer a fee) (by intro _ _ h; cases h)
    exact ⟨k.wf w, by rw [k.ex w]; simp [donated]⟩
  | beginBlock t =>
    have k := step_keeps s (.beginBlock t) (by intro _ _ h; cases h)
    exact ⟨k.wf w, by rw [k.ex w]; simp [donated]⟩
  | endBlock =>
    have k := step_keeps s .endBlock (by intro _ _ h; cases h)
    exact ⟨k.wf w, by rw [k.ex w]; simp [donated]⟩
  | force a =>
    have k := step_keeps s (.force a) (by intro _ _ h; cases h)
    exact ⟨k.wf w, by rw [k.ex w]; simp [donated]⟩
  | jail a =>
    have k := step_keeps s (.jail a) (by intro _ _ h; cases h)
    exact ⟨k.wf w, by rw [k.ex w]; simp [donated]⟩
  | unjail a =>
    have k := step_keeps s (.unjail a) (by intro _ _ h; cases h)
    exact ⟨k.wf w, by rw [k.ex w]; simp [donated]⟩
  | ext e =>
    have k := step_keeps s (.ext e) (by intro _ _ h; cases h)
    exact ⟨k.wf w, by rw [k.ex w]; simp [donated]⟩

end Apps
