import Proofs.Ledger.NodesC22
import Proofs.Ledger.NodesSound
/-!
# `InitGenesis` establishes the invariants when every genesis validator is staked
-/
namespace Nodes
open Spec

/-- `genesisOne` with the pool credited at once (the real code credits the sum at the end) -/
def genesisOne' (s : State) (v : Val) : State := { genesisOne s v with pool := s.pool + v.tokens }

theorem inv_genesisOne' {s : State} (hi : Inv s) (v : Val) (hn : aget s.vals v.addr = none) (hs : v.status = .staked)
    (h0 : 0 ≤ v.tokens) : Inv (genesisOne' s v) := by
  unfold genesisOne' genesisOne
  simp only
  suffices hmain : Inv { setChains (setValidator s v) v with pool := s.pool + v.tokens } by
    split
    · exact hmain
    · exact hmain.congr rfl rfl rfl rfl rfl hmain.waitNodup
  refine hi.replace (a := v.addr) (new := some v) ⟨?_⟩ ⟨?_, ?_, ?_, ?_, ?_, ?_, ?_, ?_⟩
  · intro w hw
    injection hw with hw; subst hw
    exact ⟨rfl, h0, by rw [hs]; simp⟩
  · simp [setValidator_vals]
  · intro x
    simp only [setChains_stakedIdx]
    rw [mem_setValidator_staked]
    constructor
    · rintro (h1 | ⟨h1, h2, h3⟩)
      · exact Or.inl ⟨h1, hi.staked_absent hn x h1⟩
      · exact Or.inr ⟨v, rfl, h1, h2, h3⟩
    · rintro (⟨h1, _⟩ | ⟨w, hw, h1, h2, h3⟩)
      · exact Or.inl h1
      · injection hw with hw; subst hw; exact Or.inr ⟨h1, h2, h3⟩
  · simp only [setChains_stakedIdx]
    exact nodup_setValidator_staked _ _ hi.idxNodup
  · intro x
    show x ∈ (setChains (setValidator s v) v).chainIdx ↔ _
    rw [mem_setChains, setValidator_chainIdx]
    constructor
    · rintro (h1 | ⟨h1, h2⟩)
      · exact Or.inl ⟨h1, hi.chain_absent hn x h1⟩
      · exact Or.inr ⟨v, rfl, hs, h1, h2⟩
    · rintro (⟨h1, _⟩ | ⟨w, hw, _, h2, h3⟩)
      · exact Or.inl h1
      · injection hw with hw; subst hw; exact Or.inr ⟨h2, h3⟩
  · intro t b
    show b ∈ getQ (setChains (setValidator s v) v) t ↔ _
    rw [getQ_setChains, mem_getQ_setValidator]
    constructor
    · rintro (h1 | ⟨h1, _⟩)
      · exact Or.inl ⟨h1, hi.queue_absent hn t b h1⟩
      · rw [hs] at h1; cases h1
    · rintro (⟨h1, _⟩ | ⟨w, hw, h2, _⟩)
      · exact Or.inl h1
      · injection hw with hw; subst hw; rw [hs] at h2; cases h2
  · simp [hn, contribOpt, contrib, bonded, hs]
  · simp
  · simp only [setChains_unstQ]
    exact nodup_setValidator_unstQ _ _ hi.qNodup

theorem genesisOne'_vals (s : State) (v : Val) (b : Addr) :
    aget (genesisOne' s v).vals b = if b = v.addr then some v else aget s.vals b := by
  unfold genesisOne' genesisOne
  simp only
  split <;> simp [setValidator_vals, aget_aset]

theorem inv_genesisFold' (vs : List Val) {s : State} (hi : Inv s)
    (hst : ∀ v ∈ vs, v.status = .staked ∧ 0 ≤ v.tokens) (hnd : (vs.map (·.addr)).Nodup)
    (hfresh : ∀ v ∈ vs, aget s.vals v.addr = none) : Inv (vs.foldl genesisOne' s) := by
  induction vs generalizing s with
  | nil => exact hi
  | cons v t ih =>
    simp only [List.foldl_cons]
    simp only [List.map_cons, List.nodup_cons] at hnd
    have hv := hst v List.mem_cons_self
    apply ih (inv_genesisOne' hi v (hfresh v List.mem_cons_self) hv.1 hv.2)
      (fun w hw => hst w (List.mem_cons_of_mem _ hw)) hnd.2
    intro w hw
    rw [genesisOne'_vals]
    have hne : w.addr ≠ v.addr := fun e => hnd.1 (List.mem_map.mpr ⟨w, hw, e⟩)
    rw [if_neg hne]
    exact hfresh w (List.mem_cons_of_mem _ hw)

/-- crediting the pool commutes with `genesisOne` -/
theorem genesisOne_pool (s : State) (k : Int) (v : Val) :
    genesisOne { s with pool := k } v = { genesisOne s v with pool := k } := by
  unfold genesisOne
  simp only
  have e1 : setChains (setValidator { s with pool := k } v) v = { setChains (setValidator s v) v with pool := k } := by
    unfold setChains setValidator setUnstaking setStaked getQ
    cases hs : v.status <;> cases hj : v.jailed <;> simp
  rw [e1]
  simp only
  split <;> rfl

theorem genesisFold_eq (vs : List Val) (s : State) :
    vs.foldl genesisOne' s = { vs.foldl genesisOne s with pool := s.pool + (vs.map (·.tokens)).sum } := by
  induction vs generalizing s with
  | nil => simp
  | cons v t ih =>
    simp only [List.foldl_cons, List.map_cons, List.sum_cons]
    rw [ih]
    unfold genesisOne'
    have : ∀ (l : List Val) (x : State) (k : Int), l.foldl genesisOne { x with pool := k } = { l.foldl genesisOne x with pool := k } := by
      intro l
      induction l with
      | nil => intro x k; rfl
      | cons w r ihr =>
        intro x k
        simp only [List.foldl_cons]
        rw [genesisOne_pool, ihr]
    rw [this]
    simp only
    congr 1
    omega

/-- **Genesis.** If every genesis validator is staked (distinct addresses, non-negative stakes) `InitGenesis`
produces a state satisfying the store invariant and the bookkeeping invariant. -/
theorem inv2_initGenesis (p : Params) (vs : List Val) (bal : List (Addr × Int)) (supply0 : Int)
    (hst : ∀ v ∈ vs, v.status = .staked ∧ 0 ≤ v.tokens) (hnd : (vs.map (·.addr)).Nodup) :
    Inv2 (initGenesis p vs bal supply0) := by
  have h0 : Inv ({ params := p, bal := bal, supply := supply0 } : State) :=
    (inv_empty p).congr rfl rfl rfl rfl rfl (by simp)
  have h1 := inv_genesisFold' vs h0 hst hnd (fun _ _ => rfl)
  rw [genesisFold_eq] at h1
  have hsum : ((vs.filter fun v => decide (v.status = .staked)).map (·.tokens)).sum = (vs.map (·.tokens)).sum := by
    have : vs.filter (fun v => decide (v.status = .staked)) = vs := by
      apply List.filter_eq_self.mpr
      intro v hv; simp [(hst v hv).1]
    rw [this]
  have hI : Inv (initGenesis p vs bal supply0) := by
    unfold initGenesis
    simp only
    rw [hsum]
    exact h1.congr rfl rfl rfl rfl (by simp) h1.waitNodup
  refine ⟨hI, ?_⟩
  have hframe : ∀ (l : List Val) (x : State), (l.foldl genesisOne x).prevPower = x.prevPower ∧ (l.foldl genesisOne x).tmSet = x.tmSet := by
    intro l
    induction l with
    | nil => intro x; exact ⟨rfl, rfl⟩
    | cons w r ih =>
      intro x
      simp only [List.foldl_cons]
      obtain ⟨a1, a2⟩ := ih (genesisOne x w)
      rw [a1, a2]
      unfold genesisOne
      simp only
      split <;> simp
  obtain ⟨f1, f2⟩ := hframe vs { params := p, bal := bal, supply := supply0 }
  have e1 : (initGenesis p vs bal supply0).prevPower = [] := by unfold initGenesis; simp only; rw [f1]
  have e2 : (initGenesis p vs bal supply0).tmSet = [] := by unfold initGenesis; simp only; rw [f2]
  exact ⟨by rw [e1]; simp, by rw [e2]; simp, fun a => by rw [e1, e2], fun a q h => by rw [e1] at h; cases h⟩

end Nodes
