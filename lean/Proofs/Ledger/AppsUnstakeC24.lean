import Proofs.Ledger.AppsQueue
/-!
# C24, application half: an application leaves the staked state only through its own begin-unstake request and
is paid out once, in the first block whose time reaches the completion time

Model: `PocketModel/Ledger/Apps.lean` (applications package).  The lemmas about duplicate queue entries are
`Proofs/Ledger/AppsQueue.lean`; this file adds the request rule and the "nothing overdue after the end blocker"
statement.
-/
namespace Apps

/-- `MsgBeginUnstake` is accepted only when signed by the application itself, for a staked, unjailed record -/
theorem deliverUnstake_ok_requires {s : St} {signer a : Addr} {fee : Int} (hok : (deliverUnstake s signer a fee).1 = .ok) :
    signer = a ∧ ∃ s1 app, (deductFee s signer fee) = (.ok, s1) ∧ get s1.apps a = some app ∧ app.status = stStaked ∧ app.jailed = false := by
  unfold deliverUnstake at hok
  by_cases hs : signer = a
  · refine ⟨hs, ?_⟩
    rw [if_pos hs] at hok
    cases hd : deductFee s signer fee with
    | mk rc s1 =>
      rw [hd] at hok
      cases rc with
      | ok =>
        simp only at hok
        unfold handleUnstake at hok
        cases hg : get s1.apps a with
        | none => rw [hg] at hok; cases hok
        | some app =>
          rw [hg] at hok
          simp only at hok
          by_cases h1 : app.status ≠ stStaked
          · rw [if_pos h1] at hok; cases hok
          · rw [if_neg h1] at hok
            by_cases h2 : app.jailed = true
            · rw [if_pos h2] at hok; cases hok
            · exact ⟨s1, app, rfl, hg, by simpa using h1, by simpa using h2⟩
      | app c => simp at hok
      | sdk c => simp at hok
      | auth c => simp at hok
  · rw [if_neg hs] at hok; cases hok

/-- the end blocker's slot loop -/
def slotStep (st : St) (e : Int × List Addr) : St :=
  let st1 := e.2.foldl matureOne st
  { st1 with queue := del st1.queue e.1 }

theorem endBlock_eq_slots (s : St) :
    endBlock s = ((s.queue.filter (fun e => decide (e.1 ≤ s.time))).mergeSort (fun x y => decide (x.1 ≤ y.1))).foldl slotStep s := rfl

theorem finishable_queue_irrelevant (st : St) (q : List (Int × List Addr)) (a : Addr) :
    Finishable { st with queue := q } a ↔ Finishable st a := Iff.rfl

theorem not_finishable_fold {a : Addr} (l : List Addr) (t : St) (h : ¬ Finishable t a) : ¬ Finishable (l.foldl matureOne t) a := by
  induction l generalizing t with
  | nil => exact h
  | cons c l ih => exact ih (matureOne t c) (not_finishable_preserved h c)

theorem not_finishable_slotStep {st : St} {a : Addr} (h : ¬ Finishable st a) (e : Int × List Addr) :
    ¬ Finishable (slotStep st e) a := by
  unfold slotStep
  exact not_finishable_fold e.2 st h

theorem not_finishable_slots {a : Addr} (slots : List (Int × List Addr)) (st : St) (h : ¬ Finishable st a) :
    ¬ Finishable (slots.foldl slotStep st) a := by
  induction slots generalizing st with
  | nil => exact h
  | cons e t ih => exact ih _ (not_finishable_slotStep h e)

/-- an address listed in one of the processed slots is not finishable afterwards -/
theorem not_finishable_after_slots {a : Addr} (slots : List (Int × List Addr)) (st : St)
    (hm : ∃ e ∈ slots, a ∈ e.2) : ¬ Finishable (slots.foldl slotStep st) a := by
  induction slots generalizing st with
  | nil => obtain ⟨e, he, _⟩ := hm; cases he
  | cons e t ih =>
    simp only [List.foldl_cons]
    obtain ⟨e', he', ha⟩ := hm
    rcases List.mem_cons.mp he' with x | x
    · subst x
      apply not_finishable_slots
      unfold slotStep
      exact not_finishable_after_list e'.2 st a ha
    · exact ih _ ⟨e', x, ha⟩

/-- records only disappear in the end blocker; what is left is unchanged -/
theorem slots_get (slots : List (Int × List Addr)) (st : St) (b : Addr) :
    get (slots.foldl slotStep st).apps b = get st.apps b ∨ get (slots.foldl slotStep st).apps b = none := by
  induction slots generalizing st with
  | nil => exact Or.inl rfl
  | cons e t ih =>
    simp only [List.foldl_cons]
    have inner : ∀ (l : List Addr) (x : St), get (l.foldl matureOne x).apps b = get x.apps b ∨ get (l.foldl matureOne x).apps b = none := by
      intro l
      induction l with
      | nil => intro x; exact Or.inl rfl
      | cons c r ihr =>
        intro x
        simp only [List.foldl_cons]
        rcases ihr (matureOne x c) with h | h
        · rcases matureOne_get x c b with g | ⟨_, g⟩
          · exact Or.inl (h.trans g)
          · exact Or.inr (h.trans g)
        · exact Or.inr h
    rcases ih (slotStep st e) with h | h
    · rcases inner e.2 st with g | g
      · exact Or.inl (h.trans g)
      · exact Or.inr (h.trans g)
    · exact Or.inr h

/-- every unstaking, unjailed application is listed in the queue slot of its completion time -/
def QueueComplete (s : St) : Prop :=
  ∀ a app, get s.apps a = some app → app.status = stUnstaking → app.jailed = false →
    ∃ e ∈ s.queue, e.1 = app.unstakingTime ∧ a ∈ e.2

/-- **Nothing overdue after the end blocker**: if every unstaking application is queued under its completion
time, then after `unstakeAllMatureApplications` at block time `s.time` no unstaking, unjailed application with
completion time `≤ s.time` is left — the payout happens in the first block whose time is **at or after** the
completion time (equality included: the queue bound is inclusive and nothing else re-checks the time). -/
theorem endBlock_noOverdue {s : St} (hq : QueueComplete s) (a : Addr) (app : App)
    (hg : get (endBlock s).apps a = some app) (hs : app.status = stUnstaking) (hj : app.jailed = false) :
    s.time < app.unstakingTime := by
  by_cases hlt : s.time < app.unstakingTime
  · exact hlt
  · exfalso
    rw [endBlock_eq_slots] at hg
    -- the record is the one of `s`
    have hg0 : get s.apps a = some app := by
      rcases slots_get _ s a with h | h
      · rw [h] at hg; exact hg
      · rw [h] at hg; cases hg
    obtain ⟨e, he, het, hae⟩ := hq a app hg0 hs hj
    have hmem : e ∈ (s.queue.filter (fun e => decide (e.1 ≤ s.time))).mergeSort (fun x y => decide (x.1 ≤ y.1)) := by
      rw [List.mem_mergeSort, List.mem_filter]
      exact ⟨he, by simp [het]; omega⟩
    exact not_finishable_after_slots _ s ⟨e, hmem, hae⟩ ⟨app, hg, hs, hj⟩

/-- the payout itself: the whole stake, to the application's own address, record deleted (when the pool covers it,
which `Props/C20` proves for every history) -/
theorem finishUnstaking_pays (s : St) (a : Addr) (app : App) (hp : app.tokens ≤ s.pool) :
    get (finishUnstaking s a app).apps a = none ∧ (finishUnstaking s a app).pool = s.pool - app.tokens ∧
    balOf (finishUnstaking s a app) a = balOf s a + app.tokens := by
  refine ⟨by rw [finishUnstaking_get]; simp, ?_, ?_⟩
  · unfold finishUnstaking fromPool
    simp only
    rw [if_neg (show ¬ ({ s with queue := queueRemove s.queue app.unstakingTime a } : St).pool < app.tokens from by show ¬ s.pool < app.tokens; omega)]
    unfold deleteApplication setApplication
    simp only
    split <;> split <;> rfl
  · unfold finishUnstaking fromPool
    simp only
    rw [if_neg (show ¬ ({ s with queue := queueRemove s.queue app.unstakingTime a } : St).pool < app.tokens from by show ¬ s.pool < app.tokens; omega)]
    unfold deleteApplication setApplication balOf
    simp only
    split <;> split <;> simp [get_put_self]

end Apps
