import PocketModel.Ledger.Bank
/-!
# Lemmas about the bank model (C17, C18; reused by C36)
-/
namespace Ledger
open Accounts

namespace Accounts

theorem get_set (l : Accounts) (a b : Addr) (v : Account) :
    get (set l a v) b = if a = b then some v else get l b := by
  induction l with
  | nil => simp [set, get]
  | cons p r ih =>
    obtain ⟨k, w⟩ := p
    by_cases hk : k = a
    · subst hk
      by_cases hb : k = b <;> simp [set, get, hb]
    · by_cases hb : k = b
      · subst hb
        have : ¬ a = k := fun h => hk h.symm
        simp [set, get, hk, this]
      · simp [set, get, hk, hb, ih]

theorem balOf_set (l : Accounts) (a b : Addr) (v : Account) :
    balOf (set l a v) b = if a = b then v.bal else balOf l b := by
  unfold balOf
  rw [get_set]
  by_cases h : a = b <;> simp [h]

theorem total_set (l : Accounts) (a : Addr) (v : Account) :
    total (set l a v) = total l - balOf l a + v.bal := by
  induction l with
  | nil => simp [set, total, balOf, get]
  | cons p r ih =>
    obtain ⟨k, w⟩ := p
    by_cases hk : k = a
    · subst hk
      simp [set, total, balOf, get]
      omega
    · simp only [set, hk, if_false, total, ih]
      have : balOf ((k, w) :: r) a = balOf r a := by simp [balOf, get, hk]
      rw [this]
      omega

theorem mem_set (l : Accounts) (a : Addr) (v : Account) (p : Addr × Account)
    (h : p ∈ set l a v) : p ∈ l ∨ p = (a, v) := by
  induction l with
  | nil => simp [set] at h; exact Or.inr h
  | cons q r ih =>
    obtain ⟨k, w⟩ := q
    by_cases hk : k = a
    · subst hk
      simp [set] at h
      rcases h with h | h
      · exact Or.inr h
      · exact Or.inl (List.mem_cons_of_mem _ h)
    · simp [set, hk] at h
      rcases h with h | h
      · exact Or.inl (h ▸ List.mem_cons_self)
      · rcases ih h with h' | h'
        · exact Or.inl (List.mem_cons_of_mem _ h')
        · exact Or.inr h'

/-- A balance that can be read back is one of the summands. -/
theorem get_mem (l : Accounts) (a : Addr) (v : Account) (h : get l a = some v) : (a, v) ∈ l := by
  induction l with
  | nil => simp [get] at h
  | cons q r ih =>
    obtain ⟨k, w⟩ := q
    by_cases hk : k = a
    · subst hk
      simp [get] at h
      subst h
      exact List.mem_cons_self
    · simp [get, hk] at h
      exact List.mem_cons_of_mem _ (ih h)

end Accounts

namespace Bank

/-! ## `SetCoins` -/

theorem setCoins_err (b : Bank) (a : Addr) (x : Int) (e : Err) (h : (setCoins b a x).err = some e) :
    (setCoins b a x).st = b := by
  unfold setCoins at *
  by_cases hx : x < 0 <;> simp [hx] at h ⊢

theorem setCoins_ok_iff (b : Bank) (a : Addr) (x : Int) : (setCoins b a x).err = none ↔ 0 ≤ x := by
  unfold setCoins
  by_cases hx : x < 0 <;> simp [hx] <;> omega

theorem setCoins_supply (b : Bank) (a : Addr) (x : Int) : (setCoins b a x).st.supply = b.supply := by
  unfold setCoins
  by_cases hx : x < 0 <;> simp [hx]

theorem setCoins_total (b : Bank) (a : Addr) (x : Int) (h : (setCoins b a x).err = none) :
    (setCoins b a x).st.accts.total = b.accts.total - b.balOf a + x := by
  unfold setCoins at *
  by_cases hx : x < 0
  · simp [hx] at h
  · simp [hx, total_set, Bank.balOf]

theorem setCoins_balOf (b : Bank) (a c : Addr) (x : Int) (h : (setCoins b a x).err = none) :
    (setCoins b a x).st.balOf c = if a = c then x else b.balOf c := by
  unfold setCoins at *
  by_cases hx : x < 0
  · simp [hx] at h
  · simp [hx, Bank.balOf, balOf_set]

theorem setCoins_get_other (b : Bank) (a c : Addr) (x : Int) (hc : a ≠ c) :
    (setCoins b a x).st.accts.get c = b.accts.get c := by
  unfold setCoins
  by_cases hx : x < 0
  · simp [hx]
  · simp [hx, get_set, hc]

theorem setCoins_get_self (b : Bank) (a : Addr) (x : Int) (h : (setCoins b a x).err = none) :
    (setCoins b a x).st.accts.get a =
      some { bal := x, module := (b.accts.get a).bind (·.module) } := by
  unfold setCoins at *
  by_cases hx : x < 0
  · simp [hx] at h
  · simp [hx, get_set]
    cases b.accts.get a <;> simp

theorem setCoins_nonneg (b : Bank) (a : Addr) (x : Int) (hb : NonNeg b) : NonNeg (setCoins b a x).st := by
  unfold setCoins
  by_cases hx : x < 0
  · simpa [hx] using hb
  · simp only [hx, if_false]
    intro p hp
    rcases mem_set _ _ _ _ hp with h | h
    · exact hb p h
    · subst h; simp; omega

/-! ## `SubtractCoins` / `AddCoins` -/

theorem subtractCoins_err (b : Bank) (a : Addr) (x : Int) (e : Err)
    (h : (subtractCoins b a x).err = some e) : (subtractCoins b a x).st = b := by
  unfold subtractCoins at *
  by_cases hx : x < 0
  · simp [hx]
  · by_cases hi : b.balOf a - x < 0
    · simp [hx, hi]
    · simp only [hx, hi, if_false] at h ⊢
      exact setCoins_err _ _ _ e h

theorem subtractCoins_ok_iff (b : Bank) (a : Addr) (x : Int) :
    (subtractCoins b a x).err = none ↔ 0 ≤ x ∧ x ≤ b.balOf a := by
  unfold subtractCoins
  by_cases hx : x < 0
  · simp [hx]; omega
  · by_cases hi : b.balOf a - x < 0
    · simp [hx, hi]; omega
    · simp only [hx, hi, if_false, setCoins_ok_iff]; omega

theorem subtractCoins_supply (b : Bank) (a : Addr) (x : Int) : (subtractCoins b a x).st.supply = b.supply := by
  unfold subtractCoins
  by_cases hx : x < 0
  · simp [hx]
  · by_cases hi : b.balOf a - x < 0
    · simp [hx, hi]
    · simp only [hx, hi, if_false, setCoins_supply]

/-- A successful `SubtractCoins` lowers Σ by exactly the amount. -/
theorem subtractCoins_total (b : Bank) (a : Addr) (x : Int) (h : (subtractCoins b a x).err = none) :
    (subtractCoins b a x).st.accts.total = b.accts.total - x := by
  unfold subtractCoins at *
  by_cases hx : x < 0
  · simp [hx] at h
  · by_cases hi : b.balOf a - x < 0
    · simp [hx, hi] at h
    · simp only [hx, hi, if_false] at h ⊢
      rw [setCoins_total _ _ _ h]; omega

theorem subtractCoins_balOf (b : Bank) (a c : Addr) (x : Int) (h : (subtractCoins b a x).err = none) :
    (subtractCoins b a x).st.balOf c = if a = c then b.balOf a - x else b.balOf c := by
  unfold subtractCoins at *
  by_cases hx : x < 0
  · simp [hx] at h
  · by_cases hi : b.balOf a - x < 0
    · simp [hx, hi] at h
    · simp only [hx, hi, if_false] at h ⊢
      exact setCoins_balOf _ _ _ _ h

theorem subtractCoins_get_other (b : Bank) (a c : Addr) (x : Int) (hc : a ≠ c) :
    (subtractCoins b a x).st.accts.get c = b.accts.get c := by
  unfold subtractCoins
  by_cases hx : x < 0
  · simp [hx]
  · by_cases hi : b.balOf a - x < 0
    · simp [hx, hi]
    · simp only [hx, hi, if_false]
      exact setCoins_get_other _ _ _ _ hc

theorem subtractCoins_nonneg (b : Bank) (a : Addr) (x : Int) (hb : NonNeg b) :
    NonNeg (subtractCoins b a x).st := by
  unfold subtractCoins
  by_cases hx : x < 0
  · simpa [hx] using hb
  · by_cases hi : b.balOf a - x < 0
    · simpa [hx, hi] using hb
    · simp only [hx, hi, if_false]
      exact setCoins_nonneg _ _ _ hb

theorem addCoins_err (b : Bank) (a : Addr) (x : Int) (e : Err)
    (h : (addCoins b a x).err = some e) : (addCoins b a x).st = b := by
  unfold addCoins at *
  by_cases hx : x < 0
  · simp [hx]
  · by_cases hi : b.balOf a + x < 0
    · simp [hx, hi]
    · simp only [hx, hi, if_false] at h ⊢
      exact setCoins_err _ _ _ e h

theorem addCoins_ok_iff (b : Bank) (a : Addr) (x : Int) :
    (addCoins b a x).err = none ↔ 0 ≤ x ∧ 0 ≤ b.balOf a + x := by
  unfold addCoins
  by_cases hx : x < 0
  · simp [hx]; omega
  · by_cases hi : b.balOf a + x < 0
    · simp [hx, hi]
    · simp only [hx, hi, if_false, setCoins_ok_iff]; omega

theorem addCoins_supply (b : Bank) (a : Addr) (x : Int) : (addCoins b a x).st.supply = b.supply := by
  unfold addCoins
  by_cases hx : x < 0
  · simp [hx]
  · by_cases hi : b.balOf a + x < 0
    · simp [hx, hi]
    · simp only [hx, hi, if_false, setCoins_supply]

/-- A successful `AddCoins` raises Σ by exactly the amount. -/
theorem addCoins_total (b : Bank) (a : Addr) (x : Int) (h : (addCoins b a x).err = none) :
    (addCoins b a x).st.accts.total = b.accts.total + x := by
  unfold addCoins at *
  by_cases hx : x < 0
  · simp [hx] at h
  · by_cases hi : b.balOf a + x < 0
    · simp [hx, hi] at h
    · simp only [hx, hi, if_false] at h ⊢
      rw [setCoins_total _ _ _ h]; omega

theorem addCoins_balOf (b : Bank) (a c : Addr) (x : Int) (h : (addCoins b a x).err = none) :
    (addCoins b a x).st.balOf c = if a = c then b.balOf a + x else b.balOf c := by
  unfold addCoins at *
  by_cases hx : x < 0
  · simp [hx] at h
  · by_cases hi : b.balOf a + x < 0
    · simp [hx, hi] at h
    · simp only [hx, hi, if_false] at h ⊢
      exact setCoins_balOf _ _ _ _ h

theorem addCoins_get_other (b : Bank) (a c : Addr) (x : Int) (hc : a ≠ c) :
    (addCoins b a x).st.accts.get c = b.accts.get c := by
  unfold addCoins
  by_cases hx : x < 0
  · simp [hx]
  · by_cases hi : b.balOf a + x < 0
    · simp [hx, hi]
    · simp only [hx, hi, if_false]
      exact setCoins_get_other _ _ _ _ hc

theorem addCoins_get_self (b : Bank) (a : Addr) (x : Int) (h : (addCoins b a x).err = none) :
    (addCoins b a x).st.accts.get a =
      some { bal := b.balOf a + x, module := (b.accts.get a).bind (·.module) } := by
  unfold addCoins at *
  by_cases hx : x < 0
  · simp [hx] at h
  · by_cases hi : b.balOf a + x < 0
    · simp [hx, hi] at h
    · simp only [hx, hi, if_false] at h ⊢
      exact setCoins_get_self _ _ _ h

theorem addCoins_nonneg (b : Bank) (a : Addr) (x : Int) (hb : NonNeg b) : NonNeg (addCoins b a x).st := by
  unfold addCoins
  by_cases hx : x < 0
  · simpa [hx] using hb
  · by_cases hi : b.balOf a + x < 0
    · simpa [hx, hi] using hb
    · simp only [hx, hi, if_false]
      exact setCoins_nonneg _ _ _ hb

/-- Under `NonNeg`, every readable balance is non-negative. -/
theorem balOf_nonneg (b : Bank) (hb : NonNeg b) (a : Addr) : 0 ≤ b.balOf a := by
  unfold Bank.balOf Accounts.balOf
  cases h : b.accts.get a with
  | none => simp
  | some v => exact hb _ (get_mem _ _ _ h)

/-! ## `SendCoins` -/

theorem sendCoins_of_err (b : Bank) (s d : Addr) (x : Int) (e : Err)
    (h : (subtractCoins b s x).err = some e) :
    sendCoins b s d x = ⟨(subtractCoins b s x).st, some e⟩ := by simp [sendCoins, h]

theorem sendCoins_of_ok (b : Bank) (s d : Addr) (x : Int) (h : (subtractCoins b s x).err = none) :
    sendCoins b s d x = addCoins (subtractCoins b s x).st d x := by simp [sendCoins, h]

theorem sendCoins_supply (b : Bank) (s d : Addr) (x : Int) : (sendCoins b s d x).st.supply = b.supply := by
  cases h : (subtractCoins b s x).err with
  | some e => rw [sendCoins_of_err _ _ _ _ e h]; exact subtractCoins_supply b s x
  | none => rw [sendCoins_of_ok _ _ _ _ h, addCoins_supply, subtractCoins_supply]

theorem sendCoins_nonneg (b : Bank) (s d : Addr) (x : Int) (hb : NonNeg b) : NonNeg (sendCoins b s d x).st := by
  cases h : (subtractCoins b s x).err with
  | some e => rw [sendCoins_of_err _ _ _ _ e h]; exact subtractCoins_nonneg b s x hb
  | none => rw [sendCoins_of_ok _ _ _ _ h]; exact addCoins_nonneg _ d x (subtractCoins_nonneg b s x hb)

/-- After a successful debit the credit cannot fail (on non-negative balances). -/
theorem credit_ok_after_debit (b : Bank) (s d : Addr) (x : Int) (hb : NonNeg b)
    (h : (subtractCoins b s x).err = none) : (addCoins (subtractCoins b s x).st d x).err = none := by
  have h1 := (subtractCoins_ok_iff b s x).mp h
  have h2 := balOf_nonneg _ (subtractCoins_nonneg b s x hb) d
  exact (addCoins_ok_iff _ d x).mpr ⟨h1.1, by omega⟩

theorem sendCoins_ok_iff (b : Bank) (s d : Addr) (x : Int) (hb : NonNeg b) :
    (sendCoins b s d x).err = none ↔ 0 ≤ x ∧ x ≤ b.balOf s := by
  cases h : (subtractCoins b s x).err with
  | some e =>
    rw [sendCoins_of_err _ _ _ _ e h]
    have : ¬ (0 ≤ x ∧ x ≤ b.balOf s) := fun hc => by
      have := (subtractCoins_ok_iff b s x).mpr hc
      rw [this] at h; cases h
    simp [this]
  | none =>
    rw [sendCoins_of_ok _ _ _ _ h, credit_ok_after_debit b s d x hb h]
    simp [(subtractCoins_ok_iff b s x).mp h]

/-- A failing `SendCoins` has written nothing (on non-negative balances the only failures are
those of the debit, which come before any write). -/
theorem sendCoins_err (b : Bank) (s d : Addr) (x : Int) (hb : NonNeg b) (e : Err)
    (h : (sendCoins b s d x).err = some e) : (sendCoins b s d x).st = b := by
  cases h1 : (subtractCoins b s x).err with
  | some e' => rw [sendCoins_of_err _ _ _ _ e' h1]; exact subtractCoins_err b s x e' h1
  | none =>
    rw [sendCoins_of_ok _ _ _ _ h1, credit_ok_after_debit b s d x hb h1] at h
    cases h

/-- `SendCoins` never changes Σ (on non-negative balances): it either fails before writing or
debits and credits the same amount. -/
theorem sendCoins_total (b : Bank) (s d : Addr) (x : Int) (hb : NonNeg b) :
    (sendCoins b s d x).st.accts.total = b.accts.total := by
  cases hres : (sendCoins b s d x).err with
  | some e => rw [sendCoins_err b s d x hb e hres]
  | none =>
    cases h : (subtractCoins b s x).err with
    | some e' => rw [sendCoins_of_err _ _ _ _ e' h] at hres; cases hres
    | none =>
      rw [sendCoins_of_ok _ _ _ _ h] at hres ⊢
      rw [addCoins_total _ _ _ hres, subtractCoins_total _ _ _ h]; omega

/-- Balances after a successful `SendCoins`. -/
theorem sendCoins_balOf (b : Bank) (s d c : Addr) (x : Int) (h : (sendCoins b s d x).err = none) :
    (sendCoins b s d x).st.balOf c =
      (if d = c then (if s = d then b.balOf s - x else b.balOf d) + x
       else if s = c then b.balOf s - x else b.balOf c) := by
  cases h1 : (subtractCoins b s x).err with
  | some e' => rw [sendCoins_of_err _ _ _ _ e' h1] at h; cases h
  | none =>
    rw [sendCoins_of_ok _ _ _ _ h1] at h ⊢
    rw [addCoins_balOf _ _ _ _ h]
    by_cases hd : d = c
    · subst hd
      simp only [if_true, subtractCoins_balOf _ _ _ _ h1]
    · simp only [hd, if_false, subtractCoins_balOf _ _ _ _ h1]

theorem sendCoins_get_other (b : Bank) (s d c : Addr) (x : Int) (hs : s ≠ c) (hd : d ≠ c) :
    (sendCoins b s d x).st.accts.get c = b.accts.get c := by
  cases h1 : (subtractCoins b s x).err with
  | some e' => rw [sendCoins_of_err _ _ _ _ e' h1]; exact subtractCoins_get_other _ _ _ _ hs
  | none =>
    rw [sendCoins_of_ok _ _ _ _ h1, addCoins_get_other _ _ _ _ hd, subtractCoins_get_other _ _ _ _ hs]

/-! ## Module accounts -/

theorem getModuleAccount_supply (mt : ModTable) (b : Bank) (m : String) :
    (getModuleAccount mt b m).1.supply = b.supply := by
  unfold getModuleAccount
  cases mt.find m with
  | none => rfl
  | some mi =>
    simp only
    cases h : b.accts.get mi.addr with
    | none => rfl
    | some acc => simp only; split <;> rfl

theorem getModuleAccount_total (mt : ModTable) (b : Bank) (m : String) :
    (getModuleAccount mt b m).1.accts.total = b.accts.total := by
  unfold getModuleAccount
  cases mt.find m with
  | none => rfl
  | some mi =>
    simp only
    cases h : b.accts.get mi.addr with
    | none => simp [total_set, Accounts.balOf, h]
    | some acc => simp only; split <;> rfl

theorem getModuleAccount_nonneg (mt : ModTable) (b : Bank) (m : String) (hb : NonNeg b) :
    NonNeg (getModuleAccount mt b m).1 := by
  unfold getModuleAccount
  cases mt.find m with
  | none => exact hb
  | some mi =>
    simp only
    cases h : b.accts.get mi.addr with
    | none =>
      intro p hp
      rcases mem_set _ _ _ _ hp with h' | h'
      · exact hb p h'
      · subst h'; simp
    | some acc => simp only; split <;> exact hb

/-- Reading a module account never changes a balance. -/
theorem getModuleAccount_balOf (mt : ModTable) (b : Bank) (m : String) (c : Addr) :
    (getModuleAccount mt b m).1.balOf c = b.balOf c := by
  unfold getModuleAccount
  cases mt.find m with
  | none => rfl
  | some mi =>
    simp only
    cases h : b.accts.get mi.addr with
    | none =>
      simp only [Bank.balOf, balOf_set]
      by_cases hc : mi.addr = c
      · subst hc; simp [Accounts.balOf, h]
      · simp [hc]
    | some acc => simp only; split <;> rfl

/-! ## One step: supply, Σ and sign of balances -/

/-- The combined invariant carried through histories. -/
def Good (b : Bank) : Prop := SupplyInv b ∧ NonNeg b

theorem mintCoins_good (mt : ModTable) (b : Bank) (m : String) (x : Int) (hg : Good b) :
    Good (mintCoins mt b m x).st := by
  obtain ⟨hs, hn⟩ := hg
  have hn1 := getModuleAccount_nonneg mt b m hn
  have ht1 := getModuleAccount_total mt b m
  have hs1 := getModuleAccount_supply mt b m
  have g1 : Good (getModuleAccount mt b m).1 := ⟨by unfold SupplyInv at *; omega, hn1⟩
  unfold mintCoins
  rcases hgm : getModuleAccount mt b m with ⟨b1, r⟩
  rw [hgm] at g1
  cases r with
  | missing => exact g1
  | broken => exact g1
  | ok mi =>
    simp only
    by_cases hp : mi.minter
    · simp only [hp, Bool.not_true, Bool.false_eq_true, if_false]
      cases ha : (addCoins b1 mi.addr x).err with
      | some e => simp only; rw [addCoins_err _ _ _ e ha]; exact g1
      | none =>
        simp only
        refine ⟨?_, addCoins_nonneg _ _ _ g1.2⟩
        unfold SupplyInv
        simp only [addCoins_supply, addCoins_total _ _ _ ha]
        have := g1.1; simp only [SupplyInv] at this; omega
    · simp only [hp, Bool.not_false, if_true]; exact g1

theorem burnCoins_good (mt : ModTable) (b : Bank) (m : String) (x : Int) (hg : Good b) :
    Good (burnCoins mt b m x).st := by
  obtain ⟨hs, hn⟩ := hg
  have hn1 := getModuleAccount_nonneg mt b m hn
  have ht1 := getModuleAccount_total mt b m
  have hs1 := getModuleAccount_supply mt b m
  have g1 : Good (getModuleAccount mt b m).1 := ⟨by unfold SupplyInv at *; omega, hn1⟩
  unfold burnCoins
  rcases hgm : getModuleAccount mt b m with ⟨b1, r⟩
  rw [hgm] at g1
  cases r with
  | missing => exact g1
  | broken => exact g1
  | ok mi =>
    simp only
    by_cases hp : mi.burner
    · simp only [hp, Bool.not_true, Bool.false_eq_true, if_false]
      cases ha : (subtractCoins b1 mi.addr x).err with
      | some e => simp only; rw [subtractCoins_err _ _ _ e ha]; exact g1
      | none =>
        simp only
        refine ⟨?_, subtractCoins_nonneg _ _ _ g1.2⟩
        unfold SupplyInv
        simp only [subtractCoins_supply, subtractCoins_total _ _ _ ha]
        have := g1.1; simp only [SupplyInv] at this; omega
    · simp only [hp, Bool.not_false, if_true]; exact g1

theorem sendCoins_good (b : Bank) (s d : Addr) (x : Int) (hg : Good b) : Good (sendCoins b s d x).st := by
  refine ⟨?_, sendCoins_nonneg _ _ _ _ hg.2⟩
  unfold SupplyInv
  rw [sendCoins_supply, sendCoins_total _ _ _ _ hg.2]
  exact hg.1

theorem getModuleAccount_good (mt : ModTable) (b : Bank) (m : String) (hg : Good b) :
    Good (getModuleAccount mt b m).1 := by
  refine ⟨?_, getModuleAccount_nonneg mt b m hg.2⟩
  unfold SupplyInv
  rw [getModuleAccount_supply, getModuleAccount_total]
  exact hg.1

/-- Every bank operation preserves `supply = Σ balances` and the sign of balances — whether it
succeeds or fails half-way. -/
theorem step_good (mt : ModTable) (b : Bank) (op : Op) (hg : Good b) : Good (step mt b op).st := by
  cases op with
  | send s d a => exact sendCoins_good b s d a hg
  | modToAcc m d a =>
    simp only [step, sendModuleToAccount]
    cases mt.find m with
    | none => exact hg
    | some mi => exact sendCoins_good _ _ _ _ hg
  | accToMod s m a =>
    simp only [step, sendAccountToModule]
    have g1 := getModuleAccount_good mt b m hg
    rcases hgm : getModuleAccount mt b m with ⟨b1, r⟩
    rw [hgm] at g1
    cases r with
    | missing => exact g1
    | broken => exact g1
    | ok mi => exact sendCoins_good _ _ _ _ g1
  | modToMod m1 m2 a =>
    simp only [step, sendModuleToModule]
    cases mt.find m1 with
    | none => exact hg
    | some si =>
      simp only
      have g1 := getModuleAccount_good mt b m2 hg
      rcases hgm : getModuleAccount mt b m2 with ⟨b1, r⟩
      rw [hgm] at g1
      cases r with
      | missing => exact g1
      | broken => exact g1
      | ok mi => exact sendCoins_good _ _ _ _ g1
  | mint m a => exact mintCoins_good mt b m a hg
  | burn m a => exact burnCoins_good mt b m a hg
  | touch m => exact getModuleAccount_good mt b m hg

theorem run_good (mt : ModTable) (b : Bank) (ops : List Op) (hg : Good b) : Good (run mt b ops) := by
  induction ops generalizing b with
  | nil => exact hg
  | cons op ops ih => exact ih _ (step_good mt b op hg)

/-! ## The supply moves only by mint and burn -/

theorem mintCoins_supply (mt : ModTable) (b : Bank) (m : String) (x : Int) :
    (mintCoins mt b m x).st.supply = b.supply + (if (mintCoins mt b m x).err = none then x else 0) := by
  have hs1 := getModuleAccount_supply mt b m
  unfold mintCoins
  rcases hgm : getModuleAccount mt b m with ⟨b1, r⟩
  rw [hgm] at hs1
  simp only at hs1
  cases r with
  | missing => simp [hs1]
  | broken => simp [hs1]
  | ok mi =>
    simp only
    by_cases hp : mi.minter
    · simp only [hp, Bool.not_true, Bool.false_eq_true, if_false]
      cases ha : (addCoins b1 mi.addr x).err with
      | some e => simp [addCoins_supply, hs1]
      | none => simp [addCoins_supply, hs1]
    · simp [hp, hs1]

theorem burnCoins_supply (mt : ModTable) (b : Bank) (m : String) (x : Int) :
    (burnCoins mt b m x).st.supply = b.supply - (if (burnCoins mt b m x).err = none then x else 0) := by
  have hs1 := getModuleAccount_supply mt b m
  unfold burnCoins
  rcases hgm : getModuleAccount mt b m with ⟨b1, r⟩
  rw [hgm] at hs1
  simp only at hs1
  cases r with
  | missing => simp [hs1]
  | broken => simp [hs1]
  | ok mi =>
    simp only
    by_cases hp : mi.burner
    · simp only [hp, Bool.not_true, Bool.false_eq_true, if_false]
      cases ha : (subtractCoins b1 mi.addr x).err with
      | some e => simp [subtractCoins_supply, hs1]
      | none => simp [subtractCoins_supply, hs1]
    · simp [hp, hs1]

theorem step_supply (mt : ModTable) (b : Bank) (op : Op) :
    (step mt b op).st.supply = b.supply + supplyEffect mt b op := by
  cases op with
  | send s d a => simp [step, supplyEffect, sendCoins_supply]
  | modToAcc m d a =>
    simp only [step, supplyEffect, sendModuleToAccount]
    cases mt.find m with
    | none => simp
    | some mi => simp [sendCoins_supply]
  | accToMod s m a =>
    simp only [step, supplyEffect, sendAccountToModule]
    have hs1 := getModuleAccount_supply mt b m
    rcases hgm : getModuleAccount mt b m with ⟨b1, r⟩
    rw [hgm] at hs1
    cases r <;> simp_all [sendCoins_supply]
  | modToMod m1 m2 a =>
    simp only [step, supplyEffect, sendModuleToModule]
    cases mt.find m1 with
    | none => simp
    | some si =>
      simp only
      have hs1 := getModuleAccount_supply mt b m2
      rcases hgm : getModuleAccount mt b m2 with ⟨b1, r⟩
      rw [hgm] at hs1
      cases r <;> simp_all [sendCoins_supply]
  | mint m a =>
    simp only [step, supplyEffect]
    rw [mintCoins_supply]
    cases (mintCoins mt b m a).err <;> simp
  | burn m a =>
    simp only [step, supplyEffect]
    rw [burnCoins_supply]
    cases (burnCoins mt b m a).err <;> simp <;> omega
  | touch m => simp [step, supplyEffect, getModuleAccount_supply]

theorem run_supply (mt : ModTable) (b : Bank) (ops : List Op) :
    (run mt b ops).supply = b.supply + netMintBurn mt b ops := by
  induction ops generalizing b with
  | nil => simp [run, netMintBurn]
  | cons op ops ih =>
    have := ih (step mt b op).st
    simp only [run, List.foldl_cons, netMintBurn] at this ⊢
    rw [this, step_supply]; omega

theorem nonNegB_iff (b : Bank) : nonNegB b = true ↔ NonNeg b := by
  simp [nonNegB, NonNeg, List.all_eq_true]

end Bank
end Ledger
