import PocketModel.Ledger.Gov
import Proofs.Ledger.Bank
/-!
# Lemmas for C36: the bank side of DAO transfers and burns
-/
namespace Ledger
open Accounts

namespace Bank

/-- A module account that already exists is handed back without a write. -/
theorem getModuleAccount_existing (mt : ModTable) (b : Bank) (m : String) (mi : ModInfo) (acc : Account)
    (hf : mt.find m = some mi) (ha : b.accts.get mi.addr = some acc) (hm : acc.module.isSome = true) :
    getModuleAccount mt b m = (b, .ok mi) := by
  simp [getModuleAccount, hf, ha, hm]

theorem getModuleAccount_get_other (mt : ModTable) (b : Bank) (m : String) (mi : ModInfo) (c : Addr)
    (hf : mt.find m = some mi) (hc : mi.addr ≠ c) :
    (getModuleAccount mt b m).1.accts.get c = b.accts.get c := by
  unfold getModuleAccount
  simp only [hf]
  cases h : b.accts.get mi.addr with
  | none => simp [get_set, hc]
  | some acc => simp only; split <;> rfl

theorem getModuleAccount_ok_find (mt : ModTable) (b : Bank) (m : String) (b1 : Bank) (mi : ModInfo)
    (h : getModuleAccount mt b m = (b1, .ok mi)) : mt.find m = some mi := by
  unfold getModuleAccount at h
  cases hf : mt.find m with
  | none => simp [hf] at h
  | some mi' =>
    simp only [hf] at h
    cases ha : b.accts.get mi'.addr with
    | none => simp [ha] at h; rw [h.2]
    | some acc =>
      simp only [ha] at h
      split at h
      · simp at h; rw [h.2]
      · simp at h

/-- A successful `BurnCoins`: the module is registered with the burner permission, its balance and
the supply drop by the amount, and no other entry is touched. -/
theorem burnCoins_ok (mt : ModTable) (b : Bank) (m : String) (x : Int) (h : (burnCoins mt b m x).err = none) :
    ∃ mi, mt.find m = some mi ∧ mi.burner = true ∧ 0 ≤ x ∧
      (burnCoins mt b m x).st.balOf mi.addr = b.balOf mi.addr - x ∧
      (burnCoins mt b m x).st.supply = b.supply - x ∧
      ∀ c, mi.addr ≠ c → (burnCoins mt b m x).st.accts.get c = b.accts.get c := by
  have hsup := burnCoins_supply mt b m x
  rw [h] at hsup
  simp only [if_true] at hsup
  unfold burnCoins at h ⊢
  rcases hgm : getModuleAccount mt b m with ⟨b1, r⟩
  have hbal := getModuleAccount_balOf mt b m
  rw [hgm] at h hbal
  cases r with
  | missing => simp at h
  | broken => simp at h
  | ok mi =>
    have hf := getModuleAccount_ok_find mt b m b1 mi hgm
    have hoth := fun c hc => getModuleAccount_get_other mt b m mi c hf hc
    rw [hgm] at hoth
    simp only at h hbal hoth ⊢
    by_cases hp : mi.burner
    · simp only [hp, Bool.not_true, Bool.false_eq_true, if_false] at h ⊢
      cases ha : (subtractCoins b1 mi.addr x).err with
      | some e => simp [ha] at h
      | none =>
        simp only
        refine ⟨mi, hf, hp, ((subtractCoins_ok_iff _ _ _).mp ha).1, ?_, ?_, ?_⟩
        · have := subtractCoins_balOf b1 mi.addr mi.addr x ha
          simp only [if_true] at this
          show Accounts.balOf (subtractCoins b1 mi.addr x).st.accts mi.addr = _
          have h2 : (subtractCoins b1 mi.addr x).st.balOf mi.addr = b1.balOf mi.addr - x := this
          unfold Bank.balOf at h2 hbal ⊢
          rw [h2, hbal]
        · have := hsup
          unfold burnCoins at this
          rw [hgm] at this
          simpa [hp, ha] using this
        · intro c hc
          show (subtractCoins b1 mi.addr x).st.accts.get c = _
          rw [subtractCoins_get_other _ _ _ _ hc, hoth c hc]
    · simp [hp] at h

/-- Burning more than the module holds fails and — the module account existing — writes nothing. -/
theorem burnCoins_over_balance (mt : ModTable) (b : Bank) (m : String) (x : Int) (mi : ModInfo) (acc : Account)
    (hf : mt.find m = some mi) (ha : b.accts.get mi.addr = some acc) (hm : acc.module.isSome = true)
    (hx : b.balOf mi.addr < x) :
    (burnCoins mt b m x).st = b ∧ (burnCoins mt b m x).err ≠ none := by
  unfold burnCoins
  rw [getModuleAccount_existing mt b m mi acc hf ha hm]
  simp only
  by_cases hp : mi.burner
  · simp only [hp, Bool.not_true, Bool.false_eq_true, if_false]
    have hne : (subtractCoins b mi.addr x).err ≠ none := fun h => by
      have := (subtractCoins_ok_iff b mi.addr x).mp h; omega
    cases hs : (subtractCoins b mi.addr x).err with
    | none => exact absurd hs hne
    | some e => simp [subtractCoins_err b mi.addr x e hs]
  · simp [hp]

/-- A transfer out of a module beyond its balance fails before any write. -/
theorem sendModuleToAccount_over_balance (mt : ModTable) (b : Bank) (m : String) (d : Addr) (x : Int) (mi : ModInfo)
    (hf : mt.find m = some mi) (hx : b.balOf mi.addr < x) :
    (sendModuleToAccount mt b m d x).st = b ∧ (sendModuleToAccount mt b m d x).err ≠ none := by
  simp only [sendModuleToAccount, hf]
  have hne : (subtractCoins b mi.addr x).err ≠ none := fun h => by
    have := (subtractCoins_ok_iff b mi.addr x).mp h; omega
  cases hs : (subtractCoins b mi.addr x).err with
  | none => exact absurd hs hne
  | some e =>
    rw [sendCoins_of_err _ _ _ _ e hs]
    simp [subtractCoins_err b mi.addr x e hs]

end Bank
end Ledger
