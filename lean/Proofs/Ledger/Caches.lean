import PocketModel.Ledger.Caches
/-! Lemmas about the LRU model and cache coherence (used by `Props/C13.lean`). -/
namespace Caches

variable {K V : Type} [DecidableEq K]

theorem peek_mem {c : LRU K V} {k : K} {v : V} (h : c.peek k = some v) : (k, v) ∈ c.items := by
  unfold LRU.peek at h
  cases hf : c.items.find? (fun e => decide (e.1 = k)) with
  | none => simp [hf] at h
  | some e =>
    rw [hf] at h
    have hm := List.mem_of_find?_eq_some hf
    have hk := List.find?_some hf
    simp only [decide_eq_true_eq] at hk
    simp only [Option.map_some, Option.some.injEq] at h
    obtain ⟨a, b⟩ := e
    simp only at hk h
    subst hk; subst h
    exact hm

theorem mem_get_items {c : LRU K V} {k k' : K} {v' : V} (h : (k', v') ∈ (c.get k).1.items) : (k', v') ∈ c.items := by
  unfold LRU.get at h
  cases hp : c.peek k with
  | none => simpa [hp] using h
  | some v =>
    simp only [hp, List.mem_cons] at h
    rcases h with h | h
    · rw [h]; exact peek_mem hp
    · exact (List.mem_filter.mp h).1

theorem get_val_mem {c : LRU K V} {k : K} {v : V} (h : (c.get k).2 = some v) : (k, v) ∈ c.items := by
  unfold LRU.get at h
  cases hp : c.peek k with
  | none => simp [hp] at h
  | some w =>
    simp only [hp, Option.some.injEq] at h
    subst h; exact peek_mem hp

theorem mem_add_items {c : LRU K V} {k k' : K} {v v' : V} (h : (k', v') ∈ (c.add k v).items) :
    (k' = k ∧ v' = v) ∨ (k' ≠ k ∧ (k', v') ∈ c.items) := by
  unfold LRU.add at h
  have h' := List.mem_of_mem_take h
  simp only [List.mem_cons, Prod.mk.injEq] at h'
  rcases h' with h' | h'
  · exact Or.inl h'
  · have := List.mem_filter.mp h'
    exact Or.inr ⟨by simpa using this.2, this.1⟩

theorem mem_remove_items {c : LRU K V} {k k' : K} {v' : V} (h : (k', v') ∈ (c.remove k).items) :
    k' ≠ k ∧ (k', v') ∈ c.items := by
  unfold LRU.remove at h
  have := List.mem_filter.mp h
  exact ⟨by simpa using this.2, this.1⟩

theorem coherent_empty (cap : Nat) (s : Store K V) : Coherent (LRU.empty cap : LRU K V) s := by
  intro k v h; simp [LRU.empty] at h

theorem coherent_get {c : LRU K V} {s : Store K V} (h : Coherent c s) (k : K) : Coherent (c.get k).1 s :=
  fun k' v' hm => h k' v' (mem_get_items hm)

theorem coherent_add {c : LRU K V} {s : Store K V} (h : Coherent c s) {k : K} {v : V} (hk : s k = some v) :
    Coherent (c.add k v) s := by
  intro k' v' hm
  rcases mem_add_items hm with ⟨rfl, rfl⟩ | ⟨_, hm'⟩
  · exact hk
  · exact h k' v' hm'

theorem coherent_add_upd {c : LRU K V} {s : Store K V} (h : Coherent c s) (k : K) (v : V) :
    Coherent (c.add k v) (upd s k (some v)) := by
  intro k' v' hm
  rcases mem_add_items hm with ⟨rfl, rfl⟩ | ⟨hne, hm'⟩
  · simp [upd]
  · simp only [upd, if_neg hne]; exact h k' v' hm'

theorem coherent_remove_upd {c : LRU K V} {s : Store K V} (h : Coherent c s) (k : K) :
    Coherent (c.remove k) (upd s k none) := by
  intro k' v' hm
  obtain ⟨hne, hm'⟩ := mem_remove_items hm
  simp only [upd, if_neg hne]; exact h k' v' hm'

/-- A non-prev `GetApplication` against a store `s'` that agrees with the working store on `k`
keeps the cache coherent with the working store. -/
theorem getApp_coherent {c : LRU K V} {w s' : Store K V} (h : Coherent c w) (k : K) (hk : s' k = w k) :
    Coherent (getApp false s' c k).1 w := by
  unfold getApp
  simp only [Bool.false_eq_true, if_false]
  cases hg : (c.get k).2 with
  | some v =>
    have : c.get k = ((c.get k).1, some v) := by rw [← hg]
    rw [this]; exact coherent_get h k
  | none =>
    have : c.get k = ((c.get k).1, none) := by rw [← hg]
    rw [this]
    cases hs : s' k with
    | none => exact h
    | some v => exact coherent_add h (by rw [← hk, hs])

/-- Cache transparency: under coherence a non-prev `GetApplication` on the working store returns
exactly what the store holds. -/
theorem getApp_val {c : LRU K V} {w : Store K V} (h : Coherent c w) (k : K) : (getApp false w c k).2 = w k := by
  unfold getApp
  simp only [Bool.false_eq_true, if_false]
  cases hg : (c.get k).2 with
  | some v =>
    have : c.get k = ((c.get k).1, some v) := by rw [← hg]
    rw [this]; exact (h k v (get_val_mem hg)).symm
  | none =>
    have : c.get k = ((c.get k).1, none) := by rw [← hg]
    rw [this]
    cases hs : w k <;> rfl

theorem getApp_prev (s : Store K V) (c : LRU K V) (k : K) : getApp true s c k = (c, s k) := by
  simp [getApp]

end Caches
