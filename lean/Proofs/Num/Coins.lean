import PocketModel.Num.Coins
import Proofs.Basic.Bytes
import Proofs.Num.Int256
namespace Coins

@[simp] theorem sumOf_nil (d : Denom) : sumOf [] d = 0 := rfl
@[simp] theorem sumOf_cons (c : Coin) (cs : Coins) (d : Denom) :
    sumOf (c :: cs) d = (if c.denom = d then c.amount else 0) + sumOf cs d := rfl

theorem sumOf_pushNZ (c : Coin) (cs : Coins) (d : Denom) :
    sumOf (pushNZ c cs) d = (if c.denom = d then c.amount else 0) + sumOf cs d := by
  unfold pushNZ
  by_cases h : c.amount = 0 <;> simp [h]

theorem sumOf_removeZero (cs : Coins) (d : Denom) : sumOf (removeZero cs) d = sumOf cs d := by
  induction cs with
  | nil => rfl
  | cons c cs ih => simp [removeZero, sumOf_pushNZ, ih]

/-- Per-denomination amounts of `safeAdd a b` are the sums of the amounts of `a` and `b` —
for all inputs, sorted or not. -/
theorem safeAdd_sumOf (a b c : Coins) (h : safeAdd a b = some c) (d : Denom) :
    sumOf c d = sumOf a d + sumOf b d := by
  fun_induction safeAdd a b generalizing c with
  | case1 b => simp at h; subst h; simp [sumOf_removeZero]
  | case2 a as => simp at h; subst h; simp [sumOf_removeZero]
  | case3 ca as cb bs hlt ih =>
    simp [Option.map_eq_some_iff] at h
    obtain ⟨r, hr, rfl⟩ := h
    rw [sumOf_pushNZ, ih r hr]; simp; omega
  | case4 ca as cb bs hlt heq hov => simp at h
  | case5 ca as cb bs hlt heq s hs ih =>
    simp [Option.map_eq_some_iff] at h
    obtain ⟨r, hr, rfl⟩ := h
    rw [sumOf_pushNZ, ih r hr]
    have : s = ca.amount + cb.amount := by
      unfold Int256.add at hs; split at hs <;> simp at hs; omega
    subst this
    simp [← heq]
    by_cases hd : ca.denom = d <;> simp [hd] <;> omega
  | case6 ca as cb bs hlt heq ih =>
    simp [Option.map_eq_some_iff] at h
    obtain ⟨r, hr, rfl⟩ := h
    rw [sumOf_pushNZ, ih r hr]; simp; omega
end Coins

namespace Coins

/-- Prop-level sortedness: strictly ascending denominations. -/
def Sorted (cs : Coins) : Prop := cs.Pairwise (fun x y => x.denom < y.denom)

theorem strictSorted_iff (cs : Coins) : strictSorted cs = true ↔ Sorted cs := by
  unfold Sorted
  induction cs with
  | nil => simp [strictSorted]
  | cons a rest ih =>
    cases rest with
    | nil => simp [strictSorted]
    | cons b rest =>
      simp only [strictSorted, Bool.and_eq_true, decide_eq_true_eq, ih, List.pairwise_cons]
      constructor
      · rintro ⟨hab, hb, hrest⟩
        refine ⟨?_, hb, hrest⟩
        intro x hx
        rcases List.mem_cons.mp hx with rfl | hx
        · exact hab
        · exact Bytes.lt_trans hab (hb x hx)
      · rintro ⟨ha, hb, hrest⟩
        exact ⟨ha b (List.mem_cons_self), hb, hrest⟩

theorem noZero_iff (cs : Coins) : noZero cs = true ↔ ∀ c ∈ cs, c.amount ≠ 0 := by
  induction cs with
  | nil => simp [noZero]
  | cons a rest ih => simp [noZero, ih]

theorem mem_pushNZ {x c : Coin} {cs : Coins} (h : x ∈ pushNZ c cs) : x = c ∧ c.amount ≠ 0 ∨ x ∈ cs := by
  unfold pushNZ at h
  split at h
  · exact Or.inr h
  · rename_i hz
    rcases List.mem_cons.mp h with rfl | h
    · exact Or.inl ⟨rfl, hz⟩
    · exact Or.inr h

theorem mem_removeZero {x : Coin} {cs : Coins} (h : x ∈ removeZero cs) : x ∈ cs ∧ x.amount ≠ 0 := by
  induction cs with
  | nil => simp [removeZero] at h
  | cons c cs ih =>
    simp only [removeZero] at h
    rcases mem_pushNZ h with ⟨rfl, hz⟩ | h
    · exact ⟨List.mem_cons_self, hz⟩
    · exact ⟨List.mem_cons_of_mem _ (ih h).1, (ih h).2⟩

theorem sorted_pushNZ {c : Coin} {cs : Coins} (hs : Sorted cs) (hc : ∀ x ∈ cs, c.denom < x.denom) :
    Sorted (pushNZ c cs) := by
  unfold pushNZ; split
  · exact hs
  · exact List.pairwise_cons.mpr ⟨hc, hs⟩

theorem sorted_removeZero {cs : Coins} (hs : Sorted cs) : Sorted (removeZero cs) := by
  induction cs with
  | nil => exact hs
  | cons c cs ih =>
    have ⟨hc, hs'⟩ := List.pairwise_cons.mp hs
    simp only [removeZero]
    exact sorted_pushNZ (ih hs') (fun x hx => hc x (mem_removeZero hx).1)

/-- Every coin of the result carries a denomination of one of the inputs, and is non-zero. -/
theorem mem_safeAdd (a b c : Coins) (h : safeAdd a b = some c) (x : Coin) (hx : x ∈ c) :
    ((∃ y ∈ a, y.denom = x.denom) ∨ (∃ y ∈ b, y.denom = x.denom)) ∧ x.amount ≠ 0 := by
  fun_induction safeAdd a b generalizing c with
  | case1 b => simp at h; subst h; exact ⟨Or.inr ⟨x, (mem_removeZero hx).1, rfl⟩, (mem_removeZero hx).2⟩
  | case2 a as => simp at h; subst h; exact ⟨Or.inl ⟨x, (mem_removeZero hx).1, rfl⟩, (mem_removeZero hx).2⟩
  | case3 ca as cb bs hlt ih =>
    simp [Option.map_eq_some_iff] at h
    obtain ⟨r, hr, rfl⟩ := h
    rcases mem_pushNZ hx with ⟨rfl, hz⟩ | hx
    · exact ⟨Or.inl ⟨x, List.mem_cons_self, rfl⟩, hz⟩
    · have ⟨h1, h2⟩ := ih r hr hx
      refine ⟨?_, h2⟩
      rcases h1 with ⟨y, hy, e⟩ | h1
      · exact Or.inl ⟨y, List.mem_cons_of_mem _ hy, e⟩
      · exact Or.inr h1
  | case4 ca as cb bs hlt heq hov => simp at h
  | case5 ca as cb bs hlt heq s hs ih =>
    simp [Option.map_eq_some_iff] at h
    obtain ⟨r, hr, rfl⟩ := h
    rcases mem_pushNZ hx with ⟨rfl, hz⟩ | hx
    · exact ⟨Or.inl ⟨ca, List.mem_cons_self, rfl⟩, hz⟩
    · have ⟨h1, h2⟩ := ih r hr hx
      refine ⟨?_, h2⟩
      rcases h1 with ⟨y, hy, e⟩ | ⟨y, hy, e⟩
      · exact Or.inl ⟨y, List.mem_cons_of_mem _ hy, e⟩
      · exact Or.inr ⟨y, List.mem_cons_of_mem _ hy, e⟩
  | case6 ca as cb bs hlt heq ih =>
    simp [Option.map_eq_some_iff] at h
    obtain ⟨r, hr, rfl⟩ := h
    rcases mem_pushNZ hx with ⟨rfl, hz⟩ | hx
    · exact ⟨Or.inr ⟨x, List.mem_cons_self, rfl⟩, hz⟩
    · have ⟨h1, h2⟩ := ih r hr hx
      refine ⟨?_, h2⟩
      rcases h1 with h1 | ⟨y, hy, e⟩
      · exact Or.inl h1
      · exact Or.inr ⟨y, List.mem_cons_of_mem _ hy, e⟩

/-- `safeAdd` of two sorted sets is sorted. -/
theorem safeAdd_sorted (a b c : Coins) (ha : Sorted a) (hb : Sorted b) (h : safeAdd a b = some c) :
    Sorted c := by
  fun_induction safeAdd a b generalizing c with
  | case1 b => simp at h; subst h; exact sorted_removeZero hb
  | case2 a as => simp at h; subst h; exact sorted_removeZero ha
  | case3 ca as cb bs hlt ih =>
    simp [Option.map_eq_some_iff] at h
    obtain ⟨r, hr, rfl⟩ := h
    have ⟨ha1, ha2⟩ := List.pairwise_cons.mp ha
    have ⟨hb1, hb2⟩ := List.pairwise_cons.mp hb
    refine sorted_pushNZ (ih r ha2 hb hr) ?_
    intro x hx
    rcases (mem_safeAdd _ _ _ hr x hx).1 with ⟨y, hy, e⟩ | ⟨y, hy, e⟩
    · exact e ▸ ha1 y hy
    · rcases List.mem_cons.mp hy with rfl | hy
      · exact e ▸ hlt
      · exact e ▸ Bytes.lt_trans hlt (hb1 y hy)
  | case4 ca as cb bs hlt heq hov => simp at h
  | case5 ca as cb bs hlt heq s hs ih =>
    simp [Option.map_eq_some_iff] at h
    obtain ⟨r, hr, rfl⟩ := h
    have ⟨ha1, ha2⟩ := List.pairwise_cons.mp ha
    have ⟨hb1, hb2⟩ := List.pairwise_cons.mp hb
    refine sorted_pushNZ (ih r ha2 hb2 hr) ?_
    intro x hx
    rcases (mem_safeAdd _ _ _ hr x hx).1 with ⟨y, hy, e⟩ | ⟨y, hy, e⟩
    · exact e ▸ ha1 y hy
    · exact e ▸ heq ▸ hb1 y hy
  | case6 ca as cb bs hlt heq ih =>
    simp [Option.map_eq_some_iff] at h
    obtain ⟨r, hr, rfl⟩ := h
    have ⟨ha1, ha2⟩ := List.pairwise_cons.mp ha
    have ⟨hb1, hb2⟩ := List.pairwise_cons.mp hb
    have hgt : cb.denom < ca.denom := by
      rcases Bytes.lt_tri ca.denom cb.denom with h | h | h
      · exact absurd h hlt
      · exact absurd h heq
      · exact h
    refine sorted_pushNZ (ih r ha hb2 hr) ?_
    intro x hx
    rcases (mem_safeAdd _ _ _ hr x hx).1 with ⟨y, hy, e⟩ | ⟨y, hy, e⟩
    · rcases List.mem_cons.mp hy with rfl | hy
      · exact e ▸ hgt
      · exact e ▸ Bytes.lt_trans hgt (ha1 y hy)
    · exact e ▸ hb1 y hy

end Coins

namespace Coins

theorem sumOf_append (a b : Coins) (d : Denom) : sumOf (a ++ b) d = sumOf a d + sumOf b d := by
  induction a with
  | nil => simp
  | cons c a ih => simp [ih]; omega

theorem sumOf_eq_zero {cs : Coins} {d : Denom} (h : ∀ c ∈ cs, c.denom ≠ d) : sumOf cs d = 0 := by
  induction cs with
  | nil => rfl
  | cons c cs ih =>
    simp [h c List.mem_cons_self]
    exact ih (fun x hx => h x (List.mem_cons_of_mem _ hx))

/-- In a sorted set a listed coin's amount *is* the amount of its denomination. -/
theorem sumOf_of_mem {cs : Coins} (hs : Sorted cs) {x : Coin} (hx : x ∈ cs) : sumOf cs x.denom = x.amount := by
  induction cs with
  | nil => cases hx
  | cons c cs ih =>
    have ⟨h1, h2⟩ := List.pairwise_cons.mp hs
    rcases List.mem_cons.mp hx with rfl | hx
    · have := sumOf_eq_zero (d := x.denom) (fun y hy => (Bytes.ne_of_lt (h1 y hy)).symm)
      simp [this]
    · simp [Bytes.ne_of_lt (h1 x hx)]; exact ih h2 hx

theorem exists_neg_of_sumOf_neg {cs : Coins} {d : Denom} (h : sumOf cs d < 0) : ∃ c ∈ cs, c.amount < 0 := by
  induction cs with
  | nil => simp at h
  | cons c cs ih =>
    simp at h
    by_cases hc : c.amount < 0
    · exact ⟨c, List.mem_cons_self, hc⟩
    · have : sumOf cs d < 0 := by split at h <;> omega
      obtain ⟨y, hy, hn⟩ := ih this
      exact ⟨y, List.mem_cons_of_mem _ hy, hn⟩

theorem sumOf_negative (cs : Coins) (d : Denom) : sumOf (negative cs) d = - sumOf cs d := by
  induction cs with
  | nil => rfl
  | cons c cs ih =>
    simp only [negative, List.map_cons, sumOf_cons] at *
    rw [ih]; split <;> omega

theorem sorted_negative {cs : Coins} (h : Sorted cs) : Sorted (negative cs) := by
  unfold Sorted negative
  exact List.pairwise_map.mpr h

theorem isAnyNegative_iff (cs : Coins) : isAnyNegative cs = true ↔ ∃ c ∈ cs, c.amount < 0 := by
  simp [isAnyNegative]

/-- `SafeSub`: amounts are the per-denomination differences, the result is sorted and zero-free,
and the flag is raised exactly when some denomination would go negative. -/
theorem safeSub_spec (a b d : Coins) (neg : Bool) (ha : Sorted a) (hb : Sorted b)
    (h : safeSub a b = some (d, neg)) :
    (∀ e, sumOf d e = sumOf a e - sumOf b e) ∧ Sorted d ∧ (∀ c ∈ d, c.amount ≠ 0) ∧
    (neg = true ↔ ∃ e, sumOf a e < sumOf b e) := by
  simp [safeSub, Option.map_eq_some_iff] at h
  obtain ⟨d', hadd, hd, rfl⟩ := h
  subst hd
  have hsum : ∀ e, sumOf d' e = sumOf a e - sumOf b e := by
    intro e; rw [safeAdd_sumOf _ _ _ hadd, sumOf_negative]; omega
  have hsd : Sorted d' := safeAdd_sorted _ _ _ ha (sorted_negative hb) hadd
  refine ⟨hsum, hsd, fun c hc => (mem_safeAdd _ _ _ hadd c hc).2, ?_⟩
  rw [isAnyNegative_iff]
  constructor
  · rintro ⟨c, hc, hn⟩
    refine ⟨c.denom, ?_⟩
    have := hsum c.denom
    rw [sumOf_of_mem hsd hc] at this
    omega
  · rintro ⟨e, he⟩
    exact exists_neg_of_sumOf_neg (d := e) (by rw [hsum]; omega)

theorem sorted_take {cs : Coins} (h : Sorted cs) (n : Nat) : Sorted (cs.take n) :=
  List.Pairwise.sublist (List.take_sublist n cs) h
theorem sorted_drop {cs : Coins} (h : Sorted cs) (n : Nat) : Sorted (cs.drop n) :=
  List.Pairwise.sublist (List.drop_sublist n cs) h

/-- The binary search `AmountOf` agrees with the map reading on every sorted set. -/
theorem amountOf_eq_sumOf (cs : Coins) (d : Denom) (hs : Sorted cs) : amountOf cs d = sumOf cs d := by
  fun_induction amountOf cs d with
  | case1 _ _ => rfl
  | case2 c rest h heq _ =>
    have : rest = [] := by simp at h; exact h
    subst this; simp [heq]
  | case3 c rest h hne _ =>
    have : rest = [] := by simp at h; exact h
    subst this; simp [hne]
  | case4 cs h mid c hlt ih =>
    rw [ih (sorted_take hs _)]
    have hsplit : cs = cs.take mid ++ c :: cs.drop (mid + 1) := by
      have : mid < cs.length := by omega
      simp [c]
    have hs' := hs
    rw [hsplit] at hs'
    obtain ⟨_, hp2, _⟩ := List.pairwise_append.mp hs'
    have ⟨hc, _⟩ := List.pairwise_cons.mp hp2
    conv => rhs; rw [hsplit, sumOf_append]
    have hz : sumOf (c :: cs.drop (mid+1)) d = 0 := by
      apply sumOf_eq_zero
      intro y hy
      rcases List.mem_cons.mp hy with rfl | hy
      · exact (Bytes.ne_of_lt hlt).symm
      · exact (Bytes.ne_of_lt (Bytes.lt_trans hlt (hc y hy))).symm
    omega
  | case5 cs h mid c hlt heq =>
    have hsplit : cs = cs.take mid ++ c :: cs.drop (mid + 1) := by
      have : mid < cs.length := by omega
      simp [c]
    have hmem : c ∈ cs := by rw [hsplit]; simp
    rw [heq, sumOf_of_mem hs hmem]
  | case6 cs h mid c hlt hne ih =>
    rw [ih (sorted_drop hs _)]
    have hsplit : cs = cs.take mid ++ c :: cs.drop (mid + 1) := by
      have : mid < cs.length := by omega
      simp [c]
    have hgt : c.denom < d := by
      rcases Bytes.lt_tri d c.denom with h | h | h
      · exact absurd h hlt
      · exact absurd h hne
      · exact h
    have hs' := hs
    rw [hsplit] at hs'
    obtain ⟨_, _, hp3⟩ := List.pairwise_append.mp hs'
    conv => rhs; rw [hsplit, sumOf_append]
    have hz : sumOf (cs.take mid) d = 0 := by
      apply sumOf_eq_zero
      intro y hy
      exact Bytes.ne_of_lt (Bytes.lt_trans (hp3 y hy c List.mem_cons_self) hgt)
    simp [Bytes.ne_of_lt hgt]
    omega

theorem isValidTail_spec (low : Denom) (cs : Coins) (h : isValidTail low cs = true) :
    (∀ c ∈ cs, low < c.denom ∧ 0 < c.amount) ∧ Sorted cs := by
  induction cs generalizing low with
  | nil => exact ⟨by simp, List.Pairwise.nil⟩
  | cons c cs ih =>
    simp [isValidTail] at h
    obtain ⟨⟨⟨_, h1⟩, h2⟩, h3⟩ := h
    have ⟨i1, i2⟩ := ih _ h3
    refine ⟨?_, List.pairwise_cons.mpr ⟨fun y hy => (i1 y hy).1, i2⟩⟩
    intro y hy
    rcases List.mem_cons.mp hy with rfl | hy
    · exact ⟨h1, h2⟩
    · exact ⟨Bytes.lt_trans h1 (i1 y hy).1, (i1 y hy).2⟩

/-- `IsValid` implies canonical form: strictly sorted and every amount positive. -/
theorem isValid_canonical (cs : Coins) (h : isValid cs = true) : Sorted cs ∧ ∀ c ∈ cs, 0 < c.amount := by
  match cs with
  | [] => exact ⟨List.Pairwise.nil, by simp⟩
  | [c] => simp [isValid] at h; exact ⟨List.pairwise_singleton _ _, by simp [h.2]⟩
  | c :: c' :: rest =>
    simp [isValid] at h
    obtain ⟨⟨_, h1⟩, h2⟩ := h
    have ⟨i1, i2⟩ := isValidTail_spec _ _ h2
    refine ⟨List.pairwise_cons.mpr ⟨fun y hy => (i1 y hy).1, i2⟩, ?_⟩
    intro y hy
    rcases List.mem_cons.mp hy with rfl | hy
    · exact h1
    · exact (i1 y hy).2

end Coins
