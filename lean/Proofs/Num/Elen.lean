import PocketModel.Num.Elen
import Proofs.Basic.Bytes
/-!
# ELEN is strictly order preserving and prefix free

`SLt a b` ("strongly less"): `a` and `b` differ at some position and `a` has the smaller element
there.  It implies `a < b`, is stable under appending arbitrary suffixes on both sides, and excludes
that one list is a prefix of the other — exactly what database keys built by concatenation need.
-/

namespace List

/-- `a` and `b` first differ at a position where `a` is smaller. -/
def SLt {α : Type} [LT α] (a b : List α) : Prop :=
  ∃ p x s y t, a = p ++ x :: s ∧ b = p ++ y :: t ∧ x < y

namespace SLt
variable {α : Type} [LT α]

theorem lt {a b : List α} (h : SLt a b) : a < b := by
  obtain ⟨p, x, s, y, t, rfl, rfl, hxy⟩ := h
  exact List.append_left_lt (List.cons_lt_cons_iff.mpr (Or.inl hxy))

theorem append {a b : List α} (h : SLt a b) (u v : List α) : SLt (a ++ u) (b ++ v) := by
  obtain ⟨p, x, s, y, t, rfl, rfl, hxy⟩ := h
  exact ⟨p, x, s ++ u, y, t ++ v, by simp, by simp, hxy⟩

theorem prepend (q : List α) {a b : List α} (h : SLt a b) : SLt (q ++ a) (q ++ b) := by
  obtain ⟨p, x, s, y, t, rfl, rfl, hxy⟩ := h
  exact ⟨q ++ p, x, s, y, t, by simp, by simp, hxy⟩

theorem cons (c : α) {a b : List α} (h : SLt a b) : SLt (c :: a) (c :: b) := prepend [c] h

theorem head {x y : α} (h : x < y) (s t : List α) : SLt (x :: s) (y :: t) :=
  ⟨[], x, s, y, t, rfl, rfl, h⟩

end SLt
end List

namespace Bytes

theorem SLt_not_prefix {a b : Bytes} (h : List.SLt a b) : ¬ a <+: b ∧ ¬ b <+: a := by
  obtain ⟨p, x, s, y, t, rfl, rfl, hxy⟩ := h
  constructor
  · rintro ⟨r, hr⟩
    simp at hr
    exact absurd (hr.1 ▸ hxy) (UInt8.lt_irrefl _)
  · rintro ⟨r, hr⟩
    simp at hr
    exact absurd (hr.1 ▸ hxy) (UInt8.lt_irrefl _)

end Bytes

namespace Elen

/-- Value of a least-significant-first digit list. -/
def valRev : List Nat → Nat
  | [] => 0
  | d :: ds => d + 10 * valRev ds

def Digits (ds : List Nat) : Prop := ∀ d ∈ ds, d < 10

theorem decRev_small {n : Nat} (h : n < 10) : decRev n = [n] := by rw [decRev]; simp [h]
theorem decRev_big {n : Nat} (h : ¬ n < 10) : decRev n = (n % 10) :: decRev (n / 10) := by
  rw [decRev]; simp [h]

theorem decRev_digits (n : Nat) : Digits (decRev n) := by
  induction n using Nat.strongRecOn with
  | _ n ih =>
    rw [decRev]
    by_cases h : n < 10
    · simp [h, Digits]
    · simp only [h, if_false]
      intro d hd
      rcases List.mem_cons.mp hd with rfl | hd
      · omega
      · exact ih (n / 10) (by omega) d hd

theorem valRev_decRev (n : Nat) : valRev (decRev n) = n := by
  induction n using Nat.strongRecOn with
  | _ n ih =>
    rw [decRev]
    by_cases h : n < 10
    · simp [h, valRev]
    · simp only [h, if_false, valRev]
      rw [ih (n / 10) (by omega)]
      omega

theorem valRev_lt (ds : List Nat) (h : Digits ds) : valRev ds < 10 ^ ds.length := by
  induction ds with
  | nil => simp [valRev]
  | cons d ds ih =>
    have hd : d < 10 := h d List.mem_cons_self
    have := ih (fun x hx => h x (List.mem_cons_of_mem _ hx))
    simp only [valRev, List.length_cons, Nat.pow_succ]
    omega

theorem pow_le_of_decRev (n : Nat) (h : 1 ≤ n) : 10 ^ ((decRev n).length - 1) ≤ n := by
  induction n using Nat.strongRecOn with
  | _ n ih =>
    rw [decRev]
    by_cases h1 : n < 10
    · simp [h1]; omega
    · simp only [h1, if_false, List.length_cons, Nat.add_sub_cancel]
      have hp := decRev_length_pos (n / 10)
      have := ih (n / 10) (by omega) (by omega)
      have e : (decRev (n / 10)).length = ((decRev (n / 10)).length - 1) + 1 := by omega
      rw [e, Nat.pow_succ]
      omega

theorem decRev_length_mono {i j : Nat} (h : i < j) : (decRev i).length ≤ (decRev j).length := by
  apply Nat.le_of_not_lt
  intro hlt
  have hi : 1 ≤ i := by
    apply Nat.pos_of_ne_zero
    rintro rfl
    rw [decRev_small (by omega : 0 < 10)] at hlt
    have := decRev_length_pos j
    simp only [List.length_cons, List.length_nil] at hlt
    omega
  have h1 := pow_le_of_decRev i hi
  have h2 := valRev_lt (decRev j) (decRev_digits j)
  rw [valRev_decRev] at h2
  have h3 : 10 ^ (decRev j).length ≤ 10 ^ ((decRev i).length - 1) :=
    Nat.pow_le_pow_right (by omega) (by omega)
  omega

theorem decRev_length_one {n : Nat} : (decRev n).length = 1 ↔ n < 10 := by
  constructor
  · intro h
    apply Nat.lt_of_not_le
    intro h10
    rw [decRev_big (by omega)] at h
    have := decRev_length_pos (n / 10)
    simp only [List.length_cons] at h
    omega
  · intro h
    rw [decRev_small h]; rfl

/-- Equal-length digit lists: numeric order is positional order from the most significant digit,
and equal values mean equal lists. -/
theorem lex_of_val (a : List Nat) : ∀ b : List Nat, a.length = b.length → Digits a → Digits b →
    (valRev a < valRev b → List.SLt a.reverse b.reverse) ∧ (valRev a = valRev b → a = b) := by
  induction a with
  | nil =>
    intro b hl _ _
    cases b with
    | nil => simp [valRev]
    | cons _ _ => simp at hl
  | cons x xs ih =>
    intro b hl ha hb
    cases b with
    | nil => simp at hl
    | cons y ys =>
      have hx : x < 10 := ha x List.mem_cons_self
      have hy : y < 10 := hb y List.mem_cons_self
      have hxs : Digits xs := fun d hd => ha d (List.mem_cons_of_mem _ hd)
      have hys : Digits ys := fun d hd => hb d (List.mem_cons_of_mem _ hd)
      have hl' : xs.length = ys.length := by simpa using hl
      obtain ⟨ih1, ih2⟩ := ih ys hl' hxs hys
      simp only [valRev, List.reverse_cons]
      constructor
      · intro hlt
        rcases Nat.lt_trichotomy (valRev xs) (valRev ys) with h | h | h
        · exact (ih1 h).append _ _
        · have e := ih2 h
          subst e
          have : x < y := by omega
          exact ⟨xs.reverse, x, [], y, [], rfl, rfl, this⟩
        · omega
      · intro he
        have h1 : valRev xs = valRev ys := by omega
        have h2 : x = y := by omega
        rw [ih2 h1, h2]

theorem digitByte_lt {x y : Nat} (hx : x < 10) (hy : y < 10) (h : x < y) : digitByte x < digitByte y := by
  unfold digitByte
  exact (UInt8.ofNat_lt_iff_lt (by simp [UInt8.size]; omega) (by simp [UInt8.size]; omega)).mpr (by omega)

theorem digitByte_lt_pos {x : Nat} (hx : x < 10) : digitByte x < posByte := by
  have : posByte = UInt8.ofNat 61 := rfl
  rw [this]; unfold digitByte
  exact (UInt8.ofNat_lt_iff_lt (by simp [UInt8.size]; omega) (by simp [UInt8.size])).mpr (by omega)

theorem SLt_map_digits {a b : List Nat} (ha : Digits a) (hb : Digits b) (h : List.SLt a b) :
    List.SLt (a.map digitByte) (b.map digitByte) := by
  obtain ⟨p, x, s, y, t, rfl, rfl, hxy⟩ := h
  refine ⟨p.map digitByte, digitByte x, s.map digitByte, digitByte y, t.map digitByte, by simp, by simp, ?_⟩
  exact digitByte_lt (ha x (by simp)) (hb y (by simp)) hxy

theorem digits_reverse {a : List Nat} (h : Digits a) : Digits a.reverse :=
  fun d hd => h d (List.mem_reverse.mp hd)

/-- Same number of digits: the decimal strings compare like the numbers. -/
theorem dec_slt {i j : Nat} (hl : (decRev i).length = (decRev j).length) (h : i < j) :
    List.SLt (dec i) (dec j) := by
  have := (lex_of_val (decRev i) (decRev j) hl (decRev_digits i) (decRev_digits j)).1
    (by rw [valRev_decRev, valRev_decRev]; exact h)
  exact SLt_map_digits (digits_reverse (decRev_digits i)) (digits_reverse (decRev_digits j)) this

theorem encodePos_small {n : Nat} (h : n < 10) : encodePos n = [posByte, digitByte n] := by
  rw [encodePos]; simp [h]

theorem encodePos_big {n : Nat} (h : ¬ n < 10) :
    encodePos n = posByte :: (encodePos (decRev n).length ++ dec n) := by
  rw [encodePos]; simp [h]

theorem encodePos_head (n : Nat) : ∃ r, encodePos n = posByte :: r := by
  rw [encodePos]; split
  · exact ⟨_, rfl⟩
  · exact ⟨_, rfl⟩

/-- The core fact: positive encodings of `i < j` differ at a position, smaller first. -/
theorem encodePos_slt : ∀ j i : Nat, i < j → List.SLt (encodePos i) (encodePos j) := by
  intro j
  induction j using Nat.strongRecOn with
  | _ j ih =>
    intro i hij
    by_cases hj : j < 10
    · have hi : i < 10 := by omega
      rw [encodePos_small hi, encodePos_small hj]
      exact (List.SLt.head (digitByte_lt hi hj hij) [] []).cons _
    · by_cases hi : i < 10
      · rw [encodePos_small hi, encodePos_big hj]
        obtain ⟨r, hr⟩ := encodePos_head (decRev j).length
        rw [hr]
        exact (List.SLt.head (digitByte_lt_pos hi) [] _).cons _
      · rw [encodePos_big hi, encodePos_big hj]
        apply List.SLt.cons
        rcases Nat.lt_or_ge (decRev i).length (decRev j).length with hl | hl
        · have hjl := decRev_length_lt j (by omega)
          exact (ih _ hjl _ hl).append _ _
        · have e : (decRev i).length = (decRev j).length :=
            Nat.le_antisymm (decRev_length_mono hij) hl
          rw [e]
          exact (dec_slt e hij).prepend _

theorem zero_slt_encodePos (n : Nat) : List.SLt [zeroByte] (encodePos n) := by
  obtain ⟨r, hr⟩ := encodePos_head n
  rw [hr]
  exact List.SLt.head (by decide) [] r

/-- `EncodeInt` on non-negative numbers: strongly increasing. -/
theorem encodeInt_slt {i j : Nat} (h : i < j) : List.SLt (encodeInt i) (encodeInt j) := by
  unfold encodeInt
  have hj : j ≠ 0 := by omega
  by_cases hi : i = 0
  · simp only [hi, hj, if_true, if_false]; exact zero_slt_encodePos j
  · simp only [hi, hj, if_false]; exact encodePos_slt j i h

theorem encodeInt_lt {i j : Nat} (h : i < j) : encodeInt i < encodeInt j := (encodeInt_slt h).lt

theorem encodeInt_slt_of_ne {i j : Nat} (h : i ≠ j) :
    List.SLt (encodeInt i) (encodeInt j) ∨ List.SLt (encodeInt j) (encodeInt i) := by
  rcases Nat.lt_or_gt_of_ne h with h | h
  · exact Or.inl (encodeInt_slt h)
  · exact Or.inr (encodeInt_slt h)

theorem encodeInt_injective {i j : Nat} (h : encodeInt i = encodeInt j) : i = j := by
  apply Classical.byContradiction
  intro hne
  rcases encodeInt_slt_of_ne hne with h' | h'
  · exact Bytes.lt_irrefl _ (h ▸ h'.lt)
  · exact Bytes.lt_irrefl _ (h ▸ h'.lt)

/-- No encoding is a prefix of another: a key segment `enc h` followed by anything never collides
with `enc h'` followed by anything. -/
theorem encodeInt_prefix_free {i j : Nat} (h : i ≠ j) : ¬ encodeInt i <+: encodeInt j := by
  rcases encodeInt_slt_of_ne h with h' | h'
  · exact (Bytes.SLt_not_prefix h').1
  · exact (Bytes.SLt_not_prefix h').2

/-- Every byte of an encoding is `=` or a decimal digit — in particular never the separator `/`. -/
theorem decRev_bytes (n : Nat) : ∀ b ∈ dec n, b ≠ slash := by
  intro b hb
  unfold dec at hb
  obtain ⟨d, hd, rfl⟩ := List.mem_map.mp hb
  have h10 := decRev_digits n d (List.mem_reverse.mp hd)
  intro he
  have h1 : digitByte 0 ≤ digitByte d ∨ True := Or.inr trivial
  have : (digitByte d).toNat = 48 + d := by
    unfold digitByte
    simp [UInt8.toNat_ofNat']
    omega
  rw [he] at this
  simp [slash] at this
  omega

theorem encodePos_no_slash : ∀ n : Nat, ∀ b ∈ encodePos n, b ≠ slash := by
  intro n
  induction n using Nat.strongRecOn with
  | _ n ih =>
    intro b hb
    rw [encodePos] at hb
    by_cases h : n < 10
    · simp only [h, if_true] at hb
      rcases List.mem_cons.mp hb with rfl | hb
      · decide
      · have hb' : b = digitByte n := by simpa using hb
        subst hb'
        intro he
        have : (digitByte n).toNat = 48 + n := by
          unfold digitByte
          simp [UInt8.toNat_ofNat']
          omega
        rw [he] at this
        simp [slash] at this
        omega
    · simp only [h, if_false] at hb
      rcases List.mem_cons.mp hb with rfl | hb
      · decide
      · rcases List.mem_append.mp hb with hb | hb
        · exact ih _ (decRev_length_lt n (by omega)) b hb
        · exact decRev_bytes n b hb

theorem encodeInt_no_slash (n : Nat) : ∀ b ∈ encodeInt n, b ≠ slash := by
  unfold encodeInt
  split
  · intro b hb
    have : b = zeroByte := by simpa using hb
    subst this; decide
  · exact encodePos_no_slash n

end Elen
