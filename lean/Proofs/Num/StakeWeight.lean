import Proofs.Num.FracPow
/-!
# Flooring of the stake into bins; reward / burn as functions of the bin (C27)
-/
namespace BigDec
set_option exponentiation.threshold 400

theorem Int256_sub_some {a b : Int} (h0 : 0 ≤ a - b) (h1 : a - b < 2 ^ 255) :
    Int256.sub a b = some (a - b) := by
  unfold Int256.sub Int256.maxBitLen
  have : ¬ Int256.bitLen (a - b) > 255 := (Int256.bitLen_le_iff _ 255).mpr (by omega)
  rw [if_neg this]

theorem Int256_mod_some {a b : Int} (hb : b ≠ 0) : Int256.mod a b = some (a % b) := by
  unfold Int256.mod; rw [if_neg hb]; rfl

theorem Int256_quo_some {a b : Int} (hb : b ≠ 0) : Int256.quo a b = some (a.tdiv b) := by
  unfold Int256.quo; rw [if_neg hb]

theorem sub_emod_eq (s f : Int) : s - s % f = f * (s / f) := by
  have := Int.emod_def s f; omega

theorem minInt_mul {f x y : Int} (hf : 0 < f) : minInt (f * x) (f * y) = f * minInt x y := by
  unfold minInt
  by_cases h : x > y
  · have : f * x > f * y := Int.mul_lt_mul_of_pos_left h hf
    rw [if_pos h, if_pos this]
  · have : ¬ f * x > f * y := by
      have : f * x ≤ f * y := Int.mul_le_mul_of_nonneg_left (by omega) (by omega)
      omega
    rw [if_neg h, if_neg this]

theorem minInt_le_left (a b : Int) : minInt a b ≤ a := by unfold minInt; split <;> omega
theorem minInt_le_right (a b : Int) : minInt a b ≤ b := by unfold minInt; split <;> omega
theorem le_minInt {a b c : Int} (h1 : c ≤ a) (h2 : c ≤ b) : c ≤ minInt a b := by
  unfold minInt; split <;> omega
theorem minInt_mono {a a' b b' : Int} (h1 : a ≤ a') (h2 : b ≤ b') : minInt a b ≤ minInt a' b' :=
  le_minInt (Int.le_trans (minInt_le_left a b) h1) (Int.le_trans (minInt_le_right a b) h2)


/-- The bin used by `calculateRewardRewardPip22`: `min(stake/floor, ceiling/floor)`. -/
def rbin (p : Pip22) (s : Int) : Int := minInt (s / p.floor) (p.ceiling / p.floor)

/-- The bin used by `BurnForChallenge`: `min(stake/floor, (ceiling − stake mod floor)/floor)`. -/
def bbin (p : Pip22) (s : Int) : Int := minInt (s / p.floor) ((p.ceiling - s % p.floor) / p.floor)

theorem flooredStake_eq {p : Pip22} {s : Int} (hf : 0 < p.floor) (hs : 0 ≤ s) (hs' : s < 2 ^ 255)
    (hc : 0 ≤ p.ceiling) (hc' : p.ceiling < 2 ^ 255) :
    flooredStake p s = some (p.floor * rbin p s) := by
  unfold flooredStake rbin
  have hf0 : p.floor ≠ 0 := by omega
  rw [Int256_mod_some hf0, Int256_mod_some hf0]
  simp only
  have r0 := Int.emod_nonneg s hf0
  have c0 := Int.emod_nonneg p.ceiling hf0
  have r1 := Int.emod_lt_of_pos s hf
  have c1 := Int.emod_lt_of_pos p.ceiling hf
  have e1 := sub_emod_eq s p.floor
  have e2 := sub_emod_eq p.ceiling p.floor
  have q1 : 0 ≤ s / p.floor := Int.ediv_nonneg hs (by omega)
  have q2 : 0 ≤ p.ceiling / p.floor := Int.ediv_nonneg hc (by omega)
  have n1 : 0 ≤ p.floor * (s / p.floor) := Int.mul_nonneg (by omega) q1
  have n2 : 0 ≤ p.floor * (p.ceiling / p.floor) := Int.mul_nonneg (by omega) q2
  rw [Int256_sub_some (by omega) (by omega), Int256_sub_some (by omega) (by omega)]
  simp only
  rw [e1, e2, minInt_mul hf]

theorem flooredStakeBurn_eq {p : Pip22} {s : Int} (hf : 0 < p.floor) (hfc : p.floor ≤ p.ceiling)
    (hs : 0 ≤ s) (hs' : s < 2 ^ 255) (hc' : p.ceiling < 2 ^ 255) :
    flooredStakeBurn p s = some (minInt (p.floor * (s / p.floor)) (p.ceiling - s % p.floor)) := by
  unfold flooredStakeBurn
  have hf0 : p.floor ≠ 0 := by omega
  rw [Int256_mod_some hf0]
  simp only
  have r0 := Int.emod_nonneg s hf0
  have r1 := Int.emod_lt_of_pos s hf
  have e1 := sub_emod_eq s p.floor
  have q1 : 0 ≤ s / p.floor := Int.ediv_nonneg hs (by omega)
  have n1 : 0 ≤ p.floor * (s / p.floor) := Int.mul_nonneg (by omega) q1
  rw [Int256_sub_some (by omega) (by omega), Int256_sub_some (by omega) (by omega)]
  simp only
  rw [e1]

theorem minInt_ediv {a b f : Int} (hf : 0 < f) : minInt a b / f = minInt (a / f) (b / f) := by
  unfold minInt
  by_cases h : a > b
  · rw [if_pos h]
    by_cases h2 : a / f > b / f
    · rw [if_pos h2]
    · rw [if_neg h2]
      have : b / f ≤ a / f := Int.ediv_le_ediv hf (by omega)
      omega
  · rw [if_neg h]
    have : a / f ≤ b / f := Int.ediv_le_ediv hf (by omega)
    rw [if_neg (by omega)]

/-- `calculateRewardRewardPip22` = the bin-level computation at `rbin`. -/
theorem calculateRewardR_eq {R : Int → Out} {p : Pip22} {r s m : Int} (hf : 0 < p.floor)
    (hs : 0 ≤ s) (hs' : s < 2 ^ 255) (hc : 0 ≤ p.ceiling) (hc' : p.ceiling < 2 ^ 255) :
    calculateRewardR R p r s m = coinsOfBin R p (rbin p s) m r := by
  unfold calculateRewardR
  rw [flooredStake_eq hf hs hs' hc hc']
  simp only
  unfold weightedCoinsR
  rw [Int256_quo_some (by omega), Int.mul_tdiv_cancel_left _ (by omega)]

/-- `BurnForChallenge` = the bin-level computation at `bbin`. -/
theorem burnForChallengeR_eq {R : Int → Out} {p : Pip22} {ch s m : Int} (hf : 0 < p.floor)
    (hfc : p.floor ≤ p.ceiling) (hs : 0 ≤ s) (hs' : s < 2 ^ 255) (hc' : p.ceiling < 2 ^ 255) :
    burnForChallengeR R p ch s m = coinsOfBin R p (bbin p s) m ch := by
  unfold burnForChallengeR
  rw [flooredStakeBurn_eq hf hfc hs hs' hc']
  simp only
  unfold weightedCoinsR
  have hf0 : p.floor ≠ 0 := by omega
  have r1 := Int.emod_lt_of_pos s hf
  have q1 : 0 ≤ s / p.floor := Int.ediv_nonneg hs (by omega)
  have n1 : 0 ≤ p.floor * (s / p.floor) := Int.mul_nonneg (by omega) q1
  have hn : 0 ≤ minInt (p.floor * (s / p.floor)) (p.ceiling - s % p.floor) := le_minInt n1 (by omega)
  rw [Int256_quo_some hf0, Int.tdiv_eq_ediv_of_nonneg hn, minInt_ediv hf,
    Int.mul_ediv_cancel_left _ hf0]
  rfl

theorem rbin_nonneg {p : Pip22} {s : Int} (hf : 0 < p.floor) (hs : 0 ≤ s) (hc : 0 ≤ p.ceiling) :
    0 ≤ rbin p s :=
  le_minInt (Int.ediv_nonneg hs (by omega)) (Int.ediv_nonneg hc (by omega))

/-- `floored_stake_mono`: the reward bin never decreases with the stake. -/
theorem rbin_mono {p : Pip22} {s s' : Int} (hf : 0 < p.floor) (h : s ≤ s') : rbin p s ≤ rbin p s' :=
  minInt_mono (Int.ediv_le_ediv hf h) (Int.le_refl _)

theorem rbin_le_ceiling (p : Pip22) (s : Int) : rbin p s ≤ p.ceiling / p.floor := minInt_le_right _ _

/-- At and above the ceiling the reward bin is constant. -/
theorem rbin_above_ceiling {p : Pip22} {s : Int} (hf : 0 < p.floor) (h : p.ceiling ≤ s) :
    rbin p s = p.ceiling / p.floor := by
  unfold rbin minInt
  have : p.ceiling / p.floor ≤ s / p.floor := Int.ediv_le_ediv hf h
  by_cases h2 : s / p.floor > p.ceiling / p.floor
  · rw [if_pos h2]
  · rw [if_neg h2]; omega

theorem bbin_nonneg {p : Pip22} {s : Int} (hf : 0 < p.floor) (hfc : p.floor ≤ p.ceiling) (hs : 0 ≤ s) :
    0 ≤ bbin p s := by
  have r1 := Int.emod_lt_of_pos s hf
  exact le_minInt (Int.ediv_nonneg hs (by omega)) (Int.ediv_nonneg (by omega) (by omega))

/-- The burn bin is never above the reward bin … -/
theorem bbin_le_rbin {p : Pip22} {s : Int} (hf : 0 < p.floor) : bbin p s ≤ rbin p s := by
  have r0 := Int.emod_nonneg s (show p.floor ≠ 0 by omega)
  exact minInt_mono (Int.le_refl _) (Int.ediv_le_ediv hf (by omega))

/-- … and equals it exactly when the stake is not above the ceiling or its remainder does not
exceed the ceiling's remainder (the points where `BurnForChallenge`'s flooring is harmless). -/
theorem bbin_eq_rbin {p : Pip22} {s : Int} (hf : 0 < p.floor)
    (h : s ≤ p.ceiling ∨ s % p.floor ≤ p.ceiling % p.floor) : bbin p s = rbin p s := by
  have hf0 : p.floor ≠ 0 := by omega
  have r0 := Int.emod_nonneg s hf0
  have r1 := Int.emod_lt_of_pos s hf
  rcases h with h | h
  · -- both minima are `s / floor`
    have a1 : s / p.floor ≤ p.ceiling / p.floor := Int.ediv_le_ediv hf h
    have e : (s - s % p.floor) / p.floor = s / p.floor := by
      rw [sub_emod_eq, Int.mul_ediv_cancel_left _ hf0]
    have a2 : s / p.floor ≤ (p.ceiling - s % p.floor) / p.floor := by
      rw [← e]; exact Int.ediv_le_ediv hf (by omega)
    unfold bbin rbin minInt
    rw [if_neg (by omega), if_neg (by omega)]
  · have c1 := Int.emod_lt_of_pos p.ceiling hf
    have e : (p.ceiling - s % p.floor) / p.floor = p.ceiling / p.floor := by
      have d : p.ceiling - s % p.floor = (p.ceiling % p.floor - s % p.floor) + p.floor * (p.ceiling / p.floor) := by
        have := Int.emod_def p.ceiling p.floor; omega
      rw [d, Int.add_mul_ediv_left _ _ hf0, Int.ediv_eq_zero_of_lt (by omega) (by omega)]
      omega
    unfold bbin rbin
    rw [e]

/-! ## the bin-level computation only looks at the oracle at its own bin -/

theorem fracPowR_congr {R R' : Int → Out} {d e : Int} {den : Nat} (h : R d = R' d) :
    fracPowR R d e den = fracPowR R' d e den := by
  unfold fracPowR; rw [h]

theorem coinsOfBin_congr {R R' : Int → Out} {p : Pip22} {b m c : Int} (h : R (ofInt b) = R' (ofInt b)) :
    coinsOfBin R p b m c = coinsOfBin R' p b m c := by
  unfold coinsOfBin; rw [fracPowR_congr h]

theorem fracPowR_no_timeout {R : Int → Out} {d e : Int} {den : Nat} (h : R d ≠ .timeout) :
    fracPowR R d e den ≠ .timeout := by
  unfold fracPowR
  split
  · simp
  · split
    · simp
    · split
      · simp
      · split
        · simp
        · cases hr : R d with
          | timeout => exact absurd hr h
          | err => simp
          | val c => simp only; split <;> simp

theorem coinsOfBin_no_timeout {R : Int → Out} {p : Pip22} {b m c : Int} (h : R (ofInt b) ≠ .timeout) :
    coinsOfBin R p b m c ≠ .timeout := by
  unfold coinsOfBin
  have := fracPowR_no_timeout (R := R) (d := ofInt b) (e := p.exponent) (den := pip22Den) h
  cases hf : fracPowR R (ofInt b) p.exponent pip22Den with
  | timeout => exact absurd hf this
  | err => simp
  | val fp =>
    simp only
    split
    · simp
    · split
      · simp
      · split
        · simp
        · split <;> simp

end BigDec
