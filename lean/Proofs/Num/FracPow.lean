import PocketModel.Num.FracPow
import Proofs.Num.BigDec
/-!
# Lemmas about `ApproxRoot` / `Power` / `FracPow` and the stake-weighted reward (C27)

General (all inputs): monotonicity of banker's rounding, `Mul`, `Quo`, `Power`, truncation (each in the
form "if the larger computation does not panic, the smaller one does not either and is ≤");
non-negativity of the Newton iterates; fuel monotonicity (a finished loop is independent of the fuel).
-/
namespace BigDec

/-! ## rounding / truncation are monotone -/

theorem chopRound_mono {x y : Int} (h : x ≤ y) : chopRound x ≤ chopRound y := by
  have hx := chopRound_spec x
  have hy := chopRound_spec y
  simp only [P] at hx hy
  obtain ⟨x1, x2, x3⟩ := hx
  obtain ⟨y1, y2, y3⟩ := hy
  by_cases hlt : chopRound x ≤ chopRound y
  · exact hlt
  · exfalso
    have hx3 : chopRound x % 2 = 0 := x3 (by omega)
    have hy3 : chopRound y % 2 = 0 := y3 (by omega)
    omega

theorem chopRound_ofInt (n : Int) : chopRound (n * P) = n := by
  have h := chopRound_spec (n * P)
  simp only [P] at h ⊢
  omega

theorem chopRound_nonneg {x : Int} (h : 0 ≤ x) : 0 ≤ chopRound x := by
  have := chopRound_mono h
  have h0 : chopRound 0 = 0 := by decide
  omega

theorem chopTrunc_mono {x y : Int} (hx : 0 ≤ x) (h : x ≤ y) : chopTrunc x ≤ chopTrunc y := by
  have a := (chopTrunc_spec x).1 hx
  have b := (chopTrunc_spec y).1 (by omega)
  simp only [P] at a b
  omega

theorem chopTrunc_nonneg {x : Int} (hx : 0 ≤ x) : 0 ≤ chopTrunc x := ((chopTrunc_spec x).1 hx).1

/-! ## the overflow check -/

theorem check_eq_some {x y : Int} (h : check x = some y) : y = x := by
  unfold check at h; split at h <;> simp at h; exact h.symm

theorem check_nonneg_mono {x y : Int} (hx : 0 ≤ x) (h : x ≤ y) (hy : check y = some y) :
    check x = some x := by
  rcases check_spec y with ⟨_, hb⟩ | ⟨hn, _⟩
  · rcases check_spec x with ⟨hs, _⟩ | ⟨_, hb'⟩
    · exact hs
    · exfalso; omega
  · rw [hn] at hy; cases hy

theorem check_some_self {x y : Int} (h : check x = some y) : check x = some x := by
  have := check_eq_some h; subst this; exact h

/-- Shape used everywhere below: the larger checked value exists ⇒ the smaller one exists and is ≤. -/
theorem check_le {x y r' : Int} (hx : 0 ≤ x) (h : x ≤ y) (hy : check y = some r') :
    ∃ r, check x = some r ∧ 0 ≤ r ∧ r ≤ r' := by
  have e := check_eq_some hy; subst e
  exact ⟨x, check_nonneg_mono hx h hy, hx, h⟩

/-! ## `Mul`, `Quo` -/

theorem mul_mono {a a' b b' r' : Int} (ha : 0 ≤ a) (haa : a ≤ a') (hb : 0 ≤ b) (hbb : b ≤ b')
    (h : mul a' b' = some r') : ∃ r, mul a b = some r ∧ 0 ≤ r ∧ r ≤ r' := by
  unfold mul at h ⊢
  have h1 : a * b ≤ a' * b' := Int.mul_le_mul haa hbb hb (by omega)
  have h0 : 0 ≤ a * b := Int.mul_nonneg ha hb
  exact check_le (chopRound_nonneg h0) (chopRound_mono h1) h

theorem mul_nonneg {a b r : Int} (ha : 0 ≤ a) (hb : 0 ≤ b) (h : mul a b = some r) : 0 ≤ r := by
  obtain ⟨r0, h0, hr, hle⟩ := mul_mono ha (Int.le_refl a) hb (Int.le_refl b) h
  rw [h] at h0; cases h0; exact hr

theorem quo_mono {a a' b r' : Int} (ha : 0 ≤ a) (haa : a ≤ a') (hb : 0 < b)
    (h : quo a' b = some r') : ∃ r, quo a b = some r ∧ 0 ≤ r ∧ r ≤ r' := by
  unfold quo at h ⊢
  have hb0 : b ≠ 0 := by omega
  rw [if_neg hb0] at h ⊢
  have hP : (0 : Int) ≤ P := by decide
  have n0 : 0 ≤ a * P * P := Int.mul_nonneg (Int.mul_nonneg ha hP) hP
  have n1 : a * P * P ≤ a' * P * P :=
    Int.mul_le_mul_of_nonneg_right (Int.mul_le_mul_of_nonneg_right haa hP) hP
  have t0 : (a * P * P).tdiv b = (a * P * P) / b := Int.tdiv_eq_ediv_of_nonneg n0
  have t1 : (a' * P * P).tdiv b = (a' * P * P) / b := Int.tdiv_eq_ediv_of_nonneg (by omega)
  rw [t1] at h; rw [t0]
  have d0 : 0 ≤ (a * P * P) / b := Int.ediv_nonneg n0 (by omega)
  have d1 : (a * P * P) / b ≤ (a' * P * P) / b := Int.ediv_le_ediv hb n1
  exact check_le (chopRound_nonneg d0) (chopRound_mono d1) h

/-! ## `Power` -/

theorem powerLoop_mono (fuel : Nat) : ∀ (i : Nat) (d d' tmp tmp' b : Int),
    0 ≤ d → d ≤ d' → 0 ≤ tmp → tmp ≤ tmp' → powerLoop fuel i d' tmp' = some b →
    ∃ a, powerLoop fuel i d tmp = some a ∧ 0 ≤ a ∧ a ≤ b := by
  induction fuel with
  | zero => intro i d d' tmp tmp' b _ _ _ _ h; simp [powerLoop] at h
  | succ fuel ih =>
    intro i d d' tmp tmp' b hd hdd ht htt h
    unfold powerLoop at h ⊢
    by_cases hi : i > 1
    · rw [if_pos hi] at h ⊢
      by_cases he : i % 2 = 0
      · rw [if_pos he] at h ⊢
        cases hm : mul d' d' with
        | none => rw [hm] at h; cases h
        | some dd' =>
          rw [hm] at h; simp only at h
          obtain ⟨dd, hdd1, hdd2, hdd3⟩ := mul_mono hd hdd hd hdd hm
          rw [hdd1]; simp only
          exact ih _ _ _ _ _ _ hdd2 hdd3 ht htt h
      · rw [if_neg he] at h ⊢
        cases hm : mul tmp' d' with
        | none => rw [hm] at h; cases h
        | some t' =>
          rw [hm] at h; simp only at h
          obtain ⟨t, ht1, ht2, ht3⟩ := mul_mono ht htt hd hdd hm
          rw [ht1]; simp only
          cases hm2 : mul d' d' with
          | none => rw [hm2] at h; cases h
          | some dd' =>
            rw [hm2] at h; simp only at h
            obtain ⟨dd, hdd1, hdd2, hdd3⟩ := mul_mono hd hdd hd hdd hm2
            rw [hdd1]; simp only
            exact ih _ _ _ _ _ _ hdd2 hdd3 ht2 ht3 h
    · rw [if_neg hi] at h ⊢
      exact mul_mono hd hdd ht htt h

/-- `Power` is monotone on non-negative decimals, through the banker's rounding of every `Mul` of
the square-and-multiply loop: if the larger base does not overflow, neither does the smaller. -/
theorem power_mono {x y b : Int} (n : Nat) (hx : 0 ≤ x) (hxy : x ≤ y) (h : power y n = some b) :
    ∃ a, power x n = some a ∧ 0 ≤ a ∧ a ≤ b := by
  unfold power at h ⊢
  by_cases hn : n = 0
  · rw [if_pos hn] at h ⊢
    cases h
    exact ⟨one, rfl, by decide, Int.le_refl _⟩
  · rw [if_neg hn] at h ⊢
    exact powerLoop_mono _ _ _ _ _ _ _ hx hxy (by decide) (Int.le_refl _) h

theorem power_nonneg {x r : Int} (n : Nat) (hx : 0 ≤ x) (h : power x n = some r) : 0 ≤ r := by
  obtain ⟨a, h0, ha, _⟩ := power_mono n hx (Int.le_refl x) h
  rw [h] at h0; cases h0; exact ha

/-- Contrapositive used for the overflow region: a base that overflows makes every larger base
overflow. -/
theorem power_none_mono {x y : Int} (n : Nat) (hx : 0 ≤ x) (hxy : x ≤ y) (h : power x n = none) :
    power y n = none := by
  cases hy : power y n with
  | none => rfl
  | some b =>
    obtain ⟨a, ha, _⟩ := power_mono n hx hxy hy
    rw [h] at ha; cases ha

/-! ## the Newton loop -/

theorem tdiv_ge_neg {s g : Int} {r : Int} (hr : 1 ≤ r) (hg : 0 ≤ g) (hs : -g ≤ s) : -g ≤ s.tdiv r := by
  by_cases h : 0 ≤ s
  · have : 0 ≤ s.tdiv r := by rw [Int.tdiv_eq_ediv_of_nonneg h]; exact Int.ediv_nonneg h (by omega)
    omega
  · have e : s = -(-s) := by omega
    rw [e, Int.neg_tdiv, Int.tdiv_eq_ediv_of_nonneg (by omega)]
    have : (-s) / r ≤ -s := Int.ediv_le_self _ (by omega)
    omega

/-- The Newton iterate stays non-negative (truncated division moves the guess by at most
`guess/root` downwards). -/
theorem newtonStep_nonneg {d guess g dl : Int} {root : Nat} (hd : 0 ≤ d) (hr : 1 ≤ root)
    (hg : 0 ≤ guess) (h : newtonStep d root guess = some (g, dl)) : 0 ≤ g := by
  unfold newtonStep at h
  cases hp : power guess (root - 1) with
  | none => rw [hp] at h; cases h
  | some prev0 =>
    rw [hp] at h; simp only at h
    have hp0 : 0 ≤ prev0 := power_nonneg _ hg hp
    have hprev : 0 < (if prev0 = 0 then smallest else prev0) := by
      by_cases h0 : prev0 = 0
      · rw [if_pos h0]; decide
      · rw [if_neg h0]; omega
    cases hq : quo d (if prev0 = 0 then smallest else prev0) with
    | none => rw [hq] at h; cases h
    | some q =>
      rw [hq] at h; simp only at h
      obtain ⟨q0, hq0, hqn, _⟩ := quo_mono hd (Int.le_refl d) hprev hq
      rw [hq] at hq0; cases hq0
      cases hs : sub q guess with
      | none => rw [hs] at h; cases h
      | some s =>
        rw [hs] at h; simp only at h
        have es : s = q - guess := check_eq_some hs
        have hr0 : ((root : Nat) : Int) ≠ 0 := by omega
        simp only [quoInt, if_neg hr0] at h
        cases ha : add guess (s.tdiv root) with
        | none => rw [ha] at h; cases h
        | some g' =>
          rw [ha] at h; simp only [Option.some.injEq, Prod.mk.injEq] at h
          have eg : g' = guess + s.tdiv root := check_eq_some ha
          have := tdiv_ge_neg (r := (root : Int)) (by omega) hg (s := s) (by omega)
          omega

theorem newtonLoop_nonneg {d : Int} {root : Nat} (hd : 0 ≤ d) (hr : 1 ≤ root) :
    ∀ (fuel : Nat) (guess dl r : Int), 0 ≤ guess → newtonLoop d root fuel guess dl = .val r → 0 ≤ r := by
  intro fuel
  induction fuel with
  | zero =>
    intro guess dl r hg h
    unfold newtonLoop at h
    by_cases hdl : dl.natAbs ≤ 1
    · rw [if_pos hdl] at h; cases h; exact hg
    · rw [if_neg hdl] at h; cases h
  | succ fuel ih =>
    intro guess dl r hg h
    unfold newtonLoop at h
    by_cases hdl : dl.natAbs ≤ 1
    · rw [if_pos hdl] at h; cases h; exact hg
    · rw [if_neg hdl] at h; simp only at h
      cases hs : newtonStep d root guess with
      | none => rw [hs] at h; cases h
      | some gd =>
        obtain ⟨g, dl'⟩ := gd
        rw [hs] at h; simp only at h
        exact ih g dl' r (newtonStep_nonneg hd hr hg hs) h

/-- `ApproxRoot` of a non-negative decimal is non-negative (every root, every fuel). -/
theorem approxRoot_nonneg {d r : Int} {root fuel : Nat} (hd : 0 ≤ d)
    (h : approxRoot d root fuel = .val r) : 0 ≤ r := by
  unfold approxRoot at h
  rw [if_neg (by omega)] at h
  unfold approxRootNonneg at h
  by_cases h1 : root = 1 ∨ d = 0 ∨ d = one
  · rw [if_pos h1] at h; cases h; exact hd
  · rw [if_neg h1] at h
    by_cases h2 : root = 0
    · rw [if_pos h2] at h; cases h; decide
    · rw [if_neg h2] at h
      exact newtonLoop_nonneg hd (by omega) fuel one one r (by decide) h

/-- More fuel never changes the outcome of a loop that finished: the fuel only bounds the number of
iterations of the (uncapped) Go loop. -/
theorem newtonLoop_fuel_mono {d : Int} {root : Nat} : ∀ (fuel k : Nat) (guess dl : Int) (o : Out),
    newtonLoop d root fuel guess dl = o → o ≠ .timeout → newtonLoop d root (fuel + k) guess dl = o := by
  intro fuel
  induction fuel with
  | zero =>
    intro k guess dl o h hne
    unfold newtonLoop at h ⊢
    by_cases hdl : dl.natAbs ≤ 1
    · rw [if_pos hdl] at h ⊢; exact h
    · rw [if_neg hdl] at h; simp only at h; exact absurd h.symm hne
  | succ fuel ih =>
    intro k guess dl o h hne
    have e : fuel + 1 + k = (fuel + k) + 1 := by omega
    rw [e]
    unfold newtonLoop at h ⊢
    by_cases hdl : dl.natAbs ≤ 1
    · rw [if_pos hdl] at h ⊢; exact h
    · rw [if_neg hdl] at h ⊢; simp only at h ⊢
      cases hs : newtonStep d root guess with
      | none => rw [hs] at h; simp only at h ⊢; exact h
      | some gd =>
        obtain ⟨g, dl'⟩ := gd
        rw [hs] at h; simp only at h ⊢
        exact ih k g dl' o h hne

theorem approxRootNonneg_fuel_mono {d : Int} {root fuel : Nat} (k : Nat) {o : Out}
    (h : approxRootNonneg d root fuel = o) (hne : o ≠ .timeout) :
    approxRootNonneg d root (fuel + k) = o := by
  unfold approxRootNonneg at h ⊢
  by_cases h1 : root = 1 ∨ d = 0 ∨ d = one
  · rw [if_pos h1] at h ⊢; exact h
  · rw [if_neg h1] at h ⊢
    by_cases h2 : root = 0
    · rw [if_pos h2] at h ⊢; exact h
    · rw [if_neg h2] at h ⊢
      exact newtonLoop_fuel_mono fuel k one one o h hne

theorem approxRoot_fuel_mono {d : Int} {root fuel : Nat} (k : Nat) {o : Out}
    (h : approxRoot d root fuel = o) (hne : o ≠ .timeout) : approxRoot d root (fuel + k) = o := by
  unfold approxRoot at h ⊢
  by_cases hd : d < 0
  · rw [if_pos hd] at h ⊢
    cases hm : mulInt64 d (-1) with
    | none => rw [hm] at h; exact h
    | some nd =>
      rw [hm] at h; simp only at h ⊢
      cases hr : approxRootNonneg nd root fuel with
      | timeout => rw [hr] at h; simp only at h; exact absurd h.symm hne
      | err =>
        rw [hr] at h
        rw [approxRootNonneg_fuel_mono k hr (by simp)]; exact h
      | val g =>
        rw [hr] at h
        rw [approxRootNonneg_fuel_mono k hr (by simp)]; exact h
  · rw [if_neg hd] at h ⊢
    exact approxRootNonneg_fuel_mono k h hne

theorem approxRoot_fuel_le {d : Int} {root fuel fuel' : Nat} {o : Out} (hle : fuel ≤ fuel')
    (h : approxRoot d root fuel = o) (hne : o ≠ .timeout) : approxRoot d root fuel' = o := by
  have := approxRoot_fuel_mono (fuel' - fuel) h hne
  rwa [show fuel + (fuel' - fuel) = fuel' by omega] at this

/-! ## `FracPow`, weight and coins over a root oracle -/

/-- The oracle returns non-negative values on non-negative inputs (true of `ApproxRoot`:
`approxRoot_nonneg`). -/
def RootNonneg (R : Int → Out) : Prop := ∀ d g, 0 ≤ d → R d = .val g → 0 ≤ g

/-- On the integer bins `0..B` the oracle finishes with a value, monotone in the bin. -/
def RootMono (R : Int → Out) (B : Int) : Prop :=
  ∀ b b' : Int, 0 ≤ b → b ≤ b' → b' ≤ B →
    ∃ g g', R (ofInt b) = .val g ∧ R (ofInt b') = .val g' ∧ 0 ≤ g ∧ g ≤ g'

theorem rootOracle_nonneg (den fuel : Nat) : RootNonneg (rootOracle den fuel) :=
  fun _ _ hd h => approxRoot_nonneg hd h

theorem ofInt_nonneg {b : Int} (h : 0 ≤ b) : 0 ≤ ofInt b := Int.mul_nonneg h (by decide)
theorem ofInt_mono {a b : Int} (h : a ≤ b) : ofInt a ≤ ofInt b :=
  Int.mul_le_mul_of_nonneg_right h (by decide)

/-- `FracPow` is monotone in the bin wherever the root is (all exponents, on or off the grid). -/
theorem fracPowR_mono {R : Int → Out} {B b b' e v' : Int} {den : Nat} (hR : RootMono R B)
    (hb : 0 ≤ b) (hbb : b ≤ b') (hB : b' ≤ B) (h : fracPowR R (ofInt b') e den = .val v') :
    ∃ v, fracPowR R (ofInt b) e den = .val v ∧ 0 ≤ v ∧ v ≤ v' := by
  unfold fracPowR at h ⊢
  by_cases he : e = 0
  · rw [if_pos he] at h ⊢
    cases h; exact ⟨one, rfl, by decide, Int.le_refl _⟩
  · rw [if_neg he] at h ⊢
    cases h1 : mul e (ofInt den) with
    | none => rw [h1] at h; cases h
    | some t =>
      rw [h1] at h; simp only at h ⊢
      cases h2 : roundInt64 t with
      | none => rw [h2] at h; cases h
      | some b0 =>
        rw [h2] at h; simp only at h ⊢
        cases h3 : roundInt64 (ofInt b0) with
        | none => rw [h3] at h; cases h
        | some bb =>
          rw [h3] at h; simp only at h ⊢
          obtain ⟨g, g', hg, hg', hg0, hgg⟩ := hR b b' hb hbb hB
          rw [hg'] at h; rw [hg]; simp only at h ⊢
          cases h4 : power g' (toUint64 bb) with
          | none => rw [h4] at h; cases h
          | some r' =>
            rw [h4] at h; simp only [Out.val.injEq] at h
            obtain ⟨r, hr, hr0, hrr⟩ := power_mono _ hg0 hgg h4
            rw [hr]; exact ⟨r, rfl, hr0, by omega⟩

/-- `FracPow` of a non-negative decimal is non-negative (any oracle with non-negative values). -/
theorem fracPowR_nonneg {R : Int → Out} {d e v : Int} {den : Nat} (hR : RootNonneg R) (hd : 0 ≤ d)
    (h : fracPowR R d e den = .val v) : 0 ≤ v := by
  unfold fracPowR at h
  by_cases he : e = 0
  · rw [if_pos he] at h; cases h; decide
  · rw [if_neg he] at h
    cases h1 : mul e (ofInt den) with
    | none => rw [h1] at h; cases h
    | some t =>
      rw [h1] at h; simp only at h
      cases h2 : roundInt64 t with
      | none => rw [h2] at h; cases h
      | some b0 =>
        rw [h2] at h; simp only at h
        cases h3 : roundInt64 (ofInt b0) with
        | none => rw [h3] at h; cases h
        | some bb =>
          rw [h3] at h; simp only at h
          cases h4 : R d with
          | timeout => rw [h4] at h; cases h
          | err => rw [h4] at h; cases h; decide
          | val c =>
            rw [h4] at h; simp only at h
            cases h5 : power c (toUint64 bb) with
            | none => rw [h5] at h; cases h
            | some r =>
              rw [h5] at h; cases h
              exact power_nonneg _ (hR d c hd h4) h5

theorem toBigInt_le {x y r' : Int} (hx : 0 ≤ x) (h : x ≤ y) (hy : toBigInt y = some r') :
    ∃ r, toBigInt x = some r ∧ 0 ≤ r ∧ r ≤ r' := by
  unfold toBigInt Int256.inRange Int256.maxBitLen at hy ⊢
  by_cases hb : Int256.bitLen y ≤ 255
  · simp only [hb, decide_true, if_true, Option.some.injEq] at hy
    subst hy
    have hy' : y.natAbs < 2 ^ 255 := (Int256.bitLen_le_iff y 255).mp (by omega)
    have hx' : ¬ Int256.bitLen x > 255 := (Int256.bitLen_le_iff x 255).mpr (by omega)
    have : Int256.bitLen x ≤ 255 := by omega
    simp only [this, decide_true, if_true]
    exact ⟨x, rfl, hx, h⟩
  · simp [hb] at hy

/-- The tail of the reward / burn computation is monotone in (bin, count): if the computation for
the larger pair returns a value, so does the smaller one, and it is between 0 and that value. -/
theorem coinsOfBin_mono {R : Int → Out} {p : Pip22} {B b b' m cnt cnt' c' : Int}
    (hR : RootMono R B) (hwm : 0 < p.wm) (hb : 0 ≤ b) (hbb : b ≤ b') (hB : b' ≤ B)
    (hm : 0 ≤ m) (hc : 0 ≤ cnt) (hcc : cnt ≤ cnt')
    (h : coinsOfBin R p b' m cnt' = .val c') :
    ∃ c, coinsOfBin R p b m cnt = .val c ∧ 0 ≤ c ∧ c ≤ c' := by
  unfold coinsOfBin at h ⊢
  cases h1 : fracPowR R (ofInt b') p.exponent pip22Den with
  | timeout => rw [h1] at h; cases h
  | err => rw [h1] at h; cases h
  | val fp' =>
    rw [h1] at h; simp only at h
    obtain ⟨fp, hfp, hfp0, hfpp⟩ := fracPowR_mono hR hb hbb hB h1
    rw [hfp]; simp only
    cases h2 : quo fp' p.wm with
    | none => rw [h2] at h; cases h
    | some w' =>
      rw [h2] at h; simp only at h
      obtain ⟨w, hw, hw0, hww⟩ := quo_mono hfp0 hfpp hwm h2
      rw [hw]; simp only
      cases h3 : mul (ofInt m) (ofInt cnt') with
      | none => rw [h3] at h; cases h
      | some mr' =>
        rw [h3] at h; simp only at h
        obtain ⟨mr, hmr, hmr0, hmrr⟩ :=
          mul_mono (ofInt_nonneg hm) (Int.le_refl _) (ofInt_nonneg hc) (ofInt_mono hcc) h3
        rw [hmr]; simp only
        cases h4 : mul mr' w' with
        | none => rw [h4] at h; cases h
        | some cd' =>
          rw [h4] at h; simp only at h
          obtain ⟨cd, hcd, hcd0, hcdd⟩ := mul_mono hmr0 hmrr hw0 hww h4
          rw [hcd]; simp only
          cases h5 : toBigInt (truncateInt cd') with
          | none => rw [h5] at h; cases h
          | some x' =>
            rw [h5] at h; simp only [Out.val.injEq] at h
            obtain ⟨x, hx, hx0, hxx⟩ :=
              toBigInt_le (chopTrunc_nonneg hcd0) (chopTrunc_mono hcd0 hcdd) h5
            unfold truncateInt
            unfold truncateInt at h5
            rw [hx]; exact ⟨x, rfl, hx0, by omega⟩

/-- Same bin, any bin (also in the overflow region): monotone in the count and non-negative. -/
theorem coinsOfBin_mono_count {R : Int → Out} {p : Pip22} {b m cnt cnt' c' : Int}
    (hR : RootNonneg R) (hwm : 0 < p.wm) (hb : 0 ≤ b) (hm : 0 ≤ m) (hc : 0 ≤ cnt) (hcc : cnt ≤ cnt')
    (h : coinsOfBin R p b m cnt' = .val c') :
    ∃ c, coinsOfBin R p b m cnt = .val c ∧ 0 ≤ c ∧ c ≤ c' := by
  unfold coinsOfBin at h ⊢
  cases h1 : fracPowR R (ofInt b) p.exponent pip22Den with
  | timeout => rw [h1] at h; cases h
  | err => rw [h1] at h; cases h
  | val fp =>
    rw [h1] at h; simp only at h ⊢
    have hfp0 : 0 ≤ fp := fracPowR_nonneg hR (ofInt_nonneg hb) h1
    cases h2 : quo fp p.wm with
    | none => rw [h2] at h; cases h
    | some w =>
      rw [h2] at h; simp only at h ⊢
      obtain ⟨w0, hw, hw0, _⟩ := quo_mono hfp0 (Int.le_refl _) hwm h2
      rw [h2] at hw; cases hw
      cases h3 : mul (ofInt m) (ofInt cnt') with
      | none => rw [h3] at h; cases h
      | some mr' =>
        rw [h3] at h; simp only at h
        obtain ⟨mr, hmr, hmr0, hmrr⟩ :=
          mul_mono (ofInt_nonneg hm) (Int.le_refl _) (ofInt_nonneg hc) (ofInt_mono hcc) h3
        rw [hmr]; simp only
        cases h4 : mul mr' w with
        | none => rw [h4] at h; cases h
        | some cd' =>
          rw [h4] at h; simp only at h
          obtain ⟨cd, hcd, hcd0, hcdd⟩ := mul_mono hmr0 hmrr hw0 (Int.le_refl _) h4
          rw [hcd]; simp only
          cases h5 : toBigInt (truncateInt cd') with
          | none => rw [h5] at h; cases h
          | some x' =>
            rw [h5] at h; simp only [Out.val.injEq] at h
            obtain ⟨x, hx, hx0, hxx⟩ :=
              toBigInt_le (chopTrunc_nonneg hcd0) (chopTrunc_mono hcd0 hcdd) h5
            unfold truncateInt
            unfold truncateInt at h5
            rw [hx]; exact ⟨x, rfl, hx0, by omega⟩

end BigDec
