import Proofs.Num.Coins
/-!
# Canonical coin sets are determined by their map reading (extensionality)

`sumOf` reads a coin list as a map `Denom → Int`.  A *canonical* list (strictly ascending
denominations, no zero amount) is the unique representation of its map, so every statement
"the per-denomination amounts of the result are …" about canonical results pins the result
list itself.  Consequences: `safeAdd` is commutative and associative on sorted sets (as lists,
not only as maps), `(a + b) - b = a`, and `IsAllGTE` is the pointwise order of the maps.
-/
namespace Coins

theorem Bytes_trichotomy (a b : Bytes) : a < b ∨ a = b ∨ b < a := by
  by_cases h1 : a < b
  · exact Or.inl h1
  · by_cases h2 : b < a
    · exact Or.inr (Or.inr h2)
    · exact Or.inr (Or.inl (List.le_antisymm (List.not_lt.mp h2) (List.not_lt.mp h1)))

/-- In a sorted list whose head is above `d`, nothing is listed under `d`. -/
theorem sumOf_zero_of_lt_head {c : Coin} {cs : Coins} (hs : Sorted (c :: cs)) {d : Denom}
    (h : d < c.denom) : sumOf (c :: cs) d = 0 := by
  apply sumOf_eq_zero
  intro x hx he
  rcases List.mem_cons.mp hx with rfl | hx
  · rw [he] at h; exact Bytes.lt_irrefl _ h
  · have := (List.pairwise_cons.mp hs).1 x hx
    rw [he] at this
    exact Bytes.lt_irrefl _ (Bytes.lt_trans h this)

/-- **Extensionality.**  Two canonical coin lists with the same map reading are equal. -/
theorem canonical_ext : ∀ (a b : Coins), Sorted a → Sorted b →
    (∀ c ∈ a, c.amount ≠ 0) → (∀ c ∈ b, c.amount ≠ 0) →
    (∀ d, sumOf a d = sumOf b d) → a = b
  | [], [], _, _, _, _, _ => rfl
  | [], y :: ys, _, hb, _, nb, h => by
    have := h y.denom
    rw [sumOf_of_mem hb List.mem_cons_self] at this
    exact absurd this.symm (by simpa [sumOf] using nb y List.mem_cons_self)
  | x :: xs, [], ha, _, na, _, h => by
    have := h x.denom
    rw [sumOf_of_mem ha List.mem_cons_self] at this
    exact absurd this (by simpa [sumOf] using na x List.mem_cons_self)
  | x :: xs, y :: ys, ha, hb, na, nb, h => by
    rcases Bytes_trichotomy x.denom y.denom with hlt | heq | hgt
    · have h1 := h x.denom
      rw [sumOf_of_mem ha List.mem_cons_self, sumOf_zero_of_lt_head hb hlt] at h1
      exact absurd h1 (na x List.mem_cons_self)
    · have h1 := h x.denom
      rw [sumOf_of_mem ha List.mem_cons_self] at h1
      have h2 : sumOf (y :: ys) x.denom = y.amount := by
        rw [heq]; exact sumOf_of_mem hb List.mem_cons_self
      have hxy : x = y := by
        cases x; cases y; simp at heq h1 h2 ⊢; exact ⟨heq, by omega⟩
      subst hxy
      have ht : ∀ d, sumOf xs d = sumOf ys d := by
        intro d
        have := h d
        rw [sumOf_cons, sumOf_cons] at this
        omega
      rw [canonical_ext xs ys (List.pairwise_cons.mp ha).2 (List.pairwise_cons.mp hb).2
        (fun c hc => na c (List.mem_cons_of_mem _ hc)) (fun c hc => nb c (List.mem_cons_of_mem _ hc)) ht]
    · have h1 := h y.denom
      rw [sumOf_of_mem hb List.mem_cons_self, sumOf_zero_of_lt_head ha hgt] at h1
      exact absurd h1.symm (nb y List.mem_cons_self)

/-- `safeAdd` is commutative on sorted sets — the result *lists* coincide. -/
theorem safeAdd_comm (a b c c' : Coins) (ha : Sorted a) (hb : Sorted b)
    (h : safeAdd a b = some c) (h' : safeAdd b a = some c') : c = c' := by
  apply canonical_ext c c' (safeAdd_sorted a b c ha hb h) (safeAdd_sorted b a c' hb ha h')
    (fun x hx => (mem_safeAdd a b c h x hx).2) (fun x hx => (mem_safeAdd b a c' h' x hx).2)
  intro d
  rw [safeAdd_sumOf a b c h d, safeAdd_sumOf b a c' h' d]; omega

/-- `safeAdd` is associative on sorted sets whenever both bracketings succeed. -/
theorem safeAdd_assoc (a b c ab bc l r : Coins) (ha : Sorted a) (hb : Sorted b) (hc : Sorted c)
    (h1 : safeAdd a b = some ab) (h2 : safeAdd ab c = some l)
    (h3 : safeAdd b c = some bc) (h4 : safeAdd a bc = some r) : l = r := by
  have sab := safeAdd_sorted a b ab ha hb h1
  have sbc := safeAdd_sorted b c bc hb hc h3
  apply canonical_ext l r (safeAdd_sorted ab c l sab hc h2) (safeAdd_sorted a bc r ha sbc h4)
    (fun x hx => (mem_safeAdd ab c l h2 x hx).2) (fun x hx => (mem_safeAdd a bc r h4 x hx).2)
  intro d
  rw [safeAdd_sumOf ab c l h2 d, safeAdd_sumOf a b ab h1 d, safeAdd_sumOf a bc r h4 d,
    safeAdd_sumOf b c bc h3 d]; omega

/-- Adding the empty set to a canonical set returns that very set. -/
theorem safeAdd_nil_canonical (a c : Coins) (ha : Sorted a) (na : ∀ x ∈ a, x.amount ≠ 0)
    (h : safeAdd a [] = some c) : c = a := by
  apply canonical_ext c a (safeAdd_sorted a [] c ha List.Pairwise.nil h) ha
    (fun x hx => (mem_safeAdd a [] c h x hx).2) na
  intro d
  rw [safeAdd_sumOf a [] c h d]; simp [sumOf]

/-- `(a + b) - b = a` for a canonical `a`: subtraction undoes addition exactly, as lists. -/
theorem add_sub_cancel (a b c d : Coins) (neg : Bool) (ha : Sorted a) (hb : Sorted b)
    (na : ∀ x ∈ a, x.amount ≠ 0)
    (h : safeAdd a b = some c) (hs : safeSub c b = some (d, neg)) : d = a := by
  have sc := safeAdd_sorted a b c ha hb h
  obtain ⟨hd, sd, nd, _⟩ := safeSub_spec c b d neg sc hb hs
  apply canonical_ext d a sd ha nd na
  intro e
  rw [hd e, safeAdd_sumOf a b c h e]; omega

/-- … and the negative flag of `(a + b) - b` is raised exactly when `a` has a negative entry. -/
theorem add_sub_cancel_flag (a b c d : Coins) (neg : Bool) (ha : Sorted a) (hb : Sorted b)
    (h : safeAdd a b = some c) (hs : safeSub c b = some (d, neg)) :
    neg = true ↔ ∃ e, sumOf a e < 0 := by
  have sc := safeAdd_sorted a b c ha hb h
  obtain ⟨_, _, _, hn⟩ := safeSub_spec c b d neg sc hb hs
  rw [hn]
  constructor
  · rintro ⟨e, he⟩; refine ⟨e, ?_⟩; rw [safeAdd_sumOf a b c h e] at he; omega
  · rintro ⟨e, he⟩; refine ⟨e, ?_⟩; rw [safeAdd_sumOf a b c h e]; omega

/-- `IsAllGTE` on sorted non-empty sets is the pointwise order restricted to the denominations
listed in `b` (as coded: denominations only in `a` are not looked at). -/
theorem isAllGTE_spec (a b : Coins) (ha : Sorted a) (hne : a ≠ []) (hbne : b ≠ []) :
    isAllGTE a b = true ↔ ∀ cb ∈ b, cb.amount ≤ sumOf a cb.denom := by
  unfold isAllGTE
  have h1 : b.isEmpty = false := by cases b <;> simp_all
  have h2 : a.isEmpty = false := by cases a <;> simp_all
  simp only [h1, h2, Bool.false_eq_true, if_false, List.all_eq_true, Bool.not_eq_true',
    decide_eq_false_iff_not, gt_iff_lt, Int.not_lt]
  constructor
  · intro h cb hcb; rw [← amountOf_eq_sumOf a cb.denom ha]; exact h cb hcb
  · intro h cb hcb; rw [amountOf_eq_sumOf a cb.denom ha]; exact h cb hcb

end Coins
