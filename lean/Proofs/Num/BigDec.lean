import PocketModel.Num.BigDec
import Proofs.Num.Int256
namespace BigDec

/-- The rounding decision on an explicit quotient/remainder pair. -/
def roundQR (q r : Int) : Int :=
  if r = 0 then q
  else if r < 500000000000000000 then q
  else if r > 500000000000000000 then q + 1
  else if q % 2 = 0 then q else q + 1

theorem roundQR_spec (q r : Int) (r0 : 0 ≤ r) (r1 : r < 1000000000000000000) :
    2 * (roundQR q r * 1000000000000000000 - (q * 1000000000000000000 + r)) ≤ 1000000000000000000 ∧
    2 * ((q * 1000000000000000000 + r) - roundQR q r * 1000000000000000000) ≤ 1000000000000000000 ∧
    ((2 * (roundQR q r * 1000000000000000000 - (q * 1000000000000000000 + r)) = 1000000000000000000 ∨
      2 * ((q * 1000000000000000000 + r) - roundQR q r * 1000000000000000000) = 1000000000000000000) →
      roundQR q r % 2 = 0) := by
  unfold roundQR
  by_cases h1 : r = 0
  · simp only [h1, ↓reduceIte]; omega
  · by_cases h2 : r < 500000000000000000
    · simp only [h1, h2, ↓reduceIte]; omega
    · by_cases h3 : r > 500000000000000000
      · simp only [h1, h2, h3, ↓reduceIte]; omega
      · by_cases h4 : q % 2 = 0
        · rw [if_neg h1, if_neg h2, if_neg h3, if_pos h4]; omega
        · rw [if_neg h1, if_neg h2, if_neg h3, if_neg h4]; omega

theorem chopRoundNonneg_eq (x : Int) :
    chopRoundNonneg x = roundQR (x / 1000000000000000000) (x % 1000000000000000000) := rfl

/-- Banker's rounding of a non-negative raw product: the result is within half a unit, and an exact
tie goes to the even neighbour. -/
theorem chopRoundNonneg_spec (x : Int) (hx : 0 ≤ x) :
    2 * (chopRoundNonneg x * P - x) ≤ P ∧ 2 * (x - chopRoundNonneg x * P) ≤ P ∧
    ((2 * (chopRoundNonneg x * P - x) = P ∨ 2 * (x - chopRoundNonneg x * P) = P) →
      chopRoundNonneg x % 2 = 0) := by
  have e : x = x / 1000000000000000000 * 1000000000000000000 + x % 1000000000000000000 := by omega
  have := roundQR_spec (x / 1000000000000000000) (x % 1000000000000000000) (by omega) (by omega)
  rw [← e, ← chopRoundNonneg_eq] at this
  exact this

theorem chopRound_neg (x : Int) : chopRound (-x) = - chopRound x := by
  unfold chopRound
  by_cases h1 : x < 0
  · have h2 : ¬ (-x < 0) := by omega
    rw [if_pos h1, if_neg h2]; simp
  · by_cases h2 : x = 0
    · subst h2; simp [chopRoundNonneg, P]
    · have h3 : -x < 0 := by omega
      rw [if_neg h1, if_pos h3]; simp

/-- `Mul`/`Quo` rounding for every sign: within half a unit of the exact quotient by `10^18`. -/
theorem chopRound_spec (x : Int) :
    2 * (chopRound x * P - x) ≤ P ∧ 2 * (x - chopRound x * P) ≤ P ∧
    ((2 * (chopRound x * P - x) = P ∨ 2 * (x - chopRound x * P) = P) → chopRound x % 2 = 0) := by
  unfold chopRound
  by_cases h : x < 0
  · simp only [h, if_true]
    have := chopRoundNonneg_spec (-x) (by omega)
    simp only [P] at this ⊢
    obtain ⟨a, b, c⟩ := this
    rw [Int.neg_mul]
    refine ⟨by omega, by omega, ?_⟩
    intro hh
    have : chopRoundNonneg (-x) % 2 = 0 := c (by omega)
    omega
  · simp only [h, if_false]
    exact chopRoundNonneg_spec x (by omega)

/-- Truncation is toward zero and loses less than one unit. -/
theorem chopTrunc_spec (x : Int) :
    (0 ≤ x → 0 ≤ chopTrunc x ∧ chopTrunc x * P ≤ x ∧ x < (chopTrunc x + 1) * P) ∧
    (x ≤ 0 → chopTrunc x ≤ 0 ∧ x ≤ chopTrunc x * P ∧ (chopTrunc x - 1) * P < x) := by
  unfold chopTrunc P
  constructor
  · intro h
    rw [Int.tdiv_eq_ediv_of_nonneg h]
    omega
  · intro h
    have : x = -(-x) := by omega
    rw [this, Int.neg_tdiv, Int.tdiv_eq_ediv_of_nonneg (by omega)]
    omega

set_option exponentiation.threshold 400 in
/-- Every checked operation returns the computed value or panics because it exceeds 315 bits. -/
theorem check_spec (x : Int) :
    check x = some x ∧ x.natAbs < 2 ^ 315 ∨ check x = none ∧ 2 ^ 315 ≤ x.natAbs := by
  unfold check maxBits
  by_cases h : Int256.bitLen x > 255 + 60
  · right; simp [h]; exact (Int256.bitLen_gt_iff _ _).mp h
  · left; simp [h]; exact (Int256.bitLen_le_iff _ _).mp h

end BigDec
