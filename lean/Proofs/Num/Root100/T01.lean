import Proofs.Num.Root100.Def
/-! Table chunk 1: bins 93..139 of `ApproxRoot(100)` terminate within 180 iterations, monotone. -/
namespace BigDec
theorem table01 : tableOK 93 46 = true := by decide +kernel
end BigDec
