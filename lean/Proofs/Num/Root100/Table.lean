import Proofs.Num.Root100.T00
import Proofs.Num.Root100.T01
import Proofs.Num.Root100.T02
import Proofs.Num.Root100.T03
import Proofs.Num.Root100.T04
import Proofs.Num.Root100.T05
import Proofs.Num.Root100.T06
import Proofs.Num.Root100.T07
import Proofs.Num.Root100.T08
import Proofs.Num.Root100.T09
import Proofs.Num.Root100.T10
import Proofs.Num.Root100.T11
import Proofs.Num.Root100.T12
import Proofs.Num.Root100.T13
import Proofs.Num.Root100.T14
import Proofs.Num.Root100.T15
/-!
# `root100_table`: bins 0..498 — termination within 180 Newton iterations and monotonicity
-/
namespace BigDec

/-- The glued table: for every bin `b < 498`, `root100 b` and `root100 (b+1)` are values reached
within `tableFuel` iterations and `root100 b ≤ root100 (b+1)`. -/
theorem root100_mono_step : MonoOn 0 498 :=
  MonoOn_append (tableOK_spec table00) (MonoOn_append (tableOK_spec table01) (MonoOn_append (tableOK_spec table02) (MonoOn_append (tableOK_spec table03) (MonoOn_append (tableOK_spec table04) (MonoOn_append (tableOK_spec table05) (MonoOn_append (tableOK_spec table06) (MonoOn_append (tableOK_spec table07) (MonoOn_append (tableOK_spec table08) (MonoOn_append (tableOK_spec table09) (MonoOn_append (tableOK_spec table10) (MonoOn_append (tableOK_spec table11) (MonoOn_append (tableOK_spec table12) (MonoOn_append (tableOK_spec table13) (MonoOn_append (tableOK_spec table14) (tableOK_spec table15)))))))))))))))

end BigDec
