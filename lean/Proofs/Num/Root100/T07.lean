import Proofs.Num.Root100.Def
/-! Table chunk 7: bins 295..321 of `ApproxRoot(100)` terminate within 180 iterations, monotone. -/
namespace BigDec
theorem table07 : tableOK 295 26 = true := by decide +kernel
end BigDec
