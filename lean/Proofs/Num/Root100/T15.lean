import Proofs.Num.Root100.Def
/-! Table chunk 15: bins 478..498 of `ApproxRoot(100)` terminate within 180 iterations, monotone. -/
namespace BigDec
theorem table15 : tableOK 478 20 = true := by decide +kernel
end BigDec
