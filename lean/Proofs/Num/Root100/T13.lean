import Proofs.Num.Root100.Def
/-! Table chunk 13: bins 436..457 of `ApproxRoot(100)` terminate within 180 iterations, monotone. -/
namespace BigDec
theorem table13 : tableOK 436 21 = true := by decide +kernel
end BigDec
