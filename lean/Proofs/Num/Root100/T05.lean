import Proofs.Num.Root100.Def
/-! Table chunk 5: bins 240..268 of `ApproxRoot(100)` terminate within 180 iterations, monotone. -/
namespace BigDec
theorem table05 : tableOK 240 28 = true := by decide +kernel
end BigDec
