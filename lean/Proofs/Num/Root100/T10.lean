import Proofs.Num.Root100.Def
/-! Table chunk 10: bins 369..392 of `ApproxRoot(100)` terminate within 180 iterations, monotone. -/
namespace BigDec
theorem table10 : tableOK 369 23 = true := by decide +kernel
end BigDec
