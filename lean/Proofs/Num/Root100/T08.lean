import Proofs.Num.Root100.Def
/-! Table chunk 8: bins 321..345 of `ApproxRoot(100)` terminate within 180 iterations, monotone. -/
namespace BigDec
theorem table08 : tableOK 321 24 = true := by decide +kernel
end BigDec
