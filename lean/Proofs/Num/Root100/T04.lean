import Proofs.Num.Root100.Def
/-! Table chunk 4: bins 210..240 of `ApproxRoot(100)` terminate within 180 iterations, monotone. -/
namespace BigDec
theorem table04 : tableOK 210 30 = true := by decide +kernel
end BigDec
