import Proofs.Num.Root100.Def
/-! Table chunk 14: bins 457..478 of `ApproxRoot(100)` terminate within 180 iterations, monotone. -/
namespace BigDec
theorem table14 : tableOK 457 21 = true := by decide +kernel
end BigDec
