import Proofs.Num.Root100.Def
/-! Table chunk 3: bins 176..210 of `ApproxRoot(100)` terminate within 180 iterations, monotone. -/
namespace BigDec
theorem table03 : tableOK 176 34 = true := by decide +kernel
end BigDec
