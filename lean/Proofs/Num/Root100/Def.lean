import Proofs.Num.Root100.Fast
/-!
# The finite table for `ApproxRoot(100)` on the integer bins (C27)

`tableOK lo n` evaluates (with the sound fast evaluator `Fast.root`) the 100th root of the bins
`lo, lo+1, …, lo+n` once each — the previous root is carried along — and checks that every one
finishes with a value within `tableFuel` Newton iterations and that consecutive roots do not
decrease.  The sixteen modules `T00 … T15` evaluate it by `decide +kernel` on consecutive ranges
(built in parallel by `lake`); `Table.lean` glues them into statements about the model's
`approxRoot`.
-/
namespace BigDec

/-- Iterations allowed in the table: every bin `0..498` converges within 179. -/
def tableFuel : Nat := 180

def tableFrom : Nat → Nat → Nat → Bool
  | _, 0, _ => true
  | b, n + 1, prev =>
    match Fast.root tableFuel b with
    | some g => Nat.ble prev g && tableFrom (b + 1) n g
    | none => false

def tableOK (lo n : Nat) : Bool :=
  match Fast.root tableFuel lo with
  | some g => tableFrom (lo + 1) n g
  | none => false

/-- `NewDec(b).ApproxRoot(100)` with `fuel` iterations allowed (the model). -/
def root100 (fuel : Nat) (b : Nat) : Out := approxRoot (ofInt (b : Int)) 100 fuel

/-- Consecutive bins in `[lo, hi)`: both roots are values within `tableFuel` iterations and do not
decrease. -/
def MonoOn (lo hi : Nat) : Prop :=
  ∀ b, lo ≤ b → b < hi →
    ∃ g g' : Nat, root100 tableFuel b = .val g ∧ root100 tableFuel (b + 1) = .val g' ∧ g ≤ g'

theorem tableFrom_spec : ∀ (n b prev : Nat), Fast.root tableFuel (b - 1) = some prev → 1 ≤ b →
    tableFrom b n prev = true → MonoOn (b - 1) (b - 1 + n) := by
  intro n
  induction n with
  | zero => intro b prev _ _ _ c h1 h2; omega
  | succ n ih =>
    intro b prev hprev hb h
    rw [tableFrom] at h
    cases hr : Fast.root tableFuel b with
    | none => rw [hr] at h; cases h
    | some g =>
      rw [hr] at h; simp only [Bool.and_eq_true] at h
      obtain ⟨hle, hrest⟩ := h
      have hle' : prev ≤ g := Nat.le_of_ble_eq_true hle
      have ih' := ih (b + 1) g (by simpa using hr) (by omega) hrest
      intro c h1 h2
      by_cases hc : c = b - 1
      · subst hc
        refine ⟨prev, g, Fast.root_sound hprev, ?_, hle'⟩
        rw [show b - 1 + 1 = b by omega]
        exact Fast.root_sound hr
      · have := ih' c (by simp; omega) (by simp; omega)
        exact this

theorem tableOK_spec {lo n : Nat} (h : tableOK lo n = true) : MonoOn lo (lo + n) := by
  unfold tableOK at h
  cases hr : Fast.root tableFuel lo with
  | none => rw [hr] at h; cases h
  | some g =>
    rw [hr] at h
    have := tableFrom_spec n (lo + 1) g (by simpa using hr) (by omega) h
    simpa using this

theorem MonoOn_append {a b c : Nat} (h1 : MonoOn a b) (h2 : MonoOn b c) : MonoOn a c := by
  intro x hx1 hx2
  by_cases h : x < b
  · exact h1 x hx1 h
  · exact h2 x (by omega) hx2

end BigDec
