import Proofs.Num.Root100.Table
import Proofs.Num.StakeWeight
/-!
# From the table to the root oracle: monotone on bins 0..498, overflow (error) from bin 499 on
-/
namespace BigDec

theorem root100_val {b : Nat} (hb : b ≤ 498) : ∃ g : Nat, root100 tableFuel b = .val g := by
  by_cases h : b < 498
  · obtain ⟨g, _, hg, _, _⟩ := root100_mono_step b (by omega) h
    exact ⟨g, hg⟩
  · have e : b = 497 + 1 := by omega
    obtain ⟨_, g', _, hg', _⟩ := root100_mono_step 497 (by omega) (by omega)
    exact ⟨g', by rw [e]; exact hg'⟩

theorem root100_mono_nat : ∀ (k b : Nat), b + k ≤ 498 →
    ∃ g g' : Nat, root100 tableFuel b = .val g ∧ root100 tableFuel (b + k) = .val g' ∧ g ≤ g' := by
  intro k
  induction k with
  | zero =>
    intro b hb
    obtain ⟨g, hg⟩ := root100_val (b := b) (by omega)
    exact ⟨g, g, hg, hg, Nat.le_refl _⟩
  | succ k ih =>
    intro b hb
    obtain ⟨g, g1, hg, hg1, hle⟩ := ih b (by omega)
    obtain ⟨g2, g3, hg2, hg3, hle2⟩ := root100_mono_step (b + k) (by omega) (by omega)
    rw [hg1] at hg2
    cases hg2
    exact ⟨g, g3, hg, by rw [show b + (k + 1) = b + k + 1 by omega]; exact hg3, by omega⟩

/-- **root100_table** in oracle form: with at least 180 iterations allowed, `ApproxRoot(100)` of
every integer bin `0..498` finishes with a non-negative value and is monotone in the bin. -/
theorem rootMono_table {fuel : Nat} (hf : 180 ≤ fuel) : RootMono (rootOracle 100 fuel) 498 := by
  intro b b' hb hbb hB
  obtain ⟨g, g', hg, hg', hle⟩ := root100_mono_nat (b'.toNat - b.toNat) b.toNat (by omega)
  have e1 : ((b.toNat : Nat) : Int) = b := by omega
  have e2 : ((b.toNat + (b'.toNat - b.toNat) : Nat) : Int) = b' := by omega
  unfold root100 at hg hg'
  rw [e1] at hg
  rw [e2] at hg'
  refine ⟨g, g', ?_, ?_, by omega, by omega⟩
  · exact approxRoot_fuel_le (show tableFuel ≤ fuel from hf) hg (by simp)
  · exact approxRoot_fuel_le (show tableFuel ≤ fuel from hf) hg' (by simp)

theorem power_one_99 : power one 99 = some one := by decide +kernel

theorem power_overflow_598 : power 5980000000000000000 99 = none := by decide +kernel

/-- **root100_overflow**: from bin 499 on, the second Newton iteration of `ApproxRoot(100)`
overflows 315 bits in `guess.Power(99)` (or an earlier operation already did): the call returns an
error after at most two iterations, for every bin however large. -/
theorem root100_overflow {b : Int} (hb : 499 ≤ b) {fuel : Nat} (hf : 2 ≤ fuel) :
    approxRoot (ofInt b) 100 fuel = .err := by
  obtain ⟨f, rfl⟩ : ∃ f, fuel = f + 1 + 1 := ⟨fuel - 2, by omega⟩
  have hd : ofInt b = b * 1000000000000000000 := rfl
  unfold approxRoot
  rw [if_neg (by rw [hd]; omega)]
  unfold approxRootNonneg
  rw [if_neg (by rw [hd]; unfold one P; omega), if_neg (by decide)]
  unfold newtonLoop
  rw [if_neg (by decide)]
  simp only
  -- first iteration
  have hq : quo (ofInt b) one = check (ofInt b) := by
    unfold quo
    rw [if_neg (by decide)]
    have : (ofInt b * P * P).tdiv one = ofInt b * P := Int.mul_tdiv_cancel _ (by decide)
    rw [this]
    unfold ofInt
    rw [chopRound_ofInt]
  have hstep : newtonStep (ofInt b) 100 one = none ∨
      newtonStep (ofInt b) 100 one =
        some (one + (ofInt b - one).tdiv 100, (ofInt b - one).tdiv 100) := by
    unfold newtonStep
    rw [show (100 - 1 : Nat) = 99 from rfl, power_one_99]
    simp only
    rw [if_neg (show ¬ one = 0 by decide), hq]
    cases h1 : check (ofInt b) with
    | none => left; rfl
    | some q =>
      have eq1 := check_eq_some h1; subst eq1
      simp only
      cases h2 : sub (ofInt b) one with
      | none => left; rfl
      | some s =>
        have es : s = ofInt b - one := check_eq_some h2
        subst es
        simp only
        have h100 : ((100 : Nat) : Int) ≠ 0 := by decide
        simp only [quoInt, if_neg h100]
        cases h3 : add one ((ofInt b - one).tdiv ((100 : Nat) : Int)) with
        | none => left; rfl
        | some g1 =>
          have eg : g1 = one + (ofInt b - one).tdiv ((100 : Nat) : Int) := check_eq_some h3
          subst eg
          right; rfl
  rcases hstep with h | h
  · rw [h]
  · rw [h]
    simp only
    have hdl : (ofInt b - one).tdiv 100 = (ofInt b - one) / 100 := by
      rw [Int.tdiv_eq_ediv_of_nonneg (by rw [hd]; unfold one P; omega)]
    rw [hdl]
    unfold newtonLoop
    have hbig : 4980000000000000000 ≤ (ofInt b - one) / 100 := by
      rw [hd]; unfold one P; omega
    rw [if_neg (by omega)]
    simp only
    have hpow : power (one + (ofInt b - one) / 100) (100 - 1) = none :=
      power_none_mono 99 (by decide) (by unfold one P; omega) power_overflow_598
    have : newtonStep (ofInt b) 100 (one + (ofInt b - one) / 100) = none := by
      unfold newtonStep; rw [hpow]
    rw [this]

/-- Hence `FracPow` collapses to 1 for every bin ≥ 499 (any non-zero exponent whose `B` is
computable). -/
theorem fracPow_collapses {b e : Int} (hb : 499 ≤ b) {fuel : Nat} (hf : 2 ≤ fuel) {v : Int}
    (h : fracPow (ofInt b) e 100 fuel = .val v) : v = one := by
  unfold fracPow fracPowR at h
  by_cases he : e = 0
  · rw [if_pos he] at h; cases h; rfl
  · rw [if_neg he] at h
    cases h1 : mul e (ofInt ((100 : Nat) : Int)) with
    | none => rw [h1] at h; cases h
    | some t =>
      rw [h1] at h; simp only at h
      cases h2 : roundInt64 t with
      | none => rw [h2] at h; cases h
      | some b0 =>
        rw [h2] at h; simp only at h
        cases h3 : roundInt64 (ofInt b0) with
        | none => rw [h3] at h; cases h
        | some bb =>
          rw [h3] at h; simp only at h
          have : rootOracle 100 fuel (ofInt b) = .err := root100_overflow hb hf
          rw [this] at h
          cases h; rfl

end BigDec
