import Proofs.Num.Root100.Def
/-! Table chunk 0: bins 0..93 of `ApproxRoot(100)` terminate within 180 iterations, monotone. -/
namespace BigDec
theorem table00 : tableOK 0 93 = true := by decide +kernel
end BigDec
