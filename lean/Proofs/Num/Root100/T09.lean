import Proofs.Num.Root100.Def
/-! Table chunk 9: bins 345..369 of `ApproxRoot(100)` terminate within 180 iterations, monotone. -/
namespace BigDec
theorem table09 : tableOK 345 24 = true := by decide +kernel
end BigDec
