import Proofs.Num.FracPow
/-!
# A kernel-friendly evaluator for `ApproxRoot(100)` on non-negative decimals, proved sound

`decide +kernel` on the model itself (`Int` arithmetic, `Option` plumbing, the generic `Power` loop,
`bitLen` via `log2`) costs about 16× more kernel time than this `Nat`-only transcription of the same
computation (`Power(99)` unrolled into its multiplication chain d², d³, d⁴, d⁸, d¹⁶, d³², d³⁵, d⁶⁴,
d⁹⁹; every product rounded half-to-even; every intermediate checked against 2³¹⁵).
`Fast.loop_sound` shows that whenever the fast evaluator returns a value, the model's `newtonLoop`
returns the same value with the same fuel — so the tables are statements about the model.
-/
namespace BigDec
namespace Fast

/-- banker's rounding of a natural number by 10^18 -/
def rnd (x : Nat) : Nat :=
  let q := x / 1000000000000000000
  let r := x % 1000000000000000000
  if r < 500000000000000000 then q
  else if 500000000000000000 < r then q + 1
  else if q % 2 = 0 then q else q + 1

/-- 2^315: `BitLen > 255 + 60` panics. -/
def lim : Nat := 66749594872528440074844428317798503581334516323645399060845050244444366430645017188217565216768

set_option exponentiation.threshold 400 in
theorem lim_eq : lim = 2 ^ 315 := by rfl

/-- `g.Power(99)` through the multiplication chain of the `Power` loop; `none` on overflow. -/
def pow99 (g : Nat) : Option Nat :=
  let d2 := rnd (g * g)
  let d3 := rnd (g * d2)
  let d4 := rnd (d2 * d2)
  let d8 := rnd (d4 * d4)
  let d16 := rnd (d8 * d8)
  let d32 := rnd (d16 * d16)
  let d35 := rnd (d3 * d32)
  let d64 := rnd (d32 * d32)
  let r := rnd (d64 * d35)
  if g < lim && d2 < lim && d3 < lim && d4 < lim && d8 < lim && d16 < lim && d32 < lim &&
      d35 < lim && d64 < lim && r < lim then some r else none

/-- One Newton step: `(guess', |delta|)`. -/
def step (d g : Nat) : Option (Nat × Nat) :=
  match pow99 g with
  | none => none
  | some p0 =>
    let prev := if p0 = 0 then 1 else p0
    let q := rnd (d * 1000000000000000000000000000000000000 / prev)
    if q < lim then
      if g ≤ q then
        let dl := (q - g) / 100
        if g + dl < lim then some (g + dl, dl) else none
      else
        let dl := (g - q) / 100
        some (g - dl, dl)
    else none

def loop (d : Nat) : Nat → Nat → Nat → Option Nat
  | 0, g, dl => if dl ≤ 1 then some g else none
  | fuel + 1, g, dl =>
    if dl ≤ 1 then some g
    else
      match step d g with
      | none => none
      | some (g', dl') => loop d fuel g' dl'

/-! ## soundness -/

theorem rnd_eq (x : Nat) : chopRound (x : Int) = (rnd x : Int) := by
  unfold chopRound
  rw [if_neg (by omega)]
  unfold chopRoundNonneg rnd P half
  simp only
  have hq : ((x : Int) / 1000000000000000000) = ((x / 1000000000000000000 : Nat) : Int) := by omega
  have hr : ((x : Int) % 1000000000000000000) = ((x % 1000000000000000000 : Nat) : Int) := by omega
  rw [hq, hr]
  by_cases h0 : x % 1000000000000000000 = 0
  · rw [if_pos (by omega), if_pos (by omega)]
  · rw [if_neg (by omega)]
    by_cases h1 : x % 1000000000000000000 < 500000000000000000
    · rw [if_pos (by omega), if_pos h1]
    · rw [if_neg (by omega), if_neg h1]
      by_cases h2 : 500000000000000000 < x % 1000000000000000000
      · rw [if_pos (by omega), if_pos h2]; omega
      · rw [if_neg (by omega), if_neg h2]
        by_cases h3 : (x / 1000000000000000000) % 2 = 0
        · rw [if_pos (by omega), if_pos h3]
        · rw [if_neg (by omega), if_neg h3]; omega

set_option exponentiation.threshold 400 in
theorem check_lt {x : Nat} (h : x < lim) : check (x : Int) = some (x : Int) := by
  rcases check_spec (x : Int) with ⟨hs, _⟩ | ⟨_, hb⟩
  · exact hs
  · exfalso; rw [lim_eq] at h; omega

theorem mul_eq {a b : Nat} (h : rnd (a * b) < lim) :
    mul (a : Int) (b : Int) = some ((rnd (a * b) : Nat) : Int) := by
  unfold mul
  have : (a : Int) * (b : Int) = ((a * b : Nat) : Int) := by simp
  rw [this, rnd_eq, check_lt h]

theorem mul_one_eq {g : Nat} (h : g < lim) : mul one (g : Int) = some (g : Int) := by
  unfold mul
  have : one * (g : Int) = (g : Int) * P := by unfold one; exact Int.mul_comm _ _
  rw [this, chopRound_ofInt, check_lt h]

/-- `Power(99)` is this chain of nine roundings (the loop of `Power` unrolled for 99 = 0b1100011). -/
theorem power99_chain {g d2 d3 d4 d8 d16 d32 d35 d64 r : Int} (hg : mul one g = some g)
    (h2 : mul g g = some d2) (h3 : mul g d2 = some d3) (h4 : mul d2 d2 = some d4)
    (h8 : mul d4 d4 = some d8) (h16 : mul d8 d8 = some d16) (h32 : mul d16 d16 = some d32)
    (h35 : mul d3 d32 = some d35) (h64 : mul d32 d32 = some d64) (hr : mul d64 d35 = some r) :
    power g 99 = some r := by
  unfold power
  rw [if_neg (by decide)]
  have e1 : powerLoop 94 1 d64 d35 = some r := by
    rw [show (94 : Nat) = 93 + 1 from rfl]; unfold powerLoop
    rw [if_neg (by decide)]; exact hr
  have e3 : powerLoop 95 3 d32 d3 = some r := by
    rw [show (95 : Nat) = 94 + 1 from rfl]; unfold powerLoop
    rw [if_pos (by decide), if_neg (by decide), h35]; simp only
    rw [h64]; simp only
    exact e1
  have e6 : powerLoop 96 6 d16 d3 = some r := by
    rw [show (96 : Nat) = 95 + 1 from rfl]; unfold powerLoop
    rw [if_pos (by decide), if_pos (by decide), h32]; simp only
    exact e3
  have e12 : powerLoop 97 12 d8 d3 = some r := by
    rw [show (97 : Nat) = 96 + 1 from rfl]; unfold powerLoop
    rw [if_pos (by decide), if_pos (by decide), h16]; simp only
    exact e6
  have e24 : powerLoop 98 24 d4 d3 = some r := by
    rw [show (98 : Nat) = 97 + 1 from rfl]; unfold powerLoop
    rw [if_pos (by decide), if_pos (by decide), h8]; simp only
    exact e12
  have e49 : powerLoop 99 49 d2 g = some r := by
    rw [show (99 : Nat) = 98 + 1 from rfl]; unfold powerLoop
    rw [if_pos (by decide), if_neg (by decide), h3]; simp only
    rw [h4]; simp only
    exact e24
  rw [show (99 + 1 : Nat) = 99 + 1 from rfl]; unfold powerLoop
  rw [if_pos (by decide), if_neg (by decide), hg]; simp only
  rw [h2]; simp only
  exact e49

theorem pow99_sound {g r : Nat} (h : pow99 g = some r) : power (g : Int) 99 = some (r : Int) := by
  unfold pow99 at h
  simp only at h
  split at h
  · rename_i hc
    simp only [Bool.and_eq_true, decide_eq_true_eq] at hc
    obtain ⟨⟨⟨⟨⟨⟨⟨⟨⟨hg, h2⟩, h3⟩, h4⟩, h8⟩, h16⟩, h32⟩, h35⟩, h64⟩, hr⟩ := hc
    simp only [Option.some.injEq] at h
    subst h
    exact power99_chain (mul_one_eq hg) (mul_eq h2) (mul_eq h3) (mul_eq h4) (mul_eq h8) (mul_eq h16)
      (mul_eq h32) (mul_eq h35) (mul_eq h64) (mul_eq hr)
  · cases h

theorem sub_eq {a b : Nat} (ha : a < lim) (hb : b < lim) :
    sub (a : Int) (b : Int) = some ((a : Int) - (b : Int)) := by
  unfold sub
  rcases check_spec ((a : Int) - (b : Int)) with ⟨hs, _⟩ | ⟨_, hbad⟩
  · exact hs
  · exfalso
    have h1 : ((a : Int) - (b : Int)).natAbs < lim := by omega
    rw [lim_eq] at h1
    omega

theorem add_eq {x : Nat} {a b : Int} (h : x < lim) (e : a + b = (x : Int)) :
    add a b = some (x : Int) := by
  unfold add; rw [e, check_lt h]

theorem step_sound {d g g' dl' : Nat} (h : step d g = some (g', dl')) :
    ∃ delta : Int, newtonStep (d : Int) 100 (g : Int) = some ((g' : Int), delta) ∧ delta.natAbs = dl' := by
  unfold step at h
  cases hp : pow99 g with
  | none => rw [hp] at h; cases h
  | some p0 =>
    rw [hp] at h; simp only at h
    have hg : g < lim := by
      unfold pow99 at hp; simp only at hp
      split at hp
      · rename_i hc
        simp only [Bool.and_eq_true, decide_eq_true_eq] at hc
        exact hc.1.1.1.1.1.1.1.1.1
      · cases hp
    have hpow := pow99_sound hp
    unfold newtonStep
    rw [show (100 - 1 : Nat) = 99 from rfl, hpow]
    simp only
    -- the divisor
    have hprev : (if (p0 : Int) = 0 then smallest else (p0 : Int)) = (((if p0 = 0 then 1 else p0) : Nat) : Int) := by
      by_cases h0 : p0 = 0
      · subst h0; simp [smallest]
      · rw [if_neg (by omega), if_neg h0]
    rw [hprev]
    have hprevpos : 0 < (if p0 = 0 then 1 else p0) := by split <;> omega
    -- the quotient
    have hquo : ∀ (hq : rnd (d * 1000000000000000000000000000000000000 / (if p0 = 0 then 1 else p0)) < lim),
        quo (d : Int) (((if p0 = 0 then 1 else p0) : Nat) : Int) =
          some ((rnd (d * 1000000000000000000000000000000000000 / (if p0 = 0 then 1 else p0)) : Nat) : Int) := by
      intro hq
      unfold quo
      rw [if_neg (by omega)]
      have e : (d : Int) * P * P = ((d * 1000000000000000000000000000000000000 : Nat) : Int) := by
        unfold P; omega
      rw [e, Int.tdiv_eq_ediv_of_nonneg (by omega), ← Int.natCast_ediv, rnd_eq, check_lt hq]
    by_cases hq : rnd (d * 1000000000000000000000000000000000000 / (if p0 = 0 then 1 else p0)) < lim
    · rw [if_pos hq] at h
      rw [hquo hq]
      simp only
      rw [sub_eq hq hg]
      simp only
      have h100 : ((100 : Nat) : Int) ≠ 0 := by decide
      simp only [quoInt, if_neg h100]
      by_cases hle : g ≤ rnd (d * 1000000000000000000000000000000000000 / (if p0 = 0 then 1 else p0))
      · rw [if_pos hle] at h
        by_cases hlt : g + (rnd (d * 1000000000000000000000000000000000000 / (if p0 = 0 then 1 else p0)) - g) / 100 < lim
        · rw [if_pos hlt] at h
          simp only [Option.some.injEq, Prod.mk.injEq] at h
          obtain ⟨e1, e2⟩ := h
          generalize rnd (d * 1000000000000000000000000000000000000 / (if p0 = 0 then 1 else p0)) = q at *
          have et : ((q : Int) - (g : Int)).tdiv ((100 : Nat) : Int) = (((q - g) / 100 : Nat) : Int) := by
            rw [Int.tdiv_eq_ediv_of_nonneg (by omega)]; omega
          rw [et]
          have ec : (g : Int) + (((q - g) / 100 : Nat) : Int) = ((g + (q - g) / 100 : Nat) : Int) := by omega
          rw [add_eq hlt ec]
          simp only
          refine ⟨(((q - g) / 100 : Nat) : Int), ?_, ?_⟩
          · rw [e1]
          · rw [← e2]; omega
        · rw [if_neg hlt] at h; cases h
      · rw [if_neg hle] at h
        simp only [Option.some.injEq, Prod.mk.injEq] at h
        obtain ⟨e1, e2⟩ := h
        generalize rnd (d * 1000000000000000000000000000000000000 / (if p0 = 0 then 1 else p0)) = q at *
        have et : ((q : Int) - (g : Int)).tdiv ((100 : Nat) : Int) = - (((g - q) / 100 : Nat) : Int) := by
          have : (q : Int) - (g : Int) = - ((g : Int) - (q : Int)) := by omega
          rw [this, Int.neg_tdiv, Int.tdiv_eq_ediv_of_nonneg (by omega)]; omega
        rw [et]
        have ec : (g : Int) + - (((g - q) / 100 : Nat) : Int) = ((g - (g - q) / 100 : Nat) : Int) := by omega
        have hlt : g - (g - q) / 100 < lim := by omega
        rw [add_eq hlt ec]
        simp only
        refine ⟨- (((g - q) / 100 : Nat) : Int), ?_, ?_⟩
        · rw [e1]
        · rw [← e2]; omega
    · rw [if_neg hq] at h; cases h

theorem loop_sound {d : Nat} : ∀ (fuel g dl r : Nat) (delta : Int), delta.natAbs = dl →
    loop d fuel g dl = some r → newtonLoop (d : Int) 100 fuel (g : Int) delta = .val (r : Int) := by
  intro fuel
  induction fuel with
  | zero =>
    intro g dl r delta hd h
    rw [loop] at h
    unfold newtonLoop
    by_cases hdl : dl ≤ 1
    · rw [if_pos hdl] at h; rw [if_pos (by omega)]; cases h; rfl
    · rw [if_neg hdl] at h; cases h
  | succ fuel ih =>
    intro g dl r delta hd h
    rw [loop] at h
    unfold newtonLoop
    by_cases hdl : dl ≤ 1
    · rw [if_pos hdl] at h; rw [if_pos (by omega)]; cases h; rfl
    · rw [if_neg hdl] at h; rw [if_neg (by omega)]
      simp only at h ⊢
      cases hs : step d g with
      | none => rw [hs] at h; cases h
      | some gd =>
        obtain ⟨g', dl'⟩ := gd
        rw [hs] at h; simp only at h
        obtain ⟨delta', hst, hab⟩ := step_sound hs
        rw [hst]; simp only
        exact ih g' dl' r delta' hab h

/-- The 100th root of the integer bin `b` by the fast evaluator. -/
def root (fuel b : Nat) : Option Nat :=
  if b = 0 then some 0
  else if b = 1 then some 1000000000000000000
  else loop (b * 1000000000000000000) fuel 1000000000000000000 1000000000000000000

theorem root_sound {fuel b g : Nat} (h : root fuel b = some g) :
    approxRoot (ofInt (b : Int)) 100 fuel = .val (g : Int) := by
  unfold root at h
  unfold approxRoot ofInt
  have hP : (0 : Int) ≤ P := by decide
  rw [if_neg (by have := Int.mul_nonneg (Int.natCast_nonneg b) hP; omega)]
  unfold approxRootNonneg
  by_cases h0 : b = 0
  · rw [if_pos h0] at h; cases h; subst h0
    rw [if_pos (by simp)]; simp
  · rw [if_neg h0] at h
    by_cases h1 : b = 1
    · rw [if_pos h1] at h; cases h; subst h1
      rw [if_pos (by simp [one, P])]; simp [P]
    · rw [if_neg h1] at h
      have hne : ¬ ((100 : Nat) = 1 ∨ (b : Int) * P = 0 ∨ (b : Int) * P = one) := by
        unfold one P; omega
      rw [if_neg hne, if_neg (by decide)]
      have e : (b : Int) * P = ((b * 1000000000000000000 : Nat) : Int) := by unfold P; omega
      rw [e]
      exact loop_sound fuel _ _ g one (by decide) h

end Fast
end BigDec
