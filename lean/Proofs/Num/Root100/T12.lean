import Proofs.Num.Root100.Def
/-! Table chunk 12: bins 414..436 of `ApproxRoot(100)` terminate within 180 iterations, monotone. -/
namespace BigDec
theorem table12 : tableOK 414 22 = true := by decide +kernel
end BigDec
