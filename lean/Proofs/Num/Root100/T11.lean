import Proofs.Num.Root100.Def
/-! Table chunk 11: bins 392..414 of `ApproxRoot(100)` terminate within 180 iterations, monotone. -/
namespace BigDec
theorem table11 : tableOK 392 22 = true := by decide +kernel
end BigDec
