import Proofs.Num.Root100.Def
/-! Table chunk 6: bins 268..295 of `ApproxRoot(100)` terminate within 180 iterations, monotone. -/
namespace BigDec
theorem table06 : tableOK 268 27 = true := by decide +kernel
end BigDec
