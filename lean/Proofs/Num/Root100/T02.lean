import Proofs.Num.Root100.Def
/-! Table chunk 2: bins 139..176 of `ApproxRoot(100)` terminate within 180 iterations, monotone. -/
namespace BigDec
theorem table02 : tableOK 139 37 = true := by decide +kernel
end BigDec
