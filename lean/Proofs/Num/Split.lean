import PocketModel.Num.Split
import Proofs.Num.StakeWeight
/-!
# Lemmas for C26: exactness of the percentage products, sums of the delegator loop
-/
namespace Split
open BigDec

set_option exponentiation.threshold 400

theorem check_of_bounds {x : Int} (h0 : 0 ≤ x) (h1 : x < 2 ^ 315) : check x = some x := by
  rcases check_spec x with ⟨hs, _⟩ | ⟨_, hb⟩
  · exact hs
  · exfalso; omega

/-- `r.ToDec().Mul(k)` is exact: `(r·10^18)·k / 10^18 = r·k`, no rounding. -/
theorem mul_ofInt_exact {r k : Int} (h0 : 0 ≤ r * k) (h1 : r * k < 2 ^ 315) :
    mul (ofInt r) k = some (r * k) := by
  unfold mul ofInt
  have : r * P * k = (r * k) * P := by ac_rfl
  rw [this, chopRound_ofInt, check_of_bounds h0 h1]

theorem toBigInt_of_bounds {x : Int} (h0 : 0 ≤ x) (h1 : x < 2 ^ 255) : toBigInt x = some x := by
  unfold toBigInt Int256.inRange Int256.maxBitLen
  have : ¬ Int256.bitLen x > 255 := (Int256.bitLen_le_iff x 255).mpr (by omega)
  have : Int256.bitLen x ≤ 255 := by omega
  simp [this]

theorem truncateInt_nonneg_eq {x : Int} (h : 0 ≤ x) : truncateInt x = x / 1000000000000000000 := by
  unfold truncateInt chopTrunc P
  exact Int.tdiv_eq_ediv_of_nonneg h

theorem pct_eq {a : Int} (h : 0 ≤ a) : quoInt (ofInt a) 100 = some (a * 10000000000000000) := by
  unfold quoInt ofInt P
  rw [if_neg (by decide), Int.tdiv_eq_ediv_of_nonneg (by omega)]
  congr 1
  omega

/-- `splitRewards` in closed form. -/
theorem splitRewards_eq {dao prop reward : Int} (hd : 0 ≤ dao) (hp : 0 ≤ prop) (hs : dao + prop ≤ 100)
    (hr : 0 ≤ reward) (hr' : reward < 2 ^ 255) :
    splitRewards dao prop reward =
      some (reward - reward * (dao + prop) / 100, reward * (dao + prop) / 100) ∧
    0 ≤ reward * (dao + prop) / 100 ∧ reward * (dao + prop) / 100 ≤ reward := by
  have hA : 0 ≤ reward * dao := Int.mul_nonneg hr hd
  have hB : 0 ≤ reward * prop := Int.mul_nonneg hr hp
  have hA' : reward * dao ≤ reward * 100 := Int.mul_le_mul_of_nonneg_left (by omega) hr
  have hB' : reward * prop ≤ reward * 100 := Int.mul_le_mul_of_nonneg_left (by omega) hr
  have hT : reward * (dao + prop) = reward * dao + reward * prop := Int.mul_add _ _ _
  have hT' : reward * (dao + prop) ≤ reward * 100 := Int.mul_le_mul_of_nonneg_left hs hr
  have e1 : reward * (dao * 10000000000000000) = reward * dao * 10000000000000000 := by ac_rfl
  have e2 : reward * (prop * 10000000000000000) = reward * prop * 10000000000000000 := by ac_rfl
  have hfee0 : 0 ≤ reward * (dao + prop) / 100 := Int.ediv_nonneg (by omega) (by decide)
  have hfee1 : reward * (dao + prop) / 100 ≤ reward := by omega
  refine ⟨?_, hfee0, hfee1⟩
  unfold splitRewards
  rw [pct_eq hd, pct_eq hp]
  simp only
  rw [mul_ofInt_exact (by rw [e1]; omega) (by rw [e1]; omega),
    mul_ofInt_exact (by rw [e2]; omega) (by rw [e2]; omega)]
  simp only
  unfold add
  rw [check_of_bounds (by rw [e1, e2]; omega) (by rw [e1, e2]; omega)]
  simp only
  have etr : truncateInt (reward * (dao * 10000000000000000) + reward * (prop * 10000000000000000)) =
      reward * (dao + prop) / 100 := by
    rw [truncateInt_nonneg_eq (by rw [e1, e2]; omega), e1, e2, hT]; omega
  rw [etr, toBigInt_of_bounds hfee0 (by omega)]
  simp only
  rw [Int256_sub_some (by omega) (by omega)]

/-- `splitFeesCollected` succeeds whenever some allocation is positive, and the DAO cut is between
0 and the fees. -/
theorem splitFeesCollected_spec {dao prop fees : Int} (hd : 0 ≤ dao) (hp : 0 ≤ prop)
    (hpos : 0 < dao + prop) (hs : dao + prop ≤ 100) (hf : 0 ≤ fees) (hf' : fees < 2 ^ 255) :
    ∃ d, splitFeesCollected dao prop fees = some (d, fees - d) ∧ 0 ≤ d ∧ d ≤ fees := by
  unfold splitFeesCollected
  have hadd : add (ofInt dao) (ofInt prop) = some ((dao + prop) * 1000000000000000000) := by
    unfold add ofInt P
    rw [check_of_bounds (by omega) (by omega)]
    congr 1; omega
  rw [hadd]; simp only
  -- the quotient dao / (dao + prop), rounded to 18 digits, lies in [0, 1]
  have hq : ∃ q, quo (ofInt dao) ((dao + prop) * 1000000000000000000) = some q ∧ 0 ≤ q ∧
      q ≤ 1000000000000000000 := by
    unfold quo
    rw [if_neg (by omega)]
    have hN : 0 ≤ ofInt dao * P * P := by unfold ofInt P; omega
    rw [Int.tdiv_eq_ediv_of_nonneg hN]
    have hX0 : 0 ≤ ofInt dao * P * P / ((dao + prop) * 1000000000000000000) :=
      Int.ediv_nonneg hN (by omega)
    have hX1 : ofInt dao * P * P / ((dao + prop) * 1000000000000000000) ≤ 1000000000000000000 * P :=
      Int.ediv_le_of_le_mul (by omega) (by unfold ofInt P; omega)
    have c0 := chopRound_nonneg hX0
    have c1 := chopRound_mono hX1
    rw [chopRound_ofInt] at c1
    exact ⟨_, by rw [check_of_bounds c0 (by omega)], c0, c1⟩
  obtain ⟨q, hq1, hq0, hqP⟩ := hq
  rw [hq1]; simp only
  have hfq0 : 0 ≤ fees * q := Int.mul_nonneg hf hq0
  have hfq1 : fees * q ≤ fees * 1000000000000000000 := Int.mul_le_mul_of_nonneg_left hqP hf
  rw [mul_ofInt_exact hfq0 (by omega)]
  simp only
  have hd0 : 0 ≤ fees * q / 1000000000000000000 := Int.ediv_nonneg hfq0 (by decide)
  have hd1 : fees * q / 1000000000000000000 ≤ fees := Int.ediv_le_of_le_mul (by decide) hfq1
  rw [truncateInt_nonneg_eq hfq0, toBigInt_of_bounds hd0 (by omega)]
  simp only
  rw [Int256_sub_some (by omega) (by omega)]
  exact ⟨_, rfl, hd0, hd1⟩

theorem splitFeesCollected_zero (fees : Int) : splitFeesCollected 0 0 fees = none := by
  unfold splitFeesCollected
  have : add (ofInt 0) (ofInt 0) = some 0 := by decide
  rw [this]; simp [quo]

/-! ## delegators -/

/-- `⌊rewards · share / 100⌋`. -/
def share100 (rewards : Int) (share : Nat) : Int := rewards * (share : Int) / 100

theorem allocation_eq {rewards : Int} {share : Nat} (hr : 0 ≤ rewards) (hr' : rewards < 2 ^ 255)
    (hs : share ≤ 100) : allocation rewards share = some (share100 rewards share) ∧
    0 ≤ share100 rewards share ∧ share100 rewards share ≤ rewards := by
  have hT0 : 0 ≤ rewards * (share : Int) := Int.mul_nonneg hr (by omega)
  have hT1 : rewards * (share : Int) ≤ rewards * 100 := Int.mul_le_mul_of_nonneg_left (by omega) hr
  have e : rewards * ((share : Int) * 10000000000000000) = rewards * (share : Int) * 10000000000000000 := by
    ac_rfl
  have h0 : 0 ≤ share100 rewards share := Int.ediv_nonneg hT0 (by decide)
  have h1 : share100 rewards share ≤ rewards := by unfold share100; omega
  refine ⟨?_, h0, h1⟩
  unfold allocation
  rw [mul_ofInt_exact (by rw [e]; omega) (by rw [e]; omega)]
  simp only
  have : truncateInt (rewards * ((share : Int) * 10000000000000000)) = share100 rewards share := by
    rw [truncateInt_nonneg_eq (by rw [e]; omega), e]; unfold share100; omega
  rw [this, toBigInt_of_bounds h0 (by omega)]

def sumShares : List (Nat × Nat × Bool) → Nat
  | [] => 0
  | (_, s, _) :: rest => s + sumShares rest

def allocSum (rewards : Int) : List (Nat × Nat × Bool) → Int
  | [] => 0
  | (_, s, _) :: rest => share100 rewards s + allocSum rewards rest

/-- The delegator payments in callback order (zero allocations are not paid). -/
def paysOf (rewards : Int) : List (Nat × Nat × Bool) → List (Rcpt × Int)
  | [] => []
  | (id, s, _) :: rest =>
    if share100 rewards s > 0 then (Rcpt.delegator id, share100 rewards s) :: paysOf rewards rest
    else paysOf rewards rest

/-- Order-free reading of `NormalizeRewardDelegators`. -/
theorem normalize_iff : ∀ (ds : List (Nat × Nat × Bool)) (t : Nat),
    normalize ds t = true ↔ ((∀ d ∈ ds, 0 < d.2.1 ∧ d.2.2 = false) ∧ t + sumShares ds ≤ 100 ∨
      (ds = [] ∧ True)) := by
  intro ds
  induction ds with
  | nil => intro t; simp [normalize]
  | cons d rest ih =>
    intro t
    obtain ⟨id, s, bad⟩ := d
    unfold normalize
    by_cases h0 : s = 0
    · rw [if_pos h0]; subst h0; simp
    · rw [if_neg h0]
      by_cases hb : bad = true
      · rw [if_pos hb]; subst hb; simp
      · rw [if_neg hb]
        by_cases ht : t + s > 100
        · rw [if_pos ht]; simp [sumShares]; intro _ _ _; omega
        · rw [if_neg ht, ih (t + s)]
          have hb' : bad = false := by simpa using hb
          subst hb'
          cases rest with
          | nil => simp [sumShares]; omega
          | cons r rs =>
            simp only [List.mem_cons, forall_eq_or_imp, reduceCtorEq, false_and, or_false, sumShares]
            constructor
            · rintro ⟨⟨h1, h2⟩, h3⟩
              exact ⟨⟨⟨by omega, trivial⟩, h1, h2⟩, by omega⟩
            · rintro ⟨⟨_, h1, h2⟩, h3⟩
              exact ⟨⟨h1, h2⟩, by omega⟩

theorem normalize_valid {ds : List (Nat × Nat × Bool)} (h : normalize ds 0 = true) :
    (∀ d ∈ ds, 0 < d.2.1 ∧ d.2.2 = false) ∧ sumShares ds ≤ 100 := by
  rcases (normalize_iff ds 0).mp h with ⟨h1, h2⟩ | ⟨h1, _⟩
  · exact ⟨h1, by omega⟩
  · subst h1; simp [sumShares]

theorem share_le_sum {ds : List (Nat × Nat × Bool)} : ∀ d ∈ ds, d.2.1 ≤ sumShares ds := by
  induction ds with
  | nil => intro d hd; cases hd
  | cons x rest ih =>
    intro d hd
    obtain ⟨id, s, bad⟩ := x
    simp only [List.mem_cons] at hd
    unfold sumShares
    rcases hd with rfl | hd
    · simp
    · have := ih d hd; omega

/-- Sum of floors ≤ floor of the sum. -/
theorem allocSum_le {rewards : Int} : ∀ ds : List (Nat × Nat × Bool),
    allocSum rewards ds ≤ rewards * (sumShares ds : Int) / 100 := by
  intro ds
  induction ds with
  | nil => simp [allocSum, sumShares]
  | cons x rest ih =>
    obtain ⟨id, s, bad⟩ := x
    unfold allocSum sumShares share100
    have : rewards * ((s + sumShares rest : Nat) : Int) = rewards * (s : Int) + rewards * (sumShares rest : Int) := by
      rw [Int.natCast_add, Int.mul_add]
    rw [this]
    omega

theorem allocSum_nonneg {rewards : Int} (hr : 0 ≤ rewards) : ∀ ds : List (Nat × Nat × Bool),
    0 ≤ allocSum rewards ds := by
  intro ds
  induction ds with
  | nil => simp [allocSum]
  | cons x rest ih =>
    obtain ⟨id, s, bad⟩ := x
    unfold allocSum share100
    have : 0 ≤ rewards * (s : Int) / 100 := Int.ediv_nonneg (Int.mul_nonneg hr (by omega)) (by decide)
    omega

theorem sum_paysOf (rewards : Int) (hr : 0 ≤ rewards) : ∀ ds : List (Nat × Nat × Bool),
    sumInt ((paysOf rewards ds).map (·.2)) = allocSum rewards ds := by
  intro ds
  induction ds with
  | nil => simp [paysOf, allocSum, sumInt]
  | cons x rest ih =>
    obtain ⟨id, s, bad⟩ := x
    unfold paysOf allocSum
    by_cases h : share100 rewards s > 0
    · rw [if_pos h]; simp only [List.map_cons, sumInt]; rw [ih]
    · rw [if_neg h, ih]
      have : 0 ≤ share100 rewards s := Int.ediv_nonneg (Int.mul_nonneg hr (by omega)) (by decide)
      omega

/-- The loop of `SplitNodeRewards` in closed form. -/
theorem splitLoop_eq {rewards : Int} (hr : 0 ≤ rewards) (hr' : rewards < 2 ^ 255) :
    ∀ (ds : List (Nat × Nat × Bool)) (rem : Int), (∀ d ∈ ds, d.2.1 ≤ 100) →
      allocSum rewards ds ≤ rem → rem < 2 ^ 255 →
      splitLoop rewards ds rem = some (paysOf rewards ds, rem - allocSum rewards ds) := by
  intro ds
  induction ds with
  | nil => intro rem _ _ _; simp [splitLoop, paysOf, allocSum]
  | cons x rest ih =>
    intro rem hsh hle hlt
    obtain ⟨id, s, bad⟩ := x
    have hs : s ≤ 100 := hsh (id, s, bad) List.mem_cons_self
    obtain ⟨ha, ha0, ha1⟩ := allocation_eq hr hr' hs
    have hrest0 := allocSum_nonneg hr rest
    unfold allocSum at hle
    unfold splitLoop
    rw [ha]; simp only
    rw [Int256_sub_some (by omega) (by omega)]
    simp only
    rw [ih (rem - share100 rewards s) (fun d hd => hsh d (List.mem_cons_of_mem _ hd)) (by omega) (by omega)]
    simp only
    have e : rem - share100 rewards s - allocSum rewards rest =
        rem - (share100 rewards s + allocSum rewards rest) := by omega
    rw [e]
    rfl

theorem sumInt_append (a b : List Int) : sumInt (a ++ b) = sumInt a + sumInt b := by
  induction a with
  | nil => simp [sumInt]
  | cons x xs ih => simp only [List.cons_append, sumInt, ih]; omega

/-- `SplitNodeRewards` on a valid map: delegators get their floors, the primary recipient the
non-negative remainder, everything adds up to `rewards`. -/
theorem splitNodeRewards_valid {rewards : Int} {ds : List (Nat × Nat × Bool)} (hr : 0 < rewards)
    (hr' : rewards < 2 ^ 255) (hv : normalize ds 0 = true) :
    ∃ pays, splitNodeRewards rewards ds = some (.paid pays) ∧
      pays = paysOf rewards ds ++
        (if rewards - allocSum rewards ds > 0 then [(Rcpt.primary, rewards - allocSum rewards ds)] else []) ∧
      0 ≤ rewards - allocSum rewards ds ∧ sumInt (pays.map (·.2)) = rewards := by
  obtain ⟨hall, hsum⟩ := normalize_valid hv
  have hle : allocSum rewards ds ≤ rewards := by
    have h1 := allocSum_le (rewards := rewards) ds
    have h2 : rewards * (sumShares ds : Int) ≤ rewards * 100 :=
      Int.mul_le_mul_of_nonneg_left (by omega) (by omega)
    omega
  unfold splitNodeRewards
  rw [if_neg (by omega), hv]
  simp only [Bool.not_true, Bool.false_eq_true, if_false]
  rw [splitLoop_eq (by omega) hr' ds rewards
    (fun d hd => Nat.le_trans (share_le_sum d hd) hsum) hle hr']
  simp only
  by_cases hpos : rewards - allocSum rewards ds > 0
  · rw [if_pos hpos, if_pos hpos]
    refine ⟨_, rfl, rfl, by omega, ?_⟩
    rw [List.map_append, sumInt_append, sum_paysOf rewards (by omega)]
    simp only [List.map_cons, List.map_nil, sumInt]
    omega
  · rw [if_neg hpos, if_neg hpos, List.append_nil]
    refine ⟨_, rfl, rfl, by omega, ?_⟩
    rw [sum_paysOf rewards (by omega)]
    omega

theorem splitNodeRewards_invalid {rewards : Int} {ds : List (Nat × Nat × Bool)}
    (hv : normalize ds 0 = false) : splitNodeRewards rewards ds = some .error := by
  unfold splitNodeRewards
  by_cases h : rewards ≤ 0
  · rw [if_pos h]
  · rw [if_neg h, hv]; rfl

theorem splitNodeRewards_nonpos {rewards : Int} {ds : List (Nat × Nat × Bool)} (h : rewards ≤ 0) :
    splitNodeRewards rewards ds = some .error := by
  unfold splitNodeRewards; rw [if_pos h]

theorem sumShares_perm {ds ds' : List (Nat × Nat × Bool)} (h : ds.Perm ds') :
    sumShares ds = sumShares ds' := by
  induction h with
  | nil => rfl
  | cons x _ ih => obtain ⟨_, s, _⟩ := x; simp only [sumShares, ih]
  | swap x y l => obtain ⟨_, s, _⟩ := x; obtain ⟨_, t, _⟩ := y; simp only [sumShares]; omega
  | trans _ _ ih1 ih2 => omega

theorem allocSum_perm {rewards : Int} {ds ds' : List (Nat × Nat × Bool)} (h : ds.Perm ds') :
    allocSum rewards ds = allocSum rewards ds' := by
  induction h with
  | nil => rfl
  | cons x _ ih => obtain ⟨_, s, _⟩ := x; simp only [allocSum, ih]
  | swap x y l => obtain ⟨_, s, _⟩ := x; obtain ⟨_, t, _⟩ := y; simp only [allocSum]; omega
  | trans _ _ ih1 ih2 => omega

/-- The reward-cost carve-out never creates or loses coins: what goes to the operator plus what
is left for the node is the node share. -/
theorem carveOut_spec {t0 : Int} (rc : Option Int) (h0 : 0 ≤ t0) (h1 : t0 < 2 ^ 255) :
    ∃ m1 t, carveOut t0 rc = some (m1, t) ∧ total m1 + t = t0 ∧ 0 ≤ t ∧ t < 2 ^ 255 := by
  unfold carveOut
  cases rc with
  | none => exact ⟨[], _, rfl, by simp [total, sumInt], h0, h1⟩
  | some rc =>
    simp only
    by_cases hlt : t0 < rc
    · simp only [if_pos hlt]
      by_cases hpos : t0 > 0
      · rw [if_pos hpos, Int256_sub_some (by omega) (by omega)]
        exact ⟨_, _, rfl, by simp [total, sumInt, Mint.amount], by omega, by omega⟩
      · rw [if_neg hpos]
        exact ⟨[], _, rfl, by simp [total, sumInt], by omega, by omega⟩
    · simp only [if_neg hlt]
      by_cases hpos : rc > 0
      · rw [if_pos hpos, Int256_sub_some (by omega) (by omega)]
        exact ⟨_, _, rfl, by simp [total, sumInt, Mint.amount]; omega, by omega, by omega⟩
      · rw [if_neg hpos]
        exact ⟨[], _, rfl, by simp [total, sumInt], by omega, by omega⟩

end Split
