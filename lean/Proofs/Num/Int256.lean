import PocketModel.Num.Int256
namespace Int256

theorem bitLen_gt_iff (x : Int) (n : Nat) : bitLen x > n ↔ 2 ^ n ≤ x.natAbs := by
  unfold bitLen
  split
  · rename_i h; simp [h]
  · rename_i h
    constructor
    · intro hl
      have : n ≤ x.natAbs.log2 := by omega
      calc 2 ^ n ≤ 2 ^ x.natAbs.log2 := Nat.pow_le_pow_right (by decide) this
        _ ≤ x.natAbs := Nat.log2_self_le h
    · intro hp
      have := (Nat.le_log2 h).mpr hp
      omega

theorem bitLen_le_iff (x : Int) (n : Nat) : ¬ bitLen x > n ↔ x.natAbs < 2 ^ n := by
  rw [bitLen_gt_iff]; omega

/-- `Add` returns the exact sum, or panics and then the exact sum is out of the 255-bit range. -/
theorem add_exact_or_overflow (a b : Int) :
    add a b = some (a + b) ∧ (a + b).natAbs < 2 ^ 255 ∨ add a b = none ∧ 2 ^ 255 ≤ (a + b).natAbs := by
  unfold add maxBitLen
  by_cases h : bitLen (a + b) > 255
  · right; simp [h]; exact (bitLen_gt_iff _ _).mp h
  · left; simp [h]; exact (bitLen_le_iff _ _).mp h

theorem sub_exact_or_overflow (a b : Int) :
    sub a b = some (a - b) ∧ (a - b).natAbs < 2 ^ 255 ∨ sub a b = none ∧ 2 ^ 255 ≤ (a - b).natAbs := by
  unfold sub maxBitLen
  by_cases h : bitLen (a - b) > 255
  · right; simp [h]; exact (bitLen_gt_iff _ _).mp h
  · left; simp [h]; exact (bitLen_le_iff _ _).mp h

theorem pow_pred_bitLen_le (x : Int) (h : x ≠ 0) : 2 ^ (bitLen x - 1) ≤ x.natAbs := by
  unfold bitLen
  have : x.natAbs ≠ 0 := by omega
  simp [this]
  exact Nat.log2_self_le this

theorem bitLen_pos (x : Int) (h : x ≠ 0) : 0 < bitLen x := by
  unfold bitLen
  have : x.natAbs ≠ 0 := by omega
  simp [this]

theorem mul_exact_or_overflow (a b : Int) (ha : a.natAbs < 2 ^ 255) (hb : b.natAbs < 2 ^ 255) :
    mul a b = some (a * b) ∧ (a * b).natAbs < 2 ^ 255 ∨ mul a b = none ∧ 2 ^ 255 ≤ (a * b).natAbs := by
  unfold mul maxBitLen
  by_cases h1 : bitLen a + bitLen b - 1 > 255
  · right; simp [h1]
    have hbl : ∀ x : Int, x.natAbs < 2 ^ 255 → bitLen x ≤ 255 := by
      intro x hx
      have := (bitLen_le_iff x 255).mpr hx
      omega
    have h255a := hbl a ha
    have h255b := hbl b hb
    have hz : bitLen 0 = 0 := by simp [bitLen]
    have ha0 : a ≠ 0 := by
      intro h; subst h; rw [hz] at h1; omega
    have hb0 : b ≠ 0 := by
      intro h; subst h; rw [hz] at h1; omega
    have pa := pow_pred_bitLen_le a ha0
    have pb := pow_pred_bitLen_le b hb0
    have qa := bitLen_pos a ha0
    have qb := bitLen_pos b hb0
    rw [Int.natAbs_mul]
    calc 2 ^ 255 ≤ 2 ^ ((bitLen a - 1) + (bitLen b - 1)) := Nat.pow_le_pow_right (by decide) (by omega)
      _ = 2 ^ (bitLen a - 1) * 2 ^ (bitLen b - 1) := Nat.pow_add ..
      _ ≤ a.natAbs * b.natAbs := Nat.mul_le_mul pa pb
  · by_cases h : bitLen (a * b) > 255
    · right; simp [h1, h]; exact (bitLen_gt_iff _ _).mp h
    · left; simp [h1, h]; exact (bitLen_le_iff _ _).mp h
end Int256
