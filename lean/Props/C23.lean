import Proofs.Ledger.NodesExamples
import Proofs.Ledger.NodesEdit
import Proofs.Ledger.AppsEdit
/-!
# C23 — Edit-stake respects the documented immutability rules

## Node part (this file; model `PocketModel/Ledger/Nodes.lean`)
`handleStake` = `handleStake` of x/nodes/handler.go: `ValidateValidatorStaking` (signer rules as in
doc/specs/msgstake_flow.md, `ValidateEditStake`) followed by `EditStakeValidator`, modern rule set
(NCUST, OEDIT, RewardDelegators, RSCAL∧VEDIT active).  All theorems are about an accepted `MsgStake`
(`Res.ok`) for an address that already has a **staked** record `cur`; `signer` is the address of the key
that signed the transaction.

## Application part (`C23apps`, built by the applications package)
Re-exported at the end: `lean/Proofs/Ledger/AppsEdit.lean`, model `PocketModel/Ledger/Apps.lean`.
-/
namespace C23

section Node
open Nodes
variable (s : State) (h : Int) (m : StakeMsg) (signer : Addr) (cur : Val)
  (hc : aget s.vals m.addr = some cur) (hk : cur.addr = m.addr) (hs : cur.status = .staked)
  (hok : (handleStake s h m signer).2 = .ok)
include hc hk hs hok

/-- node: the record after an accepted edit -/
theorem node_edit_result :
    aget (handleStake s h m signer).1.vals m.addr =
      some { cur with tokens := m.amount, output := m.output, delegators := m.delegators, chains := m.chains, url := m.url } :=
  (handleStake_edit hc hk hs hok).2.2.2

/-- node: editing never lowers the stake -/
theorem node_edit_never_lowers_stake :
    ∃ new, aget (handleStake s h m signer).1.vals m.addr = some new ∧ cur.tokens ≤ new.tokens := by
  obtain ⟨hve, _, _, hr⟩ := handleStake_edit hc hk hs hok
  exact ⟨_, hr, (validateEditStake_ok hve).1⟩

/-- node: address, public key, jailed flag, status (and the unstaking time) are unchanged -/
theorem node_edit_preserves_identity :
    ∃ new, aget (handleStake s h m signer).1.vals m.addr = some new ∧ new.addr = cur.addr ∧ new.pk = cur.pk ∧
      new.jailed = cur.jailed ∧ new.status = cur.status ∧ new.unstTime = cur.unstTime :=
  ⟨_, (handleStake_edit hc hk hs hok).2.2.2, rfl, rfl, rfl, rfl, rfl⟩

/-- node: the transaction was signed by the operator or by the current output address -/
theorem node_edit_signer_authorised : signer = cur.addr ∨ (cur.output ≠ [] ∧ signer = cur.output) := by
  have h3 := (handleStake_edit hc hk hs hok).2.1
  unfold signerOk at h3
  split at h3
  · left; simpa using h3
  · rename_i ho
    simp only [Bool.or_eq_true, decide_eq_true_eq] at h3
    rcases h3 with e | e
    · exact Or.inl e
    · exact Or.inr ⟨ho, e⟩

/-- node: the output address changes only when the current output address signs (or when none was set
yet: first-time set of a custodial record) -/
theorem node_output_changes_only_if_output_signs :
    ∃ new, aget (handleStake s h m signer).1.vals m.addr = some new ∧
      (new.output ≠ cur.output → cur.output = [] ∨ signer = cur.output) := by
  obtain ⟨hve, _, _, hr⟩ := handleStake_edit hc hk hs hok
  refine ⟨_, hr, ?_⟩
  intro hne
  rcases (validateEditStake_ok hve).2.2.2.1 with e | e | e
  · exact Or.inl e
  · exact Or.inr e
  · exact absurd e hne

/-- node: the new output address is never nil -/
theorem node_output_never_nil :
    ∃ new, aget (handleStake s h m signer).1.vals m.addr = some new ∧ new.output ≠ [] :=
  ⟨_, (handleStake_edit hc hk hs hok).2.2.2, (handleStake_edit hc hk hs hok).2.2.1⟩

/-- node: the reward delegators change only when the operator signs -/
theorem node_delegators_change_only_if_operator_signs :
    ∃ new, aget (handleStake s h m signer).1.vals m.addr = some new ∧
      (new.delegators ≠ cur.delegators → signer = cur.addr) := by
  obtain ⟨hve, _, _, hr⟩ := handleStake_edit hc hk hs hok
  refine ⟨_, hr, ?_⟩
  intro hne
  rcases (validateEditStake_ok hve).2.2.2.2.1 with e | e
  · exact absurd e hne
  · exact e

/-- node: below the stake-weight ceiling an edit must reach a higher stake bin -/
theorem node_same_bin_edit_rejected :
    ¬ (m.amount < s.params.ceiling ∧ m.amount - m.amount % s.params.floorMult ≤ cur.tokens) :=
  (validateEditStake_ok (handleStake_edit hc hk hs hok).1).2.1

omit hok

/-- node: a node waiting to unstake cannot be edited -/
theorem node_waiting_node_not_editable (hw : m.addr ∈ s.waiting) : (handleStake s h m signer).2 ≠ .ok :=
  handleStake_waiting hc hk hs hw

omit hc hk hs

/-- node: a rejected `MsgStake` changes nothing at all -/
theorem node_rejected_edit_changes_nothing (herr : (handleStake s h m signer).2 ≠ .ok) :
    (handleStake s h m signer).1 = s := handleStake_err_vals herr

/-- the operator of `A` raises the stake and changes chains: accepted -/
example : (handleStake Ex.s0 5 { Ex.mA with amount := 40000000, chains := [[0, 2]] } Ex.A).2 = .ok := by decide
/-- lowering is rejected with code 122, an output change signed by the operator with 127, a delegator
change signed by the output address with 129 -/
example : (handleStake Ex.s0 5 { Ex.mA with amount := 19999999 } Ex.A).2 = .err 122 ∧
    (handleStake Ex.s0 5 { Ex.mA with output := Ex.B } Ex.A).2 = .err 127 ∧
    (handleStake Ex.s0 5 { Ex.mA with delegators := [([7], 10)] } Ex.O).2 = .err 129 ∧
    (handleStake Ex.s0 5 { Ex.mA with output := Ex.B } Ex.O).2 = .ok := by decide
example : (handleStake (step Ex.s0 (.beginUnstake Ex.A Ex.A)) 5 { Ex.mA with amount := 40000000 } Ex.A).2 = .err 117 := by
  decide

end Node

/-! ## Application part — re-exported from `C23apps` (lean/Proofs/Ledger/AppsEdit.lean) -/

open Apps in
/-- application: a successful stake message for a key with a staked record never lowers the stake -/
theorem edit_never_lowers_stake_app (s : St) (signer : Apps.Addr) (m : MsgStake) (fee : Int) (r : App)
    (hok : (deliverStake s signer m fee).1 = .ok) (hr : get s.apps m.addr = some r) (hst : r.status = stStaked) :
    ∃ r', get (deliverStake s signer m fee).2.apps m.addr = some r' ∧ r.tokens ≤ r'.tokens ∧ r'.tokens = m.value :=
  C23apps.edit_never_lowers_stake_app s signer m fee r hok hr hst

open Apps in
/-- application: … and never changes public key, jailed flag, status or unstaking time -/
theorem edit_preserves_identity_app (s : St) (signer : Apps.Addr) (m : MsgStake) (fee : Int) (r : App)
    (hok : (deliverStake s signer m fee).1 = .ok) (hr : get s.apps m.addr = some r) (hst : r.status = stStaked) :
    ∃ r', get (deliverStake s signer m fee).2.apps m.addr = some r'
      ∧ r'.pk = r.pk ∧ r'.jailed = r.jailed ∧ r'.status = r.status ∧ r'.unstakingTime = r.unstakingTime
      ∧ r'.chains = m.chains :=
  C23apps.edit_preserves_identity_app s signer m fee r hok hr hst

open Apps in
/-- application: lowering the stake is rejected whoever signs -/
theorem edit_lower_rejected_app (s : St) (signer : Apps.Addr) (m : MsgStake) (fee : Int) (r : App)
    (hr : get s.apps m.addr = some r) (hst : r.status = stStaked) (hlow : m.value < r.tokens) :
    (deliverStake s signer m fee).1 ≠ .ok :=
  C23apps.edit_lower_rejected s signer m fee r hr hst hlow

end C23
