import Proofs.Relay.Auth
/-!
# C35 — Relays are served only with valid client and application authorization

Model: `PocketModel/Relay/Auth.lean` — `Relay.Validate`, `RelayProof.ValidateLocal/ValidateBasic`,
`AAT.Validate`, `Session.Validate`, `HandleRelay`'s tolerance check as ONE decision function over
an abstract signature scheme (`Env.verify`) and a ledger snapshot (`Env`), order of checks kept.

What the code requires of the **application**: a record in the apps store at the session height
under the address of the token's application key (`Authorized.appFound`).  Its stake status and
jailed flag are never read — the model's `App` has no such field — so "staked" in the property's
wording is, in the code, "present at the session height" (replayed: `served-for-non-staked-application`).
-/
namespace C35
open RelayAuth

/-- Everything a relay that `Relay.Validate` accepts satisfies. -/
structure Authorized (E : Env) (r : Relay) (sbhArg max : Int) (app : App) (nodes : List (Option Bytes)) : Prop where
  appFound : E.appAt sbhArg r.proof.token.appPub = some app
  appKey : app.pubRaw = r.proof.token.appPub
  /-- version supported, keys well-formed, application signature verifies under the token's app key -/
  token : TokenOk E r.proof.token
  /-- client signature verifies under the client key named in the token, over the proof hash -/
  clientSigned : ∃ sb, hexDecode r.proof.sig = some sb ∧ sb.length = 64 ∧
    E.verify r.proof.token.clientPub (E.proofHash r.proof) sb = true
  requestHash : r.proof.requestHash = E.requestHashOf r
  session : E.session = .ok nodes
  servicerInSession : some E.nodeAddr ∈ nodes
  servicerIsThisNode : E.addrOf r.proof.servicer = some E.nodeAddr
  chainOfApp : r.proof.chain ∈ app.chains
  chainHosted : r.proof.chain ∈ E.hosted
  sessionHeight : r.proof.sbh = sbhArg ∧ 1 ≤ r.proof.sbh ∧ E.prevCtxOk sbhArg = true
  blockHeight : E.height - E.blockAllowance ≤ r.metaHeight ∧ r.metaHeight ≤ E.height + E.blockAllowance
  payload : ¬ (r.data = "" ∧ r.path = "")
  notSealed : E.evidence.sealed_ = false
  unique : E.evidence.has = false
  underLimit : E.evidence.n < max
  allowance : maxPossibleRelays app (E.nodeCount sbhArg) = some max
  allowancePos : 0 < max

/-- **served_requires**: if `Relay.Validate` returns without error, every authorization condition
of the property holds. -/
theorem served_requires (E : Env) (r : Relay) (sbhArg max : Int)
    (h : validate E r sbhArg = .ok max) : ∃ app nodes, Authorized E r sbhArg max app nodes := by
  unfold validate at h
  split at h
  · cases h
  · rename_i hpre
    split at h
    · cases h
    · rename_i app happ
      unfold validateApp at h
      split at h
      · cases h
      · split at h
        · cases h
        · rename_i max' hmax
          split at h
          · cases h
          · rename_i hpos
            split at h
            · cases h
            · rename_i hev
              split at h
              · cases h
              · rename_i hloc
                split at h
                · cases h
                · rename_i hss
                  cases h
                  obtain ⟨h1, h2, h3, h4, h5, h6⟩ := preChecks_none hpre
                  obtain ⟨e1, e2, e3⟩ := evidenceChecks_none hev
                  obtain ⟨hb, haddr, _, _⟩ := validateLocal_none hloc
                  obtain ⟨nodes, hs, hk, hc, _, hin⟩ := sessionStage_none hss
                  exact ⟨app, nodes, ⟨happ, hk, hb.token, hb.clientSigned, h3, hs, hin, haddr, hc, h4,
                    ⟨h5, hb.height, h6⟩, h2, h1, e1, e2, e3, hmax, by omega⟩⟩


/-- A concrete world and relay that pass (non-vacuity of `served_requires`). -/
def hexOf (b : String) (n : Nat) : String := String.join (List.replicate n b)

def E0 : Env :=
  { height := 10, blockAllowance := 2, sessionAllowance := 0, bps := 4, hosted := ["0001"],
    prevCtxOk := fun _ => true,
    appAt := fun _ _ => some { pubRaw := hexOf "ab" 32, chains := ["0001"], maxRelays := 300 },
    enforceMaxChains := false, maxChains := 15, nodeCount := fun _ => 1,
    evidence := ⟨false, 0, false, false⟩, nodeAddr := [7],
    addrOf := fun _ => some [7], requestHashOf := fun _ => hexOf "cd" 32,
    tokenHash := fun _ => [], proofHash := fun _ => [], verify := fun _ _ _ => true,
    sessionCache := none, sessionGen := .ok [some [7]], sessionEndCtxOk := true }

def r0 : Relay :=
  { data := "x", path := "", metaHeight := 10,
    proof := { entropy := 1, sbh := 9, servicer := hexOf "ef" 32, chain := "0001",
               token := { version := "0.0.1", appPub := hexOf "ab" 32, clientPub := hexOf "12" 32, appSig := hexOf "00" 64 },
               sig := hexOf "11" 64, requestHash := hexOf "cd" 32 } }

set_option maxRecDepth 20000 in
example : validate E0 r0 9 = .ok 300 := by decide +kernel


/-- `HandleRelay` serves only if, in addition, the session height is the first block of a session
and lies inside the tolerance window `[latest − allowance·blocksPerSession, latest]` of the node's
current height. -/
theorem served_requires_handle (E : Env) (r : Relay) (max : Int) (h : handleRelay E r = .ok max) :
    (0 < r.proof.sbh ∧ (r.proof.sbh - 1) % E.bps = 0 ∧
      latestSessionHeight E.height E.bps - E.sessionAllowance * E.bps ≤ r.proof.sbh ∧
      r.proof.sbh ≤ latestSessionHeight E.height E.bps) ∧
    ∃ app nodes, Authorized E r r.proof.sbh max app nodes := by
  unfold handleRelay at h
  by_cases ht : withinTolerance E r.proof.sbh = true
  · simp only [ht, Bool.not_true] at h
    refine ⟨?_, served_requires E r _ max h⟩
    unfold withinTolerance at ht
    split at ht
    · cases ht
    · split at ht
      · cases ht
      · rename_i hg
        simp only [decide_eq_true_eq] at ht
        refine ⟨by omega, by simpa using hg, ht.1, ht.2⟩
  · simp only [ht] at h
    cases h

/-- The servicer-in-session requirement does not depend on how the session was obtained: whether
the session cache already holds the session (after an earlier relay, a dispatch or a challenge)
or it is generated now, a served relay's servicer is one of *that* session's nodes; in particular
a cached session that does not contain this node never lets a relay through. -/
theorem cached_session_still_checked (E : Env) (r : Relay) (sbhArg : Int) (nodes : List (Option Bytes))
    (hc : E.sessionCache = some nodes) (hnot : some E.nodeAddr ∉ nodes) :
    ∀ max, validate E r sbhArg ≠ .ok max := by
  intro max hv
  obtain ⟨app, ns, a⟩ := served_requires E r sbhArg max hv
  have hs := a.session
  simp only [Env.session, hc] at hs
  cases hs
  exact hnot a.servicerInSession

/-- **alter_field_rejected**: a relay in which any single authorization ingredient is wrong is not
served, whatever the other fields are. -/
theorem alter_field_rejected (E : Env) (r : Relay) (sbhArg : Int)
    (h :
      -- token signature does not verify under the application key named in the token
      (∀ sb, hexDecode r.proof.token.appSig = some sb →
        E.verify r.proof.token.appPub (E.tokenHash r.proof.token) sb = false) ∨
      -- client signature does not verify under the client key named in the token
      (∀ sb, hexDecode r.proof.sig = some sb →
        E.verify r.proof.token.clientPub (E.proofHash r.proof) sb = false) ∨
      -- request hash does not match the payload
      r.proof.requestHash ≠ E.requestHashOf r ∨
      -- servicer key is not this node's
      E.addrOf r.proof.servicer ≠ some E.nodeAddr ∨
      -- chain not hosted here / not one of the application's chains
      r.proof.chain ∉ E.hosted ∨
      (∀ app, E.appAt sbhArg r.proof.token.appPub = some app → r.proof.chain ∉ app.chains) ∨
      -- no application record at the session height
      E.appAt sbhArg r.proof.token.appPub = none ∨
      -- this node is not in the session
      (∀ nodes, E.session = .ok nodes → some E.nodeAddr ∉ nodes) ∨
      -- session height / block height
      r.proof.sbh ≠ sbhArg ∨ r.proof.sbh < 1 ∨
      r.metaHeight < E.height - E.blockAllowance ∨ E.height + E.blockAllowance < r.metaHeight ∨
      -- token version
      r.proof.token.version ≠ "0.0.1") :
    ∀ max, validate E r sbhArg ≠ .ok max := by
  intro max hv
  obtain ⟨app, nodes, a⟩ := served_requires E r sbhArg max hv
  rcases h with h | h | h | h | h | h | h | h | h | h | h | h | h
  · obtain ⟨sb, h1, _, h3⟩ := a.token.signed
    rw [h sb h1] at h3; cases h3
  · obtain ⟨sb, h1, _, h3⟩ := a.clientSigned
    rw [h sb h1] at h3; cases h3
  · exact h a.requestHash
  · exact h a.servicerIsThisNode
  · exact h a.chainHosted
  · exact h app a.appFound a.chainOfApp
  · rw [a.appFound] at h; cases h
  · exact h nodes a.session a.servicerInSession
  · exact h a.sessionHeight.1
  · have := a.sessionHeight.2.1; omega
  · have := a.blockHeight.1; omega
  · have := a.blockHeight.2; omega
  · exact h a.token.version

/-- Validation never ends in `log.Fatalf` (a relay cannot kill the node), whatever the relay and
the ledger: an allowance of zero is refused with the over-service error before the evidence is
consulted (fix 94ea242; historically `GetTotalProofs` exited the process here). -/
theorem validate_never_fatal (E : Env) (r : Relay) (sbhArg : Int) : validate E r sbhArg ≠ .fail .fatal := by
  unfold validate
  split
  · rename_i e he
    intro h
    cases h
    exact preChecks_ne_fatal E r sbhArg he
  · split
    · intro h; cases h
    · unfold validateApp
      split
      · intro h; cases h
      · split
        · intro h; cases h
        · rename_i max' _
          split
          · intro h; cases h
          · rename_i hpos
            split
            · rename_i e he
              intro h
              cases h
              have := evidenceChecks_fatal E max' he
              omega
            · split
              · rename_i e he
                intro h
                cases h
                exact validateLocal_ne_fatal _ _ _ _ he
              · split
                · rename_i e he
                  intro h
                  cases h
                  exact sessionStage_ne_fatal _ _ _ _ _ he
                · intro h; cases h

/-- An application whose per-node allowance rounds to zero is refused with the over-service error. -/
theorem zero_allowance_refused (E : Env) (r : Relay) (sbhArg : Int) (app : App)
    (hpre : preChecks E r sbhArg = none) (happ : E.appAt sbhArg r.proof.token.appPub = some app)
    (hmc : ¬ (E.enforceMaxChains = true ∧ (app.chains.length : Int) > E.maxChains))
    (hmax : maxPossibleRelays app (E.nodeCount sbhArg) = some 0) :
    validate E r sbhArg = .fail (pc 71) := by
  unfold validate validateApp
  simp [hpre, happ, hmc, hmax]

set_option maxRecDepth 20000 in
example : validate { E0 with appAt := fun _ _ => some { pubRaw := hexOf "ab" 32, chains := ["0001"], maxRelays := 1 },
                             nodeCount := fun _ => 3 } r0 9 = .fail (pc 71) := by decide +kernel

/-- The block-height check is exact on machine integers: for every node height and allowance a
node can have (non-negative, sum below 2^63) and **every** `int64` client height — the corners
`h + MinInt64`, `MinInt64`, `MaxInt64` included — the wrapped `int64` computation of
`RelayMeta.Validate` rejects exactly when `|h − m| > allowance` over the integers.  (The two
comparisons never negate a difference, so there is no `−MinInt64` case.) -/
theorem meta_check_exact_on_int64 (h a m : Int) (hh : 0 ≤ h) (ha : 0 ≤ a) (hsum : h + a < 2 ^ 63)
    (_hm : -(2 ^ 63) ≤ m ∧ m < 2 ^ 63) :
    metaOutOfSync64 h a m = true ↔ (h + a < m ∨ h - a > m) := by
  unfold metaOutOfSync64 wrap64
  have e1 : (h + a + 2 ^ 63) % 2 ^ 64 - 2 ^ 63 = h + a := by omega
  have e2 : (h - a + 2 ^ 63) % 2 ^ 64 - 2 ^ 63 = h - a := by omega
  simp only [decide_eq_true_eq, e1, e2]

example : metaOutOfSync64 69 3 (69 + -(2 ^ 63)) = true ∧ metaOutOfSync64 69 3 72 = false := by decide

/-- With the default allowance 0 the window is the single height `latest`. -/
theorem tolerance_zero_is_latest (E : Env) (sbh : Int) (h0 : E.sessionAllowance = 0)
    (h : withinTolerance E sbh = true) : sbh = latestSessionHeight E.height E.bps := by
  unfold withinTolerance at h
  split at h
  · cases h
  · split at h
    · cases h
    · simp only [decide_eq_true_eq, h0] at h
      omega

/-- Whatever the allowance, only first blocks of a session pass the tolerance check (fix e007075;
historically `latest − 1` passed with an allowance of one session). -/
theorem tolerance_on_session_grid (E : Env) (sbh : Int) (h : withinTolerance E sbh = true) :
    (sbh - 1) % E.bps = 0 := by
  unfold withinTolerance at h
  split at h
  · cases h
  · split at h
    · cases h
    · rename_i hg; simpa using hg

example : withinTolerance { E0 with height := 69, sessionAllowance := 1 } 68 = false ∧
    withinTolerance { E0 with height := 69, sessionAllowance := 1 } 65 = true := by decide +kernel

/-- Session rollover with the end-of-session block unavailable is an internal error (fix b757cb3;
historically a nil-error dereference panicked here). -/
theorem rollover_error_reported (E : Env) (r : Relay) (sbhArg : Int) (app : App) (max : Int)
    (hpre : preChecks E r sbhArg = none) (happ : E.appAt sbhArg r.proof.token.appPub = some app)
    (hmc : ¬ (E.enforceMaxChains = true ∧ (app.chains.length : Int) > E.maxChains))
    (hmax : maxPossibleRelays app (E.nodeCount sbhArg) = some max) (hpos : 0 < max)
    (hev : evidenceChecks E max = none)
    (hloc : validateLocal E r.proof app.chains sbhArg = none)
    (hcache : E.sessionCache = none)
    (hover : E.height > sbhArg + E.bps - 1) (hend : E.sessionEndCtxOk = false) :
    validate E r sbhArg = .fail (.err "sdk" 1) := by
  unfold validate validateApp
  have : ¬ max ≤ 0 := by omega
  simp [hpre, happ, hmc, hmax, this, hev, hloc, sessionStage, hover, hend, hcache]

end C35
