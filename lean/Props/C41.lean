import Proofs.Num.Coins
import Proofs.Num.CoinsExt
import Proofs.Num.BigDec
/-!
# C41 — Coin set arithmetic matches multiset arithmetic

Model: `PocketModel/Num/Coins.lean` (types/coin.go), `PocketModel/Num/Int256.lean` (types/int.go),
`PocketModel/Num/BigDec.lean` (types/decimal.go).  `sumOf cs d` is the map reading of a coin list.
-/
namespace C41
open Coins

/-- Adding coin sets adds the per-denomination amounts (for *all* input lists). -/
theorem add_amounts (a b c : Coins) (h : safeAdd a b = some c) (d : Denom) :
    sumOf c d = sumOf a d + sumOf b d := safeAdd_sumOf a b c h d

/-- The sum of two sorted sets is sorted, has no zero entry and no duplicate denomination. -/
theorem add_canonical (a b c : Coins) (ha : Sorted a) (hb : Sorted b) (h : safeAdd a b = some c) :
    Sorted c ∧ (∀ x ∈ c, x.amount ≠ 0) ∧ (c.map (·.denom)).Nodup := by
  have hs := safeAdd_sorted a b c ha hb h
  refine ⟨hs, fun x hx => (mem_safeAdd a b c h x hx).2, ?_⟩
  unfold Sorted at hs
  exact List.Pairwise.imp (fun h => Bytes.ne_of_lt h) (List.pairwise_map.mpr hs)

/-- `Add` fails (panics) only through the 255-bit overflow of one per-denomination sum. -/
theorem add_fails_only_on_overflow (a b : Coins) (h : safeAdd a b = none) :
    ∃ x ∈ a, ∃ y ∈ b, x.denom = y.denom ∧ Int256.add x.amount y.amount = none := by
  fun_induction safeAdd a b with
  | case1 b => simp at h
  | case2 a as => simp at h
  | case3 ca as cb bs hlt ih =>
    simp at h
    obtain ⟨x, hx, y, hy, e⟩ := ih h
    exact ⟨x, List.mem_cons_of_mem _ hx, y, hy, e⟩
  | case4 ca as cb bs hlt heq hov => exact ⟨ca, List.mem_cons_self, cb, List.mem_cons_self, heq, hov⟩
  | case5 ca as cb bs hlt heq s hs ih =>
    simp at h
    obtain ⟨x, hx, y, hy, e⟩ := ih h
    exact ⟨x, List.mem_cons_of_mem _ hx, y, List.mem_cons_of_mem _ hy, e⟩
  | case6 ca as cb bs hlt heq ih =>
    simp at h
    obtain ⟨x, hx, y, hy, e⟩ := ih h
    exact ⟨x, hx, y, List.mem_cons_of_mem _ hy, e⟩

/-- Subtraction: per-denomination differences, canonical result, and the negative flag is raised
exactly when some denomination of `a` is smaller than in `b` — it reports instead of producing. -/
theorem sub_spec (a b d : Coins) (neg : Bool) (ha : Sorted a) (hb : Sorted b)
    (h : safeSub a b = some (d, neg)) :
    (∀ e, sumOf d e = sumOf a e - sumOf b e) ∧ Sorted d ∧ (∀ c ∈ d, c.amount ≠ 0) ∧
    (neg = true ↔ ∃ e, sumOf a e < sumOf b e) := safeSub_spec a b d neg ha hb h

/-- `Sub` (the panicking variant) returns only non-negative results. -/
theorem sub_never_negative (a b d : Coins) (h : sub a b = some d) : ∀ c ∈ d, 0 ≤ c.amount := by
  unfold sub at h
  split at h
  · rename_i d' hs
    simp at h; subst h
    simp [safeSub, Option.map_eq_some_iff] at hs
    obtain ⟨r, _, rfl, hn⟩ := hs
    intro c hc
    have : ¬ (c.amount < 0) := by
      intro hlt
      have : isAnyNegative r = true := (isAnyNegative_iff r).mpr ⟨c, hc, hlt⟩
      simp [this] at hn
    omega
  · simp at h

/-- **Uniqueness of the canonical form.**  A sorted, zero-free coin list is determined by its map
reading, so the "same per-denomination amounts as a map" statements above pin the result *list*. -/
theorem canonical_unique (a b : Coins) (ha : Sorted a) (hb : Sorted b)
    (na : ∀ c ∈ a, c.amount ≠ 0) (nb : ∀ c ∈ b, c.amount ≠ 0)
    (h : ∀ d, sumOf a d = sumOf b d) : a = b := canonical_ext a b ha hb na nb h

/-- Addition of sorted sets is commutative as lists (not merely as maps). -/
theorem add_comm (a b c c' : Coins) (ha : Sorted a) (hb : Sorted b)
    (h : safeAdd a b = some c) (h' : safeAdd b a = some c') : c = c' := safeAdd_comm a b c c' ha hb h h'

/-- … and associative whenever neither bracketing overflows. -/
theorem add_assoc (a b c ab bc l r : Coins) (ha : Sorted a) (hb : Sorted b) (hc : Sorted c)
    (h1 : safeAdd a b = some ab) (h2 : safeAdd ab c = some l)
    (h3 : safeAdd b c = some bc) (h4 : safeAdd a bc = some r) : l = r :=
  safeAdd_assoc a b c ab bc l r ha hb hc h1 h2 h3 h4

/-- Subtraction undoes addition exactly: `(a + b) - b` is the list `a` itself for canonical `a`,
and its negative flag reports exactly the negative entries `a` already had. -/
theorem add_then_sub_is_identity (a b c d : Coins) (neg : Bool) (ha : Sorted a) (hb : Sorted b)
    (na : ∀ x ∈ a, x.amount ≠ 0) (h : safeAdd a b = some c) (hs : safeSub c b = some (d, neg)) :
    d = a ∧ (neg = true ↔ ∃ e, sumOf a e < 0) :=
  ⟨add_sub_cancel a b c d neg ha hb na h hs, add_sub_cancel_flag a b c d neg ha hb h hs⟩

/-- `IsAllGTE` is the pointwise order of the maps over the denominations listed in `b`. -/
theorem isAllGTE_pointwise (a b : Coins) (ha : Sorted a) (hne : a ≠ []) (hbne : b ≠ []) :
    isAllGTE a b = true ↔ ∀ cb ∈ b, cb.amount ≤ sumOf a cb.denom := isAllGTE_spec a b ha hne hbne

/-- The binary-search lookup equals the map reading on sorted sets. -/
theorem amountOf_spec (cs : Coins) (d : Denom) (hs : Sorted cs) : amountOf cs d = sumOf cs d :=
  amountOf_eq_sumOf cs d hs

/-- A set accepted by `IsValid` is in canonical form. -/
theorem valid_is_canonical (cs : Coins) (h : isValid cs = true) : Sorted cs ∧ ∀ c ∈ cs, 0 < c.amount :=
  isValid_canonical cs h

/-- Integer operations: exact result, or failure with the exact result outside ±(2^255−1). -/
theorem int_add_exact_or_overflow (a b : Int) :
    Int256.add a b = some (a + b) ∧ (a + b).natAbs < 2 ^ 255 ∨
    Int256.add a b = none ∧ 2 ^ 255 ≤ (a + b).natAbs := Int256.add_exact_or_overflow a b

theorem int_sub_exact_or_overflow (a b : Int) :
    Int256.sub a b = some (a - b) ∧ (a - b).natAbs < 2 ^ 255 ∨
    Int256.sub a b = none ∧ 2 ^ 255 ≤ (a - b).natAbs := Int256.sub_exact_or_overflow a b

theorem int_mul_exact_or_overflow (a b : Int) (ha : a.natAbs < 2 ^ 255) (hb : b.natAbs < 2 ^ 255) :
    Int256.mul a b = some (a * b) ∧ (a * b).natAbs < 2 ^ 255 ∨
    Int256.mul a b = none ∧ 2 ^ 255 ≤ (a * b).natAbs := Int256.mul_exact_or_overflow a b ha hb

/-- Decimal multiplication/division rounding: within half a unit in the last place of the exact
value, ties to even ("documented rounded value"). -/
theorem dec_round_half_even (x : Int) :
    2 * (BigDec.chopRound x * BigDec.P - x) ≤ BigDec.P ∧ 2 * (x - BigDec.chopRound x * BigDec.P) ≤ BigDec.P ∧
    ((2 * (BigDec.chopRound x * BigDec.P - x) = BigDec.P ∨ 2 * (x - BigDec.chopRound x * BigDec.P) = BigDec.P) →
      BigDec.chopRound x % 2 = 0) := BigDec.chopRound_spec x

/-- `Mul` returns the rounded product or fails on (315-bit) overflow. -/
theorem dec_mul_rounded_or_overflow (a b : Int) :
    BigDec.mul a b = some (BigDec.chopRound (a * b)) ∨ BigDec.mul a b = none := by
  unfold BigDec.mul BigDec.check; split <;> simp

/-- Truncation is toward zero and loses less than one unit. -/
theorem dec_truncate_toward_zero (x : Int) :
    (0 ≤ x → 0 ≤ BigDec.chopTrunc x ∧ BigDec.chopTrunc x * BigDec.P ≤ x ∧ x < (BigDec.chopTrunc x + 1) * BigDec.P) ∧
    (x ≤ 0 → BigDec.chopTrunc x ≤ 0 ∧ x ≤ BigDec.chopTrunc x * BigDec.P ∧ (BigDec.chopTrunc x - 1) * BigDec.P < x) :=
  BigDec.chopTrunc_spec x

/-! ## Non-vacuity: the hypotheses are met by concrete non-trivial sets -/

private def ca : Coins := [⟨[97,97,97], 5⟩, ⟨[97,97,98], 7⟩]
private def cb : Coins := [⟨[97,97,97], -5⟩, ⟨[97,97,99], 1⟩]
example : strictSorted ca = true ∧ strictSorted cb = true := by decide
example : safeAdd ca cb = some [⟨[97,97,98], 7⟩, ⟨[97,97,99], 1⟩] := by
  have h1 : ([98] : Bytes) < [99] := by decide
  simp [safeAdd, ca, cb, pushNZ, removeZero, Int256.add, Int256.bitLen, Int256.maxBitLen, h1]
example : BigDec.chopRound 2500000000000000000 = 2 ∧ BigDec.chopRound 3500000000000000000 = 4 ∧
    BigDec.chopRound (-2500000000000000001) = -3 := by decide

end C41
