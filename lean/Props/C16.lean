import Proofs.Ledger.AnteToy
/-!
# C16 — A signed transaction can take effect at most once

Model: `PocketModel/Ledger/Ante.lean` — replay guard = `txIndexer.Get(hash(raw bytes))` inside
`ValidateTransaction` + the in-block `transactionCache` keyed by the raw bytes; the indexer is fed
at the end of every block with every result that is not an ante-level failure (`endBlock`: the
model's assumption about Tendermint's indexer service).  Decoder, hash and message handlers are
parameters.  The byte-level half (which byte strings decode to the same signed content) is
`Props/C16wire.lean`; here the decoder is abstract and the statements are about histories.
-/
namespace C16
open Ledger Coins

variable {S : Scheme} {Ω : Type}

/-- **same_bytes_once.** For every history under the modern rule set (handlers never return an
ante-level code): of any two deliveries of the same byte string, if the earlier one changed the
chain state, the later one changes nothing.  No assumption on the hash function (a collision can
only block more). -/
theorem same_bytes_once (hk : Hooks S Ω) (hno : NoAnteCode hk) (ops : List (Op S Ω))
    (hmod : ∀ env raw, Op.deliver env raw ∈ ops → env.redup = true) (n : Node S Ω) :
    (run hk n ops).2.Pairwise (fun e1 e2 => e1.raw = e2.raw → e1.post ≠ e1.pre → e2.post = e2.pre) := by
  have hp := ante_pass_once hk hno ops hmod n
  have hs := run_event_sound hk ops n
  refine (List.Pairwise.and_mem.mp hp).imp ?_
  intro e1 e2 ⟨h1, h2, h12⟩ hraw hchg
  obtain ⟨env1, n1, _, hpre1, hpost1, _, hpas1⟩ := hs e1 h1
  have hp1 : e1.passed = true := by
    cases hb : e1.passed with
    | true => rfl
    | false =>
      exfalso
      apply hchg
      rw [hpost1, hpre1]
      exact not_passed_unchanged hk env1 n1 e1.raw (by rw [← hpas1]; exact hb)
  obtain ⟨env2, n2, _, hpre2, hpost2, _, hpas2⟩ := hs e2 h2
  rw [hpost2, hpre2]
  exact not_passed_unchanged hk env2 n2 e2.raw (by rw [← hpas2]; exact h12 hraw hp1)

theorem countingHooks_noAnteCode (d : Bytes → Option (Tx Nat)) : NoAnteCode (Toy.countingHooks d) := by
  intro _ _ _ _; rfl

/-- Non-vacuity of `same_bytes_once`: a first delivery that changes the state, a second delivery of
the same bytes in the same block and in a later block. -/
example : Toy.observe [.deliver (Toy.env 5) [1], .deliver (Toy.env 5) [1]] = [(true, 1), (false, 1)] :=
  Toy.same_bytes_second_blocked
example : Toy.observe [.deliver (Toy.env 5) [1], .endBlock, .deliver (Toy.env 6) [1], .deliver (Toy.env 6) [2]] =
    [(true, 1), (false, 1), (true, 2)] := Toy.same_bytes_next_block_blocked

/-- **same_content_once fails.** The statement "two deliveries that decode to the same signed
content cannot both be executed" is false of the pipeline: the guard is keyed by raw bytes.
Witness (`Toy.two_encodings_both_run`): the byte strings `[1]` and `[2]` decode to the same
transaction; both get past the ante handler and both run the message handler, in the same block. -/
theorem same_content_once_fails :
    ¬ (∀ (S : Scheme) (Ω : Type) (hk : Hooks S Ω), NoAnteCode hk → ∀ (ops : List (Op S Ω)),
        (∀ env raw, Op.deliver env raw ∈ ops → env.modern) → ∀ n : Node S Ω,
        (run hk n ops).2.Pairwise (fun e1 e2 => (∃ tx, hk.decode e1.raw = some tx ∧ hk.decode e2.raw = some tx) →
          e1.passed = true → e2.passed = false)) := by
  intro hall
  have h := hall Toy.S Nat (Toy.countingHooks Toy.sloppy) (countingHooks_noAnteCode _)
    [.deliver (Toy.env 5) [1], .deliver (Toy.env 5) [2]]
    (by intro env raw hm; simp at hm; rcases hm with ⟨rfl, _⟩ | ⟨rfl, _⟩ <;> simp [Env.modern, Toy.env]) Toy.node0
  have hobs := Toy.two_encodings_both_run
  unfold Toy.observe at hobs
  generalize hr : (run (Toy.countingHooks Toy.sloppy) Toy.node0 [.deliver (Toy.env 5) [1], .deliver (Toy.env 5) [2]]).2 = evs at h hobs
  have hraws : evs.map (·.raw) = [[1], [2]] := by
    rw [← hr]; simp [run]
  match evs, hobs, hraws, h with
  | [e1, e2], hobs, hraws, h =>
    simp only [List.map_cons, List.map_nil, List.cons.injEq, Prod.mk.injEq, and_true] at hobs hraws
    simp only [List.pairwise_cons, List.mem_cons, List.mem_nil_iff, or_false, forall_eq] at h
    have := h.1 ⟨Toy.tx 1 1 0 [], rfl, rfl⟩ hobs.1.1
    rw [hobs.2.1] at this
    cases this

/-- `Canonical` on a history: the decoder is injective on the byte strings that are delivered —
the excluded point of `same_content_once`. -/
def CanonicalOn (hk : Hooks S Ω) (ops : List (Op S Ω)) : Prop :=
  ∀ env1 env2 b1 b2, Op.deliver env1 b1 ∈ ops → Op.deliver env2 b2 ∈ ops →
    (∃ tx, hk.decode b1 = some tx ∧ hk.decode b2 = some tx) → b1 = b2

/-- **same_content_once (partial).** When every delivered byte string is the only delivered
encoding of its content (`CanonicalOn`), a signed content is executed at most once. -/
theorem same_content_once_partial (hk : Hooks S Ω) (hno : NoAnteCode hk) (ops : List (Op S Ω))
    (hmod : ∀ env raw, Op.deliver env raw ∈ ops → env.redup = true) (hcan : CanonicalOn hk ops)
    (n : Node S Ω) :
    (run hk n ops).2.Pairwise
      (fun e1 e2 => (∃ tx, hk.decode e1.raw = some tx ∧ hk.decode e2.raw = some tx) →
        e1.post ≠ e1.pre → e2.post = e2.pre) := by
  have hp := same_bytes_once hk hno ops hmod n
  have hs := run_event_sound hk ops n
  refine (List.Pairwise.and_mem.mp hp).imp ?_
  intro e1 e2 ⟨h1, h2, h12⟩ hsame hchg
  obtain ⟨env1, _, hm1, _⟩ := hs e1 h1
  obtain ⟨env2, _, hm2, _⟩ := hs e2 h2
  exact h12 (hcan env1 env2 e1.raw e2.raw hm1 hm2 hsame) hchg

example : CanonicalOn (Toy.countingHooks Toy.sloppy) [.deliver (Toy.env 5) [1], .deliver (Toy.env 6) [1]] := by
  intro e1 e2 b1 b2 h1 h2 _
  simp at h1 h2
  rcases h1 with ⟨_, rfl⟩ | ⟨_, rfl⟩ <;> rcases h2 with ⟨_, rfl⟩ | ⟨_, rfl⟩ <;> rfl

end C16
