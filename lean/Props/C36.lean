import Proofs.Ledger.Gov
/-!
# C36 — Only the designated owner can change parameters or move DAO funds

Model: `PocketModel/Ledger/Gov.lean` (x/gov/handler.go, keeper/{acl,subspace,dao}.go).  "Signer" is
the `FromAddress`/`Address` field of the message, which the ante handler has authenticated (C14).
-/
namespace C36
open Ledger Ledger.Gov Ledger.Bank Ledger.Accounts

/-- A `MsgChangeParam` that changes anything at all — a parameter value, the ACL, the DAO owner, a
balance — was signed by the address the ACL names for that key. -/
theorem param_change_requires_acl_owner (st : GovState) (h : Int) (sp : Bool) (ki : KeyInfo) (key : String)
    (val : ParamVal) (signer : Addr) (hch : (changeParam st h sp ki key val signer).st ≠ st) :
    signer = st.acl.getOwner key := by
  unfold changeParam at hch
  by_cases hv : verifyACL st key signer
  · simp [verifyACL, addrEquals] at hv; exact hv.symm
  · simp [hv] at hch

/-- …and otherwise the result is "unauthorized" and the whole state is as before. -/
theorem param_change_other_signer_noop (st : GovState) (h : Int) (sp : Bool) (ki : KeyInfo) (key : String)
    (val : ParamVal) (signer : Addr) (hs : signer ≠ st.acl.getOwner key) :
    changeParam st h sp ki key val signer = ⟨st, some .unauthorized⟩ := by
  have : verifyACL st key signer = false := by
    simp [verifyACL, addrEquals]; exact fun e => hs e.symm
  simp [changeParam, this]

/-- A key without an ACL entry has the empty owner: no authenticated (non-empty) signer passes. -/
theorem param_without_acl_entry_unchangeable (st : GovState) (h : Int) (sp : Bool) (ki : KeyInfo) (key : String)
    (val : ParamVal) (signer : Addr) (hk : st.acl.getOwner key = []) (hs : signer ≠ []) :
    changeParam st h sp ki key val signer = ⟨st, some .unauthorized⟩ :=
  param_change_other_signer_noop st h sp ki key val signer (by rw [hk]; exact hs)

/-- As found: an owner's value that does not decode is *accepted* (result ok) and changes nothing —
`ModifyParam` drops the error of `Subspace.Update`. -/
theorem undecodable_value_accepted_noop (st : GovState) (h : Int) (sp : Bool) (key : String) (signer : Addr)
    (hs : signer = st.acl.getOwner key) (hg : ¬ (h ≥ minSafeMaxValidatorHeight ∧ sp = false ∧ key = maxValidatorsKey)) :
    changeParam st h sp ⟨true, true⟩ key .undecodable signer = ⟨st, none⟩ := by
  have : verifyACL st key signer = true := by simp [verifyACL, addrEquals, hs]
  simp only [changeParam, this]
  simp [hg]

/-- The owner's decodable value is stored under exactly that key; nothing else moves. -/
theorem owner_change_sets_exactly_key (st : GovState) (h : Int) (sp : Bool) (key s : String) (signer : Addr)
    (hs : signer = st.acl.getOwner key) (hg : ¬ (h ≥ minSafeMaxValidatorHeight ∧ sp = false ∧ key = maxValidatorsKey)) :
    changeParam st h sp ⟨true, true⟩ key (.plain s) signer = ⟨{ st with params := st.params.set key s }, none⟩ := by
  have : verifyACL st key signer = true := by simp [verifyACL, addrEquals, hs]
  simp only [changeParam, this]
  simp [hg]

/-- The `MaxValidators` height guard: from block 40000 until the validator split is active even the
owner cannot change `pos/MaxValidators`. -/
theorem max_validators_guard (st : GovState) (h : Int) (ki : KeyInfo) (val : ParamVal) (signer : Addr)
    (hs : signer = st.acl.getOwner maxValidatorsKey) (hh : h ≥ minSafeMaxValidatorHeight) :
    changeParam st h false ki maxValidatorsKey val signer = ⟨st, some .heightGuard⟩ := by
  have : verifyACL st maxValidatorsKey signer = true := by simp [verifyACL, addrEquals, hs]
  simp [changeParam, this, hh]

/-- A `MsgUpgrade` that changes anything was signed by the ACL owner of `gov/upgrade`. -/
theorem upgrade_requires_owner (st : GovState) (ns : Option String) (signer : Addr)
    (hch : (upgrade st ns signer).st ≠ st) : signer = st.acl.getOwner upgradeKey := by
  unfold upgrade at hch
  by_cases hv : verifyACL st upgradeKey signer
  · simp [verifyACL, addrEquals] at hv; exact hv.symm
  · simp [hv] at hch

theorem upgrade_other_signer_noop (st : GovState) (ns : Option String) (signer : Addr)
    (hs : signer ≠ st.acl.getOwner upgradeKey) : upgrade st ns signer = ⟨st, some .unauthorized⟩ := by
  have : verifyACL st upgradeKey signer = false := by
    simp [verifyACL, addrEquals]; exact fun e => hs e.symm
  simp [upgrade, this]

/-- A DAO message that changes anything was signed by the DAO owner. -/
theorem dao_transfer_requires_dao_owner (mt : ModTable) (st : GovState) (signer dst : Addr) (amt : Int)
    (hch : (msgDAOTransfer mt st signer dst amt).st ≠ st) : signer = st.daoOwner := by
  unfold msgDAOTransfer at hch
  by_cases hv : signer = [] ∨ amt = 0 ∨ dst = []
  · simp [hv] at hch
  · simp only [hv, if_false] at hch
    by_cases ho : addrEquals st.daoOwner signer
    · simp [addrEquals] at ho; exact ho.symm
    · simp [daoTransfer, ho] at hch

theorem dao_burn_requires_dao_owner (mt : ModTable) (st : GovState) (signer : Addr) (amt : Int)
    (hch : (msgDAOBurn mt st signer amt).st ≠ st) : signer = st.daoOwner := by
  unfold msgDAOBurn at hch
  by_cases hv : signer = [] ∨ amt = 0
  · simp [hv] at hch
  · simp only [hv, if_false] at hch
    by_cases ho : addrEquals st.daoOwner signer
    · simp [addrEquals] at ho; exact ho.symm
    · simp [daoBurn, ho] at hch

/-- Any other signer: error, and the whole state (balances, supply, parameters) is as before. -/
theorem dao_other_signer_noop (mt : ModTable) (st : GovState) (signer dst : Addr) (amt : Int)
    (hs : signer ≠ st.daoOwner) :
    (msgDAOTransfer mt st signer dst amt).st = st ∧ (msgDAOTransfer mt st signer dst amt).err ≠ none ∧
    (msgDAOBurn mt st signer amt).st = st ∧ (msgDAOBurn mt st signer amt).err ≠ none := by
  have ho : addrEquals st.daoOwner signer = false := by
    simp [addrEquals]; exact fun e => hs e.symm
  unfold msgDAOTransfer msgDAOBurn
  refine ⟨?_, ?_, ?_, ?_⟩
  · by_cases hv : signer = [] ∨ amt = 0 ∨ dst = [] <;> simp [hv, daoTransfer, ho]
  · by_cases hv : signer = [] ∨ amt = 0 ∨ dst = [] <;> simp [hv, daoTransfer, ho]
  · by_cases hv : signer = [] ∨ amt = 0 <;> simp [hv, daoBurn, ho]
  · by_cases hv : signer = [] ∨ amt = 0 <;> simp [hv, daoBurn, ho]

/-- A successful DAO transfer moves exactly the amount from the DAO account to the recipient; no
other entry, not the supply, and no parameter changes. -/
theorem dao_transfer_exact (mt : ModTable) (st : GovState) (signer dst : Addr) (amt : Int) (mi : ModInfo)
    (hf : mt.find daoName = some mi) (hd : mi.addr ≠ dst)
    (hok : (msgDAOTransfer mt st signer dst amt).err = none) :
    (msgDAOTransfer mt st signer dst amt).st.bank.balOf mi.addr = st.bank.balOf mi.addr - amt ∧
    (msgDAOTransfer mt st signer dst amt).st.bank.balOf dst = st.bank.balOf dst + amt ∧
    (∀ c, c ≠ mi.addr → c ≠ dst →
      (msgDAOTransfer mt st signer dst amt).st.bank.accts.get c = st.bank.accts.get c) ∧
    (msgDAOTransfer mt st signer dst amt).st.bank.supply = st.bank.supply ∧
    (msgDAOTransfer mt st signer dst amt).st.params = st.params ∧
    (msgDAOTransfer mt st signer dst amt).st.acl = st.acl ∧
    (msgDAOTransfer mt st signer dst amt).st.daoOwner = st.daoOwner := by
  unfold msgDAOTransfer at *
  by_cases hv : signer = [] ∨ amt = 0 ∨ dst = []
  · simp [hv] at hok
  · simp only [hv, if_false] at hok ⊢
    unfold daoTransfer at *
    by_cases ho : addrEquals st.daoOwner signer
    · by_cases hn : amt < 0
      · simp [ho, hn] at hok
      · simp only [ho, hn, Bool.not_true, Bool.false_eq_true, if_false, sendModuleToAccount, hf] at hok ⊢
        have hs : (sendCoins st.bank mi.addr dst amt).err = none := by
          cases h : (sendCoins st.bank mi.addr dst amt).err with
          | none => rfl
          | some e => simp [h] at hok
        have hds : ¬ dst = mi.addr := fun e => hd e.symm
        refine ⟨?_, ?_, ?_, sendCoins_supply _ _ _ _, trivial, trivial, trivial⟩
        · rw [sendCoins_balOf _ _ _ _ _ hs]; simp [hds]
        · rw [sendCoins_balOf _ _ _ _ _ hs]; simp [hd]
        · intro c h1 h2
          exact sendCoins_get_other _ _ _ c _ (fun e => h1 e.symm) (fun e => h2 e.symm)
    · simp [ho] at hok

/-- A successful DAO burn lowers the DAO balance and the supply by exactly the amount and touches
nothing else. -/
theorem dao_burn_exact (mt : ModTable) (st : GovState) (signer : Addr) (amt : Int)
    (hok : (msgDAOBurn mt st signer amt).err = none) :
    ∃ mi, mt.find daoName = some mi ∧
      (msgDAOBurn mt st signer amt).st.bank.balOf mi.addr = st.bank.balOf mi.addr - amt ∧
      (msgDAOBurn mt st signer amt).st.bank.supply = st.bank.supply - amt ∧
      (∀ c, mi.addr ≠ c → (msgDAOBurn mt st signer amt).st.bank.accts.get c = st.bank.accts.get c) ∧
      (msgDAOBurn mt st signer amt).st.params = st.params ∧
      (msgDAOBurn mt st signer amt).st.acl = st.acl ∧
      (msgDAOBurn mt st signer amt).st.daoOwner = st.daoOwner := by
  unfold msgDAOBurn at *
  by_cases hv : signer = [] ∨ amt = 0
  · simp [hv] at hok
  · simp only [hv, if_false] at hok ⊢
    unfold daoBurn at *
    by_cases ho : addrEquals st.daoOwner signer
    · by_cases hn : amt < 0
      · simp [ho, hn] at hok
      · simp only [ho, hn, Bool.not_true, Bool.false_eq_true, if_false] at hok ⊢
        have hs : (burnCoins mt st.bank daoName amt).err = none := by
          cases h : (burnCoins mt st.bank daoName amt).err with
          | none => rfl
          | some e => simp [h] at hok
        obtain ⟨mi, hf, _, _, hb, hsup, hoth⟩ := burnCoins_ok mt st.bank daoName amt hs
        exact ⟨mi, hf, hb, hsup, hoth, trivial, trivial, trivial⟩
    · simp [ho] at hok

/-- Beyond the DAO balance: transfer and burn both fail and nothing changes (the DAO account
exists — genesis mints into it). -/
theorem dao_over_balance_noop (mt : ModTable) (st : GovState) (signer dst : Addr) (amt : Int)
    (mi : ModInfo) (acc : Account) (hf : mt.find daoName = some mi)
    (ha : st.bank.accts.get mi.addr = some acc) (hm : acc.module.isSome = true)
    (hx : st.bank.balOf mi.addr < amt) :
    (msgDAOTransfer mt st signer dst amt).st = st ∧ (msgDAOTransfer mt st signer dst amt).err ≠ none ∧
    (msgDAOBurn mt st signer amt).st = st ∧ (msgDAOBurn mt st signer amt).err ≠ none := by
  have hT : (daoTransfer mt st signer dst amt).st = st ∧ (daoTransfer mt st signer dst amt).err ≠ none := by
    unfold daoTransfer
    by_cases ho : addrEquals st.daoOwner signer
    · by_cases hn : amt < 0
      · simp [ho, hn]
      · simp only [ho, hn, Bool.not_true, Bool.false_eq_true, if_false]
        obtain ⟨h1, h2⟩ := sendModuleToAccount_over_balance mt st.bank daoName dst amt mi hf hx
        refine ⟨by rw [h1], ?_⟩
        cases he : (sendModuleToAccount mt st.bank daoName dst amt).err with
        | none => exact absurd he h2
        | some e => simp
    · simp [ho]
  have hB : (daoBurn mt st signer amt).st = st ∧ (daoBurn mt st signer amt).err ≠ none := by
    unfold daoBurn
    by_cases ho : addrEquals st.daoOwner signer
    · by_cases hn : amt < 0
      · simp [ho, hn]
      · simp only [ho, hn, Bool.not_true, Bool.false_eq_true, if_false]
        obtain ⟨h1, h2⟩ := burnCoins_over_balance mt st.bank daoName amt mi acc hf ha hm hx
        refine ⟨by rw [h1], ?_⟩
        cases he : (burnCoins mt st.bank daoName amt).err with
        | none => exact absurd he h2
        | some e => simp
    · simp [ho]
  unfold msgDAOTransfer msgDAOBurn
  refine ⟨?_, ?_, ?_, ?_⟩
  · by_cases hv : signer = [] ∨ amt = 0 ∨ dst = []
    · simp [hv]
    · simp only [hv, if_false]; exact hT.1
  · by_cases hv : signer = [] ∨ amt = 0 ∨ dst = []
    · simp [hv]
    · simp only [hv, if_false]; exact hT.2
  · by_cases hv : signer = [] ∨ amt = 0
    · simp [hv]
    · simp only [hv, if_false]; exact hB.1
  · by_cases hv : signer = [] ∨ amt = 0
    · simp [hv]
    · simp only [hv, if_false]; exact hB.2

/-- Whatever a DAO message does, `supply = Σ balances` and non-negative balances survive (C17's
invariant carried through the DAO operations). -/
theorem dao_preserves_supply_invariant (mt : ModTable) (st : GovState) (signer dst : Addr) (amt : Int)
    (hg : SupplyInv st.bank) (hn : NonNeg st.bank) :
    (SupplyInv (msgDAOTransfer mt st signer dst amt).st.bank ∧ NonNeg (msgDAOTransfer mt st signer dst amt).st.bank) ∧
    (SupplyInv (msgDAOBurn mt st signer amt).st.bank ∧ NonNeg (msgDAOBurn mt st signer amt).st.bank) := by
  unfold msgDAOTransfer msgDAOBurn
  constructor
  · by_cases hv : signer = [] ∨ amt = 0 ∨ dst = []
    · simp only [hv, if_true]; exact ⟨hg, hn⟩
    · simp only [hv, if_false, daoTransfer]
      by_cases ho : addrEquals st.daoOwner signer
      · by_cases hx : amt < 0
        · simp only [ho, hx, Bool.not_true, Bool.false_eq_true, if_false, if_true]; exact ⟨hg, hn⟩
        · simp only [ho, hx, Bool.not_true, Bool.false_eq_true, if_false]
          exact step_good mt st.bank (.modToAcc daoName dst amt) ⟨hg, hn⟩
      · simp only [ho, Bool.not_false, if_true]; exact ⟨hg, hn⟩
  · by_cases hv : signer = [] ∨ amt = 0
    · simp only [hv, if_true]; exact ⟨hg, hn⟩
    · simp only [hv, if_false, daoBurn]
      by_cases ho : addrEquals st.daoOwner signer
      · by_cases hx : amt < 0
        · simp only [ho, hx, Bool.not_true, Bool.false_eq_true, if_false, if_true]; exact ⟨hg, hn⟩
        · simp only [ho, hx, Bool.not_true, Bool.false_eq_true, if_false]
          exact burnCoins_good mt st.bank daoName amt ⟨hg, hn⟩
      · simp only [ho, Bool.not_false, if_true]; exact ⟨hg, hn⟩

/-! ## Non-vacuity -/

private def mt : ModTable := [⟨"dao", [0xda], true, true⟩]
private def st0 : GovState :=
  { bank := ⟨[([1], ⟨100, none⟩), ([0xda], ⟨50, some "dao"⟩)], 150⟩,
    acl := [("pos/MaxValidators", [7]), ("gov/upgrade", [8]), ("gov/acl", [7])], daoOwner := [9],
    params := [("pos/MaxValidators", "5")] }

example : (changeParam st0 10 true ⟨true, true⟩ "pos/MaxValidators" (.plain "6") [7]).st.params = [("pos/MaxValidators", "6")] := by decide
example : (changeParam st0 10 true ⟨true, true⟩ "pos/MaxValidators" (.plain "6") [8]).err = some .unauthorized := by decide
example : (changeParam st0 10 true ⟨true, true⟩ "pos/MaxValidators" .undecodable [7]) = ⟨st0, none⟩ := by decide
example : (changeParam st0 40000 false ⟨true, true⟩ "pos/MaxValidators" (.plain "6") [7]).err = some .heightGuard := by decide
example : (upgrade st0 (some "u") [8]).st.params.get "gov/upgrade" = some "u" ∧ (upgrade st0 (some "u") [7]).st = st0 := by decide
example : (msgDAOTransfer mt st0 [9] [1] 50).err = none ∧ (msgDAOTransfer mt st0 [9] [1] 50).st.bank.balOf [1] = 150 := by decide
example : (msgDAOBurn mt st0 [9] 20).err = none ∧ (msgDAOBurn mt st0 [9] 20).st.bank.supply = 130 := by decide
example : (msgDAOTransfer mt st0 [9] [1] 51).st = st0 ∧ (msgDAOBurn mt st0 [7] 5).st = st0 := by decide

/-! ## Duplicate keys in the ACL list (seeded change C36-d)

The ACL is a list and nothing rejects two pairs for one key.  `GetOwner` is *first match*: a pair
behind an earlier pair for the same key is a decoy that never gains any right, and a pair in front
shadows everything behind it.  (A map-based lookup — last pair wins — differs exactly here.) -/

/-- A pair appended behind an ACL that already lists the key changes no owner at all. -/
theorem trailing_duplicate_is_inert (acl : ACL) (k : String) (b : Addr)
    (h : ∃ a, (k, a) ∈ acl) (key : String) :
    ACL.getOwner (acl ++ [(k, b)]) key = ACL.getOwner acl key := by
  induction acl with
  | nil => obtain ⟨a, ha⟩ := h; simp at ha
  | cons p r ih =>
    obtain ⟨k', a'⟩ := p
    simp only [List.cons_append, ACL.getOwner]
    by_cases hk : k' = key
    · simp [hk]
    · simp only [hk, if_false]
      by_cases hk2 : k = key
      · subst hk2
        obtain ⟨a, ha⟩ := h
        rcases List.mem_cons.mp ha with he | hr
        · exact absurd (by simpa using (congrArg Prod.fst he).symm) hk
        · exact ih ⟨a, hr⟩
      · -- the appended key is not the one looked up: the appended pair is never reached
        clear ih h
        induction r with
        | nil => simp [ACL.getOwner, hk2]
        | cons q r ih2 => obtain ⟨k2, a2⟩ := q; simp only [List.cons_append, ACL.getOwner]; split <;> simp_all

/-- A pair put in front decides the key, whatever follows. -/
theorem leading_pair_shadows (acl : ACL) (k : String) (b : Addr) :
    ACL.getOwner ((k, b) :: acl) k = b := by simp [ACL.getOwner]

example : ACL.getOwner [("auth/MaxMemoCharacters", [1]), ("auth/MaxMemoCharacters", [2])] "auth/MaxMemoCharacters" = [1] := by
  decide

end C36
