import Proofs.Store.MultiDisk
/-!
# C07 — A crash at any point of a commit is recoverable without divergence

Model (`PocketModel/Store/NodeDB.lean`): `rootmulti.Store.Commit` as the list of atomic DB writes
`[batch(substore σ₁), …, batch(substore σₙ), batch{s/<v+1>, s/latest}]` (`commitMS`, `DWrite`), a crash
after the `k`-th write (`crashDisk`), recovery = `LoadLatestVersion` on a fresh object (`openMS` →
`loadMS` → `loadStore`/`loadStoreZero` → `loadVersion`, with its quirks: `versions` filled with every root on
disk, target 0 = latest on disk; since repo commit 2a0e88a `LoadVersion(0)` rolls back substores that come back
with a non-zero version), re-execution = the same block + `Commit` (`SaveVersion` with its
"version exists ∧ same hash ⇒ no-op" branch).  A single `Batch.Write` is atomic (assumed).
`H` is `tmhash.Sum` (parameter), `S`/`Inj` as in C04/C08.
-/
namespace C07
open NodeDB Amino

variable (H : Bytes → Bytes)

/-- `SaveVersion` of a version that already exists on disk with the same root hash is a no-op that
reports that hash (the branch re-execution relies on). -/
theorem idempotent_resave (t : MTree) (hv : t.versions.contains (t.version + 1) = true)
    (hr : aget (t.version + 1) t.db.roots = some (hashOpt H t.root)) :
    saveVersion H t = some ({ t with version := t.version + 1, lastSaved := t.root }, hashOpt H t.root, t.version + 1) :=
  saveVersion_idempotent t hv hr

/-- **One substore, crash during the commit of version `v+1`, `v = |hist| ≥ 1`.**  Whether the
substore's own batch had reached the disk (`db₁`, which holds `hist ++ [next]`) or not (`db₀`, which
holds `hist`), the multistore — still at version `v` — reloads it at version `v` and gets exactly the
tree committed at `v`; re-executing the block then reports the hash of the uninterrupted run and
leaves a disk on which every version reads as in the uninterrupted run. -/
theorem crash_recover_reexecute_substore (hH : HashOK H) (S : Tree → Prop) (hi : Inj H S)
    (hist : List (Option Tree)) (next : Option Tree) (hne : hist ≠ []) (db₀ db₁ : NDB)
    (g₀ : GoodDisk H S hist db₀) (g₁ : GoodDisk H S (hist ++ [next]) db₁) (hok : HistOK S hist)
    (hstep : StepOK S hist.length (lastOf hist) next) :
    ∀ db, db = db₀ ∨ db = db₁ →
      ∃ m, loadStore db hist.length = some m ∧ m.version = hist.length ∧ m.root = lastOf hist ∧
        ∃ m', saveVersion H (m.setRoot next) = some (m', hashOpt H next, (hist.length : Int) + 1) ∧
          ∀ v, getImmutable m'.db v = histAt (hist ++ [next]) v := by
  have hok1 : HistOK S (hist ++ [next]) := hok.append hstep
  intro db hdb
  rcases hdb with rfl | rfl
  · obtain ⟨r, hr, hl, hlast, gt⟩ := recover_before hH hi g₀ hok hne
    refine ⟨_, hl, rfl, hlast, ?_⟩
    have hs : StepOK S hist.length ((recovered db hist.length r).setRoot next).lastSaved ((recovered db hist.length r).setRoot next).root := by
      simp only [recovered, MTree.setRoot]; rw [hlast]; exact hstep
    obtain ⟨m', hsv, gm', _⟩ := saveVersion_good hH hi (gt.setRoot next) hok hs
    exact ⟨m', by simpa [MTree.setRoot, recovered] using hsv, fun v => getImmutable_good hH (by simpa [MTree.setRoot, recovered] using gm'.disk) hok1 v⟩
  · obtain ⟨r, hr, hlast, hl, m', hsv, hdb, _, gm'⟩ := recover_after hH hi next g₁ hok1 hne
    exact ⟨_, hl, rfl, hlast, m', hsv, fun v => getImmutable_good hH gm'.disk hok1 v⟩

/-! ## The multistore: every crash point of every commit after the first

`GoodMS H S names hs k s`: the running multistore `s` has completed `k` commits, substore `n` having
saved the versions `hs n`.  `runMS_good` (below, `reachable`) shows that every legal block history
from a fresh disk leads to such a state.  `nx n` is the working tree the block leaves in substore `n`,
`order` the iteration order of `commitStores`, `order'` the (possibly different) order after the restart. -/

/-- Every legal history from an empty DB reaches a good multistore (so the crash theorems below apply
at every height `≥ 1` of every history). -/
theorem reachable (hH : HashOK H) (S : Tree → Prop) (hi : Inj H S) (names : List RootMulti.Name) (hnd : names.Nodup)
    (blocks : List (List RootMulti.Name × (RootMulti.Name → Option Tree)))
    (hb : GoodBlocks S names (fun _ => []) 0 blocks) :
    ∃ s0 s ids, openMS H (freshDisk names) names = some s0 ∧
      runMS H s0 (blocks.map fun b => (b.1, fullBlock names b.2)) = some (s, ids) ∧
      GoodMS H S names (histsAfter (fun _ => []) blocks) blocks.length s := by
  obtain ⟨s0, h0, g0⟩ := openMS_fresh_good hH S hi names hnd
  obtain ⟨s, ids, hrun, g, _⟩ := runMS_good hH hi blocks _ 0 s0 g0 hb
  exact ⟨s0, s, ids, h0, hrun, by simpa using g⟩

/-- **crash_recover_state** (every height, including the very first commit).  The commit of a legal block
performs `|order|+1` atomic writes.  After a crash behind any `j` of them, `LoadLatestVersion` on a fresh
object succeeds and shows: while `j ≤ |order|` (final batch not written) the *previous* commit id and every
substore on version `k` with exactly the tree committed at `k` (empty at `k = 0`: `LoadVersion(0)` discards
what the interrupted first commit left); for `j = |order|+1` the new commit id and the new trees. -/
theorem crash_recover_state (hH : HashOK H) (S : Tree → Prop) (hi : Inj H S) (names : List RootMulti.Name)
    (hs : RootMulti.Name → List (Option Tree)) (k : Nat) (s : MStore) (g : GoodMS H S names hs k s)
    (nx : RootMulti.Name → Option Tree) (order : List RootMulti.Name) (ho : IsOrder names order)
    (hstep : ∀ n ∈ names, StepOK S k (lastOf (hs n)) (nx n)) :
    ∃ s' cid ws, commitMS H order (s.applyBlock (fullBlock names nx)) = some (s', cid, ws) ∧
      ws.length = order.length + 1 ∧
      (∀ j, j ≤ order.length → ∃ rec, openMS H (crashDisk s.disk ws j) names = some rec ∧
        rec.lastCommitID = s.lastCommitID ∧
        ∀ n ∈ names, ∃ m, aget n rec.stores = some m ∧ m.version = k ∧ m.root = lastOf (hs n)) ∧
      (∃ rec, openMS H (crashDisk s.disk ws (order.length + 1)) names = some rec ∧
        rec.lastCommitID = cid ∧
        ∀ n ∈ names, ∃ m, aget n rec.stores = some m ∧ m.version = (k : Int) + 1 ∧ m.root = nx n) := by
  obtain ⟨s', ws, hc, hlen, g', hcrash, hfull, hci⟩ := crash_disks hH hi g nx order ho hstep
  have hl : ∀ n ∈ names, (hs n).length = k := fun n hn => by obtain ⟨_, _, _, _, h⟩ := g.tree n hn; exact h
  refine ⟨s', _, ws, hc, hlen, ?_, ?_⟩
  · intro j hj
    by_cases hk : 1 ≤ k
    · obtain ⟨ci, hci', hv, hopen⟩ := recover_state hH nx order j (hcrash j hj) hk hl
      refine ⟨_, hopen, ?_, ?_⟩
      · rw [g.lcid]
        have hk0 : ¬ k = 0 := by omega
        simp only [hk0, if_false]
        have hsame : (crashDisk s.disk ws j).cinfos = s.cinfos := by
          unfold crashDisk
          have key : ∀ (l : List DWrite) (d : Disk), (∀ w ∈ l, ∃ n db, w = DWrite.store n db) → (l.foldl Disk.apply d).cinfos = d.cinfos := by
            intro l
            induction l with
            | nil => intro d _; rfl
            | cons w l ih =>
              intro d hw
              obtain ⟨n, db, rfl⟩ := hw w List.mem_cons_self
              rw [List.foldl_cons, ih _ (fun w' hw' => hw w' (List.mem_cons_of_mem _ hw'))]
              rfl
          apply key
          intro w hw
          obtain ⟨s'', dbOf, hc', _⟩ := commitMS_good hH hi g nx order ho hstep
          rw [hc] at hc'; cases hc'
          rw [List.take_append_of_le_length (by simpa using hj)] at hw
          obtain ⟨n, _, rfl⟩ := List.mem_map.mp (List.mem_of_mem_take hw)
          exact ⟨n, _, rfl⟩
        rw [hsame] at hci'
        simp [hci']
      · intro n hn
        refine ⟨recovered ((crashDisk s.disk ws j).storeDB n) k (lastOf (hs n)), ?_, rfl, rfl⟩
        rw [aget_map_names (fun n => recovered ((crashDisk s.disk ws j).storeDB n) k (lastOf (hs n))) names n, if_pos hn]
    · -- the very first commit: nothing has been committed, LoadVersion(0) discards the debris
      have hk0 : k = 0 := by omega
      subst hk0
      obtain ⟨rec, hopen, grec, hst⟩ := openMS_zero hH hi (hcrash j hj)
      refine ⟨rec, hopen, ?_, ?_⟩
      · rw [grec.lcid, g.lcid]; simp
      · intro n hn
        obtain ⟨t, ht, hv, hr, _⟩ := hst n hn
        refine ⟨t, ht, by simpa using hv, ?_⟩
        have : hs n = [] := List.eq_nil_of_length_eq_zero (hl n hn)
        rw [hr, this]; rfl
  · obtain ⟨ci, hci', hopen⟩ := openMS_good hH hfull (by omega)
    have e : ((k + 1 : Nat) : Int) = (k : Int) + 1 := by push_cast; rfl
    rw [e] at hci' hopen
    rw [hci] at hci'; cases hci'
    refine ⟨_, hopen, rfl, ?_⟩
    intro n hn
    refine ⟨recovered ((crashDisk s.disk ws (order.length + 1)).storeDB n) ((k : Int) + 1)
        ((histAt (hs n ++ [nx n]) ((k : Int) + 1)).getD none), ?_, rfl, ?_⟩
    · rw [aget_map_names (fun n => recovered ((crashDisk s.disk ws (order.length + 1)).storeDB n) ((k : Int) + 1)
        ((histAt (hs n ++ [nx n]) ((k : Int) + 1)).getD none)) names n, if_pos hn]
    · simp only [recovered]
      rw [histAt_append, hl n hn]
      simp

/-- **crash_reexecute_hash** (every height).  From the store recovered after a crash behind any
`j ≤ |order|` writes, re-executing the block and committing — in any iteration order — succeeds, reports
version `k+1` with the commit hash of the uninterrupted run, and leaves a good multistore for the extended
history (so the following blocks also reproduce the uninterrupted run, by `reachable`'s induction step). -/
theorem crash_reexecute_hash (hH : HashOK H) (S : Tree → Prop) (hi : Inj H S) (names : List RootMulti.Name)
    (hs : RootMulti.Name → List (Option Tree)) (k : Nat) (s : MStore) (g : GoodMS H S names hs k s)
    (nx : RootMulti.Name → Option Tree) (order order' : List RootMulti.Name) (ho : IsOrder names order)
    (ho' : IsOrder names order') (hstep : ∀ n ∈ names, StepOK S k (lastOf (hs n)) (nx n)) :
    ∃ s' cid ws, commitMS H order (s.applyBlock (fullBlock names nx)) = some (s', cid, ws) ∧
      ∀ j, j ≤ order.length → ∃ rec s'' ws', openMS H (crashDisk s.disk ws j) names = some rec ∧
        commitMS H order' (rec.applyBlock (fullBlock names nx)) = some (s'', cid, ws') ∧
        GoodMS H S names (fun n => hs n ++ [nx n]) (k + 1) s'' := by
  obtain ⟨s', ws, hc, hlen, g', hcrash, hfull, hci⟩ := crash_disks hH hi g nx order ho hstep
  have hl : ∀ n ∈ names, (hs n).length = k := fun n hn => by obtain ⟨_, _, _, _, h⟩ := g.tree n hn; exact h
  have hok : ∀ n ∈ names, HistOK S (hs n) := fun n hn => by obtain ⟨_, _, _, h, _⟩ := g.tree n hn; exact h
  refine ⟨s', _, ws, hc, ?_⟩
  intro j hj
  by_cases hk : 1 ≤ k
  · obtain ⟨ci, hci', hv, hopen⟩ := recover_state hH nx order j (hcrash j hj) hk hl
    obtain ⟨s'', ws', hre, g''⟩ := reexecute hH hi nx order order' ho ho' j (hcrash j hj) hk hl hok hstep ci hv
    exact ⟨_, s'', ws', hopen, hre, g''⟩
  · have hk0 : k = 0 := by omega
    subst hk0
    obtain ⟨rec, hopen, grec, _⟩ := openMS_zero hH hi (hcrash j hj)
    have hnil : ∀ n ∈ names, hs n = [] := fun n hn => List.eq_nil_of_length_eq_zero (hl n hn)
    have hstep' : ∀ n ∈ names, StepOK S (0 : Nat) (lastOf ((fun _ => ([] : List (Option Tree))) n)) (nx n) := by
      intro n hn
      have := hstep n hn
      rw [hnil n hn] at this
      exact this
    obtain ⟨s'', dbOf, hre, g'', _⟩ := commitMS_good hH hi grec nx order' ho' hstep'
    rw [nextCI_hash_order ho' ho nx 0] at hre
    refine ⟨rec, s'', _, hopen, hre, ?_⟩
    exact g''.congr (fun n hn => by simp [hnil n hn])

/-! ## Historical: the defect of the code before repo commit 2a0e88a

Before the fix `rootmulti.LoadVersion(0)` loaded every substore with the zero `CommitID` and kept what
`MutableTree.LoadVersion(0)` ("the latest version on disk") returned.  If the node died between two
substore batches of the very first commit, the substores already saved came back at version 1, holding
block-1 data, under a multistore that reported version 0; re-executing block 1 saved them as version 2
with new node versions, hence another app hash.  `openMSUnfixed` is that old recovery; the witness below
(`H = id`, collision-free) is the counterexample that made `1 ≤ k` a hypothesis of the two theorems above
before the fix.  With the fixed `openMS` the same scenario recovers (second theorem). -/

def nA : RootMulti.Name := [97]
def nB : RootMulti.Name := [98]
def disk0 : Disk := { stores := [(nA, {}), (nB, {})] }
/-- Block 1 as executed on the empty store: one new leaf of version 1 in `a`. -/
def block1 : DBlock := [(nA, some (.leaf [1] [1] 1)), (nB, none)]
/-- Block 1 as re-executed on a store whose substore `a` is at version 1 holding that leaf:
`recursiveSet` replaces the leaf by `NewNode(key, value, tree.version+1)`, i.e. version 2. -/
def block1' : DBlock := [(nA, some (.leaf [1] [1] 2)), (nB, none)]

/-- `LoadLatestVersion` of the code before 2a0e88a on a disk without any commit info. -/
def openMSUnfixed (d : Disk) (names : List RootMulti.Name) : Option MStore :=
  match names.mapM (fun n => (loadStore (d.storeDB n) 0).map fun t => (n, t)) with
  | none => none
  | some stores => some ⟨{}, stores, d.cinfos, d.latest⟩

/-- The uninterrupted first commit. -/
def first : Option (MStore × CID × List DWrite) :=
  (openMS id disk0 [nA, nB]).bind fun s => commitMS id [nA, nB] (s.applyBlock block1)

/-- **Counterexample for the unfixed recovery**: after a crash between the two substore batches of the
first commit the reopened store reports version 0 but substore `a` is at version 1 and already contains
the block's write; re-executing the block yields a commit hash different from the uninterrupted run's. -/
theorem crash_first_commit_fails_before_fix :
    (first.map fun r => (r.2.1.version, r.2.2.length)) = some (1, 3) ∧
    ((first.bind fun r => openMSUnfixed (crashDisk disk0 r.2.2 1) [nA, nB]).map fun s => s.lastCommitID) = some ⟨0, []⟩ ∧
    ((first.bind fun r => openMSUnfixed (crashDisk disk0 r.2.2 1) [nA, nB]).map fun s =>
      (aget nA s.stores).map fun t => (t.version, toListOpt t.root)) = some (some (1, [([1], [1])])) ∧
    ((first.bind fun r => openMSUnfixed (crashDisk disk0 r.2.2 1) [nA, nB]).bind fun s =>
      (commitMS id [nA, nB] (s.applyBlock block1')).map fun r => decide (r.2.1.hash = (first.map (·.2.1.hash)).getD [])) = some false := by
  decide

/-- The same crash with the fixed recovery: the store comes back empty at version 0 and re-executing
block 1 (as on an empty store) reproduces the uninterrupted commit id. -/
theorem crash_first_commit_recovers :
    ((first.bind fun r => openMS id (crashDisk disk0 r.2.2 1) [nA, nB]).map fun s => s.lastCommitID) = some ⟨0, []⟩ ∧
    ((first.bind fun r => openMS id (crashDisk disk0 r.2.2 1) [nA, nB]).map fun s =>
      (aget nA s.stores).map fun t => (t.version, toListOpt t.root)) = some (some (0, [])) ∧
    ((first.bind fun r => openMS id (crashDisk disk0 r.2.2 1) [nA, nB]).bind fun s =>
      (commitMS id [nB, nA] (s.applyBlock block1)).map fun r => decide (r.2.1 = (first.map (·.2.1)).getD {})) = some true := by
  decide

/-! ## Non-vacuity of the hypotheses: a two-substore history with different iteration orders, which
the model runs and recovers from a mid-commit crash of its second commit -/

private def lA : Tree := .leaf [1] [1] 1
private def lA2 : Tree := .leaf [1] [2] 2
private def nx1 : RootMulti.Name → Option Tree := fun n => if n = nA then some lA else none
private def nx2 : RootMulti.Name → Option Tree := fun n => if n = nA then some lA2 else none

example : GoodBlocks (fun s => s = lA ∨ s = lA2) [nA, nB] (fun _ => []) 0 [([nA, nB], nx1), ([nB, nA], nx2)] := by
  have ord1 : IsOrder [nA, nB] [nA, nB] := ⟨by decide, fun _ => Iff.rfl⟩
  have ord2 : IsOrder [nA, nB] [nB, nA] := ⟨by decide, fun n => by simp [or_comm]⟩
  refine ⟨ord1, ?_, ord2, ?_, trivial⟩
  · intro n hn
    simp only [List.mem_cons, List.mem_nil_iff, or_false] at hn
    rcases hn with rfl | rfl
    · constructor <;> simp [nx1, nA, subtreesOpt, Tree.subtrees, lA, lastOf, Tree.version, Tree.WF, isInt64]
    · constructor <;> simp [nx1, nA, nB, subtreesOpt, lastOf]
  · intro n hn
    simp only [List.mem_cons, List.mem_nil_iff, or_false] at hn
    rcases hn with rfl | rfl
    · constructor <;> simp [nx1, nx2, nA, subtreesOpt, Tree.subtrees, lA, lA2, lastOf, Tree.version, Tree.WF, isInt64]
    · constructor <;> simp [nx1, nx2, nA, nB, subtreesOpt, lastOf]

/-- The model on that history: commit 1, commit 2 interrupted after its first batch (substore `b`),
restart, re-execution in the other order — same commit id as the uninterrupted second commit. -/
example :
    (((openMS id disk0 [nA, nB]).bind fun s0 => commitMS id [nA, nB] (s0.applyBlock (fullBlock [nA, nB] nx1))).bind fun r1 =>
      (commitMS id [nB, nA] (r1.1.applyBlock (fullBlock [nA, nB] nx2))).bind fun r2 =>
        (openMS id (crashDisk r1.1.disk r2.2.2 1) [nA, nB]).bind fun rec =>
          (commitMS id [nA, nB] (rec.applyBlock (fullBlock [nA, nB] nx2))).map fun r3 =>
            (rec.lastCommitID.version, decide (r3.2.1 = r2.2.1))) = some (1, true) := by decide

end C07
