import Proofs.Store.NodeDBCrash
/-!
# C07 — A crash at any point of a commit is recoverable without divergence

Model (`PocketModel/Store/NodeDB.lean`): `rootmulti.Store.Commit` as the list of atomic DB writes
`[batch(substore σ₁), …, batch(substore σₙ), batch{s/<v+1>, s/latest}]` (`commitMS`, `DWrite`), a crash
after the `k`-th write (`crashDisk`), recovery = `LoadLatestVersion` on a fresh object (`openMS` →
`loadMS` → `loadStore` → `loadVersion`, with its quirks: `versions` filled with every root on disk,
target 0 = latest on disk), re-execution = the same block + `Commit` (`SaveVersion` with its
"version exists ∧ same hash ⇒ no-op" branch).  A single `Batch.Write` is atomic (assumed).
`H` is `tmhash.Sum` (parameter), `S`/`Inj` as in C04/C08.
-/
namespace C07
open NodeDB Amino

variable (H : Bytes → Bytes)

/-- `SaveVersion` of a version that already exists on disk with the same root hash is a no-op that
reports that hash (the branch re-execution relies on). -/
theorem idempotent_resave (t : MTree) (hv : t.versions.contains (t.version + 1) = true)
    (hr : aget (t.version + 1) t.db.roots = some (hashOpt H t.root)) :
    saveVersion H t = some ({ t with version := t.version + 1, lastSaved := t.root }, hashOpt H t.root, t.version + 1) :=
  saveVersion_idempotent t hv hr

/-- **One substore, crash during the commit of version `v+1`, `v = |hist| ≥ 1`.**  Whether the
substore's own batch had reached the disk (`db₁`, which holds `hist ++ [next]`) or not (`db₀`, which
holds `hist`), the multistore — still at version `v` — reloads it at version `v` and gets exactly the
tree committed at `v`; re-executing the block then reports the hash of the uninterrupted run and
leaves a disk on which every version reads as in the uninterrupted run. -/
theorem crash_recover_reexecute_substore (hH : HashOK H) (S : Tree → Prop) (hi : Inj H S)
    (hist : List (Option Tree)) (next : Option Tree) (hne : hist ≠ []) (db₀ db₁ : NDB)
    (g₀ : GoodDisk H S hist db₀) (g₁ : GoodDisk H S (hist ++ [next]) db₁) (hok : HistOK S hist)
    (hstep : StepOK S hist.length (lastOf hist) next) :
    ∀ db, db = db₀ ∨ db = db₁ →
      ∃ m, loadStore db hist.length = some m ∧ m.version = hist.length ∧ m.root = lastOf hist ∧
        ∃ m', saveVersion H (m.setRoot next) = some (m', hashOpt H next, (hist.length : Int) + 1) ∧
          ∀ v, getImmutable m'.db v = histAt (hist ++ [next]) v := by
  have hok1 : HistOK S (hist ++ [next]) := hok.append hstep
  intro db hdb
  rcases hdb with rfl | rfl
  · obtain ⟨r, hr, hl, hlast, gt⟩ := recover_before hH hi g₀ hok hne
    refine ⟨_, hl, rfl, hlast, ?_⟩
    have hs : StepOK S hist.length ((recovered db hist.length r).setRoot next).lastSaved ((recovered db hist.length r).setRoot next).root := by
      simp only [recovered, MTree.setRoot]; rw [hlast]; exact hstep
    obtain ⟨m', hsv, gm', _⟩ := saveVersion_good hH hi (gt.setRoot next) hok hs
    exact ⟨m', by simpa [MTree.setRoot, recovered] using hsv, fun v => getImmutable_good hH (by simpa [MTree.setRoot, recovered] using gm'.disk) hok1 v⟩
  · obtain ⟨r, hr, hlast, hl, m', hsv, hdb, _, gm'⟩ := recover_after hH hi next g₁ hok1 hne
    exact ⟨_, hl, rfl, hlast, m', hsv, fun v => getImmutable_good hH gm'.disk hok1 v⟩

/-! ## The first commit (version 0 → 1) is different

`rootmulti.LoadVersion(0)` loads every substore with the zero `CommitID`, and
`MutableTree.LoadVersion(0)` means "the latest version on disk".  If the node dies between two
substore batches of the very first commit, the substores already saved come back at version 1,
holding block-1 data, under a multistore that reports version 0; re-executing block 1 saves them as
version 2 with new node versions, hence another app hash.  Concrete witness (`H = id`, which has no
collisions at all): two substores `a`, `b`; block 1 sets one key in `a`. -/

def nA : RootMulti.Name := [97]
def nB : RootMulti.Name := [98]
def disk0 : Disk := { stores := [(nA, {}), (nB, {})] }
/-- Block 1 as executed on the empty store: one new leaf of version 1 in `a`. -/
def block1 : DBlock := [(nA, some (.leaf [1] [1] 1)), (nB, none)]
/-- Block 1 as re-executed on the recovered store whose substore `a` is at version 1 holding that
leaf: `recursiveSet` replaces the leaf by `NewNode(key, value, tree.version+1)`, i.e. version 2. -/
def block1' : DBlock := [(nA, some (.leaf [1] [1] 2)), (nB, none)]

/-- The uninterrupted first commit. -/
def first : Option (MStore × CID × List DWrite) :=
  (openMS id disk0 [nA, nB]).bind fun s => commitMS id [nA, nB] (s.applyBlock block1)

/-- Restart after the crash that follows the first atomic write of that commit. -/
def restarted : Option MStore :=
  first.bind fun r => openMS id (crashDisk disk0 r.2.2 1) [nA, nB]

/-- **Counterexample theorem**: after a crash between the two substore batches of the first commit
the reopened store reports version 0 (nothing committed) but substore `a` is at version 1 and already
contains the block's write; and re-executing the block yields a commit hash different from the
uninterrupted run's. -/
theorem crash_first_commit_fails :
    (first.map fun r => (r.2.1.version, r.2.2.length)) = some (1, 3) ∧
    (restarted.map fun s => s.lastCommitID) = some ⟨0, []⟩ ∧
    (restarted.map fun s => (aget nA s.stores).map fun t => (t.version, toListOpt t.root)) = some (some (1, [([1], [1])])) ∧
    (restarted.bind fun s => (commitMS id [nA, nB] (s.applyBlock block1')).map fun r => decide (r.2.1.hash = (first.map (·.2.1.hash)).getD [])) = some false := by
  decide

end C07
