import Proofs.Ledger.AppsC28
/-!
# C28 — Application admission limits and transfers are enforced

Model: `PocketModel/Ledger/Apps.lean` — `deliverStake` = ValidateBasic + signer admission and fee
deduction of the ante handler + `handleStake` (ValidateApplicationTransfer / TransferApplication,
ValidateApplicationStaking / StakeApplication / EditStakeApplication) as coded, modern rule set.
All statements are about an arbitrary state `s`, signer, message and fee.  "Staked count" is the
number of entries of the staked index (what `getStakedApplicationsCount` iterates); by
`staked_index_exact` (invariant over all histories) these are exactly the staked, unjailed records.
-/
namespace C28
open Apps

/-- **Admission.**  If an address that was not staked is staked after a successful `MsgStake`, then
it is the key named by the message and either the signer's own staked record was transferred to
it, or every admission limit held: amount ≥ minimum stake, number of chains ≤ maximum, funds (after
the fee) ≥ amount, and fewer than `MaxApplications` applications were staked. -/
theorem app_becomes_staked_requires (s : St) (signer : Addr) (m : MsgStake) (fee : Int) (a : Addr)
    (hok : (deliverStake s signer m fee).1 = .ok)
    (hpre : ¬ StakedAt s a) (hpost : StakedAt (deliverStake s signer m fee).2 a) :
    a = m.addr ∧
    ((∃ cur, signer ≠ a ∧ get s.apps signer = some cur ∧ cur.status = stStaked ∧ m.isTransferShaped = true
        ∧ get (deliverStake s signer m fee).2.apps signer = none)
     ∨ (s.params.minStake ≤ m.value ∧ (m.chains.length : Int) ≤ s.params.maxChains
        ∧ m.value ≤ afterFee s signer fee a ∧ (s.idx.length : Int) < s.params.maxApps)) := by
  obtain ⟨r, hr, hrs⟩ := hpost
  cases deliverStake_outcome hok with
  | transfer cur hne hcur hst hnew hshape happs hpool hidx =>
    rw [happs a] at hr
    by_cases h1 : signer = a
    · simp [h1] at hr
    · simp only [h1, if_false] at hr
      by_cases h2 : m.addr = a
      · refine ⟨h2.symm, Or.inl ⟨cur, h1, hcur, hst, hshape, ?_⟩⟩
        rw [happs signer]; simp
      · simp only [h2, if_false] at hr
        exact absurd ⟨r, hr, hrs⟩ hpre
  | edit cur s1 bump hcur hst hge hchains hb1 hb0 hs1 happs hpool =>
    rw [happs a] at hr
    by_cases h2 : m.addr = a
    · exact absurd ⟨cur, h2 ▸ hcur, hst⟩ hpre
    · simp only [h2, if_false] at hr
      exact absurd ⟨r, hr, hrs⟩ hpre
  | fresh s1 hold hmin hchains hfunds hnonneg hmax hs1 happs hpool =>
    rw [happs a] at hr
    by_cases h2 : m.addr = a
    · subst h2
      exact ⟨rfl, Or.inr ⟨hmin, hchains, hfunds, hmax⟩⟩
    · simp only [h2, if_false] at hr
      exact absurd ⟨r, hr, hrs⟩ hpre

/-- **Staked count = staked records**, on every history (with the other ledger invariants): the
staked index holds `(power, a) ↦ a` exactly for the staked, unjailed records. -/
theorem staked_index_exact (s : St) (h : LedgerInv s) (ops : List Op) : IdxOK (run s ops) :=
  (run_ledgerInv s ops h).2

/-- **Allowance derived from the stake** at the computation points: a newly staked application
gets `CalculateAppRelays(stake)` (computed on the state in which its coins are already in the
pool); an edit that raises the stake recomputes it; an edit that keeps the stake keeps the stored
allowance. -/
theorem allowance_from_stake (s : St) (signer : Addr) (m : MsgStake) (fee : Int)
    (hok : (deliverStake s signer m fee).1 = .ok) (r : App)
    (hr : get (deliverStake s signer m fee).2.apps m.addr = some r) :
    (¬ StakedAt s m.addr → signer = m.addr ∨ ¬ m.isTransferShaped = true →
        r.tokens = m.value ∧ r.maxRelays = calcRelays s.params (s.pool + m.value) s.nodeStaked s.supply m.value)
    ∧ (∀ r0, get s.apps m.addr = some r0 → r0.status = stStaked →
        (r0.tokens < m.value → r.tokens = m.value ∧
            r.maxRelays = calcRelays s.params (s.pool + (m.value - r0.tokens)) s.nodeStaked s.supply m.value)
        ∧ (r0.tokens = m.value → r.tokens = r0.tokens ∧ r.maxRelays = r0.maxRelays)) := by
  cases deliverStake_outcome hok with
  | transfer cur hne hcur hst hnew hshape happs hpool hidx =>
    refine ⟨fun _ h => ?_, fun r0 h0 => by rw [hnew] at h0; cases h0⟩
    rcases h with h | h
    · exact absurd h hne
    · exact absurd hshape h
  | edit cur s1 bump hcur hst hge hchains hb1 hb0 hs1 happs hpool =>
    rw [happs m.addr] at hr
    simp only [if_true] at hr
    cases hr
    refine ⟨fun hn => absurd ⟨cur, hcur, hst⟩ hn, fun r0 h0 _ => ?_⟩
    rw [hcur] at h0; cases h0
    cases bump with
    | true =>
      obtain ⟨hlt, hp, _⟩ := hb1 rfl
      refine ⟨fun _ => ⟨by simp [editedApp]; omega, ?_⟩, fun e => by omega⟩
      simp only [editedApp, if_true, St.relays, hs1.1, hs1.2.1, hs1.2.2, hp]
      congr 1; omega
    | false =>
      obtain ⟨he, _⟩ := hb0 rfl
      exact ⟨fun hlt => by omega, fun _ => by simp [editedApp]⟩
  | fresh s1 hold hmin hchains hfunds hnonneg hmax hs1 happs hpool =>
    rw [happs m.addr] at hr
    simp only [if_true] at hr
    cases hr
    refine ⟨fun _ _ => ⟨rfl, ?_⟩, fun r0 h0 hst0 => ?_⟩
    · simp only [freshApp, St.relays, hs1.1, hs1.2.1, hs1.2.2.1, hs1.2.2.2]
    · have := hold r0 h0; rw [hst0] at this; exact absurd this (by decide)

/-- **Transfer succeeds** when signed by the current staked application and the named key has no
record (and the signer can pay the fee): the new key holds the same record (stake, allowance,
chains, jailed flag, status) with the new public key, the old record is gone, the pool balance is
unchanged, and no index entry of the old address remains. -/
theorem transfer_ok (s : St) (hinv : IdxOK s) (signer : Addr) (m : MsgStake) (fee b : Int) (cur : App)
    (hshape : m.isTransferShaped = true) (hcur : get s.apps signer = some cur) (hst : cur.status = stStaked)
    (hnew : get s.apps m.addr = none) (hb : get s.bals signer = some b) (hfee : fee ≤ b) :
    let post := (deliverStake s signer m fee).2
    (deliverStake s signer m fee).1 = .ok
    ∧ get post.apps m.addr = some { cur with pk := m.pk }
    ∧ get post.apps signer = none
    ∧ post.pool = s.pool
    ∧ (∀ p, get post.idx (p, signer) = none)
    ∧ (∀ x, x ≠ signer → x ≠ m.addr → get post.apps x = get s.apps x) := by
  have hd := deliverStake_transfer hshape hcur hst hnew hb hfee
  have hne : signer ≠ m.addr := by intro e; rw [e, hnew] at hcur; cases hcur
  have hok : (deliverStake s signer m fee).1 = .ok := by rw [hd]
  have hIdx : IdxOK (deliverStake s signer m fee).2 := deliverStake_idxOK s signer m fee hinv
  simp only
  refine ⟨hok, ?_, ?_, ?_, ?_, ?_⟩
  · rw [hd]; simp only; rw [transfer_get]
    simp only [hne, if_false, if_true]
    show some { cur with status := stStaked, pk := m.pk } = _
    rw [← hst]
  · rw [hd]; simp only; rw [transfer_get]; simp
  · rw [hd]; simp only; rw [transfer_pool]; rfl
  · intro p
    have hnone : get (deliverStake s signer m fee).2.apps signer = none := by
      rw [hd]; simp only; rw [transfer_get]; simp
    exact idx_no_record hIdx hnone p
  · intro x h1 h2
    rw [hd]; simp only; rw [transfer_get]
    simp only [Ne.symm h1, Ne.symm h2, if_false]
    rfl

/-- **A stranger cannot transfer (or stake for) somebody else's key**: a `MsgStake` signed by a
key that is neither the key of the message nor an application is rejected by the ante handler and
changes nothing — not even a fee is charged. -/
theorem transfer_other_signer_noop (s : St) (signer : Addr) (m : MsgStake) (fee : Int)
    (hne : signer ≠ m.addr) (hno : get s.apps signer = none) :
    (deliverStake s signer m fee).1 ≠ .ok ∧ (deliverStake s signer m fee).2 = s :=
  deliverStake_stranger hne hno

theorem shape_value {m : MsgStake} (h : m.isTransferShaped = true) : m.value = 0 := by
  unfold MsgStake.isTransferShaped at h
  simp only [Bool.and_eq_true, decide_eq_true_eq] at h
  exact h.1

/-- **Only the signer's own record can move or change** (for a positive minimum stake and
positive stakes of staked records — see `foreign_app_signer_corner` for the degenerate
parameter setting): whatever the message and its outcome, the record of every address other
than the signer is untouched, except that the key named by the message, if it had no record,
may receive the signer's own staked record by a transfer. -/
theorem stake_touches_only_signer (s : St) (signer : Addr) (m : MsgStake) (fee : Int) (x : Addr) (hx : x ≠ signer)
    (hmin : 0 < s.params.minStake)
    (hpos : ∀ a r, get s.apps a = some r → r.status = stStaked → 0 < r.tokens) :
    get (deliverStake s signer m fee).2.apps x = get s.apps x
    ∨ (x = m.addr ∧ get s.apps x = none ∧ ∃ cur, get s.apps signer = some cur ∧ cur.status = stStaked
        ∧ get (deliverStake s signer m fee).2.apps x = some { cur with pk := m.pk }
        ∧ get (deliverStake s signer m fee).2.apps signer = none) := by
  by_cases hok : (deliverStake s signer m fee).1 = .ok
  · -- who signed: the named key itself, or an application with a transfer-shaped message
    have hsig : signer = m.addr ∨ m.value = 0 := by
      obtain ⟨_, s1', hante, _⟩ := deliverStake_ok hok
      obtain ⟨hsig, _⟩ := anteStake_ok hante
      rcases hsig with h | h
      · exact Or.inl h
      · exact Or.inr (shape_value (isMsgAppTransfer_shape h).1)
    cases deliverStake_outcome hok with
    | transfer cur hne hcur hst hnew hshape happs hpool hidx =>
      by_cases h2 : m.addr = x
      · refine Or.inr ⟨h2.symm, h2 ▸ hnew, cur, hcur, hst, ?_, ?_⟩
        · rw [happs x]; simp only [Ne.symm hx, h2, if_false, if_true]
          show some { cur with status := stStaked, pk := m.pk } = _
          rw [← hst]
        · rw [happs signer]; simp
      · left; rw [happs x]; simp [Ne.symm hx, h2]
    | edit cur s1 bump hcur hst hge hchains hb1 hb0 hs1 happs hpool =>
      by_cases h2 : m.addr = x
      · exfalso
        rcases hsig with h | h
        · exact hx (h2 ▸ h.symm)
        · have := hpos m.addr cur hcur hst; omega
      · left; rw [happs x]; simp [h2]
    | fresh s1 hold hmin' hchains hfunds hnonneg hmax hs1 happs hpool =>
      by_cases h2 : m.addr = x
      · exfalso
        rcases hsig with h | h
        · exact hx (h2 ▸ h.symm)
        · omega
      · left; rw [happs x]; simp [h2]
  · left; rw [(deliverStake_fail_frame hok).1]

/-- **Transfer to a key that already has a record is rejected** (same well-formedness of
parameters / stakes): the transaction fails and records, index, queue and pool are unchanged. -/
theorem transfer_to_existing_rejected (s : St) (signer : Addr) (m : MsgStake) (fee : Int) (r : App)
    (hne : signer ≠ m.addr) (hex : get s.apps m.addr = some r)
    (hmin : 0 < s.params.minStake)
    (hpos : ∀ a r, get s.apps a = some r → r.status = stStaked → 0 < r.tokens) :
    (deliverStake s signer m fee).1 ≠ .ok
    ∧ (deliverStake s signer m fee).2.apps = s.apps ∧ (deliverStake s signer m fee).2.idx = s.idx
    ∧ (deliverStake s signer m fee).2.queue = s.queue ∧ (deliverStake s signer m fee).2.pool = s.pool := by
  have hfail : (deliverStake s signer m fee).1 ≠ .ok := by
    intro hok
    have hsig : m.value = 0 := by
      obtain ⟨_, s1', hante, _⟩ := deliverStake_ok hok
      obtain ⟨hsig, _⟩ := anteStake_ok hante
      rcases hsig with h | h
      · exact absurd h hne
      · exact shape_value (isMsgAppTransfer_shape h).1
    cases deliverStake_outcome hok with
    | transfer cur _ hcur hst hnew hshape happs hpool hidx => rw [hex] at hnew; cases hnew
    | edit cur s1 bump hcur hst hge hchains hb1 hb0 hs1 happs hpool =>
      have := hpos m.addr cur hcur hst; omega
    | fresh s1 hold hmin' hchains hfunds hnonneg hmax hs1 happs hpool => omega
  exact ⟨hfail, deliverStake_fail_frame hfail⟩

/-! ### non-vacuity -/

def a1 : Addr := [1]
def a2 : Addr := [2]
def a3 : Addr := [3]
def a4 : Addr := [4]
def p0 : Params :=
  { minStake := 1000000, maxChains := 2, maxApps := 2, baseRelays := 100, stability := 0, unstakingTime := 3600, participation := false }
/-- an empty ledger with funded accounts … -/
def sE : St :=
  { apps := [], idx := [], queue := [], pool := 0, feeColl := 0, supply := 1000000000,
    nodeStaked := 0, bals := [(a1, 15010000), (a2, 50000000), (a3, 50000000), (a4, 7)], params := p0, time := 100 }
def stake1 : MsgStake := { pk := [11], addr := a1, chains := ["0001"], value := 10000000 }
def stake2 : MsgStake := { pk := [12], addr := a2, chains := ["0021"], value := 2000000 }
/-- … in which `a1` staked 10 POKT -/
def s0 : St := run sE [.stake a1 stake1 10000]

example : LedgerInv s0 := run_ledgerInv sE _ (ledgerInv_empty sE rfl rfl (by decide))
example : stakedAtB s0 a1 = true ∧ s0.pool = 10000000 ∧ s0.idx = [((10, a1), a1)] := by decide +kernel

-- a new application is admitted: amount ≥ min, 1 ≤ 2 chains, funds, 1 < 2 staked
example : (deliverStake s0 a2 stake2 10000).1 = .ok ∧ stakedAtB s0 a2 = false
    ∧ stakedAtB (deliverStake s0 a2 stake2 10000).2 a2 = true := by decide +kernel
-- its allowance is CalculateAppRelays(2 POKT) = 2
example : (get (deliverStake s0 a2 stake2 10000).2.apps a2).map (·.maxRelays) = some 2 := by decide +kernel
-- at the MaxApplications boundary the next one is refused (119); below the minimum 111; too many chains 118; no funds 112
example : (deliverStake (deliverStake s0 a2 stake2 10000).2 a3 { pk := [13], addr := a3, chains := ["0021"], value := 2000000 } 10000).1 = .app 119 := by decide +kernel
example : (deliverStake s0 a3 { pk := [13], addr := a3, chains := ["0021"], value := 999999 } 10000).1 = .app 111 := by decide +kernel
example : (deliverStake s0 a3 { pk := [13], addr := a3, chains := ["0021", "0001", "0040"], value := 2000000 } 10000).1 = .app 118 := by decide +kernel
example : (deliverStake s0 a3 { pk := [13], addr := a3, chains := ["0021"], value := 49990001 } 10000).1 = .app 112 := by decide +kernel
-- transfer a1 → a3 by a1: ok; by the stranger a2: unauthorized; to the existing a1 by the (staked) a2: rejected
example : (deliverStake s0 a1 { pk := [13], addr := a3, chains := [], value := 0 } 10000).1 = .ok
    ∧ stakedAtB (deliverStake s0 a1 { pk := [13], addr := a3, chains := [], value := 0 } 10000).2 a3 = true
    ∧ Apps.get (deliverStake s0 a1 { pk := [13], addr := a3, chains := [], value := 0 } 10000).2.apps a1 = none := by decide +kernel
example : (deliverStake s0 a2 { pk := [13], addr := a3, chains := [], value := 0 } 10000).1 = .sdk 4 := by decide +kernel
example : (deliverStake (deliverStake s0 a2 stake2 10000).2 a2 { pk := [11], addr := a1, chains := [], value := 0 } 10000).1 = .app 120 := by decide +kernel

def sCorner : St :=
  { sE with params := { p0 with minStake := 0 },
            apps := [(a1, { pk := [11], status := stUnstaking, jailed := false, tokens := 5, maxRelays := 0, chains := [], unstakingTime := 9 })] }

/-- The degenerate corner excluded by `hmin`: with a non-positive minimum stake, an application
that is *not* staked (here: unstaking) can sign a transfer-shaped message and thereby make a
foreign key staked with zero tokens. -/
theorem foreign_app_signer_corner : ∃ (s : St) (signer : Addr) (m : MsgStake) (fee : Int),
    signer ≠ m.addr ∧ stakedAtB s signer = false ∧ Apps.get s.apps m.addr = none
    ∧ (deliverStake s signer m fee).1 = .ok ∧ stakedAtB (deliverStake s signer m fee).2 m.addr = true :=
  ⟨sCorner, a1, { pk := [13], addr := a3, chains := [], value := 0 }, 10000, by decide +kernel⟩

end C28
