import Proofs.Ledger.NodesExamples
/-!
# C21 — Node lookup indexes always agree with node records

Model: `PocketModel/Ledger/Nodes.lean`; the index prefixes are `stakedIdx` (0x23, key = power ‖ address),
`chainIdx` (0x22, key = chain ‖ address), `unstQ` (0x41, completion time ↦ address slice, appended on
every `SetValidator` of an unstaking record) and `waiting` (0x43).  All statements hold after every
history from every state satisfying the invariant (`Nodes.inv_run`); the `…Sound/Complete` forms are the
decidable predicates the driver evaluates on the implementation's raw store dumps.
-/
namespace C21
open Nodes Nodes.Spec

variable (s : State) (hi : Inv s) (ops : List Op) (hops : ∀ op ∈ ops, op.isPoolSend = false)
include hi hops

/-- The staked-by-power index lists exactly the staked, unjailed nodes under their current power. -/
theorem staked_idx_exact (p : Int) (a : Addr) :
    (p, a) ∈ (run s ops).stakedIdx ↔
      ∃ v, aget (run s ops).vals a = some v ∧ v.status = .staked ∧ v.jailed = false ∧ powerOf v.tokens = p :=
  (inv_run hi ops hops).staked (p, a)

/-- … and holds no key twice. -/
theorem staked_idx_nodup : (run s ops).stakedIdx.Nodup := (inv_run hi ops hops).idxNodup

/-- The per-chain index lists exactly the staked nodes (jailed or not) under each chain they declare. -/
theorem chain_idx_exact (c : Bytes) (a : Addr) :
    (c, a) ∈ (run s ops).chainIdx ↔ ∃ v, aget (run s ops).vals a = some v ∧ v.status = .staked ∧ c ∈ v.chains :=
  (inv_run hi ops hops).chain (c, a)

/-- The unstaking queue holds, as a set, exactly the unstaking nodes under their completion time
(an address may occur several times in a slice: see C24 `dup_queue_entry_harmless`). -/
theorem unstaking_q_exact (t : Int) (a : Addr) :
    a ∈ getQ (run s ops) t ↔ ∃ v, aget (run s ops).vals a = some v ∧ v.status = .unstaking ∧ v.unstTime = t :=
  (inv_run hi ops hops).queue t a

/-- No entry of the three lookup indexes refers to a missing or differently-stated node. -/
theorem no_dangling :
    (∀ x ∈ (run s ops).stakedIdx, ∃ v, aget (run s ops).vals x.2 = some v ∧ v.status = .staked ∧ v.jailed = false) ∧
    (∀ x ∈ (run s ops).chainIdx, ∃ v, aget (run s ops).vals x.2 = some v ∧ v.status = .staked) ∧
    (∀ e ∈ (run s ops).unstQ, ∀ a ∈ e.2, ∃ v, aget (run s ops).vals a = some v ∧ v.status = .unstaking ∧ v.unstTime = e.1) := by
  have h := inv_run hi ops hops
  refine ⟨?_, ?_, ?_⟩
  · intro x hx
    obtain ⟨v, h1, h2, h3, _⟩ := (h.staked x).mp hx
    exact ⟨v, h1, h2, h3⟩
  · intro x hx
    obtain ⟨v, h1, h2, _⟩ := (h.chain x).mp hx
    exact ⟨v, h1, h2⟩
  · intro e he a ha
    have : a ∈ getQ (run s ops) e.1 := by rw [← getQ_of_mem h.qNodup he]; exact ha
    exact (h.queue e.1 a).mp this

/-- The executable checks of the driver hold on every reachable model state. -/
theorem driver_checks_hold :
    stakedIdxSound (run s ops) = true ∧ stakedIdxComplete (run s ops) = true ∧ chainIdxSound (run s ops) = true ∧
    chainIdxComplete (run s ops) = true ∧ queueSound (run s ops) = true ∧ queueComplete (run s ops) = true := by
  have h := inv_run hi ops hops
  exact ⟨h.stakedIdxSound, h.stakedIdxComplete, h.chainIdxSound, h.chainIdxComplete, h.queueSound, h.queueComplete⟩

omit hops ops in
/-- Lookup by chain (`GetValidatorsByChain`, a prefix scan): exact when all indexed network identifiers have
the length of the queried one (the usual 2 bytes). -/
theorem chain_lookup_exact_partial (c : Bytes) (hlen : ∀ e ∈ s.chainIdx, e.1.length = c.length) (a : Bytes) :
    a ∈ validatorsByChain s c ↔ ∃ v, aget s.vals a = some v ∧ v.status = .staked ∧ c ∈ v.chains := by
  unfold validatorsByChain
  simp only [List.mem_map, List.mem_filter]
  constructor
  · rintro ⟨e, ⟨he, hp⟩, rfl⟩
    have hpre : c <+: e.1 ++ e.2 := List.isPrefixOf_iff_prefix.mp hp
    have hl := hlen e he
    have hc : c = e.1 := by
      have := List.prefix_iff_eq_take.mp hpre
      rw [this, ← hl, List.take_left']
      rfl
    subst hc
    rw [List.drop_left']
    · exact (hi.chain e).mp he
    · rfl
  · rintro ⟨v, hv, hs, hc⟩
    refine ⟨(c, a), ⟨(hi.chain (c, a)).mpr ⟨v, hv, hs, hc⟩, ?_⟩, ?_⟩
    · exact List.isPrefixOf_iff_prefix.mpr (List.prefix_append _ _)
    · simp

omit hi hops

/-- … and wrong as soon as a 1-byte identifier is queried while 2-byte identifiers starting with the same byte
are indexed (`ValidateNetworkIdentifier` accepts both lengths): every node of chain `00 01` is returned for
chain `00`, as a 21-byte pseudo-address -/
theorem chain_lookup_prefix_collision :
    ∃ (s : State), Inv s ∧ ∃ x ∈ validatorsByChain s [0], aget s.vals x = none :=
  ⟨Ex.s0, Ex.inv_s0, [1, 2], by decide, by decide⟩

/-- a node with the 2-byte address `07 08` stakes for the 1-byte identifier `21` -/
def shortIdOps : List Op :=
  [.credit [7, 8] 50000000, .stake 3 ⟨[7, 8], [7, 7], [[0x21]], 20000000, [], [7, 8], []⟩ [7, 8]]

/-- The converse direction: the key `0x22 ‖ 21 ‖ 07 08` of a node staked for the 1-byte identifier `21` is also a
key under the prefix of the 2-byte identifier `21 07` (identifier ‖ first address byte).  No record declares
`21 07`, yet the lookup for it returns one entry, the 1-byte tail `08` of the address (19 bytes for real 20-byte
addresses), which names no record. -/
theorem chain_lookup_prefix_collision_converse :
    ∃ (s : State), Inv s ∧ (∀ p ∈ s.vals, [0x21, 7] ∉ p.2.chains) ∧
      validatorsByChain s [0x21, 7] = [[8]] ∧ aget s.vals [8] = none :=
  ⟨run { params := Ex.p0 } shortIdOps, inv_run (inv_empty _) _ (by decide), by decide, by decide, by decide⟩

example : Ex.s0.stakedIdx = [(25, Ex.C), (30, Ex.B), (20, Ex.A)] ∧
    Ex.s0.chainIdx = [([0, 2], Ex.C), ([0, 2], Ex.B), ([0, 1], Ex.B), ([0, 1], Ex.A)] := by decide

/-- a node is slashed below the minimum (jailed + waiting), released at the session end, slashed again while
unstaking (waiting again) and paid out before the next session end -/
def danglingOps : List Op :=
  [.credit Ex.A 50000000, .credit Ex.B 50000000, .stake 3 Ex.mA Ex.A, .stake 3 Ex.mB Ex.B, .burn Ex.A 6000000, .endBlock 4 1000,
   .burn Ex.A 1, .endBlock 5 2000]

example : getQ (run { params := Ex.p0 } (danglingOps.take 7)) 1100 = [Ex.A, Ex.A] := by decide

/-- The waiting set (0x43) is **not** kept free of dangling entries: a node forced into it while already
unstaking (slashed below the minimum, or jailed for too long) can be paid out and deleted before the next
session end; its waiting key then names no record. -/
theorem waiting_dangling_reachable :
    ∃ (s : State) (ops : List Op), Inv s ∧ (∀ op ∈ ops, op.isPoolSend = false) ∧
      ∃ a ∈ (run s ops).waiting, aget (run s ops).vals a = none :=
  ⟨{ params := Ex.p0 }, danglingOps, inv_empty _, by decide, Ex.A, by decide, by decide⟩

/-- Consequence (the early `return` of `GetWaitingValidators`): at the next session end the dangling key is
dropped and every node behind it in key order has to wait one more session. -/
theorem dangling_waiting_delays_release :
    let s1 := run { params := Ex.p0 } (danglingOps ++ [.beginUnstake Ex.B Ex.B, .endBlock 6 3000])
    let s2 := step s1 (.endBlock 8 4000)
    (∃ v, aget s1.vals Ex.B = some v ∧ v.status = .staked) ∧ Ex.B ∈ s1.waiting ∧
    (∃ v, aget s2.vals Ex.B = some v ∧ v.status = .unstaking) := by decide

end C21
