import Proofs.Crypto.Keybase
/-!
# C40 — Stored keys are recoverable only with the right passphrase

Model: `PocketModel/Crypto/Keybase.lean` (`crypto/keys/keybase.go`, `crypto/keys/mintkey`).
scrypt + AES-256-GCM are parameters: `AEAD` carries only the round-trip law; the authenticity
**assumption** (`AuthAEAD.auth`: a different key never opens a ciphertext) is a hypothesis of
exactly the theorems that need it and cannot be proved of a real cipher.  The armor text (JSON,
hex, base64) is a `Codec` with round-trip laws.

"The right passphrase" can only mean "a passphrase deriving the same key": the theorems are stated
with `kdf p' salt = kdf p salt` / `≠`.  For the KDF in the code this is *not* the same as `p' = p`
(`hmac_equivalent_passphrase_opens`, `wrong_passphrase_full_statement_fails`).
-/
namespace C40
open Keybase

/-! ### a concrete (ideal) instance for non-vacuity examples and counterexamples -/

/-- Ideal AEAD over a KDF that sees the passphrase only through `norm` (as scrypt sees it only
through HMAC's key normal form). -/
def idealAEAD (norm : Bytes → Bytes) : AuthAEAD where
  Key := Bytes × Bytes
  Ct := (Bytes × Bytes) × Bytes
  kdf p s := (norm p, s)
  enc k x := (k, x)
  dec k' c := if k' = c.1 then some c.2 else none
  law := by intro k x; simp
  auth := by
    intro k k' x h
    have : ¬ k' = k := fun e => h e.symm
    simp [this]

def idealCodec (norm : Bytes → Bytes) : Codec (idealAEAD norm).Ct where
  Text := ArmorRec (idealAEAD norm).Ct
  render r := r
  parse r := some (r, true)
  hexEnc b := b
  hexDec b := some b
  hexDecLenient b := b
  parse_render := by intro r; rfl
  hex_roundtrip := by intro b; rfl
  hex_lenient := by intro b; rfl
  hexEnc_nonempty := by intro b h; exact h

def sk1 : Bytes := List.replicate 64 7
def addr1 (sk : Bytes) : Bytes := sk.take 2

/-! ### armor -/

/-- An armored key decrypts to the identical key with the passphrase used to protect it. -/
theorem right_passphrase_returns_identical_key (A : AEAD) (C : Codec A.Ct) (sk pass salt : Bytes)
    (hint : String) (hsk : wfPriv sk) (hsalt : salt ≠ []) :
    unarmorDecrypt A.toAEADOps C.toCodecOps (encryptArmor A.toAEADOps C.toCodecOps sk pass salt hint) pass = .ok sk :=
  unarmor_encrypt A C sk pass salt hint hsk hsalt

example : unarmorDecrypt (idealAEAD id).toAEADOps (idealCodec id).toCodecOps
    (encryptArmor (idealAEAD id).toAEADOps (idealCodec id).toCodecOps sk1 [1, 2] [9] "h") [1, 2] = .ok sk1 :=
  right_passphrase_returns_identical_key _ _ _ _ _ _ (Or.inl (by simp [sk1])) (by simp)

/-- **Assuming authenticity**, a passphrase that derives a different key never returns a key: the
armor is rejected with the authentication error. -/
theorem wrong_passphrase_never_returns_key (A : AuthAEAD) (C : Codec A.Ct) (sk pass pass' salt : Bytes)
    (hint : String) (hsalt : salt ≠ []) (hk : A.kdf pass' salt ≠ A.kdf pass salt) :
    unarmorDecrypt A.toAEADOps C.toCodecOps (encryptArmor A.toAEADOps C.toCodecOps sk pass salt hint) pass' = .error .auth :=
  unarmor_encrypt_otherkey A C sk pass pass' salt hint hsalt hk

example : unarmorDecrypt (idealAEAD id).toAEADOps (idealCodec id).toCodecOps
    (encryptArmor (idealAEAD id).toAEADOps (idealCodec id).toCodecOps sk1 [1, 2] [9] "h") [1, 3] = .error .auth :=
  wrong_passphrase_never_returns_key _ _ _ _ _ _ _ (by simp) (by simp [idealAEAD])

/-- Any passphrase deriving the same key opens the armor (no authenticity needed). -/
theorem hmac_equivalent_passphrase_opens (A : AEAD) (C : Codec A.Ct) (sk pass pass' salt : Bytes)
    (hint : String) (hsk : wfPriv sk) (hsalt : salt ≠ []) (hk : A.kdf pass' salt = A.kdf pass salt) :
    unarmorDecrypt A.toAEADOps C.toCodecOps (encryptArmor A.toAEADOps C.toCodecOps sk pass salt hint) pass' = .ok sk :=
  unarmor_encrypt_samekey A C sk pass pass' salt hint hsk hsalt hk

/-- HMAC's key normal form identifies a passphrase with its zero-padded variants (and, beyond 64
bytes, with its SHA-256 digest). -/
theorem normPass_nul_padding (H : Bytes → Bytes) : normPass H [0x61, 0] = normPass H [0x61] := by
  simp [normPass, stripTrailingZeros]

theorem normPass_long_hashed (H : Bytes → Bytes) (p : Bytes) (hp : 64 < p.length) (hh : (H p).length ≤ 64) :
    normPass H (H p) = normPass H p := by
  have : ¬ (H p).length > 64 := by omega
  simp [normPass, hp, this]

/-- Hence the property as literally worded ("never returned for any *other* passphrase") is false
of every AEAD whose KDF factors through that normal form — the real scrypt does (replayed:
`a\x00` opens what `a` protects). -/
theorem wrong_passphrase_full_statement_fails (H : Bytes → Bytes) :
    ¬ ∀ (sk pass pass' salt : Bytes), pass' ≠ pass →
      unarmorDecrypt (idealAEAD (normPass H)).toAEADOps (idealCodec (normPass H)).toCodecOps
        (encryptArmor (idealAEAD (normPass H)).toAEADOps (idealCodec (normPass H)).toCodecOps sk pass salt "")
        pass' = .error .auth := by
  intro h
  have h1 := h sk1 [0x61] [0x61, 0] [9] (by simp)
  have h2 := hmac_equivalent_passphrase_opens (idealAEAD (normPass H)).toAEAD (idealCodec (normPass H))
    sk1 [0x61] [0x61, 0] [9] "" (Or.inl (by simp [sk1])) (by simp)
    (by simp [idealAEAD, normPass_nul_padding])
  rw [h2] at h1
  cases h1

/-! ### keybase = map from address to encrypted key -/

/-- Every operation of the keybase is the specified operation on the abstract map
`address ↦ encrypted key`, and keeps the representation invariant. -/
theorem keybase_refines_map_step {A : AEADOps} {C : CodecOps A.Ct} (addrOf : Bytes → Bytes)
    (kb : KB A C) (op : Op A C) (h : Inv kb) :
    abs (step addrOf kb op).1 = (specStep addrOf (abs kb) op).1 ∧
    (∀ r, (specStep addrOf (abs kb) op).2 = some r → (step addrOf kb op).2 = r) ∧
    Inv (step addrOf kb op).1 := step_refines addrOf kb op h

/-- …hence for **every sequence** of operations from the empty keybase, lookup agrees with the
abstract map… -/
theorem keybase_refines_map {A : AEADOps} {C : CodecOps A.Ct} (addrOf : Bytes → Bytes)
    (ops : List (Op A C)) :
    abs (run addrOf (KB.empty A C) ops).1 = specRun addrOf (fun _ => none) ops ∧
      Inv (run addrOf (KB.empty A C) ops).1 := by
  have e : abs (KB.empty A C) = fun _ => none := by funext a; simp [abs, KB.empty, lookup]
  have := run_refines addrOf ops (KB.empty A C) inv_empty
  rwa [e] at this

/-- …and the listing is exactly the domain of the map, each address once, in increasing order. -/
theorem listing_is_domain {A : AEADOps} {C : CodecOps A.Ct} (addrOf : Bytes → Bytes)
    (ops : List (Op A C)) :
    ∃ l, (step addrOf (run addrOf (KB.empty A C) ops).1 .list).2 = .addrs l ∧
      (∀ a, a ∈ l ↔ (specRun addrOf (fun _ => none) ops a).isSome = true) ∧ l.Pairwise (· < ·) := by
  obtain ⟨h1, h2⟩ := keybase_refines_map addrOf ops
  obtain ⟨l, e, hm, hs⟩ := list_spec addrOf _ h2
  exact ⟨l, e, fun a => by rw [hm a, h1], hs⟩

example : ((step addr1 (run addr1 (KB.empty (idealAEAD id).toAEADOps (idealCodec id).toCodecOps)
    [.importObj sk1 [1] [9]]).1 .list).2 matches .addrs [[7, 7]]) = true := by decide

/-- A created / imported key is stored under its address, protected by the given passphrase. -/
theorem imported_key_is_stored (A : AEAD) (C : Codec A.Ct) (addrOf : Bytes → Bytes)
    (kb : KB A.toAEADOps C.toCodecOps) (sk p s : Bytes) (hsk : wfPriv sk) (hs : s ≠ [])
    (hfree : lookup kb.db (addrOf sk) = none) :
    (step addrOf kb (.importObj sk p s)).2 = .addr (addrOf sk) ∧
      Stored A C addrOf (step addrOf kb (.importObj sk p s)).1 (addrOf sk) sk p s := by
  have hg : Keybase.get kb (addrOf sk) = .error .notfound := by unfold Keybase.get; rw [hfree]
  simp only [step, hg]
  exact ⟨rfl, stored_after_write kb sk p s hsk hs⟩

/-- The stored key is returned, identical, for the protecting passphrase (export as object, sign),
re-encrypted for export, and deletion with it removes exactly that address. -/
theorem right_passphrase_operates (A : AEAD) (C : Codec A.Ct) (addrOf : Bytes → Bytes)
    (kb : KB A.toAEADOps C.toCodecOps) (a sk p s : Bytes) (h : Stored A C addrOf kb a sk p s) :
    step addrOf kb (.exportObj a p) = (kb, .key sk) ∧
    step addrOf kb (.sign a p) = (kb, .key sk) ∧
    (∀ ep s', step addrOf kb (.exportArmor a p ep s') =
      (kb, .armor (encryptArmor A.toAEADOps C.toCodecOps sk ep s' "h"))) ∧
    step addrOf kb (.delete a p) = ({ kb with db := erase kb.db a }, .ok) := by
  have he := stored_exportObj h p rfl
  have hg := stored_get h
  refine ⟨by simp [step, he], by simp [step, he], fun ep s' => by simp [step, he], ?_⟩
  have hu := unarmor_encrypt A C sk p s "" h.2.2.1 h.2.2.2
  simp [step, hg, hu]

/-- **Assuming authenticity**: with a passphrase deriving another key, no operation returns the
key or a signature, nothing is exported, deleted or re-encrypted; the keybase is unchanged. -/
theorem wrong_passphrase_operates_nothing (A : AuthAEAD) (C : Codec A.Ct) (addrOf : Bytes → Bytes)
    (kb : KB A.toAEADOps C.toCodecOps) (a sk p s p' : Bytes) (h : Stored A.toAEAD C addrOf kb a sk p s)
    (hk : A.kdf p' s ≠ A.kdf p s) :
    step addrOf kb (.exportObj a p') = (kb, .err .auth) ∧
    step addrOf kb (.sign a p') = (kb, .err .auth) ∧
    (∀ ep s', step addrOf kb (.exportArmor a p' ep s') = (kb, .err .auth)) ∧
    step addrOf kb (.delete a p') = (kb, .err .auth) ∧
    (∀ np s', step addrOf kb (.update a p' np s') = (kb, .err .auth)) := by
  have he := stored_exportObj_otherkey A C h p' hk
  have hg := stored_get h
  have hu := unarmor_encrypt_otherkey A C sk p p' s "" h.2.2.2 hk
  refine ⟨by simp [step, he], by simp [step, he], fun ep s' => by simp [step, he], ?_, fun np s' => ?_⟩
  · simp [step, hg, hu]
  · simp [step, hg, hu]

/-- A deleted key is gone: not retrievable, not listed. -/
theorem deleted_key_gone {A : AEADOps} {C : CodecOps A.Ct} (addrOf : Bytes → Bytes) (kb : KB A C)
    (a p : Bytes) (h : Inv kb) (hok : (step addrOf kb (.delete a p)).2 = .ok) :
    (step addrOf (step addrOf kb (.delete a p)).1 (.get a)).2 = .err .notfound ∧
    ∀ l, (step addrOf (step addrOf kb (.delete a p)).1 .list).2 = .addrs l → a ∉ l := by
  obtain ⟨h1, _, h3⟩ := step_refines addrOf kb (.delete a p) h
  -- the abstract map after a successful delete has no entry at `a`
  have habs : abs (step addrOf kb (.delete a p)).1 a = none := by
    rw [h1]
    simp only [specStep]
    cases hf : abs kb a with
    | none => simp [hf]
    | some e =>
      simp only
      cases hu : unarmorDecrypt A C e.armor p with
      | error er =>
        exfalso
        have hg : Keybase.get kb a = .ok e := by rw [get_eq, hf]
        simp [step, hg, hu] at hok
      | ok sk => simp [AMap.del]
  generalize (step addrOf kb (.delete a p)).1 = kb' at habs h3 ⊢
  constructor
  · have hg : Keybase.get kb' a = .error .notfound := by rw [get_eq, habs]
    simp only [step, hg]
  · intro l hl
    obtain ⟨l', e, hm, _⟩ := list_spec addrOf _ h3
    rw [hl] at e
    cases e
    intro hmem
    have := (hm a).mp hmem
    rw [habs] at this
    cases this

/-- Export from one keybase, import into another: the identical key arrives, now protected by the
import passphrase. -/
theorem export_import_roundtrip (A : AEAD) (C : Codec A.Ct) (addrOf : Bytes → Bytes)
    (kb1 kb2 : KB A.toAEADOps C.toCodecOps) (a sk p s ep np s1 s2 : Bytes)
    (h : Stored A C addrOf kb1 a sk p s) (hs1 : s1 ≠ []) (hs2 : s2 ≠ [])
    (hfree : lookup kb2.db a = none) :
    ∃ t, (step addrOf kb1 (.exportArmor a p ep s1)).2 = .armor t ∧
      (step addrOf kb2 (.importArmor t ep np s2)).2 = .addr a ∧
      Stored A C addrOf (step addrOf kb2 (.importArmor t ep np s2)).1 a sk np s2 ∧
      (step addrOf (step addrOf kb2 (.importArmor t ep np s2)).1 (.exportObj a np)).2 = .key sk := by
  refine ⟨encryptArmor A.toAEADOps C.toCodecOps sk ep s1 "h", ?_, ?_⟩
  · rw [((right_passphrase_operates A C addrOf kb1 a sk p s h).2.2.1 ep s1)]
  · have hu := unarmor_encrypt A C sk ep s1 "h" h.2.2.1 hs1
    have ha : addrOf sk = a := h.2.1
    have hg : Keybase.get kb2 (addrOf sk) = .error .notfound := by unfold Keybase.get; rw [ha, hfree]
    have hst : Stored A C addrOf (writeLocal addrOf kb2 sk np s2).1 a sk np s2 := by
      have := stored_after_write (addrOf := addrOf) kb2 sk np s2 h.2.2.1 hs2
      rwa [ha] at this
    simp only [step, hu, hg]
    refine ⟨by simp [writeLocal, ha], hst, ?_⟩
    have := (right_passphrase_operates A C addrOf _ a sk np s2 hst).1
    simp only [step] at this
    rw [this]

/-! ### the coinbase cache follows the map -/

/-- `GetCoinbase` returns only keys that are present: a cached key is re-read from the DB (so a
deleted one is forgotten and a re-encrypted one refreshed), otherwise the first listed key is
taken — whatever was cached before. -/
theorem coinbase_is_present {A : AEADOps} {C : CodecOps A.Ct} (addrOf : Bytes → Bytes)
    (kb : KB A C) (h : Inv kb) (a : Bytes)
    (hr : (step addrOf kb .getCoinbase).2 = .addr a) : (abs kb a).isSome = true := by
  simp only [step] at hr
  split at hr
  · rename_i e he
    -- cached and still stored
    cases hc : kb.coinbase with
    | none => simp [hc] at he
    | some c =>
      simp only [hc] at he
      cases hg : Keybase.get kb c.addr with
      | error er => simp [hg] at he
      | ok e' =>
        simp only [hg, Option.some.injEq] at he
        subst he
        have hl : lookup kb.db c.addr = some e' := by
          unfold Keybase.get at hg
          cases hlk : lookup kb.db c.addr with
          | none => simp [hlk] at hg
          | some x => simp [hlk] at hg; rw [hg]
        have hea : e'.addr = c.addr := h.2 _ _ hl
        cases hr
        simp [abs, hea, hl]
  · cases hd : kb.db with
    | nil => simp [hd] at hr
    | cons kv rest =>
      obtain ⟨k, v⟩ := kv
      simp only [hd] at hr
      have hl : lookup kb.db k = some v := by simp [hd, lookup]
      have : v.addr = k := h.2 k v hl
      cases hr
      simp [abs, this, hl]

/-- After import, `SetCoinbase`, `Delete` (with the passphrase) the coinbase is gone together with
the key: `Get` does not find it and `GetCoinbase` reports an empty keybase. -/
theorem coinbase_forgets_deleted_key :
    let A := (idealAEAD id).toAEADOps
    let C := (idealCodec id).toCodecOps
    let r := run addr1 (KB.empty A C)
      [.importObj sk1 [1] [9], .setCoinbase [7, 7], .getCoinbase, .delete [7, 7] [1], .get [7, 7], .getCoinbase]
    (r.2.map fun x => match x with
      | .ok => "ok" | .addr _ => "addr" | .err .notfound => "notfound" | .err .empty => "empty" | _ => "other")
      = ["addr", "ok", "addr", "ok", "notfound", "empty"] := by
  decide

end C40
