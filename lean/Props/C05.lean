import PocketModel.Store.IavlProof
/-!
# C05 — Existence and absence proofs are sound and complete
-/
namespace C05
open IavlProof

/-- `cpIncr` of an all-0xFF key sorts below the key: `getRangeProof` panics for it. -/
theorem cpIncr_ff_wraps : cpIncr [0xff] = [0, 0] ∧ cpIncr [0xff] < [0xff] := by decide

end C05
