import Proofs.Store.IavlProofBetween
/-!
# C05 — Existence and absence proofs are sound and complete

Model: `PocketModel/Store/IavlProof.lean` — prover (`pathToLeaf`, `getRangeProof` with its traversal
callback, `GetWithProof`, the `prove=true` branch of `Store.Query`), verifier (`COMPUTEHASH`,
`VerifyItem`, `VerifyAbsence`, `ValueOp.Run`, `AbsenceOp.Run`), `MultiStoreProofOp.Run` and
`CommitInfo.Hash`, all parametric in the hash function `H` and the hashed byte layout `enc`.
`Fixes` selects the code as it is (`Fixes.none`) or with the repairs of `/verif/fixes/C05-*.patch`.

Assumptions, always explicit: `EncInj enc` / `KVInj encKV` (the amino layouts determine their fields),
`HNonEmpty H` and `HLen H` (hash outputs are non-empty and of one length); hash collisions are a
disjunct of every soundness statement, carrying the two colliding preimages.

What is *not* proved: completeness for an absent key between two stored keys on the *unrepaired*
prover, and — on the repaired one — in the corner where the successor is exactly `predecessor ‖ 0x00`
(there the traversal callback compares path nodes with tree nodes by hash, so the statement needs
collision-freeness); both are covered by the differential tie.
-/
namespace C05
open IavlProof

variable (H : Bytes → Bytes) (enc : Int → Int → Int → Bytes → Bytes → Bytes) (encKV : Bytes → Bytes → Bytes)

/-! ## Completeness -/

/-- **value_complete.** For a stored key the prover returns its value with a proof that `ValueOp`
accepts and that yields the tree's root hash.  (As is, `key < nextKey key` fails exactly for keys made
of 0xFF bytes; with the successor-key repair it always holds: `value_complete_fixed`.) -/
theorem value_complete (fx : Fixes) (hne : HNonEmpty H) (t : Tree) (hw : WF t) (k v : Bytes)
    (hf : t.find k = some v) (hk : k < nextKey fx k) :
    ∃ p, queryProof H enc fx (some t) k = some (some v, some p) ∧
      valueOpRun H enc fx (some p) k [v] = .ok [Tree.hash H enc t] :=
  value_complete' H enc fx hne t hw k v hf hk

theorem value_complete_fixed (fx : Fixes) (hfx : fx.succKey = true) (hne : HNonEmpty H) (t : Tree) (hw : WF t)
    (k v : Bytes) (hf : t.find k = some v) :
    ∃ p, queryProof H enc fx (some t) k = some (some v, some p) ∧
      valueOpRun H enc fx (some p) k [v] = .ok [Tree.hash H enc t] :=
  value_complete' H enc fx hne t hw k v hf (by simp [nextKey, hfx, lt_succ])

example : WF (t2 [1] [2]) ∧ (t2 [1] [2]).find kb = some [2] ∧ kb < nextKey Fixes.none kb :=
  ⟨wf_t2 _ _, by decide, by decide⟩

/-- **absence_complete**, key below the first leaf. -/
theorem absence_complete_below (fx : Fixes) (hne : HNonEmpty H) (t : Tree) (hw : WF t) (key : Bytes)
    (hb : ∀ e ∈ t.leaves, key < e.1) (hk : key < nextKey fx key)
    (hstop : nextKey fx key ≤ nextKey fx t.first.1) :
    ∃ p, queryProof H enc fx (some t) key = some (none, some p) ∧
      absenceOpRun H enc fx (some p) key [] = .ok [Tree.hash H enc t] :=
  absence_complete_below' H enc fx hne t hw key hb hk hstop

/-- **absence_complete**, key above the last leaf. -/
theorem absence_complete_above (fx : Fixes) (hne : HNonEmpty H) (t : Tree) (hw : WF t) (key : Bytes)
    (ha : ∀ e ∈ t.leaves, e.1 < key) (hk : key < nextKey fx key) (hl : t.last.1 < nextKey fx t.last.1) :
    ∃ p, queryProof H enc fx (some t) key = some (none, some p) ∧
      absenceOpRun H enc fx (some p) key [] = .ok [Tree.hash H enc t] :=
  absence_complete_above' H enc fx hne t hw key ha hk hl

/-- with the successor-key repair the side conditions of both cases always hold -/
theorem absence_complete_fixed (fx : Fixes) (hfx : fx.succKey = true) (hne : HNonEmpty H) (t : Tree) (hw : WF t)
    (key : Bytes) (h : (∀ e ∈ t.leaves, key < e.1) ∨ (∀ e ∈ t.leaves, e.1 < key)) :
    ∃ p, queryProof H enc fx (some t) key = some (none, some p) ∧
      absenceOpRun H enc fx (some p) key [] = .ok [Tree.hash H enc t] := by
  have hn : ∀ k, nextKey fx k = k ++ [0] := fun k => by simp [nextKey, hfx]
  rcases h with hb | ha
  · refine absence_complete_below' H enc fx hne t hw key hb (by rw [hn]; exact lt_succ key) ?_
    rw [hn, hn]
    exact Bytes.le_of_lt (Bytes.lt_of_le_of_lt (succ_le_of_lt _ _ (hb _ (first_mem t))) (lt_succ _))
  · exact absence_complete_above' H enc fx hne t hw key ha (by rw [hn]; exact lt_succ key) (by rw [hn]; exact lt_succ _)

/-- **absence_complete**, key strictly between two stored keys (repaired prover): the prover returns
the two-leaf proof (predecessor with its path, successor with the left spine of the sibling subtree) and
`AbsenceOp` accepts it.  `Exact`: routing keys are the smallest key of the right subtree (as IAVL keeps
them); `hgap` excludes the corner `successor = predecessor ‖ 0x00`. -/
theorem absence_complete_between (fx : Fixes) (hfx : fx.succKey = true) (hne : HNonEmpty H)
    (t : Tree) (hw : WF t) (hx : Exact t) (key : Bytes)
    (habs : ∀ e ∈ t.leaves, e.1 ≠ key) (hlo : ∃ e ∈ t.leaves, e.1 < key) (hhi : ∃ e ∈ t.leaves, key < e.1)
    (hgap : ∀ e ∈ t.leaves, ∀ e' ∈ t.leaves, e'.1 ≠ e.1 ++ [0]) :
    ∃ pr, queryProof H enc fx (some t) key = some (none, some pr) ∧
      absenceOpRun H enc fx (some pr) key [] = .ok [Tree.hash H enc t] :=
  absence_complete_between' H enc fx hfx hne t hw hx key habs hlo hhi hgap

example : Exact (t4 [1] [2] [3]) :=
  Exact.inner _ _ _ _ _ _ rfl (Exact.leaf _ _ _) (Exact.inner _ _ _ _ _ _ rfl (Exact.leaf _ _ _) (Exact.leaf _ _ _))

example : (∀ e ∈ (t2 [1] [2]).leaves, e.1 < kc) := by
  intro e he; simp [t2, Tree.leaves] at he; rcases he with rfl | rfl
  · show ka < kc; decide
  · show kb < kc; decide

/-- **Completeness fails on the code as it is** (1): the honest absence proof for `aa` in `{a, ab}` is
rejected by the verifier. -/
theorem absence_incomplete (hne : HNonEmpty H) (v1 v2 : Bytes) :
    ∃ p, queryProof H enc Fixes.none (some (tp v1 v2)) [0x61, 0x61] = some (none, some p) ∧
      (∃ e, absenceOpRun H enc Fixes.none (some p) [0x61, 0x61] [] = .error e) ∧
      (∀ e ∈ (tp v1 v2).leaves, e.1 ≠ [0x61, 0x61]) :=
  absence_incomplete_asis H (enc := enc) hne v1 v2

/-- **Completeness fails on the code as it is** (2): the query panics for a key of 0xFF bytes. -/
theorem query_panics_on_ff_key (t : Option Tree) : queryProof H enc Fixes.none t [0xff] = none :=
  query_panics_ff H (enc := enc) t

/-! ## Soundness of the strict verifier (repair `strictNodes`) -/

/-- **value_sound.** An existence proof accepted against the root hash of a well-formed tree states a
pair the tree stores — or two colliding hash preimages are exhibited.  All proofs `p`, no size bound. -/
theorem value_sound (hinj : EncInj enc) (hne : HNonEmpty H) (fx : Fixes) (hfx : fx.strictNodes = true)
    (p : RangeProof) (t : Tree) (hw : WF t) (key value : Bytes)
    (h : valueOpRun H enc fx (some p) key [value] = .ok [Tree.hash H enc t]) :
    (∃ ver, (key, value, ver) ∈ t.leaves) ∨ ∃ x y, x ≠ y ∧ H x = H y :=
  value_sound' H enc hinj hne fx hfx p t hw key value h

/-- **absence_sound.** An absence proof accepted against the root hash of a well-formed tree is about
a key the tree does not store — or a collision. -/
theorem absence_sound (hinj : EncInj enc) (hne : HNonEmpty H) (fx : Fixes) (hfx : fx.strictNodes = true)
    (p : RangeProof) (t : Tree) (hw : WF t) (key : Bytes)
    (h : absenceOpRun H enc fx (some p) key [] = .ok [Tree.hash H enc t]) :
    (∀ e ∈ t.leaves, e.1 ≠ key) ∨ ∃ x y, x ≠ y ∧ H x = H y :=
  absence_sound' H enc hinj hne fx hfx p t hw key h

/-- the hypotheses are satisfiable: an injective layout exists, and the theorem applies to the honest proof -/
example : EncInj encToy ∧ KVInj encKVToy := ⟨encToy_inj, encKVToy_inj⟩
example (H : Bytes → Bytes) (hne : HNonEmpty H) :
    ∃ p, valueOpRun H encToy Fixes.all (some p) kb [[2]] = .ok [Tree.hash H encToy (t2 [1] [2])] := by
  obtain ⟨p, _, h⟩ := value_complete' H encToy Fixes.all hne (t2 [1] [2]) (wf_t2 _ _) kb [2] (by decide) (by decide)
  exact ⟨p, h⟩

/-- The underlying structural fact: a proof whose recomputed root is the tree's root hash lists a
contiguous run of the tree's leaves. -/
theorem range_proof_sound (hinj : EncInj enc) (hne : HNonEmpty H) (fx : Fixes) (hfx : fx.strictNodes = true)
    (p : RangeProof) (t : Tree) (hw : WF t) (te : Bool)
    (h : computeRootHash H enc fx p = .ok (Tree.hash H enc t, te)) :
    Collision H ∨ ∃ pre post, pl H t = pre ++ p.leaves ++ post ∧
      (isLeftmost p.leftPath = true → pre = []) ∧
      (isRightmost p.leftPath = true → post = [] ∧ p.leaves.length = 1) ∧ (te = true → post = []) :=
  range_sound H enc hinj hne fx hfx p t hw te h

/-! ## The code as it is: forgeries -/

/-- **value_sound fails as is**: for every hash function without collisions an accepted existence
proof states a pair the tree does not store (inner node with both child hashes + an extra leaf). -/
theorem value_sound_fails (hne : HNonEmpty H) (hnc : ¬ ∃ x y, x ≠ y ∧ H x = H y) :
    ¬ ∀ (p : RangeProof) (t : Tree) (key value : Bytes), WF t →
        valueOpRun H enc Fixes.none (some p) key [value] = .ok [Tree.hash H enc t] →
        (∃ ver, (key, value, ver) ∈ t.leaves) ∨ ∃ x y, x ≠ y ∧ H x = H y := by
  intro hall
  obtain ⟨h1, h2⟩ := value_forged_bothset H (enc := enc) hne [1] [2] [3]
  rcases hall _ _ _ _ (wf_t2 _ _) h1 with ⟨ver, hm⟩ | c
  · exact h2 _ hm rfl
  · exact hnc c

/-- **absence_sound fails as is** (both child hashes): a stored key is proved absent. -/
theorem absence_forged_both_hashes (hne : HNonEmpty H) (va vb vc vf : Bytes) :
    absenceOpRun H enc Fixes.none
      (some ⟨[⟨2, 3, 1, [], Tree.hash H enc (.leaf kc vc 1)⟩,
              ⟨1, 2, 1, Tree.hash H enc (.leaf ka va 1), PLeaf.hash H enc ⟨kd, H vf, 1⟩⟩], [[]],
             [⟨kb, H vb, 1⟩, ⟨kd, H vf, 1⟩]⟩) kc []
      = .ok [Tree.hash H enc (t3 va vb vc)] ∧ (kc, vc, 1) ∈ (t3 va vb vc).leaves :=
  absence_forged_bothset H (enc := enc) hne va vb vc vf

/-- **absence_sound fails as is** (inner path not leftmost): the stored key `b` is skipped. -/
theorem absence_forged_inner_not_leftmost (hne : HNonEmpty H) (va vb vc : Bytes) :
    absenceOpRun H enc Fixes.none
      (some ⟨[⟨2, 3, 1, [], Tree.hash H enc (.inner 1 2 1 kc (.leaf kb vb 1) (.leaf kc vc 1))⟩],
             [[⟨1, 2, 1, Tree.hash H enc (.leaf kb vb 1), []⟩]],
             [⟨ka, H va, 1⟩, ⟨kc, H vc, 1⟩]⟩) kb []
      = .ok [Tree.hash H enc (t4 va vb vc)] ∧ (kb, vb, 1) ∈ (t4 va vb vc).leaves :=
  absence_forged_not_leftmost H (enc := enc) hne va vb vc

/-- **value_sound fails as is** (leaf presented as inner node): a stored value that is the hash
preimage of a leaf lets that leaf be "proved". -/
theorem value_forged_leaf_presented_as_inner (hne : HNonEmpty H) (vf : Bytes) :
    valueOpRun H enc Fixes.none (some ⟨[⟨0, 1, 1, ka, []⟩], [], [⟨kc, H vf, 1⟩]⟩) kc [vf]
      = .ok [Tree.hash H enc (.leaf ka (enc 0 1 1 kc (H vf)) 1)] :=
  value_forged_leaf_as_inner H (enc := enc) hne vf

/-- the strict verifier rejects the three forged proofs above -/
theorem forgeries_rejected_by_strict_verifier (hne : HNonEmpty H) (fx : Fixes) (hfx : fx.strictNodes = true)
    (va vb vc vf : Bytes) :
    (∃ e, valueOpRun H enc fx
      (some ⟨[⟨1, 2, 1, Tree.hash H enc (.leaf ka va 1), PLeaf.hash H enc ⟨kc, H vf, 1⟩⟩], [[]],
             [⟨kb, H vb, 1⟩, ⟨kc, H vf, 1⟩]⟩) kc [vf] = .error e) ∧
    (∃ e, absenceOpRun H enc fx
      (some ⟨[⟨2, 3, 1, [], Tree.hash H enc (.inner 1 2 1 kc (.leaf kb vb 1) (.leaf kc vc 1))⟩],
             [[⟨1, 2, 1, Tree.hash H enc (.leaf kb vb 1), []⟩]],
             [⟨ka, H va, 1⟩, ⟨kc, H vc, 1⟩]⟩) kb [] = .error e) ∧
    (∃ e, valueOpRun H enc fx (some ⟨[⟨0, 1, 1, ka, []⟩], [], [⟨kc, H vf, 1⟩]⟩) kc [vf] = .error e) :=
  forgeries_rejected_strict H (enc := enc) hne fx hfx va vb vc vf

/-! ## Multistore -/

/-- **multistore_sound.** If the proof names every store at most once (`NoDupNames`) — or the repaired
`Run` rejects duplicates — an accepted `(name, value)` against the hash of the committed `StoreInfo`s
is the committed root of that store, or a collision is exhibited. -/
theorem multistore_sound (hne : HNonEmpty H) (hlen : HLen H) (hkv : KVInj encKV) (fx : Fixes)
    (proofInfos real : List StoreInfo) (name value : Bytes)
    (hnd : fx.dupNames = true ∨ (proofInfos.map (·.name)).Nodup)
    (h : multiStoreRun H encKV fx proofInfos name [value] = .ok [commitHash H encKV real]) :
    (∃ si ∈ real, si.name = name ∧ si.hash = value) ∨ ∃ x y, x ≠ y ∧ H x = H y :=
  multistore_sound' H encKV hne hlen hkv fx proofInfos real name value hnd h

/-- **multistore_dup_forges** (as is): two `StoreInfo`s with one name — `Run` checks the first, the
hash keeps the last — prove any value under the honest root, for every hash function. -/
theorem multistore_dup_forges (name real forged : Bytes) (ver : Int) :
    multiStoreRun H encKV Fixes.none [⟨name, ver, forged⟩, ⟨name, ver, real⟩] name [forged]
      = .ok [commitHash H encKV [⟨name, ver, real⟩]] :=
  multistore_dup_forges' H encKV name real forged ver

/-- with the repair the same op is rejected -/
theorem multistore_dup_rejected (fx : Fixes) (hfx : fx.dupNames = true) (name real forged : Bytes) (ver : Int) :
    multiStoreRun H encKV fx [⟨name, ver, forged⟩, ⟨name, ver, real⟩] name [forged] = .error .invalidProof := by
  simp [multiStoreRun, hfx]

/-! ## End to end: `ProofRuntime.VerifyValue` / `VerifyAbsence` against the app hash -/

/-- **End-to-end soundness** (strict verifier, duplicate names rejected): a value proof
`[ValueOp, MultiStoreProofOp]` accepted against the app hash of a commit in which store `name` has the
tree `t` states a pair stored in `t`, or a hash collision is exhibited. -/
theorem verify_value_sound (hinj : EncInj enc) (hne : HNonEmpty H) (hlen : HLen H) (hkv : KVInj encKV)
    (fx : Fixes) (hs : fx.strictNodes = true) (hd : fx.dupNames = true)
    (p : Option RangeProof) (infos real : List StoreInfo) (name key value : Bytes) (hk0 : key ≠ []) (hn0 : name ≠ [])
    (t : Tree) (hw : WF t) (hreal : ∀ si ∈ real, si.name = name → si.hash = Tree.hash H enc t)
    (h : verify H enc encKV fx [.value key p, .multi name infos] (commitHash H encKV real) [name, key] [value] = some true) :
    (∃ ver, (key, value, ver) ∈ t.leaves) ∨ ∃ x y, x ≠ y ∧ H x = H y :=
  verify_value_sound' H enc encKV hinj hne hlen hkv fx hs hd p infos real name key value hk0 hn0 t hw hreal h

theorem verify_absence_sound (hinj : EncInj enc) (hne : HNonEmpty H) (hlen : HLen H) (hkv : KVInj encKV)
    (fx : Fixes) (hs : fx.strictNodes = true) (hd : fx.dupNames = true)
    (p : RangeProof) (infos real : List StoreInfo) (name key : Bytes) (hk0 : key ≠ []) (hn0 : name ≠ [])
    (t : Tree) (hw : WF t) (hreal : ∀ si ∈ real, si.name = name → si.hash = Tree.hash H enc t)
    (h : verify H enc encKV fx [.absence key (some p), .multi name infos] (commitHash H encKV real) [name, key] [] = some true) :
    (∀ e ∈ t.leaves, e.1 ≠ key) ∨ ∃ x y, x ≠ y ∧ H x = H y :=
  verify_absence_sound' H enc encKV hinj hne hlen hkv fx hs hd p infos real name key hk0 hn0 t hw hreal h

end C05
