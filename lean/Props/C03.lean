import Proofs.Store.IavlVersions
/-!
# C03 — Versioned Merkle tree is a correct ordered map at every version

Model: `PocketModel/Store/Iavl.lean` (store/iavl/node.go, mutable_tree.go, immutable_tree.go, hashes
dropped).  Spec: `PocketModel/Store/IavlSpec.lean` — `KVs` (strictly ascending association list)
and `Spec` (one map for the working tree, one per retained saved version).

`toList` is the abstraction function (leaves left to right).  `Inv` is the structural invariant:
search-tree order, every inner key = least key of its right subtree, AVL balance on the stored
heights, stored sizes and heights correct.
-/
namespace C03
open Iavl Iavl.Node Iavl.KVs

/-! ## Writes keep the invariant and are map updates -/

/-- `recursiveSet` preserves the invariant (all tie-breaks of `balance`, the `updated` early return). -/
theorem set_inv (version : Nat) (t : Node) (key value : Bytes) (h : t.Inv) :
    (recursiveSet version t key value).1.Inv := Node.set_inv version t key value h

/-- `recursiveSet` is map update on the abstraction. -/
theorem toList_set (version : Nat) (t : Node) (key value : Bytes) (h : t.Inv) :
    toList (recursiveSet version t key value).1 = KVs.insert key value (toList t) :=
  (recursiveSet_ord_toList version t key value h.ord).2

/-- `Set` reports `updated` exactly when the key was already present. -/
theorem set_updated (version : Nat) (t : Node) (key value : Bytes) (h : t.Inv) :
    (recursiveSet version t key value).2 = contains key (toList t) :=
  recursiveSet_updated version t key value h.ord

/-- The map update of the specification is ordinary insertion into a sorted list, and keeps it
sorted (so `toList` of every reachable tree is strictly ascending). -/
theorem spec_insert_sorted (k v : Bytes) (m : KVs) (h : Sorted m) :
    KVs.insert k v m = insertRec k v m ∧ Sorted (KVs.insert k v m) :=
  ⟨insert_eq_insertRec k v m h, insert_sorted h⟩

/-- The contents of a tree satisfying the invariant are strictly ascending. -/
theorem toList_sorted (t : Node) (h : t.Inv) : Sorted (toList t) := h.ord.sorted

/-- `recursiveRemove` preserves the invariant for whatever subtree it hands back. -/
theorem remove_inv (version : Nat) (t : Node) (key : Bytes) (h : t.Inv) (t' : Node)
    (ht' : (recursiveRemove version t key).node = some t') : t'.Inv :=
  Node.remove_inv version t key h t' ht'

/-- `recursiveRemove` is map deletion on the abstraction; it returns the removed value, says
whether it removed something, returns "no node" only for a matching single leaf, and its `newKey`
result is exactly the new least key when that changed. -/
theorem toList_remove (version : Nat) (t : Node) (key : Bytes) (h : t.Inv) :
    (recursiveRemove version t key).value = lookup key (toList t) ∧
    (recursiveRemove version t key).removed = contains key (toList t) ∧
    ((recursiveRemove version t key).node = none → ∃ v ver, t = leaf key v ver) ∧
    (∀ t', (recursiveRemove version t key).node = some t' →
      toList t' = KVs.erase key (toList t) ∧
      minKey t' = ((recursiveRemove version t key).newKey).getD (minKey t)) := by
  obtain ⟨hv, hrem, hno, hyes⟩ := recursiveRemove_spec version t key h.ord
  refine ⟨hv, hrem, recursiveRemove_node_none, ?_⟩
  intro t' ht'
  cases hrm : (recursiveRemove version t key).removed with
  | true => exact (hyes hrm t' ht').2
  | false =>
    obtain ⟨hn, hk⟩ := hno hrm
    rw [ht'] at hn
    injection hn with e
    subst e
    rw [hk]
    have hc : contains key (toList t') = false := by rw [← hrem, hrm]
    exact ⟨(erase_of_absent (contains_false_absent hc)).symm, rfl⟩

/-- Removing an absent key changes nothing: the very same tree (not merely the same contents) is
kept, no value is returned and `removed` is false. -/
theorem remove_absent_noop (t : Tree) (key : Bytes) (h : RootInv t.root)
    (habs : contains key (contents t.root) = false) : t.remove key = (t, none, false) := by
  obtain ⟨root, version, lastSaved, versions⟩ := t
  cases root with
  | none => rfl
  | some n =>
    have hrem := (recursiveRemove_spec (version + 1) n key (Node.Inv.ord h)).2.1
    simp only [contents] at habs
    simp [Tree.remove, hrem, habs]

/-- `balance` after `calcHeightAndSize` re-establishes the invariant for any node whose children
satisfy it, are correctly ordered around its key, and differ in height by at most two. -/
theorem balance_inv (version : Nat) (k : Bytes) (h s : Nat) (l r : Node) (ver : Nat)
    (hl : l.Inv) (hr : r.Inv) (hlt : ∀ p ∈ toList l, p.1 < k) (hk : k = minKey r)
    (h1 : l.height ≤ r.height + 2) (h2 : r.height ≤ l.height + 2) :
    (balance version (calcHeightAndSize (inner k h s l r ver))).Inv ∧
    toList (balance version (calcHeightAndSize (inner k h s l r ver))) = toList l ++ toList r := by
  refine ⟨(inv_iff _).mpr ⟨Ord_balance _ (Ord_calcHS.mpr ⟨hl.ord, hr.ord, hlt, hk⟩), ?_⟩, ?_⟩
  · exact (balance_shape version k h s l r ver hl.shape hr.shape h1 h2).1
  · simp [toList, calcHeightAndSize]

/-! ## Reads return what the map returns -/

/-- `Get`: the value is the map lookup and the index is the number of keys below the key — also
for absent keys. -/
theorem get_spec (t : Node) (key : Bytes) (h : t.Inv) :
    get t key = (rank key (toList t), lookup key (toList t)) := Node.get_spec t key h.ord h.shape

/-- `Has` is key membership (needs "inner key = least key of the right subtree"). -/
theorem has_spec (t : Node) (key : Bytes) (h : t.Inv) : has t key = contains key (toList t) :=
  Node.has_spec t key h.ord

/-- `GetByIndex` is positional access; out-of-range and negative indices give nothing. -/
theorem getByIndex_spec (t : Node) (i : Int) (h : t.Inv) : getByIndex t i = atIndex (toList t) i :=
  Node.getByIndex_spec t i h.shape

/-- `IterateRange`/`IterateRangeInclusive`: the visited leaves are exactly the entries in range, in
the requested direction, for arbitrary optional bounds and both inclusive flags. -/
theorem traverse_spec (t : Node) (s e : Option Bytes) (asc incl : Bool) (h : t.Inv) :
    traverseInRange s e asc incl t = range s e asc incl (toList t) :=
  Node.traverse_spec t s e asc incl h.ord

/-- A traversal that is stopped by its callback (a lazily drained iterator) has seen a prefix of the
full range. -/
theorem traverse_stop_prefix (t : Node) (s e : Option Bytes) (asc incl : Bool)
    (cb : Bytes → Bytes → Bool) (h : t.Inv) :
    traverseStop s e asc incl cb t = takeUntil cb (range s e asc incl (toList t)) := by
  rw [Node.traverseStop_spec, Node.traverse_spec t s e asc incl h.ord]

/-- The decidable monitor run by the driver on the implementation's dumped shape decides `Inv`. -/
theorem checkInv_sound_complete (t : Node) : checkInv t = true ↔ t.Inv := Node.checkInv_iff t

/-! ## Histories -/

/-- For **every** history of `Set`/`Remove`/`SaveVersion`/`DeleteVersion`/`Rollback` starting from
a new tree (including removal of every key, re-insertion, saves of the empty tree):
the working tree and every retained saved version hold exactly the per-version map model's
contents, every root satisfies the invariant, and every read (`Get`, `Has`, `GetByIndex`, range
iteration in both directions) on the working tree or on any saved version returns exactly what
the map model returns — including "version does not exist". -/
theorem ops_refine_map (ops : List Tree.Op) :
    (Tree.run ops).abs = Spec.run ops ∧
    (Tree.run ops).WF ∧
    ∀ (tgt : Target) (r : Read), (Tree.run ops).read tgt r = (Spec.run ops).read tgt r := by
  refine ⟨Tree.abs_run ops, Tree.run_wf ops, ?_⟩
  intro tgt r
  rw [Tree.read_spec _ (Tree.run_wf ops), Tree.abs_run]

/-- The results returned by the writes themselves agree with the map model at every point of every
history: `Set` says whether it replaced, `Remove` returns the old value and whether it removed. -/
theorem write_results_refine_map (ops : List Tree.Op) (key value : Bytes) :
    ((Tree.run ops).set key value).2 = contains key (Spec.run ops).cur ∧
    ((Tree.run ops).remove key).2 = (lookup key (Spec.run ops).cur, contains key (Spec.run ops).cur) := by
  have hwf := Tree.run_wf ops
  have habs : contents (Tree.run ops).root = (Spec.run ops).cur := by rw [← Tree.abs_run]; rfl
  refine ⟨?_, ?_⟩
  · rw [← habs]; exact (Tree.set_spec _ key value hwf.root).2
  · rw [← habs]
    have := Tree.remove_spec (Tree.run ops) key hwf.root
    exact Prod.ext this.2.1 this.2.2

/-- In every history `SaveVersion` takes its normal branch (the next version number is unused) and
the saved version is the working tree of that moment. -/
theorem save_is_snapshot (ops : List Tree.Op) :
    let t := Tree.run ops
    t.saveVersion.version = t.version + 1 ∧ t.saveVersion.getImmutable (t.version + 1) = some t.root ∧
    t.saveVersion.root = t.root := by
  have h := Tree.run_wf ops
  have := Tree.save_getImmutable _ h
  refine ⟨this.2, this.1, ?_⟩
  simp [Tree.saveVersion, h.fresh]

/-- A saved version never changes: after any further operations that do not delete it, `GetImmutable`
returns the identical tree, hence identical answers to all reads. -/
theorem saved_versions_frozen (ops1 ops2 : List Tree.Op) (v : Nat) (root : Option Node)
    (hv : (Tree.run ops1).getImmutable v = some root) (hkeep : ∀ op ∈ ops2, op ≠ .delete v) :
    (Tree.run (ops1 ++ ops2)).getImmutable v = some root ∧
    ∀ r, (Tree.run (ops1 ++ ops2)).read (.version v) r = (Tree.run ops1).read (.version v) r := by
  have h := Tree.foldl_getImmutable ops2 (Tree.run ops1) v root hv hkeep
  rw [← Tree.run_append] at h
  refine ⟨h, ?_⟩
  intro r
  simp [Tree.read, h, hv]

/-- `LazyLoadVersion`: a view it returns is exactly a retained saved tree — the latest one for a
non-positive target, the requested one otherwise — and it fails precisely when the target is newer
than the tree, nothing was saved yet, or the version is not retained. -/
theorem lazy_load_spec (t : Tree) (target : Int) :
    (∀ root v, t.lazyLoadVersion target = .view root v →
      t.getImmutable v = some root ∧ 0 < t.version ∧ (v : Int) ≤ t.version ∧
      (target ≤ 0 → v = t.version) ∧ (0 < target → (v : Int) = target)) ∧
    (t.lazyLoadVersion target = .errTooNew ↔ (t.version : Int) < target) ∧
    (t.lazyLoadVersion target = .nilTree ↔ ¬ (t.version : Int) < target ∧ t.version = 0) := by
  unfold Tree.lazyLoadVersion
  by_cases h1 : (t.version : Int) < target
  · simp [h1]
  · by_cases h2 : t.version = 0
    · rw [if_neg h1, if_pos h2]
      simp [h2]
      omega
    · simp only [h1, h2, if_false]
      refine ⟨?_, by split <;> simp, by split <;> simp⟩
      intro root v hv
      split at hv
      · cases hv
      · rename_i r hg
        injection hv with e1 e2
        subst e1
        by_cases h3 : target ≤ 0
        · simp only [h3, if_true] at hg e2
          subst e2
          exact ⟨hg, by omega, by omega, fun _ => rfl, fun h => by omega⟩
        · simp only [h3, if_false] at hg e2
          subst e2
          exact ⟨hg, by omega, by omega, fun h => absurd h h3, fun _ => by omega⟩

/-! ## Height -/

/-- A tree of height `h` satisfying the invariant has at least `fib (h+2)` keys (so the height is
at most about 1.44·log₂ of the number of keys). -/
theorem height_log (t : Node) (h : t.Inv) : fib (t.height + 2) ≤ t.size ∧ t.size = (toList t).length :=
  ⟨h.shape.fib_le_size, h.shape.size_eq_length⟩

/-- With fewer than 2^64 keys the height is below 92, far inside the `int8` the code stores it in. -/
theorem height_bound (t : Node) (h : t.Inv) (hsz : t.size < 2 ^ 64) : t.height ≤ 91 := by
  have h1 := h.shape.fib_le_size
  have h94 : 2 ^ 64 < fib 94 := by decide
  have := Nat.lt_of_le_of_lt h1 hsz
  by_cases hc : t.height ≤ 91
  · exact hc
  · exfalso
    have := fib_mono (show 94 ≤ t.height + 2 by omega)
    omega

/-! ## Non-vacuity: the hypotheses are met by concrete, non-trivial trees -/

private def k1 : Bytes := [1]
private def k2 : Bytes := [2]
private def k3 : Bytes := [2, 0]
private def k4 : Bytes := [255]

/-- A history with inserts that rotate, an overwrite, saves (one of the empty tree), removal of
every key, re-insertion, a version deletion and a rollback. -/
private def hist : List Tree.Op :=
  [.save, .set k1 [10], .set k2 [20], .set k3 [30], .set k4 [40], .set k2 [21], .save,
   .remove k1, .remove k2, .remove k3, .remove k4, .save, .set k3 [31], .set k1 [11], .delete 2,
   .set k2 [22], .rollback, .set k4 [41], .save]

example : (Tree.run hist).version = 4 ∧ (Tree.run hist).versions.map (·.1) = [4, 3, 1] := by decide
example : contents (Tree.run hist).root = [(k4, [41])] := by decide
example : (Tree.run hist).getImmutable 3 = some none := by decide

/-- A five-key tree of height 3 built by the model itself. -/
private def t5 : Node :=
  match (Tree.run [.set k1 [10], .set k2 [20], .set k3 [30], .set k4 [40], .set [0] [5]]).root with
  | some n => n
  | none => leaf [] [] 0

example : checkInv t5 = true ∧ t5.height = 3 ∧ t5.size = 5 := by decide
example : t5.Inv := (checkInv_sound_complete t5).mp (by decide)
example : toList (recursiveSet 7 t5 [1, 1] [9]).1 = [([0], [5]), (k1, [10]), ([1, 1], [9]), (k2, [20]), (k3, [30]), (k4, [40])] := by
  decide
example : (recursiveRemove 7 t5 k2).removed = true ∧ (recursiveRemove 7 t5 [7]).removed = false := by decide
example : get t5 [1, 1] = (2, none) ∧ get t5 k3 = (3, some [30]) ∧ has t5 k3 = true ∧ has t5 [3] = false := by decide
example : getByIndex t5 4 = some (k4, [40]) ∧ getByIndex t5 5 = none ∧ getByIndex t5 (-1) = none := by decide
example : traverseInRange (some k1) (some k4) false true t5 = [(k4, [40]), (k3, [30]), (k2, [20]), (k1, [10])] := by
  decide
example : traverseInRange (some k2) (some k2) true false t5 = [] ∧
    traverseInRange none (some []) true false t5 = [] := by decide
example : (traverseStop none none true false (fun k _ => k == k2) t5).1 = [([0], [5]), (k1, [10]), (k2, [20])] := by
  decide
example : fib 5 = 5 ∧ fib (t5.height + 2) ≤ t5.size := by decide

end C03
