import Proofs.Store.Tower
/-!
# C01 — Cache-wrapped KV store is an exact overlay of its parent

Model: `PocketModel/Store/CacheKV.lean` (`store/cachekv/{store,memiterator,mergeiterator}.go`),
towers of wraps and the map-overlay specification: `PocketModel/Store/Tower.lean`.

The parent is *any* store `O : KVOps σ` satisfying the interface theorem `KVSpec O inv vw`
(`vw s` = the parent's contents as a strictly ascending list).  For a cache store `c` over parent
state `s`:

* `pending c` — its dirty entries as a map `key ↦ some v` (set) / `none` (delete);
* `overlay m pend` — the map `m` with the pending sets and deletes applied;
* `cview vw (s, c) = overlay (vw s) (pending c)` — the contents the property says the store has;
* `cinv inv vw (s, c)` — the representation invariant (every state reachable from `NewStore`
  satisfies it: `cinv_empty`, and every operation preserves it).
-/
namespace C01
open CacheKV Tower

variable {σ : Type} {O : KVOps σ} {inv : σ → Prop} {vw : σ → KV}

/-- The overlay is what its name says: a pending change shadows the parent, otherwise the parent
answers (this fixes the meaning of `overlay` used in every statement below). -/
theorem overlay_lookup (m : KV) (pend : Assoc (Option Bytes)) (hm : Assoc.Sorted m)
    (hp : Assoc.Sorted pend) (k : Bytes) :
    Assoc.get (overlay m pend) k =
      match Assoc.get pend k with
      | some change => change
      | none => Assoc.get m k :=
  overlay_get hm (sortedD_true.mpr hp) k

/-- `Get` returns the overlay lookup; it may fill a clean cache entry but changes neither the
contents nor the parent's contents. -/
theorem get_overlay (P : KVSpec O inv vw) (s : σ × CStore) (h : cinv inv vw s) (k : Bytes) :
    (get O s k).2 = Assoc.get (overlay (vw s.1) (pending s.2)) k ∧
    cview vw (get O s k).1 = cview vw s ∧ cinv inv vw (get O s k).1 :=
  ⟨(get_spec P s h k).2.2, (get_spec P s h k).2.1, (get_spec P s h k).1⟩

/-- `Has` is "the overlay has the key". -/
theorem has_overlay (P : KVSpec O inv vw) (s : σ × CStore) (h : cinv inv vw s) (k : Bytes) :
    (has O s k).2 = (Assoc.get (overlay (vw s.1) (pending s.2)) k).isSome :=
  (ops_spec P).has_val s k h

/-- `Set`/`Delete` change the contents exactly like a map update and never touch the parent. -/
theorem set_del_overlay (P : KVSpec O inv vw) (s : σ × CStore) (h : cinv inv vw s) (k v : Bytes) :
    cview vw (set s k v) = Assoc.set (cview vw s) k v ∧ cview vw (del s k) = Assoc.del (cview vw s) k ∧
    (set s k v).1 = s.1 ∧ (del s k).1 = s.1 :=
  ⟨(set_spec P s h k v).2, (del_spec P s h k).2, rfl, rfl⟩

/-- Invariant of the dirty-item machinery: `dirtyItems(start, end)` keeps `sortedCache` strictly
ascending, keeps every dirty key either in `unsortedCache` or with its *current* value in
`sortedCache`, keeps only dirty keys in `sortedCache`, and does not change the pending map. -/
theorem dirtyItems_inv (m : KV) (c : CStore) (h : CInv m c) (st e : Option Bytes) :
    CInv m (dirtyItems c st e) ∧ pending (dirtyItems c st e) = pending c :=
  ⟨cinv_dirtyItems h st e, rfl⟩

/-- `newMemIterator` (with its `entered` flag) collects exactly the in-domain items of the sorted
cache, and after `dirtyItems` those are exactly the pending changes inside the domain. -/
theorem memIter_eq_filter (m : KV) (c : CStore) (h : CInv m c) (st e : Option Bytes) :
    memItems st e false c.sorted = c.sorted.filter (fun p => inDomain p.1 st e) ∧
    memItems st e false (dirtyItems c st e).sorted = (pending c).filter (fun p => inDomain p.1 st e) :=
  ⟨memItems_eq_filter h.sortedSorted, memItems_dirtyItems h st e⟩

/-- **The merge iterator is the overlay.**  For every strictly ascending parent list `p` and cache
list `c` (delete markers = `none`), draining `cacheMergeIterator` (the Go state machine
`skipUntilExistsOrInvalid` / `skipCacheDeletes` / `Key` / `Value` / `Next`, as coded) yields the
overlaid map — forwards over the ascending lists, and backwards over the reversed lists. -/
theorem mergeIter_eq_overlay (p : KV) (c : Assoc (Option Bytes)) (hp : Assoc.Sorted p)
    (hc : Assoc.Sorted c) :
    drain true p c = overlay p c ∧ drain false p.reverse c.reverse = (overlay p c).reverse :=
  ⟨drain_asc_eq_overlay hp hc, drain_desc_eq_overlay hp hc⟩

/-- **Iteration over any range, both directions**: `Iterator(start, end)` /
`ReverseIterator(start, end)` (parent iterator + `dirtyItems` + mem iterator + merge) yields the
range of the overlay, for every `start`, `end` (nil, empty, inverted). -/
theorem iterator_overlay (P : KVSpec O inv vw) (s : σ × CStore) (h : cinv inv vw s) (asc : Bool)
    (st e : Option Bytes) :
    (iter O s asc st e).2 = KV.iter (overlay (vw s.1) (pending s.2)) asc st e ∧
    cview vw (iter O s asc st e).1 = cview vw s ∧ cinv inv vw (iter O s asc st e).1 :=
  ⟨(iter_spec P s h asc st e).2.2, (iter_spec P s h asc st e).2.1, (iter_spec P s h asc st e).1⟩

/-- **Lazy = eager.**  The Go merge iterator is advanced one `Next` at a time by its caller; its
whole state is the pair (parent iterator, mem iterator) — `Valid/Key/Value/Next` read and write
nothing else.  Stepping it yields, item by item, the list `drain` computes at creation. -/
theorem iter_lazy_eq_eager (asc : Bool) (p : List (Bytes × Bytes)) (c : Assoc (Option Bytes)) :
    drain asc p c =
      if valid asc p c then
        match cur asc p c with
        | none => []
        | some kv => kv :: drain asc (next asc p c).1 (next asc p c).2
      else [] := drain_step asc p c

/-- **Open iterators are snapshots** (as far as the model can say it): the iterator created by
`Iterator/ReverseIterator` is a value made of the parent iterator (by `KVSpec` a value fixed at
creation) and a private copy of the in-domain part of the sorted cache (`memIterator.items`); no
store operation takes or returns it.  Hence whatever calls `l` follow on the same store, what the
iterator yields — lazily or at once, `iter_lazy_eq_eager` — is the range of the overlay *at
creation time*, not the range of the store's later contents.  That the Go objects really share
no mutable state with the store (`kv.Pair`s are replaced, never updated in place; MemDB iterators
hold their own items) is what the harness observes on every run: iterators are opened, then
`Set/Delete/Write` are issued, then the iterators are advanced and drained. -/
theorem iter_is_snapshot (P : KVSpec O inv vw) (s : σ × CStore) (h : cinv inv vw s) (asc : Bool)
    (st e : Option Bytes) (l : List KVOp) :
    (iter O s asc st e).2 = KV.iter (cview vw s) asc st e ∧
    cview vw ((ops O).run (iter O s asc st e).1 l).1 = (KV.ops.run (cview vw s) l).1 := by
  obtain ⟨h1, h2, h3⟩ := iter_spec P s h asc st e
  refine ⟨h3, ?_⟩
  rw [((ops_spec P).run_refines _ h1 l).2.1, h2]

/-- **`Write` applies exactly the net pending changes**: afterwards the parent's contents are the
overlay of its former contents with the pending map … -/
theorem write_applies_net (P : KVSpec O inv vw) (s : σ × CStore) (h : cinv inv vw s) :
    vw (write O s).1 = overlay (vw s.1) (pending s.2) := (write_spec P s h).2.1

/-- … and the cache is cleared; the store's own contents are unchanged by the write. -/
theorem write_clears (P : KVSpec O inv vw) (s : σ × CStore) (h : cinv inv vw s) :
    (write O s).2 = empty ∧ pending (write O s).2 = [] ∧ cview vw (write O s) = cview vw s ∧
    cinv inv vw (write O s) :=
  ⟨(write_spec P s h).2.2.1, rfl, (write_spec P s h).2.2.2, (write_spec P s h).1⟩

/-- **Discard**: whatever calls are made through the cache store (short of `Write`), the parent's
contents stay exactly as they were — dropping the cache store loses the changes and nothing else. -/
theorem discard_parent_unchanged (P : KVSpec O inv vw) (s : σ × CStore) (h : cinv inv vw s)
    (l : List KVOp) : vw ((ops O).run s l).1.1 = vw s.1 := run_parent_view P s h l

/-- **The wrapped store is again a KV store** (so a cache store can be wrapped again). -/
theorem cstore_is_KVSpec (P : KVSpec O inv vw) : KVSpec (ops O) (cinv inv vw) (cview vw) := ops_spec P

/-- A fresh wrap satisfies the invariant and shows the parent's contents. -/
theorem wrap_fresh (s : σ) (h : inv s) : cinv inv vw (s, empty) ∧ cview vw (s, empty) = vw s :=
  ⟨⟨h, cinv_empty _⟩, rfl⟩

/-- **Nesting to any depth**: every tower of `n` wraps (cachekv and prefix stores in any order)
over the root store satisfies the interface theorem, its contents being the iterated
overlay / prefix view computed by the specification. -/
theorem nested_overlay (n : Nat) :
    KVSpec (Tower.ops n) (towerInv n) (towerView n) ∧
    ∀ t : T n, towerView n t = Spec.viewOf (absLayers n t) (rootOf n t) :=
  ⟨tower_spec n, towerView_eq n⟩

/-- **All histories.**  For every list of operations — `get/has/set/delete/iterate/reverse-iterate`
on the top store with arbitrary keys, values and ranges, `wrap`, prefix wrap, `write`, `pop`
(= discard) at any nesting depth — the observations of the model (the Go algorithms of every layer)
equal the observations of the map-overlay specification, and the final states correspond. -/
theorem run_refines_spec (root : KV) (hroot : Assoc.Sorted root) (l : List TOp) :
    (Tower.run (State.init root) l).2 = (Spec.run ⟨[], root⟩ l).2 ∧
    abs (Tower.run (State.init root) l).1 = (Spec.run ⟨[], root⟩ l).1 :=
  ⟨(run_refines (State.init root) hroot l).2.2, (run_refines (State.init root) hroot l).2.1⟩

/-- The same from any reachable tower state. -/
theorem run_refines_spec_from (s : State) (h : towerInv s.n s.t) (l : List TOp) :
    (Tower.run s l).2 = (Spec.run (abs s) l).2 ∧ abs (Tower.run s l).1 = (Spec.run (abs s) l).1 ∧
    towerInv (Tower.run s l).1.n (Tower.run s l).1.t :=
  ⟨(run_refines s h l).2.2, (run_refines s h l).2.1, (run_refines s h l).1⟩

/-! ## Non-vacuity -/

private def p0 : KV := [([1], [10]), ([2], [20]), ([3], [30]), ([5], [50])]
private def c0 : Assoc (Option Bytes) := [([0], none), ([2], none), ([3], some [33]), ([4], some [44]), ([6], none)]
example : Assoc.Sorted p0 ∧ Assoc.Sorted c0 := by decide
example : overlay p0 c0 = [([1], [10]), ([3], [33]), ([4], [44]), ([5], [50])] := by decide
example : drain true p0 c0 = [([1], [10]), ([3], [33]), ([4], [44]), ([5], [50])] := by
  rw [(mergeIter_eq_overlay p0 c0 (by decide) (by decide)).1]; decide
example : drain false p0.reverse c0.reverse = [([5], [50]), ([4], [44]), ([3], [33]), ([1], [10])] := by
  rw [(mergeIter_eq_overlay p0 c0 (by decide) (by decide)).2]; decide

/-- A reachable non-trivial state: delete an existing key, set a new one, overwrite one. -/
private def s0 : KV × CStore := set (set (del (p0, empty) [2]) [4] [44]) [3] [33]
example : KVSpec KV.ops Assoc.Sorted id := KV.ops_spec
example : cinv Assoc.Sorted id s0 :=
  (set_spec KV.ops_spec _ (set_spec KV.ops_spec _ (del_spec KV.ops_spec _
    ⟨(by decide : Assoc.Sorted p0), cinv_empty _⟩ [2]).1 [4] [44]).1 [3] [33]).1
example : pending s0.2 = [([2], none), ([3], some [33]), ([4], some [44])] := by decide
example : cview id s0 = [([1], [10]), ([3], [33]), ([4], [44]), ([5], [50])] := by decide

/-- A history with nesting, write and discard, on which model and specification are run. -/
private def h0 : List TOp :=
  [.kv (.set [1] [10]), .wrap, .kv (.del [1]), .kv (.set [2] [20]), .wrap, .kv (.set [1] [11]),
   .kv (.get [1]), .write, .pop, .kv (.get [1]), .pop, .kv (.get [1]), .kv (.get [2])]
example : (Spec.run ⟨[], []⟩ h0).2 =
    [.unit, .unit, .unit, .unit, .unit, .unit, .val (some [11]), .unit, .unit, .val (some [11]), .unit,
     .val (some [10]), .val none] := by decide

end C01
