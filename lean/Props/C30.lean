import Proofs.Merkle.SoundTop
import Proofs.Merkle.Malleable
import Proofs.Merkle.Replay
import Proofs.Merkle.ListAux
/-!
# C30 — Merkle-sum-index proofs cannot be forged or replayed

Model: `PocketModel/Merkle/SumIndex.lean` (`x/pocketcore/types/merkle.go`, level check of
`x/pocketcore/keeper/proof.go`).  `H` is the hash function (blake2b-256 in the code; the only fact
used about it is that its output has 32 bytes), `post` the parent-hash layout.  Collision
resistance is never assumed: `Collision H` (two different inputs with equal hash) is an explicit
alternative in every soundness statement.

`WireOK p` = the type invariants of a decoded proof (`uint64` bounds, `int64` index) plus 32-byte
sibling hashes.  The latter is **not** checked by the code; `sibling_hash_extension_accepted` shows
what happens without it.  `Agree i p hp` = `p` and the committed proof `hp` of position `i` have the
same hashes throughout, are identical when `i` is even, and when `i` is odd are identical except
for the boundary `p.target.lower = first sibling's upper` (`odd_leaf_midpoint_accepted`).
-/
namespace C30
open SumIndex

/-- **Soundness.**  If `Validate` accepts `(p, leaf)` against the root generated from `leaves`
(`2 ≤ n ≤ 2^32`, level count `levels n` as enforced by `ValidateProof`), then either a collision of
`H` is exhibited, or: the position `i` the loop walked is committed, after the upgrade it is the
proof's index itself, the leaf is the `i`-th committed leaf, and `p` agrees with the committed
proof for `i` (`Agree`); a padding position can only be "proved" for the padding pre-image. -/
theorem validate_sound (H : Bytes → Bytes) (hH : ∀ x, (H x).length = 32) (post : Bool)
    (leaves : List Bytes) (hn : 2 ≤ leaves.length) (h32 : leaves.length ≤ 2 ^ 32)
    (root : HashRange) (sorted : List Bytes) (hroot : genRoot H post leaves = some (root, sorted))
    (p : MerkleProof) (hw : WireOK p) (hlen : p.hashRanges.length = levels leaves.length)
    (leaf : Bytes) (rep : Bool)
    (hv : validate H post p root leaf (levels leaves.length) = some (true, rep)) :
    Collision H ∨
    ∃ i : Nat, i = pathIndex (levels leaves.length) p.index ∧ i < 2 ^ levels leaves.length ∧
      (post = true → p.index = (i : Int)) ∧
      (∀ hp hleaf, genProof H post leaves i = some (hp, hleaf) → leaf = hleaf ∧ Agree i p hp) ∧
      (leaves.length ≤ i → leaf = Bytes.ofString (toString i)) := by
  have hlen' : (entries H leaves).length = leaves.length := by simp [entries]
  have := validate_sound_entries H post hH (entries H leaves) (by omega) (by omega)
    (by
      intro e he
      simp only [entries, List.mem_map] at he
      obtain ⟨l, _, rfl⟩ := he
      rfl)
    root sorted hroot p hw (by rw [hlen']; exact hlen) leaf rep (by rw [hlen']; exact hv)
  rw [hlen'] at this
  exact this

/-- The hypotheses of `validate_sound` are met by a real acceptance (toy hash: 32-byte constant
prefix; the generated proof of C29 is `WireOK`). -/
example : WireOK ⟨3, [⟨List.replicate 32 1, 4, 9⟩], ⟨List.replicate 32 2, 9, 12⟩⟩ := by
  refine ⟨?_, by decide, by decide, by decide, by decide⟩
  intro s hs
  simp at hs
  subst hs
  exact ⟨by decide, by decide, by decide⟩

/-- **Changing the leaf.**  A proof accepted for `leaf` is also accepted for `leaf'` only if the two
have the same hash: they are equal, or a collision. -/
theorem leaf_mutation_rejected (H : Bytes → Bytes) (post : Bool) (p : MerkleProof) (root : HashRange)
    (leaf leaf' : Bytes) (n : Nat) (r r' : Bool)
    (h : validate H post p root leaf n = some (true, r))
    (h' : validate H post p root leaf' n = some (true, r')) : leaf' = leaf ∨ Collision H := by
  obtain ⟨_, h1, _⟩ := validateH_accept H post p root (H leaf) n r h
  obtain ⟨_, h2, _⟩ := validateH_accept H post p root (H leaf') n r' h'
  by_cases he : leaf' = leaf
  · exact Or.inl he
  · exact Or.inr ⟨leaf', leaf, he, by rw [← h1, ← h2]⟩

/-- **Changing the root.**  A proof accepted against `root` is rejected against every other root
(hash, lower or upper bound changed) — no collision alternative needed. -/
theorem root_mutation_rejected (H : Bytes → Bytes) (post : Bool) (p : MerkleProof) (root root' : HashRange)
    (leaf : Bytes) (n : Nat) (r : Bool) (h : validate H post p root leaf n = some (true, r))
    (hne : root' ≠ root) : ∃ r', validate H post p root' leaf n = some (false, r') := by
  obtain ⟨_, h1, h2, fin, hc⟩ := validateH_accept H post p root (H leaf) n r h
  unfold validate validateH
  by_cases h0 : root'.lower ≠ 0
  · exact ⟨false, by simp [h0]⟩
  · have c2 : ¬ (p.target.hash ≠ H leaf) := by simp [h1]
    have c3 : ¬ (p.target.upper ≠ sumFromHash p.target.hash) := by simp [← h2]
    simp only [h0, c2, c3, if_false, hc, hne]
    exact ⟨true, rfl⟩

/-- **Changing the target or a sibling (same index).**  Let `(hp, hleaf)` be the committed proof of
position `j`.  If `(p', leaf')` with the same index is accepted, then — unless a collision is
exhibited — `leaf' = hleaf` and `p' = hp`, with one exception: `j` odd and *both*
`p'.target.lower` and the first sibling's upper bound differ from the committed values (being
equal to each other).  Hence no single-field change of a committed proof is accepted. -/
theorem mutation_fails_or_collides (H : Bytes → Bytes) (hH : ∀ x, (H x).length = 32) (post : Bool)
    (leaves : List Bytes) (hn : 2 ≤ leaves.length) (h32 : leaves.length ≤ 2 ^ 32)
    (root : HashRange) (sorted : List Bytes) (hroot : genRoot H post leaves = some (root, sorted))
    (j : Nat) (hj : j < leaves.length) (hp : MerkleProof) (hleaf : Bytes)
    (hgen : genProof H post leaves j = some (hp, hleaf))
    (p' : MerkleProof) (hw : WireOK p') (hlen : p'.hashRanges.length = levels leaves.length)
    (hidx : p'.index = (j : Int)) (leaf' : Bytes) (rep : Bool)
    (hv : validate H post p' root leaf' (levels leaves.length) = some (true, rep)) :
    Collision H ∨ (leaf' = hleaf ∧
      (p' = hp ∨ (j % 2 = 1 ∧ p'.target.lower ≠ hp.target.lower ∧
        ∃ s0 h0 rest, p'.hashRanges = s0 :: rest ∧ hp.hashRanges = h0 :: rest ∧
          s0.upper ≠ h0.upper ∧ s0.upper = p'.target.lower))) := by
  rcases validate_sound H hH post leaves hn h32 root sorted hroot p' hw hlen leaf' rep hv with hc | hs
  · exact Or.inl hc
  obtain ⟨i, hi, _, _, hag, _⟩ := hs
  have hjl : j < 2 ^ levels leaves.length := Nat.lt_of_lt_of_le hj (le_two_pow_levels _)
  have hij : i = j := by rw [hi, hidx]; exact pathIndex_natCast _ _ hjl
  subst hij
  obtain ⟨hl, hagree⟩ := hag hp hleaf hgen
  refine Or.inr ⟨hl, ?_⟩
  obtain ⟨a1, a2, aev, aod⟩ := hagree
  -- the committed proof carries index j
  have hpidx : hp.index = (i : Int) := by
    simp only [genProof, genProofE] at hgen
    split at hgen
    · simp at hgen
    · split at hgen
      · simp only [Option.some.injEq, Prod.mk.injEq] at hgen
        rw [← hgen.1]
      · simp at hgen
  have hixeq : p'.index = hp.index := by rw [hidx, hpidx]
  rcases Nat.mod_two_eq_zero_or_one i with hpar | hpar
  · obtain ⟨e1, e2⟩ := aev hpar
    exact Or.inl (MerkleProof.ext' _ _ hixeq e2 e1)
  · obtain ⟨s0, rest, h0, e1, e2, e3, e4, e5, e6⟩ := aod hpar
    by_cases hm : p'.target.lower = hp.target.lower
    · left
      have hs0 : s0 = h0 := HashRange.ext' _ _ e3 e4 (by rw [e5, hm, e6])
      have ht : p'.target = hp.target := HashRange.ext' _ _ a1 hm a2
      exact MerkleProof.ext' _ _ hixeq (by rw [e1, e2, hs0]) ht
    · right
      refine ⟨hpar, hm, s0, h0, rest, e1, e2, ?_, e5⟩
      rw [e5, e6]; exact hm

/-- **Changing the index (after the upgrade).**  With no relay committed twice, one leaf cannot be
accepted under two different committed positions: a collision is exhibited or the indices agree.
(`ValidateProof` only admits `TargetIndex` in `[0, n)`.) -/
theorem index_binding (H : Bytes → Bytes) (hH : ∀ x, (H x).length = 32)
    (leaves : List Bytes) (hn : 2 ≤ leaves.length) (h32 : leaves.length ≤ 2 ^ 32) (hnd : leaves.Nodup)
    (root : HashRange) (sorted : List Bytes) (hroot : genRoot H true leaves = some (root, sorted))
    (p1 p2 : MerkleProof) (hw1 : WireOK p1) (hw2 : WireOK p2)
    (hl1 : p1.hashRanges.length = levels leaves.length) (hl2 : p2.hashRanges.length = levels leaves.length)
    (hi1 : p1.index < leaves.length) (hi2 : p2.index < leaves.length)
    (leaf : Bytes) (r1 r2 : Bool)
    (hv1 : validate H true p1 root leaf (levels leaves.length) = some (true, r1))
    (hv2 : validate H true p2 root leaf (levels leaves.length) = some (true, r2)) :
    Collision H ∨ p1.index = p2.index := by
  rcases validate_sound H hH true leaves hn h32 root sorted hroot p1 hw1 hl1 leaf r1 hv1 with hc | hs1
  · exact Or.inl hc
  rcases validate_sound H hH true leaves hn h32 root sorted hroot p2 hw2 hl2 leaf r2 hv2 with hc | hs2
  · exact Or.inl hc
  obtain ⟨i1, _, _, hx1, hag1, _⟩ := hs1
  obtain ⟨i2, _, _, hx2, hag2, _⟩ := hs2
  have e1 := hx1 rfl
  have e2 := hx2 rfl
  have hlen' : (entries H leaves).length = leaves.length := by simp [entries]
  have hlt1 : i1 < (entries H leaves).length := by rw [hlen']; omega
  have hlt2 : i2 < (entries H leaves).length := by rw [hlen']; omega
  obtain ⟨hp1, en1, hg1, hs1, _⟩ := genProofE_some H true (entries H leaves) (by omega) (by omega) i1 hlt1
  obtain ⟨hp2, en2, hg2, hs2, _⟩ := genProofE_some H true (entries H leaves) (by omega) (by omega) i2 hlt2
  have hle1 := (hag1 hp1 en1.leaf hg1).1
  have hle2 := (hag2 hp2 en2.leaf hg2).1
  -- the sorted leaves have no duplicates
  have hperm := List.mergeSort_perm (entries H leaves) Entry.le
  have hndl : ((entries H leaves).map (·.leaf)).Nodup := by
    have : (entries H leaves).map (·.leaf) = leaves := by
      simp [entries, List.map_map, Function.comp_def]
    rw [this]; exact hnd
  have hnds : (((entries H leaves).mergeSort Entry.le).map (·.leaf)).Nodup :=
    ((hperm.map (·.leaf)).nodup_iff).mpr hndl
  have hm1 : (((entries H leaves).mergeSort Entry.le).map (·.leaf))[i1]? = some leaf := by
    rw [List.getElem?_map, hs1, hle1]; rfl
  have hm2 : (((entries H leaves).mergeSort Entry.le).map (·.leaf))[i2]? = some leaf := by
    rw [List.getElem?_map, hs2, hle2]; rfl
  have hieq : i1 = i2 := nodup_getElem?_inj _ i1 i2 leaf hnds hm1 hm2
  right
  rw [e1, e2, hieq]

/-- **Before the upgrade the index is bound only through its parity bits**: `Validate` gives the
same verdict for any two indices that make the loop walk the same position. -/
theorem pre_index_only_bits (H : Bytes → Bytes) (p : MerkleProof) (x : Int) (root : HashRange)
    (leaf : Bytes) (n : Nat) (h : pathIndex n x = pathIndex n p.index) :
    validate H false { p with index := x } root leaf n = validate H false p root leaf n :=
  validateH_noIdx H false p x root (H leaf) n (climb_pre_index H n x p.index p.target p.hashRanges h)

/-- In particular `i` and `i + m·2^levels` are indistinguishable before the upgrade (the keeper's
comparison of `TargetIndex` with the required index is what rules the alias out). -/
theorem pre_index_aliasing (H : Bytes → Bytes) (p : MerkleProof) (i m : Nat) (root : HashRange)
    (leaf : Bytes) (n : Nat) (hp : p.index = (i : Int)) :
    validate H false { p with index := ((i + m * 2 ^ n : Nat) : Int) } root leaf n =
      validate H false p root leaf n :=
  pre_index_only_bits H p _ root leaf n (by rw [hp]; exact pathIndex_alias n i m)

example : pathIndex 3 (5 + 8 * 7 : Int) = 5 ∧ pathIndex 3 (-3 : Int) = 0 := by decide

/-- **Empty ranges are replays.**  Any range the loop visits with `lower ≥ upper` — the target at
the level reached, or the sibling stored for that level — ends verification with
`(false, replay = true)`. -/
theorem zero_width_rejected_as_replay (H : Bytes → Bytes) (post : Bool) (n : Nat) (idx : Int)
    (t : HashRange) (sibs : List HashRange)
    (h : t.upper ≤ t.lower ∨ (∃ s rest, sibs = s :: rest ∧ s.upper ≤ s.lower)) :
    climb H post (n + 1) idx t sibs = .fail true := by
  by_cases ht : t.isValid = true
  · rcases h with h | ⟨s, rest, rfl, hs⟩
    · exact absurd ((isValid_iff t).mp ht) (by omega)
    · exact climb_sibling_invalid H post n idx t s rest ht ((isValid_false_iff s).mpr hs)
  · exact climb_target_invalid H post n idx t sibs (by simpa using ht)

example : climb id true 3 5 ⟨[1], 7, 7⟩ [⟨[2], 1, 7⟩] = .fail true := by decide

/-- **The range check is on the numbers, not on a wrapped width.**  A range is proper exactly when
`0 < upper` and `lower < upper` over the naturals the `uint64` bounds denote. -/
theorem isValidRange_spec (hr : HashRange) : hr.isValid = true ↔ 0 < hr.upper ∧ hr.lower < hr.upper :=
  isValid_spec hr

/-- An inverted range (`lower > upper`) met by the loop is a replay like an empty one. -/
theorem inverted_range_rejected_as_replay (H : Bytes → Bytes) (post : Bool) (n : Nat) (idx : Int)
    (t : HashRange) (sibs : List HashRange)
    (h : t.upper < t.lower ∨ (∃ s rest, sibs = s :: rest ∧ s.upper < s.lower)) :
    climb H post (n + 1) idx t sibs = .fail true := by
  apply zero_width_rejected_as_replay
  rcases h with h | ⟨s, rest, e, hs⟩
  · exact Or.inl (by omega)
  · exact Or.inr ⟨s, rest, e, by omega⟩

/-- Why the check must not be written as a `uint64` width (`Upper != 0 && Upper-Lower > 0`): with
wrapping subtraction that test only excludes `lower = upper`, so it lets every inverted range with
a non-zero upper bound through — the hiding place for a relay counted twice in a claimant-built
tree. -/
theorem uint64_width_check_accepts_inverted (hr : HashRange) (hl : hr.lower < two64) (hu : hr.upper < two64)
    (hinv : hr.upper < hr.lower) (h0 : hr.upper ≠ 0) : wrapWidthValid hr = true ∧ hr.isValid = false := by
  refine ⟨(wrapWidthValid_iff hr hl hu).mpr ⟨h0, by omega⟩, (isValid_false_iff hr).mpr (by omega)⟩

example : wrapWidthValid ⟨[], 9, 7⟩ = true ∧ HashRange.isValid ⟨[], 9, 7⟩ = false := by decide

/-- `MsgProof.ValidateBasic` (merkle part): with at least three levels, a target whose range is not
proper — empty, inverted, or with upper bound 0 — gets the range error; what passes is proper. -/
theorem basic_rejects_improper_target (p : MerkleProof) (h3 : 3 ≤ p.hashRanges.length) :
    (¬ (0 < p.target.upper ∧ p.target.lower < p.target.upper) → msgProofBasic p = .range) ∧
    (msgProofBasic p = .pass → 0 < p.target.upper ∧ p.target.lower < p.target.upper) := by
  have hlen : ¬ p.hashRanges.length < 3 := by omega
  constructor
  · intro h
    have hv : p.target.isValid = false := by
      cases hc : p.target.isValid
      · rfl
      · exact absurd ((isValid_spec p.target).mp hc) h
    simp [msgProofBasic, hlen, hv]
  · intro h
    cases hc : p.target.isValid
    · simp [msgProofBasic, hlen, hc] at h
    · exact (isValid_spec p.target).mp hc

example : msgProofBasic ⟨0, [⟨[], 0, 1⟩, ⟨[], 0, 1⟩, ⟨[], 0, 1⟩], ⟨[], 9, 7⟩⟩ = .range := by decide

/-- The same at any depth: if `l` iterations pass and the range reached then (or its sibling) is
empty, `Validate` returns `(false, true)` whatever follows. -/
theorem zero_width_at_any_level (H : Bytes → Bytes) (post : Bool) (p : MerkleProof) (root : HashRange)
    (leaf : Bytes) (l m : Nat) (t' : HashRange) (idx' : Int)
    (h0 : root.lower = 0) (h1 : p.target.hash = H leaf) (h2 : p.target.upper = sumFromHash p.target.hash)
    (hreach : climb H post l p.index p.target p.hashRanges = .top t' idx')
    (hz : t'.upper ≤ t'.lower ∨ (∃ s rest, p.hashRanges.drop l = s :: rest ∧ s.upper ≤ s.lower)) :
    validate H post p root leaf (l + (m + 1)) = some (false, true) := by
  unfold validate validateH
  have c1 : ¬ (root.lower ≠ 0) := by simp [h0]
  have c2 : ¬ (p.target.hash ≠ H leaf) := by simp [h1]
  have c3 : ¬ (p.target.upper ≠ sumFromHash p.target.hash) := by simp [← h2]
  simp only [c1, c2, c3, if_false]
  rw [climb_split H post l (m + 1), hreach]
  simp only
  rw [zero_width_rejected_as_replay H post m idx' t' _ hz]

/-- **Duplicates make an empty range, and it is flagged.**  If a relay is committed twice (more
generally: two leaves with the same sum), some committed position carries an empty range; the
proof generated for it is rejected with `replay = true`, and so is the proof for its sibling. -/
theorem duplicates_make_zero_width (H : Bytes → Bytes) (post : Bool) (leaves : List Bytes)
    (hn : 2 ≤ leaves.length) (h32 : leaves.length ≤ 2 ^ 32) (hdup : ¬ leaves.Nodup) :
    ∃ j root sorted, j + 1 < leaves.length ∧ genRoot H post leaves = some (root, sorted) ∧
      (∃ p leaf, genProof H post leaves (j + 1) = some (p, leaf) ∧ p.target.upper ≤ p.target.lower ∧
        validate H post p root leaf (levels leaves.length) = some (false, true)) ∧
      (sibIndex (j + 1) < leaves.length →
        ∃ p leaf, genProof H post leaves (sibIndex (j + 1)) = some (p, leaf) ∧
          validate H post p root leaf (levels leaves.length) = some (false, true)) := by
  have hlen' : (entries H leaves).length = leaves.length := by simp [entries]
  have hsum : (entries H leaves).map Entry.sum = leaves.map (fun l => sumFromHash (H l)) := by
    simp [entries, Entry.sum, List.map_map, Function.comp_def]
  have hd : ¬ ((entries H leaves).map Entry.sum).Nodup := by
    rw [hsum]
    intro h
    exact hdup (nodup_of_map _ _ h)
  have := duplicate_sum_flagged H post (entries H leaves) (by omega) (by omega)
    (by
      intro e he
      simp only [entries, List.mem_map] at he
      obtain ⟨l, _, rfl⟩ := he
      rfl) hd
  rw [hlen'] at this
  exact this

example : ¬ ([[1], [2], [1], [3], [4]] : List Bytes).Nodup := by decide

/-- **Known finding (counterexample to "any changed sibling hash is rejected").**  When the target
is a left child at some level, the sibling's hash may be replaced by itself followed by the bytes
that the fixed-size buffer would hold after it, followed by arbitrary bytes: the verdict does not
change, so a committed proof stays accepted with a different sibling hash. -/
theorem sibling_hash_extension_accepted (H : Bytes → Bytes) (post : Bool) (p : MerkleProof)
    (s : HashRange) (rest : List HashRange) (junk : Bytes) (root : HashRange) (leaf : Bytes) (n : Nat)
    (hp : p.hashRanges = s :: rest) (ht : p.target.hash.length = 32) (hs : s.hash.length = 32)
    (heven : goOdd p.index = false) :
    validate H post
      { p with hashRanges :=
          { s with hash := s.hash ++ (tailBytes post p.target.lower s.upper (u64 p.index) (u64 (p.index + 1)) ++ junk) }
            :: rest } root leaf (n + 1) = validate H post p root leaf (n + 1) := by
  unfold validate validateH
  simp only [hp]
  rw [climb_sibling_hash_extension H post n p.index p.target s rest junk ht hs heven]

/-- The extended hash really is a different proof. -/
example (s : HashRange) (junk : Bytes) (post : Bool) (a b c d : Nat) :
    s.hash ++ (tailBytes post a b c d ++ junk) ≠ s.hash := by
  intro h
  have := congrArg List.length h
  simp [tailBytes_length] at this
  cases post <;> simp at this

/-- **Known finding (counterexample to "any changed sibling range is rejected").**  For an odd
index the boundary between the left sibling leaf and the target can be moved, in both fields
together, to any `m` strictly between the sibling's lower and the target's upper bound: the
verdict does not change. -/
theorem odd_leaf_midpoint_accepted (H : Bytes → Bytes) (post : Bool) (p : MerkleProof)
    (s : HashRange) (rest : List HashRange) (m : Nat) (root : HashRange) (leaf : Bytes) (n : Nat)
    (hp : p.hashRanges = s :: rest) (hodd : goOdd p.index = true) (hadj : p.target.lower = s.upper)
    (hs : s.lower < s.upper) (ht : p.target.lower < p.target.upper)
    (hm1 : s.lower < m) (hm2 : m < p.target.upper) :
    validate H post
      { p with target := { p.target with lower := m }, hashRanges := { s with upper := m } :: rest }
      root leaf (n + 1) = validate H post p root leaf (n + 1) := by
  unfold validate validateH
  simp only [hp]
  rw [climb_midpoint_shift H post n p.index p.target s rest m hodd hadj hs ht hm1 hm2]

end C30
