import Proofs.Merkle.Climb
/-!
# C30 — Merkle-sum-index proofs cannot be forged or replayed

Model: `PocketModel/Merkle/SumIndex.lean` (`x/pocketcore/types/merkle.go`).
-/
namespace C30
open SumIndex

/-- Any range the verification loop visits with `lower ≥ upper` — the target at the level reached, or
the sibling stored for that level — ends verification with `(false, replay = true)`. -/
theorem zero_width_rejected_as_replay (H : Bytes → Bytes) (post : Bool) (n : Nat) (idx : Int)
    (t : HashRange) (sibs : List HashRange)
    (h : t.upper ≤ t.lower ∨ (∃ s rest, sibs = s :: rest ∧ s.upper ≤ s.lower)) :
    climb H post (n + 1) idx t sibs = .fail true := by
  by_cases ht : t.isValid = true
  · rcases h with h | ⟨s, rest, rfl, hs⟩
    · exact absurd ((isValid_iff t).mp ht) (by omega)
    · exact climb_sibling_invalid H post n idx t s rest ht ((isValid_false_iff s).mpr hs)
  · exact climb_target_invalid H post n idx t sibs (by simpa using ht)

example : climb id true 3 5 ⟨[1], 7, 7⟩ [⟨[2], 1, 7⟩] = .fail true := by decide

end C30
