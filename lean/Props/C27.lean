import Proofs.Num.Root100.Lift
/-!
# C27 — Stake-weighted reward computation terminates and is monotone

Model: `PocketModel/Num/FracPow.lean` (types/decimal.go `ApproxRoot`, `Power`, `FracPow`;
x/nodes/keeper/reward.go `calculateRewardRewardPip22`; x/nodes/keeper/slash.go `BurnForChallenge`).
`fuel` is the number of iterations the (uncapped) Newton loop of `ApproxRoot` is allowed; `timeout`
means the loop did not finish within it.  `err` is a Go panic.  All statements are for every stake,
relay count, multiplier, weight multiplier and **every exponent** (on or off the 1/100 grid); the
only bound is the one that is the finding: the number of bins `ceiling / floor ≤ 498`.
-/
namespace C27
open BigDec

/-- The PIP-22 parameter sets the property calls valid.  (pocket-core validates none of the four
stake-weight parameters; these are the conditions under which the code makes sense at all:
a positive bin width, at least one bin, a positive weight divisor.  `ceiling` is an int64.) -/
structure Valid (p : Pip22) : Prop where
  floor_pos : 0 < p.floor
  floor_le_ceiling : p.floor ≤ p.ceiling
  ceiling_range : p.ceiling < 2 ^ 255
  wm_pos : 0 < p.wm

/-! ## general lemmas (all inputs) -/

/-- `Power` is monotone on non-negative decimals through the banker's rounding of every `Mul`. -/
theorem power_mono {x y b : Int} (n : Nat) (hx : 0 ≤ x) (hxy : x ≤ y) (h : power y n = some b) :
    ∃ a, power x n = some a ∧ 0 ≤ a ∧ a ≤ b := BigDec.power_mono n hx hxy h

theorem mul_mono {a a' b b' r' : Int} (ha : 0 ≤ a) (haa : a ≤ a') (hb : 0 ≤ b) (hbb : b ≤ b')
    (h : mul a' b' = some r') : ∃ r, mul a b = some r ∧ 0 ≤ r ∧ r ≤ r' := BigDec.mul_mono ha haa hb hbb h

theorem quo_mono {a a' b r' : Int} (ha : 0 ≤ a) (haa : a ≤ a') (hb : 0 < b)
    (h : quo a' b = some r') : ∃ r, quo a b = some r ∧ 0 ≤ r ∧ r ≤ r' := BigDec.quo_mono ha haa hb h

theorem truncate_mono {x y : Int} (hx : 0 ≤ x) (h : x ≤ y) : truncateInt x ≤ truncateInt y :=
  chopTrunc_mono hx h

theorem round_mono {x y : Int} (h : x ≤ y) : chopRound x ≤ chopRound y := chopRound_mono h

/-- The Newton iterates of `ApproxRoot` never become negative (any root, any decimal ≥ 0). -/
theorem root_nonneg {d r : Int} {root fuel : Nat} (hd : 0 ≤ d) (h : approxRoot d root fuel = .val r) :
    0 ≤ r := approxRoot_nonneg hd h

/-- The fuel is only an observer: a finished `ApproxRoot` is the same for every larger fuel. -/
theorem root_fuel_irrelevant {d : Int} {root fuel fuel' : Nat} {o : Out} (hle : fuel ≤ fuel')
    (h : approxRoot d root fuel = o) (hne : o ≠ .timeout) : approxRoot d root fuel' = o :=
  approxRoot_fuel_le hle h hne

/-! ## the finite table and what lies beyond it -/

/-- **root100_table** (`decide +kernel`, 16 modules): for all bins `b ≤ b' ≤ 498` the 100th roots
are reached within 180 Newton iterations, are non-negative, and `root b ≤ root b'`. -/
theorem root100_table {b b' : Int} (hb : 0 ≤ b) (hbb : b ≤ b') (hB : b' ≤ 498) {fuel : Nat}
    (hf : 180 ≤ fuel) :
    ∃ g g', approxRoot (ofInt b) 100 fuel = .val g ∧ approxRoot (ofInt b') 100 fuel = .val g' ∧
      0 ≤ g ∧ g ≤ g' := rootMono_table hf b b' hb hbb hB

/-- **root100_overflow**: from bin 499 on (every bin, however large) `ApproxRoot(100)` returns an
error within two iterations — `guess.Power(99)` exceeds 315 bits. -/
theorem root100_overflow {b : Int} (hb : 499 ≤ b) {fuel : Nat} (hf : 2 ≤ fuel) :
    approxRoot (ofInt b) 100 fuel = .err := BigDec.root100_overflow hb hf

/-- … and `FracPow` then returns 1 whatever the (non-zero) exponent. -/
theorem fracpow_overflow_to_one {b e : Int} (hb : 499 ≤ b) {fuel : Nat} (hf : 2 ≤ fuel) {v : Int}
    (h : fracPow (ofInt b) e 100 fuel = .val v) : v = one := fracPow_collapses hb hf h

/-- Termination of the root for **every** non-negative integer bin: 180 iterations always suffice. -/
theorem root100_terminates {b : Int} (hb : 0 ≤ b) {fuel : Nat} (hf : 180 ≤ fuel) :
    approxRoot (ofInt b) 100 fuel ≠ .timeout := by
  by_cases h : b ≤ 498
  · obtain ⟨g, _, hg, _, _, _⟩ := root100_table hb (Int.le_refl b) h hf
    rw [hg]; simp
  · rw [BigDec.root100_overflow (by omega) (by omega)]; simp

/-! ## reward -/

/-- The reward computation terminates for every stake and every valid parameter set (also beyond
498 bins), and 180 iterations of the root loop always suffice. -/
theorem reward_terminates {p : Pip22} (hv : Valid p) {r s m : Int} (hs : 0 ≤ s) (hs' : s < 2 ^ 255)
    {fuel : Nat} (hf : 180 ≤ fuel) : calculateReward p r s m fuel ≠ .timeout := by
  unfold calculateReward
  rw [calculateRewardR_eq hv.floor_pos hs hs' (by have := hv.floor_pos; have := hv.floor_le_ceiling; omega) hv.ceiling_range]
  exact coinsOfBin_no_timeout
    (root100_terminates (rbin_nonneg hv.floor_pos hs (by have := hv.floor_pos; have := hv.floor_le_ceiling; omega)) hf)

/-- … and its result does not depend on how many more iterations are allowed. -/
theorem reward_fuel_irrelevant {p : Pip22} (hv : Valid p) {r s m : Int} (hs : 0 ≤ s)
    (hs' : s < 2 ^ 255) {fuel fuel' : Nat} (hf : 180 ≤ fuel) (hff : fuel ≤ fuel') :
    calculateReward p r s m fuel' = calculateReward p r s m fuel := by
  have hc : 0 ≤ p.ceiling := by have := hv.floor_pos; have := hv.floor_le_ceiling; omega
  unfold calculateReward
  rw [calculateRewardR_eq hv.floor_pos hs hs' hc hv.ceiling_range,
    calculateRewardR_eq hv.floor_pos hs hs' hc hv.ceiling_range]
  apply coinsOfBin_congr
  exact approxRoot_fuel_le hff rfl (root100_terminates (rbin_nonneg hv.floor_pos hs hc) hf)

/-- **reward_mono_relays** (all stakes, all valid parameters, all bins incl. the overflow region):
fewer relays never earn more; if the larger computation does not panic the smaller does not. -/
theorem reward_mono_relays {p : Pip22} (hv : Valid p) {r r' s m c' : Int} {fuel : Nat}
    (hs : 0 ≤ s) (hs' : s < 2 ^ 255) (hm : 0 ≤ m) (hr : 0 ≤ r) (hrr : r ≤ r')
    (h : calculateReward p r' s m fuel = .val c') :
    ∃ c, calculateReward p r s m fuel = .val c ∧ 0 ≤ c ∧ c ≤ c' := by
  have hc : 0 ≤ p.ceiling := by have := hv.floor_pos; have := hv.floor_le_ceiling; omega
  unfold calculateReward at h ⊢
  rw [calculateRewardR_eq hv.floor_pos hs hs' hc hv.ceiling_range] at h ⊢
  exact coinsOfBin_mono_count (rootOracle_nonneg _ _) hv.wm_pos (rbin_nonneg hv.floor_pos hs hc) hm hr hrr h

/-- **reward_nonneg**. -/
theorem reward_nonneg {p : Pip22} (hv : Valid p) {r s m c : Int} {fuel : Nat}
    (hs : 0 ≤ s) (hs' : s < 2 ^ 255) (hm : 0 ≤ m) (hr : 0 ≤ r)
    (h : calculateReward p r s m fuel = .val c) : 0 ≤ c := by
  obtain ⟨c0, h0, hc0, _⟩ := reward_mono_relays hv hs hs' hm hr (Int.le_refl r) h
  rw [h] at h0; cases h0; exact hc0

/-- **floored_stake_mono**: the floored stake never decreases with the stake. -/
theorem floored_stake_mono {p : Pip22} (hv : Valid p) {s s' a a' : Int} (hs : 0 ≤ s) (hss : s ≤ s')
    (hs' : s' < 2 ^ 255) (h : flooredStake p s = some a) (h' : flooredStake p s' = some a') : a ≤ a' := by
  have hc : 0 ≤ p.ceiling := by have := hv.floor_pos; have := hv.floor_le_ceiling; omega
  rw [flooredStake_eq hv.floor_pos hs (by omega) hc hv.ceiling_range] at h
  rw [flooredStake_eq hv.floor_pos (by omega) hs' hc hv.ceiling_range] at h'
  cases h; cases h'
  exact Int.mul_le_mul_of_nonneg_left (rbin_mono hv.floor_pos hss) (by have := hv.floor_pos; omega)

/-- **reward_const_above_ceiling**: from the ceiling on the reward is the reward at the ceiling
(every stake, every valid parameter set, also in the overflow region). -/
theorem reward_const_above_ceiling {p : Pip22} (hv : Valid p) {r s m : Int} {fuel : Nat}
    (hs : p.ceiling ≤ s) (hs' : s < 2 ^ 255) :
    calculateReward p r s m fuel = calculateReward p r p.ceiling m fuel := by
  have hc : 0 ≤ p.ceiling := by have := hv.floor_pos; have := hv.floor_le_ceiling; omega
  unfold calculateReward
  rw [calculateRewardR_eq hv.floor_pos (by omega) hs' hc hv.ceiling_range,
    calculateRewardR_eq hv.floor_pos hc hv.ceiling_range hc hv.ceiling_range,
    rbin_above_ceiling hv.floor_pos hs, rbin_above_ceiling hv.floor_pos (Int.le_refl _)]

/-- **reward_mono_stake** — the partial theorem whose extra hypothesis is exactly the excluded
point (`ceiling / floor ≤ 498`, i.e. no bin in the overflow region): for every exponent, every
weight multiplier, relay count and multiplier, a larger stake never earns less; if the
computation at the larger stake does not panic, the one at the smaller stake does not either. -/
theorem reward_mono_stake {p : Pip22} (hv : Valid p) (hbins : p.ceiling / p.floor ≤ 498)
    {r s s' m c' : Int} {fuel : Nat} (hf : 180 ≤ fuel) (hs : 0 ≤ s) (hss : s ≤ s') (hs' : s' < 2 ^ 255)
    (hm : 0 ≤ m) (hr : 0 ≤ r) (h : calculateReward p r s' m fuel = .val c') :
    ∃ c, calculateReward p r s m fuel = .val c ∧ 0 ≤ c ∧ c ≤ c' := by
  have hc : 0 ≤ p.ceiling := by have := hv.floor_pos; have := hv.floor_le_ceiling; omega
  unfold calculateReward at h ⊢
  rw [calculateRewardR_eq hv.floor_pos (by omega) hs' hc hv.ceiling_range] at h
  rw [calculateRewardR_eq hv.floor_pos hs (by omega) hc hv.ceiling_range]
  exact coinsOfBin_mono (rootMono_table hf) hv.wm_pos (rbin_nonneg hv.floor_pos hs hc)
    (rbin_mono hv.floor_pos hss) (Int.le_trans (rbin_le_ceiling p s') hbins) hm hr (Int.le_refl r) h

/-! ### the full statement is false: bins ≥ 499 -/

private def pBig : Pip22 := ⟨1, 600, one, one⟩

/-- The 100th root of bin 498 (the last bin that does not overflow), via the sound fast evaluator. -/
theorem root498 : rootOracle 100 180 (ofInt 498) = .val 1064075131533726675 := by
  have h : Fast.root 180 498 = some 1064075131533726675 := by decide +kernel
  exact Fast.root_sound h

private def R498 : Int → Out := fun d => if d = ofInt 498 then .val 1064075131533726675 else .err

/-- Witness replayed on the real code (floor 1, ceiling 600, exponent 1, weight multiplier 1,
multiplier 1000, 10 relays): stake 498 earns 4 980 000, stake 499 earns 10 000. -/
theorem reward_mono_stake_witness :
    calculateReward pBig 10 498 1000 180 = .val 4980000 ∧
    calculateReward pBig 10 499 1000 180 = .val 10000 := by
  constructor
  · unfold calculateReward
    rw [calculateRewardR_eq (by decide) (by decide) (by decide) (by decide) (by decide)]
    have e : rbin pBig 498 = 498 := by decide
    rw [e, coinsOfBin_congr (R' := R498) (by show rootOracle 100 180 (ofInt 498) = _; rw [root498]; rfl)]
    decide +kernel
  · unfold calculateReward
    rw [calculateRewardR_eq (by decide) (by decide) (by decide) (by decide) (by decide)]
    have e : rbin pBig 499 = 499 := by decide
    rw [e, coinsOfBin_congr (R' := R498)
      (by show approxRoot (ofInt 499) 100 180 = _; rw [BigDec.root100_overflow (by decide) (by decide)]; rfl)]
    decide +kernel

/-- **reward_mono_stake_fails_large_bins**: without the bound on the number of bins the reward is
*not* monotone in the stake (valid parameters, stakes 498 < 499). -/
theorem reward_mono_stake_fails_large_bins :
    ¬ (∀ (p : Pip22), Valid p → ∀ (r s s' m c c' : Int), 0 ≤ s → s ≤ s' → s' < 2 ^ 255 → 0 ≤ m → 0 ≤ r →
        calculateReward p r s m 180 = .val c → calculateReward p r s' m 180 = .val c' → c ≤ c') := by
  intro h
  have := h pBig ⟨by decide, by decide, by decide, by decide⟩ 10 498 499 1000 4980000 10000
    (by decide) (by decide) (by decide) (by decide) (by decide)
    reward_mono_stake_witness.1 reward_mono_stake_witness.2
  exact absurd this (by decide)

/-! ## challenge burn -/

/-- The burn computation terminates for every stake and every valid parameter set. -/
theorem burn_terminates {p : Pip22} (hv : Valid p) {ch s m : Int} (hs : 0 ≤ s) (hs' : s < 2 ^ 255)
    {fuel : Nat} (hf : 180 ≤ fuel) : burnForChallenge p ch s m fuel ≠ .timeout := by
  unfold burnForChallenge
  rw [burnForChallengeR_eq hv.floor_pos hv.floor_le_ceiling hs hs' hv.ceiling_range]
  exact coinsOfBin_no_timeout (root100_terminates (bbin_nonneg hv.floor_pos hv.floor_le_ceiling hs) hf)

/-- Burn: monotone in the number of challenges and never negative (all stakes, all bins). -/
theorem burn_mono_challenges {p : Pip22} (hv : Valid p) {ch ch' s m c' : Int} {fuel : Nat}
    (hs : 0 ≤ s) (hs' : s < 2 ^ 255) (hm : 0 ≤ m) (hc : 0 ≤ ch) (hcc : ch ≤ ch')
    (h : burnForChallenge p ch' s m fuel = .val c') :
    ∃ c, burnForChallenge p ch s m fuel = .val c ∧ 0 ≤ c ∧ c ≤ c' := by
  unfold burnForChallenge at h ⊢
  rw [burnForChallengeR_eq hv.floor_pos hv.floor_le_ceiling hs hs' hv.ceiling_range] at h ⊢
  exact coinsOfBin_mono_count (rootOracle_nonneg _ _) hv.wm_pos
    (bbin_nonneg hv.floor_pos hv.floor_le_ceiling hs) hm hc hcc h

theorem burn_nonneg {p : Pip22} (hv : Valid p) {ch s m c : Int} {fuel : Nat}
    (hs : 0 ≤ s) (hs' : s < 2 ^ 255) (hm : 0 ≤ m) (hc : 0 ≤ ch)
    (h : burnForChallenge p ch s m fuel = .val c) : 0 ≤ c := by
  obtain ⟨c0, h0, hc0, _⟩ := burn_mono_challenges hv hs hs' hm hc (Int.le_refl ch) h
  rw [h] at h0; cases h0; exact hc0

/-- Up to the ceiling the burn is computed from the same bin as the reward. -/
theorem burn_eq_reward_upto_ceiling {p : Pip22} (hv : Valid p) {n s m : Int} {fuel : Nat}
    (hs : 0 ≤ s) (hsc : s ≤ p.ceiling) :
    burnForChallenge p n s m fuel = calculateReward p n s m fuel := by
  have hc : 0 ≤ p.ceiling := by have := hv.floor_pos; have := hv.floor_le_ceiling; omega
  have hs' : s < 2 ^ 255 := by have := hv.ceiling_range; omega
  unfold burnForChallenge calculateReward
  rw [burnForChallengeR_eq hv.floor_pos hv.floor_le_ceiling hs hs' hv.ceiling_range,
    calculateRewardR_eq hv.floor_pos hs hs' hc hv.ceiling_range, bbin_eq_rbin hv.floor_pos (Or.inl hsc)]

private def pBurn : Pip22 := ⟨15, 60, one, one⟩

/-- **burn_not_monotone** (replayed on the real code: floor 15, ceiling 60, exponent 1, multiplier 1,
10 challenges): stake 60 burns 40, stake 61 burns 30 — `ceiling − stake mod floor` drops the stake
into the bin below — and stake 75 burns 40 again (not constant above the ceiling either). -/
theorem burn_not_monotone :
    burnForChallenge pBurn 10 60 1 180 = .val 40 ∧ burnForChallenge pBurn 10 61 1 180 = .val 30 ∧
    burnForChallenge pBurn 10 75 1 180 = .val 40 := by
  refine ⟨?_, ?_, ?_⟩ <;> decide +kernel

theorem burn_mono_stake_fails :
    ¬ (∀ (p : Pip22), Valid p → p.ceiling / p.floor ≤ 498 → ∀ (n s s' m c c' : Int), 0 ≤ s → s ≤ s' →
        s' < 2 ^ 255 → 0 ≤ m → 0 ≤ n →
        burnForChallenge p n s m 180 = .val c → burnForChallenge p n s' m 180 = .val c' → c ≤ c') := by
  intro h
  have := h pBurn ⟨by decide, by decide, by decide, by decide⟩ (by decide) 10 60 61 1 40 30
    (by decide) (by decide) (by decide) (by decide) (by decide) burn_not_monotone.1 burn_not_monotone.2.1
  exact absurd this (by decide)

/-- **burn_mono_partial**: the burn is monotone in the stake at every larger stake `s'` at which
`BurnForChallenge`'s own flooring agrees with the reward flooring — `s' ≤ ceiling` or
`s' mod floor ≤ ceiling mod floor` (exactly the excluded points are those above the ceiling with a
larger remainder) — and with no bin in the overflow region. -/
theorem burn_mono_partial {p : Pip22} (hv : Valid p) (hbins : p.ceiling / p.floor ≤ 498)
    {n s s' m c' : Int} {fuel : Nat} (hf : 180 ≤ fuel) (hs : 0 ≤ s) (hss : s ≤ s') (hs' : s' < 2 ^ 255)
    (hgood : s' ≤ p.ceiling ∨ s' % p.floor ≤ p.ceiling % p.floor)
    (hm : 0 ≤ m) (hn : 0 ≤ n) (h : burnForChallenge p n s' m fuel = .val c') :
    ∃ c, burnForChallenge p n s m fuel = .val c ∧ 0 ≤ c ∧ c ≤ c' := by
  unfold burnForChallenge at h ⊢
  rw [burnForChallengeR_eq hv.floor_pos hv.floor_le_ceiling (by omega) hs' hv.ceiling_range] at h
  rw [burnForChallengeR_eq hv.floor_pos hv.floor_le_ceiling hs (by omega) hv.ceiling_range]
  rw [bbin_eq_rbin hv.floor_pos hgood] at h
  exact coinsOfBin_mono (rootMono_table hf) hv.wm_pos (bbin_nonneg hv.floor_pos hv.floor_le_ceiling hs)
    (Int.le_trans (bbin_le_rbin hv.floor_pos) (rbin_mono hv.floor_pos hss))
    (Int.le_trans (rbin_le_ceiling p s') hbins) hm hn (Int.le_refl n) h

/-! ## Non-vacuity -/

/-- production-like parameters: floor 15 000 POKT, ceiling 60 000 POKT, exponent 1, weight multiplier 1 -/
private def pProd : Pip22 := ⟨15000000000, 60000000000, one, one⟩
example : Valid pProd ∧ pProd.ceiling / pProd.floor ≤ 498 := ⟨⟨by decide, by decide, by decide, by decide⟩, by decide⟩
example : calculateReward pProd 1000 30000000000 1000 180 = .val 2000000 ∧
    calculateReward pProd 1000 45000000001 1000 180 = .val 3000000 := by
  constructor <;> decide +kernel
example : Valid pBurn ∧ Valid pBig := ⟨⟨by decide, by decide, by decide, by decide⟩, ⟨by decide, by decide, by decide, by decide⟩⟩
example : power 1500000000000000000 2 = some 2250000000000000000 := by decide +kernel
example : approxRoot (ofInt 4) 2 180 = .val 2000000000000000000 := by decide +kernel

end C27
