import PocketModel.Store.HeightCache
/-!
# C10 — Enabling the state cache never changes what any read returns
-/
namespace C10
open HeightCache

/-- two keys `b`, `d`, two commits, capacity 2: height 1 is served from the cache -/
def hist : List Op := [.set [0x62] [0x31], .set [0x64] [0x32], .commit, .commit]

/-- the store a reader gets from `LazyLoadStore(h)` after the history `ops` -/
def viewAt (V : Variant) (cap : Nat) (ops : List Op) (h : Int) : Option Store :=
  (Store.run V (Store.fresh (some cap)) ops).lazyLoad h

/-- as is: `Get` of an absent key at a cached height is an empty non-nil slice, the tree gives nil. -/
theorem get_absent_differs :
    (viewAt asIs 2 hist 1).map (fun v => (v.served, v.read asIs (.get [0x78]), v.readNoCache (.get [0x78])))
      = some (true, .val (some []), .val none) := by decide

end C10
