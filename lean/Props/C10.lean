import Proofs.Store.HeightCache
/-!
# C10 — Enabling the state cache never changes what any read returns

Model: `PocketModel/Store/HeightCache.lean` (`store/rootmulti/heightcache/*`, the cache calls in
`store/iavl/store.go`).  A history is any list of `set`/`del`/`commit`/`reopen`; a reader obtains the
store of a saved height `h` by `lazyLoad h` (`Store.LazyLoadStore`, used by
`rootmulti.LoadLazyVersion` and `CacheMultiStoreWithVersion`).  `read V` is the read with the cache of
variant `V` (`asIs` = /repo today, `fixed` = after `fixes/C10-heightcache.patch`), `readNoCache` the
same read on the same node with the cache disabled.
-/
namespace C10
open HeightCache

/-- the store a reader gets from `LazyLoadStore(h)` after the history `ops`; `cap = none`: cache off -/
def viewAt (V : Variant) (cap : Option Nat) (ops : List Op) (h : Int) : Option Store :=
  (Store.run V (Store.fresh cap) ops).lazyLoad h

/-- two keys `b`, `d`, two commits: with capacity 2 height 1 is served from the cache -/
def hist : List Op := [.set [0x62] [0x31], .set [0x64] [0x32], .commit, .commit]

/-! ## The fixed code: full transparency -/

/-- **cache_transparent** (fixed code).  For every capacity, every history, every saved height
(served from the cache or not) and every read — `Get`, `Has`, both through a `cachekv` wrapper,
`Iterator`/`ReverseIterator` with arbitrary nil / empty / non-empty bounds — the store with the height
cache returns exactly what it returns with the cache disabled. -/
theorem cache_transparent (cap : Nat) (ops : List Op) (h : Int) (view : Store)
    (hv : viewAt fixed (some cap) ops h = some view) (r : Read) :
    view.read fixed r = view.readNoCache r :=
  transparent_of_variant (V := fixed) (fun _ _ => rfl) (fun d hd st e asc => fixed_iter_eq d hd st e asc)
    (inv_run fixed ops _ (inv_fresh fixed (some cap))) hv r

/-- non-vacuity: height 1 of `hist` is served from the cache, and the reads are non-trivial -/
example : (viewAt fixed (some 2) hist 1).map (fun v => (v.served, v.read fixed (.iter (some [0x61]) (some [0x64]) false)))
    = some (true, .items ⟨[([0x62], [0x31])], false⟩) := by decide

/-- The same on the working store (uncommitted writes pending): it is never served from the cache. -/
theorem cache_transparent_working (V : Variant) (cap : Nat) (ops : List Op) (r : Read) :
    (Store.run V (Store.fresh (some cap)) ops).read V r = (Store.run V (Store.fresh (some cap)) ops).readNoCache r :=
  working_read (inv_run V ops _ (inv_fresh V (some cap))) r

example : (Store.run fixed (Store.fresh (some 2)) (hist ++ [.del [0x62]])).read fixed (.iter none none true)
    = .items ⟨[([0x64], [0x32])], false⟩ := by decide

/-- Twin form: a node started with the cache enabled and a node started with it disabled, fed the same
history, answer every read at every saved height identically (fixed code). -/
theorem cache_transparent_twin (cap : Nat) (ops : List Op) (h : Int) (von voff : Store)
    (hon : viewAt fixed (some cap) ops h = some von) (hoff : viewAt fixed none ops h = some voff) (r : Read) :
    von.read fixed r = voff.read fixed r := by
  rw [cache_transparent cap ops h von hon r]
  obtain ⟨d1, h1, rfl⟩ := lazyLoad_eq hon
  obtain ⟨d2, h2, rfl⟩ := lazyLoad_eq hoff
  obtain ⟨_, _, e3⟩ := twin_tree fixed ops (Store.fresh (some cap)) (Store.fresh none) rfl rfl rfl
  rw [e3, h2] at h1
  injection h1 with h1
  subst h1
  have hc : (Store.run fixed (Store.fresh none) ops).cache = none := run_cache_none fixed ops _ rfl
  cases r <;> simp [Store.readNoCache, Store.read, Store.get, Store.iter, hc]

example : (viewAt fixed none hist 1).isSome = true := by decide

/-! ## The code as it is: counterexamples -/

/-- as is: `Get` of a key absent at a cached height is an empty non-nil slice; the tree gives nil. -/
theorem get_absent_differs :
    (viewAt asIs (some 2) hist 1).map (fun v => (v.served, v.read asIs (.get [0x78]), v.readNoCache (.get [0x78])))
      = some (true, .val (some []), .val none) := by decide

/-- as is: consequently `Has` through a `cachekv` wrapper reports an absent key as present. -/
theorem hasw_absent_true :
    (viewAt asIs (some 2) hist 1).map (fun v => (v.read asIs (.hasW [0x78]), v.readNoCache (.hasW [0x78])))
      = some (.bool true, .bool false) := by decide

/-- as is: `Iterator(nil, nil)` yields `len(data)` spurious empty keys before the real ones. -/
theorem iter_spurious_empty_keys :
    (viewAt asIs (some 2) hist 1).map (fun v => (v.read asIs (.iter none none true), v.readNoCache (.iter none none true)))
      = some (.items ⟨[([], []), ([], []), ([0x62], [0x31]), ([0x64], [0x32])], false⟩,
              .items ⟨[([0x62], [0x31]), ([0x64], [0x32])], false⟩) := by decide

/-- as is: `Iterator("c", nil)` swaps its bounds and yields the keys *below* `c` (and the padding). -/
theorem iter_open_end_swapped :
    (viewAt asIs (some 2) hist 1).map (fun v => (v.read asIs (.iter (some [0x63]) none true), v.readNoCache (.iter (some [0x63]) none true)))
      = some (.items ⟨[([], []), ([], []), ([0x62], [0x31])], false⟩, .items ⟨[([0x64], [0x32])], false⟩) := by decide

/-- as is: `ReverseIterator("a", "d")` over `{b, d}` yields nothing; the tree yields `b`. -/
theorem riter_end_key_dropped :
    (viewAt asIs (some 2) hist 1).map (fun v => (v.read asIs (.iter (some [0x61]) (some [0x64]) false), v.readNoCache (.iter (some [0x61]) (some [0x64]) false)))
      = some (.items ⟨[], false⟩, .items ⟨[([0x62], [0x31])], false⟩) := by decide

/-- as is: `ReverseIterator(nil, "e")` runs through the padding and panics on `sortedKeys[-1]`. -/
theorem riter_index_underflow :
    (viewAt asIs (some 2) hist 1).map (fun v => (v.read asIs (.iter none (some [0x65]) false), v.readNoCache (.iter none (some [0x65]) false)))
      = some (.items ⟨[([0x64], [0x32]), ([0x62], [0x31]), ([], []), ([], [])], true⟩,
              .items ⟨[([0x64], [0x32]), ([0x62], [0x31])], false⟩) := by decide

/-- as is: an empty non-nil end bound is read as "open"; the tree yields nothing. -/
theorem iter_empty_end_unbounded :
    (viewAt asIs (some 2) hist 1).map (fun v => (v.read asIs (.iter (some [0x63]) (some []) true), v.readNoCache (.iter (some [0x63]) (some []) true)))
      = some (.items ⟨[([], []), ([], []), ([0x62], [0x31])], false⟩, .items ⟨[], false⟩) := by decide

/-- The property is false of the code as it is. -/
theorem cache_transparent_asis_fails :
    ¬ ∀ (cap : Nat) (ops : List Op) (h : Int) (view : Store), viewAt asIs (some cap) ops h = some view →
      ∀ r, view.read asIs r = view.readNoCache r := by
  intro hall
  cases hv : viewAt asIs (some 2) hist 1 with
  | none =>
    have : (viewAt asIs (some 2) hist 1).isSome = true := by decide
    simp [hv] at this
  | some view =>
    have h1 := hall 2 hist 1 view hv (.get [0x78])
    have h2 := get_absent_differs
    rw [hv] at h2
    simp only [Option.map_some, Option.some.injEq, Prod.mk.injEq] at h2
    rw [h2.2.1, h2.2.2] at h1
    cases h1

/-! ## The code as it is: what *is* transparent -/

/-- The reads that the as-is cache answers like the tree (at any height, served or not):
`Has`; `Get` (also through `cachekv`, and `Has` through `cachekv`) of a key that is present at that
height; every range read when the snapshot is empty. -/
def TransparentAsIs (view : Store) : Read → Prop
  | .has _ => True
  | .get k => (view.working.get k).isSome
  | .getW k => (view.working.get k).isSome
  | .hasW k => (view.working.get k).isSome
  | .iter _ _ _ => view.working = []
  | .iterW _ _ _ => view.working = []

theorem asis_iter_empty (st e : Option Bytes) (asc : Bool) : asIs.iter [] (asIs.ordered []) st e asc = treeIter [] st e asc := by
  simp only [asIs, newIterAsIs, Data.keys, List.length_nil, List.replicate_zero, List.append_nil, List.map_nil]
  have hf : ∀ x : Bytes, findStart [] x 0 = 0 := fun _ => rfl
  split
  · cases asc <;> simp [drain, validAsIs, emptyIter, treeIter]
  · cases asc <;> simp [drain, validAsIs, treeIter, hf]

/-- **cache_transparent_asis_partial**: on the code as it is, every read in `TransparentAsIs` — and
every read at a height that is not served from the cache — returns what the cache-less store returns. -/
theorem cache_transparent_asis_partial (cap : Nat) (ops : List Op) (h : Int) (view : Store)
    (hv : viewAt asIs (some cap) ops h = some view) (r : Read)
    (hr : TransparentAsIs view r ∨ view.served = false) :
    view.read asIs r = view.readNoCache r := by
  have hi := inv_run asIs ops _ (inv_fresh asIs (some cap))
  have hg : ∀ k, (view.working.get k).isSome ∨ view.served = false → view.get asIs k = view.working.get k := by
    intro k hk
    rcases view_get_cases hi hv k with h | ⟨hs, h⟩
    · exact h
    · rcases hk with hk | hk
      · rw [h]
        cases hx : view.working.get k with
        | none => simp [hx] at hk
        | some v => simp [asIs, hx]
      · rw [hk] at hs; cases hs
  have hit : ∀ st e asc, view.working = [] ∨ view.served = false → view.iter asIs st e asc = treeIter view.working st e asc := by
    intro st e asc hk
    rcases view_iter_cases hi hv st e asc with h | ⟨hs, h⟩
    · exact h
    · rcases hk with hk | hk
      · rw [h, hk]; exact asis_iter_empty st e asc
      · rw [hk] at hs; cases hs
  cases r with
  | has k => simp [Store.read]
  | get k => simp [Store.read]; exact hg k (by simpa [TransparentAsIs] using hr)
  | getW k => simp [Store.read]; exact hg k (by simpa [TransparentAsIs] using hr)
  | hasW k => simp [Store.read]; rw [hg k (by simpa [TransparentAsIs] using hr)]
  | iter st e asc => simp [Store.read]; exact hit st e asc (by simpa [TransparentAsIs] using hr)
  | iterW st e asc => simp [Store.read]; exact hit st e asc (by simpa [TransparentAsIs] using hr)

/-- non-vacuity: a present key at a served height -/
example : (viewAt asIs (some 2) hist 1).map (fun v => (v.served, v.read asIs (.get [0x62]))) = some (true, .val (some [0x31])) := by decide

end C10
