import PocketModel.Claims
/-!
# C31 — The proof leaf is unpredictable when the claim is committed

Model: `PocketModel/Claims.lean`.  `B` = blocks per session, `W` = claim submission window, `S` =
session height, `H` = height of the block carrying the claim.
-/
namespace C31
open Claims

/-- Leaf selection is a function of the block hash, the session header hash and the claimed relay
count (and of nothing else). -/
theorem index_deterministic (Hash : Bytes → Bytes) (t1 t2 : Nat) (b1 b2 h1 h2 : Bytes)
    (ht : t1 = t2) (hb : b1 = b2) (hh : h1 = h2) :
    pseudorandomIndex Hash t1 b1 h1 = pseudorandomIndex Hash t2 b2 h2 := by
  subst ht hb hh; rfl

/-- The selected leaf lies within the claimed relay count. -/
theorem index_in_range (Hash : Bytes → Bytes) (total : Nat) (b h : Bytes) (hpos : 0 < total) :
    pseudorandomIndex Hash total b h < total := Nat.mod_lt _ hpos

/-- The heights at which a claim passes both height checks: from the first block after the session
to the block `S + W·B` inclusive. -/
theorem accepted_iff_window (p : Params) (H S : Int) :
    claimAccepted p p H S = true ↔ S + p.blocksPerSession ≤ H ∧ H ≤ S + p.window * p.blocksPerSession := by
  unfold claimAccepted claimHeightCheck claimIsMature sessionEndHeight
  by_cases h1 : H ≤ S + p.blocksPerSession - 1
  · simp [h1]; omega
  · by_cases h2 : H > p.window * p.blocksPerSession + S
    · simp [h1, h2]; omega
    · simp [h1, h2]; omega

/-- Before the last accepted height the entropy block is not yet known to a claim's author. -/
theorem entropy_unknown_partial (p : Params) (H S : Int) (_hacc : claimAccepted p p H S = true)
    (hlt : H < S + p.window * p.blocksPerSession) : knownAt H (entropyBlock p S) = false := by
  unfold knownAt entropyBlock proofHeight
  simp; omega

/-- **Defect**: at `H = S + W·B` the claim still passes (`ClaimIsMature` is a strict `>`), and the
entropy block `S + W·B − 1 = H − 1` is already committed: its hash can be read before the claim
is built. -/
theorem entropy_known_at_last_claim_height (p : Params) (S : Int)
    (hB : 1 ≤ p.blocksPerSession) (hW : 1 ≤ p.window) :
    claimAccepted p p (S + p.window * p.blocksPerSession) S = true ∧
    knownAt (S + p.window * p.blocksPerSession) (entropyBlock p S) = true := by
  constructor
  · rw [accepted_iff_window]
    have : p.blocksPerSession ≤ p.window * p.blocksPerSession := by
      have := Int.mul_le_mul_of_nonneg_right hW (by omega : 0 ≤ p.blocksPerSession)
      omega
    omega
  · unfold knownAt entropyBlock proofHeight
    simp; omega

/-- Among accepted heights the entropy block is known exactly at the last one. -/
theorem entropy_known_iff_last (p : Params) (H S : Int) (hacc : claimAccepted p p H S = true) :
    knownAt H (entropyBlock p S) = true ↔ H = S + p.window * p.blocksPerSession := by
  have := (accepted_iff_window p H S).mp hacc
  unfold knownAt entropyBlock proofHeight
  simp; omega

/-- The property as stated ("not yet known at any height at which the network still accepts the
claim") is false of the code. -/
theorem entropy_unknown_at_claim_fails :
    ¬ ∀ (p : Params) (H S : Int), claimAccepted p p H S = true → knownAt H (entropyBlock p S) = false := by
  intro h
  have := h ⟨4, 3⟩ 13 1 (by decide)
  revert this
  decide

/-- With a window of one session **every** accepted claim height knows its entropy block. -/
theorem window_one_always_known (B S H : Int) (hacc : claimAccepted ⟨B, 1⟩ ⟨B, 1⟩ H S = true) :
    knownAt H (entropyBlock ⟨B, 1⟩ S) = true := by
  have := (accepted_iff_window ⟨B, 1⟩ H S).mp hacc
  unfold knownAt entropyBlock proofHeight
  simp at *; omega

/-! ## Parameters that change between session start, claim and proof

`ps`: the parameters in the state at session start (read by the session-end check and by
`getPseudorandomIndex`), `pc`: the live parameters when the claim is processed (read by `ClaimIsMature`).
The proof path does not read the live parameters at all: `proofHeight`/`entropyBlock` take `ps` only. -/

theorem accepted_iff_window_params (ps pc : Params) (H S : Int) :
    claimAccepted ps pc H S = true ↔ S + ps.blocksPerSession ≤ H ∧ H ≤ S + pc.window * pc.blocksPerSession := by
  unfold claimAccepted claimHeightCheck claimIsMature sessionEndHeight
  by_cases h1 : H ≤ S + ps.blocksPerSession - 1
  · simp [h1]; omega
  · by_cases h2 : H > pc.window * pc.blocksPerSession + S
    · simp [h1, h2]; omega
    · simp [h1, h2]; omega

/-- Whatever the live parameters are, a claim accepted below the session-start selecting height does
not know its entropy block. -/
theorem entropy_unknown_partial_params (ps pc : Params) (H S : Int) (_hacc : claimAccepted ps pc H S = true)
    (hlt : H < S + ps.window * ps.blocksPerSession) : knownAt H (entropyBlock ps S) = false := by
  unfold knownAt entropyBlock proofHeight
  simp; omega

/-- Lowering the window (or the session length) after session start only removes accepted heights:
the entropy block stays unknown except at the one height of the basic defect. -/
theorem lowered_window_is_safe (ps pc : Params) (H S : Int)
    (hle : pc.window * pc.blocksPerSession ≤ ps.window * ps.blocksPerSession)
    (hacc : claimAccepted ps pc H S = true) :
    knownAt H (entropyBlock ps S) = true ↔ H = S + ps.window * ps.blocksPerSession := by
  have := (accepted_iff_window_params ps pc H S).mp hacc
  unfold knownAt entropyBlock proofHeight
  simp; omega

/-- **Defect (parameter change)**: if governance raises `W·B` after the session started, claims are
accepted under the raised live window (`ClaimIsMature` reads the live state) while the leaf is still
selected by the session-start height: every height in `(S+W·B, S+W'·B']` accepts a claim whose
entropy block is at least two blocks old. -/
theorem entropy_known_when_window_raised (ps pc : Params) (S H : Int) (hB : 1 ≤ ps.blocksPerSession)
    (hW : 1 ≤ ps.window) (h1 : S + ps.window * ps.blocksPerSession < H)
    (h2 : H ≤ S + pc.window * pc.blocksPerSession) :
    claimAccepted ps pc H S = true ∧ knownAt H (entropyBlock ps S) = true ∧ entropyBlock ps S < H - 1 := by
  have hge : ps.blocksPerSession ≤ ps.window * ps.blocksPerSession := by
    have := Int.mul_le_mul_of_nonneg_right hW (by omega : 0 ≤ ps.blocksPerSession)
    omega
  refine ⟨(accepted_iff_window_params ps pc H S).mpr ⟨by omega, h2⟩, ?_, ?_⟩
  · unfold knownAt entropyBlock proofHeight; simp; omega
  · unfold entropyBlock proofHeight; omega

/-! ## The selecting hash cannot be looked up early -/

/-- `GetPrevBlockHash` never answers for a height above the block being processed. -/
theorem future_block_hash_unavailable (ctxH h : Int) (cached stored : Int → Bool)
    (hw : HonestWorld ctxH cached stored) (hf : ctxH < h) :
    prevBlockHashSource ctxH h cached stored = .notFound := by
  unfold prevBlockHashSource
  have h1 : ¬ h = ctxH := by omega
  have h2 : cached h ≠ true := fun e => by have := hw.1 h e; omega
  have h3 : stored h ≠ true := fun e => by have := hw.2 h e; omega
  simp [h1, h2, h3]

/-- The leaf index of a claim cannot be computed (`getPseudorandomIndex` fails, so `ValidateProof`
rejects) at any height before the selecting block `S + W·B` is being processed — in particular not in
the block that carries the claim, for every accepted claim height but the last. -/
theorem index_unavailable_before_selecting_block (p : Params) (H S : Int) (cached stored : Int → Bool)
    (hw : HonestWorld H cached stored) (hlt : H < S + p.window * p.blocksPerSession) :
    indexSource p H S cached stored = .notFound :=
  future_block_hash_unavailable H _ cached stored hw (by unfold proofHeight; omega)

/-- At the selecting height the answer comes from the block's own header; the hash is that of block
`S + W·B − 1` whatever the source. -/
theorem index_source_at_selecting_height (p : Params) (S : Int) (cached stored : Int → Bool) :
    indexSource p (proofHeight p S) S cached stored = .header := by
  simp [indexSource, prevBlockHashSource]

/-- With every past block in the store the index is available exactly from the selecting height on. -/
theorem index_available_iff (p : Params) (H S : Int) (cached stored : Int → Bool)
    (hw : HonestWorld H cached stored) (hall : ∀ x, x < H → stored x = true) :
    indexSource p H S cached stored ≠ .notFound ↔ proofHeight p S ≤ H := by
  constructor
  · intro hne
    apply Classical.byContradiction
    intro hlt
    exact hne (future_block_hash_unavailable H _ cached stored hw (by omega))
  · intro hle
    unfold indexSource prevBlockHashSource
    by_cases h1 : proofHeight p S = H
    · simp [h1]
    · have : stored (proofHeight p S) = true := hall _ (by omega)
      by_cases h2 : cached (proofHeight p S) = true <;> simp [h1, h2, this]

/-! ## Non-vacuity (mainnet values: 4 blocks per session, window 3) -/
example : claimAccepted ⟨4, 3⟩ ⟨4, 3⟩ 5 1 = true ∧ claimAccepted ⟨4, 3⟩ ⟨4, 3⟩ 13 1 = true ∧
    claimAccepted ⟨4, 3⟩ ⟨4, 3⟩ 4 1 = false ∧ claimAccepted ⟨4, 3⟩ ⟨4, 3⟩ 14 1 = false := by decide
example : entropyBlock ⟨4, 3⟩ 1 = 12 := by decide
example : knownAt 12 (entropyBlock ⟨4, 3⟩ 1) = false ∧ knownAt 13 (entropyBlock ⟨4, 3⟩ 1) = true := by decide
example : claimAccepted ⟨4, 3⟩ ⟨4, 4⟩ 15 1 = true ∧ entropyBlock ⟨4, 3⟩ 1 = 12 := by decide
example : HonestWorld 30 (fun x => decide (x = 1)) (fun x => decide (x < 30)) := by
  constructor <;> intro x hx <;> simp at hx <;> omega
example : indexSource ⟨25, 3⟩ 30 1 (fun x => decide (x = 1)) (fun x => decide (x < 30)) = .notFound := by decide

end C31
