import Proofs.Ledger.NodesExamples
import Proofs.Ledger.NodesSlash
import Proofs.Ledger.NodesC22
import Proofs.Ledger.NodesLog
/-!
# C25 — Slashing and jailing follow the documented rules

Model: `PocketModel/Ledger/Nodes.lean` — `slash` / `simpleSlash` (common tail `slashCore`),
`ForceValidatorUnstake`, `JailValidator`, `handleValidatorSignature` (`handleSig` = `sigWindowReset`,
`sigRecord`, `sigPunish`), `handleMsgUnjail`.  `Nodes.Inv` is the structural invariant that holds after every
history (`Nodes.inv_run`).  The consensus-set statement (`jailed_not_in_consensus_set`) is proved in C22's
terms in `Props/C22.lean` and restated here.
-/
namespace C25
open Nodes Nodes.Spec

/-- A challenge burn (`simpleSlash`) removes `min(requested, stake) ⊔ 0` tokens from the record and burns
exactly that amount from the pool and the supply; nothing else changes.  Below the minimum the node is
jailed and queued to unstake. -/
theorem slash_bounded (s : State) (hi : Inv s) (a : Addr) (v : Val) (hv : aget s.vals a = some v) (amount : Int)
    (hpos : 0 < amount) :
    let s' := simpleSlash s a amount
    let burned := burnAmount amount v.tokens
    burned = max (min amount v.tokens) 0 ∧ 0 ≤ burned ∧ burned ≤ v.tokens ∧ burned ≤ amount ∧
    (∃ v', aget s'.vals a = some v' ∧ burned = v.tokens - v'.tokens) ∧
    s'.supply = s.supply - burned ∧ s'.pool = s.pool - burned ∧
    (∀ b, b ≠ a → aget s'.vals b = aget s.vals b) := by
  have h := simpleSlash_slashed hi hv amount hpos
  have hk := hi.keys a v hv
  obtain ⟨v', h1, h2, _⟩ := h.record
  refine ⟨rfl, h.bounded.1, h.bounded.2.1, ?_, ⟨v', by rw [hk] at h1; exact h1, by omega⟩, h.supply, h.pool, ?_⟩
  · have := h.bounded.2.2; omega
  · intro b hb; exact h.others b (by rw [hk]; exact hb)

example : (simpleSlash Ex.s0 Ex.A 3000000).supply = Ex.s0.supply - 3000000 ∧
    (simpleSlash Ex.s0 Ex.A 99000000).supply = Ex.s0.supply - 20000000 := by decide

/-- The same for a downtime / double-sign slash of `power · 10⁶ · fraction` tokens. -/
theorem slash_bounded_fraction (s : State) (hi : Inv s) (a : Addr) (v : Val) (hv : aget s.vals a = some v)
    (h ih pw f : Int) (hf : 0 < f) (hh : ih ≤ h) :
    let s' := slash s h a ih pw f
    let burned := burnAmount (slashAmount pw f) v.tokens
    0 ≤ burned ∧ burned ≤ v.tokens ∧ (∃ v', aget s'.vals a = some v' ∧ burned = v.tokens - v'.tokens) ∧
    s'.supply = s.supply - burned ∧ s'.pool = s.pool - burned := by
  have h := slash_slashed hi hv h ih pw f hf hh
  have hk := hi.keys a v hv
  obtain ⟨v', h1, h2, _⟩ := h.record
  exact ⟨h.bounded.1, h.bounded.2.1, ⟨v', by rw [hk] at h1; exact h1, by omega⟩, h.supply, h.pool⟩

/-- Trace level: over every history every burn that follows a token removal succeeds (pool and supply shrink by
what the record lost) — the early return of `slash`/`simpleSlash` after a failed `burnStakedTokens`, which would
leave the record reduced and the coins in the pool, is unreachable. -/
theorem burns_never_fail (s : State) (hi : Inv s) (ops : List Op) (hops : ∀ op ∈ ops, op.isPoolSend = false)
    (hclean : ∀ e ∈ s.log, e.failed = false) (a : Addr) (req k : Int) (ok : Bool)
    (he : Event.burn a req k ok ∈ (run s ops).log) : ok = true := by
  obtain ⟨l, hl, hc⟩ := ext_run hi ops hops
  rw [hl] at he
  have : (Event.burn a req k ok).failed = false := by
    rcases List.mem_append.mp he with h | h
    · exact hclean _ h
    · exact hc _ h
  simpa [Event.failed] using this

/-- A slash with a non-positive amount, or of an address without record, does nothing. -/
theorem slash_noop (s : State) (a : Addr) (amount : Int) (h : amount ≤ 0 ∨ aget s.vals a = none) :
    simpleSlash s a amount = s := simpleSlash_noop s a amount h

/-- A node whose stake falls below the minimum through a slash is jailed and put into the waiting set (it
starts unstaking at the next session end, C24). -/
theorem below_min_jailed_and_queued (s : State) (hi : Inv s) (a : Addr) (v : Val) (hv : aget s.vals a = some v)
    (amount : Int) (hpos : 0 < amount) (hlow : v.tokens - burnAmount amount v.tokens < s.params.minStake) :
    ∃ v', aget (simpleSlash s a amount).vals a = some v' ∧ v'.jailed = true ∧ a ∈ (simpleSlash s a amount).waiting := by
  have h := simpleSlash_slashed hi hv amount hpos
  have hk := hi.keys a v hv
  obtain ⟨v', h1, h2, _, _, _, _, h7, _⟩ := h.record
  obtain ⟨j, w⟩ := h7 (by omega)
  exact ⟨v', by rw [hk] at h1; exact h1, j, by rw [hk] at w; exact w⟩

example : ∃ v', aget (simpleSlash Ex.s0 Ex.A 6000000).vals Ex.A = some v' ∧ v'.jailed = true ∧
    Ex.A ∈ (simpleSlash Ex.s0 Ex.A 6000000).waiting := by decide

/-- … and a slash that leaves at least the minimum neither jails nor queues. -/
theorem above_min_untouched (s : State) (hi : Inv s) (a : Addr) (v : Val) (hv : aget s.vals a = some v)
    (amount : Int) (hpos : 0 < amount) (hok : s.params.minStake ≤ v.tokens - burnAmount amount v.tokens) :
    ∃ v', aget (simpleSlash s a amount).vals a = some v' ∧ v'.jailed = v.jailed ∧
      (simpleSlash s a amount).waiting = s.waiting := by
  have h := simpleSlash_slashed hi hv amount hpos
  have hk := hi.keys a v hv
  obtain ⟨v', h1, h2, _, _, _, _, _, h8⟩ := h.record
  obtain ⟨j, w⟩ := h8 (by omega)
  exact ⟨v', by rw [hk] at h1; exact h1, j, w⟩

/-- A jailed node has no entry in the staked-by-power index, after every history: the validator-set update
cannot select it (the consensus-set form is `C22.consensus_set_unjailed`). -/
theorem jailed_not_in_staked_index (s : State) (hi : Inv s) (ops : List Op) (hops : ∀ op ∈ ops, op.isPoolSend = false)
    (a : Addr) (v : Val) (hv : aget (run s ops).vals a = some v) (hj : v.jailed = true) (p : Int) :
    (p, a) ∉ (run s ops).stakedIdx := by
  intro hm
  obtain ⟨w, hw, _, h2, _⟩ := ((inv_run hi ops hops).staked (p, a)).mp hm
  rw [hv] at hw; injection hw with hw; subst hw
  rw [hj] at h2; cases h2

/-- Jailed nodes are removed from the consensus set: after every end-block (validator split active) every
member of the set built from all reported updates is a staked, **unjailed** node holding the reported power. -/
theorem jailed_not_in_consensus_set (s : State) (h2 : Inv2 s) (h t : Int) (hh : splitHeight ≤ h) (a : Addr) (p : Int)
    (hm : aget (endBlock s h t).1.tmSet a = some p) :
    ∃ v, aget (endBlock s h t).1.vals a = some v ∧ v.status = .staked ∧ v.jailed = false ∧ powerOf v.tokens = p := by
  obtain ⟨_, sy⟩ := endBlock_outcome h2.inv h2.prev h t hh
  rw [sy.tm a] at hm
  obtain ⟨v, g1, g2, g3, g4, _⟩ := topN_member (inv_endBlock h2.inv h t) hm
  exact ⟨v, g1, g2, g3, g4⟩

/-- a node jailed for downtime disappears from the reported set at the next end-block (zero-power update) -/
example : (endBlock (step Ex.s0 (.burn Ex.B 20000000)) 4 2000).2 = [⟨Ex.A, [1, 1], 20⟩, ⟨Ex.B, [2, 2], 0⟩] := by decide

/-- An unjail message is accepted only from the operator or the output address, for a jailed node holding
at least the minimum stake, once the jail period has passed **in block time** (code after /repo 286039a; the
earlier code additionally compared `JailedUntil` with `time.Now()`, the wall clock of the executing node — the
defect of C12, see the note below `unjail_iff`). -/
theorem unjail_requires (s : State) (h t : Int) (a signer : Addr) (hok : (handleUnjail s h t a signer).2 = .ok) :
    ∃ v si, aget s.vals a = some v ∧ aget s.signInfo v.addr = some si ∧
      (signer = v.addr ∨ (v.output ≠ [] ∧ signer = v.output)) ∧ s.params.minStake ≤ v.tokens ∧ v.jailed = true ∧
      si.jailedUntil ≤ t := by
  obtain ⟨v, si, h1, h2, h3, h4, h5, h6⟩ := handleUnjail_ok_requires hok
  refine ⟨v, si, h1, h2, ?_, h4, h5, h6⟩
  unfold signerOk at h3
  split at h3
  · left; simpa using h3
  · rename_i ho
    simp only [Bool.or_eq_true, decide_eq_true_eq] at h3
    rcases h3 with e | e
    · exact Or.inl e
    · exact Or.inr ⟨ho, e⟩

/-- … and these conditions suffice: the result of an unjail is a function of the store and the block time, of
nothing else.  (Historical note: before 286039a a message meeting all of them was rejected with pos:104 whenever
`JailedUntil` lay after the local clock of the node; the driver's `unjail-depends-on-wall-clock` monitor is this
theorem evaluated on the implementation's answer.) -/
theorem unjail_iff (s : State) (h t : Int) (a signer : Addr) :
    (handleUnjail s h t a signer).2 = .ok ↔
      ∃ v si, aget s.vals a = some v ∧ aget s.signInfo v.addr = some si ∧ signerOk v.addr v.output signer = true ∧
        s.params.minStake ≤ v.tokens ∧ v.jailed = true ∧ si.jailedUntil ≤ t := by
  constructor
  · intro hok
    obtain ⟨v, si, h1, h2, h3, h4, h5, h6⟩ := handleUnjail_ok_requires hok
    exact ⟨v, si, h1, h2, h3, h4, h5, h6⟩
  · rintro ⟨v, si, h1, h2, h3, h4, h5, h6⟩
    exact handleUnjail_ok_of h1 h2 h3 h4 h5 h6

/-- jailed until 5000: rejected at block time 4999, accepted at 5000 -/
example :
    let s : State := { Ex.s0 with
      vals := aset Ex.s0.vals Ex.B { addr := Ex.B, pk := [2, 2], jailed := true, status := .staked, chains := [],
                                     url := [], tokens := 30000000, unstTime := zeroTime, output := Ex.B, delegators := [] },
      signInfo := [(Ex.B, ⟨3, 0, 5000, 0, 0⟩)] }
    (handleUnjail s 9 4999 Ex.B Ex.B).2 = .err 104 ∧ (handleUnjail s 9 5000 Ex.B Ex.B).2 = .ok := by decide

/-- `B` of the example world, jailed for downtime until block time 5000 -/
def jailedB : State := { jailValidator Ex.s0 Ex.B with signInfo := [(Ex.B, ⟨3, 0, 5000, 0, 0⟩)] }

/-- **The jail period does not survive an edit-stake** (as coded; reproduced on the real application, known finding
`unjailed-early-after-edit-stake`): `EditStakeValidator` deletes the record together with its signing info and —
from the patch height 30040 on — writes a fresh signing info whose `JailedUntil` is the zero time.  At block time
4999 the unjail of `B` (jailed until 5000) is rejected (104); after an edit-stake by `B` that changes nothing the same
unjail is accepted.  (Below the patch height the signing info is missing after the edit and the unjail answers 101
until some later write re-creates it, again with a zero `JailedUntil`.)  `unjail_requires` holds throughout: it
speaks about the *stored* `JailedUntil`. -/
theorem edit_stake_wipes_jail_period :
    (handleUnjail jailedB 30041 4999 Ex.B Ex.B).2 = .err 104 ∧
    (handleStake jailedB 30041 Ex.mB Ex.B).2 = .ok ∧
    (handleUnjail (handleStake jailedB 30041 Ex.mB Ex.B).1 30042 4999 Ex.B Ex.B).2 = .ok ∧
    (handleUnjail (handleStake jailedB 9 Ex.mB Ex.B).1 10 4999 Ex.B Ex.B).2 = .err 101 := by decide

/-- A rejected unjail leaves every record as it was. -/
theorem unjail_rejected_keeps_records (s : State) (h t : Int) (a signer : Addr)
    (herr : (handleUnjail s h t a signer).2 ≠ .ok) : (handleUnjail s h t a signer).1.vals = s.vals :=
  handleUnjail_err_vals herr

/-- Downtime accounting: the counter and the bit array move together — if the counter equals the number of
set bits when a vote is recorded it still does afterwards, the index advances by one and the bit of the
current index says whether this block was missed. -/
theorem missed_counter_exact (s : State) (a : Addr) (si : SignInfo) (signed : Bool) (hn : s.missedBits.Nodup)
    (hex : si.missed = bitCount s a) :
    (sigRecord s a si signed).2.missed = bitCount (sigRecord s a si signed).1 a ∧
    (sigRecord s a si signed).2.index = si.index + 1 ∧
    missedAt (sigRecord s a si signed).1 a si.index = !signed := by
  obtain ⟨h1, _, h3, h4⟩ := sigRecord_exact s a si signed hn hex
  exact ⟨h1, h3, h4⟩

/-- … the window reset (every `SignedBlocksWindow` blocks) clears both. -/
theorem missed_counter_window_reset (s : State) (h : Int) (a : Addr) (si : SignInfo) (hn : s.missedBits.Nodup)
    (hex : si.missed = bitCount s a) :
    (sigWindowReset s h a si).2.missed = bitCount (sigWindowReset s h a si).1 a :=
  (sigWindowReset_exact s h a si hn hex).1

/-- the hypothesis `counter = number of set bits` is not an invariant of the code: `DeleteValidator` removes
the signing info but not the bit array, so a node that stakes again inherits the old bits with a fresh
counter, which then becomes negative (and the node may miss correspondingly more blocks before it is jailed) -/
def staleBitsOps : List Op :=
  [.credit Ex.A 50000000, .stake 3 Ex.mA Ex.A, .endBlock 3 1000, .beginBlock 4 1010 [⟨Ex.A, 20, false⟩] [],
   .beginUnstake Ex.A Ex.A, .endBlock 4 1020, .endBlock 5 2000, .stake 6 Ex.mA Ex.A, .endBlock 6 2100,
   .beginBlock 7 2200 [⟨Ex.A, 20, true⟩] []]

theorem missed_counter_stale_bits :
    ∃ (s : State) (ops : List Op), Inv s ∧ (∀ op ∈ ops, op.isPoolSend = false) ∧
      ∃ si, aget (run s ops).signInfo Ex.A = some si ∧ si.missed < 0 :=
  ⟨{ params := Ex.p0 }, staleBitsOps, inv_empty _, by decide, ⟨6, 1, 0, -1, 0⟩, by decide, by decide⟩

/-- When the counter exceeds `SignedBlocksWindow − MinSignedPerWindow` the node is jailed in the same
BeginBlock, its counters restart and the jail period ends `DowntimeJailDuration` after the block time. -/
theorem jail_when_missed_exceeds (s : State) (hi : Inv s) (h t : Int) (vt : Vote) (v : Val) (si0 : SignInfo)
    (hv : aget s.vals vt.addr = some v) (hsi : aget s.signInfo vt.addr = some si0)
    (hex : (sigRecord (sigWindowReset s h vt.addr si0).1 vt.addr (sigWindowReset s h vt.addr si0).2 vt.signed).2.missed
      > s.params.window - s.params.minSigned) :
    (∃ v', aget (handleSig s h t vt).vals vt.addr = some v' ∧ v'.jailed = true) ∧
    (∃ si', aget (handleSig s h t vt).signInfo vt.addr = some si' ∧ si'.missed = 0 ∧ si'.index = 0 ∧
      si'.jailedUntil = t + s.params.downtimeJail) :=
  handleSig_jails hi h t vt hv hsi hex

end C25
