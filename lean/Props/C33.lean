import Proofs.Session
/-!
# C33 — Sessions are deterministic and contain only eligible, distinct nodes

Model: `PocketModel/Session.lean` (`NewSessionNodes`, `PseudorandomSelection`, the re-hashed
session key).  The hash is a parameter: every statement holds for every index stream.
-/
namespace C33
open Session

/-- The result is a function of (address list at session start, the records of *those* addresses at
the reference context, chain, count, chain limit, the enforce flag, the stream) — nothing else, in
particular no record of a node outside the list and no iteration bound below the one needed. -/
theorem session_deterministic (c1 c2 : Cfg) (fuel : Nat)
    (ha : c1.addrs = c2.addrs) (hl : ∀ n ∈ c1.addrs, c1.lookup n = c2.lookup n)
    (hch : c1.chain = c2.chain) (hc : c1.count = c2.count) (hm : c1.maxChains = c2.maxChains)
    (he : c1.enforce = c2.enforce) (hs : ∀ i, c1.stream i = c2.stream i) :
    newSessionNodes c1 fuel = newSessionNodes c2 fuel := by
  unfold newSessionNodes
  rw [← ha, ← hc, run_congr ha hl hch hc hm he hs]

/-- The stream itself is a function of the session key and the population size only. -/
theorem stream_deterministic (H : Bytes → Bytes) (key : Bytes) (total i : Nat) (hpos : 0 < total) :
    streamOf H key total i = pseudorandomSelection total (iterHash H i key) ∧
    streamOf H key total i < total :=
  ⟨rfl, pseudorandomSelection_lt _ _ hpos⟩

/-- A successful session has exactly `count` nodes, all distinct, all from the start-of-session
list and all eligible at the reference context. -/
theorem session_ok (c : Cfg) (fuel : Nat) (ns : List Addr) (h : newSessionNodes c fuel = .ok ns) :
    ns.length = c.count ∧ ns.Nodup ∧ ∀ n ∈ ns, n ∈ c.addrs ∧ eligible c n = true := by
  unfold newSessionNodes at h
  split at h
  · cases h
  · exact run_ok c fuel _ ⟨by simp, by simp⟩ ns h

/-- Session generation reports "insufficient nodes" only when fewer eligible nodes than requested
exist in the list (for a duplicate-free address list and a positive count). -/
theorem session_fails_only_if (c : Cfg) (fuel : Nat) (hnd : c.addrs.Nodup) (hc : 0 < c.count)
    (h : newSessionNodes c fuel = .insufficient) : (c.addrs.filter (eligible c)).length < c.count := by
  unfold newSessionNodes at h
  split at h
  · rename_i hlt
    have := List.length_filter_le (eligible c) c.addrs
    omega
  · exact run_insufficient c hnd fuel _ ⟨by simp, by simp, by simp, by simp, by simpa using hc⟩ h

/-- The loop ends (with nodes or with the error) as soon as the stream has produced every index:
if the first `K` draws cover `0 … total-1`, `K+1` iterations suffice. -/
theorem terminates_if_stream_covers (c : Cfg) (K : Nat) (hnd : c.addrs.Nodup)
    (hcov : ∀ j, j < c.addrs.length → ∃ i, i < K ∧ c.stream i = j) (fuel : Nat) (hf : K < fuel) :
    newSessionNodes c fuel ≠ .outOfFuel := by
  unfold newSessionNodes
  split
  · simp
  · exact run_terminates c K hnd hcov fuel _ ⟨by simp, by simp, by simp, by simp⟩ (by simpa using hf)

/-- A stream stuck on index 0 over two eligible nodes, two requested. -/
def stuck : Cfg :=
  { addrs := [[1], [2]], lookup := (fun _ => some ⟨false, [[9]]⟩), chain := [9],
    count := 2, maxChains := 15, enforce := false, stream := (fun _ => 0) }

/-- Termination does **not** hold for every stream: a stream stuck on one index loops forever
(every bound is exceeded) when more than one node is needed — the reason the hash stream's
behaviour is an assumption, not a theorem. -/
theorem stuck_stream_never_terminates (fuel : Nat) : newSessionNodes stuck fuel = .outOfFuel := by
  have key : ∀ (f i : Nat), run stuck f { i := i, tried := [[1]], chosen := [[1]] } = .outOfFuel := by
    intro f
    induction f with
    | zero => intro i; rfl
    | succ f ih =>
      intro i
      unfold run
      have : iter stuck { i := i, tried := [[1]], chosen := [[1]] } =
          .inr { i := i + 1, tried := [[1]], chosen := [[1]] } := by
        simp [iter, stuck]
      rw [this]
      exact ih (i + 1)
  unfold newSessionNodes
  have h0 : ¬ (stuck.addrs.length < stuck.count) := by decide
  rw [if_neg h0]
  cases fuel with
  | zero => rfl
  | succ f =>
    unfold run
    have : iter stuck { i := 0, tried := [], chosen := [] } =
        .inr { i := 1, tried := [[1]], chosen := [[1]] } := by
      simp [iter, eligible, stuck]
    rw [this]
    exact key f 1

/-! ## Non-vacuity -/

private def demo : Cfg :=
  { addrs := [[1], [2], [3], [4]],
    lookup := fun a => if a = [2] then some ⟨true, [[9]]⟩ else if a = [4] then none else some ⟨false, [[9], [8]]⟩,
    chain := [9], count := 2, maxChains := 15, enforce := true,
    stream := fun i => [1, 1, 0, 3, 2, 0].getD i 0 }

/-- jailed `[2]` is drawn twice and skipped, `[1]` chosen, missing `[4]` skipped, `[3]` chosen. -/
example : newSessionNodes demo 10 = .ok [[1], [3]] := by decide

example : newSessionNodes { demo with count := 3 } 10 = .insufficient := by decide

end C33
