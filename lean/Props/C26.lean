import Proofs.Num.Split
/-!
# C26 — Rewards and fees are split without creating or losing coins

Model: `PocketModel/Num/Split.lean` (x/nodes/keeper/params.go `splitRewards`, `splitFeesCollected`;
x/nodes/keeper/reward.go `SplitNodeRewards`, `RewardForRelaysPerChain`, `blockReward`).
Amounts are BigInts (`0 ≤ x < 2^255`); allocations are the int64 params `DAOAllocation`,
`ProposerAllocation` with the bounds enforced by `Params.Validate` (`≥ 0`, sum `≤ 100`).
-/
namespace C26
open Split BigDec

set_option exponentiation.threshold 400

/-- **split_rewards_sum**: node share + fee-collector share = reward, `0 ≤ fees ≤ reward`, and the
fee share is exactly `⌊reward·(dao+proposer)/100⌋`. -/
theorem split_rewards_sum {dao prop reward : Int} (hd : 0 ≤ dao) (hp : 0 ≤ prop) (hs : dao + prop ≤ 100)
    (hr : 0 ≤ reward) (hr' : reward < 2 ^ 255) :
    ∃ node fees, splitRewards dao prop reward = some (node, fees) ∧ node + fees = reward ∧
      0 ≤ fees ∧ fees ≤ reward ∧ fees = reward * (dao + prop) / 100 := by
  obtain ⟨h, h0, h1⟩ := splitRewards_eq hd hp hs hr hr'
  exact ⟨_, _, h, by omega, h0, h1, rfl⟩

/-- **fees_split_sum**: with some allocation positive, DAO cut + proposer cut = fees and
`0 ≤ daoCut ≤ fees`. -/
theorem fees_split_sum {dao prop fees : Int} (hd : 0 ≤ dao) (hp : 0 ≤ prop) (hpos : 0 < dao + prop)
    (hs : dao + prop ≤ 100) (hf : 0 ≤ fees) (hf' : fees < 2 ^ 255) :
    ∃ daoCut propCut, splitFeesCollected dao prop fees = some (daoCut, propCut) ∧
      daoCut + propCut = fees ∧ 0 ≤ daoCut ∧ daoCut ≤ fees ∧ 0 ≤ propCut := by
  obtain ⟨d, h, h0, h1⟩ := splitFeesCollected_spec hd hp hpos hs hf hf'
  exact ⟨d, fees - d, h, by omega, h0, h1, by omega⟩

/-- The excluded point of `fees_split_sum`: with `DAOAllocation = ProposerAllocation = 0` (accepted
by `Params.Validate`, settable by a parameter change) `splitFeesCollected` divides by zero — the
`BeginBlocker` of every block that has collected fees panics.  Replayed on the real code. -/
theorem fees_split_zero_alloc_panics (fees : Int) : splitFeesCollected 0 0 fees = none :=
  splitFeesCollected_zero fees

/-- … whereas `splitRewards` is total there (everything goes to the node). -/
theorem split_rewards_zero_alloc {reward : Int} (hr : 0 ≤ reward) (hr' : reward < 2 ^ 255) :
    splitRewards 0 0 reward = some (reward, 0) := by
  obtain ⟨h, _, _⟩ := splitRewards_eq (dao := 0) (prop := 0) (by decide) (by decide) (by decide) hr hr'
  rw [h]; simp

/-- `NormalizeRewardDelegators` does not depend on the (map iteration) order: it accepts exactly the
maps with positive shares, well-formed addresses and total share ≤ 100. -/
theorem delegators_valid_iff (ds : List (Nat × Nat × Bool)) :
    normalize ds 0 = true ↔ (∀ d ∈ ds, 0 < d.2.1 ∧ d.2.2 = false) ∧ sumShares ds ≤ 100 := by
  constructor
  · exact normalize_valid
  · intro ⟨h1, h2⟩
    exact (normalize_iff ds 0).mpr (Or.inl ⟨h1, by omega⟩)

/-- **delegator_split**, for the delegators in *any* order `ds`: each delegator is paid
`⌊rewards·share/100⌋` (when positive), the primary recipient (output address) the remainder
`rewards − Σ allocations ≥ 0` (when positive), and the payments add up to `rewards`. -/
theorem delegator_split {rewards : Int} {ds : List (Nat × Nat × Bool)} (hr : 0 < rewards)
    (hr' : rewards < 2 ^ 255) (hv : normalize ds 0 = true) :
    ∃ pays, splitNodeRewards rewards ds = some (.paid pays) ∧
      pays = paysOf rewards ds ++
        (if rewards - allocSum rewards ds > 0 then [(Rcpt.primary, rewards - allocSum rewards ds)] else []) ∧
      0 ≤ rewards - allocSum rewards ds ∧ sumInt (pays.map (·.2)) = rewards :=
  splitNodeRewards_valid hr hr' hv

/-- Each delegator's allocation is a function of its own share only. -/
theorem delegator_allocation {rewards : Int} {share : Nat} (hr : 0 ≤ rewards) (hr' : rewards < 2 ^ 255)
    (hs : share ≤ 100) : allocation rewards share = some (rewards * (share : Int) / 100) :=
  (allocation_eq hr hr' hs).1

/-- Reordering the map changes neither validity, nor any allocation, nor the remainder. -/
theorem delegator_split_order_free {rewards : Int} {ds ds' : List (Nat × Nat × Bool)} (h : ds.Perm ds') :
    sumShares ds = sumShares ds' ∧ allocSum rewards ds = allocSum rewards ds' ∧
    normalize ds 0 = normalize ds' 0 := by
  have h1 : sumShares ds = sumShares ds' := sumShares_perm h
  have h2 : allocSum rewards ds = allocSum rewards ds' := allocSum_perm h
  refine ⟨h1, h2, ?_⟩
  have key : ∀ a b : List (Nat × Nat × Bool), a.Perm b → sumShares a = sumShares b →
      normalize a 0 = true → normalize b 0 = true := by
    intro a b hp hs ha
    obtain ⟨ha1, ha2⟩ := (delegators_valid_iff a).mp ha
    exact (delegators_valid_iff b).mpr ⟨fun d hd => ha1 d (hp.mem_iff.mpr hd), by omega⟩
  cases hn : normalize ds 0 with
  | true => exact (key ds ds' h h1 hn).symm
  | false =>
    cases hn' : normalize ds' 0 with
    | false => rfl
    | true => rw [key ds' ds h.symm h1.symm hn'] at hn; cases hn

theorem total_append (a b : List Mint) : total (a ++ b) = total a + total b := by
  unfold total; rw [List.map_append, sumInt_append]

theorem total_node_pays (pays : List (Rcpt × Int)) :
    total (pays.map fun (r, a) => Mint.node r a) = sumInt (pays.map (·.2)) := by
  unfold total
  induction pays with
  | nil => rfl
  | cons x xs ih => obtain ⟨r, a⟩ := x; simp only [List.map_cons, sumInt, Mint.amount]; rw [← ih]

/-- **minted_equals_computed**: with a valid delegator map, what `RewardForRelaysPerChain` mints
(reward-cost compensation to the operator, delegators, output address, fee collector) adds up to
exactly the computed relay reward `coins`; before and after the reward-delegator upgrade, for any
reward cost. -/
theorem minted_equals_computed {dao prop coins : Int} {rc : Option Int} {ds : List (Nat × Nat × Bool)}
    (hd : 0 ≤ dao) (hp : 0 ≤ prop) (hs : dao + prop ≤ 100) (hc : 0 ≤ coins) (hc' : coins < 2 ^ 255)
    (hv : normalize ds 0 = true) :
    ∃ ms toNode, distribute dao prop coins rc ds = some (ms, toNode) ∧ total ms = coins := by
  obtain ⟨hsp, hf0, hf1⟩ := splitRewards_eq hd hp hs hc hc'
  unfold distribute
  rw [hsp]; simp only
  obtain ⟨m1, t, hm, htot, ht0, ht1⟩ :=
    carveOut_spec (t0 := coins - coins * (dao + prop) / 100) rc (by omega) (by omega)
  rw [hm]; simp only
  have hfee : total (if coins * (dao + prop) / 100 > 0 then [Mint.feeCollector (coins * (dao + prop) / 100)] else []) =
      coins * (dao + prop) / 100 := by
    by_cases h : coins * (dao + prop) / 100 > 0
    · rw [if_pos h]; simp [total, sumInt, Mint.amount]
    · rw [if_neg h]; simp [total, sumInt]; omega
  by_cases htp : 0 < t
  · obtain ⟨pays, hpays, _, _, hsum⟩ := splitNodeRewards_valid htp ht1 hv
    rw [hpays]; simp only
    refine ⟨_, _, rfl, ?_⟩
    rw [total_append, total_append, total_node_pays, hsum, hfee]; omega
  · rw [splitNodeRewards_nonpos (by omega)]; simp only
    refine ⟨_, _, rfl, ?_⟩
    rw [total_append, total_append, hfee]
    have : total ([] : List Mint) = 0 := rfl
    rw [this]; omega

/-- **invalid_delegators_lose_node_share** (the failure branch): if the stored delegator map is
invalid, nothing is minted for the output address / delegators — `toNode` coins of the computed
reward are never created.  (Stake / edit-stake validate the map, so this state is not reachable by
transactions; the check drives it directly.) -/
theorem invalid_delegators_lose_node_share {dao prop coins : Int} {ds : List (Nat × Nat × Bool)}
    (hd : 0 ≤ dao) (hp : 0 ≤ prop) (hs : dao + prop ≤ 100) (hc : 0 ≤ coins) (hc' : coins < 2 ^ 255)
    (hv : normalize ds 0 = false) :
    ∃ ms toNode, distribute dao prop coins none ds = some (ms, toNode) ∧ total ms = coins - toNode := by
  obtain ⟨hsp, hf0, hf1⟩ := splitRewards_eq hd hp hs hc hc'
  unfold distribute carveOut
  rw [hsp]; simp only
  rw [splitNodeRewards_invalid hv]; simp only
  refine ⟨_, _, rfl, ?_⟩
  by_cases h : coins * (dao + prop) / 100 > 0
  · rw [if_pos h]; simp [total, sumInt, Mint.amount]; omega
  · rw [if_neg h]; simp [total, sumInt]; omega

/-- `blockReward`: DAO cut + proposer-side payments = collected fees (valid delegator map). -/
theorem block_reward_sum {dao prop fees : Int} {ds : List (Nat × Nat × Bool)} (hd : 0 ≤ dao) (hp : 0 ≤ prop)
    (hpos : 0 < dao + prop) (hs : dao + prop ≤ 100) (hf : 0 < fees) (hf' : fees < 2 ^ 255)
    (hv : normalize ds 0 = true) :
    ∃ daoCut res, blockReward dao prop fees ds = some (daoCut, res) ∧ 0 ≤ daoCut ∧
      (match res with
       | .paid pays => daoCut + sumInt (pays.map (·.2)) = fees
       | .error => daoCut = fees) := by
  obtain ⟨d, h, h0, h1⟩ := splitFeesCollected_spec hd hp hpos hs (by omega) hf'
  unfold blockReward
  rw [if_neg (by omega), h]; simp only
  by_cases hp0 : 0 < fees - d
  · obtain ⟨pays, hpays, _, _, hsum⟩ := splitNodeRewards_valid hp0 (by omega) hv
    rw [hpays]
    exact ⟨_, _, rfl, h0, by simp only; omega⟩
  · rw [splitNodeRewards_nonpos (by omega)]
    exact ⟨_, _, rfl, h0, by simp only; omega⟩

/-! ## Non-vacuity -/

example : splitRewards 10 1 1000 = some (890, 110) := by decide +kernel
example : splitFeesCollected 10 1 1100 = some (1000, 100) := by decide +kernel
example : splitFeesCollected 2 1 1000000000000000000000 = some (666666666666666667000, 333333333333333333000) := by
  decide +kernel
private def dsEx : List (Nat × Nat × Bool) := [(0, 73, false), (1, 9, false), (2, 18, false)]
example : normalize dsEx 0 = true := by decide
example : splitNodeRewards 166 dsEx =
    some (.paid [(Rcpt.delegator 0, 121), (Rcpt.delegator 1, 14), (Rcpt.delegator 2, 29), (Rcpt.primary, 2)]) := by
  decide +kernel
example : distribute 10 5 1000000 (some 20000) dsEx =
    some ([Mint.operator 20000, Mint.node (Rcpt.delegator 0) 605900, Mint.node (Rcpt.delegator 1) 74700,
      Mint.node (Rcpt.delegator 2) 149400, Mint.feeCollector 150000], 830000) := by decide +kernel

end C26
