import Proofs.Indexer.Page
/-!
# C42 — Transaction search returns exactly the matching indexed transactions

Model: `PocketModel/Num/Elen.lean` (lexnum ELEN encoder), `PocketModel/Indexer.lean`
(types/indexer.go).  `build txs` is the database after the results `txs` went through
`Index`/`AddBatch` in any grouping (`database_independent_of_batching`).  `Good txs` collects the
preconditions: distinct transaction hashes, distinct (height, position), hashes that are non-empty
and do not begin with the ASCII bytes `tx.`, heights and positions below `MaxInt64`.
-/
namespace C42
open Elen Indexer

/-! ## Number encoding and keys -/

/-- ELEN is strictly order preserving on non-negative numbers (bytewise order of the encodings). -/
theorem elen_strict_mono (i j : Nat) (h : i < j) : encodeInt i < encodeInt j := encodeInt_lt h

/-- No encoding is a prefix of another one. -/
theorem elen_prefix_free (i j : Nat) (h : i ≠ j) : ¬ encodeInt i <+: encodeInt j :=
  encodeInt_prefix_free h

/-- Within one address, keys are ordered like (height, position). -/
theorem key_order (ns a : Bytes) (h i h' i' : Nat) :
    keyForAddr ns a h i < keyForAddr ns a h' i' ↔ (h < h' ∨ (h = h' ∧ i < i')) :=
  keyForAddr_lt_iff ns a h i h' i'

/-- Within one height, keys are ordered like the position. -/
theorem key_order_height (h i i' : Nat) : keyForHeight h i < keyForHeight h i' ↔ i < i' :=
  keyForHeight_lt_iff h i i'

/-- `Index` one by one and `AddBatch` in any grouping build the same database. -/
theorem database_independent_of_batching (s : Store) (a b : List TxRes) (t : TxRes) :
    addBatch s (a ++ b) = addBatch (addBatch s a) b ∧ index s t = addBatch s [t] :=
  ⟨addBatch_append s a b, rfl⟩

/-! ## Exact ranges -/

/-- The scan range of an address holds exactly the index entries of that address's indexed
results — no neighbouring address (not even one whose hex string extends it), no other name
space, no height entry and no result record leaks in. -/
theorem range_exact (txs : List TxRes) (hg : Good txs) (ns : Bytes) (hn : IsAddrNs ns) (a : Bytes) (e : Entry) :
    e ∈ iterator (build txs) (prefixKeyForAddr ns a) (endKey (prefixKeyForAddr ns a)) ↔
      ∃ t ∈ indexed txs, addrField ns t = some a ∧ e = (keyForAddr ns a t.height t.index, Val.idx t.hash) :=
  addr_range_exact hg hn a e

/-- The scan range of a height holds exactly that height's entries (height 1 does not see 10, 11, …). -/
theorem range_exact_height (txs : List TxRes) (hg : Good txs) (h : Nat) (e : Entry) :
    e ∈ iterator (build txs) (prefixKeyForHeight h) (endKey (prefixKeyForHeight h)) ↔
      ∃ t ∈ indexed txs, t.height = h ∧ e = (keyForHeight h t.index, Val.idx t.hash) :=
  height_range_exact hg h e

/-! ## Lookup by hash -/

/-- Lookup by hash returns the stored result of every indexed transaction, and `nil` for a hash
that was never indexed (ante-level failures included). -/
theorem get_by_hash (txs : List TxRes) (hg : Good txs) :
    (∀ t ∈ indexed txs, get (build txs) t.hash = .ok (some t)) ∧
    (∀ hash, hash ≠ [] → ¬ txPrefix <+: hash → (∀ t ∈ indexed txs, t.hash ≠ hash) →
      get (build txs) hash = .ok none) :=
  ⟨fun _ ht => get_indexed hg ht, fun _ h1 h2 h3 => get_absent hg h1 h2 h3⟩

/-! ## Search: exact set, order, pages, total -/

/-- Search by sender/recipient, for either direction mapping `m`: there is one list `full` — exactly
the indexed results of that address, ordered by (height, position) along the iterator direction —
such that every call returns the page `take size (drop skip full)` and `total = |full|` = the number
of matching indexed results. -/
theorem search_address_exact (txs : List TxRes) (hg : Good txs) (ns : Bytes) (hn : IsAddrNs ns) (a : Bytes)
    (m : SortArg → Option Dir) (sort : SortArg) (dir : Dir) (hm : m sort = some dir) :
    ∃ full : List TxRes,
      (∀ skip size : Int, searchAddr m (build txs) ns a sort skip size =
        .ok (((full.drop skip.toNat).take (clampSize size).toNat).map some, full.length)) ∧
      (∀ t, t ∈ full ↔ t ∈ indexed txs ∧ addrField ns t = some a) ∧
      full.Pairwise (DirOrder dir) ∧
      full.length = ((indexed txs).filter fun t => addrField ns t == some a).length := by
  obtain ⟨full, h1, h2, h3⟩ := searchAddr_spec hg hn a m sort dir hm
  refine ⟨full, h1, h2, h3, ?_⟩
  exact full_length_eq hg (fun t => addrField ns t == some a) dir full (by simpa using h2) h3

/-- Search by height: exactly that height's indexed results ordered by position. -/
theorem search_height_exact (txs : List TxRes) (hg : Good txs) (h : Nat)
    (m : SortArg → Option Dir) (sort : SortArg) (dir : Dir) (hm : m sort = some dir) :
    ∃ full : List TxRes,
      (∀ skip size : Int, searchHeight m (build txs) h sort skip size =
        .ok (((full.drop skip.toNat).take (clampSize size).toNat).map some, full.length)) ∧
      (∀ t, t ∈ full ↔ t ∈ indexed txs ∧ t.height = h) ∧
      full.Pairwise (DirOrder dir) ∧
      full.length = ((indexed txs).filter fun t => t.height == h).length := by
  obtain ⟨full, h1, h2, h3⟩ := searchHeight_spec hg h m sort dir hm
  refine ⟨full, h1, h2, h3, ?_⟩
  exact full_length_eq hg (fun t => t.height == h) dir full (by simpa using h2) h3

/-- An unsupported sort string is an error, never a partial answer. -/
theorem search_unsupported_sort (m : SortArg → Option Dir) (s : Store) (pre : Bytes) (sort : SortArg)
    (hm : m sort = none) (skip size : Int) : getByPrefix m s pre sort skip size = .err := by
  simp [getByPrefix, prefixIterator, hm]

/-- The items of a search answer. -/
def items : Res (List (Option TxRes) × Nat) → List (Option TxRes)
  | .ok (l, _) => l
  | .err => []

/-- Pagination neither skips nor repeats: the pages of any size `n` (`1 ≤ n ≤ maxPerPage`)
concatenate to the full ordered result, for every address search. -/
theorem pagination_partition (txs : List TxRes) (hg : Good txs) (ns : Bytes) (hn : IsAddrNs ns) (a : Bytes)
    (m : SortArg → Option Dir) (sort : SortArg) (dir : Dir) (hm : m sort = some dir)
    (n : Nat) (hn1 : 0 < n) (hn2 : n ≤ 10000) :
    ∃ full : List TxRes, (∀ t, t ∈ full ↔ t ∈ indexed txs ∧ addrField ns t = some a) ∧
      ∀ k, full.length ≤ k * n →
        (List.range k).flatMap (fun j => items (searchAddr m (build txs) ns a sort ((j * n : Nat) : Int) (n : Int)))
          = full.map some := by
  obtain ⟨full, h1, h2, _⟩ := searchAddr_spec hg hn a m sort dir hm
  refine ⟨full, h2, ?_⟩
  intro k hk
  have hc : (clampSize (n : Int)).toNat = n := by
    unfold clampSize maxPerPage
    have : ¬ ((n : Int) > 10000) := by omega
    rw [if_neg this]; simp
  have : ∀ j : Nat, items (searchAddr m (build txs) ns a sort ((j * n : Nat) : Int) (n : Int)) =
      ((full.map some).drop (j * n)).take n := by
    intro j
    have e : (((j * n : Nat) : Int)).toNat = j * n := Int.toNat_natCast _
    rw [h1, hc, e]
    simp [items, List.map_drop, List.map_take]
  simp only [this]
  exact pages_concat n hn1 k (full.map some) (by simpa using hk)

/-! ## Direction -/

/-- **As coded** (`asc → ReverseIterator`): a search with `sort = asc` lists the results in
*descending* (height, position) order and `desc` in ascending order. -/
theorem order_as_coded (txs : List TxRes) (hg : Good txs) (ns : Bytes) (hn : IsAddrNs ns) (a : Bytes) :
    (∃ full : List TxRes, (∀ skip size : Int, searchAddr sortMapAsIs (build txs) ns a .asc skip size =
        .ok (((full.drop skip.toNat).take (clampSize size).toNat).map some, full.length)) ∧
      (∀ t, t ∈ full ↔ t ∈ indexed txs ∧ addrField ns t = some a) ∧
      full.Pairwise fun x y => PosLt y.height y.index x.height x.index) ∧
    (∃ full : List TxRes, (∀ skip size : Int, searchAddr sortMapAsIs (build txs) ns a .desc skip size =
        .ok (((full.drop skip.toNat).take (clampSize size).toNat).map some, full.length)) ∧
      (∀ t, t ∈ full ↔ t ∈ indexed txs ∧ addrField ns t = some a) ∧
      full.Pairwise fun x y => PosLt x.height x.index y.height y.index) :=
  ⟨searchAddr_spec hg hn a sortMapAsIs .asc .reverse rfl, searchAddr_spec hg hn a sortMapAsIs .desc .forward rfl⟩

/-- **Defect**: whenever an address has two indexed results, the `asc` search of the code as it is
returns the later one first. -/
theorem asc_returns_descending (txs : List TxRes) (hg : Good txs) (ns : Bytes) (hn : IsAddrNs ns) (a : Bytes)
    (t1 t2 : TxRes) (h1 : t1 ∈ indexed txs) (h2 : t2 ∈ indexed txs)
    (f1 : addrField ns t1 = some a) (f2 : addrField ns t2 = some a)
    (hlt : PosLt t1.height t1.index t2.height t2.index) :
    ∃ l1 l2 l3 : List TxRes, ∃ total : Nat,
      searchAddr sortMapAsIs (build txs) ns a .asc 0 10000 =
        .ok (((l1 ++ t2 :: l2 ++ t1 :: l3).take 10000).map some, total) := by
  obtain ⟨full, hs, hm, hp⟩ := searchAddr_spec hg hn a sortMapAsIs .asc .reverse rfl
  have hne : t1 ≠ t2 := by
    intro e; subst e; exact posLt_irrefl _ _ hlt
  obtain ⟨l1, l2, l3, hfull⟩ := before_of_pairwise hp ((hm t1).mpr ⟨h1, f1⟩) ((hm t2).mpr ⟨h2, f2⟩) hne
    (fun h => posLt_asymm hlt h)
  refine ⟨l1, l2, l3, full.length, ?_⟩
  rw [hs 0 10000, hfull]
  simp [clampSize, maxPerPage]

/-- The statement "results come in the requested direction" for a direction mapping `m`. -/
def RequestedDirection (m : SortArg → Option Dir) : Prop :=
  ∀ (txs : List TxRes), Good txs → ∀ (ns a : Bytes), IsAddrNs ns →
    ∀ (t1 t2 : TxRes), t1 ∈ indexed txs → t2 ∈ indexed txs → addrField ns t1 = some a → addrField ns t2 = some a →
      PosLt t1.height t1.index t2.height t2.index →
      ∃ l1 l2 l3 : List TxRes, ∃ total : Nat,
        searchAddr m (build txs) ns a .asc 0 10000 = .ok (((l1 ++ t1 :: l2 ++ t2 :: l3).take 10000).map some, total)

/-- After `fixes/C42-sort-direction.patch` (`asc → Iterator`) the requested direction holds. -/
theorem order_matches_requested_direction_fixed : RequestedDirection sortMapFixed := by
  intro txs hg ns a hn t1 t2 h1 h2 f1 f2 hlt
  obtain ⟨full, hs, hm, hp⟩ := searchAddr_spec hg hn a sortMapFixed .asc .forward rfl
  have hne : t2 ≠ t1 := by
    intro e; subst e; exact posLt_irrefl _ _ hlt
  obtain ⟨l1, l2, l3, hfull⟩ := before_of_pairwise hp ((hm t2).mpr ⟨h2, f2⟩) ((hm t1).mpr ⟨h1, f1⟩) hne
    (fun h => posLt_asymm hlt h)
  refine ⟨l1, l2, l3, full.length, ?_⟩
  rw [hs 0 10000, hfull]
  simp [clampSize, maxPerPage]

/-! ## Non-vacuity and the concrete counterexample -/

/-- Two transfers of one signer `ab` at heights 1 and 2. -/
def demo : List TxRes :=
  [⟨1, 0, [1, 1], some [171], none, false⟩, ⟨2, 0, [2, 2], some [171], some [205], false⟩,
   ⟨2, 1, [3, 3], some [171], none, true⟩]

theorem demo_good : Good demo := by
  constructor
  · simp [demo, indexed]
  · intro t ht
    simp [demo, indexed] at ht
    rcases ht with rfl | rfl <;> simp [txPrefix]
  · intro t ht
    simp [demo, indexed] at ht
    rcases ht with rfl | rfl <;> simp [maxInt64]

/-- The property's direction clause is false of the code as it is. -/
theorem order_matches_requested_direction_fails : ¬ RequestedDirection sortMapAsIs := by
  intro h
  have hn : IsAddrNs txSignerKey := Or.inl rfl
  have m1 : (⟨1, 0, [1, 1], some [171], none, false⟩ : TxRes) ∈ indexed demo := by simp [demo, indexed]
  have m2 : (⟨2, 0, [2, 2], some [171], some [205], false⟩ : TxRes) ∈ indexed demo := by simp [demo, indexed]
  have f1 : addrField txSignerKey (⟨1, 0, [1, 1], some [171], none, false⟩ : TxRes) = some [171] := by simp [addrField]
  have f2 : addrField txSignerKey (⟨2, 0, [2, 2], some [171], some [205], false⟩ : TxRes) = some [171] := by simp [addrField]
  have hlt : PosLt 1 0 2 0 := Or.inl (by decide)
  obtain ⟨a1, a2, a3, tot, ha⟩ := h demo demo_good txSignerKey [171] hn _ _ m1 m2 f1 f2 hlt
  obtain ⟨b1, b2, b3, tot', hb⟩ := asc_returns_descending demo demo_good txSignerKey hn [171] _ _ m1 m2 f1 f2 hlt
  -- both shapes describe the same answer `full`, which is ordered: contradiction
  obtain ⟨full, hs, hm, hp, hlen⟩ := search_address_exact demo demo_good txSignerKey hn [171] sortMapAsIs .asc .reverse rfl
  have hl2 : full.length ≤ 2 := by
    rw [hlen]
    exact Nat.le_trans (List.length_filter_le _ _) (by simp [demo, indexed])
  rw [hs 0 10000] at ha
  have hc : (clampSize 10000).toNat = 10000 := by simp [clampSize, maxPerPage]
  simp only [hc, Int.toNat_zero, List.drop_zero] at ha
  have htake : full.take 10000 = full := List.take_of_length_le (by omega)
  rw [htake] at ha
  injection ha with ha
  injection ha with ha _
  have hinj : full = (a1 ++ ⟨1, 0, [1, 1], some [171], none, false⟩ :: a2 ++ ⟨2, 0, [2, 2], some [171], some [205], false⟩ :: a3).take 10000 :=
    Indexer.map_some_inj _ _ ha
  have hlen2 : (a1 ++ (⟨1, 0, [1, 1], some [171], none, false⟩ : TxRes) :: a2 ++ ⟨2, 0, [2, 2], some [171], some [205], false⟩ :: a3).take 10000
      = a1 ++ ⟨1, 0, [1, 1], some [171], none, false⟩ :: a2 ++ ⟨2, 0, [2, 2], some [171], some [205], false⟩ :: a3 := by
    apply List.take_of_length_le
    have : (List.take 10000 (a1 ++ (⟨1, 0, [1, 1], some [171], none, false⟩ : TxRes) :: a2 ++ ⟨2, 0, [2, 2], some [171], some [205], false⟩ :: a3)).length ≤ 2 := by
      rw [← hinj]; exact hl2
    rw [List.length_take] at this
    omega
  rw [hlen2] at hinj
  rw [hinj] at hp
  -- in `full`, t1 precedes t2, but the order is descending
  have := (List.pairwise_append.mp hp).2.2 ⟨1, 0, [1, 1], some [171], none, false⟩ (by simp)
    ⟨2, 0, [2, 2], some [171], some [205], false⟩ (by simp)
  simp [DirOrder, PosLt] at this

example : encodeInt 9 < encodeInt 10 := elen_strict_mono 9 10 (by decide)

end C42
