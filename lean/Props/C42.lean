import Proofs.Num.Elen
import PocketModel.Indexer
/-!
# C42 — Transaction search returns exactly the matching indexed transactions

Model: `PocketModel/Num/Elen.lean` (lexnum ELEN encoder), `PocketModel/Indexer.lean`
(types/indexer.go).
-/
namespace C42
open Elen Indexer

/-- ELEN is strictly order preserving on non-negative numbers (bytewise order of the encodings). -/
theorem elen_strict_mono (i j : Nat) (h : i < j) : encodeInt i < encodeInt j := encodeInt_lt h

/-- No encoding is a prefix of another one. -/
theorem elen_prefix_free (i j : Nat) (h : i ≠ j) : ¬ encodeInt i <+: encodeInt j :=
  encodeInt_prefix_free h

example : encodeInt 9 < encodeInt 10 := elen_strict_mono 9 10 (by decide)

end C42
