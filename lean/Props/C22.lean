import Proofs.Ledger.NodesExamples
import Proofs.Ledger.NodesC22
import Proofs.Ledger.NodesGenesis
/-!
# C22 — Consensus validator updates match the top staked nodes

Model: `PocketModel/Ledger/Nodes.lean` — `updateTm` = `UpdateTendermintValidators` as coded (release of the
waiting nodes at a session end, reverse iteration of the staked set up to `MaxValidators`, diff against the
previous-power store 0x31, zero-power updates for the nodes that left, sorted by address).  The ghost field
`tmSet` is the consensus engine's validator set: every reported update applied, in order, starting from the
set of the initial state (`tm_set_is_cumulative`).  `Spec.topN s` = the first `MaxValidators` staked, unjailed
records of non-zero power in the order (power descending, address ascending), with their current powers.
`Inv2` = store invariant + bookkeeping invariant (`PrevInv`); a history is *modern* when its end-blocks have
height ≥ `splitHeight` (validator split active; 2 in the harness configuration).
-/
namespace C22
open Nodes Nodes.Spec

/-- the initial state of a chain (nothing reported yet) satisfies the invariants -/
theorem genesis_ok (p : Params) : Inv2 { params := p } := ⟨inv_empty p, prevInv_empty p⟩

/-- The consensus set is cumulative: an end-block applies exactly its reported updates to it, and no other
operation touches it. -/
theorem tm_set_is_cumulative (s : State) :
    (∀ h t, (endBlock s h t).1.tmSet = applyUpdates s.tmSet (endBlock s h t).2) ∧
    (∀ op, (∀ h t, op ≠ .endBlock h t) → (∀ p, op ≠ .setParams p) → (step s op).tmSet = s.tmSet) ∧
    (∀ p, (step s (.setParams p)).tmSet = s.tmSet) :=
  ⟨fun h t => (endBlock_tmSet s h t).1, fun op h1 h2 => (frame_step s op h1 h2).2.1, fun _ => rfl⟩

/-- **Cumulative statement.** After every modern history, and then after any end-block, the consensus set —
all updates reported so far applied in order — is exactly the top `MaxValidators` staked, unjailed nodes
with their current powers; changes of `MaxValidators` (any `setParams`) included. -/
theorem updates_track_topN (s : State) (h2 : Inv2 s) (ops : List Op)
    (hops : ∀ op ∈ ops, op.isPoolSend = false ∧ op.modern = true) (h t : Int) (hh : splitHeight ≤ h) :
    tmSetOk (endBlock (run s ops) h t).1 = true := by
  have r := inv2_run h2 ops hops
  obtain ⟨p', sy⟩ := endBlock_outcome r.inv r.prev h t hh
  exact sameMap_of_pointwise p'.tmNodup (topN_keys_nodup (inv_endBlock r.inv h t)) sy.tm

/-- from genesis: a genesis file whose validators are all staked, then any modern history -/
theorem updates_track_topN_from_genesis (p : Params) (vs : List Val) (bal : List (Addr × Int)) (supply0 : Int)
    (hst : ∀ v ∈ vs, v.status = .staked ∧ 0 ≤ v.tokens) (hnd : (vs.map (·.addr)).Nodup) (ops : List Op)
    (hops : ∀ op ∈ ops, op.isPoolSend = false ∧ op.modern = true) (h t : Int) (hh : splitHeight ≤ h) :
    tmSetOk (endBlock (run (initGenesis p vs bal supply0) ops) h t).1 = true :=
  updates_track_topN _ (inv2_initGenesis p vs bal supply0 hst hnd) ops hops h t hh

/-- pointwise form: member ↔ in the top N, with the current power -/
theorem updates_track_topN_pointwise (s : State) (h2 : Inv2 s) (ops : List Op)
    (hops : ∀ op ∈ ops, op.isPoolSend = false ∧ op.modern = true) (h t : Int) (hh : splitHeight ≤ h) (a : Addr) :
    aget (endBlock (run s ops) h t).1.tmSet a = aget (topN (endBlock (run s ops) h t).1) a :=
  (endBlock_outcome (inv2_run h2 ops hops).inv (inv2_run h2 ops hops).prev h t hh).2.tm a

example : Ex.s0.tmSet = [(Ex.C, 25), (Ex.B, 30)] ∧ topN Ex.s0 = [(Ex.B, 30), (Ex.C, 25)] ∧ tmSetOk Ex.s0 = true := by decide

/-- The previous-power store (prefix 0x31) is that same set. -/
theorem prev_power_exact (s : State) (h2 : Inv2 s) (ops : List Op)
    (hops : ∀ op ∈ ops, op.isPoolSend = false ∧ op.modern = true) (h t : Int) (hh : splitHeight ≤ h) :
    prevPowerOk (endBlock (run s ops) h t).1 = true := by
  have r := inv2_run h2 ops hops
  obtain ⟨p', sy⟩ := endBlock_outcome r.inv r.prev h t hh
  exact sameMap_of_pointwise p'.prevNodup (topN_keys_nodup (inv_endBlock r.inv h t)) sy.prev

/-- … and between end-blocks the store and the consensus set stay equal to each other -/
theorem prev_power_is_consensus_set (s : State) (h2 : Inv2 s) (ops : List Op)
    (hops : ∀ op ∈ ops, op.isPoolSend = false ∧ op.modern = true) (a : Addr) :
    aget (run s ops).tmSet a = aget (run s ops).prevPower a := (inv2_run h2 ops hops).prev.sync a

/-- Every reported update is either the current (non-zero) power of a member of the new set, or a **zero**
for a previous member that is no longer in it: leavers are reported with zero power once validator splitting
is active, and nothing else is ever reported. -/
theorem leavers_zero_power (s : State) (h2 : Inv2 s) (h t : Int) (hh : splitHeight ≤ h) (u : Update)
    (hu : u ∈ (endBlock s h t).2) :
    (u.power ≠ 0 ∧ aget (topN (endBlock s h t).1) u.addr = some u.power) ∨
    (u.power = 0 ∧ aget s.prevPower u.addr ≠ none ∧ aget (topN (endBlock s h t).1) u.addr = none) :=
  endBlock_updates h2.inv h2.prev h t hh u hu

/-- a bigger node pushes `C` out of the two-slot set: `C` is reported with power 0, the newcomer with its power -/
example :
    let big : StakeMsg := ⟨[4], [4, 4], [[0, 1]], 40000000, [], [4], []⟩
    let s1 := run Ex.s0 [.credit [4] 50000000, .stake 4 big [4]]
    (endBlock s1 4 2000).2 = [⟨[4], [4, 4], 40⟩, ⟨Ex.C, [3, 3], 0⟩] := by decide

/-- before the split activation the leaver is reported with its current power (documented legacy behaviour) -/
example :
    let big : StakeMsg := ⟨[4], [4, 4], [[0, 1]], 40000000, [], [4], []⟩
    let s1 := run Ex.s0 [.credit [4] 50000000, .stake 1 big [4]]
    (endBlock s1 1 2000).2 = [⟨[4], [4, 4], 40⟩, ⟨Ex.C, [3, 3], 25⟩] := by decide

/-- lowering `MaxValidators` to 1 removes the weaker member at the next end-block -/
example : (endBlock (step Ex.s0 (.setParams { Ex.p0 with maxValidators := 1 })) 4 2000).2 = [⟨Ex.C, [3, 3], 0⟩] := by decide

/-- Every member of the consensus set is a staked, unjailed node holding exactly the reported power
(C25: jailed nodes are removed from the consensus set). -/
theorem consensus_set_unjailed (s : State) (h2 : Inv2 s) (h t : Int) (hh : splitHeight ≤ h) (a : Addr) (p : Int)
    (hm : aget (endBlock s h t).1.tmSet a = some p) :
    ∃ v, aget (endBlock s h t).1.vals a = some v ∧ v.status = .staked ∧ v.jailed = false ∧ powerOf v.tokens = p := by
  obtain ⟨_, sy⟩ := endBlock_outcome h2.inv h2.prev h t hh
  rw [sy.tm a] at hm
  obtain ⟨v, g1, g2, g3, g4, _⟩ := topN_member (inv_endBlock h2.inv h t) hm
  exact ⟨v, g1, g2, g3, g4⟩

/-- executable form used by the driver for C25 -/
theorem no_jailed_in_set (s : State) (h2 : Inv2 s) (h t : Int) (hh : splitHeight ≤ h) :
    noJailedInSet (endBlock s h t).1 = true := by
  unfold noJailedInSet
  rw [List.all_eq_true]
  intro x hx
  obtain ⟨p', _⟩ := endBlock_outcome h2.inv h2.prev h t hh
  have hm := aget_of_mem p'.tmNodup (show (x.1, x.2) ∈ (endBlock s h t).1.tmSet from hx)
  obtain ⟨v, g1, g2, g3, _⟩ := consensus_set_unjailed s h2 h t hh x.1 x.2 hm
  simp [g1, eligible, g2, g3]

end C22
