import PocketModel.Ledger.BaseApp
/-!
# C11 — CheckTx, simulation and queries never alter consensus state

Model: `PocketModel/Ledger/BaseApp.lean` (store plumbing of `baseapp.runTx`, `Query`, the ABCI block
calls, **as it is**).  All theorems quantify over every ante handler, message handler, begin/end
blocker and querier (`Hooks`), every node state and every history.

* `checkTx_pure`, `query_store_pure`, `query_custom_pure`, `query_other_pure` hold for the code as
  it is.
* `simulate_pure` is **false of the code as it is** (`simulate_mutates`, `simulate_asis_root`,
  `next_blocks_same_fails_asis`) and holds for the repaired plumbing (`Plumbing.fixed`).
* `next_blocks_same`: for every history with arbitrarily interleaved harmless off-chain calls the
  consensus outputs (DeliverTx results, committed state) are those of the history without them.
-/
namespace C11
open BaseApp

variable {S G Tx R Hdr Q A : Type}

/-- `runTx` in check mode never changes the working trees (∀ handlers, ∀ states, both plumbings). -/
theorem runTx_check_root (p : Plumbing) (h : Hooks S G Tx R Hdr Q A) (hdr : Hdr) (tx : Tx) (root : S) (side : G) :
    (runTx p h .check hdr tx root side).1 = root := by
  unfold runTx
  cases h.validateBasic tx <;> simp
  split <;> rfl

/-- **CheckTx is pure**: whatever the transaction (valid, invalid, undecodable) and whatever the
application code does, everything block execution builds on is unchanged. -/
theorem checkTx_pure (p : Plumbing) (h : Hooks S G Tx R Hdr Q A) (st : App S G Tx Hdr) (tx : Option Tx) :
    ConsEq (checkTx p h st tx).1 st := by
  cases tx with
  | none => simp [checkTx, ConsEq]
  | some tx => simp [checkTx, ConsEq, runTx_check_root]

example : (checkTx .asis (markHooks true) ⟨⟨false, false⟩, [], (), (), none, []⟩ (some ())).1.root = ⟨false, false⟩ := by decide

/-- **Store queries are pure** (even the side state is untouched). -/
theorem query_store_pure (h : Hooks S G Tx R Hdr Q A) (st : App S G Tx Hdr) (q : Q) (height : Nat) :
    (queryStore h st q height).1 = st := by
  unfold queryStore; split <;> rfl

/-- **Custom queries are pure** on everything block execution builds on — for every querier, even
one that writes to the store it is handed, at every height.  (Node-local side state may change:
that is C13's subject.) -/
theorem query_custom_pure (h : Hooks S G Tx R Hdr Q A) (st : App S G Tx Hdr) (q : Q) (height : Nat) :
    ConsEq (queryCustom h st q height).1 st := by
  unfold queryCustom; split <;> simp [ConsEq]

example : (queryCustom (markHooks true) ⟨⟨false, false⟩, [⟨false, false⟩], (), (), none, []⟩ () 1).1.root = ⟨false, false⟩ := by decide

/-- `app/version` and unknown paths do not touch the node state at all. -/
theorem query_other_pure (p : Plumbing) (h : Hooks S G Tx R Hdr Q A) (st : App S G Tx Hdr) :
    (serve p h st .queryVersion).1 = st ∧ (serve p h st .queryUnknown).1 = st := ⟨rfl, rfl⟩

/-- Every harmless call leaves the consensus-relevant state unchanged. -/
theorem serve_harmless (p : Plumbing) (h : Hooks S G Tx R Hdr Q A) (st : App S G Tx Hdr) (c : Call Tx Q)
    (hc : c.harmless p = true) : ConsEq (serve p h st c).1 st := by
  cases c with
  | checkTx tx => exact checkTx_pure p h st tx
  | simulate tx =>
    have hp : p = .fixed := by cases p <;> simp_all [Call.harmless]
    subst hp
    cases tx with
    | none => simp [serve, simulate, ConsEq]
    | some tx =>
      simp only [serve, simulate, ConsEq, and_true]
      unfold runTx
      cases h.validateBasic tx <;> simp
      split <;> rfl
  | queryStore q ht => simp [serve, query_store_pure, ConsEq]
  | queryCustom q ht => exact query_custom_pure h st q ht
  | queryVersion => simp [serve, ConsEq]
  | queryUnknown => simp [serve, ConsEq]

/-! ## Deliver semantics (what a block does to the working trees) -/

/-- A transaction whose ante handler aborts (or that fails `ValidateBasic`) leaves the working
trees untouched. -/
theorem deliver_abort_root (p : Plumbing) (h : Hooks S G Tx R Hdr Q A) (hdr : Hdr) (tx : Tx) (root : S) (side : G)
    (hab : h.validateBasic tx ≠ none ∨ (h.ante tx false hdr root side).abort = true) :
    (runTx p h .deliver hdr tx root side).1 = root := by
  unfold runTx
  cases hv : h.validateBasic tx with
  | some e => rfl
  | none =>
    rcases hab with hab | hab
    · exact absurd hv hab
    · have : ((Mode.deliver == Mode.simulate) = false) := by decide
      simp [this, hab]

/-- Otherwise the ante handler's writes are flushed and the handler runs on the raw store: the new
working trees are the handler's output **whether or not the handler succeeds** (no rollback). -/
theorem deliver_ok_root (p : Plumbing) (h : Hooks S G Tx R Hdr Q A) (hdr : Hdr) (tx : Tx) (root : S) (side : G)
    (hv : h.validateBasic tx = none) (hab : (h.ante tx false hdr root side).abort = false) :
    runTx p h .deliver hdr tx root side =
      h.handler tx hdr (h.ante tx false hdr root side).view (h.ante tx false hdr root side).side := by
  unfold runTx
  have : ((Mode.deliver == Mode.simulate) = false) := by decide
  simp [hv, this, hab]

/-- Witness that a *failing* handler's partial writes persist in deliver mode. -/
theorem deliver_failed_handler_persists :
    ∃ (h : Hooks Marks Unit Unit Bool Unit Unit Bool),
      (runTx .asis h .deliver () () ⟨false, false⟩ ()).2.2 = false ∧
      (runTx .asis h .deliver () () ⟨false, false⟩ ()).1 = ⟨true, true⟩ :=
  ⟨{ markHooks true with handler := fun _ _ s g => ({ s with msg := true }, g, false) }, by decide, by decide⟩

/-! ## Simulation -/

/-- Exact effect of `app/simulate` in the code as it is: when the transaction passes `ValidateBasic`
and the ante handler (which, in simulate mode, skips signature verification), the working trees
become the handler's output on the raw trees. -/
theorem simulate_asis_root (h : Hooks S G Tx R Hdr Q A) (st : App S G Tx Hdr) (tx : Tx)
    (hv : h.validateBasic tx = none) (hab : (h.ante tx true st.chkHdr st.root st.side).abort = false) :
    (simulate .asis h st (some tx)).1.root =
      (h.handler tx st.chkHdr st.root (h.ante tx true st.chkHdr st.root st.side).side).1 := by
  simp only [simulate]
  unfold runTx
  simp [hv, hab]

/-- **Counterexample for the code as it is**: a simulated transaction changes the working trees
that the next `Commit` persists. -/
theorem simulate_mutates :
    ∃ (h : Hooks Marks Unit Unit Bool Unit Unit Bool) (st : App Marks Unit Unit Unit) (tx : Option Unit),
      (simulate .asis h st tx).1.root ≠ st.root :=
  ⟨markHooks true, ⟨⟨false, false⟩, [], (), (), none, []⟩, some (), by decide⟩

/-- …and therefore `next_blocks_same` is false of the code as it is: one `app/simulate` between two
blocks changes what the next block commits. -/
theorem next_blocks_same_fails_asis :
    ∃ (h : Hooks Marks Unit Unit Bool Unit Unit Bool) (st : App Marks Unit Unit Unit)
      (steps : List (Step Unit Unit Unit)),
      (run .asis h st steps).2 ≠ (run .asis h st (steps.filter Step.isConsensus)).2 :=
  ⟨markHooks true, ⟨⟨false, false⟩, [], (), (), none, []⟩,
    [.off (.simulate (some ())), .beginBlock (), .endBlock, .commit], by decide⟩

/-- **Simulation is pure under the repaired plumbing** (handler on a cache that is never written). -/
theorem simulate_pure (h : Hooks S G Tx R Hdr Q A) (st : App S G Tx Hdr) (tx : Option Tx) :
    ConsEq (simulate .fixed h st tx).1 st :=
  serve_harmless .fixed h st (.simulate tx) rfl

example : (simulate .fixed (markHooks true) ⟨⟨false, false⟩, [], (), (), none, []⟩ (some ())).1.root = ⟨false, false⟩ := by decide

/-- Under the plumbing as it is now a simulated message leaves **no trace of its handler** in the
node: neither in the working trees (`simulate_pure`) nor in the node-local side state — caches,
upgrade schedule — which after the call is whatever the ante handler left, for every handler. -/
theorem simulate_handler_leaves_no_trace (h : Hooks S G Tx R Hdr Q A)
    (handler' : Tx → Hdr → S → G → S × G × R) (st : App S G Tx Hdr) (tx : Option Tx) :
    (simulate .fixed { h with handler := handler' } st tx).1.side = (simulate .fixed h st tx).1.side ∧
    (simulate .fixed { h with handler := handler' } st tx).1.root = (simulate .fixed h st tx).1.root := by
  cases tx with
  | none => exact ⟨rfl, rfl⟩
  | some tx =>
    simp only [simulate]
    unfold runTx
    cases h.validateBasic tx <;> simp
    split <;> exact ⟨rfl, rfl⟩

/-- The result reported by a simulation is the same under both plumbings (the repair changes only
where the writes go). -/
theorem simulate_result_same (h : Hooks S G Tx R Hdr Q A) (st : App S G Tx Hdr) (tx : Option Tx) :
    (simulate .fixed h st tx).2 = (simulate .asis h st tx).2 := by
  cases tx with
  | none => rfl
  | some tx =>
    simp only [simulate]
    unfold runTx
    cases h.validateBasic tx <;> simp
    split <;> rfl

/-! ## Histories -/

/-- A consensus step started from two states that agree on everything but side state produces the
same outputs and keeps them in agreement, provided block execution does not read side state. -/
theorem step_consEq [DecidableEq Tx] (p : Plumbing) (h : Hooks S G Tx R Hdr Q A) (hs : SideIndep h)
    (a b : App S G Tx Hdr) (hab : ConsEq a b) (s : Step Tx Hdr Q) (hc : s.isConsensus = true) :
    (step p h a s).2 = (step p h b s).2 ∧ ConsEq (step p h a s).1 (step p h b s).1 := by
  obtain ⟨h1, h2, h3, h4, h5⟩ := hab
  cases s with
  | off c => simp [Step.isConsensus] at hc
  | beginBlock hdr =>
    simp only [step, ConsEq, true_and]
    rw [h1]
    exact ⟨hs.beginBlocker hdr b.root a.side b.side, h2, h3, h5⟩
  | endBlock =>
    cases hb : b.dlvHdr with
    | none =>
      have ha : a.dlvHdr = none := h4.trans hb
      simp only [step, ha, hb]
      exact ⟨trivial, h1, h2, h3, h4, h5⟩
    | some hdr =>
      have ha : a.dlvHdr = some hdr := h4.trans hb
      simp only [step, ha, hb, ConsEq, and_true, true_and]
      rw [h1]
      exact ⟨hs.endBlocker hdr b.root a.side b.side, h2, h3⟩
  | commit =>
    cases hb : b.dlvHdr with
    | none =>
      have ha : a.dlvHdr = none := h4.trans hb
      simp only [step, ha, hb]
      exact ⟨trivial, h1, h2, h3, h4, h5⟩
    | some hdr =>
      have ha : a.dlvHdr = some hdr := h4.trans hb
      simp [step, ha, hb, ConsEq, h1, h2, h5]
  | deliverTx tx =>
    cases hb : b.dlvHdr with
    | none =>
      have ha : a.dlvHdr = none := h4.trans hb
      simp only [step, deliverTx, ha, hb]
      exact ⟨trivial, h1, h2, h3, h4, h5⟩
    | some hdr =>
      have ha : a.dlvHdr = some hdr := h4.trans hb
      cases tx with
      | none =>
        simp only [step, deliverTx, ha, hb]
        exact ⟨trivial, h1, h2, h3, h4, h5⟩
      | some tx =>
        simp only [step, deliverTx, ha, hb, h5]
        by_cases hm : tx ∈ b.seen
        · simp only [if_pos hm]; exact ⟨trivial, h1, h2, h3, h4, h5⟩
        · simp only [if_neg hm]
          have key : (runTx p h .deliver hdr tx a.root a.side).1 = (runTx p h .deliver hdr tx b.root b.side).1 ∧
              (runTx p h .deliver hdr tx a.root a.side).2.2 = (runTx p h .deliver hdr tx b.root b.side).2.2 := by
            rw [h1]
            unfold runTx
            cases h.validateBasic tx with
            | some e => exact ⟨rfl, rfl⟩
            | none =>
              obtain ⟨e1, e2, e3⟩ := hs.ante tx (Mode.deliver == Mode.simulate) hdr b.root a.side b.side
              simp only [e3]
              cases (h.ante tx (Mode.deliver == Mode.simulate) hdr b.root b.side).abort with
              | true => simp [e2]
              | false =>
                simp only [Bool.false_eq_true, if_false, e1]
                exact hs.handler tx hdr _ _ _
          simp only [ConsEq, and_true]
          exact ⟨by rw [key.2], key.1, h2, h3⟩

/-- **Main theorem.**  For every history of ABCI calls with harmless off-chain calls interleaved at
any point (CheckTx of anything, store/custom/other queries at any height; under the repaired
plumbing also simulations), the consensus outputs — every DeliverTx result and every committed
state, hence every app hash — equal those of the history with the off-chain calls removed, from
any two starting states that agree on the consensus-relevant part. -/
theorem next_blocks_same_gen [DecidableEq Tx] (p : Plumbing) (h : Hooks S G Tx R Hdr Q A) (hs : SideIndep h)
    (steps : List (Step Tx Hdr Q)) (hh : ∀ s ∈ steps, s.harmless p = true)
    (a b : App S G Tx Hdr) (hab : ConsEq a b) :
    (run p h a steps).2 = (run p h b (steps.filter Step.isConsensus)).2 ∧
    ConsEq (run p h a steps).1 (run p h b (steps.filter Step.isConsensus)).1 := by
  induction steps generalizing a b with
  | nil => exact ⟨rfl, hab⟩
  | cons s ss ih =>
    have hss : ∀ s ∈ ss, s.harmless p = true := fun x hx => hh x (List.mem_cons_of_mem _ hx)
    by_cases hc : s.isConsensus = true
    · simp only [List.filter_cons, hc, if_true, run]
      obtain ⟨e1, e2⟩ := step_consEq p h hs a b hab s hc
      obtain ⟨i1, i2⟩ := ih hss _ _ e2
      exact ⟨by rw [e1, i1], i2⟩
    · have hc' : s.isConsensus = false := by simpa using hc
      simp only [List.filter_cons, hc', Bool.false_eq_true, if_false, run]
      cases s with
      | off c =>
        have hcall : c.harmless p = true := by
          have := hh (.off c) (List.mem_cons_self ..)
          simpa [Step.harmless] using this
        have e : ConsEq (step p h a (.off c)).1 b := by
          have := serve_harmless p h a c hcall
          obtain ⟨x1, x2, x3, x4, x5⟩ := this
          obtain ⟨y1, y2, y3, y4, y5⟩ := hab
          exact ⟨x1.trans y1, x2.trans y2, x3.trans y3, x4.trans y4, x5.trans y5⟩
        obtain ⟨i1, i2⟩ := ih hss _ _ e
        exact ⟨by simpa [step] using i1, i2⟩
      | beginBlock _ => simp [Step.isConsensus] at hc'
      | deliverTx _ => simp [Step.isConsensus] at hc'
      | endBlock => simp [Step.isConsensus] at hc'
      | commit => simp [Step.isConsensus] at hc'

/-- `next_blocks_same` in the form of the property statement. -/
theorem next_blocks_same [DecidableEq Tx] (p : Plumbing) (h : Hooks S G Tx R Hdr Q A) (hs : SideIndep h)
    (st : App S G Tx Hdr) (steps : List (Step Tx Hdr Q)) (hh : ∀ s ∈ steps, s.harmless p = true) :
    (run p h st steps).2 = (run p h st (steps.filter Step.isConsensus)).2 :=
  (next_blocks_same_gen p h hs steps hh st st ⟨rfl, rfl, rfl, rfl, rfl⟩).1

/-- For the code as it is: every history without `app/simulate` calls. -/
theorem next_blocks_same_asis_partial [DecidableEq Tx] (h : Hooks S G Tx R Hdr Q A) (hs : SideIndep h)
    (st : App S G Tx Hdr) (steps : List (Step Tx Hdr Q))
    (hno : ∀ tx, Step.off (Call.simulate tx) ∉ steps) :
    (run .asis h st steps).2 = (run .asis h st (steps.filter Step.isConsensus)).2 := by
  apply next_blocks_same .asis h hs st steps
  intro s hs'
  cases s with
  | off c =>
    cases c with
    | simulate tx => exact absurd hs' (hno tx)
    | _ => rfl
  | _ => rfl

/-- With no side state (`G = Unit`) the independence hypothesis is trivially met: the theorem's
hypotheses are satisfiable, and the two-mark instance gives a concrete non-trivial history. -/
theorem sideIndep_unit (h : Hooks S Unit Tx R Hdr Q A) : SideIndep h :=
  ⟨fun _ _ _ _ _ _ => ⟨rfl, rfl, rfl⟩, fun _ _ _ _ _ => ⟨rfl, rfl⟩, fun _ _ _ _ => rfl, fun _ _ _ _ => rfl⟩

example : (run .asis (markHooks true) ⟨⟨false, false⟩, [], (), (), none, []⟩
    [.off (.checkTx (some ())), .beginBlock (), .off (.queryCustom () 0), .deliverTx (some ()),
     .off (.checkTx none), .endBlock, .off (.queryStore () 7), .commit]).2
    = [.delivered true, .committed ⟨true, true⟩] := by decide

/-- The two-mark table the driver compares with the real application: which writes reach the
working trees per mode (ante mark, handler mark). -/
theorem visible_table :
    visible .asis .check true = ⟨false, false⟩ ∧ visible .asis .deliver true = ⟨true, true⟩ ∧
    visible .asis .deliver false = ⟨false, false⟩ ∧ visible .asis .simulate true = ⟨false, true⟩ ∧
    visible .asis .simulate false = ⟨false, false⟩ ∧ visible .fixed .simulate true = ⟨false, false⟩ ∧
    visible .fixed .check true = ⟨false, false⟩ ∧ visible .fixed .deliver true = ⟨true, true⟩ := by decide

end C11
