import Proofs.Ledger.AppsPool
import Proofs.Ledger.AppsQueue
/-!
# C20 — The application staking pool holds exactly the tokens staked by applications

Model: `PocketModel/Ledger/Apps.lean` (x/apps handler + keeper as coded, modern rule set).
`excess s = pool balance − Σ tokens of staked ∪ unstaking records`.  A history is any list of
operations `Op` (stake / edit / transfer messages from any signer, begin-unstake, block
boundaries with their end blocker, keeper-level force-unstake and jail, arbitrary changes of other
modules to balances / parameters, and `donate`: a plain `MsgSend` whose recipient is the pool's
module-account address).

Outcome: the property as stated is **false of the code** — nothing stops a `MsgSend` to the pool
address, which raises the pool without any staked record (`app_pool_inv_fails`, replayed on the
real application by `harness/cmd/appsdrive`).  The exact law is `pool_excess_is_donations`; the
property holds on every history without such a send (`app_pool_inv_partial`), and on all
histories the pool always *covers* the stakes (`pool_covers_stakes`).
-/
namespace C20
open Apps

/-- coins sent to the pool address by the `donate` operations of a history -/
def donatedAlong : St → List Op → Int
  | _, [] => 0
  | s, op :: ops => donated s op + donatedAlong (step s op) ops

/-- no operation of the history is a send to the pool's module-account address -/
def NoDonation (ops : List Op) : Prop := ∀ op ∈ ops, ∀ src amt, op ≠ Op.donate src amt

/-- **Exact law, all histories.**  Well-formedness is invariant and the pool balance exceeds the
bonded stakes by exactly the coins sent to the pool address. -/
theorem pool_excess_is_donations (s : St) (w : WF s) (ops : List Op) :
    WF (run s ops) ∧ excess (run s ops) = excess s + donatedAlong s ops := by
  induction ops generalizing s with
  | nil => exact ⟨w, by simp [run, donatedAlong]⟩
  | cons op ops ih =>
    obtain ⟨w1, e1⟩ := step_excess s op w
    obtain ⟨w2, e2⟩ := ih (step s op) w1
    refine ⟨w2, ?_⟩
    show excess (run (step s op) ops) = _
    rw [e2, e1]; simp only [donatedAlong]; omega

theorem donatedAlong_zero (s : St) (ops : List Op) (h : NoDonation ops) : donatedAlong s ops = 0 := by
  induction ops generalizing s with
  | nil => rfl
  | cons op ops ih =>
    have h1 : donated s op = 0 := by
      cases op with
      | donate src amt => exact absurd rfl (h _ List.mem_cons_self src amt)
      | _ => rfl
    simp only [donatedAlong, h1, ih (step s op) (fun o ho => h o (List.mem_cons_of_mem _ ho))]
    rfl

/-- **C20 on every history without a send to the pool address** (stake, edit, transfer,
begin-unstake, maturity, force-unstake, jail, anything other modules do to balances/params):
pool = Σ staked ∪ unstaking tokens is invariant. -/
theorem app_pool_inv_partial (s : St) (h : PoolInv s) (ops : List Op) (hn : NoDonation ops) :
    PoolInv (run s ops) := by
  obtain ⟨w, e⟩ := pool_excess_is_donations s h.1 ops
  exact ⟨w, by rw [e, h.2, donatedAlong_zero s ops hn]; rfl⟩

/-- The invariant in the property's own words. -/
theorem app_pool_eq_sum_partial (s : St) (h : PoolInv s) (ops : List Op) (hn : NoDonation ops) :
    (run s ops).pool = sumBonded (run s ops).apps := by
  have := (app_pool_inv_partial s h ops hn).2
  unfold excess at this; omega

/-- On **all** histories the pool covers the bonded stakes (so a matured unstake is always paid). -/
theorem pool_covers_stakes (s : St) (w : WF s) (ops : List Op) :
    sumBonded (run s ops).apps ≤ (run s ops).pool := by
  have := (pool_excess_is_donations s w ops).1.covers
  unfold excess at this; omega

/-! ### the property is false of the code: a send to the pool address -/

def a1 : Addr := [1]
def a2 : Addr := [2]
def a3 : Addr := [3]
def p0 : Params :=
  { minStake := 1000000, maxChains := 3, maxApps := 5, baseRelays := 100, stability := 0, unstakingTime := 3600, participation := false }
def app1 : App :=
  { pk := [11], status := stStaked, jailed := false, tokens := 10000000, maxRelays := 1000, chains := ["0001"], unstakingTime := 0 }
/-- one staked application, pool = its stake -/
def s0 : St :=
  { apps := [(a1, app1)], idx := [((10, a1), a1)], queue := [], pool := 10000000, feeColl := 0, supply := 1000000000,
    nodeStaked := 0, bals := [(a1, 5000000), (a2, 50000000)], params := p0, time := 100 }

theorem s0_poolInv : PoolInv s0 :=
  ⟨⟨by unfold NodupKeys; decide, by unfold NonNeg; decide, by decide⟩, by decide⟩

/-- **Counterexample** (replayed on the real application: `PROPFAIL app-pool-inflated-by-send`):
from a state satisfying the invariant, one `MsgSend` of 1 upokt to the pool's address breaks it. -/
theorem app_pool_inv_fails : ∃ (s : St) (ops : List Op), PoolInv s ∧ ¬ PoolInv (run s ops) :=
  ⟨s0, [.donate a2 1], s0_poolInv, fun h => absurd h.2 (by decide)⟩

/-! ### the individual transitions the property names -/

/-- Staking / edit-stake / transfer (any `MsgStake`, any signer) preserves the equality. -/
theorem stake_preserves (s : St) (h : PoolInv s) (signer : Addr) (m : MsgStake) (fee : Int) :
    PoolInv (deliverStake s signer m fee).2 :=
  let k := deliverStake_keeps s signer m fee
  ⟨k.wf h.1, by rw [k.ex h.1]; exact h.2⟩

/-- A transfer leaves the pool balance itself unchanged (tokens move with the record). -/
theorem transfer_pool_unchanged (s : St) (signer : Addr) (m : MsgStake) (cur : App) :
    (transferApplication s signer cur m).pool = s.pool := transfer_pool s signer cur m

theorem begin_unstake_preserves (s : St) (h : PoolInv s) (signer a : Addr) (fee : Int) :
    PoolInv (deliverUnstake s signer a fee).2 :=
  let k := deliverUnstake_keeps s signer a fee
  ⟨k.wf h.1, by rw [k.ex h.1]; exact h.2⟩

/-- The end blocker (payout of every mature unstaking application) preserves the equality. -/
theorem end_block_preserves (s : St) (h : PoolInv s) : PoolInv (endBlock s) :=
  let k := endBlock_keeps s
  ⟨k.wf h.1, by rw [k.ex h.1]; exact h.2⟩

theorem force_unstake_preserves (s : St) (h : PoolInv s) (a : Addr) : PoolInv (forceUnstake s a).2 :=
  let k := forceUnstake_keeps s a
  ⟨k.wf h.1, by rw [k.ex h.1]; exact h.2⟩

/-- **Duplicate unstaking-queue entries are harmless** (the queue slot is a *list*: `SetApplication`
appends an unstaking address on every call — jail / unjail of an unstaking application,
`ConvertState`): the end blocker re-reads and re-validates the record at every occurrence, so
visiting an address again pays nothing and deletes nothing. -/
theorem dup_queue_entry_harmless_app (l : List Addr) (s : St) (a : Addr) (ha : a ∈ l) :
    (l ++ [a]).foldl matureOne s = l.foldl matureOne s := dup_entry_noop l s a ha

/-- … and whatever duplicates the queue holds, the end blocker keeps pool = Σ (this is
`end_block_preserves`, restated for a state reached through jail + unjail of an unstaking application). -/
theorem dup_queue_end_block_exact (s : St) (h : PoolInv s) (a : Addr) :
    PoolInv (endBlock (unjail (jail s a) a)) := by
  have k := ((jail_keeps s a).trans (unjail_keeps (jail s a) a)).trans (endBlock_keeps _)
  exact ⟨k.wf h.1, by rw [k.ex h.1]; exact h.2⟩

/-! ### non-vacuity: a history through every transition -/

def ops0 : List Op :=
  [.stake a2 { pk := [12], addr := a2, chains := ["0021"], value := 2000000 } 10000,   -- new stake
   .stake a1 { pk := [11], addr := a1, chains := ["0001", "0021"], value := 11000000 } 10000, -- edit up
   .stake a1 { pk := [13], addr := a3, chains := [], value := 0 } 10000,                 -- transfer a1 → a3
   .unstake a2 a2 10000, .beginBlock 4000, .endBlock]                                    -- unstake + maturity

example : NoDonation ops0 := by
  intro op h src amt e; subst e; simp [ops0] at h
example : (run s0 ops0).pool = 11000000 ∧ sumBonded (run s0 ops0).apps = 11000000
    ∧ get (run s0 ops0).apps a3 = some { app1 with pk := [13], tokens := 11000000, maxRelays := 11, chains := ["0001", "0021"] }
    ∧ get (run s0 ops0).apps a1 = none ∧ get (run s0 ops0).apps a2 = none
    ∧ balOf (run s0 ops0) a2 = 49980000 := by decide +kernel
example : PoolInv (run s0 ops0) := app_pool_inv_partial s0 s0_poolInv ops0 (by
  intro op h src amt e; subst e; simp [ops0] at h)
example : excess (run s0 [.donate a2 1]) = 1 := by decide +kernel

/-- a2 stakes, begins unstaking, is jailed and unjailed through the keeper (its queue slot then holds
its address three times), matures with a1's stake still in the pool: paid exactly once. -/
def opsDup : List Op :=
  [.stake a2 { pk := [12], addr := a2, chains := ["0021"], value := 2000000 } 10000, .unstake a2 a2 10000,
   .jail a2, .unjail a2, .beginBlock 4000, .endBlock]
example : (run s0 (opsDup.take 4)).queue = [(3700, [a2, a2, a2])] := by decide +kernel
example : (run s0 opsDup).pool = 10000000 ∧ sumBonded (run s0 opsDup).apps = 10000000
    ∧ balOf (run s0 opsDup) a2 = 49980000 ∧ (run s0 opsDup).queue = [] := by decide +kernel

end C20
