import Proofs.Codec.WireCanon
/-!
# C16 (byte-level half) — one signed content, many byte strings

The replay guard of pocket-core is keyed by the hash of the raw transaction bytes
(`x/auth/ante.go: ValidateTransaction`, `baseapp.DeliverTx`), while the signature covers the sign
bytes computed from the *decoded* content.  This file is about the decoder
(`Wire.decodeTx` = `auth.DefaultTxDecoder` after the codec upgrade, on `message ProtoStdTx`):
it is far from injective, so a signed transaction has many encodings with different hashes; on
canonical encodings (fixpoints of decode-then-encode, which is what `DefaultTxEncoder` produces) it
is injective.  The chain-level half (delivery in the same / a later block) is the lead's `Props/C16`.
-/
namespace C16wire
open Wire

/-- A signed `MsgSend`-shaped transaction in its canonical encoding (`encodeTx exTx`). -/
def exTx : List Value :=
  [.msg (some [.bytes (some [0x2f, 0x6d]), .bytes (some [0x08, 0x05])]),
   .rep (some [.msg (some [.bytes (some [0x75]), .bytes (some [0x37])])]),
   .msg (some [.bytes (some [1]), .bytes (some [2])]), .bytes (some [0x61]), .int 5]

def b₀ : Bytes :=
  [31, 10, 8, 10, 2, 47, 109, 18, 2, 8, 5, 18, 6, 10, 1, 117, 18, 1, 55, 26, 6, 10, 1, 1, 18, 1, 2, 34, 1, 97, 40, 5]

theorem example_is_the_encoding : encodeTx exTx = b₀ := by decide

/-- Re-encodings of `b₀`, one per class the harness' rewriter produces (`design-notes/C16wire.md`). -/
def lengthPrefixPadded : Bytes := [0x9f, 0x00] ++ b₀.drop 1
def varintPadded : Bytes := [32] ++ (b₀.drop 1).take 30 ++ [0x85, 0x00]
def varintTenthByteJunk : Bytes :=
  [40] ++ (b₀.drop 1).take 30 ++ [0x85, 0x80, 0x80, 0x80, 0x80, 0x80, 0x80, 0x80, 0x80, 0x7e]
def unknownFieldAppended : Bytes := [33] ++ b₀.drop 1 ++ [0x78, 0x01]
def unknownGroupInFront : Bytes := [35, 0x7b, 0x08, 0x07, 0x7c] ++ b₀.drop 1
def duplicatedScalar : Bytes := [33] ++ (b₀.drop 1).take 29 ++ [40, 9, 40, 5]
def fieldsReordered : Bytes := [31, 40, 5] ++ (b₀.drop 1).take 29
def tagHighBits : Bytes := [36] ++ (b₀.drop 1).take 29 ++ [0xa8, 0x80, 0x80, 0x80, 0x80, 0x01, 5]
def embeddedMessageSplit : Bytes :=
  [33] ++ (b₀.drop 1).take 18 ++ [26, 3, 10, 1, 1, 26, 3, 18, 1, 2] ++ (b₀.drop 27)
def explicitDefault : Bytes := [33] ++ b₀.drop 1 ++ [0x30, 0x00]
def bigintTextAlias : Bytes := [32] ++ (b₀.drop 1).take 10 ++ [18, 7, 10, 1, 117, 18, 2, 43, 55] ++ (b₀.drop 19)

/-- **The decoder identifies different byte strings** — the full statement "same signed content ⇒
same bytes" is false: each re-encoding differs from `b₀`, is accepted, and decodes to exactly the
content of `b₀` (non-minimal length prefix, non-minimal varint, bits beyond 2^64 in a 10-byte varint,
unknown field, unknown group, duplicated scalar with last-one-wins, field order, field number bits
≥ 2^32, an embedded message written in two pieces, an explicit default). -/
theorem reencode_replays :
    (decodeTx b₀).isSome ∧
    (lengthPrefixPadded ≠ b₀ ∧ decodeTx lengthPrefixPadded = decodeTx b₀) ∧
    (varintPadded ≠ b₀ ∧ decodeTx varintPadded = decodeTx b₀) ∧
    (varintTenthByteJunk ≠ b₀ ∧ decodeTx varintTenthByteJunk = decodeTx b₀) ∧
    (unknownFieldAppended ≠ b₀ ∧ decodeTx unknownFieldAppended = decodeTx b₀) ∧
    (unknownGroupInFront ≠ b₀ ∧ decodeTx unknownGroupInFront = decodeTx b₀) ∧
    (duplicatedScalar ≠ b₀ ∧ decodeTx duplicatedScalar = decodeTx b₀) ∧
    (fieldsReordered ≠ b₀ ∧ decodeTx fieldsReordered = decodeTx b₀) ∧
    (tagHighBits ≠ b₀ ∧ decodeTx tagHighBits = decodeTx b₀) ∧
    (embeddedMessageSplit ≠ b₀ ∧ decodeTx embeddedMessageSplit = decodeTx b₀) ∧
    (explicitDefault ≠ b₀ ∧ decodeTx explicitDefault = decodeTx b₀) :=
  ⟨by rfl, ⟨by decide, by rfl⟩, ⟨by decide, by rfl⟩, ⟨by decide, by rfl⟩, ⟨by decide, by rfl⟩,
   ⟨by decide, by rfl⟩, ⟨by decide, by rfl⟩, ⟨by decide, by rfl⟩, ⟨by decide, by rfl⟩,
   ⟨by decide, by rfl⟩, ⟨by decide, by rfl⟩⟩

/-- In the existential form of DESIGN.md. -/
theorem reencode_replays_exists : ∃ b₁ b₂ : Bytes, b₁ ≠ b₂ ∧ (decodeTx b₁).isSome ∧ decodeTx b₁ = decodeTx b₂ :=
  ⟨unknownFieldAppended, b₀, reencode_replays.2.2.2.2.1.1, by rfl, reencode_replays.2.2.2.2.1.2⟩

/-- One more class lives one layer up: `BigInt.Unmarshal` reads its text with base 0, so `7`, `+7`,
`0x7`, `07`, `0b111` are the same amount. -/
theorem bigint_text_aliases :
    bigintTextAlias ≠ b₀ ∧ decodeTx bigintTextAlias ≠ decodeTx b₀ ∧
    (decodeTx bigintTextAlias).bind (BigText.canonFields stdTxSchema) = (decodeTx b₀).bind (BigText.canonFields stdTxSchema) ∧
    BigText.parseGoInt [0x2b, 0x37] = some 7 ∧ BigText.parseGoInt [0x30, 0x78, 0x37] = some 7 ∧
    BigText.parseGoInt [0x30, 0x37] = some 7 ∧ BigText.parseGoInt [0x30, 0x62, 0x31, 0x5f, 0x31, 0x31] = some 7 := by
  refine ⟨by decide, ?_, by rfl, by decide, by decide, by decide, by decide⟩
  intro h
  have h1 : decodeTx bigintTextAlias = some
      [.msg (some [.bytes (some [0x2f, 0x6d]), .bytes (some [0x08, 0x05])]),
       .rep (some [.msg (some [.bytes (some [0x75]), .bytes (some [0x2b, 0x37])])]),
       .msg (some [.bytes (some [1]), .bytes (some [2])]), .bytes (some [0x61]), .int 5] := by rfl
  have h2 : decodeTx b₀ = some exTx := by rfl
  rw [h1, h2] at h
  simp [exTx] at h

/-- Sign bytes (and everything else the handlers see) are computed from the decoded transaction, so
two encodings with the same decoding have the same sign bytes and verify under the same signature —
for any function of the decoded content. -/
theorem same_content_same_signbytes {α : Type} (signBytes : List Value → α) (b₁ b₂ : Bytes)
    (h : decodeTx b₁ = decodeTx b₂) : (decodeTx b₁).map signBytes = (decodeTx b₂).map signBytes := by
  rw [h]

/-- Why: a field's value depends only on the sub-sequence of wire fields carrying its number. -/
theorem decode_depends_on_field_streams (s : Schema) (toks toks' : List Tok)
    (h : ∀ f ∈ s, toks.filter f.owns = toks'.filter f.owns) : decFields s toks = decFields s toks' :=
  decFields_depends_on_field_streams s toks toks' h

/-- Unknown fields are skipped at every position (general form of `unknownFieldAppended`). -/
theorem unknown_field_skipped (s : Schema) (a b : List Tok) (t : Tok) (h : ∀ f ∈ s, f.owns t = false) :
    decFields s (a ++ t :: b) = decFields s (a ++ b) :=
  decFields_unknown_skipped s a b t h

example : ∀ f ∈ stdTxSchema, f.owns ⟨15, .varint 1⟩ = false := by decide

/-- Fields with different numbers commute (general form of `fieldsReordered`). -/
theorem distinct_fields_commute (s : Schema) (a b : List Tok) (t u : Tok)
    (h : ∀ f ∈ s, ¬ (f.owns t = true ∧ f.owns u = true)) :
    decFields s (a ++ t :: u :: b) = decFields s (a ++ u :: t :: b) :=
  decFields_swap_distinct s a b t u h

/-- `Canonical`: the bytes are what the encoder writes for their own decoding (minimal varints,
schema order, no unknown, duplicated or explicitly-default fields). -/
abbrev Canonical := Wire.Canonical

/-- **On canonical encodings decoding is injective**: two canonical byte strings with the same
decoded content are the same bytes (hence have the same hash, and the replay guard applies). -/
theorem decode_canonical_unique (s : Schema) (b₁ b₂ : Bytes) (h₁ : Canonical s b₁) (h₂ : Canonical s b₂)
    (h : decodeMsg s b₁ = decodeMsg s b₂) : b₁ = b₂ :=
  decode_canonical_injective s b₁ b₂ h₁ h₂ h

/-- **The encoder only produces canonical encodings**: for every schema with distinct field numbers
and every well-shaped value (right constructor per field — what a Go struct always is) whose
encoding fits a Go `int`.  Together with `decode_canonical_unique`: among the encoder's outputs,
equal signed content means equal bytes. -/
theorem encode_is_canonical (s : Schema) (vs : List Value) (hw : wfSchema s = true)
    (hsh : shapedFields s vs = true) (hs : (encodeMsg s vs).length < 2 ^ 63) :
    Canonical s (encodeMsg s vs) :=
  Wire.encode_is_canonical s vs hw hsh (by simpa [two63] using hs)

example : wfSchema stdTxSchema = true ∧ shapedFields stdTxSchema exTx = true := by decide

/-- Equal content ⇒ equal bytes, for the encoder's outputs. -/
theorem encoder_outputs_injective (s : Schema) (v₁ v₂ : List Value) (hw : wfSchema s = true)
    (h₁ : shapedFields s v₁ = true) (h₂ : shapedFields s v₂ = true)
    (s₁ : (encodeMsg s v₁).length < 2 ^ 63) (s₂ : (encodeMsg s v₂).length < 2 ^ 63)
    (h : decodeMsg s (encodeMsg s v₁) = decodeMsg s (encodeMsg s v₂)) : encodeMsg s v₁ = encodeMsg s v₂ :=
  decode_canonical_unique s _ _ (encode_is_canonical s v₁ hw h₁ s₁) (encode_is_canonical s v₂ hw h₂ s₂) h

/-- Non-vacuity: the encoder's output for `exTx` is canonical, the re-encodings are not. -/
theorem canonical_example : Canonical stdTxSchema (b₀.drop 1) ∧ ¬ Canonical stdTxSchema (unknownFieldAppended.drop 1) := by
  refine ⟨⟨exTx, by rfl, by decide⟩, ?_⟩
  rintro ⟨v, hd, he⟩
  have h2 : decodeMsg stdTxSchema (unknownFieldAppended.drop 1) = some exTx := by rfl
  rw [h2] at hd
  injection hd with hv
  subst hv
  revert he
  decide

end C16wire
