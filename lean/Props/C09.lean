import Proofs.Store.IavlMulti
import Proofs.Store.IavlHeapAbs      -- stage B (heap level), added at the end of this file
import Proofs.Store.IavlHeapCounter  -- stage B counterexamples
/-!
# C09 — Reads at a past height always see that height's committed state (stage A: pure model)

Model: `PocketModel/Store/IavlMulti.lean` — the multistore as a list of IAVL substores
(`PocketModel/Store/Iavl.lean`), `Commit` saving every substore, historical views opened by
`LoadLazyVersion` / `CacheMultiStoreWithVersion` / `GetImmutable`.  Specification: `MSpec`, which
records at every commit the maps of all substores under the new height.

These theorems are about the pure model, where a historical view *is* the tree value saved at its
height.  They do **not** cover heap aliasing in the Go implementation (shared node cache, shared
`versions` map, `SaveBranch` clearing child pointers under a reader) — that is stage B, exercised
by the correspondence harness (`harness/cmd/c09`) but not proved.
-/
namespace C09
open Iavl

/-- The state "committed at height h" is the working state at the moment of that commit. -/
theorem committed_is_working_at_commit (n : Nat) (ops : List MOp) (i : Nat) :
    (MSpec.run n (ops ++ [.commit])).committedAt ((MSpec.run n ops).version + 1) i = (MSpec.run n ops).cur[i]? ∧
    (MSpec.run n (ops ++ [.commit])).version = (MSpec.run n ops).version + 1 := by
  simp [MSpec.run, List.foldl_append, MSpec.step, MSpec.committedAt]

/-- Every read through a historical view of any height returns what the map committed at that
height returns (and "no such version" exactly when nothing was committed at that height). -/
theorem historical_read_is_committed_state (n : Nat) (ops : List MOp) (h i : Nat) (r : Read) (hi : i < n) :
    (MS.run n ops).readAt h i r = ((MSpec.run n ops).committedAt h i).map (fun m => KVs.read m r) :=
  (Sim.run n ops).readAt h i r hi

/-- Every committed height 1..version can be opened, for every substore. -/
theorem historical_view_exists (n : Nat) (ops : List MOp) (h i : Nat) (r : Read) (hi : i < n)
    (h1 : 1 ≤ h) (h2 : h ≤ (MS.run n ops).version) : ((MS.run n ops).readAt h i r).isSome := by
  have sim := Sim.run n ops
  have hlt : i < (MS.run n ops).stores.length := by rw [sim.len]; exact hi
  have hget : (MS.run n ops).stores[i]? = some (MS.run n ops).stores[i] := List.getElem?_eq_getElem hlt
  have := sim.full h i _ hget h1 h2
  simp only [MS.readAt, hget, Option.bind_some, Tree.read]
  cases hg : (MS.run n ops).stores[i].getImmutable h with
  | none => rw [hg] at this; cases this
  | some root => simp

/-- **historical_read_stable.** Once height `h` is committed, every read through a view of height
`h` keeps returning the same answer — the one of the map committed at `h` — after any further
writes and commits on any substore. -/
theorem historical_read_stable (n : Nat) (ops1 ops2 : List MOp) (h i : Nat) (r : Read) (hi : i < n)
    (h1 : 1 ≤ h) (h2 : h ≤ (MS.run n ops1).version) :
    (MS.run n (ops1 ++ ops2)).readAt h i r = (MS.run n ops1).readAt h i r ∧
    (MS.run n ops1).readAt h i r = ((MSpec.run n ops1).committedAt h i).map (fun m => KVs.read m r) := by
  refine ⟨?_, historical_read_is_committed_state n ops1 h i r hi⟩
  have sim := Sim.run n ops1
  have hlt : i < (MS.run n ops1).stores.length := by rw [sim.len]; exact hi
  have hget : (MS.run n ops1).stores[i]? = some (MS.run n ops1).stores[i] := List.getElem?_eq_getElem hlt
  have hfull := sim.full h i _ hget h1 h2
  cases hg : (MS.run n ops1).stores[i].getImmutable h with
  | none => rw [hg] at hfull; cases hfull
  | some root =>
    obtain ⟨t', ht', hv'⟩ := MS.foldl_getImmutable ops2 (MS.run n ops1) i h _ root hget hg
    rw [MS.run_append]
    simp [MS.readAt, ht', hget, Tree.read, hv', hg]

/-- The same for whole interleavings: in any event list mixing writes, commits, historical reads at
arbitrary heights and reads of the working state, every read answer is the per-height map
specification's answer; reads never influence later answers. -/
theorem historical_trace_refines (n : Nat) (evs : List Ev) (hidx : ∀ ev ∈ evs, ev.inRange n) :
    (runEvents n evs).2 = (specEvents n evs).2 :=
  (runEvents_spec_from n evs (MS.init n) (MSpec.init n) [] (Sim.init n) hidx).1

/-- Dropping the read events from an interleaving changes no state: reads are observations only. -/
theorem reads_do_not_change_state (n : Nat) (evs : List Ev) :
    (runEvents n evs).1 = MS.run n (evs.filterMap (fun ev => match ev with | .op o => some o | _ => none)) := by
  unfold runEvents MS.run
  generalize MS.init n = ms
  generalize ([] : List (Option ReadResult)) = acc
  induction evs generalizing ms acc with
  | nil => rfl
  | cons ev rest ih =>
    cases ev with
    | op o => simp only [List.foldl_cons, evStep, List.filterMap_cons]; exact ih _ _
    | readAt h i r => simp only [List.foldl_cons, evStep, List.filterMap_cons]; exact ih _ _
    | readWorking i r => simp only [List.foldl_cons, evStep, List.filterMap_cons]; exact ih _ _

/-- What `LoadLazyVersion h` / `CacheMultiStoreWithVersion h` open for a committed height: per
substore, exactly the tree saved at `h` (the one `GetImmutable h` returns), labelled with version `h`. -/
theorem lazy_view_is_saved_tree (n : Nat) (ops : List MOp) (h i : Nat) (t : Tree)
    (ht : (MS.run n ops).stores[i]? = some t) (h1 : 1 ≤ h) (h2 : h ≤ (MS.run n ops).version) :
    ∃ root, t.getImmutable h = some root ∧ t.lazyLoadVersion (h : Int) = .view root h := by
  have sim := Sim.run n ops
  obtain ⟨_, hv⟩ := sim.wf i t ht
  have hfull := sim.full h i t ht h1 h2
  cases hg : t.getImmutable h with
  | none => rw [hg] at hfull; cases hfull
  | some root =>
    refine ⟨root, rfl, ?_⟩
    have e1 : ¬ ((t.version : Int) < (h : Int)) := by rw [hv]; omega
    have e2 : ¬ t.version = 0 := by rw [hv]; omega
    have e3 : ¬ h = 0 := by omega
    simp [Tree.lazyLoadVersion, e1, e2, e3, hg]

/-- The code's quirk, kept in the model: a non-positive target opens the *latest* version. -/
theorem lazy_nonpositive_opens_latest (t : Tree) (h : Int) (hh : h ≤ 0) (hv : 0 < t.version) :
    t.lazyLoadVersion h = t.lazyLoadVersion (t.version : Int) := by
  have e1 : ¬ ((t.version : Int) < h) := by omega
  have e2 : ¬ t.version = 0 := by omega
  simp [Tree.lazyLoadVersion, e1, e2, hh]

/-! ## Non-vacuity -/

private def ka : Bytes := [1]
private def kb : Bytes := [2]

/-- Two substores; height 1 and 2 committed; later writes overwrite and delete what height 1 saw;
historical reads at both heights and of a height that does not exist yet, interleaved. -/
private def evs : List Ev :=
  [.op (.set 0 ka [10]), .op (.set 1 kb [20]), .op .commit,
   .readAt 1 0 (.get ka),
   .op (.set 0 ka [11]), .op (.remove 1 kb), .readAt 1 1 (.has kb), .op .commit,
   .readAt 1 0 (.get ka), .readAt 2 0 (.get ka), .readAt 1 1 (.range none none true false),
   .readAt 2 1 (.range none none true false), .readAt 3 0 (.get ka), .readWorking 0 (.get ka),
   .op (.remove 0 ka), .readAt 2 0 (.get ka), .readAt 1 0 (.get ka), .readWorking 0 (.get ka)]

example : ∀ ev ∈ evs, ev.inRange 2 := by
  intro ev hev
  simp only [evs, List.mem_cons, List.mem_nil_iff, or_false] at hev
  rcases hev with rfl | rfl | rfl | rfl | rfl | rfl | rfl | rfl | rfl | rfl | rfl | rfl | rfl | rfl | rfl | rfl | rfl | rfl <;>
    simp [Ev.inRange]
example : (runEvents 2 evs).2 =
    [some (.get 0 (some [10])), some (.has true), some (.get 0 (some [10])), some (.get 0 (some [11])),
     some (.range [(kb, [20])]), some (.range []), none, some (.get 0 (some [11])),
     some (.get 0 (some [11])), some (.get 0 (some [10])), some (.get 0 none)] := by decide
example : (runEvents 2 evs).1.version = 2 := by decide
example : ((runEvents 2 evs).1.loadLazyVersion 1).isSome = true ∧ ((runEvents 2 evs).1.loadLazyVersion 3).isSome = false := by
  decide

end C09

/-! # ===== stage B: the Go heap (aliasing, in-place mutation, node cache) =====

Model: `PocketModel/Store/IavlHeap.lean` — an explicit heap of `Node` objects, the node DB and the
LRU node cache, with `clone`, `recursiveSet`, `recursiveRemove`, `rotateLeft/Right`, `balance`,
`calcHeightAndSize`, `hashWithCount`, `SaveBranch`/`SaveNode`, `GetNode`, `getLeftNode/getRightNode`
and the reads, step by step as the Go code performs them.  `Rep H P st t a` ("object `a` represents
the pure tree `t`", `Proofs/Store/IavlHeap.lean`) is the relational form of the abstraction function
`abs`; `Own H sys T V` is the ownership/simulation invariant between the heap system and the pure
versioned tree `T` of stage A / C03 together with the held view handles `V`.

The hash function `H` is a parameter; its injectivity is an explicit hypothesis exactly where the DB
is written (`SaveBranch`).  Everything is for the as-is clone discipline `Cfg.asIs`; the last two
theorems show that it is needed. -/
namespace C09
open Iavl Iavl.Heap

/-- **heap_refines_pure.** Under the ownership invariant every heap-level operation — `Set`,
`Remove`, `SaveVersion`, `Rollback`, `WorkingHash`, `GetImmutable`, `LazyLoadVersion`, a read on the
working tree, a read through a held view (lazy child loading through the node cache included) —
succeeds (fuel above the tree depths), answers exactly what the pure model answers, and
re-establishes the invariant for the pure model's next state. -/
theorem heap_refines_pure (H : HashIn → Hash) (hinj : Function.Injective H) {sys : Sys} {T : Tree}
    {V : List (Option Node)} (hown : Own H sys T V) (op : HOp) (fuel : Nat) (hfuel : Adequate fuel T V) :
    ∃ sys', stepH H Cfg.asIs fuel sys op = some (sys', pureOut H T V op) ∧
      Own H sys' (pureStep T op) (pureViews T V op) := by
  obtain ⟨sys', e, ho, _, _⟩ := step_refines H hinj hown op fuel hfuel
  exact ⟨sys', e, ho⟩

/-- The same for whole histories from the empty tree, for every node-cache size: all answers are the
pure model's, and the final heap owns the pure model's final state. -/
theorem heap_history_refines_pure (H : HashIn → Hash) (hinj : Function.Injective H) (cacheSize fuel : Nat)
    (ops : List HOp) (had : AdequateRun fuel Tree.empty [] ops) :
    ∃ sys', runH H Cfg.asIs fuel { st := { cacheSize := cacheSize } } ops = some (sys', (pureRun H Tree.empty [] ops).2.2) ∧
      Own H sys' (pureRun H Tree.empty [] ops).1 (pureRun H Tree.empty [] ops).2.1 := by
  obtain ⟨sys', e, ho, _, _⟩ := run_refines H hinj fuel ops _ _ _ (Own.init H cacheSize) had
  exact ⟨sys', e, ho⟩

/-- **The write-once discipline** (what the run-time monitor `Driver/C09b.lean` checks on the real
heap with the same decidable relation `cellLe`): along any history every object only evolves by
`cellLe` — key, value, height, size, version never change; a persisted object never changes; a
memoised hash stays; pointers are dropped only when the object becomes persisted — nothing is freed
and the DB only grows. -/
theorem heap_write_once (H : HashIn → Hash) (hinj : Function.Injective H) (fuel : Nat) (ops : List HOp)
    {sys : Sys} {T : Tree} {V : List (Option Node)} (hown : Own H sys T V) (had : AdequateRun fuel T V ops) :
    ∃ sys' outs, runH H Cfg.asIs fuel sys ops = some (sys', outs) ∧
      (∀ (x : Addr) (c : Cell), sys.st.heap[x]? = some c → ∃ c', sys'.st.heap[x]? = some c' ∧ cellLe c c' = true) ∧
      (∀ (x : Addr) (c : Cell), sys.st.heap[x]? = some c → c.persisted = true → sys'.st.heap[x]? = some c) ∧
      (∀ k s, sys.st.db k = some s → sys'.st.db k = some s) := by
  obtain ⟨sys', e, _, _, hg⟩ := run_refines H hinj fuel ops sys T V hown had
  exact ⟨sys', _, e, hg.cells, fun x c hc hp => hg.persisted hc hp, hg.db⟩

/-- **saved_roots_frozen_heap.** Take any history, stop anywhere, and pick *any* object that at that
point represents a pure tree `t` (in particular the root object of a saved version, of `lastSaved`,
or any handle a reader holds).  After any further operations the same object still represents `t`,
and the abstraction function `abs` still returns `t`. -/
theorem saved_roots_frozen_heap (H : HashIn → Hash) (hinj : Function.Injective H) (cacheSize fuel : Nat)
    (ops1 ops2 : List HOp) (had : AdequateRun fuel Tree.empty [] (ops1 ++ ops2)) :
    ∃ sys1 sys2 outs1 outs2,
      runH H Cfg.asIs fuel { st := { cacheSize := cacheSize } } ops1 = some (sys1, outs1) ∧
      runH H Cfg.asIs fuel sys1 ops2 = some (sys2, outs2) ∧
      ∀ (P : Addr → Prop) (t : Node) (x : Addr), Rep H P sys1.st t x →
        Rep H P sys2.st t x ∧ ∀ f, depth t < f → abs sys2.st f x = some t := by
  obtain ⟨had1, had2⟩ := AdequateRun.append H had
  obtain ⟨sys1, e1, ho1, _, _⟩ := run_refines H hinj fuel ops1 _ _ _ (Own.init H cacheSize) had1
  obtain ⟨sys2, e2, _, hst, _⟩ := run_refines H hinj fuel ops2 sys1 _ _ ho1 had2
  exact ⟨sys1, sys2, _, _, e1, e2, fun P t x hr => ⟨hst P t x hr, fun f hf => abs_of_rep H t x f hf (hst P t x hr)⟩⟩

/-- **historical_read_stable_heap.** Open version `v` with `GetImmutable` after any history `ops1`,
keep the handle across arbitrary later operations `ops2` (writes, commits, rollbacks, hashing, other
views being opened and read), then read through it: the answer is the pure model's read of the tree
saved as version `v` — the committed state (`C09.historical_read_is_committed_state`,
`C03.ops_refine_map` give its map-level meaning). -/
theorem historical_read_stable_heap (H : HashIn → Hash) (hinj : Function.Injective H) (cacheSize fuel : Nat)
    (ops1 ops2 : List HOp) (v : Nat) (r : Read) (root : Option Node)
    (hv : (pureRun H Tree.empty [] ops1).1.getImmutable v = some root)
    (had : AdequateRun fuel Tree.empty []
      (ops1 ++ [.getImmutable v] ++ ops2 ++ [.readView (pureRun H Tree.empty [] ops1).2.1.length r])) :
    ∃ sys' outs,
      runH H Cfg.asIs fuel { st := { cacheSize := cacheSize } }
        (ops1 ++ [.getImmutable v] ++ ops2 ++ [.readView (pureRun H Tree.empty [] ops1).2.1.length r])
        = some (sys', outs ++ [.read (some (readRoot root r))]) := by
  obtain ⟨sys', e, _⟩ := heap_history_refines_pure H hinj cacheSize fuel _ had
  -- the pure model's answers: views are only ever appended, so the handle's index still denotes `root`
  have hV2 : (pureRun H Tree.empty [] (ops1 ++ [.getImmutable v])).2.1 = (pureRun H Tree.empty [] ops1).2.1 ++ [root] := by
    rw [pureRun_append]; simp only [pureRun, pureViews, hv]
  obtain ⟨more, hmore⟩ := pureRun_views_prefix H (pureRun H Tree.empty [] (ops1 ++ [.getImmutable v])).1
    (pureRun H Tree.empty [] (ops1 ++ [.getImmutable v])).2.1 ops2
  have hVA : (pureRun H Tree.empty [] (ops1 ++ [.getImmutable v] ++ ops2)).2.1 =
      (pureRun H Tree.empty [] ops1).2.1 ++ [root] ++ more := by
    rw [pureRun_append]; simp only []; rw [hmore, hV2]
  have hget : ((pureRun H Tree.empty [] ops1).2.1 ++ [root] ++ more)[(pureRun H Tree.empty [] ops1).2.1.length]? = some root := by
    rw [List.append_assoc, List.getElem?_append_right (Nat.le_refl _)]; simp
  refine ⟨sys', (pureRun H Tree.empty [] (ops1 ++ [.getImmutable v] ++ ops2)).2.2, ?_⟩
  rw [e, pureRun_append]
  simp only [pureRun, pureOut, hVA, hget, Option.map_some]

/-- **The clone discipline is necessary (1): rotation without clone** (`rotateLeft/rotateRight` no
longer clone the node they are handed — seeded bug C03-a).  History: Set k3,k4,k1,k0,k2; SaveVersion;
open version 1; Remove k3.  As is, iterating the held view gives the five keys before and after and
no object breaks `cellLe`; in the mutated model the view loses `k2` and a *persisted* object was
written in place. -/
theorem clone_discipline_needed_rotation :
    Counter.rotScenario Cfg.asIs = some (Counter.v1contents, Counter.v1contents, []) ∧
    Counter.rotScenario { rotateClones := false } =
      some (Counter.v1contents,
            .range [(Counter.k0, [0]), (Counter.k1, [1]), (Counter.k3, [3]), (Counter.k4, [4])], [(13, true)]) :=
  ⟨Counter.rot_asIs_ok, Counter.rot_without_clone_breaks_saved_version⟩

/-- **The clone discipline is necessary (2): in-place update of never-persisted inner nodes**
(seeded bug C04-a).  History: block 1 = k0,k1,k2; block 2 = k1:=11; reload version 1, replay block 2
and re-commit (idempotent branch: the working tree now consists of unpersisted objects with
memoised hashes); block 3 = k2:=22; commit.  As is, version 2 on disk is unchanged and version 3 has
its own root hash; in the mutated model block 3 rewrites version 2's DB records (k2 = 22 in
version 2) and version 3 reports version 2's root hash. -/
theorem clone_discipline_needed_inplace :
    Counter.inplaceScenario Cfg.asIs =
      some ⟨some [(Counter.k0, [0]), (Counter.k1, [11]), (Counter.k2, [2])],
            some [(Counter.k0, [0]), (Counter.k1, [11]), (Counter.k2, [2])], false⟩ ∧
    Counter.inplaceScenario { setClonesDirty := false } =
      some ⟨some [(Counter.k0, [0]), (Counter.k1, [11]), (Counter.k2, [2])],
            some [(Counter.k0, [0]), (Counter.k1, [11]), (Counter.k2, [22])], true⟩ :=
  ⟨Counter.inplace_asIs_ok, Counter.inplace_update_breaks_saved_version⟩

/-- **Opening the currently loaded version while the working tree is dirty.** `heap_refines_pure`
covers it like any other `LazyLoadVersion` (the handle represents the tree *saved* as that version,
read from the root record — never the working root).  A fast path that reuses a persisted working
root (seeded change C09-a) breaks exactly this: after `Remove` of a leaf directly under the root the
persisted sibling is the working root, and the view of the last committed version, opened before the
next commit, lacks the deleted key. -/
theorem lazy_load_must_not_reuse_working_root :
    Counter.lazyScenario false = some (.range [(Counter.k0, [0]), (Counter.k1, [1])]) ∧
    Counter.lazyScenario true = some (.range [(Counter.k0, [0])]) :=
  ⟨Counter.lazy_asIs_ok, Counter.lazy_fast_path_shows_uncommitted_state⟩

/-- The general statement behind it: in any state satisfying the ownership invariant — dirty working
tree included — `LazyLoadVersion target` hands out a handle representing what the pure model's
`lazyLoadVersion` opens, i.e. for `target = T.version` the tree saved as the latest version. -/
theorem lazy_load_of_loaded_version_while_dirty (H : HashIn → Hash) {sys : Sys} {T : Tree} {V : List (Option Node)}
    (hown : Own H sys T V) (fuel : Nat) :
    ∃ sys', stepH H Cfg.asIs fuel sys (.lazyLoad (T.version : Int)) =
        some (sys', .opened (match T.lazyLoadVersion (T.version : Int) with | .view _ _ => true | _ => false)) ∧
      Own H sys' T (pureViews T V (.lazyLoad (T.version : Int))) := by
  obtain ⟨sys', e, ho, _⟩ := lazyLoad_refines H hown (T.version : Int) fuel
  exact ⟨sys', e, ho⟩

/-! ## Non-vacuity (stage B) -/

/-- The initial system satisfies the ownership invariant (every cache size), so the hypotheses of
the stage-B theorems are met by every history from the empty tree. -/
example (H : HashIn → Hash) : Own H { st := { cacheSize := 2 } } Tree.empty [] := Own.init H 2

/-- A concrete history on the heap model with a concrete hash, node cache of size 2: two commits,
a view of version 1 held across an overwrite, a removal and a commit, then read. -/
example : (runH Counter.Hc Cfg.asIs 20 { st := { cacheSize := 2 } }
      [.set [1] [10], .set [2] [20], .set [3] [30], .save, .getImmutable 1, .set [1] [11], .remove [2], .save,
       .readView 0 (.get [1]), .readView 0 (.has [2]), .readWorking (.get [1]), .readWorking (.has [2])]).map (·.2.drop 8) =
    some [.read (some (.get 0 (some [10]))), .read (some (.has true)),
          .read (some (.get 0 (some [11]))), .read (some (.has false))] := by decide

end C09

