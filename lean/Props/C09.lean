import Proofs.Store.IavlMulti
/-!
# C09 — Reads at a past height always see that height's committed state (stage A: pure model)

Model: `PocketModel/Store/IavlMulti.lean` — the multistore as a list of IAVL substores
(`PocketModel/Store/Iavl.lean`), `Commit` saving every substore, historical views opened by
`LoadLazyVersion` / `CacheMultiStoreWithVersion` / `GetImmutable`.  Specification: `MSpec`, which
records at every commit the maps of all substores under the new height.

These theorems are about the pure model, where a historical view *is* the tree value saved at its
height.  They do **not** cover heap aliasing in the Go implementation (shared node cache, shared
`versions` map, `SaveBranch` clearing child pointers under a reader) — that is stage B, exercised
by the correspondence harness (`harness/cmd/c09`) but not proved.
-/
namespace C09
open Iavl

/-- The state "committed at height h" is the working state at the moment of that commit. -/
theorem committed_is_working_at_commit (n : Nat) (ops : List MOp) (i : Nat) :
    (MSpec.run n (ops ++ [.commit])).committedAt ((MSpec.run n ops).version + 1) i = (MSpec.run n ops).cur[i]? ∧
    (MSpec.run n (ops ++ [.commit])).version = (MSpec.run n ops).version + 1 := by
  simp [MSpec.run, List.foldl_append, MSpec.step, MSpec.committedAt]

/-- Every read through a historical view of any height returns what the map committed at that
height returns (and "no such version" exactly when nothing was committed at that height). -/
theorem historical_read_is_committed_state (n : Nat) (ops : List MOp) (h i : Nat) (r : Read) (hi : i < n) :
    (MS.run n ops).readAt h i r = ((MSpec.run n ops).committedAt h i).map (fun m => KVs.read m r) :=
  (Sim.run n ops).readAt h i r hi

/-- Every committed height 1..version can be opened, for every substore. -/
theorem historical_view_exists (n : Nat) (ops : List MOp) (h i : Nat) (r : Read) (hi : i < n)
    (h1 : 1 ≤ h) (h2 : h ≤ (MS.run n ops).version) : ((MS.run n ops).readAt h i r).isSome := by
  have sim := Sim.run n ops
  have hlt : i < (MS.run n ops).stores.length := by rw [sim.len]; exact hi
  have hget : (MS.run n ops).stores[i]? = some (MS.run n ops).stores[i] := List.getElem?_eq_getElem hlt
  have := sim.full h i _ hget h1 h2
  simp only [MS.readAt, hget, Option.bind_some, Tree.read]
  cases hg : (MS.run n ops).stores[i].getImmutable h with
  | none => rw [hg] at this; cases this
  | some root => simp

/-- **historical_read_stable.** Once height `h` is committed, every read through a view of height
`h` keeps returning the same answer — the one of the map committed at `h` — after any further
writes and commits on any substore. -/
theorem historical_read_stable (n : Nat) (ops1 ops2 : List MOp) (h i : Nat) (r : Read) (hi : i < n)
    (h1 : 1 ≤ h) (h2 : h ≤ (MS.run n ops1).version) :
    (MS.run n (ops1 ++ ops2)).readAt h i r = (MS.run n ops1).readAt h i r ∧
    (MS.run n ops1).readAt h i r = ((MSpec.run n ops1).committedAt h i).map (fun m => KVs.read m r) := by
  refine ⟨?_, historical_read_is_committed_state n ops1 h i r hi⟩
  have sim := Sim.run n ops1
  have hlt : i < (MS.run n ops1).stores.length := by rw [sim.len]; exact hi
  have hget : (MS.run n ops1).stores[i]? = some (MS.run n ops1).stores[i] := List.getElem?_eq_getElem hlt
  have hfull := sim.full h i _ hget h1 h2
  cases hg : (MS.run n ops1).stores[i].getImmutable h with
  | none => rw [hg] at hfull; cases hfull
  | some root =>
    obtain ⟨t', ht', hv'⟩ := MS.foldl_getImmutable ops2 (MS.run n ops1) i h _ root hget hg
    rw [MS.run_append]
    simp [MS.readAt, ht', hget, Tree.read, hv', hg]

/-- The same for whole interleavings: in any event list mixing writes, commits, historical reads at
arbitrary heights and reads of the working state, every read answer is the per-height map
specification's answer; reads never influence later answers. -/
theorem historical_trace_refines (n : Nat) (evs : List Ev) (hidx : ∀ ev ∈ evs, ev.inRange n) :
    (runEvents n evs).2 = (specEvents n evs).2 :=
  (runEvents_spec_from n evs (MS.init n) (MSpec.init n) [] (Sim.init n) hidx).1

/-- Dropping the read events from an interleaving changes no state: reads are observations only. -/
theorem reads_do_not_change_state (n : Nat) (evs : List Ev) :
    (runEvents n evs).1 = MS.run n (evs.filterMap (fun ev => match ev with | .op o => some o | _ => none)) := by
  unfold runEvents MS.run
  generalize MS.init n = ms
  generalize ([] : List (Option ReadResult)) = acc
  induction evs generalizing ms acc with
  | nil => rfl
  | cons ev rest ih =>
    cases ev with
    | op o => simp only [List.foldl_cons, evStep, List.filterMap_cons]; exact ih _ _
    | readAt h i r => simp only [List.foldl_cons, evStep, List.filterMap_cons]; exact ih _ _
    | readWorking i r => simp only [List.foldl_cons, evStep, List.filterMap_cons]; exact ih _ _

/-- What `LoadLazyVersion h` / `CacheMultiStoreWithVersion h` open for a committed height: per
substore, exactly the tree saved at `h` (the one `GetImmutable h` returns), labelled with version `h`. -/
theorem lazy_view_is_saved_tree (n : Nat) (ops : List MOp) (h i : Nat) (t : Tree)
    (ht : (MS.run n ops).stores[i]? = some t) (h1 : 1 ≤ h) (h2 : h ≤ (MS.run n ops).version) :
    ∃ root, t.getImmutable h = some root ∧ t.lazyLoadVersion (h : Int) = .view root h := by
  have sim := Sim.run n ops
  obtain ⟨_, hv⟩ := sim.wf i t ht
  have hfull := sim.full h i t ht h1 h2
  cases hg : t.getImmutable h with
  | none => rw [hg] at hfull; cases hfull
  | some root =>
    refine ⟨root, rfl, ?_⟩
    have e1 : ¬ ((t.version : Int) < (h : Int)) := by rw [hv]; omega
    have e2 : ¬ t.version = 0 := by rw [hv]; omega
    have e3 : ¬ h = 0 := by omega
    simp [Tree.lazyLoadVersion, e1, e2, e3, hg]

/-- The code's quirk, kept in the model: a non-positive target opens the *latest* version. -/
theorem lazy_nonpositive_opens_latest (t : Tree) (h : Int) (hh : h ≤ 0) (hv : 0 < t.version) :
    t.lazyLoadVersion h = t.lazyLoadVersion (t.version : Int) := by
  have e1 : ¬ ((t.version : Int) < h) := by omega
  have e2 : ¬ t.version = 0 := by omega
  simp [Tree.lazyLoadVersion, e1, e2, hh]

/-! ## Non-vacuity -/

private def ka : Bytes := [1]
private def kb : Bytes := [2]

/-- Two substores; height 1 and 2 committed; later writes overwrite and delete what height 1 saw;
historical reads at both heights and of a height that does not exist yet, interleaved. -/
private def evs : List Ev :=
  [.op (.set 0 ka [10]), .op (.set 1 kb [20]), .op .commit,
   .readAt 1 0 (.get ka),
   .op (.set 0 ka [11]), .op (.remove 1 kb), .readAt 1 1 (.has kb), .op .commit,
   .readAt 1 0 (.get ka), .readAt 2 0 (.get ka), .readAt 1 1 (.range none none true false),
   .readAt 2 1 (.range none none true false), .readAt 3 0 (.get ka), .readWorking 0 (.get ka),
   .op (.remove 0 ka), .readAt 2 0 (.get ka), .readAt 1 0 (.get ka), .readWorking 0 (.get ka)]

example : ∀ ev ∈ evs, ev.inRange 2 := by
  intro ev hev
  simp only [evs, List.mem_cons, List.mem_nil_iff, or_false] at hev
  rcases hev with rfl | rfl | rfl | rfl | rfl | rfl | rfl | rfl | rfl | rfl | rfl | rfl | rfl | rfl | rfl | rfl | rfl | rfl <;>
    simp [Ev.inRange]
example : (runEvents 2 evs).2 =
    [some (.get 0 (some [10])), some (.has true), some (.get 0 (some [10])), some (.get 0 (some [11])),
     some (.range [(kb, [20])]), some (.range []), none, some (.get 0 (some [11])),
     some (.get 0 (some [11])), some (.get 0 (some [10])), some (.get 0 none)] := by decide
example : (runEvents 2 evs).1.version = 2 := by decide
example : ((runEvents 2 evs).1.loadLazyVersion 1).isSome = true ∧ ((runEvents 2 evs).1.loadLazyVersion 3).isSome = false := by
  decide

end C09
