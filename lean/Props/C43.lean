import Proofs.Ledger.GenesisExport
/-!
# C43 — Exported genesis reproduces the exported state

Model: `PocketModel/Ledger/Genesis.lean` — `exportGenesis` (ExportAppState), `validate*`
(ValidateGenesis of each module), `init*` (InitGenesis of each module, in the application's
order), `initChain` (the module manager: validate then init, module by module), `initModules`
(the InitGenesis steps alone), as coded, for a new chain initialised at height 0 with every named
feature scheduled later.

Outcome: the property is **false of the code**, in layers (every layer replayed on the real
application by `harness/cmd/c43`):
1. `export_init_roundtrip_fails` — `InitChain` on an export crashes whenever an account without
   public key holds coins; module accounts (staking pools, DAO) never have a public key, so every
   export of a chain with any stake or DAO balance is rejected (nil dereference in auth
   `ValidateGenesis`).
2. Skipping validation, the `InitGenesis` steps themselves exit (unstaking nodes / applications
   make the pool check fail: `unstaking_app_exits`; ACL entries of post-genesis parameters make gov
   exit) or change the state: supply inflated by the staked tokens and the DAO balance
   (`supply_not_reproduced`), DAO doubled, allowances recomputed (`allowance_not_reproduced`),
   output addresses / delegators and post-genesis parameters dropped.
3. `export_init_roundtrip_partial` — what does hold: under the stated well-formedness (no
   unstaking records, legacy-representable nodes, fresh allowances, pools equal to the staked sums,
   ACL over genesis parameters) the `InitGenesis` steps complete and reproduce accounts, nodes,
   applications and claims exactly, with the exact supply / DAO law.
`init_establishes_indexes`: the staked index rebuilt by `InitGenesis` is exact.
-/
namespace C43
open Gen

/-- **The round trip through `InitChain` never succeeds** once some account without a public key
holds coins (every module account: pools, DAO, fee collector): auth `ValidateGenesis` dereferences
the nil public key. -/
theorem export_init_roundtrip_fails (l : L)
    (h : ∃ a ∈ l.accounts, a.hasPub = false ∧ (a.upokt ≠ 0 ∨ a.other = true)) :
    initChain (exportGenesis l) = .validateFailed "auth" .panic := by
  obtain ⟨a, ha, hp, hc⟩ := h
  exact initChain_auth_panic ⟨a, mem_export_accounts ha hc, hp⟩

/-- Accounts and balances do survive the auth step (an account with empty coins ≡ no account). -/
theorem accounts_reproduced (l : L) : viewAccounts (initAuth (exportGenesis l) emptyL) = viewAccounts l :=
  accounts_roundtrip l

/-- Well-formedness under which the `InitGenesis` steps complete. -/
structure Clean (l : L) : Prop where
  supply_ne : l.supply ≠ 0
  nodes_staked : ∀ n ∈ l.nodes, n.status ≠ Apps.stUnstaked
  node_pool : moduleBal (exportGenesis l).accounts poolName = sumStakedNodes l.nodes
  node_pool_ne : moduleBal (exportGenesis l).accounts poolName ≠ 0
  nodes_legacy : ∀ n ∈ l.nodes, n.output = "-" ∧ n.delegators = "-"
  apps_staked : ∀ e ∈ l.apps, e.2.status = Apps.stStaked
  apps_fresh : ∀ e ∈ l.apps, e.2.maxRelays = Apps.calcRelays l.appParams (moduleBal (exportGenesis l).accounts appPoolName)
      (moduleBal (exportGenesis l).accounts poolName) (l.supply + sumStakedNodes l.nodes) e.2.tokens
  app_pool : moduleBal (exportGenesis l).accounts appPoolName = sumStakedApps l.apps
  app_pool_ne : moduleBal (exportGenesis l).accounts appPoolName ≠ 0
  claims_exp : ∀ c ∈ l.claims, c.expiration ≠ 0
  acl_base : ∀ k ∈ l.acl, ∃ e ∈ baseParams l.params "gov" ++ baseParams l.params "pocketcore" ++ baseParams l.params "application"
      ++ baseParams l.params "pos" ++ baseParams l.params "auth", e.1 = k

/-- **What holds**: for a `Clean` ledger the `InitGenesis` steps all complete and reproduce the
nodes, applications and pending claims exactly and the accounts up to the DAO account; the supply
and the DAO balance obey the exact (inflating) law. -/
theorem export_init_roundtrip_partial (l : L) (c : Clean l) :
    ∃ l', initModules (exportGenesis l) = (.done, l')
      ∧ l'.nodes = l.nodes ∧ l'.apps = l.apps ∧ l'.claims = l.claims
      ∧ l'.accounts = setModuleBal (exportGenesis l).accounts daoName (moduleBal (exportGenesis l).accounts daoName + l.dao)
      ∧ l'.supply = l.supply + sumStakedNodes l.nodes + sumStakedApps l.apps + l.dao := by
  let g := exportGenesis l
  have hg_nodes : g.nodes = l.nodes := rfl
  have hg_apps : g.apps = l.apps := rfl
  have hg_claims : g.claims = l.claims := rfl
  have hg_sup : g.supply = l.supply := rfl
  let l1 := initAuth g emptyL
  have h1a : l1.accounts = g.accounts := rfl
  have h1s : l1.supply = l.supply := by
    show (if g.supply = 0 then _ else g.supply) = _
    rw [hg_sup]; simp [c.supply_ne]
  -- pos
  have hpos : ∃ l2, initPos g l1 = some l2 := by
    unfold initPos
    have hu : ¬ (g.nodes.any (fun n => n.status = Apps.stUnstaked)) = true := by
      intro h
      obtain ⟨n, hn, hs⟩ := List.any_eq_true.mp h
      exact c.nodes_staked n hn (by simpa using hs)
    simp only [hu]
    have hp : ¬ (moduleBal l1.accounts poolName ≠ 0 ∧ moduleBal l1.accounts poolName ≠ sumStakedNodes g.nodes) := by
      intro ⟨_, h2⟩; exact h2 c.node_pool
    simp only [Bool.false_eq_true, if_false, hp]
    exact ⟨_, rfl⟩
  obtain ⟨l2, hl2⟩ := hpos
  obtain ⟨h2n, h2s, _, _, _, h2a, h2c, h2acc⟩ := initPos_some hl2
  have h2acc' : l2.accounts = g.accounts := by rw [h2acc c.node_pool_ne]; rfl
  have h2n' : l2.nodes = l.nodes := by rw [h2n, hg_nodes, map_legacy_id _ c.nodes_legacy]
  have h2s' : l2.supply = l.supply + sumStakedNodes l.nodes := by rw [h2s, h1s]; rfl
  -- application
  have hrec : recomputed g l2 = l.apps := by
    apply recomputed_id g l2 c.apps_staked
    intro e he
    rw [h2acc', h2s']
    exact c.apps_fresh e he
  have happs : ∃ l3, initApps g l2 = some l3 := by
    unfold initApps
    dsimp only
    have hrec' : (g.apps.filter (fun e => e.2.status ≠ Apps.stUnstaked && e.2.status ≠ Apps.stUnstaking)).map
        (fun e => (e.1, { e.2 with maxRelays := Apps.calcRelays g.appParams (moduleBal l2.accounts appPoolName) (moduleBal l2.accounts poolName) l2.supply e.2.tokens })) = l.apps := hrec
    rw [hrec']
    have hp : ¬ (moduleBal l2.accounts appPoolName ≠ 0 ∧ moduleBal l2.accounts appPoolName ≠ sumStakedApps l.apps) := by
      intro ⟨_, h2⟩; rw [h2acc'] at h2; exact h2 c.app_pool
    simp only [hp, if_false]
    exact ⟨_, rfl⟩
  obtain ⟨l3, hl3⟩ := happs
  obtain ⟨h3a, h3s, _, _, _, h3n, h3c, h3acc⟩ := initApps_some hl3
  have h3acc' : l3.accounts = g.accounts := by rw [h3acc (by rw [h2acc']; exact c.app_pool_ne), h2acc']
  -- pocketcore
  let l4 := initPocket g l3
  have h4c : l4.claims = l.claims := initPocket_claims g l3 c.claims_exp
  -- gov
  have hgov : ∃ l5, initGov g l4 = some l5 := by
    unfold initGov
    dsimp only
    have hall : (g.acl.all fun k => (l4.params ++ baseParams g.params "gov").any fun e => decide (e.1 = k)) = true := by
      apply List.all_eq_true.mpr
      intro k hk
      obtain ⟨e, he, hek⟩ := c.acl_base k hk
      apply List.any_eq_true.mpr
      refine ⟨e, ?_, by simp [hek]⟩
      -- the parameters written by the five modules, whatever the order
      have hl4 : l4.params = (((([] ++ baseParams g.params "auth") ++ baseParams g.params "pos") ++ baseParams g.params "application") ++ baseParams g.params "pocketcore") := by
        show (initPocket g l3).params = _
        have e3 : l3.params = l2.params ++ baseParams g.params "application" := by
          have := hl3; unfold initApps at this; dsimp only at this
          split at this
          · simp at this
          · cases this; rfl
        have e2 : l2.params = l1.params ++ baseParams g.params "pos" := by
          have := hl2; unfold initPos at this
          split at this
          · simp at this
          · dsimp only at this
            split at this
            · simp at this
            · cases this; rfl
        show l3.params ++ baseParams g.params "pocketcore" = _
        rw [e3, e2]; rfl
      rw [hl4]
      simp only [List.mem_append] at he ⊢
      have hgp : g.params = l.params := rfl
      rw [hgp]
      rcases he with (((h | h) | h) | h) | h
      · exact Or.inr h
      · exact Or.inl (Or.inr h)
      · exact Or.inl (Or.inl (Or.inr h))
      · exact Or.inl (Or.inl (Or.inl (Or.inr h)))
      · exact Or.inl (Or.inl (Or.inl (Or.inl (Or.inr h))))
    simp only [hall, if_true]
    exact ⟨_, rfl⟩
  obtain ⟨l5, hl5⟩ := hgov
  obtain ⟨h5s, h5n, h5a, h5c, h5acc⟩ := initGov_some hl5
  refine ⟨l5, ?_, ?_, ?_, ?_, ?_, ?_⟩
  · unfold initModules
    simp only [show initPos (exportGenesis l) (initAuth (exportGenesis l) emptyL) = some l2 from hl2,
      show initApps (exportGenesis l) l2 = some l3 from hl3,
      show initGov (exportGenesis l) (initPocket (exportGenesis l) l3) = some l5 from hl5]
  · rw [h5n]; show (initPocket g l3).nodes = _; show l3.nodes = _; rw [h3n, h2n']
  · rw [h5a]; show l3.apps = _; rw [h3a, hrec]
  · rw [h5c]; exact h4c
  · rw [h5acc]; show setModuleBal l3.accounts daoName (moduleBal l3.accounts daoName + g.daoTokens) = _; rw [h3acc']; rfl
  · rw [h5s]; show l3.supply + _ = _; rw [h3s, hrec, h2s']; rfl

/-- **Supply is not reproduced**: for a clean ledger the re-initialised supply exceeds the
exported one by the staked node tokens, the staked application tokens and the DAO balance — it is
equal only when all three are zero. -/
theorem supply_not_reproduced (l : L) (c : Clean l) (hpos : 0 < sumStakedNodes l.nodes + sumStakedApps l.apps + l.dao) :
    ∃ l', initModules (exportGenesis l) = (.done, l') ∧ l'.supply ≠ l.supply := by
  obtain ⟨l', h, _, _, _, _, hs⟩ := export_init_roundtrip_partial l c
  exact ⟨l', h, by omega⟩

/-- **The rebuilt staked index is exact**: after `apps.InitGenesis` the index holds `(power, a) ↦ a`
exactly for the staked, unjailed records it wrote (unique addresses in the export), and the
unstaking queue is empty. -/
theorem init_establishes_indexes (g : G) (l l' : L) (h : initApps g l = some l') (hn : Apps.NodupKeys g.apps) (p : Int) (a : Apps.Addr) :
    Apps.get l'.appIdx (p, a) = Apps.specOf (Apps.get l'.apps a) p a ∧ l'.appQueue = [] := by
  obtain ⟨ha, _, hi, hq, _⟩ := initApps_some h
  refine ⟨?_, hq⟩
  rw [hi, ha]
  exact appIdxOf_exact (recomputed g l) (nodup_map_snd_update _ _ (nodup_filter _ _ hn)) p a

/-- … and the application pool it checked (or filled) equals the staked tokens: the genesis
hypothesis of C20. -/
theorem init_establishes_app_pool (g : G) (l l' : L) (h : initApps g l = some l') (hne : moduleBal l.accounts appPoolName ≠ 0) :
    moduleBal l'.accounts appPoolName = sumStakedApps l'.apps := by
  obtain ⟨ha, _, _, _, hp, _, _, hacc⟩ := initApps_some h
  rw [hacc hne, ha]
  rcases hp with h0 | h1
  · exact absurd h0 hne
  · exact h1

/-- **From an accepted genesis to every later state** (ties C43 to C20/C28): the applications
ledger written by `apps.InitGenesis` satisfies the ledger invariant with pool = Σ staked, hence —
by the invariant theorems of the applications model — so does every state reached from it by any
history of operations without a send to the pool address. -/
theorem genesis_then_history_keeps_pool (g : G) (l l' : L) (h : initApps g l = some l') (hn : Apps.NodupKeys g.apps)
    (hpos : ∀ e ∈ g.apps, 0 ≤ e.2.tokens) (hne : moduleBal l.accounts appPoolName ≠ 0)
    (ops : List Apps.Op) (hnd : ∀ op ∈ ops, ∀ src amt, op ≠ Apps.Op.donate src amt) :
    Apps.LedgerInv (Apps.run (toApps l') ops) ∧ (Apps.run (toApps l') ops).pool = Apps.sumBonded (Apps.run (toApps l') ops).apps := by
  obtain ⟨hinv, hex⟩ := initApps_ledgerInv g l l' h hn hpos hne
  refine ⟨Apps.run_ledgerInv _ ops hinv, ?_⟩
  -- excess stays 0: every non-donation step keeps it
  have key : ∀ (ops : List Apps.Op) (s : Apps.St), Apps.WF s → Apps.excess s = 0 →
      (∀ op ∈ ops, ∀ src amt, op ≠ Apps.Op.donate src amt) → Apps.excess (Apps.run s ops) = 0 := by
    intro ops
    induction ops with
    | nil => intro s _ e _; exact e
    | cons op ops ih =>
      intro s w e hno
      have k := Apps.step_keeps s op (hno op List.mem_cons_self)
      exact ih (Apps.step s op) (k.wf w) (by rw [k.ex w]; exact e) (fun o ho => hno o (List.mem_cons_of_mem _ ho))
  have := key ops (toApps l') hinv.1 hex hnd
  unfold Apps.excess at this; omega

/-! ### concrete counterexamples (all replayed on the real application) -/

def aN : Apps.Addr := [1]
def aA : Apps.Addr := [2]
def aP : Apps.Addr := [101]
def aQ : Apps.Addr := [102]
def aD : Apps.Addr := [103]
def appP : Apps.Params :=
  { minStake := 1000000, maxChains := 15, maxApps := 100, baseRelays := 200, stability := 0, unstakingTime := 3600, participation := false }
def node1 : Node :=
  { addr := aN, status := 2, jailed := false, tokens := 15000000000, unstakingTime := 0, output := "-", chains := ["0001"], delegators := "-", url := "u" }
/-- stored allowance 10 was computed when BaseRelaysPerPOKT was 100; it is 200 now -/
def app1 : Apps.App :=
  { pk := [9], status := 2, jailed := false, tokens := 10000000, maxRelays := 10, chains := ["0001"], unstakingTime := 0 }
def l0 : L :=
  { accounts := [{ addr := aN, upokt := 5, module := "", hasPub := true, other := false },
                 { addr := aP, upokt := 15000000000, module := poolName, hasPub := false, other := false },
                 { addr := aQ, upokt := 10000000, module := appPoolName, hasPub := false, other := false },
                 { addr := aD, upokt := 777, module := daoName, hasPub := false, other := false }],
    supply := 15010000782, nodes := [node1], nodeIdx := [], signing := [], prevPower := [], prevTotal := 0, proposer := none,
    apps := [(aA, app1)], appIdx := [((10, aA), aA)], appQueue := [], claims := [{ record := "c", expiration := 120 }],
    params := [("auth/MaxMemoCharacters", "3735"), ("pocketcore/BlockByteSize", "34")], acl := ["auth/MaxMemoCharacters"],
    posMinStake := 15000000000, appParams := appP }

-- InitChain on the export of l0 crashes in the auth validation (module accounts hold coins)
example : initChain (exportGenesis l0) = .validateFailed "auth" .panic :=
  export_init_roundtrip_fails l0 ⟨_, List.mem_cons_of_mem _ List.mem_cons_self, rfl, Or.inl (by decide)⟩

/-- **Allowance, supply, DAO and post-genesis parameters are not reproduced** even when every
`InitGenesis` step completes. -/
theorem allowance_not_reproduced : ∃ l l', (initModules (exportGenesis l)).1 = .done ∧ (initModules (exportGenesis l)).2 = l'
    ∧ l'.nodes = l.nodes ∧ l'.claims = l.claims
    ∧ (l.apps.map (·.2.maxRelays) = [10] ∧ l'.apps.map (·.2.maxRelays) = [20])
    ∧ (l.supply = 15010000782 ∧ l'.supply = 30020001559)
    ∧ (l.dao = 777 ∧ l'.dao = 1554)
    ∧ (l.params.length = 2 ∧ l'.params.length = 1) :=
  ⟨l0, (initModules (exportGenesis l0)).2, by decide +kernel, rfl, by decide +kernel⟩

/-- **An unstaking application makes `apps.InitGenesis` end the process** (`log.Fatal`): the
exported pool still holds its tokens, the re-computed staked sum does not. -/
theorem unstaking_app_exits : ∃ l, (initModules (exportGenesis l)).1 = .application :=
  ⟨{ l0 with apps := [(aA, { app1 with status := 1, unstakingTime := 99 })], appIdx := [], appQueue := [(99, [aA])] }, by decide +kernel⟩

/-- **An unstaking node makes `nodes.InitGenesis` exit** the same way. -/
theorem unstaking_node_exits : ∃ l, (initModules (exportGenesis l)).1 = .pos :=
  ⟨{ l0 with nodes := [{ node1 with status := 1, unstakingTime := 99 }] }, by decide +kernel⟩

/-- **An ACL entry of a post-genesis parameter makes gov `InitGenesis` exit.** -/
theorem post_genesis_acl_exits : ∃ l, (initModules (exportGenesis l)).1 = .gov :=
  ⟨{ l0 with acl := ["auth/MaxMemoCharacters", "pocketcore/BlockByteSize"] }, by decide +kernel⟩

/-- **Validation rejects states the chain itself produced**: a pending claim (expiration height
set), an application staked with exactly the minimum, a node slashed below the minimum. -/
theorem validate_rejects_reachable_states :
    validatePocket (exportGenesis l0) = .err
    ∧ validateApps (exportGenesis { l0 with apps := [(aA, { app1 with tokens := 1000000 })] }) = .err
    ∧ validatePos (exportGenesis { l0 with nodes := [{ node1 with tokens := 14000000000, jailed := true }] }) = .err := by
  decide +kernel

/-- non-vacuity of `Clean` / `export_init_roundtrip_partial` -/
def lClean : L :=
  { l0 with apps := [(aA, { app1 with maxRelays := 20 })], acl := ["auth/MaxMemoCharacters"], params := [("auth/MaxMemoCharacters", "3735")] }
example : (initModules (exportGenesis lClean)).1 = .done ∧ (initModules (exportGenesis lClean)).2.apps = lClean.apps
    ∧ (initModules (exportGenesis lClean)).2.nodes = lClean.nodes := by decide +kernel

end C43
