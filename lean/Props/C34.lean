import Proofs.Conc.Relay
import Proofs.Conc.Seq
import Proofs.Conc.Cache
/-!
# C34 — Stored relay evidence stays exact under concurrent relays

Model: `PocketModel/Conc/Relay.lean` — an interleaving LTS over the shared evidence of one session
(`stored`, bloom filter objects, `sealed`), with the steps of concurrent `HandleRelay` calls
(`validate`, then `Proof.Store` = `get; add; set`, then `respond`) and of the claim sender
(`cread; cseal`) at the granularity at which the code holds the cache lock.

The property — no duplicate proof, never more than the allowance, every relay answered before the
seal is recorded — is **false for arbitrary schedules** of the code as it is (counterexample
theorems below, each replayed on the real functions by the harness), except for the allowance
bound, which is proved for every schedule (`within_limit_all_schedules`: the expected
`over_limit_under_interleaving` does not exist).  It holds when relays and the claim sender run one at a time, and it holds for **all**
schedules of the repaired design (validate + store under one lock, sealing under the same lock).
-/
namespace C34
open ConcRelay

/-! ### counterexamples: concrete schedules of the code as it is -/

/-- Two identical requests, both validated before either is stored: the same proof is stored
twice (`validate₀ validate₁ store₀ store₁`). -/
theorem dup_under_interleaving :
    let s := run (init 5 [7, 7])
      [.relay 0 .validate, .relay 1 .validate,
       .relay 0 .get, .relay 0 .add, .relay 0 .set, .relay 0 .respond,
       .relay 1 .get, .relay 1 .add, .relay 1 .set, .relay 1 .respond]
    storedProofs s = [7, 7] ∧ noDup s = false := by decide

/-- Two different requests that both read the evidence before either writes it back: the later
`set` overwrites the earlier one; relay 0 was answered and nothing was sealed, yet its proof is
gone (`get₀ get₁ set₀ set₁`). -/
theorem lost_update :
    let s := run (init 5 [1, 2])
      [.relay 0 .validate, .relay 1 .validate, .relay 0 .get, .relay 1 .get,
       .relay 0 .add, .relay 1 .add, .relay 0 .set, .relay 0 .respond, .relay 1 .set, .relay 1 .respond]
    storedProofs s = [2] ∧ respondedBeforeSeal s = [0, 1] ∧ recorded s = false := by decide

/-- The claim sender seals with the copy it read earlier and writes that copy back: a relay stored
and answered between the read and the seal is erased by the seal. -/
theorem responded_before_seal_not_recorded :
    let s := run (init 5 [1, 2])
      [.relay 0 .validate, .relay 0 .get, .relay 0 .add, .relay 0 .set, .relay 0 .respond,
       .cread,
       .relay 1 .validate, .relay 1 .get, .relay 1 .add, .relay 1 .set, .relay 1 .respond,
       .cseal]
    storedProofs s = [1] ∧ respondedBeforeSeal s = [0, 1] ∧ recorded s = false := by decide

/-- A relay validated before the seal and stored after it is silently dropped by `Set`, and the
relay is answered all the same (after the seal — the property does not protect it, the node works
unpaid). -/
theorem store_after_seal :
    let s := run (init 5 [1, 2])
      [.relay 0 .validate, .relay 0 .get, .relay 0 .add, .relay 0 .set, .relay 0 .respond,
       .relay 1 .validate, .cread, .cseal,
       .relay 1 .get, .relay 1 .add, .relay 1 .set, .relay 1 .respond]
    storedProofs s = [1] ∧ (s.threads.map (·.pc)) = [.responded, .responded] ∧ exact s = true := by decide

/-- The full statement "the evidence is exact after every schedule" is false. -/
theorem exact_under_interleaving_fails :
    ¬ ∀ (max : Nat) (ids : List P) (sched : List Label), exact (run (init max ids) sched) = true := by
  intro h
  have := h 5 [7, 7]
    [.relay 0 .validate, .relay 1 .validate,
     .relay 0 .get, .relay 0 .add, .relay 0 .set, .relay 0 .respond,
     .relay 1 .get, .relay 1 .add, .relay 1 .set, .relay 1 .respond]
  revert this
  decide

/-! ### one at a time -/

/-- **sequential_ok**: when relays and the claim sender take turns — each relay runs its five steps
uninterrupted, the claim sender its two, in any order and any number of turns — the evidence is
exact: no duplicate proof, at most `max` proofs, every answered relay recorded.  For all allowances
and all requests (identical ones included). -/
theorem sequential_ok (max : Nat) (ids : List P) (turns : List Turn) :
    exact (run (init max ids) (seqSched turns)) = true :=
  exact_of_quiet _ (quiet_seq turns _ (quiet_init max ids))

example : storedProofs (run (init 2 [7, 7, 3, 4]) (seqSched [.relay 1, .relay 0, .claim, .relay 2, .relay 3])) = [7] := by
  decide

/-! ### what does hold of the code as it is, for every schedule -/

/-- The allowance bound survives every interleaving: `GetEvidence` seals an evidence that has
reached the allowance and `Set` refuses to overwrite a sealed one, so neither `NumOfProofs` nor
the number of stored proofs ever exceeds `max` — for all allowances, requests and step lists. -/
theorem within_limit_all_schedules (max : Nat) (ids : List P) (sched : List Label) :
    withinLimit (run (init max ids) sched) = true :=
  withinLimit_of_inv _ (cinv_run sched _ (cinv_init max ids))

example : withinLimit (run (init 1 [1, 2])
    [.relay 0 .validate, .relay 1 .validate, .relay 0 .get, .relay 0 .add, .relay 0 .set,
     .relay 1 .get, .relay 1 .add, .relay 1 .set]) = true := by decide

/-! ### the evidence store's cache layer (relays one at a time, several sessions) -/

/-- Historical (before fix 534ec75; `fixedGet = false`): the LRU+DB layer **was observable** —
`GetWithoutLock` added a value read from the DB to a full cache with a bare `Cache.Add`, evicting an
entry that was never flushed.
Capacity 1, relays strictly one at a time: session 3's answered relay disappears when session 1
is read back from the DB, and its replay is answered again (the plain map rejects it). -/
theorem eviction_is_observable :
    (SerialCache.run false 2 (SerialCache.init 1) [.relay 1 0, .relay 3 0, .relay 1 0, .relay 3 0]).2
      = [.ok, .ok, .dup37, .ok] ∧
    (SerialCache.rrun 2 SerialCache.rinit [.relay 1 0, .relay 3 0, .relay 1 0, .relay 3 0]).2
      = [.ok, .ok, .dup37, .dup37] := by decide

/-- **The cache is unobservable** in the code as it is now (fix 534ec75: DB reads enter the cache
through `SetWithoutLockAndSealCheck`; `fixedGet = true`): for every positive capacity, every
allowance and every sequence of relays, iterator openings and seals, every answer equals the
plain map's answer and what is stored under every key is what the plain map holds — capacity,
flushes and evictions cannot be seen. -/
theorem cache_unobservable_when_repaired (cap max : Nat) (hcap : 0 < cap) (ops : List SerialCache.Op) :
    (SerialCache.run true max (SerialCache.init cap) ops).2 = (SerialCache.rrun max SerialCache.rinit ops).2 ∧
    ∀ k, SerialCache.eff (SerialCache.run true max (SerialCache.init cap) ops).1 k =
      SerialCache.lookup (SerialCache.rrun max SerialCache.rinit ops).1.m k := by
  obtain ⟨h1, h2⟩ := SerialCache.run_rel max ops _ _ (SerialCache.rel_init cap hcap)
  exact ⟨h1, h2.map⟩

example : (SerialCache.run true 2 (SerialCache.init 1) [.relay 1 0, .relay 3 0, .relay 1 0, .relay 3 0]).2
    = [.ok, .ok, .dup37, .dup37] := by decide

/-! ### the repaired design: all schedules -/

/-- With validate + store as one critical section and sealing under the same lock, **every**
schedule (any list of steps of any threads, in any order, enabled or not) leaves the evidence
exact: no duplicates, at most `max` proofs, every answered relay recorded. -/
theorem repaired_exact_all_schedules (max : Nat) (ids : List P) (sched : List ALabel) :
    aexact (arun (ainit max ids) sched) = true :=
  aexact_of_inv _ (ainv_run sched _ (ainv_init max ids))

example : (arun (ainit 2 [7, 7, 3, 4]) [.serve 1, .serve 0, .respond 1, .serve 2, .seal, .serve 3, .respond 2]).proofs = [7, 3] := by
  decide

end C34
