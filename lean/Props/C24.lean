import Proofs.Ledger.NodesExamples
import Proofs.Ledger.NodesUnstake
import Proofs.Ledger.NodesWaiting
import Proofs.Ledger.NodesLog
import Proofs.Ledger.AppsUnstakeC24
/-!
# C24 — Unstaking returns the stake exactly once, and only when due (node part)

Model: `PocketModel/Ledger/Nodes.lean` — `handleMsgBeginUnstake` / `ForceValidatorUnstake` (→ waiting set),
`ReleaseWaitingValidators` (→ unstaking, at `height % BlocksPerSession = 0`), `unstakeAllMatureValidators` /
`FinishUnstakingValidator` (→ payout, record deleted).  `Nodes.Inv` holds after every history
(`Nodes.inv_run`); the theorems below are about one operation from any state satisfying it, hence about
every step of every history.  Applications are the subject of the apps package.
-/
namespace C24
open Nodes

/-- Outside `EndBlocker` no operation whatsoever changes the status (or the completion time, address, key)
of a record, and none deletes a record: a node leaves the staked state only in an end-block. -/
theorem leaves_staked_only_in_endblock (s : State) (hi : Inv s) (op : Op) (hne : ∀ h t, op ≠ .endBlock h t)
    (a : Addr) (v : Val) (hv : aget s.vals a = some v) :
    ∃ v', aget (step s op).vals a = some v' ∧ v'.status = v.status ∧ v'.unstTime = v.unstTime :=
  let ⟨v', h1, h2, h3, _⟩ := stable_step hi op hne a v hv
  ⟨v', h1, h2, h3⟩

example : ∃ v', aget (step Ex.s0 (.burn Ex.A 6000000)).vals Ex.A = some v' ∧ v'.status = .staked ∧ v'.jailed = true := by
  decide

/-- In an end-block a staked node keeps its status unless the block ends a session
(`height % BlocksPerSession = 0`) **and** the node is in the waiting set when the waiting nodes are released —
put there earlier by a begin-unstake request or a forced unstake, or by this end-block's own
jailed-for-too-long rule. -/
theorem leaves_staked_only_via (s : State) (hi : Inv s) (h t : Int) (a : Addr) (v : Val) (hv : aget s.vals a = some v)
    (hs : v.status = .staked) (hkeep : h % s.params.blocksPerSession ≠ 0 ∨ a ∉ (incrementJailed s h).waiting) :
    ∃ v', aget (endBlock s h t).1.vals a = some v' ∧ v'.status = .staked :=
  endBlock_staked hi h t hv hs hkeep

/-- a request in the middle of a session takes effect at the session end, not before -/
example :
    let s1 := step Ex.s0 (.beginUnstake Ex.A Ex.O)
    (∃ v, aget (endBlock s1 5 2000).1.vals Ex.A = some v ∧ v.status = .staked) ∧
    (∃ v, aget (endBlock s1 6 2000).1.vals Ex.A = some v ∧ v.status = .unstaking ∧ v.unstTime = 2100) := by decide

/-- `handleMsgBeginUnstake` is accepted only for a staked node and only from its operator or output address,
and does nothing but put the node into the waiting set. -/
theorem begin_unstake_requires (s : State) (a signer : Addr) (hok : (handleBeginUnstake s a signer).2 = .ok) :
    ∃ v, aget s.vals a = some v ∧ v.status = .staked ∧ signerOk v.addr v.output signer = true ∧
      (handleBeginUnstake s a signer).1.vals = s.vals ∧ (handleBeginUnstake s a signer).1.pool = s.pool := by
  unfold handleBeginUnstake at hok ⊢
  cases hv : aget s.vals a with
  | none => simp [hv] at hok
  | some v =>
    simp only [hv] at hok ⊢
    by_cases h1 : signerOk v.addr v.output signer = false
    · simp [h1] at hok
    · by_cases h2 : v.status ≠ .staked
      · simp [h1, h2] at hok
      · simp only [if_neg h1, if_neg h2]
        refine ⟨v, rfl, by simpa using h2, ?_, rfl, rfl⟩
        cases hb : signerOk v.addr v.output signer <;> simp_all

/-- How a node gets into the waiting set through transactions and burns: a begin-unstake message queues the
node iff it is accepted; an unjail message queues nobody except — on its rejected "stake below the minimum"
path, signed by operator/output — the node itself (a forced unstake); a stake/edit message never touches the
set; a burn queues the slashed node iff its stake falls below the minimum.  (The remaining source,
`IncrementJailedValidators`, is part of `leaves_staked_only_via`.) -/
theorem waiting_entry_causes (s : State) (hi : Inv s) :
    (∀ a signer, (handleBeginUnstake s a signer).1.waiting =
        if (handleBeginUnstake s a signer).2 = .ok then sins s.waiting a else s.waiting) ∧
    (∀ h t a signer, (handleUnjail s h t a signer).1.waiting = s.waiting ∨
        ∃ v, aget s.vals a = some v ∧ signerOk v.addr v.output signer = true ∧ v.tokens < s.params.minStake ∧
          (handleUnjail s h t a signer).1.waiting = sins s.waiting v.addr ∧ (handleUnjail s h t a signer).2 ≠ .ok) ∧
    (∀ h m signer, (handleStake s h m signer).1.waiting = s.waiting) ∧
    (∀ a v amount, aget s.vals a = some v → 0 < amount →
        (v.tokens - burnAmount amount v.tokens < s.params.minStake → a ∈ (simpleSlash s a amount).waiting) ∧
        (s.params.minStake ≤ v.tokens - burnAmount amount v.tokens → (simpleSlash s a amount).waiting = s.waiting)) :=
  ⟨fun a signer => waiting_after_beginUnstake s a signer (fun v hv => hi.keys a v hv),
   fun h t a signer => waiting_after_unjail s h t a signer,
   fun h m signer => waiting_after_stake s h m signer,
   fun a v amount hv hpos => waiting_after_burn s hi a v hv amount hpos⟩

/-- a rejected unjail of a node whose stake fell below a raised minimum queues it (no rollback in deliver mode) -/
example :
    let s1 := step (step Ex.s0 (.setParams { Ex.p0 with minStake := 25000000 })) (.unjail 5 2000 Ex.A Ex.O)
    Ex.A ∈ s1.waiting ∧ (handleUnjail (step Ex.s0 (.setParams { Ex.p0 with minStake := 25000000 })) 5 2000 Ex.A Ex.O).2 = .err 105 := by
  decide

/-- The stake is paid in full, once, to the output address (the operator's address when none is set), and the
record no longer exists afterwards: `FinishUnstakingValidator` + `DeleteValidator` on a record of the store. -/
theorem payout_exact (s : State) (hi : Inv s) (v : Val) (hv : aget s.vals v.addr = some v) :
    let s' := finishUnstaking s v
    aget s'.vals v.addr = none ∧ s'.pool = s.pool - v.tokens ∧ balOf s' v.outAddr = balOf s v.outAddr + v.tokens ∧
    (∀ x, x ≠ v.outAddr → balOf s' x = balOf s x) ∧ s'.supply = s.supply ∧
    s'.log = s.log ++ [.payout v.addr v.outAddr v.tokens true, .recordDeleted v.addr] :=
  let ⟨h1, h2, h3, h4, h5, _, h7⟩ := finishUnstaking_pays hi hv
  ⟨h1, h2, h3, h4, h5, h7⟩

/-- the output address `O` of node `A` receives the 20 POKT, the pool pays them, the record is gone -/
example :
    let s1 := (endBlock (step Ex.s0 (.beginUnstake Ex.A Ex.A)) 4 2000).1
    let s2 := (endBlock s1 5 2100).1
    balOf s1 Ex.O = 0 ∧ balOf s2 Ex.O = 20000000 ∧ s2.pool = s1.pool - 20000000 ∧ aget s2.vals Ex.A = none := by decide

/-- Trace level: over every history no payout ever fails — the "even if error continue with the unstake" path
of `FinishUnstakingValidator` (record deleted, nothing paid) is unreachable: every `payout` event of the ghost
log carries `ok = true`. -/
theorem payouts_never_fail (s : State) (hi : Inv s) (ops : List Op) (hops : ∀ op ∈ ops, op.isPoolSend = false)
    (hclean : ∀ e ∈ s.log, e.failed = false) (a out : Addr) (amt : Int) (ok : Bool)
    (he : Event.payout a out amt ok ∈ (run s ops).log) : ok = true := by
  obtain ⟨l, hl, hc⟩ := ext_run hi ops hops
  rw [hl] at he
  have : (Event.payout a out amt ok).failed = false := by
    rcases List.mem_append.mp he with h | h
    · exact hclean _ h
    · exact hc _ h
  simpa [Event.failed] using this

example : ((endBlock (endBlock (step Ex.s0 (.beginUnstake Ex.A Ex.A)) 4 2000).1 5 2100).1.log.filter fun e =>
    match e with | .payout .. => true | _ => false) = [.payout Ex.A Ex.O 20000000 true] := by decide

/-- A record disappears in an end-block only when it is due at that block's time: it was unstaking with
completion time `≤ t`, or it was released in this very end-block (session end, in the waiting set) — in which
case, by `no_overdue_after_endblock`'s converse below, its fresh completion time `t + UnstakingTime` is `≤ t`. -/
theorem paid_only_when_due (s : State) (hi : Inv s) (h t : Int) (a : Addr) (v : Val) (hv : aget s.vals a = some v)
    (hgone : aget (endBlock s h t).1.vals a = none) :
    (v.status = .unstaking ∧ v.unstTime ≤ t) ∨
    (v.status = .staked ∧ h % s.params.blocksPerSession = 0 ∧ a ∈ (incrementJailed s h).waiting) :=
  endBlock_deletes_only_due hi h t hv hgone

/-- … and it happens in the **first** block whose time reaches the completion time: after every end-block at
time `t` no unstaking record with completion time `≤ t` is left (block-time jumps over several completion
times, parameter changes, jailing and slashing while unstaking included). -/
theorem no_overdue_after_endblock (s : State) (hi : Inv s) (h t : Int) (b : Addr) (v : Val)
    (hv : aget (endBlock s h t).1.vals b = some v) (hs : v.status = .unstaking) : t < v.unstTime :=
  endBlock_noOverdue hi h t b v hv hs

/-- the executable form evaluated by the driver -/
theorem no_overdue_check (s : State) (hi : Inv s) (h t : Int) : Spec.noOverdue (endBlock s h t).1 t = true := by
  unfold Spec.noOverdue
  rw [List.all_eq_true]
  intro p hp
  have hi' := inv_endBlock hi h t
  have hv := aget_of_mem hi'.nodup (show (p.1, p.2) ∈ (endBlock s h t).1.vals from hp)
  by_cases hs : p.2.status = .unstaking
  · have := endBlock_noOverdue hi h t p.1 p.2 hv hs
    simp [hs]; omega
  · simp [hs]

/-- The record no longer exists after the payout, so a further queue entry for the same address (the queue
slice is appended on every write of an unstaking record: jail, slash, unjail) finds nothing and pays nothing. -/
theorem dup_queue_entry_harmless (s : State) (hi : Inv s) (a : Addr) :
    matureOne (matureOne s a) a = matureOne s a ∧ (aget s.vals a = none → matureOne s a = s) :=
  ⟨matureOne_idem hi a, matureOne_absent s a⟩

/-- a node slashed while unstaking sits twice in its queue slice and is still paid once -/
example :
    let s1 := step (endBlock (step Ex.s0 (.beginUnstake Ex.A Ex.A)) 4 2000).1 (.burn Ex.A 1000000)
    getQ s1 2100 = [Ex.A, Ex.A] ∧ balOf (endBlock s1 5 2100).1 Ex.O = 19000000 ∧
    (endBlock s1 5 2100).1.pool = s1.pool - 19000000 := by decide

/-! ## A waiting entry that outlives its record (counterexample to "only on its own request")

`leaves_staked_only_via` is about the *state*: a node leaves the staked state only if its address is in the
waiting set at a session end.  As a statement about *causes* it fails: the waiting set may still hold the
address of an earlier record (C21 `waiting_dangling_reachable`: forced unstake of a node that is already
unstaking, paid out before the next session end), and `handleStake` does not look at the waiting set. -/

/-- a node is slashed below the minimum (jailed + waiting), released at the session end 4, slashed again while
unstaking (waiting again), paid out and deleted at the end of block 5; it stakes afresh in block 6, and block 6
ends a session -/
def staleEntryOps : List Op :=
  [.credit Ex.A 50000000, .stake 3 Ex.mA Ex.A, .burn Ex.A 6000000, .endBlock 4 1000, .burn Ex.A 1, .endBlock 5 2000,
   .stake 6 Ex.mA Ex.A]

/-- **The code does not satisfy "a staked node begins to unstake only on its own request or by the slashing /
jailing rules".**  After `staleEntryOps` the record of `A` is a fresh stake (staked, not jailed, above the
minimum, never asked to unstake, never slashed), created after the previous record of `A` was paid out; the
waiting set still holds `A` from the previous record; the next session end moves the fresh stake to
`unstaking`. -/
theorem stale_waiting_entry_unstakes_fresh_stake :
    let s5 := run { params := Ex.p0 } (staleEntryOps.take 6)
    let s6 := run { params := Ex.p0 } staleEntryOps
    Inv s6 ∧ aget s5.vals Ex.A = none ∧ Ex.A ∈ s5.waiting ∧ balOf s5 Ex.O = 13999999 ∧
    (∃ v, aget s6.vals Ex.A = some v ∧ v.status = .staked ∧ v.jailed = false ∧ v.tokens = 20000000 ∧
      s6.params.minStake ≤ v.tokens) ∧
    (∃ v, aget (endBlock s6 6 3000).1.vals Ex.A = some v ∧ v.status = .unstaking ∧ v.unstTime = 3100) :=
  ⟨inv_run (inv_empty _) _ (by decide), by decide, by decide, by decide, by decide, by decide⟩

/-- What does hold: a stake message never touches the waiting set, so a stake of an address that is not in the
waiting set yields a record that is not waiting; with `leaves_staked_only_via` such a record stays staked until
a begin-unstake request, a burn below the minimum, an unjail attempt below the minimum or the
jailed-for-too-long rule (`waiting_entry_causes`) puts it there. -/
theorem fresh_stake_not_waiting_partial (s : State) (h : Int) (m : StakeMsg) (signer : Addr) (a : Addr)
    (hclean : a ∉ s.waiting) : a ∉ (handleStake s h m signer).1.waiting := by
  rw [waiting_after_stake]; exact hclean

/-! ## Application half (model `PocketModel/Ledger/Apps.lean`, lemmas `Proofs/Ledger/AppsQueue.lean` of the
applications package and `Proofs/Ledger/AppsUnstakeC24.lean`) -/

/-- application: leaves the staked state only through its **own** begin-unstake request — the message is
accepted only when signed by the application itself, for a staked, unjailed record -/
theorem app_leaves_staked_only_via_own_request (s : Apps.St) (signer a : Apps.Addr) (fee : Int)
    (hok : (Apps.deliverUnstake s signer a fee).1 = .ok) :
    signer = a ∧ ∃ s1 app, Apps.deductFee s signer fee = (.ok, s1) ∧ Apps.get s1.apps a = some app ∧
      app.status = Apps.stStaked ∧ app.jailed = false :=
  Apps.deliverUnstake_ok_requires hok

/-- application: the payout is the whole stake, to the application's own address, and deletes the record
(the pool covers every stake: `Props/C20`) -/
theorem app_payout_exact (s : Apps.St) (a : Apps.Addr) (app : Apps.App) (hp : app.tokens ≤ s.pool) :
    Apps.get (Apps.finishUnstaking s a app).apps a = none ∧ (Apps.finishUnstaking s a app).pool = s.pool - app.tokens ∧
    Apps.balOf (Apps.finishUnstaking s a app) a = Apps.balOf s a + app.tokens :=
  Apps.finishUnstaking_pays s a app hp

/-- application: exactly once — a further queue entry for the same address changes nothing -/
theorem app_payout_once (s : Apps.St) (a : Apps.Addr) (l : List Apps.Addr) (ha : a ∈ l) :
    Apps.matureOne (Apps.matureOne s a) a = Apps.matureOne s a ∧
    (l ++ [a]).foldl Apps.matureOne s = l.foldl Apps.matureOne s :=
  ⟨Apps.matureOne_idem s a, Apps.dup_entry_noop l s a ha⟩

/-- application: paid in the **first** block whose time is at or after the completion time — after the end
blocker at block time `s.time` no unstaking, unjailed application with completion time `≤ s.time` is left,
provided every unstaking application is queued under its completion time (partial: that queue invariant is
monitored on the implementation, `app-unstaking-not-queued`, not proved over histories of the applications model) -/
theorem app_no_overdue_after_endblock_partial (s : Apps.St) (hq : Apps.QueueComplete s) (a : Apps.Addr) (app : Apps.App)
    (hg : Apps.get (Apps.endBlock s).apps a = some app) (hs : app.status = Apps.stUnstaking) (hj : app.jailed = false) :
    s.time < app.unstakingTime :=
  Apps.endBlock_noOverdue hq a app hg hs hj

end C24
