import Proofs.Ledger.AnteToy
/-!
# C14 — Only authorized signers can make a transaction change state

Model: `PocketModel/Ledger/Ante.lean`.  `allowed w m a` is the documented set of addresses that may
sign message `m` in state `w`.  The signature scheme is a parameter: the theorems say "a key in
the allowed set exists under which the signature verifies over this chain's sign document" — not
"its owner signed" (unforgeability is not provable).
-/
namespace C14
open Ledger Coins

variable {S : Scheme} {Ω : Type}

/-- The address check of `ValidateTransaction`: away from the chain-halt height, the key that
passed belongs to an address in the documented `allowed` set, and its signature verifies over the
sign document of *this* chain. -/
theorem ante_pass_authorized {SB : Bytes → Int → Coins → Bytes → Bytes → Bytes} {env : Env}
    {w w' : World S Ω} {tx : Tx S.PK} {idx : Bool} {pk : S.PK}
    (hh : env.height ≠ haltHeight) (haddr : ∀ k : S.PK, S.addr k ≠ [])
    (h : anteHandler S SB env w tx idx false = .cont w' pk) :
    S.verify pk (signDocOf SB env.chainId tx) tx.sig = true ∧ allowed w tx.msg (S.addr pk) = true := by
  obtain ⟨_, hv, _⟩ := anteHandler_cont h
  obtain ⟨_, _, vs, hvs, hl⟩ := validateTransaction_pass hv
  obtain ⟨signer, hmem, _, hsig, hver, _⟩ := signerLoop_pass hl
  have heq : S.addr pk = signer := by
    rcases hsig with h1 | h1
    · exact h1
    · exact absurd h1 hh
  refine ⟨by simpa using hver, ?_⟩
  subst heq
  rcases mem_validSigners hvs hmem with h1 | ⟨_, _, h1⟩ | ⟨pk', _, _, h1⟩
  · simp [allowed, h1]
  · -- the output-address signer of a node stake message
    unfold outputSigner at h1
    unfold allowed
    split at h1
    · rename_i op hk
      simp only [hk]
      split at h1
      · exact absurd h1 (haddr pk)
      · simp [h1]
      · simp [h1]
    · exact absurd h1 (haddr pk)
  · -- the application-transfer signer
    unfold isMsgAppTransfer at h1
    unfold allowed
    simp only [Bool.and_eq_true] at h1
    obtain ⟨_, h2⟩ := h1
    split at h2
    · rename_i p hk
      simp only [hk]
      simp only [Bool.and_eq_true] at h2
      simp [h2.1, h2.2]
    · simp at h2

/-- **state_change_requires_auth.** If a `DeliverTx` changes the chain state at a height other than
30334, the bytes decode to a transaction whose signature verifies — over the sign document of this
chain — under a public key whose address is allowed to sign its message. -/
theorem state_change_requires_auth (hk : Hooks S Ω) (env : Env) (n : Node S Ω) (raw : Bytes)
    (hh : env.height ≠ haltHeight) (haddr : ∀ k : S.PK, S.addr k ≠ [])
    (hchg : (deliverTx hk env n raw).1.world ≠ n.world) :
    ∃ tx pk, hk.decode raw = some tx ∧
      S.verify pk (signDocOf hk.SB env.chainId tx) tx.sig = true ∧
      allowed n.world tx.msg (S.addr pk) = true := by
  cases hp : antePasses hk env n raw with
  | false => exact absurd (not_passed_unchanged hk env n raw hp) hchg
  | true =>
    obtain ⟨tx, w', pk, hd, _, _, hc, _, _⟩ := passed_iff hk env n raw hp
    obtain ⟨h1, h2⟩ := ante_pass_authorized hh haddr hc
    exact ⟨tx, pk, hd, h1, h2⟩

example : ∃ w' pk, anteHandler Toy.S Toy.SB (Toy.env 5) Toy.w (Toy.tx 1 1 10000 [⟨upokt, 10000⟩]) false false
    = .cont w' pk := (Toy.isCont_iff _).mp Toy.plain_cont
example : (5 : Int) ≠ haltHeight := by decide

/-- **halt_height_any_signer** — the excluded point.  At height 30334 the address check is skipped:
the statement of `state_change_requires_auth` without `height ≠ 30334` is false.  Witness: key 2
(address `[2]`) signs a message whose only declared signer is `[1]`; the ante handler lets it
through at height 30334 and refuses it at height 5. -/
theorem halt_height_any_signer :
    ¬ (∀ (S : Scheme) (Ω : Type) (SB : Bytes → Int → Coins → Bytes → Bytes → Bytes) (env : Env)
        (w w' : World S Ω) (tx : Tx S.PK) (pk : S.PK), (∀ k : S.PK, S.addr k ≠ []) →
        anteHandler S SB env w tx false false = .cont w' pk →
        allowed w tx.msg (S.addr pk) = true) := by
  intro hall
  obtain ⟨w', pk, hc⟩ := (Toy.isCont_iff _).mp Toy.stranger_cont_at_halt
  have hpk : pk = (2 : Nat) := by
    obtain ⟨_, hv, _⟩ := anteHandler_cont hc
    obtain ⟨_, _, vs, _, hl⟩ := validateTransaction_pass hv
    obtain ⟨s, _, hkey, _⟩ := signerLoop_pass hl
    simp only [signerKey, Toy.tx] at hkey
    injection hkey with hkey
    exact hkey.symm
  have := hall Toy.S Nat Toy.SB (Toy.env haltHeight) Toy.w w' _ pk (by intro k; simp [Toy.S]) hc
  subst hpk
  simp [allowed, Toy.tx, Toy.msg, Toy.S] at this

/-- The same transaction is refused at any other height (the witness is not an artefact). -/
theorem halt_height_witness_refused_elsewhere :
    ∀ w' pk, anteHandler Toy.S Toy.SB (Toy.env 5) Toy.w (Toy.tx 1 2 10000 [⟨upokt, 10000⟩]) false false
      ≠ .cont w' pk := by
  intro w' pk h
  have := Toy.stranger_abort
  rw [h] at this
  simp [Toy.isCont] at this

/-- The sign document separates chains when `StdSignBytes` is injective in the chain id. -/
def SBSeparatesChains (SB : Bytes → Int → Coins → Bytes → Bytes → Bytes) : Prop :=
  ∀ c c' e f m memo, SB c e f m memo = SB c' e f m memo → c = c'

/-- **wrong_chain_rejected.** A transaction signed for chain `c'` and delivered on chain `c ≠ c'`
changes nothing — unless the same signature verifies under one key for two different documents
(an explicit disjunct, like a hash collision: it cannot be excluded for an abstract scheme). -/
theorem wrong_chain_rejected (hk : Hooks S Ω) (env : Env) (n : Node S Ω) (raw : Bytes)
    (hsep : SBSeparatesChains hk.SB) (c' : Bytes) (hc : c' ≠ env.chainId)
    (hsigned : ∀ tx, hk.decode raw = some tx → ∀ pk : S.PK,
      S.verify pk (signDocOf hk.SB env.chainId tx) tx.sig = true →
      S.verify pk (signDocOf hk.SB c' tx) tx.sig = true) :
    (deliverTx hk env n raw).1.world = n.world ∨
      ∃ (pk : S.PK) (m₁ m₂ : Bytes) (sig : Bytes), m₁ ≠ m₂ ∧ S.verify pk m₁ sig = true ∧ S.verify pk m₂ sig = true := by
  cases hp : antePasses hk env n raw with
  | false => exact Or.inl (not_passed_unchanged hk env n raw hp)
  | true =>
    right
    obtain ⟨tx, w', pk, hd, _, _, hcont, _, _⟩ := passed_iff hk env n raw hp
    obtain ⟨_, hv, _⟩ := anteHandler_cont hcont
    obtain ⟨_, _, vs, _, hl⟩ := validateTransaction_pass hv
    obtain ⟨_, _, _, _, hver, _⟩ := signerLoop_pass hl
    have hv1 : S.verify pk (signDocOf hk.SB env.chainId tx) tx.sig = true := by simpa using hver
    refine ⟨pk, signDocOf hk.SB env.chainId tx, signDocOf hk.SB c' tx, tx.sig, ?_, hv1, hsigned tx hd pk hv1⟩
    intro heq
    exact hc (hsep _ _ _ _ _ _ heq).symm

example : SBSeparatesChains Toy.SB := by intro c c' _ _ _ _ h; exact h

/-- **wrong_chain_rejected**, scheme-level reading: if no signature verifies for two different
documents under one key, a signature that verifies only for another chain's document is refused. -/
theorem wrong_chain_rejected_unique (hk : Hooks S Ω) (env : Env) (n : Node S Ω) (raw : Bytes)
    (hbad : ∀ tx, hk.decode raw = some tx → ∀ pk : S.PK,
      S.verify pk (signDocOf hk.SB env.chainId tx) tx.sig = false) :
    (deliverTx hk env n raw).1.world = n.world := by
  cases hp : antePasses hk env n raw with
  | false => exact not_passed_unchanged hk env n raw hp
  | true =>
    obtain ⟨tx, w', pk, hd, _, _, hcont, _, _⟩ := passed_iff hk env n raw hp
    obtain ⟨_, hv, _⟩ := anteHandler_cont hcont
    obtain ⟨_, _, vs, _, hl⟩ := validateTransaction_pass hv
    obtain ⟨_, _, _, _, hver, _⟩ := signerLoop_pass hl
    have := hbad tx hd pk
    simp [this] at hver

/-- **missing_or_other_key_noop.** An empty signature, a public key omitted under the modern rule
set, or a key whose address is outside `allowed` (at a height other than 30334): the chain state
after `DeliverTx` is the state before. -/
theorem missing_or_other_key_noop (hk : Hooks S Ω) (env : Env) (n : Node S Ω) (raw : Bytes)
    (hmod : env.modern) (hh : env.height ≠ haltHeight) (haddr : ∀ k : S.PK, S.addr k ≠ [])
    (hbad : ∀ tx, hk.decode raw = some tx →
      tx.sig = [] ∨ tx.pk = none ∨ ∃ pk, tx.pk = some pk ∧ allowed n.world tx.msg (S.addr pk) = false) :
    (deliverTx hk env n raw).1.world = n.world := by
  cases hp : antePasses hk env n raw with
  | false => exact not_passed_unchanged hk env n raw hp
  | true =>
    obtain ⟨tx, w', pk, hd, _, _, hcont, _, _⟩ := passed_iff hk env n raw hp
    obtain ⟨hb, hv, _⟩ := anteHandler_cont hcont
    obtain ⟨_, hsig⟩ := txValidateBasic_none hb
    obtain ⟨_, _, vs, hvs, hl⟩ := validateTransaction_pass hv
    obtain ⟨signer, _, hkey, _⟩ := signerLoop_pass hl
    rcases hbad tx hd with h1 | h1 | ⟨pk', h1, h2⟩
    · exact absurd h1 hsig
    · -- omitted key: `validSigners` panics under the modern rule set
      obtain ⟨_, _, ha, hu, _⟩ := hmod
      simp [validSigners, ha, hu, h1] at hvs
    · have hpk : pk = pk' := by
        simp [signerKey, h1] at hkey
        exact hkey.symm
      subst hpk
      have := (ante_pass_authorized hh haddr hcont).2
      rw [h2] at this
      cases this

example : ∃ pk, (Toy.tx 1 2 10000 [⟨upokt, 10000⟩]).pk = some pk ∧
    allowed Toy.w (Toy.tx 1 2 10000 [⟨upokt, 10000⟩]).msg (Toy.S.addr pk) = false :=
  ⟨2, rfl, by simp [allowed, Toy.tx, Toy.msg, Toy.S]⟩

/-! ### Message-level signer checks of the node handlers -/

/-- **unstake_unjail_signer_rule.** For `MsgBeginUnstake` / `MsgUnjail` (`GetSigners() = [msg.Signer,
node]`): if the key accepted by the ante handler belongs to one of the two declared signers and the
handler's `ValidateValidatorMsgSigner(node, msg.Signer)` passes, then the key belongs to the node's
operator or to its output address — although the message itself chooses `msg.Signer`. -/
theorem unstake_unjail_signer_rule (operator msgSigner keyAddr : Addr) (output : Option Addr)
    (hante : keyAddr = msgSigner ∨ keyAddr = operator)
    (hhandler : validateValidatorMsgSigner operator output msgSigner = true) :
    keyAddr = operator ∨ output = some keyAddr := by
  rcases hante with rfl | rfl
  · unfold validateValidatorMsgSigner at hhandler
    cases output with
    | none => left; simpa using hhandler
    | some o =>
      simp at hhandler
      rcases hhandler with h | h
      · exact Or.inl h
      · exact Or.inr (by rw [h])
  · exact Or.inl rfl

example : validateValidatorMsgSigner [1] (some [2]) [2] = true := by decide
example : validateValidatorMsgSigner [1] (some [2]) [3] = false := by decide

/-- **stake_signer_rule.** If the signer checks of `ValidateValidatorStaking` pass for the address of
the verifying key, then for an existing node the key belongs to the operator or to the *current*
output address; for a new node to the operator or to the output address named in the message. -/
theorem stake_signer_rule (ncust oedit : Bool) (operator signer : Addr) (cur : Option (Option Addr))
    (newOut : Option Addr) (h : stakeSignerChecks ncust oedit operator cur newOut signer = true) :
    signer = operator ∨
      (match cur with
       | some curOut => curOut = some signer
       | none => newOut = some signer) := by
  unfold stakeSignerChecks at h
  cases cur with
  | some curOut =>
    simp only [Bool.and_eq_true] at h
    have hc := h.2
    unfold validateValidatorMsgSigner at hc
    cases curOut with
    | none => left; simpa using hc
    | some o =>
      simp at hc
      rcases hc with hc | hc
      · exact Or.inl hc
      · right; simp [hc]
  | none =>
    simp only [Bool.and_eq_true, Bool.false_or] at h
    have hn := h.1.1
    unfold validateValidatorMsgSigner at hn
    cases newOut with
    | none => left; simpa using hn
    | some o =>
      simp at hn
      rcases hn with hn | hn
      · exact Or.inl hn
      · right; simp [hn]

example : stakeSignerChecks true true [1] (some (some [2])) (some [3]) [2] = true := by decide
example : stakeSignerChecks true true [1] (some (some [2])) (some [3]) [3] = false := by decide

end C14
