import Proofs.Codec.WireRT
import Proofs.Codec.Json
/-!
# C38 — Every stored or transmitted object round-trips through the codec; sign bytes are canonical

Model: `PocketModel/Codec/Wire.lean` (gogoproto generated marshalers, `codec/proto_codec.go`,
`codec/codec.go`), `PocketModel/Codec/Json.lean` (`types.SortJSON`, `StdSignBytes`).
-/
namespace C38
open Wire

/-- Every `uint64` survives `encodeVarint…` followed by the generated decoding loop, whatever
follows it in the buffer. -/
theorem varint_roundtrip (n : Nat) (h : n < 2 ^ 64) (rest : Bytes) :
    decodeVarint (encodeVarint n ++ rest) = some (n, rest) :=
  decodeVarint_encodeVarint n (by simpa [two64] using h) rest

example : decodeVarint (encodeVarint 300 ++ [7]) = some (300, [7]) := by decide

/-- The decoder is not injective on varints: padded (non-minimal) encodings of up to 10 bytes are
accepted, and bits beyond 2^64 in the 10th byte are dropped silently. -/
theorem varint_nonminimal_accepted :
    decodeVarint [0x81, 0x00] = some (1, []) ∧ decodeVarint [0x81, 0x80, 0x80, 0x80, 0x80, 0x80, 0x80, 0x80, 0x80, 0x00] = some (1, []) ∧
    decodeVarint [0x81, 0x80, 0x80, 0x80, 0x80, 0x80, 0x80, 0x80, 0x80, 0x7e] = some (1, []) ∧
    encodeVarint 1 = [0x01] := by decide

/-- Zig-zag coding is a bijection. -/
theorem zigzag_roundtrip (i : Int) : unzigzag (zigzag i) = i := unzigzag_zigzag i

theorem zigzag_roundtrip_inv (n : Nat) : zigzag (unzigzag n) = n := zigzag_unzigzag n

example : zigzag (-1) = 1 ∧ zigzag 1 = 2 ∧ unzigzag 3 = -2 := by decide

/-- `MarshalBinaryLengthPrefixed` / `UnmarshalBinaryLengthPrefixed` (the transaction framing). -/
theorem length_prefixed_roundtrip (body : Bytes) (h : body.length < 2 ^ 64) :
    unmarshalLP (marshalLP body) = some body :=
  unmarshalLP_marshalLP body (by simpa [two64] using h)

example : unmarshalLP (marshalLP [1, 2, 3]) = some [1, 2, 3] := by decide

/-- The framing itself is malleable: a padded length prefix is accepted as well. -/
theorem length_prefix_nonminimal_accepted :
    unmarshalLP [0x83, 0x00, 1, 2, 3] = some [1, 2, 3] ∧ marshalLP [1, 2, 3] = [0x03, 1, 2, 3] := by decide

/-- The upgrade-height switch: whichever codec `Marshal…(h)` picks, `Unmarshal…(h)` reads it back —
provided amino, which is tried first at and before the upgrade height, does not mis-read the bytes
protobuf wrote for this value. -/
theorem height_switch_roundtrip_partial {α : Type} (c : SwitchCfg)
    (aE pE : α → Option Bytes) (aD pD : Bytes → Option α)
    (ha : ∀ v b, aE v = some b → aD b = some v) (hp : ∀ v b, pE v = some b → pD b = some v)
    (h : Int) (v : α) (b : Bytes)
    (hx : ∀ b', pE v = some b' → aD b' = none ∨ aD b' = some v)
    (hm : marshalAt c aE pE h v = some b) : unmarshalAt c aD pD h b = some v := by
  unfold marshalAt at hm
  unfold unmarshalAt
  by_cases hup : isAfterCodecUpgrade c h = true
  · rw [if_pos hup] at hm ⊢
    by_cases hh : h = upgradeCodecHeight
    · rw [if_pos hh]
      rcases hx b hm with e | e
      · rw [e]; exact hp v b hm
      · rw [e]
    · rw [if_neg hh]; exact hp v b hm
  · rw [if_neg hup] at hm ⊢
    rw [ha v b hm]

example : unmarshalAt (α := Nat) { upgradeHeight := 30024 } (fun _ => none) (fun b => some b.length) 40000
    [1, 2] = some 2 := by decide

/-- Without that proviso the switch does not round-trip at exactly `UpgradeCodecHeight`: two codecs
that each round-trip on their own, but amino reads protobuf's bytes as something else.  (On the real
code this happens for `ProofI`, see design-notes/C38.md.) -/
theorem height_switch_roundtrip_fails :
    ∃ (aE pE : Bool → Option Bytes) (aD pD : Bytes → Option Bool),
      (∀ v b, aE v = some b → aD b = some v) ∧ (∀ v b, pE v = some b → pD b = some v) ∧
      ∃ v b, marshalAt { upgradeHeight := 30024 } aE pE upgradeCodecHeight v = some b ∧
        unmarshalAt { upgradeHeight := 30024 } aD pD upgradeCodecHeight b ≠ some v := by
  refine ⟨fun v => some [if v then 1 else 0], fun v => some [if v then 0 else 1],
          fun b => some (b == [1]), fun b => some (b == [0]), ?_, ?_, true, [0], ?_, ?_⟩
  · intro v b h; cases v <;> simp at h <;> subst h <;> decide
  · intro v b h; cases v <;> simp at h <;> subst h <;> decide
  · decide
  · decide

/-- **Across heights, main-net constants** (`GetCodecUpgradeHeight() = UpgradeCodecHeight`, no
override, `TestMode = 0`): a value written at height `he` is read back at every later height `hd` up
to *and including* the upgrade height (legacy bytes stay decodable at the boundary: that is what the
amino-first branch at `height == UpgradeCodecHeight` is for), and a value written at or after the
upgrade is read back at every later height.  Same proviso on amino as above. -/
theorem height_switch_cross_roundtrip {α : Type}
    (aE pE : α → Option Bytes) (aD pD : Bytes → Option α)
    (ha : ∀ v b, aE v = some b → aD b = some v) (hp : ∀ v b, pE v = some b → pD b = some v)
    (he hd : Int) (h0 : 0 ≤ he) (hle : he ≤ hd)
    (hdom : hd ≤ upgradeCodecHeight ∨ upgradeCodecHeight ≤ he) (v : α) (b : Bytes)
    (hx : ∀ b', pE v = some b' → aD b' = none ∨ aD b' = some v)
    (hm : marshalAt { upgradeHeight := upgradeCodecHeight } aE pE he v = some b) :
    unmarshalAt { upgradeHeight := upgradeCodecHeight } aD pD hd b = some v := by
  have hafter : ∀ h : Int, 0 ≤ h →
      isAfterCodecUpgrade { upgradeHeight := upgradeCodecHeight } h = decide (upgradeCodecHeight ≤ h) := by
    intro h hh
    have : ¬ (h = -1) := by omega
    simp [isAfterCodecUpgrade, this]
  unfold marshalAt at hm
  unfold unmarshalAt
  rw [hafter he h0] at hm
  rw [hafter hd (by omega)]
  by_cases hwe : upgradeCodecHeight ≤ he
  · -- proto bytes
    have hwd : upgradeCodecHeight ≤ hd := by omega
    simp only [hwe, hwd, decide_true, if_true] at hm ⊢
    by_cases hh : hd = upgradeCodecHeight
    · rw [if_pos hh]
      rcases hx b hm with e | e
      · rw [e]; exact hp v b hm
      · rw [e]
    · rw [if_neg hh]; exact hp v b hm
  · -- amino bytes, hence hd ≤ upgrade height
    have hdle : hd ≤ upgradeCodecHeight := by
      rcases hdom with h | h
      · exact h
      · exact absurd h hwe
    simp only [hwe, decide_false, if_false, Bool.false_eq_true] at hm
    by_cases hwd : upgradeCodecHeight ≤ hd
    · have hh : hd = upgradeCodecHeight := by omega
      simp only [hwd, decide_true, if_true, hh]
      rw [ha v b hm]
      simp
    · simp only [hwd, decide_false, Bool.false_eq_true, if_false]
      rw [ha v b hm]

example : unmarshalAt (α := Nat) { upgradeHeight := upgradeCodecHeight } (fun b => if b = [1] then some 7 else none)
    (fun _ => none) upgradeCodecHeight [1] = some 7 := by decide

/-- The boundary protection is tied to the *constant* 30024: when a network moves the codec upgrade
(`UpgradeHeight = 100`, as test nets and the test-suite do), bytes written by the last amino block are
not readable at the new upgrade height (observed on the real code: 99 → 100 fails). -/
theorem height_switch_cross_fails_when_moved :
    ∃ (aE pE : Bool → Option Bytes) (aD pD : Bytes → Option Bool),
      (∀ v b, aE v = some b → aD b = some v) ∧ (∀ v b, pE v = some b → pD b = some v) ∧
      (∀ v b, pE v = some b → aD b = none) ∧
      ∃ v b, marshalAt { upgradeHeight := 100 } aE pE 99 v = some b ∧
        unmarshalAt { upgradeHeight := 100 } aD pD 100 b = none := by
  refine ⟨fun v => some [0, if v then 1 else 0], fun v => some [9, if v then 1 else 0],
          fun b => match b with | [0, x] => some (x == 1) | _ => none,
          fun b => match b with | [9, x] => some (x == 1) | _ => none, ?_, ?_, ?_, true, [0, 1], ?_, ?_⟩
  · intro v b h; cases v <;> simp at h <;> subst h <;> decide
  · intro v b h; cases v <;> simp at h <;> subst h <;> decide
  · intro v b h; cases v <;> simp at h <;> subst h <;> decide
  · decide
  · decide

/-! ## The generic wire interpreter -/

/-- **Round trip through the protobuf codec**, for every schema with valid, pairwise distinct field
numbers at every level and every value whose encoding fits a Go `int` (a machine limit, not a size
bound of the statement): decoding the encoding gives exactly `normalize v` — the original with
nil ↔ empty and default ↔ absent identified the way the generated code identifies them. -/
theorem wire_roundtrip (s : Schema) (vs : List Value) (hw : wfSchema s = true)
    (hs : (encodeMsg s vs).length < 2 ^ 63) : decodeMsg s (encodeMsg s vs) = some (normFields s vs) := by
  simp only [wfSchema, Bool.and_eq_true, decide_eq_true_eq] at hw
  have hs' : (serToks (encFields s vs)).length < two63 := by simpa [encodeMsg, two63] using hs
  have htok := tokenize_payload s vs hw.1 hs'
  have hrec := rt_fields_gen s [] [] vs rfl (by simpa using hw.1) (by simpa using hw.2) (by simpa using hs')
  simp only [List.nil_append] at hrec
  simp only [decodeMsg, encodeMsg, htok, hrec]

/-- Non-vacuity: a transaction-shaped schema (embedded `Any`, repeated coins with a non-nullable
custom integer, embedded signature, string, int64) and a value with nil and empty fields. -/
def exCoin : Schema := [.bytes 1 .str false, .bytes 2 .bigint true]
def exStdTx : Schema :=
  [.msg 1 false anySchema, .repMsg 2 exCoin, .msg 3 false [.bytes 1 .bytes false, .bytes 2 .bytes false],
   .bytes 4 .str false, .int 5 .i64 false, .oneof [(7, exCoin), (8, anySchema)]]
def exTx : List Value :=
  [.msg (some [.bytes (some [0x2f, 0x78]), .bytes (some [1, 2, 3])]),
   .rep (some [.msg (some [.bytes (some [0x75]), .bytes none])]),
   .msg (some [.bytes none, .bytes (some [])]), .bytes (some []), .int (2 ^ 64 - 1),
   .one (some (7, .msg (some [.bytes (some [0x61]), .bytes (some [0x37])])))]

example : wfSchema exStdTx = true := by decide
example : (encodeMsg exStdTx exTx).length < 2 ^ 63 := by decide
example : decodeMsg exStdTx (encodeMsg exStdTx exTx) = some (normFields exStdTx exTx) := by rfl

/-- The normal form really differs from the original where Go cannot tell the difference after a
round trip: the empty signature bytes come back nil and the nil amount comes back as "0". -/
theorem normalize_is_not_identity :
    normFields exStdTx exTx =
      [.msg (some [.bytes (some [0x2f, 0x78]), .bytes (some [1, 2, 3])]),
       .rep (some [.msg (some [.bytes (some [0x75]), .bytes (some [0x30])])]),
       .msg (some [.bytes none, .bytes none]), .bytes (some []), .int (2 ^ 64 - 1),
       .one (some (7, .msg (some [.bytes (some [0x61]), .bytes (some [0x37])])))] := by rfl

/-- `Any`: packing a message and resolving it again through the interface registry. -/
theorem any_roundtrip (reg : List (Bytes × Schema)) (url : Bytes) (s : Schema) (vs : List Value)
    (hreg : reg.lookup url = some s) (hw : wfSchema s = true) (hs : (encodeMsg s vs).length < 2 ^ 63) :
    unpackAny reg (packAny url s vs) = some (url, normFields s vs) := by
  simp [unpackAny, packAny, hreg, wire_roundtrip s vs hw hs]

example : unpackAny [([0x2f], exCoin)] (packAny [0x2f] exCoin [.bytes (some [0x75]), .bytes none]) =
    some ([0x2f], [.bytes (some [0x75]), .bytes (some [0x30])]) := by rfl

/-- The decoder accepts more than the encoder produces (unknown fields are skipped, the last of a
repeated scalar wins) — the other direction of the round trip does not hold. -/
theorem decode_not_injective :
    decodeMsg exCoin [0x0a, 0x01, 0x75, 0x12, 0x01, 0x37] = decodeMsg exCoin [0x0a, 0x01, 0x76, 0x0a, 0x01, 0x75, 0x12, 0x01, 0x37, 0x18, 0x05] := by
  rfl

/-! ## Sign bytes -/

/-- `SortJSON` gives the same tree for any two JSON documents that differ only in the order of
object members (at any depth). -/
theorem sortJSON_perm_invariant {a b : Json.Json} (h : Json.PermEq a b) : Json.sortJSON a = Json.sortJSON b :=
  Json.sortJSON_perm_invariant h

/-- Same content → same sign bytes, regardless of field or map order of the input. -/
theorem signbytes_canonical {a b : Json.Json} (h : Json.PermEq a b) :
    Json.render (Json.sortJSON a) = Json.render (Json.sortJSON b) :=
  Json.signbytes_canonical h

example : Json.PermEq Json.exA Json.exB ∧ Json.exA ≠ Json.exB := ⟨Json.exA_permEq_exB, by decide⟩

/-- Sorting is idempotent: sign bytes are a canonical form of their own content. -/
theorem sortJSON_idem (a : Json.Json) : Json.sortJSON (Json.sortJSON a) = Json.sortJSON a := Json.sortJSON_idem a

/-- `StdSignBytes`: whatever order the five members of the sign document are produced in, the bytes
that get signed are the same. -/
theorem signBytes_field_order_irrelevant (chainId : Bytes) (entropy : Int) (fee msg : Json.Json) (memo : Bytes)
    (members : List (Bytes × Json.Json)) (h : members.Perm (Json.signDocMembers chainId entropy fee msg memo)) :
    Json.render (Json.sortJSON (.obj members)) = Json.signBytes chainId entropy fee msg memo :=
  Json.signBytes_field_order_irrelevant chainId entropy fee msg memo members h

end C38
