import Proofs.Codec.Varint
/-!
# C38 — Every stored or transmitted object round-trips through the codec; sign bytes are canonical

Model: `PocketModel/Codec/Wire.lean` (gogoproto generated marshalers, `codec/proto_codec.go`,
`codec/codec.go`), `PocketModel/Codec/Json.lean` (`types.SortJSON`, `StdSignBytes`).
-/
namespace C38
open Wire

/-- Every `uint64` survives `encodeVarint…` followed by the generated decoding loop, whatever
follows it in the buffer. -/
theorem varint_roundtrip (n : Nat) (h : n < 2 ^ 64) (rest : Bytes) :
    decodeVarint (encodeVarint n ++ rest) = some (n, rest) :=
  decodeVarint_encodeVarint n (by simpa [two64] using h) rest

example : decodeVarint (encodeVarint 300 ++ [7]) = some (300, [7]) := by decide

/-- The decoder is not injective on varints: padded (non-minimal) encodings of up to 10 bytes are
accepted, and bits beyond 2^64 in the 10th byte are dropped silently. -/
theorem varint_nonminimal_accepted :
    decodeVarint [0x81, 0x00] = some (1, []) ∧ decodeVarint [0x81, 0x80, 0x80, 0x80, 0x80, 0x80, 0x80, 0x80, 0x80, 0x00] = some (1, []) ∧
    decodeVarint [0x81, 0x80, 0x80, 0x80, 0x80, 0x80, 0x80, 0x80, 0x80, 0x7e] = some (1, []) ∧
    encodeVarint 1 = [0x01] := by decide

/-- Zig-zag coding is a bijection. -/
theorem zigzag_roundtrip (i : Int) : unzigzag (zigzag i) = i := unzigzag_zigzag i

theorem zigzag_roundtrip_inv (n : Nat) : zigzag (unzigzag n) = n := zigzag_unzigzag n

example : zigzag (-1) = 1 ∧ zigzag 1 = 2 ∧ unzigzag 3 = -2 := by decide

/-- `MarshalBinaryLengthPrefixed` / `UnmarshalBinaryLengthPrefixed` (the transaction framing). -/
theorem length_prefixed_roundtrip (body : Bytes) (h : body.length < 2 ^ 64) :
    unmarshalLP (marshalLP body) = some body :=
  unmarshalLP_marshalLP body (by simpa [two64] using h)

example : unmarshalLP (marshalLP [1, 2, 3]) = some [1, 2, 3] := by decide

/-- The framing itself is malleable: a padded length prefix is accepted as well. -/
theorem length_prefix_nonminimal_accepted :
    unmarshalLP [0x83, 0x00, 1, 2, 3] = some [1, 2, 3] ∧ marshalLP [1, 2, 3] = [0x03, 1, 2, 3] := by decide

/-- The upgrade-height switch: whichever codec `Marshal…(h)` picks, `Unmarshal…(h)` reads it back —
provided amino, which is tried first at and before the upgrade height, does not mis-read the bytes
protobuf wrote for this value. -/
theorem height_switch_roundtrip_partial {α : Type} (c : SwitchCfg)
    (aE pE : α → Option Bytes) (aD pD : Bytes → Option α)
    (ha : ∀ v b, aE v = some b → aD b = some v) (hp : ∀ v b, pE v = some b → pD b = some v)
    (h : Int) (v : α) (b : Bytes)
    (hx : ∀ b', pE v = some b' → aD b' = none ∨ aD b' = some v)
    (hm : marshalAt c aE pE h v = some b) : unmarshalAt c aD pD h b = some v := by
  unfold marshalAt at hm
  unfold unmarshalAt
  by_cases hup : isAfterCodecUpgrade c h = true
  · rw [if_pos hup] at hm ⊢
    by_cases hh : h = upgradeCodecHeight
    · rw [if_pos hh]
      rcases hx b hm with e | e
      · rw [e]; exact hp v b hm
      · rw [e]
    · rw [if_neg hh]; exact hp v b hm
  · rw [if_neg hup] at hm ⊢
    rw [ha v b hm]

example : unmarshalAt (α := Nat) { upgradeHeight := 30024 } (fun _ => none) (fun b => some b.length) 40000
    [1, 2] = some 2 := by decide

/-- Without that proviso the switch does not round-trip at exactly `UpgradeCodecHeight`: two codecs
that each round-trip on their own, but amino reads protobuf's bytes as something else.  (On the real
code this happens for `ProofI`, see design-notes/C38.md.) -/
theorem height_switch_roundtrip_fails :
    ∃ (aE pE : Bool → Option Bytes) (aD pD : Bytes → Option Bool),
      (∀ v b, aE v = some b → aD b = some v) ∧ (∀ v b, pE v = some b → pD b = some v) ∧
      ∃ v b, marshalAt { upgradeHeight := 30024 } aE pE upgradeCodecHeight v = some b ∧
        unmarshalAt { upgradeHeight := 30024 } aD pD upgradeCodecHeight b ≠ some v := by
  refine ⟨fun v => some [if v then 1 else 0], fun v => some [if v then 0 else 1],
          fun b => some (b == [1]), fun b => some (b == [0]), ?_, ?_, true, [0], ?_, ?_⟩
  · intro v b h; cases v <;> simp at h <;> subst h <;> decide
  · intro v b h; cases v <;> simp at h <;> subst h <;> decide
  · decide
  · decide

end C38
