import Proofs.Crypto.Sig
/-!
# C39 — Signatures verify exactly for the signing key and message

Model: `PocketModel/Crypto/Sig.lean` (`/repo/crypto`: `multisig.go`, `keys.go`, `ed25519.go`,
`secp256k1.go`, go-amino encodings).  The signature primitives are a parameter
(`SigScheme`, or an arbitrary member verifier `vm`).

**Not provable, and not claimed:** the "only if produced by the matching private key" direction for
ed25519 / secp256k1 is a computational (unforgeability) statement; nothing below implies it.  It is
exercised by mutation testing in the harness (`ver … msg/sig/key/other` lines).  What *is* proved
is everything pocket-core's own code adds on top of the primitives: the multisig composition is
exactly "same count, every position verifies under the key at that position"; key dispatch and
encodings round-trip; addresses are stable.
-/
namespace C39
open Crypto

/-- A toy scheme for the non-vacuity examples: the signature is the key byte followed by the
message. -/
def toyVerify (pk : UInt8) (m s : Bytes) : Bool := s == pk :: m
def toySign (sk : UInt8) (m : Bytes) : Bytes := sk :: m
def toy : SigScheme where
  SK := UInt8
  PK := UInt8
  pub := id
  sign := toySign
  verify := toyVerify
  correct := by intro sk m; simp [toyVerify, toySign]

/-- `PublicKeyMultiSignature.VerifyBytes` accepts **iff** there are exactly as many signatures as
member keys and every signature is present (non-nil) and verifies under the member key at the
same position. -/
theorem multisig_verify_iff {κ : Type} (vm : κ → Bytes → Bytes → Bool) (ks : List κ) (m : Bytes)
    (sigs : List Bytes) :
    multisigVerify vm ks m sigs = true ↔
      sigs.length = ks.length ∧
        ∀ i (h1 : i < sigs.length) (h2 : i < ks.length), sigs[i] ≠ [] ∧ vm ks[i] m sigs[i] = true :=
  multisigVerify_iff vm ks m sigs

example : multisigVerify toyVerify [1, 2, 3] [9] [[1, 9], [2, 9], [3, 9]] = true := by decide
example : multisigVerify toyVerify [1, 2, 3] [9] [[1, 9], [2, 9]] = false := by decide

/-- Any other number of signatures is rejected, whatever the signatures are (a subset of the
members, or all members plus a duplicate, never suffices). -/
theorem multisig_wrong_count_rejected {κ : Type} (vm : κ → Bytes → Bytes → Bool) (ks : List κ)
    (m : Bytes) (sigs : List Bytes) (h : sigs.length ≠ ks.length) :
    multisigVerify vm ks m sigs = false := by
  cases hv : multisigVerify vm ks m sigs with
  | false => rfl
  | true => exact absurd ((multisig_verify_iff vm ks m sigs).mp hv).1 h

example : multisigVerify toyVerify [1, 2] [9] [[1, 9], [2, 9], [2, 9]] = false := by decide

/-- Order matters: if the signatures at two different positions are exchanged and the result is
still accepted, then each of the two member keys verifies the *other* member's signature.  (So a
swap of two members' genuine signatures is rejected unless the keys cross-verify.) -/
theorem multisig_order_matters {κ : Type} (vm : κ → Bytes → Bytes → Bool) (ks : List κ) (m : Bytes)
    (sigs : List Bytes) (i j : Nat) (hl : sigs.length = ks.length) (hi : i < ks.length)
    (hj : j < ks.length) (hne : i ≠ j)
    (hv : multisigVerify vm ks m ((sigs.set i (sigs[j]'(hl ▸ hj))).set j (sigs[i]'(hl ▸ hi))) = true) :
    vm ks[i] m (sigs[j]'(hl ▸ hj)) = true ∧ vm ks[j] m (sigs[i]'(hl ▸ hi)) = true := by
  obtain ⟨_, h⟩ := (multisig_verify_iff vm ks m _).mp hv
  have hi' : i < ((sigs.set i (sigs[j]'(hl ▸ hj))).set j (sigs[i]'(hl ▸ hi))).length := by simp; omega
  have hj' : j < ((sigs.set i (sigs[j]'(hl ▸ hj))).set j (sigs[i]'(hl ▸ hi))).length := by simp; omega
  have a := (h i hi' hi).2
  have b := (h j hj' hj).2
  rw [List.getElem_set_ne (Ne.symm hne), List.getElem_set_self] at a
  rw [List.getElem_set_self] at b
  exact ⟨a, b⟩

example : multisigVerify toyVerify [1, 2, 3] [9] [[2, 9], [1, 9], [3, 9]] = false := by decide

/-- Completeness for any scheme: the members' genuine signatures, in member order, are accepted
(provided the scheme never produces an empty signature — an empty signature is treated as absent
by `GetSignatureByIndex`). -/
theorem multisig_genuine_verifies (S : SigScheme) (sks : List S.SK) (m : Bytes)
    (hne : ∀ sk, S.sign sk m ≠ []) :
    multisigVerify S.verify (sks.map S.pub) m (sks.map fun sk => S.sign sk m) = true := by
  rw [multisig_verify_iff]
  refine ⟨by simp, fun i h1 h2 => ?_⟩
  simp only [List.getElem_map]
  exact ⟨hne _, S.correct _ _⟩

example : multisigVerify toy.verify (([4, 5] : List UInt8).map toy.pub) [7] (([4, 5] : List UInt8).map fun sk => toy.sign sk [7]) = true :=
  multisig_genuine_verifies toy ([4, 5] : List UInt8) [7] (by intro sk; simp [toy, toySign])

/-- The sequential loop with early exit that the correspondence driver evaluates (nil members,
panicking members) is the function of `multisig_verify_iff` whenever no member is nil and no
member verifier panics. -/
theorem multisig_loop_agrees {κ : Type} (vm : κ → Bytes → Bytes → Bool) (ks : List κ) (m : Bytes)
    (sigs : List Bytes) :
    multisigVerifyP (fun k m s => some (vm k m s)) (ks.map some) m sigs =
      some (multisigVerify vm ks m sigs) := multisigVerifyP_total vm ks m sigs

/-- A nil member (which the decoder produces from the two bytes `0a 00`) makes `VerifyBytes`
panic as soon as the loop reaches it with a non-empty signature. -/
theorem nil_member_panics {κ : Type} (vm : κ → Bytes → Bytes → Option Bool) (ks : List (Option κ))
    (m s : Bytes) (ss : List Bytes) (hs : s ≠ []) (hl : ss.length = ks.length) :
    multisigVerifyP vm (none :: ks) m (s :: ss) = none := by
  simp [multisigVerifyP, verifyLoopP, hs, hl]

example : newPublicKeyBz (pfxMulti ++ [0x0a, 0x00]) = some (.multi [.nil]) := by
  simp [newPublicKeyBz, newMultiKey, pfxMulti, edSize, secpSize, decodeStruct, decodeList,
    readUvarint, readUvarintAux, skipFields]

/-- A multisig key with no members accepts every message with the empty multi-signature. -/
theorem empty_multisig_verifies_anything {κ : Type} (vm : κ → Bytes → Bytes → Bool) (m : Bytes) :
    multisigVerify vm [] m [] = true := rfl

/-- …and that key is reachable: `NewPublicKeyBz` decodes the four prefix bytes `f325b8ad` to the
member-less multisig key, and `b2f515f9` is the encoding of the empty multi-signature. -/
theorem empty_multisig_reachable :
    newPublicKeyBz pfxMulti = some (.multi []) ∧ decodeMultiSig pfxMsig = some [] := by
  constructor
  · simpa [Key.rawBytes, Key.amino, Key.aminoList] using newPublicKeyBz_rawBytes (.multi []) rfl
  · simpa [encodeMultiSig] using decodeMultiSig_encode []

/-- Dispatch is total on the two fixed sizes: any 32 bytes are an ed25519 key, any 33 bytes a
secp256k1 key (no validation of the point happens at decoding time). -/
theorem dispatch_total (b : Bytes) :
    (b.length = 32 → newPublicKeyBz b = some (.ed b)) ∧
    (b.length = 33 → newPublicKeyBz b = some (.secp b)) := by
  constructor <;> intro h <;> simp [newPublicKeyBz, edSize, secpSize, h]

/-- `NewPublicKeyBz(k.RawBytes()) = k` for every well-formed key of every kind, including nested
multisig keys: the three branches of the length dispatch never capture each other's encodings. -/
theorem key_dispatch_total_and_stable (k : Key) (h : k.wf = true) :
    newPublicKeyBz k.rawBytes = some k := newPublicKeyBz_rawBytes k h

/-- The amino encoding of a multisig key is never 32 or 33 bytes long (the fact the dispatch
relies on). -/
theorem multisig_encoding_never_dispatch_size (ks : List Key) (h : Key.wfList ks = true) :
    (Key.multi ks).amino.length ≠ 32 ∧ (Key.multi ks).amino.length ≠ 33 :=
  multi_size_not_dispatch ks h

/-- `PubKeyFromBytes(k.Bytes()) = k` (amino interface encoding, registered prefixes). -/
theorem amino_roundtrip (k : Key) (h : k.wf = true) : pubKeyFromBytes k.amino = some k :=
  pubKeyFromBytes_amino k h

example : (Key.multi [.ed (List.replicate 32 7), .multi [.secp (List.replicate 33 2)]]).wf = true := by
  decide

/-- Addresses are stable across both encodings, for any hash functions. -/
theorem address_stable (H R : Bytes → Bytes) (k : Key) (h : k.wf = true) :
    (newPublicKeyBz k.rawBytes).map (Key.address H R) = some (k.address H R) ∧
    (pubKeyFromBytes k.amino).map (Key.address H R) = some (k.address H R) := by
  rw [key_dispatch_total_and_stable k h, amino_roundtrip k h]
  exact ⟨rfl, rfl⟩

/-- `MultiSignature.Unmarshal(ms.Marshal()) = ms` for every list of signatures (an empty
signature comes back as nil = empty). -/
theorem multisignature_roundtrip (sigs : List Bytes) :
    decodeMultiSig (encodeMultiSig sigs) = some sigs := decodeMultiSig_encode sigs

/-- `AddSignatureByIndex(sig, i)` puts the signature at index `i`, whatever the current length,
and leaves every other existing entry alone. -/
theorem add_signature_spec (sigs : List Bytes) (sig : Bytes) (i : Nat) :
    (addSignatureByIndex sigs sig i)[i]? = some sig ∧
      ∀ j, j < sigs.length → j ≠ i → (addSignatureByIndex sigs sig i)[j]? = sigs[j]? :=
  ⟨addSignatureByIndex_self sigs sig i, fun j hj hne => addSignatureByIndex_other sigs sig i j hj hne⟩

example : addSignatureByIndex [] [9] 2 = [[0], [0], [9]] := by decide

/-- A signing session in **any order**: when each of the `n` members adds its signature at its own
index (every member at least once, in whatever order), the assembled multi-signature has `n`
entries and entry `j` is member `j`'s. -/
theorem assemble_any_order (sigOf : Nat → Bytes) (order : List Nat) (n : Nat)
    (hall : ∀ j, j < n → j ∈ order) (hrange : ∀ o ∈ order, o < n) :
    (assemble sigOf order).length = n ∧ ∀ j, j < n → (assemble sigOf order)[j]? = some (sigOf j) :=
  assemble_spec sigOf order n hall hrange

/-- …hence a multisig assembled through `AddSignatureByIndex` in any signing order verifies **iff**
every member's signature is non-empty and verifies under that member's key. -/
theorem assembled_multisig_verifies_iff {κ : Type} (vm : κ → Bytes → Bytes → Bool) (ks : List κ)
    (m : Bytes) (sigOf : Nat → Bytes) (order : List Nat)
    (hall : ∀ j, j < ks.length → j ∈ order) (hrange : ∀ o ∈ order, o < ks.length) :
    multisigVerify vm ks m (assemble sigOf order) = true ↔
      ∀ j (h : j < ks.length), sigOf j ≠ [] ∧ vm ks[j] m (sigOf j) = true := by
  obtain ⟨hlen, hget⟩ := assemble_any_order sigOf order ks.length hall hrange
  rw [multisig_verify_iff]
  constructor
  · rintro ⟨_, h⟩ j hj
    have h1 : j < (assemble sigOf order).length := by omega
    have := h j h1 hj
    have e : (assemble sigOf order)[j] = sigOf j := by
      have := hget j hj
      rw [List.getElem?_eq_getElem h1] at this
      exact Option.some.inj this
    rw [e] at this
    exact this
  · intro h
    refine ⟨hlen, fun j h1 h2 => ?_⟩
    have e : (assemble sigOf order)[j] = sigOf j := by
      have := hget j h2
      rw [List.getElem?_eq_getElem h1] at this
      exact Option.some.inj this
    rw [e]
    exact h j h2

example : multisigVerify toyVerify [1, 2, 3] [9] (assemble (fun j => toySign (UInt8.ofNat (j + 1)) [9]) [2, 0, 1]) = true := by
  decide

/-- `Equals` of a simple key with a key of another kind panics (unchecked type assertion). -/
theorem equals_panics_across_kinds (a b : Bytes) (ks : List Key) :
    (Key.ed a).equals (.secp b) = none ∧ (Key.secp b).equals (.ed a) = none ∧
    (Key.ed a).equals (.multi ks) = none ∧ (Key.multi ks).equals (.ed a) = some false := by
  simp [Key.equals]

end C39
