import Proofs.Ledger.Bank
import Proofs.Ledger.Genesis
/-!
# C17 — Total supply always equals the sum of all balances

Model: `PocketModel/Ledger/Bank.lean` (x/auth/keeper/bank.go, account.go, supply.go).  `Op` lists the
bank operations other modules call; the E-FACTS tie of `checks/C17.py` keeps the list of functions
that write an account or the supply equal to the committed classification, so "every history" is
"every list of `Op`s" after genesis.
-/
namespace C17
open Ledger Ledger.Bank

/-- One operation — successful, failed, or failed after a partial write — preserves
`supply = Σ balances` (and the sign of balances the argument needs). -/
theorem supply_inv_step (mt : ModTable) (b : Bank) (op : Op) (h : SupplyInv b) (hn : NonNeg b) :
    SupplyInv (step mt b op).st ∧ NonNeg (step mt b op).st := step_good mt b op ⟨h, hn⟩

/-- `supply = Σ balances` holds after every history of bank operations. -/
theorem supply_inv (mt : ModTable) (b : Bank) (ops : List Op) (h : SupplyInv b) (hn : NonNeg b) :
    SupplyInv (run mt b ops) := (run_good mt b ops ⟨h, hn⟩).1

/-- Over any history the supply moves by exactly Σ minted − Σ burned, where only *successful*
`MintCoins`/`BurnCoins` calls count. -/
theorem supply_changes_only_mint_burn (mt : ModTable) (b : Bank) (ops : List Op) :
    (run mt b ops).supply = b.supply + netMintBurn mt b ops := run_supply mt b ops

/-- …and one step at a time: everything that is not a successful mint or burn leaves the supply alone. -/
theorem supply_step (mt : ModTable) (b : Bank) (op : Op) :
    (step mt b op).st.supply = b.supply + supplyEffect mt b op := step_supply mt b op

/-- Transfers of every kind are Σ-neutral. -/
theorem send_sigma_neutral (b : Bank) (s d : Addr) (x : Int) (hn : NonNeg b) :
    (sendCoins b s d x).st.accts.total = b.accts.total ∧ (sendCoins b s d x).st.supply = b.supply :=
  ⟨sendCoins_total b s d x hn, sendCoins_supply b s d x⟩

/-- Mint: both sides `+x` (or nothing at all). -/
theorem mint_both_sides (mt : ModTable) (b : Bank) (m : String) (x : Int) (hg : SupplyInv b) (hn : NonNeg b) :
    let o := mintCoins mt b m x
    o.st.supply = o.st.accts.total ∧ o.st.supply = b.supply + (if o.err = none then x else 0) :=
  ⟨(mintCoins_good mt b m x ⟨hg, hn⟩).1, mintCoins_supply mt b m x⟩

/-- Burn: both sides `−x` (or nothing at all). -/
theorem burn_both_sides (mt : ModTable) (b : Bank) (m : String) (x : Int) (hg : SupplyInv b) (hn : NonNeg b) :
    let o := burnCoins mt b m x
    o.st.supply = o.st.accts.total ∧ o.st.supply = b.supply - (if o.err = none then x else 0) :=
  ⟨(burnCoins_good mt b m x ⟨hg, hn⟩).1, burnCoins_supply mt b m x⟩

/-- The building blocks are *not* Σ-neutral: a bare `AddCoins`/`SubtractCoins` moves Σ by the amount
and leaves the supply — which is why the set of their callers is a regenerated fact. -/
theorem primitives_move_sigma (b : Bank) (a : Addr) (x : Int) :
    ((addCoins b a x).err = none → (addCoins b a x).st.accts.total = b.accts.total + x ∧ (addCoins b a x).st.supply = b.supply) ∧
    ((subtractCoins b a x).err = none → (subtractCoins b a x).st.accts.total = b.accts.total - x ∧ (subtractCoins b a x).st.supply = b.supply) :=
  ⟨fun h => ⟨addCoins_total b a x h, addCoins_supply b a x⟩, fun h => ⟨subtractCoins_total b a x h, subtractCoins_supply b a x⟩⟩

/-- The genesis hypothesis is established by the module genesis code itself: non-negative genesis
accounts, a genesis supply that is empty (then computed) or equals their sum, no genesis account at
a module address ⇒ after auth, nodes, apps and gov `InitGenesis`, `supply = Σ balances`. -/
theorem genesis_supply_inv (mt : ModTable) (accts : Accounts) (supply : Option Int) (nodePool appPool : String)
    (stakedNodes stakedApps daoTokens : Int)
    (hn : ∀ p ∈ accts, 0 ≤ p.2.bal) (hs : supply = none ∨ supply = some accts.total)
    (hsn : 0 ≤ stakedNodes) (hsa : 0 ≤ stakedApps)
    (hfree : ∀ m mi, mt.find m = some mi → accts.get mi.addr = none)
    (hdist : ∀ m1 m2, mt.find nodePool = some m1 → mt.find appPool = some m2 → m1.addr ≠ m2.addr) :
    SupplyInv (genesis mt accts supply nodePool appPool stakedNodes stakedApps daoTokens) ∧
    NonNeg (genesis mt accts supply nodePool appPool stakedNodes stakedApps daoTokens) :=
  genesis_good mt accts supply nodePool appPool stakedNodes stakedApps daoTokens hn hs hsn hsa hfree hdist

/-- Every history from such a genesis. -/
theorem supply_inv_from_genesis (mt : ModTable) (accts : Accounts) (supply : Option Int) (nodePool appPool : String)
    (stakedNodes stakedApps daoTokens : Int) (ops : List Op)
    (hn : ∀ p ∈ accts, 0 ≤ p.2.bal) (hs : supply = none ∨ supply = some accts.total)
    (hsn : 0 ≤ stakedNodes) (hsa : 0 ≤ stakedApps)
    (hfree : ∀ m mi, mt.find m = some mi → accts.get mi.addr = none)
    (hdist : ∀ m1 m2, mt.find nodePool = some m1 → mt.find appPool = some m2 → m1.addr ≠ m2.addr) :
    SupplyInv (run mt (genesis mt accts supply nodePool appPool stakedNodes stakedApps daoTokens) ops) :=
  (run_good mt _ ops (genesis_good mt accts supply nodePool appPool stakedNodes stakedApps daoTokens hn hs hsn hsa hfree hdist)).1

/-- A genesis document that already carries a pool's coins would be counted twice by the pool
genesis code (the full statement without `hfree` is false of the model). -/
theorem genesis_provided_pool_fails :
    ∃ (mt : ModTable) (b : Bank), (SupplyInv b ∧ NonNeg b) ∧ ¬ SupplyInv (genesisFundPool mt b "pool" 5) :=
  genesis_provided_pool_double_counts

/-! ## Non-vacuity -/

private def mt : ModTable := [⟨"dao", [0xda], true, true⟩, ⟨"pool", [0x90], true, true⟩, ⟨"ro", [0x70], false, false⟩]
private def b0 : Bank := ⟨[([1], ⟨100, none⟩), ([2], ⟨5, none⟩), ([0xda], ⟨50, some "dao"⟩)], 155⟩
private def ops : List Op :=
  [.send [1] [2] 30, .send [2] [3] 36, .mint "pool" 7, .modToAcc "pool" [9] 7, .burn "dao" 20, .burn "dao" 31,
   .mint "ro" 1, .accToMod [1] "nope" 1, .send [1] [1] 70, .send [1] [4] 0, .touch "ro", .burn "pool" (-1)]

example : SupplyInv b0 ∧ nonNegB b0 = true := by decide
example : (run mt b0 ops).supply = 142 ∧ netMintBurn mt b0 ops = 7 - 20 ∧ SupplyInv (run mt b0 ops) := by decide
example : ¬ SupplyInv (addCoins b0 [1] 1).st := by decide
example : (genesis mt [([1], ⟨100, none⟩), ([2], ⟨5, none⟩)] none "pool" "dao" 30 0 50).supply = 185 ∧
    SupplyInv (genesis mt [([1], ⟨100, none⟩), ([2], ⟨5, none⟩)] none "pool" "dao" 30 0 50) := by decide

end C17
