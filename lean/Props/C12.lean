import Proofs.Ledger.Determinism
/-!
# C12 — Block execution is a deterministic function of chain data

Model: `PocketModel/Ledger/Determinism.lean` (map-iteration order and wall clock as an explicit
`Oracle`), `PocketModel/Store/Iavl.lean` (tree shape).  Lemmas: `Proofs/Ledger/Determinism.lean`.

* `block_indep_of_oracles` / `history_indep_of_oracles`: code whose map-range sites are
  order-invariant and whose clock reads do not reach the state computes the same state for all
  oracles — assembled from the per-site lemmas `site_fold_comm`, `site_sorted_before_use`,
  `site_any`, `site_all`, `site_lookup` (each classified site of `checks/facts/C12.expected.json`
  names the lemma that discharges it).
* `SplitNodeRewards`: `normalize_order_indep`, `split_perm_balances` (ledger level: order
  independent); **store level not**: `iavl_insert_order_matters`, `split_perm_apphash_fails`,
  `genesis_map_order_apphash_fails`.
* `ValidateUnjailMessage`: `unjail_depends_on_now` (false as it is), `unjail_indep_of_now_partial`,
  `unjail_fixed_indep`.
-/
namespace C12
open Determinism

/-- **`block_indep_of_oracles`**: a block whose range sites are order-invariant and whose clock
reads are dead computes the same state under all (legal) oracles. -/
theorem block_indep_of_oracles {σ : Type} (p : Prog σ) (hp : p.OracleFree) (ω ω' : Oracle)
    (hω : ω.IsPerm) (hω' : ω'.IsPerm) (s : σ) : p.run ω s = p.run ω' s := by
  induction p generalizing s with
  | pure f => rfl
  | range site entries body =>
    simp only [Prog.run]
    rw [hp s _ (hω site _ _), hp s _ (hω' site _ _)]
  | clock f => exact hp _ _ s
  | seq p q ihp ihq =>
    simp only [Prog.run]
    rw [ihp hp.1, ihq hp.2]

/-- Lifted to whole histories: the state after every block is the same for all oracles. -/
theorem history_indep_of_oracles {σ : Type} (blocks : List (Prog σ)) (hb : ∀ b ∈ blocks, b.OracleFree)
    (ω ω' : Oracle) (hω : ω.IsPerm) (hω' : ω'.IsPerm) (s : σ) :
    runBlocks ω blocks s = runBlocks ω' blocks s := by
  induction blocks generalizing s with
  | nil => rfl
  | cons b bs ih =>
    simp only [runBlocks]
    rw [block_indep_of_oracles b (hb b (List.mem_cons_self ..)) ω ω' hω hω' s,
      ih (fun x hx => hb x (List.mem_cons_of_mem _ hx))]

/-! ## Per-site lemmas (the shapes of order-independent map ranges found in the code) -/

/-- A loop whose iterations commute pairwise on the entries it ranges over (sums, max, inserting
distinct keys into another map, writing distinct store keys at the content level). -/
theorem site_fold_comm {σ α : Type} (g : σ → α → σ) (l l' : List α) (h : l.Perm l')
    (hc : ∀ x ∈ l, ∀ y ∈ l, ∀ s, g (g s x) y = g (g s y) x) (s : σ) :
    l.foldl g s = l'.foldl g s := h.foldl_eq' hc s

/-- Keys collected from the map and sorted before use. -/
theorem site_sorted_before_use {α : Type} (le : α → α → Bool)
    (htrans : ∀ a b c, le a b = true → le b c = true → le a c = true)
    (htotal : ∀ a b, (le a b || le b a) = true) (l l' : List α)
    (hanti : ∀ a b, a ∈ l → b ∈ l → le a b = true → le b a = true → a = b) (h : l.Perm l') :
    l.mergeSort le = l'.mergeSort le := mergeSort_perm_eq le htrans htotal hanti h

/-- Existence checks (`for … { if cond { return err } }` where every error is mapped to one outcome). -/
theorem site_any {α : Type} (f : α → Bool) (l l' : List α) (h : l.Perm l') : l.any f = l'.any f := h.any_eq

theorem site_all {α : Type} (f : α → Bool) (l l' : List α) (h : l.Perm l') : l.all f = l'.all f := h.all_eq

/-- Filtering / searching a unique match (`for k, v := range m { if k == x { return v } }`). -/
theorem site_lookup {α : Type} (f : α → Bool) (l l' : List α) (h : l.Perm l') :
    (l.filter f).Perm (l'.filter f) := h.filter f

example : Prog.OracleFree (σ := Nat) (.range 7 (fun _ => [1, 2, 3]) (fun l s => l.foldl (· + ·) s)) := by
  intro s l hl
  exact site_fold_comm (· + ·) l [1, 2, 3] hl (fun x _ y _ z => by omega) s

/-! ## Reward delegators -/

variable {A : Type}

/-- `NormalizeRewardDelegators` fails for one iteration order iff it fails for every other. -/
theorem normalize_order_indep {es es' : List (Option A × Nat)} (h : es.Perm es') :
    (normalize es).isSome = (normalize es').isSome := (normalize_perm h).1

/-- **`split_perm_balances`**: whatever order the map range yields the delegators in,
`SplitNodeRewards` fails or succeeds alike, and when it succeeds every account ends up with the
same balance. -/
theorem split_perm_balances [DecidableEq A] (rewards : Int) (primary : A) {es es' : List (Option A × Nat)}
    (h : es.Perm es') :
    (splitNodeRewards rewards primary es).isSome = (splitNodeRewards rewards primary es').isSome ∧
    ∀ ps ps', splitNodeRewards rewards primary es = some ps → splitNodeRewards rewards primary es' = some ps' →
      ∀ bal : A → Int, applyPays bal ps = applyPays bal ps' := by
  unfold splitNodeRewards
  by_cases hr : rewards ≤ 0
  · simp [hr]
  · simp only [if_neg hr, Option.isSome_map]
    obtain ⟨h1, h2⟩ := normalize_perm h
    refine ⟨h1, ?_⟩
    intro ps ps' e1 e2 bal
    cases hn : normalize es with
    | none => simp [hn] at e1
    | some n =>
      cases hn' : normalize es' with
      | none => simp [hn'] at e2
      | some n' =>
        simp only [hn, hn', Option.map_some, Option.some.injEq] at e1 e2
        subst e1; subst e2
        exact applyPays_perm bal (splitPays_perm rewards primary (h2 n n' hn hn'))

example : splitNodeRewards 1000 (9 : Nat) [(some 1, 10), (some 2, 25)] = some [(1, 100), (2, 250), (9, 650)] := by decide

/-- As a range site over the ledger (balances), the reward split is oracle-free. -/
theorem rewardSite_oracleFree [DecidableEq A] (site : Nat) (rewards : Int) (primary : A)
    (dels : (A → Int) → List (Option A × Nat)) :
    Prog.OracleFree (.range site dels (fun l bal =>
      match splitNodeRewards rewards primary l with
      | none => bal
      | some ps => applyPays bal ps)) := by
  intro bal l hl
  obtain ⟨h1, h2⟩ := split_perm_balances rewards primary hl
  cases e1 : splitNodeRewards rewards primary l with
  | none =>
    cases e2 : splitNodeRewards rewards primary (dels bal) with
    | none => simp only [e1, e2]
    | some ps' => simp [e1, e2] at h1
  | some ps =>
    cases e2 : splitNodeRewards rewards primary (dels bal) with
    | none => simp [e1, e2] at h1
    | some ps' => simp only [e1, e2]; exact h2 ps ps' e1 e2 bal

/-! ## Store level: tree shape depends on insertion order -/

open Iavl in
/-- The account tree `{0a, 14, 1e}` (three existing accounts). -/
def t3 : Iavl.Node :=
  (Node.recursiveSet 1 (Node.recursiveSet 1 (Node.leaf [10] [1] 1) [20] [1]).1 [30] [1]).1

/-- **`iavl_insert_order_matters`**: inserting two new keys in the two possible orders gives two
different trees (hence two different root hashes) although the contents are the same. -/
theorem iavl_insert_order_matters :
    ∃ (t : Iavl.Node) (a b : Bytes),
      (Iavl.Node.recursiveSet 2 (Iavl.Node.recursiveSet 2 t a [1]).1 b [1]).1 ≠
      (Iavl.Node.recursiveSet 2 (Iavl.Node.recursiveSet 2 t b [1]).1 a [1]).1 :=
  ⟨t3, [5], [12], by decide⟩

/-- **`split_perm_apphash_fails`**: one reward paid to two delegators whose accounts do not exist
yet: the two iteration orders of the delegator map produce the same balances
(`split_perm_balances`) but different account trees. -/
theorem split_perm_apphash_fails :
    ∃ (t : Iavl.Node) (ps ps' : List (Bytes × Bytes)), ps.Perm ps' ∧ payTree 2 t ps ≠ payTree 2 t ps' :=
  ⟨t3, [([5], [1]), ([12], [1])], [([12], [1]), ([5], [1])], List.Perm.swap .., by decide⟩

/-- The same for `InitGenesis`: signing-info records written in map order. -/
theorem genesis_map_order_apphash_fails :
    ∃ (t : Iavl.Node) (entries entries' : List (Bytes × Bytes)), entries.Perm entries' ∧
      payTree 1 t entries ≠ payTree 1 t entries' :=
  ⟨t3, [([5], [1]), ([12], [1])], [([12], [1]), ([5], [1])], List.Perm.swap .., by decide⟩

/-! ## Unjail and the wall clock -/

/-- **`unjail_depends_on_now`**: `JailedUntil` between a lagging node's clock and the block time. -/
theorem unjail_depends_on_now :
    ∃ blockTime jailedUntil now now' : Int, unjailAsIs now blockTime jailedUntil ≠ unjailAsIs now' blockTime jailedUntil :=
  ⟨100, 100, 99, 101, by decide⟩

/-- The check as it is does not depend on the clock of nodes whose clock is not behind the block
time — the excluded point is exactly a local clock behind the block's timestamp. -/
theorem unjail_indep_of_now_partial (now now' blockTime jailedUntil : Int) (h : blockTime ≤ now) (h' : blockTime ≤ now') :
    unjailAsIs now blockTime jailedUntil = unjailAsIs now' blockTime jailedUntil := by
  unfold unjailAsIs
  by_cases hb : blockTime < jailedUntil
  · simp [hb]
  · have h1 : ¬ jailedUntil > now := by omega
    have h2 : ¬ jailedUntil > now' := by omega
    simp [hb, h1, h2]

/-- On such nodes it equals the repaired check, which has no clock argument at all. -/
theorem unjail_fixed_indep (now blockTime jailedUntil : Int) (h : blockTime ≤ now) :
    unjailAsIs now blockTime jailedUntil = unjailFixed blockTime jailedUntil := by
  unfold unjailAsIs unjailFixed
  by_cases hb : blockTime < jailedUntil
  · simp [hb]
  · have h1 : ¬ jailedUntil > now := by omega
    simp [hb, h1]

/-- As program nodes: the as-is check is not oracle-free, the repaired one is. -/
theorem unjailSite_asis_not_oracleFree :
    ¬ Prog.OracleFree (σ := Bool) (.clock (fun now _ => unjailAsIs now 100 100)) := by
  intro h
  have := h 99 101 true
  revert this
  decide

theorem unjailSite_fixed_oracleFree (blockTime jailedUntil : Int) :
    Prog.OracleFree (σ := Bool) (.clock (fun _ _ => unjailFixed blockTime jailedUntil)) :=
  fun _ _ _ => rfl

end C12
