import Proofs.Ledger.Determinism
/-!
# C12 — Block execution is a deterministic function of chain data

Model: `PocketModel/Ledger/Determinism.lean` (map-iteration order and wall clock as an explicit
`Oracle`), `PocketModel/Store/Iavl.lean` (tree shape).  Lemmas: `Proofs/Ledger/Determinism.lean`.
The model follows the code as it is now (/repo a983e96, 286039a, 5a9379c).

* `block_indep_of_oracles` / `history_indep_of_oracles`: code whose map-range sites are
  order-invariant and whose clock reads do not reach the state computes the same state for all
  oracles — assembled from the per-site lemmas `site_fold_comm`, `site_sorted_before_use`,
  `site_any`, `site_all`, `site_lookup` (each classified site of `checks/facts/C12.expected.json`
  names the lemma that discharges it).
* The three sites that used to be defects are now oracle-free **at store level** (any `pay` /
  `write` function, tree shape included): `normalize_sorted_indep`, `split_order_indep`,
  `rewardSite_oracleFree`, `genesisSite_oracleFree`, `unjailSite_oracleFree`, and together
  `consensus_sites_indep`.
* Last section, *Historical*: the counterexamples for the code before the fixes
  (`historical_…`), kept as regression witnesses of what the harness must detect on a revert.
-/
namespace C12
open Determinism

/-- **`block_indep_of_oracles`**: a block whose range sites are order-invariant and whose clock
reads are dead computes the same state under all (legal) oracles. -/
theorem block_indep_of_oracles {σ : Type} (p : Prog σ) (hp : p.OracleFree) (ω ω' : Oracle)
    (hω : ω.IsPerm) (hω' : ω'.IsPerm) (s : σ) : p.run ω s = p.run ω' s := by
  induction p generalizing s with
  | pure f => rfl
  | range site entries body =>
    simp only [Prog.run]
    rw [hp s _ (hω site _ _), hp s _ (hω' site _ _)]
  | clock f => exact hp _ _ s
  | seq p q ihp ihq =>
    simp only [Prog.run]
    rw [ihp hp.1, ihq hp.2]

/-- Lifted to whole histories: the state after every block is the same for all oracles. -/
theorem history_indep_of_oracles {σ : Type} (blocks : List (Prog σ)) (hb : ∀ b ∈ blocks, b.OracleFree)
    (ω ω' : Oracle) (hω : ω.IsPerm) (hω' : ω'.IsPerm) (s : σ) :
    runBlocks ω blocks s = runBlocks ω' blocks s := by
  induction blocks generalizing s with
  | nil => rfl
  | cons b bs ih =>
    simp only [runBlocks]
    rw [block_indep_of_oracles b (hb b (List.mem_cons_self ..)) ω ω' hω hω' s,
      ih (fun x hx => hb x (List.mem_cons_of_mem _ hx))]

/-! ## Per-site lemmas (the shapes of order-independent map ranges found in the code) -/

/-- A loop whose iterations commute pairwise on the entries it ranges over (sums, max, inserting
distinct keys into another map, writing distinct store keys at the content level). -/
theorem site_fold_comm {σ α : Type} (g : σ → α → σ) (l l' : List α) (h : l.Perm l')
    (hc : ∀ x ∈ l, ∀ y ∈ l, ∀ s, g (g s x) y = g (g s y) x) (s : σ) :
    l.foldl g s = l'.foldl g s := h.foldl_eq' hc s

/-- Keys collected from the map and sorted before use. -/
theorem site_sorted_before_use {α : Type} (le : α → α → Bool)
    (htrans : ∀ a b c, le a b = true → le b c = true → le a c = true)
    (htotal : ∀ a b, (le a b || le b a) = true) (l l' : List α)
    (hanti : ∀ a b, a ∈ l → b ∈ l → le a b = true → le b a = true → a = b) (h : l.Perm l') :
    l.mergeSort le = l'.mergeSort le := mergeSort_perm_eq le htrans htotal hanti h

/-- Existence checks (`for … { if cond { return err } }` where every error is mapped to one outcome). -/
theorem site_any {α : Type} (f : α → Bool) (l l' : List α) (h : l.Perm l') : l.any f = l'.any f := h.any_eq

theorem site_all {α : Type} (f : α → Bool) (l l' : List α) (h : l.Perm l') : l.all f = l'.all f := h.all_eq

/-- Filtering / searching a unique match (`for k, v := range m { if k == x { return v } }`). -/
theorem site_lookup {α : Type} (f : α → Bool) (l l' : List α) (h : l.Perm l') :
    (l.filter f).Perm (l'.filter f) := h.filter f

example : Prog.OracleFree (σ := Nat) (.range 7 (fun _ => [1, 2, 3]) (fun l s => l.foldl (· + ·) s)) := by
  intro s l hl
  exact site_fold_comm (· + ·) l [1, 2, 3] hl (fun x _ y _ z => by omega) s

/-! ## Reward delegators -/

variable {A : Type}

/-- `NormalizeRewardDelegators` fails for one iteration order iff it fails for every other. -/
theorem normalize_order_indep {es es' : List (Option A × Nat)} (h : es.Perm es') :
    (normalize es).isSome = (normalize es').isSome := (normalize_perm h).1

/-- **`split_perm_balances`**: whatever order the map range yields the delegators in,
`SplitNodeRewards` fails or succeeds alike, and when it succeeds every account ends up with the
same balance. -/
theorem split_perm_balances [DecidableEq A] (rewards : Int) (primary : A) {es es' : List (Option A × Nat)}
    (h : es.Perm es') :
    (splitNodeRewards rewards primary es).isSome = (splitNodeRewards rewards primary es').isSome ∧
    ∀ ps ps', splitNodeRewards rewards primary es = some ps → splitNodeRewards rewards primary es' = some ps' →
      ∀ bal : A → Int, applyPays bal ps = applyPays bal ps' := by
  unfold splitNodeRewards
  by_cases hr : rewards ≤ 0
  · simp [hr]
  · simp only [if_neg hr, Option.isSome_map]
    obtain ⟨h1, h2⟩ := normalize_perm h
    refine ⟨h1, ?_⟩
    intro ps ps' e1 e2 bal
    cases hn : normalize es with
    | none => simp [hn] at e1
    | some n =>
      cases hn' : normalize es' with
      | none => simp [hn'] at e2
      | some n' =>
        simp only [hn, hn', Option.map_some, Option.some.injEq] at e1 e2
        subst e1; subst e2
        exact applyPays_perm bal (splitPays_perm rewards primary (h2 n n' hn hn'))

example : splitNodeRewards 1000 (9 : Nat) [(some 1, 10), (some 2, 25)] = some [(1, 100), (2, 250), (9, 650)] := by decide

/-- `NormalizeRewardDelegators` as it is now: the slice handed to `SplitNodeRewards` is the same for
every iteration order (delegator keys decoding to pairwise distinct addresses). -/
theorem normalize_sorted_indep (le : A → A → Bool) (ho : TotalOrder le) {es es' : List (Option A × Nat)}
    (hnd : ((es.filterMap strip).map (·.1)).Nodup) (h : es.Perm es') :
    normalizeSorted le es = normalizeSorted le es' := normalizeSorted_perm_eq le ho hnd h

/-- **`split_order_indep`**: the *sequence* of payments (recipients, amounts, order) made by
`SplitNodeRewards` does not depend on the map iteration order — hence nothing computed from it does:
balances, account-creation order, tree shape, app hash. -/
theorem split_order_indep (le : A → A → Bool) (ho : TotalOrder le) (rewards : Int) (primary : A)
    {es es' : List (Option A × Nat)} (hnd : ((es.filterMap strip).map (·.1)).Nodup) (h : es.Perm es') :
    splitNodeRewardsSorted le rewards primary es = splitNodeRewardsSorted le rewards primary es' :=
  splitNodeRewardsSorted_perm_eq le ho rewards primary hnd h

theorem natLe_totalOrder : TotalOrder (fun a b : Nat => decide (a ≤ b)) :=
  ⟨fun a b c h1 h2 => by simp at *; omega, fun a b => by simp; omega, fun a b h1 h2 => by simp at *; omega⟩

/-- The reward split as a range site is oracle-free **for every way `pay` turns the payment
sequence into state** (in particular for the account tree with its shape). -/
theorem rewardSite_oracleFree {σ : Type} (site : Nat) (le : A → A → Bool) (ho : TotalOrder le) (rewards : Int)
    (primary : A) (delegators : σ → List (Option A × Nat)) (pay : List (A × Int) → σ → σ)
    (hnd : ∀ s, (((delegators s).filterMap strip).map (·.1)).Nodup) :
    (rewardSite site le rewards primary delegators pay).OracleFree := by
  intro s l hl
  have hnd' : ((l.filterMap strip).map (·.1)).Nodup :=
    (((hl.filterMap strip).map (·.1)).nodup_iff).mpr (hnd s)
  simp only [split_order_indep le ho rewards primary hnd' hl]

/-- `InitGenesis` over a genesis map (distinct keys, sorted before the records are written) is
oracle-free for every `write`, tree shape included. -/
theorem genesisSite_oracleFree {σ κ β : Type} (site : Nat) (le : κ → κ → Bool) (ho : TotalOrder le)
    (entries : σ → List (κ × β)) (write : List (κ × β) → σ → σ) (hnd : ∀ s, ((entries s).map (·.1)).Nodup) :
    (genesisSite site le entries write).OracleFree := by
  intro s l hl
  have hnd' : (l.map (·.1)).Nodup := ((hl.map (·.1)).nodup_iff).mpr (hnd s)
  simp only [sortedEntries, sortByKey_perm_eq le ho hnd' hl]

/-- The unjail check contains no clock read: it is ordinary deterministic code. -/
theorem unjailSite_oracleFree {σ : Type} (blockTime jailedUntil : Int) (apply : Bool → σ → σ) :
    (unjailSite blockTime jailedUntil apply).OracleFree := trivial

/-- **`unjail_indep_of_now`**: for all oracles (in particular all wall clocks) the unjail decision
is the same. -/
theorem unjail_indep_of_now {σ : Type} (ω ω' : Oracle) (blockTime jailedUntil : Int) (apply : Bool → σ → σ) (s : σ) :
    (unjailSite blockTime jailedUntil apply).run ω s = (unjailSite blockTime jailedUntil apply).run ω' s := rfl

/-- **`consensus_sites_indep`**: a block made of arbitrary deterministic code, reward splits,
genesis-map writes and unjail checks — at store level — computes the same state for all oracles. -/
theorem consensus_sites_indep {σ κ β : Type} (leA : A → A → Bool) (hA : TotalOrder leA) (leK : κ → κ → Bool)
    (hK : TotalOrder leK) (code₁ code₂ : σ → σ) (rewards : Int) (primary : A)
    (delegators : σ → List (Option A × Nat)) (pay : List (A × Int) → σ → σ)
    (hd : ∀ s, (((delegators s).filterMap strip).map (·.1)).Nodup)
    (entries : σ → List (κ × β)) (write : List (κ × β) → σ → σ) (he : ∀ s, ((entries s).map (·.1)).Nodup)
    (blockTime jailedUntil : Int) (apply : Bool → σ → σ)
    (ω ω' : Oracle) (hω : ω.IsPerm) (hω' : ω'.IsPerm) (s : σ) :
    let block : Prog σ :=
      .seq (genesisSite 1 leK entries write)
        (.seq (.pure code₁)
          (.seq (rewardSite 2 leA rewards primary delegators pay)
            (.seq (unjailSite blockTime jailedUntil apply) (.pure code₂))))
    block.run ω s = block.run ω' s := by
  intro block
  apply block_indep_of_oracles block _ ω ω' hω hω'
  exact ⟨genesisSite_oracleFree 1 leK hK entries write he, trivial,
    rewardSite_oracleFree 2 leA hA rewards primary delegators pay hd, trivial, trivial⟩

/-- Store level, concretely: paying two new delegator accounts through the sorted split gives the
same account tree for both iteration orders (compare `historical_split_perm_apphash_fails`). -/
example :
    (splitNodeRewardsSorted (fun a b : Nat => decide (a ≤ b)) 1000 9 [(some 5, 10), (some 12, 10)]) =
    (splitNodeRewardsSorted (fun a b : Nat => decide (a ≤ b)) 1000 9 [(some 12, 10), (some 5, 10)]) :=
  split_order_indep _ natLe_totalOrder 1000 9 (by decide) (List.Perm.swap ..)

/-! ## Historical: the code before a983e96 / 286039a / 5a9379c

Counterexamples that held of the code as it was (payments in map order, `time.Now()` in
`ValidateUnjailMessage`, `InitGenesis` ranging over the maps directly).  They are about the old
definitions `normalize`, `splitNodeRewards`, `payTree` over an arbitrary order, `unjailAsIs`; the
repeat-run harness reproduces each of them when the corresponding fix is reverted. -/

/-- Ledger level was always order independent: as a range site over balances the *old* split is
oracle-free. -/
theorem historical_rewardSite_balances_oracleFree [DecidableEq A] (site : Nat) (rewards : Int) (primary : A)
    (dels : (A → Int) → List (Option A × Nat)) :
    Prog.OracleFree (.range site dels (fun l bal =>
      match splitNodeRewards rewards primary l with
      | none => bal
      | some ps => applyPays bal ps)) := by
  intro bal l hl
  obtain ⟨h1, h2⟩ := split_perm_balances rewards primary hl
  cases e1 : splitNodeRewards rewards primary l with
  | none =>
    cases e2 : splitNodeRewards rewards primary (dels bal) with
    | none => simp only [e1, e2]
    | some ps' => simp [e1, e2] at h1
  | some ps =>
    cases e2 : splitNodeRewards rewards primary (dels bal) with
    | none => simp [e1, e2] at h1
    | some ps' => simp only [e1, e2]; exact h2 ps ps' e1 e2 bal

open Iavl in
/-- The account tree `{0a, 14, 1e}` (three existing accounts). -/
def t3 : Iavl.Node :=
  (Node.recursiveSet 1 (Node.recursiveSet 1 (Node.leaf [10] [1] 1) [20] [1]).1 [30] [1]).1

/-- Inserting two new keys in the two possible orders gives two different trees (hence two
different root hashes) although the contents are the same — why order had to be fixed. -/
theorem iavl_insert_order_matters :
    ∃ (t : Iavl.Node) (a b : Bytes),
      (Iavl.Node.recursiveSet 2 (Iavl.Node.recursiveSet 2 t a [1]).1 b [1]).1 ≠
      (Iavl.Node.recursiveSet 2 (Iavl.Node.recursiveSet 2 t b [1]).1 a [1]).1 :=
  ⟨t3, [5], [12], by decide⟩

/-- Before a983e96: payments in map order ⇒ same balances, different account trees. -/
theorem historical_split_perm_apphash_fails :
    ∃ (t : Iavl.Node) (ps ps' : List (Bytes × Bytes)), ps.Perm ps' ∧ payTree 2 t ps ≠ payTree 2 t ps' :=
  ⟨t3, [([5], [1]), ([12], [1])], [([12], [1]), ([5], [1])], List.Perm.swap .., by decide⟩

/-- Before 5a9379c: signing-info records written in map order. -/
theorem historical_genesis_map_order_apphash_fails :
    ∃ (t : Iavl.Node) (entries entries' : List (Bytes × Bytes)), entries.Perm entries' ∧
      payTree 1 t entries ≠ payTree 1 t entries' :=
  ⟨t3, [([5], [1]), ([12], [1])], [([12], [1]), ([5], [1])], List.Perm.swap .., by decide⟩

/-- Before 286039a: `JailedUntil` between a lagging node's clock and the block time. -/
theorem historical_unjail_depends_on_now :
    ∃ blockTime jailedUntil now now' : Int, unjailAsIs now blockTime jailedUntil ≠ unjailAsIs now' blockTime jailedUntil :=
  ⟨100, 100, 99, 101, by decide⟩

/-- The old check agreed with the present one on every node whose clock was not behind the block
time: the fix changed no outcome on such nodes. -/
theorem historical_unjail_fixed_agrees (now blockTime jailedUntil : Int) (h : blockTime ≤ now) :
    unjailAsIs now blockTime jailedUntil = unjailFixed blockTime jailedUntil := by
  unfold unjailAsIs unjailFixed
  by_cases hb : blockTime < jailedUntil
  · simp [hb]
  · have h1 : ¬ jailedUntil > now := by omega
    simp [hb, h1]

theorem historical_unjailSite_not_oracleFree :
    ¬ Prog.OracleFree (σ := Bool) (.clock (fun now _ => unjailAsIs now 100 100)) := by
  intro h
  have := h 99 101 true
  revert this
  decide

end C12
