import Proofs.Store.MultiDisk
/-!
# C08 — Rolling back to a height restores exactly that height's state

Model: `PocketModel/Store/NodeDB.lean` — `deleteNodesFrom`, `deleteVersionsFrom`,
`loadVersionForOverwriting` (= `iavl.Store.Rollback`), `rollbackMS` (= `rootmulti.RollbackVersion`).
`H` is `tmhash.Sum` (parameter); `S` is the universe of nodes of the history and `Inj H S` says that
no two of them collide.  A history is the list `rs` of working trees saved as versions `1, 2, …`
(`GoodSteps`: what the IAVL algorithm guarantees about consecutive trees, see C03).

The setting of every theorem: the store saved `rs`; a *fresh* store object is loaded at the latest
version (as `RollbackVersion` does) and rolled back to `h` with `1 ≤ h < |rs|`.
-/
namespace C08
open NodeDB Amino

variable (H : Bytes → Bytes)

/-- The situation after a rollback to `h`. -/
structure RolledBack (rs : List (Option Tree)) (h : Nat) where
  live : MTree          -- the store that saved `rs`
  fresh : MTree         -- a new object loaded at the latest version
  back : MTree          -- after `LoadVersionForOverwriting(h)`
  hlive : runSaves H (MTree.new {}) rs = some live
  hfresh : loadStore live.db rs.length = some fresh
  hback : loadVersionForOverwriting fresh h = some (back, (h : Int))

/-- The rollback always succeeds, and what it leaves is a good store for the first `h` versions. -/
theorem rollback_succeeds (hH : HashOK H) (S : Tree → Prop) (hi : Inj H S) (rs : List (Option Tree))
    (hg : GoodSteps S 0 none rs) (h : Nat) (h1 : 1 ≤ h) (hh : h < rs.length) :
    ∃ rb : RolledBack H rs h, GoodTree H S (rs.take h) rb.back ∧ HistOK S rs ∧ GoodDisk H S rs rb.live.db ∧
      histAt rs h = some rb.back.root := by
  obtain ⟨t, hrun, g, hok⟩ := runSaves_good hH hi rs [] (MTree.new {}) (goodTree_fresh S) (histOK_nil S)
    (by simpa [lastOf] using hg)
  simp only [List.nil_append] at g hok
  have hl1 : 1 ≤ (rs.length : Int) := by omega
  obtain ⟨r', hr', hl⟩ := loadVersion_at hH (t0 := MTree.new t.db) g.disk hok rs.length rs.length hl1 (by omega) (Or.inl rfl)
  let m0 : MTree := { version := rs.length, root := r', lastSaved := r', versions := loadedVersions (MTree.new t.db),
                      ndbLatest := 0, persistedTo := rs.length, db := t.db }
  have hfresh : loadStore t.db rs.length = some m0 := by
    simp only [loadStore, hl, Option.map_some]; rfl
  obtain ⟨t', r, hb, hr, hroot, gt⟩ := rollback_store_good hH hi (t := m0) g.disk hok rfl h h1 hh
  exact ⟨⟨t, _, t', hrun, hfresh, hb⟩, gt, hok, g.disk, by rw [hr, hroot]⟩

/-- **Restores**: the rolled-back store is positioned on version `h` holding exactly the tree (hence
the contents and the root hash) committed at `h`; a new store object opened on the disk afterwards
(`LoadVersion(0)`, i.e. "latest") sees version `h` with that same tree. -/
theorem rollback_restores (hH : HashOK H) (S : Tree → Prop) (hi : Inj H S) (rs : List (Option Tree))
    (hg : GoodSteps S 0 none rs) (h : Nat) (h1 : 1 ≤ h) (hh : h < rs.length) :
    ∃ (rb : RolledBack H rs h) (r : Option Tree), histAt rs h = some r ∧ rb.back.version = h ∧ rb.back.root = r ∧
      ∃ m, loadStore rb.back.db 0 = some m ∧ m.version = h ∧ m.root = r ∧
        toListOpt m.root = toListOpt r ∧ hashOpt H m.root = hashOpt H r := by
  obtain ⟨rb, gt, hok, _, hr⟩ := rollback_succeeds H hH S hi rs hg h h1 hh
  have hok' : HistOK S (rs.take h) :=
    ⟨fun ot hot => hok.inS ot (List.mem_of_mem_take hot), fun ot hot => hok.wf ot (List.mem_of_mem_take hot),
     fun i t hi' => by
       rw [List.getElem?_take] at hi'
       split at hi'
       · exact hok.vbound i t hi'
       · cases hi'⟩
  have hlen : (rs.take h).length = h := by simp; omega
  have hv := gt.version; rw [hlen] at hv
  obtain ⟨r', hr', hl⟩ := loadVersion_at hH (t0 := MTree.new rb.back.db) gt.disk hok' 0 h (by omega) (by rw [hlen]; omega)
    (Or.inr ⟨rfl, by rw [hlen]⟩)
  have e : r' = rb.back.root := by
    rw [histAt_take] at hr'
    simp only [Int.le_refl, if_true] at hr'
    rw [hr] at hr'; cases hr'; rfl
  refine ⟨rb, rb.back.root, hr, hv, rfl, ?_⟩
  simp only [loadStore, hl, Option.map_some]
  exact ⟨_, rfl, rfl, e, by rw [e], by rw [e]⟩

/-- **Hides later versions**: no version above `h` can be read any more — neither eagerly
(`LoadVersion(v)` errors) nor lazily (`GetImmutable(v)`: "version does not exist"). -/
theorem rollback_hides_later (hH : HashOK H) (S : Tree → Prop) (hi : Inj H S) (rs : List (Option Tree))
    (hg : GoodSteps S 0 none rs) (h : Nat) (h1 : 1 ≤ h) (hh : h < rs.length) :
    ∃ rb : RolledBack H rs h, ∀ v : Int, (h : Int) < v →
      getImmutable rb.back.db v = none ∧ loadStore rb.back.db v = none := by
  obtain ⟨rb, gt, hok, _, hr⟩ := rollback_succeeds H hH S hi rs hg h h1 hh
  have hok' : HistOK S (rs.take h) :=
    ⟨fun ot hot => hok.inS ot (List.mem_of_mem_take hot), fun ot hot => hok.wf ot (List.mem_of_mem_take hot),
     fun i t hi' => by
       rw [List.getElem?_take] at hi'
       split at hi'
       · exact hok.vbound i t hi'
       · cases hi'⟩
  have hlen : (rs.take h).length = h := by simp; omega
  refine ⟨rb, fun v hv => ⟨?_, ?_⟩⟩
  · rw [getImmutable_good hH gt.disk hok', histAt_take]
    simp; omega
  · have hne : rs.take h ≠ [] := by
      intro e; rw [e] at hlen; simp at hlen; omega
    simp [loadStore, loadVersion_beyond (t0 := MTree.new rb.back.db) gt.disk hne v (by rw [hlen]; exact hv)]

/-- **Keeps earlier versions**: every version `v ≤ h` still reads back as the tree that was
committed at `v` (same contents, same root hash) — no node of an earlier version is deleted. -/
theorem rollback_keeps_earlier (hH : HashOK H) (S : Tree → Prop) (hi : Inj H S) (rs : List (Option Tree))
    (hg : GoodSteps S 0 none rs) (h : Nat) (h1 : 1 ≤ h) (hh : h < rs.length) :
    ∃ rb : RolledBack H rs h, ∀ v : Int, v ≤ h →
      getImmutable rb.back.db v = histAt rs v ∧ getImmutable rb.back.db v = getImmutable rb.live.db v := by
  obtain ⟨rb, gt, hok, gd, hr⟩ := rollback_succeeds H hH S hi rs hg h h1 hh
  have hok' : HistOK S (rs.take h) :=
    ⟨fun ot hot => hok.inS ot (List.mem_of_mem_take hot), fun ot hot => hok.wf ot (List.mem_of_mem_take hot),
     fun i t hi' => by
       rw [List.getElem?_take] at hi'
       split at hi'
       · exact hok.vbound i t hi'
       · cases hi'⟩
  refine ⟨rb, fun v hv => ?_⟩
  have e : getImmutable rb.back.db v = histAt rs v := by
    rw [getImmutable_good hH gt.disk hok', histAt_take]; simp [hv]
  exact ⟨e, by rw [e, getImmutable_good hH gd hok]⟩

/-- **Replay reproduces the original hashes**: re-applying the blocks `h+1 …` to the rolled-back store
saves the same versions with the same root hashes (the root records of the two disks agree at every
version), and every version reads back as in the original run. -/
theorem rollback_replay_hashes (hH : HashOK H) (S : Tree → Prop) (hi : Inj H S) (rs : List (Option Tree))
    (hg : GoodSteps S 0 none rs) (h : Nat) (h1 : 1 ≤ h) (hh : h < rs.length) :
    ∃ (rb : RolledBack H rs h) (again : MTree), runSaves H rb.back (rs.drop h) = some again ∧
      ∀ v : Int, aget v again.db.roots = aget v rb.live.db.roots ∧ getImmutable again.db v = getImmutable rb.live.db v := by
  obtain ⟨rb, gt, hok, gd, hr⟩ := rollback_succeeds H hH S hi rs hg h h1 hh
  have hok' : HistOK S (rs.take h) :=
    ⟨fun ot hot => hok.inS ot (List.mem_of_mem_take hot), fun ot hot => hok.wf ot (List.mem_of_mem_take hot),
     fun i t hi' => by
       rw [List.getElem?_take] at hi'
       split at hi'
       · exact hok.vbound i t hi'
       · cases hi'⟩
  have hlen : (rs.take h).length = h := by simp; omega
  have hsplit := GoodSteps.split (rs.take h) (rs.drop h) 0 none (by rw [List.take_append_drop]; exact hg)
  have hne : rs.take h ≠ [] := by
    intro e; rw [e] at hlen; simp at hlen; omega
  have hs2 : GoodSteps S (rs.take h).length (lastOf (rs.take h)) (rs.drop h) := by
    have := hsplit.2
    simpa [hne] using this
  obtain ⟨again, hrun, g2, hok2⟩ := runSaves_good hH hi (rs.drop h) (rs.take h) rb.back gt hok' hs2
  rw [List.take_append_drop] at g2 hok2
  refine ⟨rb, again, hrun, fun v => ⟨?_, ?_⟩⟩
  · rw [g2.disk.roots, gd.roots]
  · rw [getImmutable_good hH g2.disk hok2, getImmutable_good hH gd hok]

/-! ## The whole multistore (`rootmulti.RollbackVersion`)

`blocks`: any legal block history on a fresh DB (`GoodBlocks`), committed with arbitrary iteration
orders; `s` the running store afterwards, `ids` the commit ids it reported.  A fresh store object
rolls the disk back to `h`, `1 ≤ h < |blocks|`. -/

/-- **The node rolled back to `h` is the node at height `h`.**  `RollbackVersion(h)` succeeds; a new
store object then reports as `LastCommitID` the id committed at `h` and holds in every substore the
tree saved at `h`; every version `v ≤ h` loads with its original commit id and trees; no version above
`h` loads; and re-applying the blocks `h+1 …` (again with arbitrary iteration orders) reports exactly
the original commit ids. -/
theorem rollback_multistore (hH : HashOK H) (S : Tree → Prop) (hi : Inj H S) (names : List RootMulti.Name)
    (hnd : names.Nodup) (blocks : List (List RootMulti.Name × (RootMulti.Name → Option Tree)))
    (hb : GoodBlocks S names (fun _ => []) 0 blocks) (h : Nat) (h1 : 1 ≤ h) (hh : h < blocks.length)
    (orders' : List (List RootMulti.Name)) (ho' : orders'.length = blocks.length - h)
    (hord : ∀ o ∈ orders', IsOrder names o) :
    ∃ s0 s ids back, openMS H (freshDisk names) names = some s0 ∧
      runMS H s0 (blocks.map fun b => (b.1, fullBlock names b.2)) = some (s, ids) ∧
      rollbackMS s.disk names h = some back ∧
      -- restores
      (∃ m, openMS H back.disk names = some m ∧ some m.lastCommitID = ids[h - 1]? ∧
        (∀ n ∈ names, ∃ t, aget n m.stores = some t ∧ t.version = h ∧
          some t.root = histAt (histsAfter (fun _ => []) blocks n) h) ∧
        -- replay
        ∃ again ids', runMS H m (((blocks.drop h).zip orders').map fun b => (b.2, fullBlock names b.1.2)) = some (again, ids') ∧
          ids' = ids.drop h) ∧
      -- keeps earlier
      (∀ v : Int, 1 ≤ v → v ≤ h → ∃ m₁ m₂, loadMS H back.disk names v = some m₁ ∧ loadMS H s.disk names v = some m₂ ∧
        m₁.lastCommitID = m₂.lastCommitID ∧
        ∀ n ∈ names, ∃ t₁ t₂, aget n m₁.stores = some t₁ ∧ aget n m₂.stores = some t₂ ∧
          t₁.version = t₂.version ∧ t₁.root = t₂.root) ∧
      -- hides later
      (∀ v : Int, (h : Int) < v → loadMS H back.disk names v = none) := by
  obtain ⟨s0, h0, g0⟩ := openMS_fresh_good hH S hi names hnd
  obtain ⟨s, hrun, g⟩ := runMS_canon hH hi blocks _ 0 s0 g0 hb
  simp only [Nat.zero_add] at g
  have gd := g.disk
  have hl : ∀ n ∈ names, (histsAfter (fun _ => []) blocks n).length = blocks.length :=
    fun n hn => by obtain ⟨_, _, _, _, e⟩ := g.tree n hn; exact e
  obtain ⟨back, hback, gb, hkeepci⟩ := rollbackMS_good hH hi gd hl h h1 hh
  refine ⟨s0, s, _, back, h0, hrun, hback, ?_, ?_, ?_⟩
  · -- reopen
    obtain ⟨ci, hci, hopen⟩ := openMS_good hH gb h1
    have hcanon : (canonIds (H := H) names 0 blocks)[h - 1]? = some (ci.commitID H) := by
      -- the id reported at height h is the id of the commit info of h
      obtain ⟨s2, ids2, hrun2, _, _, hids⟩ := runMS_ids hH hi blocks _ 0 s0 g0 hb
      rw [hrun] at hrun2; cases hrun2
      have hlen2 : (canonIds (H := H) names 0 blocks).length = blocks.length := by
        obtain ⟨_, ids3, hrun3, _, hl3⟩ := runMS_good hH hi blocks _ 0 s0 g0 hb
        rw [hrun] at hrun3; cases hrun3; exact hl3
      have hlt : h - 1 < (canonIds (H := H) names 0 blocks).length := by omega
      have := hids (h - 1) _ (List.getElem?_eq_getElem hlt)
      have e : ((0 : Nat) : Int) + ((h - 1 : Nat) : Int) + 1 = (h : Int) := by omega
      rw [e] at this
      have hci2 : aget (h : Int) s.cinfos = some ci := by
        have := hkeepci h (by omega)
        rw [hci] at this; exact this.symm
      rw [hci2] at this
      simp only [Option.map_some, Option.some.injEq] at this
      rw [List.getElem?_eq_getElem hlt, this]
    refine ⟨_, hopen, hcanon.symm, ?_, ?_⟩
    · intro n hn
      refine ⟨recovered (back.disk.storeDB n) h ((histAt ((histsAfter (fun _ => []) blocks n).take h) h).getD none), ?_, rfl, ?_⟩
      · rw [aget_map_names (fun n => recovered (back.disk.storeDB n) h ((histAt ((histsAfter (fun _ => []) blocks n).take h) h).getD none)) names n, if_pos hn]
      · simp only [recovered]
        rw [histAt_take]
        simp only [Int.le_refl, if_true]
        obtain ⟨r, hr⟩ := Option.isSome_iff_exists.mp ((histAt_some_iff (histsAfter (fun _ => []) blocks n) h).mpr ⟨by omega, by rw [hl n hn]; omega⟩)
        rw [hr]; rfl
    · -- the reopened store is a good multistore for the first h blocks: replay
      have hsplit := GoodBlocks.split (blocks.take h) (blocks.drop h) (fun _ => []) 0 (by rw [List.take_append_drop]; exact hb)
      have hlt : (blocks.take h).length = h := by simp; omega
      have htake : ∀ n, histsAfter (fun _ => []) (blocks.take h) n = (histsAfter (fun _ => []) blocks n).take h := by
        intro n
        have := histsAfter_take blocks n (fun _ => []) h (by omega)
        simpa using this
      have gm : GoodMS H S names (fun n => (histsAfter (fun _ => []) blocks n).take h) h
          ⟨ci.commitID H, names.map (fun n => (n, recovered (back.disk.storeDB n) h ((histAt ((histsAfter (fun _ => []) blocks n).take h) h).getD none))), back.disk.cinfos, back.disk.latest⟩ := by
        refine ⟨hnd, by simp [List.map_map, Function.comp_def], ?_, gb.recs, ?_⟩
        · intro n hn
          obtain ⟨gdn, hokn, _⟩ := gb.store n hn
          have hlen' : ((histsAfter (fun _ => []) blocks n).take h).length = h := by simp [hl n hn]; omega
          have hne : (histsAfter (fun _ => []) blocks n).take h ≠ [] := by
            intro e; rw [e] at hlen'; simp at hlen'; omega
          obtain ⟨r, hr, _, hlast, gt⟩ := recover_before hH hi gdn hokn hne
          rw [hlen'] at hr gt
          refine ⟨recovered (back.disk.storeDB n) h ((histAt ((histsAfter (fun _ => []) blocks n).take h) h).getD none), ?_, ?_, hokn, hlen'⟩
          · rw [aget_map_names (fun n => recovered (back.disk.storeDB n) h ((histAt ((histsAfter (fun _ => []) blocks n).take h) h).getD none)) names n, if_pos hn]
          · rw [hr]; exact gt
        · have : ¬ h = 0 := by omega
          simp [this, hci]
      have hblocks : GoodBlocks S names (fun n => (histsAfter (fun _ => []) blocks n).take h) h (blocks.drop h) := by
        have := hsplit.2
        rw [hlt] at this
        simp only [Nat.zero_add] at this
        have e : histsAfter (fun _ => []) (blocks.take h) = fun n => (histsAfter (fun _ => []) blocks n).take h := funext htake
        rw [e] at this; exact this
      -- change the iteration orders
      have reorder : ∀ (bl : List (List RootMulti.Name × (RootMulti.Name → Option Tree))) (os : List (List RootMulti.Name))
          (hs : RootMulti.Name → List (Option Tree)) (k : Nat), os.length = bl.length → (∀ o ∈ os, IsOrder names o) →
          GoodBlocks S names hs k bl → GoodBlocks S names hs k ((bl.zip os).map fun b => (b.2, b.1.2)) ∧
            canonIds (H := H) names k ((bl.zip os).map fun b => (b.2, b.1.2)) = canonIds (H := H) names k bl := by
        intro bl
        induction bl with
        | nil => intro os hs k _ _ _; exact ⟨trivial, rfl⟩
        | cons b bl ih =>
          intro os hs k hlen hos hg
          obtain ⟨o, nx⟩ := b
          cases os with
          | nil => simp at hlen
          | cons o' os =>
            obtain ⟨_, h2, h3⟩ := hg
            obtain ⟨i1, i2⟩ := ih os _ _ (by simpa using hlen) (fun x hx => hos x (List.mem_cons_of_mem _ hx)) h3
            exact ⟨⟨hos o' List.mem_cons_self, h2, i1⟩, by simp only [List.zip_cons_cons, List.map_cons, canonIds, i2]⟩
      have hlo : orders'.length = (blocks.drop h).length := by simp [ho']
      obtain ⟨gb2, hcan2⟩ := reorder (blocks.drop h) orders' _ h hlo hord hblocks
      obtain ⟨again, hrun3, _⟩ := runMS_canon hH hi _ _ h _ gm gb2
      refine ⟨again, canonIds (H := H) names h (((blocks.drop h).zip orders').map fun b => (b.2, b.1.2)), ?_, ?_⟩
      · simpa [List.map_map, Function.comp_def] using hrun3
      · rw [hcan2]
        have := canonIds_append (H := H) names (blocks.take h) (blocks.drop h) 0
        rw [List.take_append_drop, hlt, Nat.zero_add] at this
        rw [this]
        have hl5 : (canonIds (H := H) names 0 (blocks.take h)).length = h := by
          have key : ∀ (l : List (List RootMulti.Name × (RootMulti.Name → Option Tree))) (k : Nat), (canonIds (H := H) names k l).length = l.length := by
            intro l; induction l with
            | nil => intro k; rfl
            | cons b l ih => intro k; obtain ⟨o, nx⟩ := b; simp [canonIds, ih]
          rw [key, hlt]
        exact (List.drop_left' hl5).symm
  · intro v hv1 hv2
    obtain ⟨ci₁, hci₁, _, hl₁⟩ := loadMS_good hH gb v hv1 hv2
    obtain ⟨ci₂, hci₂, _, hl₂⟩ := loadMS_good hH gd v hv1 (by omega)
    have : ci₁ = ci₂ := by
      have := hkeepci v hv2
      have hcs : s.disk.cinfos = s.cinfos := rfl
      rw [hci₁, hcs] at this
      rw [hcs, ← this] at hci₂; cases hci₂; rfl
    subst this
    refine ⟨_, _, hl₁, hl₂, rfl, ?_⟩
    intro n hn
    refine ⟨recovered (back.disk.storeDB n) v ((histAt ((histsAfter (fun _ => []) blocks n).take h) v).getD none),
            recovered (s.disk.storeDB n) v ((histAt (histsAfter (fun _ => []) blocks n) v).getD none), ?_, ?_, rfl, ?_⟩
    · rw [aget_map_names (fun n => recovered (back.disk.storeDB n) v ((histAt ((histsAfter (fun _ => []) blocks n).take h) v).getD none)) names n, if_pos hn]
    · rw [aget_map_names (fun n => recovered (s.disk.storeDB n) v ((histAt (histsAfter (fun _ => []) blocks n) v).getD none)) names n, if_pos hn]
    · simp only [recovered]
      rw [histAt_take]; simp [hv2]
  · intro v hv
    exact loadMS_none gb v (by omega) (by omega)

/-! ## Non-vacuity: a three-version history over `H = id`, rolled back to 1 and to 2 -/
private def l1 : Tree := .leaf [1] [10] 1
private def l2 : Tree := .leaf [2] [20] 2
private def t2 : Tree := .inner [2] 1 2 2 l1 l2
private def l1' : Tree := .leaf [1] [11] 3
private def t3 : Tree := .inner [2] 1 2 3 l1' l2
private def rs3 : List (Option Tree) := [some l1, some t2, some t3]
example : GoodSteps (fun s => s ∈ [l1, l2, t2, l1', t3]) 0 none rs3 := by
  refine ⟨⟨?_, ?_, ?_, ?_⟩, ⟨?_, ?_, ?_, ?_⟩, ⟨?_, ?_, ?_, ?_⟩, trivial⟩ <;>
    simp [subtreesOpt, Tree.subtrees, l1, l2, t2, l1', t3, Tree.version, Tree.WF, Tree.height, isInt8, isInt64]
example : (runSaves id (MTree.new {}) rs3).isSome := by decide
example : ((runSaves id (MTree.new {}) rs3).bind fun t => (loadStore t.db 3).bind fun m =>
    (loadVersionForOverwriting m 1).map fun r => (r.2, toListOpt r.1.root, r.1.db.roots.map (·.1))) =
    some (1, [([1], [10])], [1]) := by decide

/-- Multistore level: two substores, three blocks with different iteration orders, rolled back to 1;
reopening shows height 1 and replaying blocks 2, 3 (in yet other orders) reproduces the commit ids. -/
private def nA : RootMulti.Name := [97]
private def nB : RootMulti.Name := [98]
private def b1 : RootMulti.Name → Option Tree := fun n => if n = nA then some l1 else none
private def b2 : RootMulti.Name → Option Tree := fun n => if n = nA then some t2 else none
private def b3 : RootMulti.Name → Option Tree := fun n => if n = nA then some t3 else some (.leaf [7] [7] 3)
example :
    ((openMS id (freshDisk [nA, nB]) [nA, nB]).bind fun s0 =>
      (runMS id s0 [([nA, nB], fullBlock [nA, nB] b1), ([nB, nA], fullBlock [nA, nB] b2), ([nA, nB], fullBlock [nA, nB] b3)]).bind fun r =>
        (rollbackMS r.1.disk [nA, nB] 1).bind fun back =>
          (openMS id back.disk [nA, nB]).bind fun m =>
            (runMS id m [([nA, nB], fullBlock [nA, nB] b2), ([nB, nA], fullBlock [nA, nB] b3)]).map fun r' =>
              (m.lastCommitID.version, decide (some m.lastCommitID = r.2[0]?), decide (r'.2 = r.2.drop 1),
               (loadMS id back.disk [nA, nB] 2).isNone)) = some (1, true, true, true) := by decide

end C08
