import Proofs.Store.NodeDBRollback
/-!
# C08 — Rolling back to a height restores exactly that height's state

Model: `PocketModel/Store/NodeDB.lean` — `deleteNodesFrom`, `deleteVersionsFrom`,
`loadVersionForOverwriting` (= `iavl.Store.Rollback`), `rollbackMS` (= `rootmulti.RollbackVersion`).
`H` is `tmhash.Sum` (parameter); `S` is the universe of nodes of the history and `Inj H S` says that
no two of them collide.  A history is the list `rs` of working trees saved as versions `1, 2, …`
(`GoodSteps`: what the IAVL algorithm guarantees about consecutive trees, see C03).

The setting of every theorem: the store saved `rs`; a *fresh* store object is loaded at the latest
version (as `RollbackVersion` does) and rolled back to `h` with `1 ≤ h < |rs|`.
-/
namespace C08
open NodeDB Amino

variable (H : Bytes → Bytes)

/-- The situation after a rollback to `h`. -/
structure RolledBack (rs : List (Option Tree)) (h : Nat) where
  live : MTree          -- the store that saved `rs`
  fresh : MTree         -- a new object loaded at the latest version
  back : MTree          -- after `LoadVersionForOverwriting(h)`
  hlive : runSaves H (MTree.new {}) rs = some live
  hfresh : loadStore live.db rs.length = some fresh
  hback : loadVersionForOverwriting fresh h = some (back, (h : Int))

/-- The rollback always succeeds, and what it leaves is a good store for the first `h` versions. -/
theorem rollback_succeeds (hH : HashOK H) (S : Tree → Prop) (hi : Inj H S) (rs : List (Option Tree))
    (hg : GoodSteps S 0 none rs) (h : Nat) (h1 : 1 ≤ h) (hh : h < rs.length) :
    ∃ rb : RolledBack H rs h, GoodTree H S (rs.take h) rb.back ∧ HistOK S rs ∧ GoodDisk H S rs rb.live.db ∧
      histAt rs h = some rb.back.root := by
  obtain ⟨t, hrun, g, hok⟩ := runSaves_good hH hi rs [] (MTree.new {}) (goodTree_fresh S) (histOK_nil S)
    (by simpa [lastOf] using hg)
  simp only [List.nil_append] at g hok
  have hl1 : 1 ≤ (rs.length : Int) := by omega
  obtain ⟨r', hr', hl⟩ := loadVersion_at hH (t0 := MTree.new t.db) g.disk hok rs.length rs.length hl1 (by omega) (Or.inl rfl)
  let m0 : MTree := { version := rs.length, root := r', lastSaved := r', versions := loadedVersions (MTree.new t.db),
                      ndbLatest := 0, persistedTo := rs.length, db := t.db }
  have hfresh : loadStore t.db rs.length = some m0 := by
    simp only [loadStore, hl, Option.map_some]; rfl
  obtain ⟨t', r, hb, hr, hroot, gt⟩ := rollback_store_good hH hi (t := m0) g.disk hok rfl h h1 hh
  exact ⟨⟨t, _, t', hrun, hfresh, hb⟩, gt, hok, g.disk, by rw [hr, hroot]⟩

/-- **Restores**: the rolled-back store is positioned on version `h` holding exactly the tree (hence
the contents and the root hash) committed at `h`; a new store object opened on the disk afterwards
(`LoadVersion(0)`, i.e. "latest") sees version `h` with that same tree. -/
theorem rollback_restores (hH : HashOK H) (S : Tree → Prop) (hi : Inj H S) (rs : List (Option Tree))
    (hg : GoodSteps S 0 none rs) (h : Nat) (h1 : 1 ≤ h) (hh : h < rs.length) :
    ∃ (rb : RolledBack H rs h) (r : Option Tree), histAt rs h = some r ∧ rb.back.version = h ∧ rb.back.root = r ∧
      ∃ m, loadStore rb.back.db 0 = some m ∧ m.version = h ∧ m.root = r ∧
        toListOpt m.root = toListOpt r ∧ hashOpt H m.root = hashOpt H r := by
  obtain ⟨rb, gt, hok, _, hr⟩ := rollback_succeeds H hH S hi rs hg h h1 hh
  have hok' : HistOK S (rs.take h) :=
    ⟨fun ot hot => hok.inS ot (List.mem_of_mem_take hot), fun ot hot => hok.wf ot (List.mem_of_mem_take hot),
     fun i t hi' => by
       rw [List.getElem?_take] at hi'
       split at hi'
       · exact hok.vbound i t hi'
       · cases hi'⟩
  have hlen : (rs.take h).length = h := by simp; omega
  have hv := gt.version; rw [hlen] at hv
  obtain ⟨r', hr', hl⟩ := loadVersion_at hH (t0 := MTree.new rb.back.db) gt.disk hok' 0 h (by omega) (by rw [hlen]; omega)
    (Or.inr ⟨rfl, by rw [hlen]⟩)
  have e : r' = rb.back.root := by
    rw [histAt_take] at hr'
    simp only [Int.le_refl, if_true] at hr'
    rw [hr] at hr'; cases hr'; rfl
  refine ⟨rb, rb.back.root, hr, hv, rfl, ?_⟩
  simp only [loadStore, hl, Option.map_some]
  exact ⟨_, rfl, rfl, e, by rw [e], by rw [e]⟩

/-- **Hides later versions**: no version above `h` can be read any more — neither eagerly
(`LoadVersion(v)` errors) nor lazily (`GetImmutable(v)`: "version does not exist"). -/
theorem rollback_hides_later (hH : HashOK H) (S : Tree → Prop) (hi : Inj H S) (rs : List (Option Tree))
    (hg : GoodSteps S 0 none rs) (h : Nat) (h1 : 1 ≤ h) (hh : h < rs.length) :
    ∃ rb : RolledBack H rs h, ∀ v : Int, (h : Int) < v →
      getImmutable rb.back.db v = none ∧ loadStore rb.back.db v = none := by
  obtain ⟨rb, gt, hok, _, hr⟩ := rollback_succeeds H hH S hi rs hg h h1 hh
  have hok' : HistOK S (rs.take h) :=
    ⟨fun ot hot => hok.inS ot (List.mem_of_mem_take hot), fun ot hot => hok.wf ot (List.mem_of_mem_take hot),
     fun i t hi' => by
       rw [List.getElem?_take] at hi'
       split at hi'
       · exact hok.vbound i t hi'
       · cases hi'⟩
  have hlen : (rs.take h).length = h := by simp; omega
  refine ⟨rb, fun v hv => ⟨?_, ?_⟩⟩
  · rw [getImmutable_good hH gt.disk hok', histAt_take]
    simp; omega
  · have hne : rs.take h ≠ [] := by
      intro e; rw [e] at hlen; simp at hlen; omega
    simp [loadStore, loadVersion_beyond (t0 := MTree.new rb.back.db) gt.disk hne v (by rw [hlen]; exact hv)]

/-- **Keeps earlier versions**: every version `v ≤ h` still reads back as the tree that was
committed at `v` (same contents, same root hash) — no node of an earlier version is deleted. -/
theorem rollback_keeps_earlier (hH : HashOK H) (S : Tree → Prop) (hi : Inj H S) (rs : List (Option Tree))
    (hg : GoodSteps S 0 none rs) (h : Nat) (h1 : 1 ≤ h) (hh : h < rs.length) :
    ∃ rb : RolledBack H rs h, ∀ v : Int, v ≤ h →
      getImmutable rb.back.db v = histAt rs v ∧ getImmutable rb.back.db v = getImmutable rb.live.db v := by
  obtain ⟨rb, gt, hok, gd, hr⟩ := rollback_succeeds H hH S hi rs hg h h1 hh
  have hok' : HistOK S (rs.take h) :=
    ⟨fun ot hot => hok.inS ot (List.mem_of_mem_take hot), fun ot hot => hok.wf ot (List.mem_of_mem_take hot),
     fun i t hi' => by
       rw [List.getElem?_take] at hi'
       split at hi'
       · exact hok.vbound i t hi'
       · cases hi'⟩
  refine ⟨rb, fun v hv => ?_⟩
  have e : getImmutable rb.back.db v = histAt rs v := by
    rw [getImmutable_good hH gt.disk hok', histAt_take]; simp [hv]
  exact ⟨e, by rw [e, getImmutable_good hH gd hok]⟩

/-- **Replay reproduces the original hashes**: re-applying the blocks `h+1 …` to the rolled-back store
saves the same versions with the same root hashes (the root records of the two disks agree at every
version), and every version reads back as in the original run. -/
theorem rollback_replay_hashes (hH : HashOK H) (S : Tree → Prop) (hi : Inj H S) (rs : List (Option Tree))
    (hg : GoodSteps S 0 none rs) (h : Nat) (h1 : 1 ≤ h) (hh : h < rs.length) :
    ∃ (rb : RolledBack H rs h) (again : MTree), runSaves H rb.back (rs.drop h) = some again ∧
      ∀ v : Int, aget v again.db.roots = aget v rb.live.db.roots ∧ getImmutable again.db v = getImmutable rb.live.db v := by
  obtain ⟨rb, gt, hok, gd, hr⟩ := rollback_succeeds H hH S hi rs hg h h1 hh
  have hok' : HistOK S (rs.take h) :=
    ⟨fun ot hot => hok.inS ot (List.mem_of_mem_take hot), fun ot hot => hok.wf ot (List.mem_of_mem_take hot),
     fun i t hi' => by
       rw [List.getElem?_take] at hi'
       split at hi'
       · exact hok.vbound i t hi'
       · cases hi'⟩
  have hlen : (rs.take h).length = h := by simp; omega
  have hsplit := GoodSteps.split (rs.take h) (rs.drop h) 0 none (by rw [List.take_append_drop]; exact hg)
  have hne : rs.take h ≠ [] := by
    intro e; rw [e] at hlen; simp at hlen; omega
  have hs2 : GoodSteps S (rs.take h).length (lastOf (rs.take h)) (rs.drop h) := by
    have := hsplit.2
    simpa [hne] using this
  obtain ⟨again, hrun, g2, hok2⟩ := runSaves_good hH hi (rs.drop h) (rs.take h) rb.back gt hok' hs2
  rw [List.take_append_drop] at g2 hok2
  refine ⟨rb, again, hrun, fun v => ⟨?_, ?_⟩⟩
  · rw [g2.disk.roots, gd.roots]
  · rw [getImmutable_good hH g2.disk hok2, getImmutable_good hH gd hok]

/-! ## Non-vacuity: a three-version history over `H = id`, rolled back to 1 and to 2 -/
private def l1 : Tree := .leaf [1] [10] 1
private def l2 : Tree := .leaf [2] [20] 2
private def t2 : Tree := .inner [2] 1 2 2 l1 l2
private def l1' : Tree := .leaf [1] [11] 3
private def t3 : Tree := .inner [2] 1 2 3 l1' l2
private def rs3 : List (Option Tree) := [some l1, some t2, some t3]
example : GoodSteps (fun s => s ∈ [l1, l2, t2, l1', t3]) 0 none rs3 := by
  refine ⟨⟨?_, ?_, ?_, ?_⟩, ⟨?_, ?_, ?_, ?_⟩, ⟨?_, ?_, ?_, ?_⟩, trivial⟩ <;>
    simp [subtreesOpt, Tree.subtrees, l1, l2, t2, l1', t3, Tree.version, Tree.WF, Tree.height, isInt8, isInt64]
example : (runSaves id (MTree.new {}) rs3).isSome := by decide
example : ((runSaves id (MTree.new {}) rs3).bind fun t => (loadStore t.db 3).bind fun m =>
    (loadVersionForOverwriting m 1).map fun r => (r.2, toListOpt r.1.root, r.1.db.roots.map (·.1))) =
    some (1, [([1], [10])], [1]) := by decide

end C08
