import Proofs.Ledger.Bank
import Proofs.Ledger.CoinsBank
/-!
# C18 — Transfers move exactly the requested amount or nothing

Model: `Ledger.Bank.msgSend` = `MsgSend.ValidateBasic` + `handleMsgSend` → `Keeper.SendCoins`
(x/nodes/handler.go, x/nodes/keeper/account.go, x/auth/keeper/bank.go).  The fee is deducted by the
ante handler before the handler runs (C15); the statements below are about the handler's effect on
the state the ante handler left.
-/
namespace C18
open Ledger Ledger.Bank Ledger.Accounts

/-- A valid send that the sender can cover succeeds. -/
theorem send_succeeds (b : Bank) (s d : Addr) (x : Int) (hn : NonNeg b)
    (hs : s ≠ []) (hd : d ≠ []) (hx : 0 < x) (hc : x ≤ b.balOf s) : (msgSend b s d x).err = none := by
  have : ¬ (s = [] ∨ d = [] ∨ x ≤ 0) := by simp [hs, hd]; omega
  simp only [msgSend, this, if_false]
  exact (sendCoins_ok_iff b s d x hn).mpr ⟨by omega, hc⟩

/-- Exact debit and credit; every other account entry is untouched; the supply is untouched. -/
theorem send_ok (b : Bank) (s d : Addr) (x : Int) (h : (msgSend b s d x).err = none) (hsd : s ≠ d) :
    (msgSend b s d x).st.balOf s = b.balOf s - x ∧
    (msgSend b s d x).st.balOf d = b.balOf d + x ∧
    (∀ c, c ≠ s → c ≠ d → (msgSend b s d x).st.accts.get c = b.accts.get c) ∧
    (msgSend b s d x).st.supply = b.supply := by
  unfold msgSend at *
  by_cases hv : s = [] ∨ d = [] ∨ x ≤ 0
  · simp [hv] at h
  · simp only [hv, if_false] at h ⊢
    have hds : ¬ d = s := fun e => hsd e.symm
    refine ⟨?_, ?_, ?_, sendCoins_supply b s d x⟩
    · rw [sendCoins_balOf _ _ _ _ _ h]; simp [hds]
    · rw [sendCoins_balOf _ _ _ _ _ h]; simp [hsd]
    · intro c hcs hcd
      exact sendCoins_get_other b s d c x (fun e => hcs e.symm) (fun e => hcd e.symm)

/-- A self-send that succeeds changes no balance (and no other entry). -/
theorem send_self (b : Bank) (s : Addr) (x : Int) (h : (msgSend b s s x).err = none) :
    (∀ c, (msgSend b s s x).st.balOf c = b.balOf c) ∧
    (∀ c, c ≠ s → (msgSend b s s x).st.accts.get c = b.accts.get c) ∧
    (msgSend b s s x).st.supply = b.supply := by
  unfold msgSend at *
  by_cases hv : s = [] ∨ s = [] ∨ x ≤ 0
  · simp [hv] at h
  · simp only [hv, if_false] at h ⊢
    refine ⟨?_, ?_, sendCoins_supply b s s x⟩
    · intro c
      rw [sendCoins_balOf _ _ _ _ _ h]
      by_cases hc : s = c
      · subst hc; simp
      · simp [hc]
    · intro c hc
      exact sendCoins_get_other b s s c x (fun e => hc e.symm) (fun e => hc e.symm)

/-- The sender cannot cover the amount: the error is "insufficient" and nothing at all changes. -/
theorem send_insufficient (b : Bank) (s d : Addr) (x : Int) (hs : s ≠ []) (hd : d ≠ []) (hx : 0 < x)
    (hc : b.balOf s < x) : (msgSend b s d x).st = b ∧ (msgSend b s d x).err = some .insufficient := by
  have : ¬ (s = [] ∨ d = [] ∨ x ≤ 0) := by simp [hs, hd]; omega
  simp only [msgSend, this, if_false]
  have h1 : ¬ x < 0 := by omega
  have h2 : b.balOf s - x < 0 := by omega
  have hsub : subtractCoins b s x = ⟨b, some .insufficient⟩ := by simp [subtractCoins, h1, h2]
  rw [sendCoins_of_err b s d x .insufficient (by rw [hsub])]
  simp [hsub]

/-- Whatever the reason of a failure (malformed message, invalid coins, insufficient funds), a send
that fails has written nothing. -/
theorem send_failed_nothing_moved (b : Bank) (s d : Addr) (x : Int) (hn : NonNeg b) (e : Err)
    (h : (msgSend b s d x).err = some e) : (msgSend b s d x).st = b := by
  unfold msgSend at *
  by_cases hv : s = [] ∨ d = [] ∨ x ≤ 0
  · simp [hv]
  · simp only [hv, if_false] at h ⊢
    exact sendCoins_err b s d x hn e h

/-- A recipient without an account gets a fresh `BaseAccount` holding exactly the amount. -/
theorem new_account_created (b : Bank) (s d : Addr) (x : Int) (h : (msgSend b s d x).err = none)
    (hsd : s ≠ d) (hnew : b.accts.get d = none) :
    (msgSend b s d x).st.accts.get d = some { bal := x, module := none } := by
  unfold msgSend at *
  by_cases hv : s = [] ∨ d = [] ∨ x ≤ 0
  · simp [hv] at h
  · simp only [hv, if_false] at h ⊢
    cases h1 : (subtractCoins b s x).err with
    | some e' => rw [sendCoins_of_err _ _ _ _ e' h1] at h; cases h
    | none =>
      rw [sendCoins_of_ok _ _ _ _ h1] at h ⊢
      rw [addCoins_get_self _ _ _ h]
      have hg : (subtractCoins b s x).st.accts.get d = none := by
        rw [subtractCoins_get_other _ _ _ _ hsd]; exact hnew
      simp [Bank.balOf, Accounts.balOf, hg]

/-- A recipient that is a module account stays one and is credited exactly. -/
theorem module_recipient (b : Bank) (s d : Addr) (x y : Int) (m : String) (h : (msgSend b s d x).err = none)
    (hsd : s ≠ d) (hm : b.accts.get d = some { bal := y, module := some m }) :
    (msgSend b s d x).st.accts.get d = some { bal := y + x, module := some m } := by
  unfold msgSend at *
  by_cases hv : s = [] ∨ d = [] ∨ x ≤ 0
  · simp [hv] at h
  · simp only [hv, if_false] at h ⊢
    cases h1 : (subtractCoins b s x).err with
    | some e' => rw [sendCoins_of_err _ _ _ _ e' h1] at h; cases h
    | none =>
      rw [sendCoins_of_ok _ _ _ _ h1] at h ⊢
      rw [addCoins_get_self _ _ _ h]
      have hg : (subtractCoins b s x).st.accts.get d = some { bal := y, module := some m } := by
        rw [subtractCoins_get_other _ _ _ _ hsd]; exact hm
      simp [Bank.balOf, Accounts.balOf, hg]

/-- Invariant: no stored balance is ever negative (ledger-level canonical form: a stored coin set
is empty or one positive `upokt` coin) — after a send, and after any history of bank operations. -/
theorem balances_nonneg_canonical (b : Bank) (s d : Addr) (x : Int) (hn : NonNeg b) :
    NonNeg (msgSend b s d x).st := by
  unfold msgSend
  by_cases hv : s = [] ∨ d = [] ∨ x ≤ 0
  · simpa [hv] using hn
  · simp only [hv, if_false]; exact sendCoins_nonneg b s d x hn

theorem balances_nonneg_all_histories (mt : ModTable) (b : Bank) (ops : List Op) (hs : SupplyInv b)
    (hn : NonNeg b) : NonNeg (run mt b ops) := (run_good mt b ops ⟨hs, hn⟩).2

/-- Zero and negative amounts never reach the keeper. -/
theorem send_nonpositive_rejected (b : Bank) (s d : Addr) (x : Int) (hx : x ≤ 0) :
    msgSend b s d x = ⟨b, some .badMsg⟩ := by simp [msgSend, hx]

/-! ### Canonical form with several denominations (C41's coin algebra)

The ledger model above carries one denomination.  For the stored `sdk.Coins` values themselves:
the debit `old.Sub(amt)` (taken only when `SafeSub` raised no flag) and the credit `old.Add(amt)`
of canonical sets by a canonical amount are exact per denomination and canonical again. -/

theorem credit_exact_canonical (old amt new : Coins) (ho : Canon old) (ha : Canon amt)
    (h : Coins.safeAdd old amt = some new) :
    Canon new ∧ ∀ d, Coins.sumOf new d = Coins.sumOf old d + Coins.sumOf amt d :=
  credit_canonical old amt new ho ha h

theorem debit_exact_canonical (old amt new : Coins) (ho : Canon old) (ha : Canon amt)
    (h : Coins.safeSub old amt = some (new, false)) :
    Canon new ∧ ∀ d, Coins.sumOf new d = Coins.sumOf old d - Coins.sumOf amt d :=
  debit_canonical old amt new ho ha h

theorem debit_refused_iff_uncovered (old amt d : Coins) (neg : Bool) (ho : Canon old) (ha : Canon amt)
    (h : Coins.safeSub old amt = some (d, neg)) :
    neg = true ↔ ∃ e, Coins.sumOf old e < Coins.sumOf amt e := debit_refused_iff old amt d neg ho ha h

/-! ## Non-vacuity -/

private def b0 : Bank := ⟨[([1], ⟨100, none⟩), ([2], ⟨5, none⟩), ([0xda], ⟨50, some "dao"⟩)], 155⟩
example : nonNegB b0 = true := by decide
example : (msgSend b0 [1] [2] 100).err = none ∧ (msgSend b0 [1] [2] 100).st.balOf [1] = 0 ∧
    (msgSend b0 [1] [2] 100).st.balOf [2] = 105 := by decide
example : (msgSend b0 [1] [1] 100).err = none ∧ (msgSend b0 [1] [1] 100).st = b0 := by decide
example : (msgSend b0 [1] [2] 101).err = some .insufficient := by decide
example : (msgSend b0 [1] [7] 1).st.accts.get [7] = some ⟨1, none⟩ ∧ b0.accts.get [7] = none := by decide
example : (msgSend b0 [1] [0xda] 1).st.accts.get [0xda] = some ⟨51, some "dao"⟩ := by decide

end C18
