import Proofs.Store.RootMulti
/-!
# C06 — Commit IDs are well-formed and transient state never leaks into them

Model: `PocketModel/Store/RootMulti.lean` (`rootmulti.Store.Commit`, `commitStores`,
`CommitInfo.Hash`, `transient.Store.Commit`).  `H` is `tmhash.Sum`, `TH` the IAVL root hash as a
function of the substore's write history; both are parameters.  `σ`, `τ` are map-iteration oracles.
-/
namespace C06
open RootMulti

variable (H : Bytes → Bytes) (TH : List (List Op) → Bytes)

/-- Each commit advances the version by exactly one; the id handed to the caller, the id kept as
`lastCommitID` and the persisted `CommitInfo` agree. -/
theorem commit_version_succ (σ : Oracle) (s : MS) :
    (commit H TH σ s).1.lastVersion = s.lastVersion + 1 ∧
    (commit H TH σ s).2.version = s.lastVersion + 1 ∧
    (commit H TH σ s).1.lastCommitID = (commit H TH σ s).2.commitID H := by
  simp [commit, MS.lastCommitID, CommitInfo.commitID]

/-- Over a whole history: the `i`-th commit reports version `start + i + 1`, whatever the oracles. -/
theorem run_versions (σ : Nat → Oracle) (bs : List Block) (s : MS) :
    ((run H TH σ s bs).2.map (·.version)) = (List.range bs.length).map (fun i => s.lastVersion + i + 1) ∧
    (run H TH σ s bs).1.lastVersion = s.lastVersion + bs.length := by
  induction bs generalizing s with
  | nil => simp [run]
  | cons b bs ih =>
    have hl := lastVersion_applyBlock s b
    have hv : (commit H TH (σ (s.applyBlock b).lastVersion) (s.applyBlock b)).1.lastVersion = s.lastVersion + 1 := by
      simp [commit, hl]
    simp only [run]
    rw [hl] at hv
    obtain ⟨ih1, ih2⟩ := ih (commit H TH (σ s.lastVersion) (s.applyBlock b)).1
    rw [hv] at ih1 ih2
    constructor
    · simp only [List.map_cons, List.length_cons, List.range_succ_eq_map, List.map_map]
      rw [ih1]
      simp [CommitInfo.commitID, commit, hl, Function.comp_def, Nat.add_assoc, Nat.add_comm 1]
    · rw [ih2]; simp; omega

/-- The commit hash does not depend on the order in which Go iterates the store map (the persisted
`StoreInfo` order may differ; only the hash — and the resulting store — is claimed). -/
theorem commit_hash_perm_indep (σ τ : Oracle) (hσ : IsPerm σ) (hτ : IsPerm τ) (s : MS) (hn : NodupNames s) :
    (commit H TH σ s).2.hash H = (commit H TH τ s).2.hash H ∧ (commit H TH σ s).1 = (commit H TH τ s).1 := by
  have h : (commit H TH σ s).2.hash H = (commit H TH τ s).2.hash H := by
    unfold commit
    apply CommitInfo.hash_perm
    · exact (commitStores_perm TH (hσ _)).trans (commitStores_perm TH (hτ _)).symm
    · exact commitStores_nodup TH _ (((hσ s.stores).map _).nodup_iff.mpr hn)
  refine ⟨h, ?_⟩
  unfold commit at h ⊢
  simp only [MS.mk.injEq, true_and, and_true]
  exact h

/-- Two multistores that agree on their persistent substores (and on the version) produce the same
commit id, whatever their transient stores contain and whichever oracles are used. -/
theorem hash_ignores_transient (σ τ : Oracle) (hσ : IsPerm σ) (hτ : IsPerm τ) (s₁ s₂ : MS)
    (h1 : NodupNames s₁) (h2 : NodupNames s₂) (hagree : s₁.dropTransient = s₂.dropTransient) :
    (commit H TH σ s₁).2.commitID H = (commit H TH τ s₂).2.commitID H := by
  rw [(dropTransient_commit H TH σ id hσ (fun l => List.Perm.refl l) s₁ h1).2,
      (dropTransient_commit H TH τ id hτ (fun l => List.Perm.refl l) s₂ h2).2, hagree]

/-- After `Commit` every transient substore is empty (so it is empty at the start of every block). -/
theorem transient_empty_after_commit (σ : Oracle) (s : MS) (n : Name) (m : KV)
    (h : (n, Sub.transient m) ∈ (commit H TH σ s).1.stores) : m = [] := by
  simp only [commit, List.mem_map] at h
  obtain ⟨e, _, he⟩ := h
  cases hs : e.2 with
  | iavl p => simp [hs, Sub.commit] at he
  | transient m' => simp [hs, Sub.commit] at he; exact he.2

/-- The sequence of app hashes (commit ids) of any block history equals the sequence produced by the
multistore *without its transient substores*, fed only the writes to persistent substores, iterating
in mount order: a function of the persistent history alone (no oracle, no transient write occurs on
the right-hand side). -/
theorem apphash_function_of_persistent_history (σ : Nat → Oracle) (hσ : ∀ v, IsPerm (σ v)) (bs : List Block)
    (s : MS) (hn : NodupNames s) :
    (run H TH σ s bs).2 = (run H TH (fun _ => id) s.dropTransient (bs.map (·.without s.transientNames))).2 := by
  induction bs generalizing s with
  | nil => rfl
  | cons b bs ih =>
    simp only [run, List.map_cons]
    have hn1 : NodupNames (s.applyBlock b) := by unfold NodupNames; rw [names_applyBlock]; exact hn
    have hd := dropTransient_commit H TH (σ (s.applyBlock b).lastVersion) id (hσ _) (fun l => List.Perm.refl l)
      (s.applyBlock b) hn1
    rw [dropTransient_applyBlock s b hn] at hd
    have hn2 : NodupNames (commit H TH (σ (s.applyBlock b).lastVersion) (s.applyBlock b)).1 := by
      unfold NodupNames; rw [names_commit]; exact hn1
    have hl := lastVersion_applyBlock s b
    have ht : (commit H TH (σ (s.applyBlock b).lastVersion) (s.applyBlock b)).1.transientNames = s.transientNames := by
      rw [transientNames_commit, transientNames_applyBlock]
    have := ih _ hn2
    rw [ht, hd.1] at this
    rw [hl] at this hd
    rw [this, hd.2]

/-- Lifted form of `hash_ignores_transient`: two block histories on two multistores that agree on
the persistent substores, differing only in writes to transient substores (and in iteration
order), report identical commit ids at every height. -/
theorem history_ignores_transient (σ τ : Nat → Oracle) (hσ : ∀ v, IsPerm (σ v)) (hτ : ∀ v, IsPerm (τ v))
    (bs₁ bs₂ : List Block) (s₁ s₂ : MS) (h1 : NodupNames s₁) (h2 : NodupNames s₂)
    (hagree : s₁.dropTransient = s₂.dropTransient)
    (hproj : bs₁.map (·.without s₁.transientNames) = bs₂.map (·.without s₂.transientNames)) :
    (run H TH σ s₁ bs₁).2 = (run H TH τ s₂ bs₂).2 := by
  rw [apphash_function_of_persistent_history H TH σ hσ bs₁ s₁ h1,
      apphash_function_of_persistent_history H TH τ hτ bs₂ s₂ h2, hagree, hproj]

/-! ## Non-vacuity -/

private def s0 : MS := MS.fresh [[97], [98]] [[116]]
private def blk : Block := [([97], .set [1] [2]), ([116], .set [9] [9]), ([98], .del [1])]
example : NodupNames s0 := by decide
example : IsPerm List.reverse := fun l => List.reverse_perm l
example : s0.transientNames = [[116]] := by decide
example : blk.without s0.transientNames = [([97], .set [1] [2]), ([98], .del [1])] := by decide
example : (s0.applyBlock blk).stores.lookup [116] = some (Sub.transient [([9], [9])]) := by decide
example : ((commit id (fun _ => []) id (s0.applyBlock blk)).1.stores.lookup [116]) = some (Sub.transient []) := by decide

end C06
