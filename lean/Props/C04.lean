import Proofs.Codec.AminoNode
import PocketModel.Store.NodeDB
/-!
# C04 — Saved state is reproduced exactly after reopening from disk

Models: `PocketModel/Codec/Amino.lean` (go-amino primitives), `Codec/AminoNode.lean`
(`writeBytes`/`MakeNode`/`writeHashBytes`), `Store/NodeDB.lean` (node db, `SaveVersion`,
`LoadVersion`, multistore records).  `H` is `tmhash.Sum`, a parameter.
-/
namespace C04
open Amino NodeDB

/-- Zig-zag varints round-trip for every `int64` (with any bytes following). -/
theorem varint_roundtrip (i : Int) (h : isInt64 i) (rest : Bytes) :
    decodeVarint (encodeVarint i ++ rest) = some (i, rest) := Amino.varint_roundtrip i h rest

/-- Unsigned varints round-trip for every `uint64`. -/
theorem uvarint_roundtrip (x : Nat) (h : x < 2 ^ 64) (rest : Bytes) :
    decodeUvarint (encodeUvarint x ++ rest) = some (x, rest) := Amino.uvarint_roundtrip x h rest

/-- Length-prefixed byte slices round-trip. -/
theorem byteslice_roundtrip (b : Bytes) (h : b.length < 2 ^ 63) (rest : Bytes) :
    decodeByteSlice (encodeByteSlice b ++ rest) = some (b, rest) := Amino.byteslice_roundtrip b h rest

/-- `MakeNode (writeBytes n) = n` for every node whose fields fit their machine types. -/
theorem node_roundtrip (n : NodeRec) (h : n.WF) : makeNode (writeBytes n) = some n :=
  makeNode_writeBytes n h

/-! ## Non-vacuity -/
example : isInt64 (-9223372036854775808) ∧ isInt64 9223372036854775807 := by decide
example : encodeVarint (-3) = [5] ∧ encodeVarint 300 = [0xd8, 0x04] := by
  constructor <;> (unfold encodeVarint zigzag; simp [encodeUvarint])
example : decodeVarint [0xd8, 0x04, 7] = some (300, [7]) := by decide
private def leafRec : NodeRec := ⟨0, 1, 7, [1, 2], [3], [], []⟩
private def innerRec : NodeRec := ⟨1, 2, 7, [1, 2], [], [9, 9], [8]⟩
example : leafRec.WF := by constructor <;> simp [leafRec, isInt8, isInt64]
example : innerRec.WF := by constructor <;> simp [innerRec, isInt8, isInt64]

end C04
