import Proofs.Store.MultiDisk
import Proofs.Store.HashBinding
import Proofs.Codec.AminoCommitInfo
/-!
# C04 — Saved state is reproduced exactly after reopening from disk

Models: `PocketModel/Codec/Amino.lean` (go-amino primitives), `Codec/AminoNode.lean`
(`writeBytes`/`MakeNode`/`writeHashBytes`), `Store/NodeDB.lean` (node db, `SaveVersion`,
`LoadVersion`, multistore records).  `H` is `tmhash.Sum`, a parameter.
-/
namespace C04
open Amino NodeDB

/-- Zig-zag varints round-trip for every `int64` (with any bytes following). -/
theorem varint_roundtrip (i : Int) (h : isInt64 i) (rest : Bytes) :
    decodeVarint (encodeVarint i ++ rest) = some (i, rest) := Amino.varint_roundtrip i h rest

/-- Unsigned varints round-trip for every `uint64`. -/
theorem uvarint_roundtrip (x : Nat) (h : x < 2 ^ 64) (rest : Bytes) :
    decodeUvarint (encodeUvarint x ++ rest) = some (x, rest) := Amino.uvarint_roundtrip x h rest

/-- Length-prefixed byte slices round-trip. -/
theorem byteslice_roundtrip (b : Bytes) (h : b.length < 2 ^ 63) (rest : Bytes) :
    decodeByteSlice (encodeByteSlice b ++ rest) = some (b, rest) := Amino.byteslice_roundtrip b h rest

/-- `MakeNode (writeBytes n) = n` for every node whose fields fit their machine types. -/
theorem node_roundtrip (n : NodeRec) (h : n.WF) : makeNode (writeBytes n) = some n :=
  makeNode_writeBytes n h

/-- Lazy child loading through the hash-addressed node map is structural unfolding: after
`SaveBranch` of `t` into a node map all of whose entries (and `t`'s nodes) come from a collision-free
universe `S`, loading from `t`'s root hash returns exactly `t`.  `hpers`: what `SaveBranch` skips as
already persisted really is on disk. -/
theorem load_save (H : Bytes → Bytes) (hH : HashOK H) (S : Tree → Prop) (hi : Inj H S)
    (nodes : List (Bytes × Bytes)) (hc : Cons H S nodes) (t : Tree) (hwf : t.WF) (hS : ∀ s ∈ t.subtrees, S s)
    (cur : Int) (hpers : ∀ s ∈ t.subtrees, s.version ≤ cur → Present H nodes s) :
    loadRoot (saveBranch H cur t nodes) (hashTree H t) = some (some t) :=
  loadRoot_of_present hH _ t hwf (saveBranch_present hi cur t nodes hc hS hpers)

/-- … and nothing that was loadable before is disturbed by the save. -/
theorem load_save_preserves (H : Bytes → Bytes) (hH : HashOK H) (S : Tree → Prop) (hi : Inj H S)
    (nodes : List (Bytes × Bytes)) (hc : Cons H S nodes) (t : Tree) (hS : ∀ s ∈ t.subtrees, S s) (cur : Int)
    (u : Tree) (hwf : u.WF) (hu : Present H nodes u) :
    loadRoot (saveBranch H cur t nodes) (hashTree H u) = some (some u) :=
  loadRoot_of_present hH _ u hwf (Present.mono hi cur t hc hS hu)

/-- **Reopening reproduces every saved version.**  For every history `rs` of working trees whose
blocks are legal (`GoodSteps`: kept nodes come from the previous tree, new nodes carry the next
version, fields fit their machine types) and whose nodes do not collide under `H`: the store saves
all of them, and a *new* tree object on the resulting disk returns, for every retained version `v`,
exactly the tree the never-persisted replica `rs` holds at `v` — hence the same contents and the
same root hash; `LoadVersion(0)` gives the latest; versions above the latest do not load. -/
theorem reopen_all_versions (H : Bytes → Bytes) (hH : HashOK H) (S : Tree → Prop) (hi : Inj H S)
    (rs : List (Option Tree)) (hg : GoodSteps S 0 none rs) :
    ∃ t, runSaves H (MTree.new {}) rs = some t ∧
      (∀ v, getImmutable t.db v = histAt rs v) ∧
      (∀ v r, histAt rs v = some r →
        ∃ m, loadStore t.db v = some m ∧ m.version = v ∧ m.root = r ∧
          toListOpt m.root = toListOpt r ∧ hashOpt H m.root = hashOpt H r) ∧
      (rs ≠ [] → ∃ m, loadStore t.db 0 = some m ∧ m.version = rs.length ∧ m.root = lastOf rs) ∧
      (rs ≠ [] → ∀ v : Int, (rs.length : Int) < v → loadStore t.db v = none) := by
  obtain ⟨t, hrun, g, hok⟩ := runSaves_good hH hi rs [] (MTree.new {}) (goodTree_fresh S) (histOK_nil S)
    (by simpa [lastOf] using hg)
  simp only [List.nil_append] at g hok
  refine ⟨t, hrun, fun v => getImmutable_good hH g.disk hok v, ?_, ?_, ?_⟩
  · intro v r hr
    have hv := (histAt_some_iff rs v).mp (by rw [hr]; rfl)
    obtain ⟨r', hr', hl⟩ := loadVersion_at hH (t0 := MTree.new t.db) g.disk hok v v hv.1 hv.2 (Or.inl rfl)
    rw [hr] at hr'; cases hr'
    simp only [loadStore, hl, Option.map_some]
    exact ⟨_, rfl, rfl, rfl, rfl, rfl⟩
  · intro hne
    have hl1 : 1 ≤ (rs.length : Int) := by
      cases rs with
      | nil => exact absurd rfl hne
      | cons a l => simp; omega
    obtain ⟨r', hr', hl⟩ := loadVersion_at hH (t0 := MTree.new t.db) g.disk hok 0 rs.length hl1 (by omega) (Or.inr ⟨rfl, rfl⟩)
    simp only [loadStore, hl, Option.map_some]
    refine ⟨_, rfl, rfl, ?_⟩
    have := (loadVersion_goodTree g.disk hne hr').lastSaved
    simpa using this
  · intro hne v hv
    simp [loadStore, loadVersion_beyond (t0 := MTree.new t.db) g.disk hne v hv]

/-- A store reopened at the latest version carries on exactly like the one that never stopped: the
rest of the history saves the same versions with the same hashes, and the final disk again reloads
every version. -/
theorem reopen_and_continue (H : Bytes → Bytes) (hH : HashOK H) (S : Tree → Prop) (hi : Inj H S)
    (rs₁ rs₂ : List (Option Tree)) (hne : rs₁ ≠ []) (hg : GoodSteps S 0 none (rs₁ ++ rs₂)) :
    ∃ t₁ m t₂, runSaves H (MTree.new {}) rs₁ = some t₁ ∧ loadStore t₁.db 0 = some m ∧
      runSaves H m rs₂ = some t₂ ∧ ∀ v, getImmutable t₂.db v = histAt (rs₁ ++ rs₂) v := by
  have split : ∀ (l₁ l₂ : List (Option Tree)) (k : Int) (p : Option Tree), GoodSteps S k p (l₁ ++ l₂) →
      GoodSteps S k p l₁ ∧ GoodSteps S (k + l₁.length) (if l₁ = [] then p else lastOf l₁) l₂ := by
    intro l₁
    induction l₁ with
    | nil => intro l₂ k p h; simpa [GoodSteps] using h
    | cons a l ih =>
      intro l₂ k p h
      obtain ⟨h1, h2⟩ := h
      obtain ⟨h3, h4⟩ := ih l₂ (k + 1) a h2
      refine ⟨⟨h1, h3⟩, ?_⟩
      have e : k + 1 + (l.length : Int) = k + ((a :: l).length : Int) := by simp; omega
      rw [e] at h4
      have e2 : (if l = [] then a else lastOf l) = lastOf (a :: l) := by
        cases l with
        | nil => simp [lastOf]
        | cons b l' => simp [lastOf, List.getLast?_cons_cons]
      rw [e2] at h4
      simpa using h4
  obtain ⟨hg1, hg2⟩ := split rs₁ rs₂ 0 none hg
  simp only [hne, if_false, Int.zero_add] at hg2
  obtain ⟨t₁, hrun1, g1, hok1⟩ := runSaves_good hH hi rs₁ [] (MTree.new {}) (goodTree_fresh S) (histOK_nil S)
    (by simpa [lastOf] using hg1)
  simp only [List.nil_append] at g1 hok1
  have hl1 : 1 ≤ (rs₁.length : Int) := by
    cases rs₁ with
    | nil => exact absurd rfl hne
    | cons a l => simp; omega
  obtain ⟨r', hr', hl⟩ := loadVersion_at hH (t0 := MTree.new t₁.db) g1.disk hok1 0 rs₁.length hl1 (by omega) (Or.inr ⟨rfl, rfl⟩)
  have gm := loadVersion_goodTree g1.disk hne hr'
  obtain ⟨t₂, hrun2, g2, hok2⟩ := runSaves_good hH hi rs₂ rs₁ _ gm hok1 hg2
  refine ⟨t₁, _, t₂, hrun1, ?_, hrun2, fun v => getImmutable_good hH g2.disk hok2 v⟩
  simp only [loadStore, hl, Option.map_some]

/-- The hash `SaveVersion` reports is a function of the working tree alone — not of the DB, the
cache, the retained versions or the path by which the tree was reached: two replicas holding the
same tree report the same root hash. -/
theorem hash_deterministic (H : Bytes → Bytes) (t₁ t₂ : MTree) (h : t₁.root = t₂.root)
    (r₁ r₂ : MTree × Bytes × Int) (h1 : saveVersion H t₁ = some r₁) (h2 : saveVersion H t₂ = some r₂) :
    r₁.2.1 = r₂.2.1 ∧ r₁.2.1 = hashOpt H t₁.root := by
  have key : ∀ (t : MTree) (r : MTree × Bytes × Int), saveVersion H t = some r → r.2.1 = hashOpt H t.root := by
    intro t r hr
    unfold saveVersion at hr
    simp only at hr
    split at hr
    · split at hr
      · rename_i he; cases hr; exact he
      · cases hr
    · split at hr
      · cases hr
      · split at hr
        · cases hr
        · cases hr; rfl
  rw [key t₁ r₁ h1, key t₂ r₂ h2, h]
  exact ⟨rfl, rfl⟩

/-- **Root hashes bind the state** (the converse of determinism, and the reason a root-hash comparison
between replicas means something): two well-formed IAVL trees with the same root hash are the same
tree — same shape, keys, values and versions — unless `H` collides (the colliding pair is exhibited). -/
theorem hash_binding (H : Bytes → Bytes) (hH : HashOK H) (a b : Tree) (ha : a.WF) (hb : b.WF)
    (ka : a.KeyOK) (kb : b.KeyOK) (h : hashTree H a = hashTree H b) : a = b ∨ Collision H :=
  hashTree_inj hH a b ha hb ka kb h

/-- The `s/<version>` record round-trips through amino (`setCommitInfo` / `getCommitInfo`) for every
commit info with non-negative `int64` versions and representable lengths. -/
theorem commitinfo_roundtrip (ci : CInfo) (h : ci.WF) : decCommitInfo (encCommitInfo ci) = some ci :=
  decCommitInfo_enc ci h

/-- The `s/latest` record round-trips. -/
theorem latest_roundtrip (v : Int) (h0 : 0 ≤ v) (h1 : v < 2 ^ 63) : decLatest (encLatest v) = some v :=
  decLatest_enc v h0 h1

/-- **The whole multistore reopens exactly.**  For every legal block history on a fresh DB (any
iteration orders): a new `rootmulti.Store` object on the resulting disk — `LoadLatestVersion` or
`LoadVersion(v)` for any committed `v` — reports the commit id the live store reported when it
committed that version, and holds in every substore exactly the tree that was saved then; any other
version (`v ≠ 0`) fails to load. -/
theorem multistore_reopen (H : Bytes → Bytes) (hH : HashOK H) (S : Tree → Prop) (hi : Inj H S)
    (names : List RootMulti.Name) (hnd : names.Nodup)
    (blocks : List (List RootMulti.Name × (RootMulti.Name → Option Tree)))
    (hb : GoodBlocks S names (fun _ => []) 0 blocks) :
    ∃ s0 s ids, openMS H (freshDisk names) names = some s0 ∧
      runMS H s0 (blocks.map fun b => (b.1, fullBlock names b.2)) = some (s, ids) ∧ ids.length = blocks.length ∧
      -- every committed version
      (∀ (i : Nat) (c : CID), ids[i]? = some c →
        ∃ m, loadMS H s.disk names ((i : Int) + 1) = some m ∧ m.lastCommitID = c ∧
          ∀ n ∈ names, ∃ t, aget n m.stores = some t ∧ t.version = (i : Int) + 1 ∧
            some t.root = histAt (histsAfter (fun _ => []) blocks n) ((i : Int) + 1)) ∧
      -- the latest version
      (blocks ≠ [] → ∃ m, openMS H s.disk names = some m ∧ m.lastCommitID = s.lastCommitID ∧
        ∀ n ∈ names, ∃ t, aget n m.stores = some t ∧ t.version = blocks.length ∧
          t.root = lastOf (histsAfter (fun _ => []) blocks n)) ∧
      -- nothing else
      (∀ v : Int, v ≠ 0 → ¬ (1 ≤ v ∧ v ≤ blocks.length) → loadMS H s.disk names v = none) := by
  obtain ⟨s0, h0, g0⟩ := openMS_fresh_good hH S hi names hnd
  obtain ⟨s, ids, hrun, g, _, hids⟩ := runMS_ids hH hi blocks _ 0 s0 g0 hb
  obtain ⟨_, ids', hrun', _, hlen⟩ := runMS_good hH hi blocks _ 0 s0 g0 hb
  rw [hrun] at hrun'; cases hrun'
  simp only [Nat.zero_add] at g
  have gd := g.disk
  have hl : ∀ n ∈ names, (histsAfter (fun _ => []) blocks n).length = blocks.length :=
    fun n hn => by obtain ⟨_, _, _, _, h⟩ := g.tree n hn; exact h
  refine ⟨s0, s, ids, h0, hrun, hlen, ?_, ?_, ?_⟩
  · intro i c hic
    have hi' : i < blocks.length := by
      rw [← hlen]; exact (List.getElem?_eq_some_iff.mp hic).1
    obtain ⟨ci, hci, hv, hload⟩ := loadMS_good hH gd ((i : Int) + 1) (by omega) (by omega)
    have hid := hids i c hic
    simp only [Int.natCast_zero, Int.zero_add] at hid
    have hcs : s.disk.cinfos = s.cinfos := rfl
    rw [hcs] at hci
    rw [hci] at hid
    simp only [Option.map_some, Option.some.injEq] at hid
    refine ⟨_, hload, hid, ?_⟩
    intro n hn
    refine ⟨recovered (s.disk.storeDB n) ((i : Int) + 1) ((histAt (histsAfter (fun _ => []) blocks n) ((i : Int) + 1)).getD none), ?_, rfl, ?_⟩
    · rw [aget_map_names (fun n => recovered (s.disk.storeDB n) ((i : Int) + 1) ((histAt (histsAfter (fun _ => []) blocks n) ((i : Int) + 1)).getD none)) names n, if_pos hn]
    · simp only [recovered]
      obtain ⟨r, hr⟩ := Option.isSome_iff_exists.mp ((histAt_some_iff (histsAfter (fun _ => []) blocks n) ((i : Int) + 1)).mpr ⟨by omega, by rw [hl n hn]; omega⟩)
      rw [hr]; rfl
  · intro hne
    have hk : 1 ≤ blocks.length := by
      cases blocks with
      | nil => exact absurd rfl hne
      | cons a l => simp
    obtain ⟨ci, hci, hopen⟩ := openMS_good hH gd hk
    refine ⟨_, hopen, ?_, ?_⟩
    · rw [g.lcid]
      have : ¬ blocks.length = 0 := by omega
      have hcs : s.disk.cinfos = s.cinfos := rfl
      rw [hcs] at hci
      simp [this, hci]
    · intro n hn
      refine ⟨recovered (s.disk.storeDB n) blocks.length ((histAt (histsAfter (fun _ => []) blocks n) blocks.length).getD none), ?_, rfl, ?_⟩
      · rw [aget_map_names (fun n => recovered (s.disk.storeDB n) blocks.length ((histAt (histsAfter (fun _ => []) blocks n) blocks.length).getD none)) names n, if_pos hn]
      · simp only [recovered]
        have hne' : histsAfter (fun _ => []) blocks n ≠ [] := by
          intro e; have := hl n hn; rw [e] at this; simp at this; omega
        rw [← hl n hn, histAt_last _ hne']; rfl
  · intro v h0' hv
    exact loadMS_none gd v h0' hv

/-! ## Non-vacuity -/
example : isInt64 (-9223372036854775808) ∧ isInt64 9223372036854775807 := by decide
example : encodeVarint (-3) = [5] ∧ encodeVarint 300 = [0xd8, 0x04] := by decide
example : decodeVarint [0xd8, 0x04, 7] = some (300, [7]) := by decide
private def leafRec : NodeRec := ⟨0, 1, 7, [1, 2], [3], [], []⟩
private def innerRec : NodeRec := ⟨1, 2, 7, [1, 2], [], [9, 9], [8]⟩
example : leafRec.WF := by constructor <;> simp [leafRec, isInt8, isInt64]
example : innerRec.WF := by constructor <;> simp [innerRec, isInt8, isInt64]

/-- A two-block history over `H = id` (trivially collision-free on these trees): the hypotheses of
`reopen_all_versions` are satisfiable by a non-trivial history (insert, then replace + insert). -/
private def l1 : Tree := .leaf [1] [10] 1
private def l2 : Tree := .leaf [2] [20] 2
private def t2 : Tree := .inner [2] 1 2 2 l1 l2
example : GoodSteps (fun s => s ∈ [l1, l2, t2]) 0 none [some l1, some t2] := by
  refine ⟨⟨?_, ?_, ?_, ?_⟩, ⟨?_, ?_, ?_, ?_⟩, trivial⟩ <;>
    simp [subtreesOpt, Tree.subtrees, l1, l2, t2, Tree.version, Tree.WF, Tree.height, isInt8, isInt64]
example : saveVersion id ((MTree.new {}).setRoot (some l1)) ≠ none := by decide

private def ciEx : CInfo := ⟨2, [⟨[97, 98], ⟨2, [1, 2, 3]⟩⟩, ⟨[97], ⟨0, []⟩⟩]⟩
example : ciEx.WF := by
  refine ⟨by decide, by decide, ?_, by decide⟩
  intro si hsi
  simp only [ciEx, List.mem_cons, List.mem_nil_iff, or_false] at hsi
  rcases hsi with rfl | rfl <;> constructor <;> decide
example : encCommitInfo ciEx = [0x18, 0x08, 0x02, 0x12, 0x0f, 0x0a, 0x02, 97, 98, 0x12, 0x09, 0x0a, 0x07, 0x08, 0x02, 0x12, 0x03, 1, 2, 3,
                                0x12, 0x03, 0x0a, 0x01, 97] := by decide
example : t2.WF ∧ t2.KeyOK := by
  constructor <;> simp [t2, l1, l2, Tree.WF, Tree.KeyOK, Tree.minKey, Tree.height, isInt8, isInt64]

end C04
