import Proofs.Store.Prefix
/-!
# C02 — Prefix views are isolated and iterate their own keyspace

Model: `PocketModel/Store/Prefix.lean` (`store/prefix/store.go`, `store/types/utils.go`).
The parent is *any* store `O : KVOps σ` that satisfies the interface theorem `KVSpec O inv vw`
(the root MemDB adapter, a cachekv wrap — C01 —, another prefix store …); `vw s` is the parent's
contents as a strictly ascending list.  `Prefix.view p m` is the specification of the prefix view:
the bindings of `m` whose key starts with `p`, with `p` removed.
-/
namespace C02
open Prefix

variable {σ : Type} {O : KVOps σ} {inv : σ → Prop} {vw : σ → KV}

/-- The end bound computed by `PrefixEndBytes` is exact for every prefix: a key `k` lies in
`[p, prefixEnd p)` — with no upper bound when `prefixEnd p` is nil, i.e. for empty and all-`0xFF`
prefixes — iff `p` is a prefix of `k`. -/
theorem prefixEnd_spec (p k : Bytes) :
    (p ≤ k ∧ ∀ e, prefixEnd p = some e → k < e) ↔ p <+: k := Prefix.prefixEnd_spec p k

example : prefixEnd [1, 255, 255] = some [2] ∧ prefixEnd [255, 255] = none ∧ prefixEnd [] = none ∧
    prefixEnd [7, 255, 3] = some [7, 255, 4] := by decide
example : ([1, 255, 255] : Bytes) ≤ [1, 255, 255, 0] ∧ ([1, 255, 255, 0] : Bytes) < [2] := by decide

/-- The bound is nil exactly for prefixes made of `0xFF` bytes only (including the empty one). -/
theorem prefixEnd_none_iff (p : Bytes) : prefixEnd p = none ↔ ∀ b ∈ p, b = 255 := by
  induction p with
  | nil => simp
  | cons x xs ih =>
    rw [prefixEnd_cons]
    cases h : prefixEnd xs with
    | some e =>
      simp only [reduceCtorEq, List.mem_cons, forall_eq_or_imp, false_iff, not_and]
      intro _ hall
      rw [ih.mpr hall] at h; cases h
    | none =>
      have := ih.mp h
      by_cases hx : x ≠ 255
      · simp [hx]
      · simp only [if_neg hx, List.mem_cons, forall_eq_or_imp, true_iff]
        exact ⟨by simpa using hx, this⟩

/-- `Get` through the prefix store returns the parent's value at `prefix ++ key`, which is the
value of `key` in the specification view; the view is not changed by the read. -/
theorem prefix_get (P : KVSpec O inv vw) (s : σ) (p k : Bytes) (h : inv s) :
    ((ops O).get (s, p) k).2 = Assoc.get (vw s) (p ++ k) ∧
    ((ops O).get (s, p) k).2 = Assoc.get (view p (vw s)) k ∧
    vw ((ops O).get (s, p) k).1.1 = vw s := by
  have := (ops_spec P).get_val (s, p) k h
  exact ⟨by rw [this, get_view], this, P.get_view s _ h⟩

/-- `Has` likewise. -/
theorem prefix_has (P : KVSpec O inv vw) (s : σ) (p k : Bytes) (h : inv s) :
    ((ops O).has (s, p) k).2 = (Assoc.get (vw s) (p ++ k)).isSome ∧
    vw ((ops O).has (s, p) k).1.1 = vw s := by
  have := (ops_spec P).has_val (s, p) k h
  exact ⟨by rw [this, get_view], P.has_view s _ h⟩

/-- **Isolation**: a `Set`/`Delete` through the prefix store changes the parent at exactly the key
`prefix ++ key`; every parent key that does not start with the prefix keeps its binding. -/
theorem prefix_write_isolated (P : KVSpec O inv vw) (s : σ) (p k v : Bytes) (h : inv s)
    (k' : Bytes) (hk' : ¬ p <+: k') :
    Assoc.get (vw ((ops O).set (s, p) k v).1) k' = Assoc.get (vw s) k' ∧
    Assoc.get (vw ((ops O).del (s, p) k).1) k' = Assoc.get (vw s) k' := by
  have hne : k' ≠ p ++ k := pkey_ne_of_not_prefix hk'
  constructor
  · show Assoc.get (vw (O.set s (p ++ k) v)) k' = _
    rw [P.set_view s _ v h, Assoc.get_set, if_neg hne]
  · show Assoc.get (vw (O.del s (p ++ k))) k' = _
    rw [P.del_view s _ h, Assoc.get_del (P.sorted s h), if_neg hne]

/-- … and the write lands where the view says: afterwards the view is the specification view with
the key set / deleted. -/
theorem prefix_write_lands (P : KVSpec O inv vw) (s : σ) (p k v : Bytes) (h : inv s) :
    view p (vw ((ops O).set (s, p) k v).1) = Assoc.set (view p (vw s)) k v ∧
    view p (vw ((ops O).del (s, p) k).1) = Assoc.del (view p (vw s)) k :=
  ⟨(ops_spec P).set_view (s, p) k v h, (ops_spec P).del_view (s, p) k h⟩

/-- **Iteration**: for every `start`, `end` (nil, empty, inverted, …) and both directions the
prefix iterator yields exactly the parent's bindings under the prefix that fall in `[start, end)`
after stripping, prefix removed, in iteration order.  Includes prefixes ending in `0xFF`. -/
theorem prefix_iter_eq (P : KVSpec O inv vw) (s : σ) (p : Bytes) (asc : Bool)
    (st e : Option Bytes) (h : inv s) :
    ((ops O).iter (s, p) asc st e).2 = KV.iter (view p (vw s)) asc st e ∧
    ((ops O).iter (s, p) asc st e).2 =
      KV.order asc (((vw s).filter fun kv => hasPrefix p kv.1 && inDomain (strip p kv.1) st e).map
        fun kv => (strip p kv.1, kv.2)) := by
  have h1 := (ops_spec P).iter_val (s, p) asc st e h
  refine ⟨h1, ?_⟩
  rw [h1]
  unfold KV.iter KV.range view
  rw [List.filter_map, List.filter_filter]
  congr 2
  apply List.filter_congr
  intro x _
  rw [Bool.and_comm]; rfl

/-- The specification-level form of `prefix_iter_eq` (no parent state): the drained prefix
iterator over the parent's `[prefix++start, bound)` range is the range of the view. -/
theorem prefix_iter_eq_lists (p : Bytes) (m : KV) (asc : Bool) (st e : Option Bytes) :
    prefixIter p (KV.iter m asc (iterBounds p st e).1 (iterBounds p st e).2) =
      KV.iter (view p m) asc st e := iter_eq p m asc st e

/-- The prefix store is again a `KVStore` in the sense of the interface theorem, so it composes
with cachekv wraps (C01) and with further prefix stores. -/
theorem prefix_is_KVSpec (P : KVSpec O inv vw) :
    KVSpec (ops O) (fun s => inv s.1) (fun s => view s.2 (vw s.1)) := ops_spec P

/-- **Histories**: for every list of calls through the prefix store the observations are those of
the specification view, and no parent key outside the prefix ever changes. -/
theorem prefix_run (P : KVSpec O inv vw) (s : σ) (p : Bytes) (h : inv s) (l : List KVOp) :
    ((ops O).run (s, p) l).2 = (KV.ops.run (view p (vw s)) l).2 ∧
    view p (vw ((ops O).run (s, p) l).1.1) = (KV.ops.run (view p (vw s)) l).1 ∧
    ∀ k', ¬ p <+: k' → Assoc.get (vw ((ops O).run (s, p) l).1.1) k' = Assoc.get (vw s) k' := by
  have iso : ∀ k', ¬ p <+: k' → Assoc.get (vw ((ops O).run (s, p) l).1.1) k' = Assoc.get (vw s) k' := by
    intro k' hk'
    induction l generalizing s with
    | nil => rfl
    | cons op l ih =>
      simp only [KVOps.run]
      cases op with
      | get k => exact (ih _ (P.get_inv _ _ h)).trans (by rw [P.get_view _ _ h])
      | has k => exact (ih _ (P.has_inv _ _ h)).trans (by rw [P.has_view _ _ h])
      | set k v => exact (ih _ (P.set_inv _ _ _ h)).trans (prefix_write_isolated P s p k v h k' hk').1
      | del k => exact (ih _ (P.del_inv _ _ h)).trans (prefix_write_isolated P s p k k h k' hk').2
      | iter asc st e => exact (ih _ (P.iter_inv _ _ _ _ h)).trans (by rw [P.iter_view _ _ _ _ h])
  obtain ⟨_, h2, h3⟩ := (ops_spec P).run_refines (s, p) h l
  refine ⟨h3, ?_, iso⟩
  have e : ((ops O).run (s, p) l).1.2 = p := run_prefix O s p l
  rw [← h2, e]

/-! ## Non-vacuity: a concrete parent, prefix ending in `0xFF`, ranges in both directions -/

private def m0 : KV := [([1], [10]), ([1, 255], [11]), ([1, 255, 0], [12]), ([1, 255, 255], [13]), ([2], [14])]
example : Assoc.Sorted m0 := by decide
example : KVSpec KV.ops Assoc.Sorted id := KV.ops_spec
example : view [1, 255] m0 = [([], [11]), ([0], [12]), ([255], [13])] := by decide
example : ((ops KV.ops).iter (m0, [1, 255]) false none none).2 = [([255], [13]), ([0], [12]), ([], [11])] := by decide
example : ((ops KV.ops).iter (m0, [1, 255]) true (some [0]) (some [255])).2 = [([0], [12])] := by decide
example : ¬ ([1, 255] : Bytes) <+: [2] := by decide

end C02
