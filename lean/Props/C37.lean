import PocketModel.Upgrade
/-!
# C37 — Feature upgrades activate at their heights and are never lost

Model: `PocketModel/Upgrade.lean`.
-/
namespace C37
open Upgrade

/-- A feature is active at `h` exactly when it is scheduled with a non-zero height `a ≤ h`
(`IsAfterNamedFeatureActivationHeight`; a height of 0 means "never"). -/
theorem active_iff (g : Globals) (h : Int) (k : Bytes) :
    isAfterNamed g h k = true ↔ g.featureMap.get k ≠ 0 ∧ h ≥ g.featureMap.get k := by
  unfold isAfterNamed
  simp

end C37
