import Proofs.Upgrade.Handler
/-!
# C37 — Feature upgrades activate at their heights and are never lost

Model: `PocketModel/Upgrade.lean` (codec/codec.go feature-map functions, x/gov
`handleUpgradeAfterUpdate` / `HandleUpgrade`, the restart block of `NewPocketCoreApp`).
`lastVal xs k` is the height scheduled last for `k` in a list of feature strings; `namedKeys xs` the
keys it names; `scheduled xs k` = `lastVal` with 0 for "not scheduled".
-/
namespace C37
open Upgrade

/-! ## Canonical feature list -/

/-- `CleanUpgradeFeatureSlice`: the result is strictly sorted (hence no duplicate), has one entry per
key, names exactly the keys of the input and keeps for each the height scheduled **last**. -/
theorem clean_canonical (xs ys : List Bytes) (h : clean xs = some ys) :
    ys.Pairwise (· < ·) ∧ (namedKeys ys).Nodup ∧ (∀ k, lastVal ys k = lastVal xs k) ∧
    (∀ k, k ∈ namedKeys ys ↔ k ∈ namedKeys xs) := by
  obtain ⟨h1, h2, h3, _⟩ := clean_lastVal h
  exact ⟨clean_strictSorted h, h3, h1, h2⟩

/-- The iteration order of the intermediate Go map (an oracle in the model) does not matter. -/
theorem clean_order_independent (m1 m2 : FMap) (h : m1.Perm m2) :
    sortStrings (mapToSlice m1) = sortStrings (mapToSlice m2) :=
  sortStrings_congr (h.map renderEntry)

/-- It fails (panics) exactly when some string has no `:`. -/
theorem clean_fails_iff (xs : List Bytes) : clean xs = none ↔ ∃ s ∈ xs, splitKV s = none := by
  have := clean_isSome_iff xs
  constructor
  · intro hn
    apply Classical.byContradiction
    intro hne
    have hall : ∀ s ∈ xs, (parseEntry s).isSome := by
      intro s hs
      cases hsp : splitKV s with
      | none => exact absurd ⟨s, hs, hsp⟩ hne
      | some kv => simp [parseEntry, hsp]
    have := this.mpr hall
    rw [hn] at this
    cases this
  · rintro ⟨s, hs, hsp⟩
    cases hc : clean xs with
    | none => rfl
    | some ys =>
      have := this.mp (by rw [hc]; rfl) s hs
      simp [parseEntry, hsp] at this

theorem clean_idempotent (xs ys : List Bytes) (h : clean xs = some ys) : clean ys = some ys :=
  Upgrade.clean_idempotent h

/-- Reordering the input does not change the result when no key is scheduled twice. -/
theorem clean_perm_invariant (xs xs' : List Bytes) (hp : xs.Perm xs') (hn : (namedKeys xs).Nodup) :
    clean xs = clean xs' := by
  have hn' : (namedKeys xs').Nodup := (namedKeys_perm hp).nodup_iff.mp hn
  have hlv : ∀ k, lastVal xs k = lastVal xs' k := by
    intro k
    by_cases hk : k ∈ namedKeys xs
    · obtain ⟨e, he, hek⟩ := List.mem_map.mp hk
      obtain ⟨s, hs, hps⟩ := List.mem_filterMap.mp he
      obtain ⟨k', v⟩ := e
      simp only at hek
      subst hek
      rw [lastVal_of_nodup xs hn s k' v hs hps, lastVal_of_nodup xs' hn' s k' v (hp.subset hs) hps]
    · rw [lastVal_none_of_not_named xs k hk,
        lastVal_none_of_not_named xs' k (fun h => hk ((namedKeys_perm hp).symm.subset h))]
  have hsome : (clean xs).isSome ↔ (clean xs').isSome := by
    rw [clean_isSome_iff, clean_isSome_iff]
    exact ⟨fun h s hs => h s (hp.symm.subset hs), fun h s hs => h s (hp.subset hs)⟩
  cases hc : clean xs with
  | none =>
    cases hc' : clean xs' with
    | none => rfl
    | some ys' => rw [hc, hc'] at hsome; simp at hsome
  | some ys =>
    cases hc' : clean xs' with
    | none => rw [hc, hc'] at hsome; simp at hsome
    | some ys' => rw [clean_ext hlv hc hc']

/-- … but not in general: with a key scheduled twice the *last* occurrence wins, so the order of the
input matters (`["A:1","A:2"]` vs `["A:2","A:1"]`). -/
theorem clean_perm_fails : ∃ xs xs' : List Bytes, xs.Perm xs' ∧ clean xs ≠ clean xs' := by
  refine ⟨[[65, 58, 49], [65, 58, 50]], [[65, 58, 50], [65, 58, 49]], List.Perm.swap _ _ _, ?_⟩
  intro he
  have hs : (clean [[65, 58, 49], [65, 58, 50]]).isSome := (clean_isSome_iff _).mpr (by decide)
  cases hc : clean [[65, 58, 49], [65, 58, 50]] with
  | none => rw [hc] at hs; cases hs
  | some ys =>
    have h1 := (clean_lastVal hc).1 [65]
    have h2 := (clean_lastVal (he ▸ hc)).1 [65]
    rw [h1] at h2
    revert h2
    decide

/-! ## Activation -/

/-- A feature is active at `h` exactly when it is scheduled with a non-zero height `a ≤ h`
(`IsAfterNamedFeatureActivationHeight`; a height of 0 means "never"). -/
theorem active_iff (g : Globals) (h : Int) (k : Bytes) :
    isAfterNamed g h k = true ↔ g.featureMap.get k ≠ 0 ∧ h ≥ g.featureMap.get k := by
  unfold isAfterNamed
  simp

/-- After a successful upgrade message every feature it names is active exactly from the height it
names (last mention wins; height 0 = never). -/
theorem named_feature_active (stored : Upgrade.Upgrade) (g : Globals) (msg stored' : Upgrade.Upgrade) (g' : Globals)
    (hstep : handleUpgradeAfterUpdate stored g msg = some (stored', g'))
    (k : Bytes) (a : Int) (hk : lastVal msg.features k = some a) (h : Int) :
    isAfterNamed g' h k = true ↔ a ≠ 0 ∧ h ≥ a := by
  have : g'.featureMap.get k = a := by
    rw [after_map hstep k, lastVal_append, hk]
  rw [active_iff, this]

/-- Previously scheduled features remain scheduled, with their heights unless the message
re-schedules them; the stored list is canonical again. -/
theorem features_monotone (stored : Upgrade.Upgrade) (g : Globals) (msg stored' : Upgrade.Upgrade) (g' : Globals)
    (hstep : handleUpgradeAfterUpdate stored g msg = some (stored', g')) :
    (∀ k, k ∈ namedKeys stored.features → k ∈ namedKeys stored'.features) ∧
    (∀ k, lastVal msg.features k = none → lastVal stored'.features k = lastVal stored.features k) ∧
    stored'.features.Pairwise (· < ·) ∧ (namedKeys stored'.features).Nodup := by
  obtain ⟨hc, _⟩ := after_spec hstep
  obtain ⟨h1, h2, h3, h4⟩ := clean_canonical _ _ hc
  refine ⟨?_, ?_, h1, h2⟩
  · intro k hk
    rw [h4 k, namedKeys_append]
    exact List.mem_append_left _ hk
  · intro k hk
    rw [h3 k, lastVal_append, hk]

/-- The message is rejected (nothing changes) exactly when a stored or new feature string has no `:`. -/
theorem upgrade_fails_iff (stored : Upgrade.Upgrade) (g : Globals) (msg : Upgrade.Upgrade) :
    handleUpgradeAfterUpdate stored g msg = none ↔ ¬ ∀ s ∈ stored.features ++ msg.features, (parseEntry s).isSome := by
  rw [← after_isSome_iff stored g msg]
  cases handleUpgradeAfterUpdate stored g msg <;> simp

/-! ## Restart -/

/-- For every sequence of upgrade messages handled after the codec upgrade height, starting from a
state in which the live globals agree with the stored parameter: a node restarted on the resulting
state derives the same two heights and the same activation schedule as the running node —
**provided the stored upgrade height is not 0**. -/
theorem restart_same_schedule (stored : Upgrade.Upgrade) (g : Globals) (hc : Consistent stored g)
    (msgs : List Upgrade.Upgrade) (hh : (runAfter (stored, g) msgs).1.height ≠ 0) :
    ∃ r, restart (runAfter (stored, g) msgs).1 = some r ∧
      r.upgradeHeight = (runAfter (stored, g) msgs).2.upgradeHeight ∧
      r.oldUpgradeHeight = (runAfter (stored, g) msgs).2.oldUpgradeHeight ∧
      ∀ k h, isAfterNamed r h k = isAfterNamed (runAfter (stored, g) msgs).2 h k := by
  obtain ⟨r, h1, h2, h3, h4⟩ := restart_of_consistent (runAfter_consistent msgs (stored, g) hc) hh
  refine ⟨r, h1, h2, h3, ?_⟩
  intro k h
  unfold isAfterNamed
  rw [h4 k]

/-- With `fixes/C37-restart-feature-map.patch` the schedule is the same without the side condition. -/
theorem restart_same_schedule_fixed (stored : Upgrade.Upgrade) (g : Globals) (hc : Consistent stored g)
    (msgs : List Upgrade.Upgrade) :
    ∃ r, restartFixed (runAfter (stored, g) msgs).1 = some r ∧
      ∀ k h, isAfterNamed r h k = isAfterNamed (runAfter (stored, g) msgs).2 h k := by
  obtain ⟨r, h1, h4⟩ := restartFixed_of_consistent (runAfter_consistent msgs (stored, g) hc)
  refine ⟨r, h1, ?_⟩
  intro k h
  unfold isAfterNamed
  rw [h4 k]

/-- `"MAXCH:7"`. -/
def maxch7 : Bytes := [77, 65, 88, 67, 72, 58, 55]
/-- `"MAXCH"`. -/
def maxch : Bytes := [77, 65, 88, 67, 72]

/-- **Defect** (the excluded point): on a chain whose stored upgrade height is 0, a feature-only
upgrade activates the feature on running nodes, and a restarted node has lost it. -/
theorem restart_loses_features_when_height_zero :
    ∃ (stored' : Upgrade.Upgrade) (g' r : Globals),
      handleUpgradeAfterUpdate {} { upgradeHeight := 0 } { height := 1, version := featureKey, features := [maxch7] }
        = some (stored', g') ∧
      isAfterNamed g' 7 maxch = true ∧ restart stored' = some r ∧ isAfterNamed r 7 maxch = false := by
  have hsome := (after_isSome_iff {} { upgradeHeight := 0 }
    { height := 1, version := featureKey, features := [maxch7] }).mpr (by decide)
  cases hr : handleUpgradeAfterUpdate {} { upgradeHeight := 0 }
      { height := 1, version := featureKey, features := [maxch7] } with
  | none => rw [hr] at hsome; cases hsome
  | some st =>
    obtain ⟨stored', g'⟩ := st
    have hact := (named_feature_active _ _ _ _ _ hr maxch 7 (by decide) 7).mpr (by decide)
    obtain ⟨_, _, _, _, hbranch⟩ := after_spec hr
    have hz : stored'.height = 0 := by
      have : ¬ ((1 : Int) ≠ 1 ∧ featureKey ≠ featureKey) := by simp
      simp only [this, if_false] at hbranch
      exact hbranch.1
    refine ⟨stored', g', {}, rfl, hact, ?_, by decide⟩
    unfold restart
    simp [hz]

/-- The full statement (no side condition) is therefore false of the code as it is. -/
theorem restart_same_schedule_fails :
    ¬ ∀ (stored : Upgrade.Upgrade) (g : Globals), Consistent stored g → ∀ msgs : List Upgrade.Upgrade,
      ∃ r, restart (runAfter (stored, g) msgs).1 = some r ∧
        ∀ k h, isAfterNamed r h k = isAfterNamed (runAfter (stored, g) msgs).2 h k := by
  intro hall
  obtain ⟨stored', g', r, hstep, hact, hres, hlost⟩ := restart_loses_features_when_height_zero
  obtain ⟨r', hr', heq⟩ := hall {} { upgradeHeight := 0 } consistent_genesis_default
    [{ height := 1, version := featureKey, features := [maxch7] }]
  have hrun : runAfter (({} : Upgrade.Upgrade), ({ upgradeHeight := 0 } : Globals))
      [{ height := 1, version := featureKey, features := [maxch7] }] = (stored', g') := by
    simp [runAfter, hstep]
  rw [hrun] at hr' heq
  rw [hres] at hr'
  injection hr' with hr'
  subst hr'
  have := heq maxch 7
  rw [hlost, hact] at this
  cases this

/-- The legacy branch of `HandleUpgrade` (block height below the codec upgrade height): the message
is stored as sent — not merged with the stored features, not cleaned — and the live feature map is
not touched, so the named features are not active on running nodes (but a restart loads them). -/
theorem upgrade_before_codec_height_not_merged (stored : Upgrade.Upgrade) (g : Globals) (h : Int) (msg : Upgrade.Upgrade)
    (hb : isAfterUpgradeHeight g h = false) :
    handleUpgrade stored g h msg = some (msg, { g with upgradeHeight := msg.height }) := by
  unfold handleUpgrade handleUpgradeBefore
  simp [hb]

/-- A boot panics exactly when a stored feature string has no `:` (as coded: and the stored height is
not 0; after the restart patch: regardless of the height). -/
theorem restart_panics_iff (stored : Upgrade.Upgrade) :
    (restart stored = none ↔ stored.height ≠ 0 ∧ ∃ s ∈ stored.features, splitKV s = none) ∧
    (restartFixed stored = none ↔ ∃ s ∈ stored.features, splitKV s = none) := by
  have key : sliceToExistingMap stored.features [] = none ↔ ∃ s ∈ stored.features, splitKV s = none := by
    constructor
    · intro hn
      apply Classical.byContradiction
      intro hne
      have hall : ∀ s ∈ stored.features, (parseEntry s).isSome := by
        intro s hs
        cases hsp : splitKV s with
        | none => exact absurd ⟨s, hs, hsp⟩ hne
        | some kv => simp [parseEntry, hsp]
      have := sliceToExistingMap_isSome stored.features [] hall
      rw [hn] at this
      cases this
    · rintro ⟨s, hs, hsp⟩
      cases hm : sliceToExistingMap stored.features [] with
      | none => rfl
      | some m =>
        have := (sliceToExistingMap_spec _ _ _ hm).2.2.2 s hs
        simp [parseEntry, hsp] at this
  constructor
  · unfold restart
    by_cases hh : stored.height ≠ 0
    · rw [if_pos hh]
      cases hm : sliceToExistingMap stored.features [] with
      | none => simp [hh, ← key, hm]
      | some m =>
        have : ¬ ∃ s ∈ stored.features, splitKV s = none := fun h => by rw [key.mpr h] at hm; cases hm
        simp [this]
    · rw [if_neg hh]
      simp [hh]
  · unfold restartFixed
    cases hm : sliceToExistingMap stored.features [] with
    | none => simp [← key, hm]
    | some m =>
      have : ¬ ∃ s ∈ stored.features, splitKV s = none := fun h => by rw [key.mpr h] at hm; cases hm
      simp [this]

/-- **Defect of the legacy branch**: below the codec upgrade height a message is stored verbatim, also
when a feature string has no `:`.  From then on every boot panics in `SliceToExistingMap` (the node
cannot restart, with or without the restart patch) and every later upgrade message is rejected. -/
theorem legacy_branch_malformed_feature_bricks_restart :
    ∃ stored' g', handleUpgrade {} {} 90 { height := 17, version := featureKey, features := [[]] } = some (stored', g') ∧
      restart stored' = none ∧ restartFixed stored' = none ∧
      ∀ g msg, handleUpgradeAfterUpdate stored' g msg = none := by
  refine ⟨{ height := 17, version := featureKey, features := [[]] }, _,
    upgrade_before_codec_height_not_merged {} {} 90 _ (by decide), ?_, ?_, ?_⟩
  · exact (restart_panics_iff _).1.mpr ⟨by decide, [], by simp, by decide⟩
  · exact (restart_panics_iff _).2.mpr ⟨[], by simp, by decide⟩
  · intro g msg
    rw [upgrade_fails_iff]
    intro hall
    have := hall [] (by simp)
    revert this
    decide

/-! ## Non-vacuity -/

example : Consistent {} { upgradeHeight := 0 } := consistent_genesis_default
example : lastVal [maxch7] maxch = some 7 := by decide
example : isAfterUpgradeHeight {} 100 = false ∧ isAfterUpgradeHeight {} 30024 = true := by decide

end C37
