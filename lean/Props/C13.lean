import Proofs.Ledger.Caches
/-!
# C13 — Consensus is independent of off-chain activity and node-local caches

Model: `PocketModel/Ledger/Caches.lean` (the node-local caches as explicit state, the context
flavour each entry point builds), following the code as it is now (/repo 7e2b97e, fbab444).
Lemmas: `Proofs/Ledger/Caches.lean`.

* ApplicationCache: `caches_coherent` (invariant) ⇒ `consensus_indep_offchain` for every
  interleaving of custom queries at any height, RPC queries and CheckTx reads.
* Whole node — application cache, validators-by-chain cache, session cache, restarts, custom/RPC
  application queries, CheckTx reads **and dispatch traffic through both entry points**:
  `node_inv`, `consensus_indep_offchain_all`.
* ValidatorCache: never read. GlobalCtxCache: coherent (`prevCtx_indep_cache`). VbCCache:
  `getVbc_coherent`, `queryCtx_fixed_aligned`. Claim validation never reads the session cache
  (`claim_nocache_indep`).
* Last section, *Historical*: counterexamples for the code before the fixes (`historical_…`).
-/
namespace C13
open Caches

variable {K V : Type} [DecidableEq K]

/-- Every step of the as-is plumbing that is not a stale custom query, and every step of the
repaired plumbing, keeps the ApplicationCache coherent with the working store; the value observed
by block execution is the store's. -/
theorem step_coherent (q : QueryCtx) (n : Node K V) (s : Step K V) (hc : Coherent n.cache n.work)
    (hb : q = .fixed ∨ benign n s) :
    Coherent (step q n s).1.cache (step q n s).1.work ∧ (step q n s).2 = (stepPure n.work s).2 ∧
    (step q n s).1.work = (stepPure n.work s).1 := by
  cases s with
  | cons op =>
    cases op with
    | get k => exact ⟨getApp_coherent hc k rfl, by simp [step, stepPure, getApp_val hc], rfl⟩
    | set k v => exact ⟨coherent_add_upd hc k v, rfl, rfl⟩
    | del k => exact ⟨coherent_remove_upd hc k, rfl, rfl⟩
  | commit => exact ⟨hc, rfl, rfl⟩
  | restart cap => exact ⟨coherent_empty cap _, rfl, rfl⟩
  | off o =>
    cases o with
    | customQuery h k =>
      simp only [step, stepPure]
      cases hv : version n h with
      | none => exact ⟨hc, rfl, rfl⟩
      | some s' =>
        refine ⟨?_, rfl, rfl⟩
        rcases hb with rfl | hb
        · simp only [QueryCtx.prev, getApp_prev]; exact hc
        · cases q with
          | fixed => simp only [QueryCtx.prev, getApp_prev]; exact hc
          | asis => exact getApp_coherent hc k (hb s' hv)
    | rpcQuery h k =>
      simp only [step, stepPure]
      cases hv : version n h with
      | none => exact ⟨hc, rfl, rfl⟩
      | some s' =>
        refine ⟨?_, rfl, rfl⟩
        show Coherent (getApp true s' n.cache k).1 n.work
        rw [getApp_prev]; exact hc
    | checkTx k => exact ⟨getApp_coherent hc k rfl, rfl, rfl⟩
    | simulate k v =>
      refine ⟨?_, rfl, rfl⟩
      show Coherent (setApp true n.work (getApp true n.work n.cache k).1 k v).2 n.work
      simp only [getApp_prev, setApp, if_true]; exact hc

/-- All custom queries met along the run are benign (or the plumbing is the repaired one). -/
def AllBenign (q : QueryCtx) : Node K V → List (Step K V) → Prop
  | _, [] => True
  | n, s :: ss => (q = .fixed ∨ benign n s) ∧ AllBenign q (step q n s).1 ss

/-- **`caches_coherent`** — the invariant over whole histories, with its consequence: what block
execution observes is what a node *without any cache* observes, whatever the LRU capacities,
restarts and off-chain requests. -/
theorem caches_coherent (q : QueryCtx) (steps : List (Step K V)) (n : Node K V)
    (hc : Coherent n.cache n.work) (hb : AllBenign q n steps) :
    Coherent (run q n steps).1.cache (run q n steps).1.work ∧
    (run q n steps).2 = (runPure n.work steps).2 ∧ (run q n steps).1.work = (runPure n.work steps).1 := by
  induction steps generalizing n with
  | nil => exact ⟨hc, rfl, rfl⟩
  | cons s ss ih =>
    obtain ⟨h1, h2, h3⟩ := step_coherent q n s hc hb.1
    obtain ⟨i1, i2, i3⟩ := ih (step q n s).1 h1 hb.2
    simp only [run, runPure]
    rw [h3] at i2 i3
    exact ⟨i1, by rw [h2, i2], i3⟩

/-- Off-chain steps are invisible to the cache-less semantics. -/
theorem runPure_filter (w : Store K V) (steps : List (Step K V)) :
    runPure w steps = runPure w (steps.filter Step.onChain) := by
  induction steps generalizing w with
  | nil => rfl
  | cons s ss ih =>
    cases s with
    | off o =>
      have hn : ¬ (Step.onChain (Step.off o : Step K V) = true) := by simp [Step.onChain]
      rw [List.filter_cons_of_neg hn]; simp only [runPure, stepPure, List.nil_append]; exact ih w
    | cons op =>
      have hp : Step.onChain (Step.cons op : Step K V) = true := rfl
      rw [List.filter_cons_of_pos hp]; simp only [runPure]; rw [ih]
    | commit =>
      have hp : Step.onChain (Step.commit : Step K V) = true := rfl
      rw [List.filter_cons_of_pos hp]; simp only [runPure]; rw [ih]
    | restart c =>
      have hp : Step.onChain (Step.restart c : Step K V) = true := rfl
      rw [List.filter_cons_of_pos hp]; simp only [runPure]; rw [ih]

theorem allBenign_fixed (n : Node K V) (steps : List (Step K V)) : AllBenign .fixed n steps := by
  induction steps generalizing n with
  | nil => trivial
  | cons s ss ih => exact ⟨Or.inl rfl, ih _⟩

theorem allBenign_no_off (q : QueryCtx) (n : Node K V) (steps : List (Step K V)) :
    AllBenign q n (steps.filter Step.onChain) := by
  induction steps generalizing n with
  | nil => trivial
  | cons s ss ih =>
    cases s with
    | off o =>
      have hn : ¬ (Step.onChain (Step.off o : Step K V) = true) := by simp [Step.onChain]
      rw [List.filter_cons_of_neg hn]; exact ih n
    | cons op =>
      have hp : Step.onChain (Step.cons op : Step K V) = true := rfl
      rw [List.filter_cons_of_pos hp]; exact ⟨Or.inr trivial, ih _⟩
    | commit =>
      have hp : Step.onChain (Step.commit : Step K V) = true := rfl
      rw [List.filter_cons_of_pos hp]; exact ⟨Or.inr trivial, ih _⟩
    | restart c =>
      have hp : Step.onChain (Step.restart c : Step K V) = true := rfl
      rw [List.filter_cons_of_pos hp]; exact ⟨Or.inr trivial, ih _⟩

/-- **`consensus_indep_offchain`** (repaired query context): for every history, every interleaving
of custom queries at any height, RPC queries, CheckTx reads, simulations, every restart schedule and every LRU
capacity, block execution observes exactly what it observes in the history without the off-chain
requests. -/
theorem consensus_indep_offchain (steps : List (Step K V)) (n : Node K V) (hc : Coherent n.cache n.work) :
    (run .fixed n steps).2 = (run .fixed n (steps.filter Step.onChain)).2 := by
  rw [(caches_coherent .fixed steps n hc (allBenign_fixed n steps)).2.1,
    (caches_coherent .fixed _ n hc (allBenign_fixed n _)).2.1, ← runPure_filter]

/-- A freshly started node (empty caches) satisfies the hypothesis. -/
example (cap : Nat) (w : Store Nat Nat) : Coherent (LRU.empty cap : LRU Nat Nat) w := coherent_empty cap w

/-! ## ValidatorCache -/

/-- `GetValidator` returns the store's record whatever the validator cache holds. -/
theorem validator_cache_never_read (prev : Bool) (s : Store K V) (c c' : LRU K V) (k : K) :
    (getVal prev s c k).2 = s k ∧ (getVal prev s c k).2 = (getVal prev s c' k).2 := by
  unfold getVal; cases s k <;> simp

/-! ## GlobalCtxCache -/

theorem ctxCoherent_commit {S : Type} (versions : List S) (c : LRU Nat S) (h : CtxCoherent versions c) (s : S) :
    CtxCoherent (versions ++ [s]) c := by
  intro ht st hm
  have := h ht st hm
  have hlt : ht - 1 < versions.length := by
    cases hv : versions[ht - 1]? with
    | none => rw [hv] at this; cases this
    | some x => exact (List.getElem?_eq_some_iff.mp hv).1
  rw [List.getElem?_append_left hlt]; exact this

/-- `PrevCtx(height)` returns version `height` whether or not it is cached, and keeps the cache
coherent; commits keep it coherent (`ctxCoherent_commit`). -/
theorem prevCtx_indep_cache {S : Type} (versions : List S) (c : LRU Nat S) (h : CtxCoherent versions c) (height : Nat) :
    (prevCtx versions c height).2 = versions[height - 1]? ∧ CtxCoherent versions (prevCtx versions c height).1 := by
  unfold prevCtx
  cases hg : (c.get height).2 with
  | some s =>
    have e : c.get height = ((c.get height).1, some s) := by rw [← hg]
    rw [e]
    exact ⟨(h height s (get_val_mem hg)).symm, fun a b hm => h a b (mem_get_items hm)⟩
  | none =>
    have e : c.get height = ((c.get height).1, none) := by rw [← hg]
    rw [e]
    cases hv : versions[height - 1]? with
    | none => exact ⟨rfl, h⟩
    | some s =>
      refine ⟨rfl, ?_⟩
      intro a b hm
      rcases mem_add_items hm with ⟨rfl, rfl⟩ | ⟨_, hm'⟩
      · exact hv
      · exact h a b hm'

/-! ## VbCCache -/

/-- A context whose store is the version named by its header height reads the right list and
keeps the cache coherent. -/
theorem getVbc_coherent {S C L : Type} [DecidableEq C] (vbc : S → C → L) (versions : List S)
    (c : LRU (Nat × C) L) (h : VbcCoherent vbc versions c) (hdr : Nat) (s : S) (hs : versions[hdr - 1]? = some s) (ch : C) :
    (getVbc vbc hdr s c ch).2 = vbc s ch ∧ VbcCoherent vbc versions (getVbc vbc hdr s c ch).1 := by
  unfold getVbc
  cases hg : (c.get (hdr, ch)).2 with
  | some l =>
    have e : c.get (hdr, ch) = ((c.get (hdr, ch)).1, some l) := by rw [← hg]
    rw [e]
    obtain ⟨s', hs', hl⟩ := h hdr ch l (get_val_mem hg)
    rw [hs] at hs'; cases hs'
    exact ⟨hl, fun a b l' hm => h a b l' (mem_get_items hm)⟩
  | none =>
    have e : c.get (hdr, ch) = ((c.get (hdr, ch)).1, none) := by rw [← hg]
    rw [e]
    refine ⟨rfl, ?_⟩
    intro a b l' hm
    rcases mem_add_items hm with ⟨he, rfl⟩ | ⟨_, hm'⟩
    · cases he; exact ⟨s, hs, rfl⟩
    · exact h a b l' hm'

/-- The repaired query context (header height = requested version) satisfies that hypothesis. -/
theorem queryCtx_fixed_aligned {S : Type} (versions : List S) (latest req hdr : Nat) (s : S)
    (h : queryCtxOf .fixed versions latest req = some (hdr, s)) : versions[hdr - 1]? = some s := by
  unfold queryCtxOf at h
  cases hv : versions[req - 1]? with
  | none => simp [hv] at h
  | some s' => simp [hv] at h; obtain ⟨rfl, rfl⟩ := h; exact hv

/-! ## GlobalSessionCache -/

/-- Claim validation (as it is now: `useCache = false`) never depends on the session cache. -/
theorem claim_nocache_indep {S H Sess : Type} [DecidableEq H] (f : SessionFn S H Sess) (c c' : LRU H Sess) (hdr : H)
    (st en : S) : claimSession false f c hdr st en = claimSession false f c' hdr st en := rfl

/-! ## The whole node -/

section Whole
variable {S C L H Sess : Type} [DecidableEq C] [DecidableEq H]

theorem vbcCoherent_commit (vbc : S → C → L) (versions : List S) (c : LRU (Nat × C) L)
    (h : VbcCoherent vbc versions c) (s : S) : VbcCoherent vbc (versions ++ [s]) c := by
  intro ht ch l hm
  obtain ⟨st, hs, hl⟩ := h ht ch l hm
  have hlt : ht - 1 < versions.length := (List.getElem?_eq_some_iff.mp hs).1
  exact ⟨st, by rw [List.getElem?_append_left hlt]; exact hs, hl⟩

theorem vbcCoherent_empty (vbc : S → C → L) (versions : List S) (cap : Nat) :
    VbcCoherent vbc versions (LRU.empty cap) := by
  intro h ch l hm; simp [LRU.empty] at hm

/-- The invariant of the whole node: the application cache is coherent with the working store and
every validators-by-chain entry is the node list of the version its key names. (The session cache
needs no invariant: block execution never reads it.) -/
def NodeInv (W : World S C L H Sess) (n : FNode K V S C L H Sess) : Prop :=
  Coherent n.app.cache n.app.work ∧ VbcCoherent W.vbc n.ms n.vbcCache

/-- **`node_inv`**: every step — block execution, commit, restart, and every kind of off-chain
request — keeps the invariant, and what block execution observes is what the cache-less reference
observes. -/
theorem node_inv (W : World S C L H Sess) (n : FNode K V S C L H Sess) (s : FStep K V S H) (hi : NodeInv W n) :
    NodeInv W (fstep W n s).1 ∧ (fstep W n s).2 = (fstepPure W n.app.work n.ms s).2 ∧
    (fstep W n s).1.app.work = (fstepPure W n.app.work n.ms s).1.1 ∧
    (fstep W n s).1.ms = (fstepPure W n.app.work n.ms s).1.2 := by
  obtain ⟨hc, hv⟩ := hi
  cases s with
  | app st =>
    obtain ⟨h1, h2, h3⟩ := step_coherent .fixed n.app st hc (Or.inl rfl)
    exact ⟨⟨h1, hv⟩, by simp only [fstep, fstepPure, h2], h3, rfl⟩
  | commit m =>
    exact ⟨⟨hc, vbcCoherent_commit W.vbc n.ms n.vbcCache hv m⟩, rfl, rfl, rfl⟩
  | claim hdr =>
    simp only [fstep, fstepPure]
    cases hst : n.ms[W.startOf hdr - 1]? with
    | none => exact ⟨⟨hc, hv⟩, rfl, rfl, rfl⟩
    | some st =>
      cases hen : n.ms[W.endOf hdr - 1]? with
      | none => exact ⟨⟨hc, hv⟩, rfl, rfl, rfl⟩
      | some en =>
        obtain ⟨g1, g2⟩ := getVbc_coherent W.vbc n.ms n.vbcCache hv (W.startOf hdr) st hst (W.chainOf hdr)
        exact ⟨⟨hc, g2⟩, by simp only [g1], rfl, rfl⟩
  | dispatch hdr at_ =>
    simp only [fstep, fstepPure]
    cases hst : n.ms[W.startOf hdr - 1]? with
    | none => exact ⟨⟨hc, hv⟩, rfl, rfl, rfl⟩
    | some st =>
      cases hcur : n.ms[at_ - 1]? with
      | none => exact ⟨⟨hc, hv⟩, rfl, rfl, rfl⟩
      | some cur =>
        cases hg : (n.sessCache.get hdr).2 with
        | some x => exact ⟨⟨hc, hv⟩, rfl, rfl, rfl⟩
        | none =>
          obtain ⟨_, g2⟩ := getVbc_coherent W.vbc n.ms n.vbcCache hv (W.startOf hdr) st hst (W.chainOf hdr)
          exact ⟨⟨hc, g2⟩, rfl, rfl, rfl⟩
  | restart cap =>
    exact ⟨⟨coherent_empty cap _, vbcCoherent_empty W.vbc n.ms _⟩, rfl, rfl, rfl⟩

theorem frun_eq_pure (W : World S C L H Sess) (steps : List (FStep K V S H)) (n : FNode K V S C L H Sess)
    (hi : NodeInv W n) :
    (frun W n steps).2 = (frunPure W n.app.work n.ms steps).2 ∧ NodeInv W (frun W n steps).1 := by
  induction steps generalizing n with
  | nil => exact ⟨rfl, hi⟩
  | cons s ss ih =>
    obtain ⟨h1, h2, h3, h4⟩ := node_inv W n s hi
    obtain ⟨i1, i2⟩ := ih (fstep W n s).1 h1
    simp only [frun, frunPure]
    rw [h3, h4] at i1
    exact ⟨by rw [h2, i1], i2⟩

theorem frunPure_filter (W : World S C L H Sess) (w : Store K V) (ms : List S) (steps : List (FStep K V S H)) :
    (frunPure W w ms steps).2 = (frunPure W w ms (steps.filter FStep.onChain)).2 := by
  induction steps generalizing w ms with
  | nil => rfl
  | cons s ss ih =>
    by_cases hs : FStep.onChain s = true
    · rw [List.filter_cons_of_pos hs]; simp only [frunPure]; rw [ih]
    · rw [List.filter_cons_of_neg hs]
      simp only [frunPure]
      cases s with
      | app st =>
        cases st with
        | off o => simpa [fstepPure, stepPure] using ih w ms
        | cons op => simp [FStep.onChain, Step.onChain] at hs
        | commit => simp [FStep.onChain, Step.onChain] at hs
        | restart c => simp [FStep.onChain, Step.onChain] at hs
      | dispatch hdr a => simpa [fstepPure] using ih w ms
      | commit m => simp [FStep.onChain] at hs
      | claim hdr => simp [FStep.onChain] at hs
      | restart c => simp [FStep.onChain] at hs

/-- **`consensus_indep_offchain_all`**: for every history of the whole node — block execution
(application reads/writes, claim validations), commits, restarts with any capacities — and **every**
interleaving of off-chain traffic (custom application queries at any height, RPC queries, CheckTx
reads, simulated stake transactions, dispatch requests through the RPC and through `Query custom/pocketcore/dispatch` at any
height), block execution observes exactly what it observes in the history without that traffic. -/
theorem consensus_indep_offchain_all (W : World S C L H Sess) (steps : List (FStep K V S H))
    (n : FNode K V S C L H Sess) (hi : NodeInv W n) :
    (frun W n steps).2 = (frun W n (steps.filter FStep.onChain)).2 := by
  rw [(frun_eq_pure W steps n hi).1, (frun_eq_pure W _ n hi).1, ← frunPure_filter]

/-- A freshly started node satisfies the invariant whatever its stores hold. -/
example (W : World S C L H Sess) (w : Store Nat Nat) (ms : List S) :
    NodeInv W (⟨⟨w, [], LRU.empty 3⟩, ms, LRU.empty 5, LRU.empty 5⟩ : FNode Nat Nat S C L H Sess) :=
  ⟨coherent_empty 3 w, vbcCoherent_empty W.vbc ms 5⟩

end Whole

/-! ## Historical: the code before 7e2b97e / fbab444

Counterexamples (and the partial theorem) that held of the code as it was: a custom-query context
that was not marked prev and carried the latest header over the store of the requested height
(`QueryCtx.asis`), and a claim validation that preferred the node-local session cache
(`claimSession true`).  The twin harness reproduces each of them when the corresponding fix is
reverted. -/

/-- HISTORICAL (query context before 7e2b97e): the same held only under the hypothesis that every
custom application query read a version agreeing with the working store on the queried key. -/
theorem historical_consensus_indep_offchain_asis_partial (steps : List (Step K V)) (n : Node K V)
    (hc : Coherent n.cache n.work) (hb : AllBenign .asis n steps) :
    (run .asis n steps).2 = (run .asis n (steps.filter Step.onChain)).2 := by
  rw [(caches_coherent .asis steps n hc hb).2.1,
    (caches_coherent .asis _ n hc (allBenign_no_off .asis n steps)).2.1, ← runPure_filter]

/-- The witness state: application 1 staked with 10. -/
def w0 : Store Nat Nat := fun k => if k = 1 then some 10 else none
def n0 (cap : Nat) : Node Nat Nat := ⟨w0, [], LRU.empty cap⟩

/-- HISTORICAL counterexample (query context before 7e2b97e): the application
edits its stake to 12 (block 2), the node restarts, serves one custom `application` query at height
1, and block execution then reads stake 10 instead of 12. -/
theorem historical_custom_query_poisons_appcache :
    (run .asis (n0 100) [.commit, .cons (.set 1 12), .commit, .restart 100, .off (.customQuery 1 1), .cons (.get 1)]).2 = [some 10] ∧
    (run .asis (n0 100) [.commit, .cons (.set 1 12), .commit, .restart 100, .cons (.get 1)]).2 = [some 12] ∧
    (run .fixed (n0 100) [.commit, .cons (.set 1 12), .commit, .restart 100, .off (.customQuery 1 1), .cons (.get 1)]).2 = [some 12] := by
  decide

/-- HISTORICAL. The same without a restart: capacity 1 and a second application evict the entry first. -/
theorem historical_eviction_poisons_appcache :
    (run .asis (n0 1) [.commit, .cons (.set 1 12), .cons (.set 2 7), .commit, .off (.customQuery 1 1), .cons (.get 1)]).2 = [some 10] ∧
    (run .asis (n0 1) [.commit, .cons (.set 1 12), .cons (.set 2 7), .commit, .cons (.get 1)]).2 = [some 12] := by
  decide

/-- HISTORICAL. A deleted application could be resurrected in the cache by a historical query. -/
theorem historical_deleted_app_resurrected :
    (run .asis (n0 100) [.commit, .cons (.del 1), .commit, .off (.customQuery 1 1), .cons (.get 1)]).2 = [some 10] ∧
    (run .asis (n0 100) [.commit, .cons (.del 1), .commit, .cons (.get 1)]).2 = [none] := by
  decide

/-- HISTORICAL counterexample for the query context before 7e2b97e: a custom
dispatch query for height 1 served while the latest height is 2 files version 1's node list under
height 2; block execution later reads it for height 2. -/
theorem historical_custom_dispatch_poisons_vbc :
    ∃ (versions : List Nat) (hdr s : Nat),
      queryCtxOf .asis versions 2 1 = some (hdr, s) ∧
      (getVbc (fun (st : Nat) (_ : Unit) => st) 2 versions[1]!
        (getVbc (fun (st : Nat) (_ : Unit) => st) hdr s (LRU.empty 10) ()).1 ()).2 ≠ versions[1]! :=
  ⟨[100, 200], 2, 100, by decide, by decide⟩

/-- HISTORICAL (claim validation before fbab444 read the cache): the cached session was harmless exactly when filtering against the state at dispatch
time and against the session-end state give the same session. -/
theorem historical_claim_cache_partial {S H Sess : Type} [DecidableEq H] (f : SessionFn S H Sess) (cap : Nat) (hdr : H)
    (st latest en : S) (hcap : 0 < cap) (hsame : f.sess hdr st latest = f.sess hdr st en) :
    claimSession true f (dispatch f (LRU.empty cap) hdr st latest).1 hdr st en = f.sess hdr st en := by
  have hp : (dispatch f (LRU.empty cap) hdr st latest).1.peek hdr = some (f.sess hdr st latest) := by
    unfold dispatch LRU.get LRU.peek LRU.empty LRU.add
    cases cap with
    | zero => cases hcap
    | succ m => simp
  unfold claimSession
  simp [hp, hsame]

/-- HISTORICAL counterexample (claim validation before fbab444): the session function keeps a node iff it
still exists in the second state; a dispatch served while node 7 still exists makes the claim
validation use a session containing node 7 although it is gone at session end. -/
theorem historical_dispatch_session_poisons_claim :
    let f : SessionFn (List Nat) Unit (List Nat) := ⟨fun _ start e => start.filter (fun x => e.contains x)⟩
    claimSession true f (dispatch f (LRU.empty 10) () [7, 8] [7, 8]).1 () [7, 8] [8] = [7, 8] ∧
    claimSession true f (LRU.empty 10) () [7, 8] [8] = [8] ∧
    claimSession false f (dispatch f (LRU.empty 10) () [7, 8] [7, 8]).1 () [7, 8] [8] = [8] := by
  decide

end C13
