import Proofs.Merkle.Levels
/-!
# C29 — Merkle-sum-index proofs for committed relays always verify

Model: `PocketModel/Merkle/SumIndex.lean` (`x/pocketcore/types/merkle.go`, level check of
`x/pocketcore/keeper/proof.go`).
-/
namespace C29
open SumIndex

/-- The level count used at verification is the exact ceiling of log₂ of the relay count. -/
theorem levels_spec (n : Nat) : n ≤ 2 ^ levels n ∧ ∀ k, n ≤ 2 ^ k → levels n ≤ k :=
  ⟨le_two_pow_levels n, fun k h => levels_le_of_le_two_pow n k h⟩

example : levels 5 = 3 ∧ levels 8 = 3 ∧ levels 9 = 4 ∧ levels 1100 = 11 := by decide

end C29
