import Proofs.Merkle.Honest
import Proofs.Merkle.HasMatch
/-!
# C29 — Merkle-sum-index proofs for committed relays always verify

Model: `PocketModel/Merkle/SumIndex.lean` (`x/pocketcore/types/merkle.go`, level check of
`x/pocketcore/keeper/proof.go`).  `H` is the hash function (blake2b-256 in the code), `post` the
parent-hash layout (before / after the codec upgrade); every theorem holds for all `H` and both layouts.
A leaf's *sum* is `sumFromHash (H leaf)`, the first eight bytes of its hash, little-endian.
-/
namespace C29
open SumIndex

/-- The hypothesis under which the code is meant to work (DESIGN.md §5 C29): leaf sums positive
and pairwise distinct, and the largest sum leaves room for the width-1 padding ranges below 2^64. -/
def GoodSums (H : Bytes → Bytes) (leaves : List Bytes) : Prop :=
  ((leaves.map H).map sumFromHash).Nodup ∧ (∀ l ∈ leaves, 0 < sumFromHash (H l)) ∧
    ∀ l ∈ leaves, sumFromHash (H l) + (2 ^ levels leaves.length - leaves.length) < two64

/-- **Every generated proof verifies.**  For every leaf list of size `2 ≤ n ≤ 2^32` (in particular
every `n ≥ 5` the chain admits) with good sums, for both hashing eras and every index `i < n`:
`GenerateRoot` and `GenerateProofs` succeed, the proof is for the `i`-th leaf in sorted order, and
`Validate` with `levels n` levels returns `(true, replay = false)`. -/
theorem proof_verifies (H : Bytes → Bytes) (post : Bool) (leaves : List Bytes)
    (hn : 2 ≤ leaves.length) (h32 : leaves.length ≤ 2 ^ 32) (hg : GoodSums H leaves)
    (i : Nat) (hi : i < leaves.length) :
    ∃ root sorted p leaf, genRoot H post leaves = some (root, sorted) ∧
      genProof H post leaves i = some (p, leaf) ∧ sorted[i]? = some leaf ∧
      validate H post p root leaf (levels leaves.length) = some (true, false) := by
  obtain ⟨hd, hp, hgd⟩ := hg
  have hlen : (entries H leaves).length = leaves.length := by simp [entries]
  have hsum : (entries H leaves).map Entry.sum = (leaves.map H).map sumFromHash := by
    simp [entries, Entry.sum, List.map_map, Function.comp_def]
  obtain ⟨root, sorted, p, leaf, h1, h2, h3, _, _, _, h4⟩ :=
    proof_verifies_entries H post (entries H leaves) (by omega) (by omega) (by rw [hsum]; exact hd)
      (by
        intro e he
        simp only [entries, List.mem_map] at he
        obtain ⟨l, hl, rfl⟩ := he
        exact hp l hl)
      (by
        intro e he
        simp only [entries, List.mem_map] at he
        obtain ⟨l, hl, rfl⟩ := he
        rw [hlen]; exact hgd l hl)
      (by
        intro e he
        simp only [entries, List.mem_map] at he
        obtain ⟨l, hl, rfl⟩ := he
        rfl)
      i (by omega)
  rw [hlen] at h4
  exact ⟨root, sorted, p, leaf, h1, h2, h3, h4⟩

/-- The statement of the property: at least five leaves. -/
theorem proof_verifies_min5 (H : Bytes → Bytes) (post : Bool) (leaves : List Bytes)
    (hn : 5 ≤ leaves.length) (h32 : leaves.length ≤ 2 ^ 32) (hg : GoodSums H leaves)
    (i : Nat) (hi : i < leaves.length) :
    ∃ root sorted p leaf, genRoot H post leaves = some (root, sorted) ∧
      genProof H post leaves i = some (p, leaf) ∧ sorted[i]? = some leaf ∧
      validate H post p root leaf (levels leaves.length) = some (true, false) :=
  proof_verifies H post leaves (by omega) h32 hg i hi

/-- The hypotheses are satisfiable: five leaves whose (toy) hashes have sums 1..5. -/
example : GoodSums id [[3], [1], [5], [2], [4]] ∧ 5 ≤ ([[3], [1], [5], [2], [4]] : List Bytes).length := by
  refine ⟨⟨by decide, by decide, by decide⟩, by decide⟩

/-- The level count used at verification (`levels n`, the keeper's `⌈log₂ n⌉`) equals the tree
depth produced by padding: the padded leaf level has `2 ^ levels n` nodes, the generated proof
carries exactly `levels n` sibling entries, and it passes the merkle part of `Keeper.ValidateProof`
(level check, `hasMatch`, `Validate`) with `TotalProofs = n`. -/
theorem levels_matches_hashranges (H : Bytes → Bytes) (post : Bool) (leaves : List Bytes)
    (hn : 2 ≤ leaves.length) (h32 : leaves.length ≤ 2 ^ 32) (hg : GoodSums H leaves)
    (i : Nat) (hi : i < leaves.length) :
    nextPowerOfTwo leaves.length = 2 ^ levels leaves.length ∧
    ∃ p leaf, genProof H post leaves i = some (p, leaf) ∧
      p.hashRanges.length = levels leaves.length ∧
      validateProof H post p (match genRoot H post leaves with | some (r, _) => r | none => default) leaf
        leaves.length = some (true, false) := by
  obtain ⟨hd, hp, hgd⟩ := hg
  have hlen : (entries H leaves).length = leaves.length := by simp [entries]
  have hsum : (entries H leaves).map Entry.sum = (leaves.map H).map sumFromHash := by
    simp [entries, Entry.sum, List.map_map, Function.comp_def]
  obtain ⟨root, sorted, p, leaf, h1, h2, h3, _, _, h5, h4⟩ :=
    proof_verifies_entries H post (entries H leaves) (by omega) (by omega) (by rw [hsum]; exact hd)
      (by
        intro e he
        simp only [entries, List.mem_map] at he
        obtain ⟨l, hl, rfl⟩ := he
        exact hp l hl)
      (by
        intro e he
        simp only [entries, List.mem_map] at he
        obtain ⟨l, hl, rfl⟩ := he
        rw [hlen]; exact hgd l hl)
      (by
        intro e he
        simp only [entries, List.mem_map] at he
        obtain ⟨l, hl, rfl⟩ := he
        rfl)
      i (by omega)
  rw [hlen] at h4 h5
  refine ⟨nextPowerOfTwo_eq _ (by omega) h32, p, leaf, h2, h5, ?_⟩
  have hr : genRoot H post leaves = some (root, sorted) := h1
  have hm := genProofE_hasMatch H post (entries H leaves) (by omega) (by omega) root sorted h1 i p leaf h2
  simp only [hr, validateProof, validateProofH, h5, ne_eq, not_true_eq_false, if_false, hm, Bool.not_true,
    Bool.false_eq_true]
  exact h4

/-- **The verifier's scheme is the session's.**  Root and proof of a claim are generated with the
layout in force at the session height (`postSession`); the keeper verifies with that same layout,
so the generated proof of every committed position passes `Keeper.ValidateProof`'s merkle part on
either side of the upgrade the proof block may be (`postProofBlock` arbitrary) — in particular for
a session in flight across the hashing upgrade. -/
theorem verify_scheme_is_sessions (H : Bytes → Bytes) (postSession postProofBlock : Bool)
    (leaves : List Bytes) (hn : 2 ≤ leaves.length) (h32 : leaves.length ≤ 2 ^ 32)
    (hg : GoodSums H leaves) (i : Nat) (hi : i < leaves.length) :
    ∃ root sorted p leaf, genRoot H postSession leaves = some (root, sorted) ∧
      genProof H postSession leaves i = some (p, leaf) ∧
      keeperValidate H postSession postProofBlock p root leaf leaves.length = some (true, false) := by
  obtain ⟨_, p, leaf, hgen, _, hv⟩ := levels_matches_hashranges H postSession leaves hn h32 hg i hi
  obtain ⟨root, sorted, _, _, hr, _, _, _⟩ := proof_verifies H postSession leaves hn h32 hg i hi
  refine ⟨root, sorted, p, leaf, hr, hgen, ?_⟩
  simp only [hr] at hv
  exact hv

example : verifierScheme false true = false ∧ verifierScheme true false = true := by decide

/-- The keeper's `hasMatch` test (some sibling entry or the target ends where the root ends) never
rejects a generated proof — for any leaf set, good sums or not. -/
theorem generated_proof_has_match (H : Bytes → Bytes) (post : Bool) (leaves : List Bytes)
    (hn : 2 ≤ leaves.length) (h32 : leaves.length ≤ 2 ^ 32) (root : HashRange) (sorted : List Bytes)
    (hroot : genRoot H post leaves = some (root, sorted)) (i : Nat) (p : MerkleProof) (leaf : Bytes)
    (hgen : genProof H post leaves i = some (p, leaf)) : hasMatch p root = true := by
  have hlen : (entries H leaves).length = leaves.length := by simp [entries]
  exact genProofE_hasMatch H post (entries H leaves) (by omega) (by omega) root sorted hroot i p leaf hgen

example : hasMatch ⟨1, [⟨[], 0, 4⟩, ⟨[], 7, 9⟩], ⟨[], 4, 7⟩⟩ ⟨[], 0, 9⟩ = true := by decide

/-- The level count is the exact ceiling of log₂ of the relay count. -/
theorem levels_spec (n : Nat) : n ≤ 2 ^ levels n ∧ ∀ k, n ≤ 2 ^ k → levels n ≤ k :=
  ⟨le_two_pow_levels n, fun k h => levels_le_of_le_two_pow n k h⟩

example : levels 5 = 3 ∧ levels 8 = 3 ∧ levels 9 = 4 ∧ levels 1100 = 11 := by decide

/-- Why the size bound `n ≤ 2^32` is there: `nextPowerOfTwo` smears with shifts up to 16 only, so
one past 2^32 it returns an odd number and `levelUp` indexes out of range (Go panic). -/
theorem nextPowerOfTwo_fails_beyond_2_32 : nextPowerOfTwo (2 ^ 32 + 1) = 2 ^ 33 - 1 :=
  nextPowerOfTwo_large

end C29
