import Proofs.Ledger.Pocket
/-!
# C32 — Each claim is rewarded at most once and only with a valid proof

Model: `PocketModel/Ledger/Pocket.lean` (handleClaimMsg / handleProofMsg / ValidateClaim /
ValidateProof / ExecuteProof / DeleteExpiredClaims as coded).  The facts owned by other properties
are oracle inputs (`ClaimEnv`, `ProofEnv`).  `fixed = false` is the code as it is; `fixed = true`
is the variant whose `ExecuteProof` deletes the claim it looked up.
-/
namespace C32
open Pocket Pocket.Claims

/-! ## Sample values for the non-vacuity examples -/

def kRelay : ClaimKey := ⟨[1], [0xa0], [0, 1], 1, 1⟩
def kChal : ClaimKey := { kRelay with et := 2 }
def envC : ClaimEnv :=
  { vb := none, anteOk := true, sessCtxOk := true, sessB := 4, minProofs := 5, chainSupported := true,
    nodeFound := true, appFound := true, maxRelays := 20000, chainsOverLimit := false, sessionPre := none,
    inSession := true, curW := 2, curB := 4, claimExp := 3 }
def envP : ProofEnv :=
  { vb := none, anteOk := true, levelOk := true, rootMatch := true, sessCtxOk := true, indexAvail := true,
    indexOk := true, merkle := .valid, appFound := true, leafErr := none, reward := 5000, burn := 15000,
    challengeBurn := 0 }
def s5 : State := { height := 5, claims := [], supply := 1000 }
def mC (k : ClaimKey) : MsgClaim := { key := k, total := 5, root := [7] }
def cl : Claim := { total := 5, root := [7], expiration := 17 }

/-! ## Claims -/

/-- First failing check of a list of (failed?, error) pairs. -/
def firstFailure : List (Bool × Code) → Option Code
  | [] => none
  | (b, c) :: rest => if b then some c else firstFailure rest

/-- `ValidateClaim` is exactly this sequence of checks, in this order, with these error codes:
evidence type set, session context, session ended, minimum proofs, chain supported, node staked at
the session height, application staked at the session height, relays within the allowance (MREL),
application chains within the limit, session construction, header names the application in its
canonical spelling, node in session, claim not mature. -/
theorem claim_checks_in_order (h : Int) (m : MsgClaim) (e : ClaimEnv) :
    validateClaim h m e = firstFailure
      [ (decide (m.key.et = 0), Code.noEvidenceType),
        (!e.sessCtxOk, Code.internal),
        (decide (h ≤ m.key.sbh + e.sessB - 1), Code.invalidBlockHeight),
        (decide (m.total < e.minProofs), Code.invalidProofs),
        (!e.chainSupported, Code.chainNotSupported),
        (!e.nodeFound, Code.nodeNotFound),
        (!e.appFound, Code.appNotFound),
        (decide (e.maxRelays < m.total), Code.overService),
        (e.chainsOverLimit, Code.chainsOverLimit),
        (e.sessionPre.isSome, e.sessionPre.getD Code.internal),
        (!e.headerCanonical, Code.invalidAppPubKey),
        (!e.inSession, Code.invalidSession),
        (decide (h > e.curW * e.curB + m.key.sbh), Code.expiredProofsSubmission) ] := by
  unfold validateClaim
  cases hsp : e.sessionPre with
  | none =>
    simp only [firstFailure, decide_eq_true_eq, Option.isSome_none, Bool.false_eq_true, if_false]
  | some c =>
    simp only [firstFailure, decide_eq_true_eq, Option.isSome_some, if_true, Option.getD_some]

example : validateClaim 4 (mC kRelay) envC = some Code.invalidBlockHeight := by decide
example : validateClaim 10 (mC kRelay) envC = some Code.expiredProofsSubmission := by decide
example : validateClaim 9 (mC kRelay) envC = none := by decide

/-- A claim is stored only if the transaction is well-formed and authenticated, the evidence type
is set, the session has ended (`height > S + B − 1`), the claim is not mature (`height ≤ S + W·B`),
the node and the application were staked at the session height, the chain is supported, the header
spells the application key canonically, the node is in the session, and the relays are within the application's allowance and above the minimum. -/
theorem claim_accepted_requires (s : State) (m : MsgClaim) (e : ClaimEnv) (c : Claim)
    (h : Event.accepted m.key c ∈ (deliverClaim s m e).events ∨ (deliverClaim s m e).err = none) :
    claimAcceptable s.height m e = true ∧
    e.dup = false ∧ e.vb = none ∧ e.anteOk = true ∧ (m.key.et = 1 ∨ m.key.et = 2) ∧ e.sessCtxOk = true ∧
    s.height > m.key.sbh + e.sessB - 1 ∧ e.minProofs ≤ m.total ∧ e.chainSupported = true ∧
    e.nodeFound = true ∧ e.appFound = true ∧ m.total ≤ e.maxRelays ∧ e.chainsOverLimit = false ∧
    e.sessionPre = none ∧ e.headerCanonical = true ∧ e.inSession = true ∧
    s.height ≤ e.curW * e.curB + m.key.sbh := by
  rcases deliverClaim_cases s m e with ⟨_, h2, h3⟩ | ⟨_, _, _, hd, hv, ha, hval, het⟩
  · rcases h with h | h
    · rw [h2] at h; simp at h
    · exact absurd h h3
  · obtain ⟨_, a1, a2, a3, a4, a5, a6, a7, a8, a9, a9', a10, a11⟩ := validateClaim_none _ _ _ hval
    have a2 : s.height > m.key.sbh + e.sessB - 1 := by omega
    have a3 : e.minProofs ≤ m.total := by omega
    have a7 : m.total ≤ e.maxRelays := by omega
    have a11 : s.height ≤ e.curW * e.curB + m.key.sbh := by omega
    refine ⟨?_, hd, hv, ha, het, a1, a2, a3, a4, a5, a6, a7, a8, a9, a9', a10, a11⟩
    unfold claimAcceptable
    rcases het with het | het <;> simp [hd, hv, ha, het, a1, a4, a5, a6, a8, a9, a9', a10] <;> omega

/-- Conversely the handler stores every claim that passes those checks (the spec is exact). -/
theorem claim_accepted_iff (s : State) (m : MsgClaim) (e : ClaimEnv) :
    (deliverClaim s m e).err = none ↔ claimAcceptable s.height m e = true := by
  constructor
  · intro h
    exact (claim_accepted_requires s m e (storedClaim s.height m e) (Or.inr h)).1
  · intro h
    unfold claimAcceptable at h
    simp only [Bool.and_eq_true, Bool.or_eq_true, beq_iff_eq, decide_eq_true_eq, Option.isNone_iff_eq_none,
      Bool.not_eq_true'] at h
    obtain ⟨⟨⟨⟨⟨⟨⟨⟨⟨⟨⟨⟨⟨⟨⟨hd, hv⟩, ha⟩, het⟩, a1⟩, a2⟩, a3⟩, a4⟩, a5⟩, a6⟩, a7⟩, a8⟩, a9⟩, a9'⟩, a10⟩, a11⟩ := h
    have het0 : m.key.et ≠ 0 := by omega
    have hnot : ¬ (m.key.et ≠ 1 ∧ m.key.et ≠ 2) := by omega
    have hval := validateClaim_of_checks s.height m e het0 a1 (by omega) (by omega) a4 a5 a6 (by omega) a8 a9 a9' a10
      (by omega)
    simp [deliverClaim, handleClaim, hval, hd, hv, ha, hnot]

example : (deliverClaim s5 (mC kRelay) envC).err = none := by decide
example : (deliverClaim s5 (mC kRelay) { envC with inSession := false }).err = some Code.invalidSession := by decide

/-- A rejected claim transaction changes nothing. -/
theorem claim_rejected_no_change (s : State) (m : MsgClaim) (e : ClaimEnv)
    (h : (deliverClaim s m e).err ≠ none) :
    (deliverClaim s m e).state = s ∧ (deliverClaim s m e).events = [] := by
  rcases deliverClaim_cases s m e with ⟨h1, h2, _⟩ | ⟨h1, _⟩
  · exact ⟨h1, h2⟩
  · exact absurd h1 h

/-- An accepted claim REPLACES whatever was stored under its key (new total, new root, new
expiration counted from the current height); all other keys are untouched.  A later proof is
therefore judged against — and pays for — the latest claim only. -/
theorem overwritten_claim (s : State) (m : MsgClaim) (e : ClaimEnv) (h : (deliverClaim s m e).err = none) :
    Claims.get (deliverClaim s m e).state.claims m.key =
        some { total := m.total, root := m.root,
               expiration := if m.expiration = 0 then s.height + e.claimExp * e.sessB else m.expiration } ∧
    (∀ k, k ≠ m.key → Claims.get (deliverClaim s m e).state.claims k = Claims.get s.claims k) ∧
    (deliverClaim s m e).state.supply = s.supply ∧
    (deliverClaim s m e).events = [.accepted m.key (storedClaim s.height m e)] := by
  rcases deliverClaim_cases s m e with ⟨_, _, h3⟩ | ⟨_, h1, h2, _⟩
  · exact absurd h h3
  · rw [h1, h2]
    refine ⟨by simp [get_set_self, storedClaim], fun k hk => ?_, rfl, rfl⟩
    exact get_set_ne _ _ (fun e => hk e.symm)

example : Claims.get (deliverClaim { s5 with claims := [(kRelay, { total := 99, root := [1], expiration := 12 })] }
    (mC kRelay) envC).state.claims kRelay = some cl := by decide

/-! ## Proofs -/

/-- `handleProofMsg` is exactly this sequence of checks on the stored claim. -/
theorem proof_checks_in_order (fixed : Bool) (s : State) (m : MsgProof) (e : ProofEnv) :
    (handleProof fixed s m e).err = firstFailure
      [ ((Claims.get s.claims m.key).isNone, Code.claimNotFound),
        (!e.levelOk, Code.invalidProofs),
        (!e.rootMatch, Code.invalidMerkleVerify),
        (!e.sessCtxOk, Code.internal),
        (!e.indexAvail, Code.internal),
        (!e.indexOk, Code.invalidProofs),
        (e.merkle == .replay, Code.replayAttack),
        (e.merkle == .invalid, Code.invalidMerkleVerify),
        (!e.appFound, Code.appNotFound),
        (e.leafErr.isSome, e.leafErr.getD Code.internal),
        (m.leaf == .challenge && !fixed, Code.invalidProofs) ] := by
  unfold handleProof
  cases hg : Claims.get s.claims m.key with
  | none => simp [firstFailure]
  | some c =>
    simp only [firstFailure, Option.isNone_some, Bool.false_eq_true, if_false]
    cases h1 : e.levelOk with
    | false => simp
    | true =>
    cases h2 : e.rootMatch with
    | false => simp
    | true =>
    cases h3 : e.sessCtxOk with
    | false => simp
    | true =>
    cases h4 : e.indexAvail with
    | false => simp
    | true =>
    cases h5 : e.indexOk with
    | false => simp
    | true =>
    simp only [Bool.not_true, Bool.false_eq_true, if_false]
    cases hm : e.merkle with
    | replay => simp
    | invalid => simp
    | valid =>
    cases h6 : e.appFound with
    | false => simp
    | true =>
    cases hl : e.leafErr with
    | some code => simp
    | none =>
    unfold executeProof
    cases m.leaf with
    | relay => simp
    | challenge => cases fixed <;> simp

/-- A relay reward is minted only by a proof transaction that is well-formed and authenticated, whose
key (signer, leaf session header, evidence type) has a STORED claim, with the right number of
levels, the required pseudorandom index, a valid merkle proof and a valid leaf; the reward is for
that stored claim. -/
theorem reward_requires_valid_proof (fixed : Bool) (s : State) (m : MsgProof) (e : ProofEnv)
    (k : ClaimKey) (c : Claim) (a : Int) (h : Event.minted k c a ∈ (deliverProof fixed s m e).events) :
    k = m.key ∧ Claims.get s.claims m.key = some c ∧ a = e.reward ∧ proofPayable s.claims m e = true ∧
    e.dup = false ∧ e.vb = none ∧ e.anteOk = true ∧ e.levelOk = true ∧ e.rootMatch = true ∧ e.indexAvail = true ∧
    e.indexOk = true ∧ e.merkle = .valid ∧ e.appFound = true ∧ e.leafErr = none ∧
    (deliverProof fixed s m e).err = none := by
  have h' : Event.minted k c a ∈ (step fixed s (.proof m e)).2 := h
  obtain ⟨m', e', hop, hk, hg, ha, hp⟩ := step_minted fixed s _ k c a h'
  cases hop
  have hp' := hp
  unfold proofPayable at hp'
  simp only [Bool.and_eq_true, Option.isNone_iff_eq_none, beq_iff_eq, Bool.not_eq_true'] at hp'
  obtain ⟨⟨⟨⟨⟨⟨⟨⟨⟨⟨⟨hd, hv⟩, hante⟩, _⟩, h1⟩, h2⟩, _⟩, h4⟩, h5⟩, hm⟩, h6⟩, hl⟩ := hp'
  refine ⟨hk, hk ▸ hg, ha, hp, hd, hv, hante, h1, h2, h4, h5, hm, h6, hl, ?_⟩
  rcases deliverProof_cases fixed s m e with ⟨_, h2', _⟩ | ⟨_, _, _, _, _, _, _, _, _, _, hr⟩
  · rw [h2'] at h; simp at h
  · rcases hr with ⟨hrep, _⟩ | ⟨_, _, _, herr, _⟩
    · rw [hrep] at hm; cases hm
    · exact herr

example : Event.minted kRelay cl 5000 ∈
    (deliverProof false { s5 with claims := [(kRelay, cl)] } ⟨kRelay, .relay⟩ envP).events := by decide

/-- Nothing but a proof transaction mints: claims and the expiry sweep leave the supply alone and
emit no payment. -/
theorem only_proofs_mint (fixed : Bool) (s : State) (op : Op) (k : ClaimKey) (c : Claim) (a : Int)
    (h : Event.minted k c a ∈ (step fixed s op).2) : ∃ m e, op = .proof m e :=
  let ⟨m, e, hop, _⟩ := step_minted fixed s op k c a h
  ⟨m, e, hop⟩

/-- Without a stored claim under its key a proof transaction is rejected and changes nothing
(never-claimed, already paid and deleted, overwritten-and-deleted, expired). -/
theorem proof_without_claim_rejected (fixed : Bool) (s : State) (m : MsgProof) (e : ProofEnv)
    (h : Claims.get s.claims m.key = none) :
    (deliverProof fixed s m e).state = s ∧ (deliverProof fixed s m e).events = [] ∧
    (deliverProof fixed s m e).err ≠ none := by
  rcases deliverProof_cases fixed s m e with h1 | ⟨c, hg, _⟩
  · exact h1
  · rw [h] at hg; cases hg

example : (deliverProof false s5 ⟨kRelay, .relay⟩ envP).err = some Code.claimNotFound := by decide

/-- A rejected proof changes nothing — except the replay-attack branch, whose result is an error
while the burn and the deletion of the claim persist (deliver mode has no rollback). -/
theorem proof_error_effects (fixed : Bool) (s : State) (m : MsgProof) (e : ProofEnv)
    (h : (deliverProof fixed s m e).err ≠ none) :
    ((deliverProof fixed s m e).state = s ∧ (deliverProof fixed s m e).events = []) ∨
    (∃ c, Claims.get s.claims m.key = some c ∧ e.merkle = .replay ∧
      (deliverProof fixed s m e).err = some Code.replayAttack ∧
      (deliverProof fixed s m e).state = { s with claims := s.claims.del m.key, supply := s.supply - e.burn } ∧
      Claims.get (deliverProof fixed s m e).state.claims m.key = none ∧
      (deliverProof fixed s m e).events = [.burned m.key c e.burn, .deleted m.key]) := by
  rcases deliverProof_cases fixed s m e with ⟨h1, h2, _⟩ | ⟨c, hg, _, _, _, _, _, _, _, _, hr⟩
  · exact Or.inl ⟨h1, h2⟩
  · rcases hr with ⟨hm, he, h1, h2⟩ | ⟨_, _, _, herr, _⟩
    · exact Or.inr ⟨c, hg, hm, he, h1, by rw [h1]; exact get_del_self _ _, h2⟩
    · exact absurd herr h

example : (deliverProof false { s5 with claims := [(kRelay, cl)] } ⟨kRelay, .relay⟩ { envP with merkle := .replay }).state.supply
    = 1000 - 15000 := by decide

/-- As coded a challenge-proof leaf is never executed: after passing every check the handler
returns `InvalidProofs` and changes nothing (the type assertion in `ExecuteProof` is made on the
undereferenced leaf, a pointer for every decoded transaction). -/
theorem challenge_leaf_never_executes (s : State) (m : MsgProof) (e : ProofEnv) (h : m.leaf = .challenge) :
    (deliverProof false s m e).err ≠ none ∧
    ((deliverProof false s m e).err ≠ some Code.replayAttack →
      (deliverProof false s m e).state = s ∧ (deliverProof false s m e).events = []) := by
  rcases deliverProof_cases false s m e with ⟨h1, h2, h3⟩ | ⟨c, _, _, _, _, _, _, _, _, _, hr⟩
  · exact ⟨h3, fun _ => ⟨h1, h2⟩⟩
  · rcases hr with ⟨_, he, _, _⟩ | ⟨_, _, _, _, ⟨hl, _, _⟩ | ⟨_, hf, _⟩⟩
    · rw [he]; exact ⟨by simp, fun hne => absurd rfl hne⟩
    · rw [h] at hl; cases hl
    · cases hf

example : (deliverProof false { s5 with claims := [(kChal, cl)] } ⟨kChal, .challenge⟩ envP).err = some Code.invalidProofs := by
  decide

/-! ## At most once -/

/-- The transition that pays deletes the claim it paid for — provided the leaf type matches the
evidence type of the claim (or with the repaired `ExecuteProof`). -/
theorem mint_deletes_claim_partial (fixed : Bool) (s : State) (m : MsgProof) (e : ProofEnv) (k : ClaimKey) (c : Claim)
    (a : Int) (hty : fixed = true ∨ m.leaf.et = m.key.et)
    (h : Event.minted k c a ∈ (deliverProof fixed s m e).events) :
    Claims.get (deliverProof fixed s m e).state.claims k = none := by
  have hk := (reward_requires_valid_proof fixed s m e k c a h).1
  subst hk
  have hdk := deleteKey_typed fixed m hty
  rcases deliverProof_cases fixed s m e with ⟨_, h2, _⟩ | ⟨_, _, _, _, _, _, _, _, _, _, hr⟩
  · rw [h2] at h; simp at h
  · rcases hr with ⟨_, _, h1, _⟩ | ⟨_, _, _, _, ⟨_, h1, _⟩ | ⟨_, _, h1, _⟩⟩ <;> rw [h1] <;>
      simp only [hdk] <;> exact get_del_self _ _

/-- As coded the statement is false: a claim filed with evidence type 2 (challenge) over a tree of
relay proofs is paid in full by a `MsgProof{EvidenceType: 2, Leaf: RelayProof}` and SURVIVES,
because `ExecuteProof` deletes under the constant `RelayEvidence`. -/
theorem mint_deletes_claim_fails :
    ∃ (s : State) (m : MsgProof) (e : ProofEnv) (c : Claim),
      Event.minted m.key c e.reward ∈ (deliverProof false s m e).events ∧
      Claims.get (deliverProof false s m e).state.claims m.key = some c :=
  ⟨{ s5 with claims := [(kChal, cl)] }, ⟨kChal, .relay⟩, envP, cl, by decide, by decide⟩

/-- …and the same mistyped proof deletes, unpaid, the relay claim of the same node and session. -/
theorem mistyped_proof_deletes_other_claim :
    ∃ (s : State) (m : MsgProof) (e : ProofEnv) (k' : ClaimKey),
      k' ≠ m.key ∧ (Claims.get s.claims k').isSome ∧
      Claims.get (deliverProof false s m e).state.claims k' = none ∧
      mints k' (deliverProof false s m e).events = 0 :=
  ⟨{ s5 with claims := [(kChal, cl), (kRelay, cl)] }, ⟨kChal, .relay⟩, envP, kRelay, by decide, by decide, by decide, by decide⟩

/-- Trace level, all histories: per claim key the number of reward payments never exceeds the number
of times a claim was stored under that key (plus one if the initial state already held one) —
for histories in which relay-proof leaves are only presented for evidence type 1 (`WellTyped`),
or for the repaired handler. -/
theorem reward_at_most_once_per_claim_partial (fixed : Bool) (s : State) (ops : List Op) (k : ClaimKey)
    (hty : fixed = true ∨ WellTyped ops) :
    mints k (run fixed s ops).2 ≤ accepts k (run fixed s ops).2 + live s.claims k := by
  have := run_count fixed s ops k hty
  omega

/-- The repaired handler satisfies the statement for every history. -/
theorem reward_at_most_once_per_claim_repaired (s : State) (ops : List Op) (k : ClaimKey) :
    mints k (run true s ops).2 ≤ accepts k (run true s ops).2 + live s.claims k :=
  reward_at_most_once_per_claim_partial true s ops k (Or.inl rfl)

/-- As coded the statement is false: one accepted claim, two payments. -/
theorem reward_at_most_once_per_claim_fails :
    ∃ (s : State) (ops : List Op) (k : ClaimKey),
      live s.claims k = 0 ∧ accepts k (run false s ops).2 = 1 ∧ mints k (run false s ops).2 = 2 :=
  ⟨s5, [.claim (mC kChal) envC, .begin, .begin, .begin, .begin, .proof ⟨kChal, .relay⟩ envP, .begin,
        .proof ⟨kChal, .relay⟩ envP], kChal, by decide, by decide, by decide⟩

example : WellTyped [.claim (mC kRelay) envC, .begin, .proof ⟨kRelay, .relay⟩ envP, .proof ⟨kRelay, .relay⟩ envP] := by
  intro op hop
  simp at hop
  rcases hop with rfl | rfl | rfl | rfl <;> simp [Op.typed, kRelay]
example : mints kRelay (run false s5 [.claim (mC kRelay) envC, .begin, .proof ⟨kRelay, .relay⟩ envP,
    .proof ⟨kRelay, .relay⟩ envP]).2 = 1 := by decide

/-- The amounts: if every proof for `k` in the history would be rewarded at most `R`, the total
minted for `k` is at most `R` per accepted claim. -/
theorem minted_total_bounded_partial (fixed : Bool) (s : State) (ops : List Op) (k : ClaimKey) (R : Int)
    (hR : 0 ≤ R) (hty : fixed = true ∨ WellTyped ops) (hb : ∀ op ∈ ops, op.rewardLe k R) :
    mintedTotal k (run fixed s ops).2 ≤ R * ((accepts k (run fixed s ops).2 + live s.claims k : Nat) : Int) := by
  have h1 := run_total fixed s ops k R hb
  have h2 := reward_at_most_once_per_claim_partial fixed s ops k hty
  have h3 : R * (mints k (run fixed s ops).2 : Int) ≤
      R * ((accepts k (run fixed s ops).2 + live s.claims k : Nat) : Int) :=
    Int.mul_le_mul_of_nonneg_left (by exact_mod_cast h2) hR
  omega

/-- The claims store is a function of the trace: the entry of `k` is what the last
accepted / deleted / expired event for `k` says. -/
theorem claims_follow_events (fixed : Bool) (s : State) (ops : List Op) (k : ClaimKey) (h : WF s.claims) :
    Claims.get (run fixed s ops).1.claims k = replay k (Claims.get s.claims k) (run fixed s ops).2 :=
  run_follow fixed s ops k h

/-- Trace level: whenever, after any history, a transition pays for `(k, c)`, the trace so far says
that `c` is the claim currently stored under `k` — accepted and neither deleted (paid, burned)
nor expired nor overwritten since. -/
theorem mint_requires_live_claim (fixed : Bool) (s : State) (ops : List Op) (op : Op) (k : ClaimKey) (c : Claim)
    (a : Int) (hw : WF s.claims) (h : Event.minted k c a ∈ (step fixed (run fixed s ops).1 op).2) :
    replay k (Claims.get s.claims k) (run fixed s ops).2 = some c := by
  obtain ⟨_, _, _, _, hg, _⟩ := step_minted fixed _ op k c a h
  rw [← claims_follow_events fixed s ops k hw]
  exact hg

/-! ## Expiry -/

/-- `BeginBlock` removes exactly the claims whose expiration height has been reached, pays nothing
and leaves the supply alone. -/
theorem expired_claims_removed_unpaid (s : State) (k : ClaimKey) (hw : WF s.claims) :
    (beginBlock s).1.height = s.height + 1 ∧
    (beginBlock s).1.supply = s.supply ∧
    (∀ k' c a, Event.minted k' c a ∉ (beginBlock s).2) ∧
    (∀ c, Claims.get s.claims k = some c → c.expiration ≤ s.height + 1 →
        Claims.get (beginBlock s).1.claims k = none ∧ Event.expired k c ∈ (beginBlock s).2) ∧
    (∀ c, Claims.get s.claims k = some c → s.height + 1 < c.expiration →
        Claims.get (beginBlock s).1.claims k = some c) ∧
    (Claims.get s.claims k = none → Claims.get (beginBlock s).1.claims k = none) := by
  refine ⟨rfl, rfl, ?_, ?_, ?_, ?_⟩
  · intro k' c a hm
    simp only [beginBlock, List.mem_map] at hm
    obtain ⟨p, _, hp⟩ := hm
    cases hp
  · intro c hg hexp
    constructor
    · simp only [beginBlock]
      rw [get_filter _ _ _ hw, hg]
      have : ¬ s.height + 1 < c.expiration := by omega
      simp [this]
    · simp only [beginBlock, List.mem_map]
      exact ⟨(k, c), List.mem_filter.mpr ⟨mem_of_get _ _ _ hg, by simpa using hexp⟩, rfl⟩
  · intro c hg hexp
    simp only [beginBlock]
    rw [get_filter _ _ _ hw, hg]
    simp [hexp]
  · intro hg
    simp only [beginBlock]
    rw [get_filter _ _ _ hw, hg]

example : Claims.get (beginBlock { height := 16, claims := [(kRelay, cl)], supply := 7 }).1.claims kRelay = none := by decide
example : Claims.get (beginBlock { height := 15, claims := [(kRelay, cl)], supply := 7 }).1.claims kRelay = some cl := by decide

/-- An expired claim is never paid afterwards: a proof for it is rejected with "claim not found"
and changes nothing, in any state reached after the sweep, until a new claim is accepted. -/
theorem expired_claim_not_paid (fixed : Bool) (s : State) (k : ClaimKey) (c : Claim) (hw : WF s.claims)
    (hg : Claims.get s.claims k = some c) (hexp : c.expiration ≤ s.height + 1) (m : MsgProof) (e : ProofEnv)
    (hk : m.key = k) :
    (deliverProof fixed (beginBlock s).1 m e).state = (beginBlock s).1 ∧
    (deliverProof fixed (beginBlock s).1 m e).events = [] ∧
    (deliverProof fixed (beginBlock s).1 m e).err ≠ none := by
  apply proof_without_claim_rejected
  rw [hk]
  exact ((expired_claims_removed_unpaid s k hw).2.2.2.1 c hg hexp).1

/-! ## What the code does not check -/

/-- "At most once per claim" is not "at most once per session": at the last height of the window
(`height = S + W·B`, where the proof is already possible — C31) the same key can be claimed, paid,
claimed again and paid again without a block in between. -/
theorem session_paid_twice_at_window_edge :
    ∃ (s : State) (ops : List Op) (k : ClaimKey),
      (∀ op ∈ ops, ∃ m e, op = .claim m e ∨ ∃ m' e', op = .proof m' e') ∧ WellTyped ops ∧
      accepts k (run false s ops).2 = 2 ∧ mints k (run false s ops).2 = 2 ∧
      (run false s ops).1.height = s.height :=
  ⟨{ s5 with height := 9 },
   [.claim (mC kRelay) envC, .proof ⟨kRelay, .relay⟩ envP, .claim (mC kRelay) envC, .proof ⟨kRelay, .relay⟩ envP], kRelay,
   by
     intro op hop
     simp at hop
     rcases hop with rfl | rfl | rfl | rfl
     · exact ⟨mC kRelay, envC, Or.inl rfl⟩
     · exact ⟨mC kRelay, envC, Or.inr ⟨_, _, rfl⟩⟩
     · exact ⟨mC kRelay, envC, Or.inl rfl⟩
     · exact ⟨mC kRelay, envC, Or.inr ⟨_, _, rfl⟩⟩,
   by
     intro op hop
     simp at hop
     rcases hop with rfl | rfl | rfl | rfl <;> simp [Op.typed, kRelay],
   by decide, by decide, by decide⟩


/-- `ValidateClaim` never asks whether `SessionBlockHeight` is the first block of a session
(`height mod BlocksPerSession = 1`): a claim for the pseudo-session starting at height 2 of a
4-block session is accepted. -/
theorem claim_accepted_session_aligned_fails :
    ∃ (s : State) (m : MsgClaim) (e : ClaimEnv),
      (deliverClaim s m e).err = none ∧ m.key.sbh % e.sessB ≠ 1 :=
  ⟨{ s5 with height := 6 }, mC { kRelay with sbh := 2 }, envC, by decide, by decide⟩

end C32
