import Proofs.Ledger.NodesExamples
import Proofs.Ledger.NodesGenesis
/-!
# C19 — Node staking pool holds exactly the tokens staked by nodes

Model: `PocketModel/Ledger/Nodes.lean` (x/nodes keeper as coded, modern rule set).  `Nodes.Inv` is the
structural invariant of the nodes store (`Proofs/Ledger/NodesInv.lean`); its `pool` field is the
equation of this property, `Spec.poolOk` is the decidable form the driver evaluates on the
implementation's dumped states.  Histories are arbitrary lists of operations (`Nodes.Op`): stake /
edit-stake, begin-unstake, unjail, challenge burns, BeginBlock (missed votes, double-sign evidence),
EndBlock (jailed-too-long, release of waiting nodes, validator-set update, mature unstaking), parameter
changes, any activity on ordinary accounts, rewards paid through `mint`.
-/
namespace C19
open Nodes Nodes.Spec

/-- Pool balance = Σ tokens of staked and unstaking nodes, after every history (from every state
satisfying the invariant) that contains no plain transfer to the pool's own address. -/
theorem node_pool_inv_partial (s : State) (hi : Inv s) (ops : List Op) (hops : ∀ op ∈ ops, op.isPoolSend = false) :
    (run s ops).pool = sumBonded (run s ops).vals := (inv_run hi ops hops).pool

/-- the same, as the executable predicate evaluated by the driver -/
theorem node_pool_ok (s : State) (hi : Inv s) (ops : List Op) (hops : ∀ op ∈ ops, op.isPoolSend = false) :
    poolOk (run s ops) = true := (inv_run hi ops hops).poolOk

example : poolOk Ex.s0 = true ∧ Ex.s0.pool = 75000000 := by decide

/-- Each single operation preserves the equation (stake, edit, unstake, slash, jail, mint, …). -/
theorem step_preserves_pool (s : State) (hi : Inv s) (op : Op) (hop : op.isPoolSend = false) :
    (step s op).pool = sumBonded (step s op).vals := (inv_step hi op hop).pool

example : (step Ex.s0 (.burn Ex.A 3000000)).pool = 72000000 := by decide

/-- The full statement is false of the code: `MsgSend` to the address of the staking pool's module
account is accepted like any other transfer, after which the pool holds more than the staked tokens. -/
theorem node_pool_inv_fails :
    ¬ ∀ (s : State) (_ : Inv s) (ops : List Op), (run s ops).pool = sumBonded (run s ops).vals := by
  intro h
  have := h Ex.s0 Ex.inv_s0 [.sendToPool Ex.A 1000]
  revert this
  decide

/-- Such a transfer shifts the pool by exactly the amount sent and changes no record. -/
theorem pool_send_offset (s : State) (sender : Addr) (amount : Int) (h0 : 0 < amount) (hb : amount ≤ balOf s sender) :
    (step s (.sendToPool sender amount)).pool = s.pool + amount ∧ (step s (.sendToPool sender amount)).vals = s.vals := by
  have : ¬ (amount ≤ 0 ∨ balOf s sender < amount) := by omega
  simp [step, this]

/-- Rewards are minted into the pool and sent on at once: under the invariant the send never fails, so no
coin is stranded in the pool (the "mint ok, send fails" path of `mint` is unreachable). -/
theorem mint_never_strands (s : State) (hi : Inv s) (amount : Int) (to : Addr) :
    (mintTo s amount to).pool = s.pool ∧ (mintTo s amount to).supply = s.supply + amount ∧
    balOf (mintTo s amount to) to = balOf s to + amount := by
  rw [mintTo_spec hi]
  simp [balOf]

example : (mintTo Ex.s0 777 Ex.O).pool = Ex.s0.pool ∧ balOf (mintTo Ex.s0 777 Ex.O) Ex.O = 777 := by decide

/-- The pool always covers every single stake (so paying out a mature node cannot fail). -/
theorem pool_covers_every_stake (s : State) (hi : Inv s) (a : Addr) (v : Val) (hv : aget s.vals a = some v) :
    v.tokens ≤ s.pool := hi.tokens_le_pool hv

example : ∃ v, aget Ex.s0.vals Ex.A = some v ∧ v.tokens = 20000000 := by decide

/-- **From genesis.** `InitGenesis` of a genesis file whose validators are all staked (distinct addresses,
non-negative stakes) yields the invariant, so the pool equation holds after every history of such a chain. -/
theorem node_pool_inv_from_genesis (p : Params) (vs : List Val) (bal : List (Addr × Int)) (supply0 : Int)
    (hst : ∀ v ∈ vs, v.status = .staked ∧ 0 ≤ v.tokens) (hnd : (vs.map (·.addr)).Nodup)
    (ops : List Op) (hops : ∀ op ∈ ops, op.isPoolSend = false) :
    (run (initGenesis p vs bal supply0) ops).pool = sumBonded (run (initGenesis p vs bal supply0) ops).vals :=
  (inv_run (inv2_initGenesis p vs bal supply0 hst hnd).inv ops hops).pool

/-- a genesis validator record -/
def gval (a : Addr) (st : Status) (tok : Int) : Val :=
  { addr := a, pk := a, jailed := false, status := st, chains := [[0, 1]], url := [], tokens := tok,
    unstTime := if st = .unstaking then 5000 else zeroTime, output := [], delegators := [] }

example : (initGenesis Ex.p0 [gval Ex.A .staked 20000000, gval Ex.B .staked 30000000] [] 0).pool = 50000000 := by decide

/-- The staked-only hypothesis is needed: `InitGenesis` credits the pool with the tokens of `IsStaked()`
validators only, so a genesis file with an **unstaking** validator (what `ExportGenesis` writes while unstakes
are pending) starts with a pool that misses that stake; the node is later paid out of the others' stakes. -/
theorem genesis_unstaking_breaks_pool :
    ∃ (p : Params) (vs : List Val), (vs.map (·.addr)).Nodup ∧ (∀ v ∈ vs, 0 ≤ v.tokens ∧ v.status ≠ .unstaked) ∧
      (initGenesis p vs [] 0).pool ≠ sumBonded (initGenesis p vs [] 0).vals :=
  ⟨Ex.p0, [gval Ex.A .staked 20000000, gval Ex.B .unstaking 30000000], by decide, by decide, by decide⟩

/-- … with enough other stake in the pool the unstaking genesis node is paid out of it (pool 10 against 40 POKT
staked afterwards); with too little the payout fails, the record is deleted all the same and the stake is lost -/
example :
    let s1 := initGenesis Ex.p0 [gval Ex.A .staked 40000000, gval Ex.B .unstaking 30000000] [] 0
    let s2 := initGenesis Ex.p0 [gval Ex.A .staked 20000000, gval Ex.B .unstaking 30000000] [] 0
    (endBlock s1 2 6000).1.pool = 10000000 ∧ balOf (endBlock s1 2 6000).1 Ex.B = 30000000 ∧
    (endBlock s2 2 6000).1.pool = 20000000 ∧ balOf (endBlock s2 2 6000).1 Ex.B = 0 ∧
    aget (endBlock s2 2 6000).1.vals Ex.B = none ∧
    (endBlock s2 2 6000).1.log = [.payout Ex.B Ex.B 30000000 false, .recordDeleted Ex.B] := by decide

end C19
