import Proofs.Ledger.NodesExamples
/-!
# C19 — Node staking pool holds exactly the tokens staked by nodes

Model: `PocketModel/Ledger/Nodes.lean` (x/nodes keeper as coded, modern rule set).  `Nodes.Inv` is the
structural invariant of the nodes store (`Proofs/Ledger/NodesInv.lean`); its `pool` field is the
equation of this property, `Spec.poolOk` is the decidable form the driver evaluates on the
implementation's dumped states.  Histories are arbitrary lists of operations (`Nodes.Op`): stake /
edit-stake, begin-unstake, unjail, challenge burns, BeginBlock (missed votes, double-sign evidence),
EndBlock (jailed-too-long, release of waiting nodes, validator-set update, mature unstaking), parameter
changes, any activity on ordinary accounts, rewards paid through `mint`.
-/
namespace C19
open Nodes Nodes.Spec

/-- Pool balance = Σ tokens of staked and unstaking nodes, after every history (from every state
satisfying the invariant) that contains no plain transfer to the pool's own address. -/
theorem node_pool_inv_partial (s : State) (hi : Inv s) (ops : List Op) (hops : ∀ op ∈ ops, op.isPoolSend = false) :
    (run s ops).pool = sumBonded (run s ops).vals := (inv_run hi ops hops).pool

/-- the same, as the executable predicate evaluated by the driver -/
theorem node_pool_ok (s : State) (hi : Inv s) (ops : List Op) (hops : ∀ op ∈ ops, op.isPoolSend = false) :
    poolOk (run s ops) = true := (inv_run hi ops hops).poolOk

example : poolOk Ex.s0 = true ∧ Ex.s0.pool = 75000000 := by decide

/-- Each single operation preserves the equation (stake, edit, unstake, slash, jail, mint, …). -/
theorem step_preserves_pool (s : State) (hi : Inv s) (op : Op) (hop : op.isPoolSend = false) :
    (step s op).pool = sumBonded (step s op).vals := (inv_step hi op hop).pool

example : (step Ex.s0 (.burn Ex.A 3000000)).pool = 72000000 := by decide

/-- The full statement is false of the code: `MsgSend` to the address of the staking pool's module
account is accepted like any other transfer, after which the pool holds more than the staked tokens. -/
theorem node_pool_inv_fails :
    ¬ ∀ (s : State) (_ : Inv s) (ops : List Op), (run s ops).pool = sumBonded (run s ops).vals := by
  intro h
  have := h Ex.s0 Ex.inv_s0 [.sendToPool Ex.A 1000]
  revert this
  decide

/-- Such a transfer shifts the pool by exactly the amount sent and changes no record. -/
theorem pool_send_offset (s : State) (sender : Addr) (amount : Int) (h0 : 0 < amount) (hb : amount ≤ balOf s sender) :
    (step s (.sendToPool sender amount)).pool = s.pool + amount ∧ (step s (.sendToPool sender amount)).vals = s.vals := by
  have : ¬ (amount ≤ 0 ∨ balOf s sender < amount) := by omega
  simp [step, this]

/-- Rewards are minted into the pool and sent on at once: under the invariant the send never fails, so no
coin is stranded in the pool (the "mint ok, send fails" path of `mint` is unreachable). -/
theorem mint_never_strands (s : State) (hi : Inv s) (amount : Int) (to : Addr) :
    (mintTo s amount to).pool = s.pool ∧ (mintTo s amount to).supply = s.supply + amount ∧
    balOf (mintTo s amount to) to = balOf s to + amount := by
  rw [mintTo_spec hi]
  simp [balOf]

example : (mintTo Ex.s0 777 Ex.O).pool = Ex.s0.pool ∧ balOf (mintTo Ex.s0 777 Ex.O) Ex.O = 777 := by decide

/-- The pool always covers every single stake (so paying out a mature node cannot fail). -/
theorem pool_covers_every_stake (s : State) (hi : Inv s) (a : Addr) (v : Val) (hv : aget s.vals a = some v) :
    v.tokens ≤ s.pool := hi.tokens_le_pool hv

example : ∃ v, aget Ex.s0.vals Ex.A = some v ∧ v.tokens = 20000000 := by decide

end C19
