import Proofs.Ledger.AnteToy
/-!
# C15 — Authenticated transactions pay exactly their declared fee, once

Model: `PocketModel/Ledger/Ante.lean` (`anteHandler` = `tx.ValidateBasic` + `ValidateTransaction` +
`DeductFees`; `runTx`, `deliverTx`, `run`).  Cryptography, the decoder and the message handlers are
parameters; every theorem holds for all of them.
-/
namespace C15
open Ledger Coins

variable {S : Scheme} {Ω : Type}

/-- **fee_exact.** When the ante handler lets a transaction through, exactly the declared fee moved
from the fee payer (the verifying key's address after NCUST, `GetSigners()[0]` before) to the fee
collector — per denomination — and the ante handler changed nothing else: no other account, no
stored public key, no parameter, nothing outside the account map. -/
theorem fee_exact {SB : Bytes → Int → Coins → Bytes → Bytes → Bytes} {env : Env} {w w' : World S Ω}
    {tx : Tx S.PK} {idx sim : Bool} {pk : S.PK}
    (h : anteHandler S SB env w tx idx sim = .cont w' pk) :
    ∃ payer, feePayer env tx pk = some payer ∧ (∃ acc, w.accounts payer = some acc) ∧
      (payer ≠ env.feeCollector →
        (∀ d, sumOf (coinsAt w'.accounts payer) d = sumOf (coinsAt w.accounts payer) d - sumOf tx.fee d) ∧
        (∀ d, sumOf (coinsAt w'.accounts env.feeCollector) d =
          sumOf (coinsAt w.accounts env.feeCollector) d + sumOf tx.fee d) ∧
        pkAt w'.accounts payer = pkAt w.accounts payer ∧
        (∀ a, a ≠ payer → a ≠ env.feeCollector → w'.accounts a = w.accounts a)) ∧
      w'.params = w.params ∧ w'.valOutput = w.valOutput ∧ w'.isApp = w.isApp ∧ w'.rest = w.rest := by
  obtain ⟨_, _, m, hd, rfl⟩ := anteHandler_cont h
  obtain ⟨payer, hp, hacc, hsend⟩ := deductFees_ok hd
  refine ⟨payer, hp, hacc, ?_, rfl, rfl, rfl, rfl⟩
  intro hne
  obtain ⟨h1, h2, h3, _, h5⟩ := sendCoins_ok hne hsend
  exact ⟨h1, h2, h3, h5⟩

/-- Under the modern rule set the payer is the address of the key that verified. -/
theorem fee_payer_is_verifying_key {env : Env} (hn : env.ncust = true) (tx : Tx S.PK) (pk : S.PK) :
    feePayer env tx pk = some (S.addr pk) := by simp [feePayer, hn]

example : ∃ w' pk, anteHandler Toy.S Toy.SB (Toy.env 5) Toy.w (Toy.tx 1 1 10000 [⟨upokt, 10000⟩]) false false
    = .cont w' pk := (Toy.isCont_iff _).mp Toy.plain_cont

/-- **fee_ge_required (partial).** If the verifying key is a simple (non-multisig) key, the declared
fee holds at least the required amount `GetFee(msg) = msg.GetFee() · multiplier` of upokt. -/
theorem fee_ge_required_partial {SB : Bytes → Int → Coins → Bytes → Bytes → Bytes} {env : Env}
    {w w' : World S Ω} {tx : Tx S.PK} {idx sim : Bool} {pk : S.PK}
    (h : anteHandler S SB env w tx idx sim = .cont w' pk) (hleaf : S.shape pk = .leaf) :
    getFee w.params tx.msg ≤ sumOf tx.fee upokt := by
  obtain ⟨hb, hv, _⟩ := anteHandler_cont h
  obtain ⟨hvalid, _⟩ := txValidateBasic_none hb
  obtain ⟨_, _, vs, _, hl⟩ := validateTransaction_pass hv
  obtain ⟨_, _, _, _, _, e, he, hfee, _⟩ := signerLoop_pass hl
  have hge := hfee hleaf
  unfold expectedFee at he
  simp only at he
  split at he
  · simp at he
  · split at he
    · rename_i h0
      have := sumOf_nonneg (isValid_canonical _ hvalid).2 upokt
      omega
    · injection he with he
      subst he
      exact isAllGTE_single hvalid hge

example : Toy.S.shape (1 : Nat) = .leaf := by simp [Toy.S]

/-- **fee_ge_required fails** for multisig keys: `ValidateTransaction` checks `IsAllGTE(expectedFee)`
only on the non-multisig branch.  Witness: the 2-key multisig account `[9]` sends a message whose
required fee is 10000 with an empty fee, and the ante handler lets it through. -/
theorem fee_ge_required_fails :
    ¬ (∀ (S : Scheme) (Ω : Type) (SB : Bytes → Int → Coins → Bytes → Bytes → Bytes) (env : Env)
        (w w' : World S Ω) (tx : Tx S.PK) (pk : S.PK), env.modern →
        anteHandler S SB env w tx false false = .cont w' pk →
        getFee w.params tx.msg ≤ sumOf tx.fee upokt) := by
  intro hall
  obtain ⟨w', pk, hc⟩ := (Toy.isCont_iff _).mp Toy.multi_cont
  have := hall Toy.S Nat Toy.SB (Toy.env 5) Toy.w w' (Toy.tx 9 9 10000 []) pk
    (by simp [Env.modern, Toy.env]) hc
  simp [getFee, Toy.w, Toy.params, Toy.tx, Toy.msg] at this

/-- **fee_charged_even_if_msg_fails.** Once the ante handler has passed, the message handler starts
from the fee-deducted state `w'` (the ante cache is written before the handler runs) and `runTx`
returns whatever the handler returns: there is no rollback, so a handler that reports an error
without writing leaves exactly `w'` — fee charged. -/
theorem fee_charged_even_if_msg_fails (hk : Hooks S Ω) {env : Env} {w w' : World S Ω} {tx : Tx S.PK}
    {idx : Bool} {pk : S.PK} (hb : tx.msg.basic = none)
    (h : anteHandler S hk.SB env w tx idx false = .cont w' pk) :
    runTx hk env w tx idx = hk.handler env w' tx.msg pk ∧
      ((hk.handler env w' tx.msg pk).1 = w' → (runTx hk env w tx idx).1 = w') := by
  have : runTx hk env w tx idx = hk.handler env w' tx.msg pk := by
    unfold runTx; simp only [hb, h]
  exact ⟨this, fun hw => by rw [this]; exact hw⟩

example : (Toy.tx 1 1 10000 []).msg.basic = none := rfl

/-- **ante_reject_moves_nothing** (`runTx` level). A transaction refused by the message's
`ValidateBasic` or by the ante handler returns the state it was given. -/
theorem ante_reject_moves_nothing (hk : Hooks S Ω) {env : Env} {w : World S Ω} {tx : Tx S.PK}
    {idx : Bool} (h : tx.msg.basic ≠ none ∨ ∃ r, anteHandler S hk.SB env w tx idx false = .abort r) :
    (runTx hk env w tx idx).1 = w := by
  unfold runTx
  split
  · rfl
  · rcases h with h | ⟨r, h⟩
    · rename_i hb; exact absurd hb h
    · simp only [h]

example : ∃ r, anteHandler Toy.S Toy.SB (Toy.env 5) Toy.w (Toy.tx 1 1 10000 []) false false = .abort r := by
  have := Toy.plain_lowfee_abort
  cases h : anteHandler Toy.S Toy.SB (Toy.env 5) Toy.w (Toy.tx 1 1 10000 []) false false with
  | cont w pk => rw [h] at this; simp [Toy.isCont] at this
  | abort r => exact ⟨r, rfl⟩

/-- **ante_reject_moves_nothing** (`DeliverTx` level): undecodable bytes, an in-block duplicate, a
failing `ValidateBasic` or an aborting ante handler — the chain state after `DeliverTx` is the
state before. -/
theorem deliver_reject_moves_nothing (hk : Hooks S Ω) (env : Env) (n : Node S Ω) (raw : Bytes)
    (h : antePasses hk env n raw = false) : (deliverTx hk env n raw).1.world = n.world :=
  not_passed_unchanged hk env n raw h

/-- **fee_once.** Over any history under the modern rule set (message handlers never return an
ante-level code — `NoAnteCode`), a byte string gets past the ante handler — the only place where a
fee is deducted — in at most one DeliverTx; in every other delivery of the same bytes no balance
changes at all. -/
theorem fee_once (hk : Hooks S Ω) (hno : NoAnteCode hk) (ops : List (Op S Ω))
    (hmod : ∀ env raw, Op.deliver env raw ∈ ops → env.redup = true) (n : Node S Ω) :
    (run hk n ops).2.Pairwise
      (fun e1 e2 => e1.raw = e2.raw → e1.passed = true → e2.passed = false ∧ e2.post = e2.pre) := by
  have hp := ante_pass_once hk hno ops hmod n
  have hs := run_event_sound hk ops n
  refine (List.Pairwise.and_mem.mp hp).imp ?_
  intro e1 e2 ⟨_, h2, h12⟩ hraw hpass
  have hf := h12 hraw hpass
  refine ⟨hf, ?_⟩
  obtain ⟨env, n', _, hpre, hpost, _, hpas⟩ := hs e2 h2
  rw [hpost, hpre]
  exact not_passed_unchanged hk env n' e2.raw (by rw [← hpas]; exact hf)

end C15
