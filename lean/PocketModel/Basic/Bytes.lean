/-!
# Byte strings

Keys, denominations and addresses of pocket-core are Go `[]byte`/`string` values compared
bytewise (`bytes.Compare`, `strings.Compare`, `<` on strings).  The model uses `List UInt8` with
core Lean's lexicographic order on lists, which is the same order.
-/

abbrev Bytes := List UInt8

namespace Bytes

/-- Three-way comparison, as `bytes.Compare`. -/
def cmp (a b : Bytes) : Ordering :=
  if a < b then .lt else if a = b then .eq else .gt

def hexDigit (n : Nat) : Char :=
  if n < 10 then Char.ofNat (48 + n) else Char.ofNat (87 + n)

def toHex (b : Bytes) : String :=
  String.ofList (b.flatMap fun x => [hexDigit (x.toNat / 16), hexDigit (x.toNat % 16)])

def hexVal (c : Char) : Option Nat :=
  if '0' ≤ c ∧ c ≤ '9' then some (c.toNat - 48)
  else if 'a' ≤ c ∧ c ≤ 'f' then some (c.toNat - 87)
  else if 'A' ≤ c ∧ c ≤ 'F' then some (c.toNat - 55)
  else none

def ofHexChars : List Char → Option Bytes
  | [] => some []
  | [_] => none
  | a :: b :: rest => do
    let x ← hexVal a
    let y ← hexVal b
    let r ← ofHexChars rest
    pure (UInt8.ofNat (x * 16 + y) :: r)

/-- Line protocol: `-` is the empty byte string, otherwise lower-case hex. -/
def parse (s : String) : Option Bytes :=
  if s = "-" then some [] else ofHexChars s.toList

/-- Line protocol with a nil/absent marker `~`. -/
def parseOpt (s : String) : Option (Option Bytes) :=
  if s = "~" then some none else (parse s).map some

def render (b : Bytes) : String := if b.isEmpty then "-" else toHex b

def renderOpt : Option Bytes → String
  | none => "~"
  | some b => render b

def ofString (s : String) : Bytes := s.toUTF8.toList

end Bytes
