import PocketModel.Basic.Bytes
/-!
# Line protocol shared by all drivers

The Go harness writes one line per operation: `<op> <args…> => <impl result…>`.  A driver is a
function from its state and a parsed line to a new state and a verdict:

* `OK`                      — model result = implementation result and the property oracle accepts
* `DIFF <detail>`           — model and implementation disagree (correspondence break)
* `PROPFAIL <sig> <detail>` — the implementation's own result violates the property's executable
                              specification on this input (a concrete failing input); `sig` is a
                              stable signature used to match known findings
* `BAD <detail>`            — the line could not be parsed (harness/driver bug; counted as DIFF)
-/

inductive Verdict where
  | ok
  | diff (detail : String)
  | propfail (sig : String) (detail : String)
  | bad (detail : String)

namespace Verdict
def render : Verdict → String
  | ok => "OK"
  | diff d => s!"DIFF {d}"
  | propfail s d => s!"PROPFAIL {s} {d}"
  | bad d => s!"BAD {d}"
end Verdict

namespace Proto

def words (s : String) : List String := (s.splitOn " ").filter (· ≠ "")

/-- Split a line at the `=>` token into (operation words, result words). -/
def splitLine (line : String) : List String × List String :=
  let ws := words (line.trimAscii.toString)
  let pre := ws.takeWhile (· ≠ "=>")
  let post := (ws.dropWhile (· ≠ "=>")).drop 1
  (pre, post)

def parseInt (s : String) : Option Int := s.toInt?
def parseNat (s : String) : Option Nat := s.toNat?
def parseBool (s : String) : Option Bool :=
  if s = "true" then some true else if s = "false" then some false else none

/-- Generic stdin loop: state machine over lines, one verdict line out per line in. -/
partial def loop {σ : Type} (step : σ → List String → List String → σ × Verdict)
    (h : IO.FS.Stream) (out : IO.FS.Stream) (s : σ) (n : Nat) : IO Unit := do
  let line ← h.getLine
  if line.isEmpty then
    out.flush
    return ()
  let t := line.trimAscii.toString
  if t.isEmpty || t.startsWith "#" then
    loop step h out s n
  else
    let (pre, post) := splitLine t
    let (s', v) := step s pre post
    out.putStrLn v.render
    loop step h out s' (n + 1)

def run {σ : Type} (init : σ) (step : σ → List String → List String → σ × Verdict) : IO Unit := do
  loop step (← IO.getStdin) (← IO.getStdout) init 0

end Proto
