import PocketModel.Num.Int256
/-!
# `types.BigDec` (types/decimal.go): fixed-point decimals, 18 fractional digits

A `BigDec` is its raw scaled integer (`d.i`).  Go panics are `none`.
-/
namespace BigDec

/-- `precisionReuse = 10^18`. -/
def P : Int := 1000000000000000000
/-- `fivePrecision = 10^18 / 2`. -/
def half : Int := 500000000000000000
/-- Overflow bound used by every BigDec operation: `BitLen > 255 + DecimalPrecisionBits`. -/
def maxBits : Nat := 255 + 60

def check (x : Int) : Option Int := if Int256.bitLen x > maxBits then none else some x

/-- `chopPrecisionAndRound` on a non-negative input: banker's rounding of `x / 10^18`. -/
def chopRoundNonneg (x : Int) : Int :=
  let q := x / P
  let r := x % P
  if r = 0 then q
  else if r < half then q
  else if r > half then q + 1
  else if q % 2 = 0 then q else q + 1

/-- `chopPrecisionAndRound`. -/
def chopRound (x : Int) : Int := if x < 0 then - chopRoundNonneg (-x) else chopRoundNonneg x

/-- `chopPrecisionAndTruncate` (big.Int.Quo: toward zero). -/
def chopTrunc (x : Int) : Int := x.tdiv P

/-- `chopPrecisionAndRoundUp`. -/
def chopRoundUp (x : Int) : Int :=
  if x < 0 then - chopTrunc (-x)
  else if x % P = 0 then x / P else x / P + 1

def ofInt (i : Int) : Int := i * P
def one : Int := P
def smallest : Int := 1

def add (a b : Int) : Option Int := check (a + b)
def sub (a b : Int) : Option Int := check (a - b)
def mul (a b : Int) : Option Int := check (chopRound (a * b))
def mulTruncate (a b : Int) : Option Int := check (chopTrunc (a * b))
def mulInt (a i : Int) : Option Int := check (a * i)
/-- `Quo`: division by zero panics inside big.Int.Quo. -/
def quo (a b : Int) : Option Int := if b = 0 then none else check (chopRound ((a * P * P).tdiv b))
def quoTruncate (a b : Int) : Option Int := if b = 0 then none else check (chopTrunc ((a * P * P).tdiv b))
def quoRoundUp (a b : Int) : Option Int := if b = 0 then none else check (chopRoundUp ((a * P * P).tdiv b))
/-- `QuoInt`/`QuoInt64`: raw truncated division, no overflow check. -/
def quoInt (a i : Int) : Option Int := if i = 0 then none else some (a.tdiv i)

def roundInt (a : Int) : Int := chopRound a
def truncateInt (a : Int) : Int := chopTrunc a
def isInt64 (x : Int) : Bool := decide (-9223372036854775808 ≤ x ∧ x ≤ 9223372036854775807)
/-- `RoundInt64`: panics when out of int64 range. -/
def roundInt64 (a : Int) : Option Int := let c := chopRound a; if isInt64 c then some c else none
def truncateInt64 (a : Int) : Option Int := let c := chopTrunc a; if isInt64 c then some c else none

/-- `Power`: the square-and-multiply loop as written (with the rounding of every `Mul`). -/
def powerLoop (fuel : Nat) (i : Nat) (d tmp : Int) : Option Int :=
  match fuel with
  | 0 => none
  | fuel + 1 =>
    if i > 1 then
      if i % 2 = 0 then
        match mul d d with
        | none => none
        | some d' => powerLoop fuel (i / 2) d' tmp
      else
        match mul tmp d with
        | none => none
        | some tmp' =>
          match mul d d with
          | none => none
          | some d' => powerLoop fuel ((i - 1) / 2) d' tmp'
    else mul d tmp

def power (d : Int) (p : Nat) : Option Int :=
  if p = 0 then some one else powerLoop (p + 1) p d one

end BigDec
