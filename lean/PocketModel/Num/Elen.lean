import PocketModel.Basic.Bytes
/-!
# ELEN number encoding (`github.com/jordanorelli/lexnum`, `lexnum.NewEncoder('=', '-')`)

`types/indexer.go` encodes heights and tx positions with `elenEncoder.EncodeInt` so that the
bytewise order of database keys is the numeric order.  Only non-negative numbers occur (block
heights, tx indexes, `math.MaxInt64`), so the model is over `Nat`; `encodeNeg` is not modelled.
-/
namespace Elen

/-- Decimal digits of `n`, least significant first (`strconv.Itoa`, reversed). -/
def decRev (n : Nat) : List Nat :=
  if n < 10 then [n] else (n % 10) :: decRev (n / 10)
decreasing_by omega

/-- ASCII code of a decimal digit. -/
def digitByte (d : Nat) : UInt8 := UInt8.ofNat (48 + d)

/-- `strconv.Itoa(n)` as bytes (most significant digit first). -/
def dec (n : Nat) : Bytes := (decRev n).reverse.map digitByte

theorem decRev_length_pos (n : Nat) : 0 < (decRev n).length := by
  unfold decRev; split <;> simp

theorem decRev_length_lt (n : Nat) (h : 10 ≤ n) : (decRev n).length < n := by
  induction n using Nat.strongRecOn with
  | _ n ih =>
    rw [decRev]
    have h1 : ¬ n < 10 := by omega
    simp only [h1, if_false, List.length_cons]
    by_cases h2 : n / 10 < 10
    · rw [decRev]; simp [h2]; omega
    · have := ih (n / 10) (by omega) (by omega)
      omega

/-- `'='`, the positive prefix rune. -/
def posByte : UInt8 := 61
/-- `'/'`, the key separator `sep`. -/
def slash : UInt8 := 47
/-- `'0'`. -/
def zeroByte : UInt8 := 48

/-- `Encoder.encodePos`: `=` followed by the digit for one-digit numbers, otherwise `=`, the
encoding of the digit count, the digits. -/
def encodePos (n : Nat) : Bytes :=
  if n < 10 then [posByte, digitByte n]
  else posByte :: (encodePos (decRev n).length ++ dec n)
termination_by n
decreasing_by exact decRev_length_lt n (by omega)

/-- `Encoder.EncodeInt` for `i ≥ 0`. -/
def encodeInt (n : Nat) : Bytes := if n = 0 then [zeroByte] else encodePos n

/-- `math.MaxInt64`. -/
def maxInt64 : Nat := 9223372036854775807

end Elen
