import PocketModel.Num.BigDec
/-!
# `BigDec.ApproxRoot` / `FracPow` (types/decimal.go) and the stake-weighted reward / burn
(x/nodes/keeper/reward.go `calculateRewardRewardPip22`, x/nodes/keeper/slash.go `BurnForChallenge`)

Decimals are raw scaled integers (see `BigDec.lean`).  The Go Newton loop has **no iteration cap**;
the model takes an explicit `fuel` (= number of loop iterations allowed) and reports `timeout` when
it is exhausted, so "the Go loop terminates" is `∃ fuel, result ≠ timeout` (see
`Proofs/Num/FracPow.lean: newtonLoop_fuel_mono` — more fuel never changes a finished result).
-/
namespace BigDec

/-- Outcome of a computation that may loop: a value, a Go panic / returned error, or out of fuel. -/
inductive Out where
  | val (x : Int)
  | err
  | timeout
deriving DecidableEq, Repr, Inhabited

/-- `MulInt64`. -/
def mulInt64 (a i : Int) : Option Int := check (a * i)

/-- One iteration of the loop body of `ApproxRoot`:
`prev := guess.Power(root-1); if prev.IsZero() {prev = SmallestDec()}; delta = d.Quo(prev);
delta = delta.Sub(guess); delta = delta.QuoInt(rootInt); guess = guess.Add(delta)`.
`none` = one of the operations panicked (315-bit overflow).  Returns `(guess, delta)`. -/
def newtonStep (d : Int) (root : Nat) (guess : Int) : Option (Int × Int) :=
  match power guess (root - 1) with
  | none => none
  | some prev0 =>
    let prev := if prev0 = 0 then smallest else prev0
    match quo d prev with
    | none => none
    | some q =>
      match sub q guess with
      | none => none
      | some s =>
        match quoInt s root with
        | none => none
        | some delta =>
          match add guess delta with
          | none => none
          | some g => some (g, delta)

/-- `for delta.Abs().GT(SmallestDec()) { … }`; `fuel` = iterations still allowed. -/
def newtonLoop (d : Int) (root : Nat) (fuel : Nat) (guess delta : Int) : Out :=
  if delta.natAbs ≤ 1 then .val guess
  else
    match fuel with
    | 0 => .timeout
    | fuel + 1 =>
      match newtonStep d root guess with
      | none => .err
      | some (g, dl) => newtonLoop d root fuel g dl

/-- `ApproxRoot` on a non-negative receiver (after the `IsNegative` branch). -/
def approxRootNonneg (d : Int) (root : Nat) (fuel : Nat) : Out :=
  if root = 1 ∨ d = 0 ∨ d = one then .val d
  else if root = 0 then .val one
  else newtonLoop d root fuel one one

/-- `ApproxRoot`: every panic inside is recovered and returned as an error (`err`). -/
def approxRoot (d : Int) (root : Nat) (fuel : Nat) : Out :=
  if d < 0 then
    match mulInt64 d (-1) with
    | none => .err
    | some nd =>
      match approxRootNonneg nd root fuel with
      | .val g => match mulInt64 g (-1) with
        | none => .err
        | some r => .val r
      | o => o
  else approxRootNonneg d root fuel

/-- Go's `uint64(x)` conversion of an `int64`. -/
def toUint64 (x : Int) : Nat := (x % 18446744073709551616).toNat

/-- `FracPow(power, denominator)` with the root computation abstracted as an oracle `R`
(`R d` = outcome of `d.ApproxRoot(denominator)`): `d^(power)` as the `denominator`-th root to the
`B`-th power with `B = round(power·denominator)`.  **If `ApproxRoot` returns an error the result
is `1`.**  `err` = an unrecovered panic (`Mul`/`RoundInt64`/`Power`), `timeout` = the root loop ran
out of fuel. -/
def fracPowR (R : Int → Out) (d e : Int) (den : Nat) : Out :=
  if e = 0 then .val one
  else
    match mul e (ofInt den) with
    | none => .err
    | some t =>
      match roundInt64 t with
      | none => .err
      | some b0 =>
        -- `B := NewInt(b0).ToDec()` then `uint64(B.RoundInt64())`
        match roundInt64 (ofInt b0) with
        | none => .err
        | some b =>
          match R d with
          | .timeout => .timeout
          | .err => .val one
          | .val c =>
            match power c (toUint64 b) with
            | none => .err
            | some r => .val r

/-- The root oracle that is the code: `ApproxRoot(den)` run with `fuel` iterations allowed. -/
def rootOracle (den fuel : Nat) : Int → Out := fun d => approxRoot d den fuel

/-- `FracPow`. -/
def fracPow (d e : Int) (den : Nat) (fuel : Nat) : Out := fracPowR (rootOracle den fuel) d e den

/-- `Pip22ExponentDenominator`. -/
def pip22Den : Nat := 100

/-- The PIP-22 stake-weight parameters (x/nodes params): `ServicerStakeFloorMultiplier`,
`ServicerStakeWeightCeiling` (int64), `ServicerStakeWeightMultiplier`,
`ServicerStakeFloorMultiplierExponent` (raw decimals). -/
structure Pip22 where
  floor : Int
  ceiling : Int
  wm : Int
  exponent : Int
deriving Repr

def minInt (a b : Int) : Int := if a > b then b else a

/-- Reward flooring: `MinInt(stake − stake mod floor, ceiling − ceiling mod floor)`. -/
def flooredStake (p : Pip22) (stake : Int) : Option Int :=
  match Int256.mod stake p.floor, Int256.mod p.ceiling p.floor with
  | some r, some c =>
    match Int256.sub stake r, Int256.sub p.ceiling c with
    | some a, some b => some (minInt a b)
    | _, _ => none
  | _, _ => none

/-- Burn flooring as written in `BurnForChallenge`:
`MinInt(stake − stake mod floor, ceiling − stake mod floor)`. -/
def flooredStakeBurn (p : Pip22) (stake : Int) : Option Int :=
  match Int256.mod stake p.floor with
  | some r =>
    match Int256.sub stake r, Int256.sub p.ceiling r with
    | some a, some b => some (minInt a b)
    | _, _ => none
  | none => none

/-- `NewIntFromBigInt` range check applied by `TruncateInt`. -/
def toBigInt (x : Int) : Option Int := if Int256.inRange x then some x else none

/-- Everything after the bin number, shared verbatim by reward and burn:
`weight := bin.ToDec().FracPow(exp, 100).Quo(wm);
coins := multiplier.ToDec().Mul(count.ToDec()).Mul(weight).TruncateInt()`. -/
def coinsOfBin (R : Int → Out) (p : Pip22) (bin multiplier count : Int) : Out :=
  match fracPowR R (ofInt bin) p.exponent pip22Den with
  | .timeout => .timeout
  | .err => .err
  | .val fp =>
    match quo fp p.wm with
    | none => .err
    | some weight =>
      match mul (ofInt multiplier) (ofInt count) with
      | none => .err
      | some mr =>
        match mul mr weight with
        | none => .err
        | some cd =>
          match toBigInt (truncateInt cd) with
          | none => .err
          | some c => .val c

/-- `bin := flooredStake.Quo(floor)` followed by `coinsOfBin`. -/
def weightedCoinsR (R : Int → Out) (p : Pip22) (floored multiplier count : Int) : Out :=
  match Int256.quo floored p.floor with
  | none => .err
  | some bin => coinsOfBin R p bin multiplier count

/-- `calculateRewardRewardPip22` over a root oracle. -/
def calculateRewardR (R : Int → Out) (p : Pip22) (relays stake multiplier : Int) : Out :=
  match flooredStake p stake with
  | none => .err
  | some fs => weightedCoinsR R p fs multiplier relays

/-- The coin amount computed by `BurnForChallenge` (after RSCAL), before `simpleSlash`, over a root
oracle. -/
def burnForChallengeR (R : Int → Out) (p : Pip22) (challenges stake multiplier : Int) : Out :=
  match flooredStakeBurn p stake with
  | none => .err
  | some fs => weightedCoinsR R p fs multiplier challenges

/-- `calculateRewardRewardPip22` (the Newton loop allowed `fuel` iterations). -/
def calculateReward (p : Pip22) (relays stake multiplier : Int) (fuel : Nat) : Out :=
  calculateRewardR (rootOracle pip22Den fuel) p relays stake multiplier

/-- `BurnForChallenge` coin amount (the Newton loop allowed `fuel` iterations). -/
def burnForChallenge (p : Pip22) (challenges stake multiplier : Int) (fuel : Nat) : Out :=
  burnForChallengeR (rootOracle pip22Den fuel) p challenges stake multiplier

/-- `simpleSlash`: what is actually removed from the validator's stake. -/
def slashed (coins stake : Int) : Int := if coins ≤ 0 then 0 else minInt coins stake

end BigDec
