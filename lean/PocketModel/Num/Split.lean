import PocketModel.Num.FracPow
/-!
# Reward and fee splitting (x/nodes/keeper/params.go `splitRewards`, `splitFeesCollected`;
x/nodes/keeper/reward.go `SplitNodeRewards`, `RewardForRelaysPerChain`, `blockReward`)

Amounts are `BigInt`s (`Int` with the 255-bit checks of `Int256`), percentages go through `BigDec`
(raw 10^18-scaled, see `BigDec.lean`).  `none` = Go panic.
-/
namespace Split
open BigDec

/-- `splitRewards`: `feesCollected = trunc(r·(dao/100) + r·(proposer/100))`, `node = reward − fees`.
Returns `(nodeReward, feesCollected)`. -/
def splitRewards (dao proposer reward : Int) : Option (Int × Int) :=
  let r := ofInt reward
  match quoInt (ofInt dao) 100, quoInt (ofInt proposer) 100 with
  | some dp, some pp =>
    match mul r dp, mul r pp with
    | some da, some pa =>
      match add da pa with
      | some sum =>
        match toBigInt (truncateInt sum) with
        | some fees =>
          match Int256.sub reward fees with
          | some node => some (node, fees)
          | none => none
        | none => none
      | none => none
    | _, _ => none
  | _, _ => none

/-- `splitFeesCollected`: `daoCut = trunc(fees · (dao / (dao + proposer)))`, the proposer gets the
rest.  **`dao = proposer = 0` divides by zero (panic).**  Returns `(daoCut, proposerCut)`. -/
def splitFeesCollected (dao proposer fees : Int) : Option (Int × Int) :=
  match add (ofInt dao) (ofInt proposer) with
  | none => none
  | some s =>
    match quo (ofInt dao) s with
    | none => none
    | some q =>
      match mul (ofInt fees) q with
      | none => none
      | some x =>
        match toBigInt (truncateInt x) with
        | none => none
        | some daoCut =>
          match Int256.sub fees daoCut with
          | some p => some (daoCut, p)
          | none => none

/-- A recipient of a payment: a delegator (by its identifier) or the primary recipient. -/
inductive Rcpt where
  | delegator (id : Nat)
  | primary
deriving DecidableEq, Repr

/-- `NormalizeRewardDelegators` on the delegators in the order the Go map iteration yields them
(`bad` marks an address that is not valid hex): every share positive, running total ≤ 100. -/
def normalize : List (Nat × Nat × Bool) → Nat → Bool
  | [], _ => true
  | (_, share, bad) :: rest, total =>
    if share = 0 then false
    else if bad then false
    else if total + share > 100 then false
    else normalize rest (total + share)

/-- `rewards.ToDec().Mul(NewDecWithPrec(share, 2)).TruncateInt()`. -/
def allocation (rewards : Int) (share : Nat) : Option Int :=
  match mul (ofInt rewards) ((share : Int) * 10000000000000000) with
  | none => none
  | some x => toBigInt (truncateInt x)

/-- The loop of `SplitNodeRewards`: payments in callback order and what remains. -/
def splitLoop (rewards : Int) : List (Nat × Nat × Bool) → Int → Option (List (Rcpt × Int) × Int)
  | [], remains => some ([], remains)
  | (id, share, _) :: rest, remains =>
    match allocation rewards share with
    | none => none
    | some a =>
      match Int256.sub remains a with
      | none => none
      | some rem' =>
        match splitLoop rewards rest rem' with
        | none => none
        | some (pays, fin) => some (if a > 0 then (Rcpt.delegator id, a) :: pays else pays, fin)

/-- Result of `SplitNodeRewards`: an error (nothing paid) or the callback sequence. -/
inductive SplitRes where
  | error
  | paid (pays : List (Rcpt × Int))
deriving DecidableEq, Repr

/-- `SplitNodeRewards(rewards, primary, delegators, callback)`; `none` = panic. -/
def splitNodeRewards (rewards : Int) (ds : List (Nat × Nat × Bool)) : Option SplitRes :=
  if rewards ≤ 0 then some .error
  else if !normalize ds 0 then some .error
  else
    match splitLoop rewards ds rewards with
    | none => none
    | some (pays, remains) =>
      some (.paid (if remains > 0 then pays ++ [(Rcpt.primary, remains)] else pays))

/-- A mint performed by `RewardForRelaysPerChain`. -/
inductive Mint where
  | operator (amt : Int)        -- reward-cost compensation to the servicer's own address
  | node (r : Rcpt) (amt : Int) -- output address / delegators
  | feeCollector (amt : Int)
deriving DecidableEq, Repr

def Mint.amount : Mint → Int
  | .operator a => a
  | .node _ a => a
  | .feeCollector a => a

/-- The reward-cost compensation of `RewardForRelaysPerChain` (after the reward-delegator upgrade):
`if toNode.LT(rewardCost) {rewardCost = toNode}; if rewardCost.IsPositive() {mint(rewardCost,
operator); toNode = toNode.Sub(rewardCost)}`.  `rewardCost = none` before the upgrade. -/
def carveOut (toNode0 : Int) (rewardCost : Option Int) : Option (List Mint × Int) :=
  match rewardCost with
  | none => some ([], toNode0)
  | some rc =>
    let cost := if toNode0 < rc then toNode0 else rc
    if cost > 0 then
      match Int256.sub toNode0 cost with
      | some t => some ([Mint.operator cost], t)
      | none => none
    else some ([], toNode0)

/-- The part of `RewardForRelaysPerChain` after `CalculateRelayReward`: `coins` is the computed
relay reward, `rewardCost` the claim+proof fee (`none` before the reward-delegator upgrade).
Returns the mints in order and the returned `toNode`. -/
def distribute (dao proposer coins : Int) (rewardCost : Option Int) (ds : List (Nat × Nat × Bool)) :
    Option (List Mint × Int) :=
  match splitRewards dao proposer coins with
  | none => none
  | some (toNode0, toFee) =>
    match carveOut toNode0 rewardCost with
    | none => none
    | some (m1, toNode) =>
      match splitNodeRewards toNode ds with
      | none => none
      | some res =>
        let m2 := match res with
          | .error => []
          | .paid pays => pays.map fun (r, a) => Mint.node r a
        let m3 := if toFee > 0 then [Mint.feeCollector toFee] else []
        some (m1 ++ m2 ++ m3, toNode)

def sumInt : List Int → Int
  | [] => 0
  | x :: xs => x + sumInt xs

/-- Total minted. -/
def total (ms : List Mint) : Int := sumInt (ms.map Mint.amount)

/-- `blockReward`: DAO cut, then the proposer cut through `SplitNodeRewards`. -/
def blockReward (dao proposer fees : Int) (ds : List (Nat × Nat × Bool)) : Option (Int × SplitRes) :=
  if fees = 0 then some (0, .error)
  else
    match splitFeesCollected dao proposer fees with
    | none => none
    | some (daoCut, propCut) =>
      match splitNodeRewards propCut ds with
      | none => none
      | some res => some (daoCut, res)

end Split
