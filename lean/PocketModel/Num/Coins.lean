import PocketModel.Basic.Bytes
import PocketModel.Num.Int256
/-!
# `types.Coins` (types/coin.go)

Model of `safeAdd`, `negative`, `SafeSub`, `Sub`, `IsValid`, `AmountOf`, `IsAllGTE`,
`IsAnyNegative`, `removeZeroCoins`, as coded (the two-index merge, the binary search, the
first-coin-only denom validation of `IsValid`).  A Go panic is `none`.
-/

abbrev Denom := Bytes

structure Coin where
  denom : Denom
  amount : Int
deriving DecidableEq, Repr

abbrev Coins := List Coin

namespace Coins

/-- `append(sum, c)` guarded by `!c.IsZero()`. -/
def pushNZ (c : Coin) (rest : Coins) : Coins := if c.amount = 0 then rest else c :: rest

/-- `removeZeroCoins`. -/
def removeZero : Coins → Coins
  | [] => []
  | c :: cs => pushNZ c (removeZero cs)

/-- `Coins.safeAdd`: the merge loop of coin.go.  `none` = `BigInt overflow` panic. -/
def safeAdd : Coins → Coins → Option Coins
  | [], b => some (removeZero b)
  | a :: as, [] => some (removeZero (a :: as))
  | ca :: as, cb :: bs =>
    if ca.denom < cb.denom then
      (safeAdd as (cb :: bs)).map (pushNZ ca)
    else if ca.denom = cb.denom then
      match Int256.add ca.amount cb.amount with
      | none => none
      | some s => (safeAdd as bs).map (pushNZ ⟨ca.denom, s⟩)
    else
      (safeAdd (ca :: as) bs).map (pushNZ cb)
termination_by a b => a.length + b.length

/-- `Coins.negative`. -/
def negative (cs : Coins) : Coins := cs.map fun c => ⟨c.denom, -c.amount⟩

/-- `IsAnyNegative`. -/
def isAnyNegative (cs : Coins) : Bool := cs.any fun c => c.amount < 0

/-- `SafeSub`. -/
def safeSub (a b : Coins) : Option (Coins × Bool) :=
  (safeAdd a (negative b)).map fun d => (d, isAnyNegative d)

/-- `Sub`: panics when the result has a negative amount. -/
def sub (a b : Coins) : Option Coins :=
  match safeSub a b with
  | some (d, false) => some d
  | _ => none

/-- `AmountOf`: the binary search of coin.go (denom validation is done by the caller). -/
def amountOf (cs : Coins) (d : Denom) : Int :=
  if h : cs.length ≤ 1 then
    match cs with
    | [] => 0
    | c :: _ => if c.denom = d then c.amount else 0
  else
    let mid := cs.length / 2
    let c := cs[mid]'(by omega)
    if d < c.denom then amountOf (cs.take mid) d
    else if d = c.denom then c.amount
    else amountOf (cs.drop (mid + 1)) d
termination_by cs.length
decreasing_by
  · simp [List.length_take]; omega
  · simp [List.length_drop]; omega

/-- `reDnm = [a-z][a-z0-9]{2,15}` (full match). -/
def validDenom (d : Denom) : Bool :=
  match d with
  | [] => false
  | c :: rest =>
    (97 ≤ c && c ≤ 122) && (2 ≤ rest.length && rest.length ≤ 15) &&
      rest.all fun x => (97 ≤ x && x ≤ 122) || (48 ≤ x && x ≤ 57)

/-- `strings.ToLower(d) == d` for ASCII: no upper-case ASCII letter. (Non-ASCII input is outside
the generated domain; the harness only feeds ASCII denominations.) -/
def isLower (d : Denom) : Bool := d.all fun x => !(65 ≤ x && x ≤ 90)

/-- The loop of `IsValid` over `coins[1:]`. -/
def isValidTail : Denom → Coins → Bool
  | _, [] => true
  | low, c :: rest => isLower c.denom && decide (low < c.denom) && decide (0 < c.amount) && isValidTail c.denom rest

/-- `Coins.IsValid`. -/
def isValid : Coins → Bool
  | [] => true
  | [c] => validDenom c.denom && decide (0 < c.amount)
  | c :: rest => (validDenom c.denom && decide (0 < c.amount)) && isValidTail c.denom rest

/-- `IsAllGTE`. -/
def isAllGTE (a b : Coins) : Bool :=
  if b.isEmpty then true
  else if a.isEmpty then false
  else b.all fun cb => !(decide (cb.amount > amountOf a cb.denom))

/-! ## Specification side: a coin set as a map from denomination to amount -/

/-- Multiset reading of a coin list: the sum of the amounts listed under `d`. -/
def sumOf (cs : Coins) (d : Denom) : Int :=
  match cs with
  | [] => 0
  | c :: rest => (if c.denom = d then c.amount else 0) + sumOf rest d

/-- Canonical form: strictly ascending denominations, no zero amount. -/
def strictSorted : Coins → Bool
  | [] => true
  | [_] => true
  | a :: b :: rest => decide (a.denom < b.denom) && strictSorted (b :: rest)

def noZero : Coins → Bool
  | [] => true
  | c :: cs => decide (c.amount ≠ 0) && noZero cs

def canonical (cs : Coins) : Bool := strictSorted cs && noZero cs

end Coins
