/-!
# `types.BigInt` (types/int.go): big.Int with a 255-bit range check

`Add`, `Sub` compute the exact result and panic if `BitLen > 255`; `Mul` first panics when
`BitLen(a)+BitLen(b)-1 > 255`, then computes and checks again.  A panic is `none`.
-/
namespace Int256

def maxBitLen : Nat := 255

/-- `big.Int.BitLen`: length of the absolute value in bits, 0 for 0. -/
def bitLen (x : Int) : Nat := if x.natAbs = 0 then 0 else x.natAbs.log2 + 1

def add (a b : Int) : Option Int :=
  if bitLen (a + b) > maxBitLen then none else some (a + b)

def sub (a b : Int) : Option Int :=
  if bitLen (a - b) > maxBitLen then none else some (a - b)

def mul (a b : Int) : Option Int :=
  if bitLen a + bitLen b - 1 > maxBitLen then none
  else if bitLen (a * b) > maxBitLen then none else some (a * b)

/-- `Quo`: truncated division (big.Int.Quo), panics on zero divisor. -/
def quo (a b : Int) : Option Int := if b = 0 then none else some (a.tdiv b)

/-- `Mod`: Euclidean modulus (big.Int.Mod), panics on zero divisor. -/
def mod (a b : Int) : Option Int := if b = 0 then none else some (a.emod b)

def neg (a : Int) : Int := -a

/-- `NewIntFromString`/range check used when a value enters the system. -/
def inRange (a : Int) : Bool := bitLen a ≤ maxBitLen

end Int256
