import PocketModel.Num.Elen
/-!
# `types.TransactionIndexer` (types/indexer.go)

The indexer keeps four kinds of entries in **one** tm-db key space:

* `tx.height/<enc h>/<enc i>      -> hash`
* `tx.signer/<hex addr>/<enc h>/<enc i>    -> hash`   (only when `Result.Signer != nil`)
* `tx.recipient/<hex addr>/<enc h>/<enc i> -> hash`   (only when `Result.Recipient != nil`)
* `hash -> amino(TxResult)`

`enc` is ELEN (`Elen.encodeInt`).  Searches are range iterations `[prefix, endKey(prefix))` in the
direction chosen by `PrefixIterator`, followed by `Get(hash)` for every entry that is not skipped.

The database is a sorted association list (tm-db MemDB / GoLevelDB: bytewise key order, `Set`
overwrites).  The value stored under a hash is the marshalled result; the model keeps the result
itself (`Val.result`) — the codec round trip is C38's subject.  Heights and positions are `Nat`
(negative heights do not occur; `encodeNeg` is not modelled).
-/
namespace Indexer
open Elen

/-- The fields of `tmtypes.TxResult` the indexer looks at.  `hash = result.Tx.Hash()`;
`anteFail = (Result.Codespace == "auth" && Result.Code < AnteHandlerMaxError)`. -/
structure TxRes where
  height : Nat
  index : Nat
  hash : Bytes
  signer : Option Bytes
  recipient : Option Bytes
  anteFail : Bool
deriving DecidableEq, Repr

/-- A database value: the hash stored under an index key, or the result stored under its hash. -/
inductive Val where
  | idx (hash : Bytes)
  | result (t : TxRes)
deriving DecidableEq, Repr

abbrev Entry := Bytes × Val
abbrev Store := List Entry

/-- `db.Set` on a key-sorted list. -/
def set : Store → Bytes → Val → Store
  | [], k, v => [(k, v)]
  | (k', v') :: rest, k, v =>
    if k < k' then (k, v) :: (k', v') :: rest
    else if k = k' then (k, v) :: rest
    else (k', v') :: set rest k v

/-- `db.Get`. -/
def lookup : Store → Bytes → Option Val
  | [], _ => none
  | (k', v') :: rest, k => if k = k' then some v' else lookup rest k

/-- `db.Iterator(lo, hi)`: entries with `lo ≤ key < hi`, ascending. -/
def iterator (s : Store) (lo hi : Bytes) : List Entry :=
  s.filter fun e => decide (lo ≤ e.1) && decide (e.1 < hi)

/-- `db.ReverseIterator(lo, hi)`: the same entries, descending. -/
def reverseIterator (s : Store) (lo hi : Bytes) : List Entry := (iterator s lo hi).reverse

/-! ## Keys -/

def hexDigitByte (n : Nat) : UInt8 := if n < 10 then UInt8.ofNat (48 + n) else UInt8.ofNat (87 + n)

/-- `Address.String()` = `hex.EncodeToString` (lower case; empty for the empty address). -/
def hexBytes (a : Bytes) : Bytes :=
  a.flatMap fun x => [hexDigitByte (x.toNat / 16), hexDigitByte (x.toNat % 16)]

/-- `"tx.height"`. -/
def txHeightKey : Bytes := [116, 120, 46, 104, 101, 105, 103, 104, 116]
/-- `"tx.signer"`. -/
def txSignerKey : Bytes := [116, 120, 46, 115, 105, 103, 110, 101, 114]
/-- `"tx.recipient"`. -/
def txRecipientKey : Bytes := [116, 120, 46, 114, 101, 99, 105, 112, 105, 101, 110, 116]

/-- `keyForHeight`. -/
def keyForHeight (h i : Nat) : Bytes :=
  txHeightKey ++ slash :: (encodeInt h ++ slash :: encodeInt i)

/-- `prefixKeyForHeight`: note the trailing separator. -/
def prefixKeyForHeight (h : Nat) : Bytes :=
  txHeightKey ++ slash :: (encodeInt h ++ [slash])

/-- `keyForSigner` / `keyForRecipient` (`ns` is the name space constant). -/
def keyForAddr (ns a : Bytes) (h i : Nat) : Bytes :=
  ns ++ slash :: (hexBytes a ++ slash :: (encodeInt h ++ slash :: encodeInt i))

/-- `prefixKeyForSigner` / `prefixKeyForRecipient`: ends in `EncodeInt(0)` = `"0"`, no separator. -/
def prefixKeyForAddr (ns a : Bytes) : Bytes :=
  ns ++ slash :: (hexBytes a ++ slash :: encodeInt 0)

/-- `prefixKeyForSignerAndHeight` / `prefixKeyForRecipientAndHeight`: **no** trailing separator. -/
def prefixKeyForAddrAndHeight (ns a : Bytes) (h : Nat) : Bytes :=
  ns ++ slash :: (hexBytes a ++ slash :: encodeInt h)

/-- Everything up to and including the last `/` (`bytes.Split` … drop last … `bytes.Join`). -/
def dirOf (p : Bytes) : Bytes := (p.reverse.dropWhile (· != slash)).reverse

/-- `endKey`: the last `/`-segment replaced by `EncodeInt(math.MaxInt64)`. -/
def endKey (p : Bytes) : Bytes := dirOf p ++ encodeInt maxInt64

/-! ## Writing -/

/-- The entries one result contributes, in the order `AddBatch`/`Index` issues the `Set`s. -/
def entriesOf (t : TxRes) : List Entry :=
  (match t.signer with
    | some a => [(keyForAddr txSignerKey a t.height t.index, Val.idx t.hash)]
    | none => []) ++
  (match t.recipient with
    | some a => [(keyForAddr txRecipientKey a t.height t.index, Val.idx t.hash)]
    | none => []) ++
  [(keyForHeight t.height t.index, Val.idx t.hash), (t.hash, Val.result t)]

/-- All `Set`s of a sequence of results; ante-handler level failures are skipped. -/
def writes (ts : List TxRes) : List Entry :=
  ts.flatMap fun t => if t.anteFail then [] else entriesOf t

def applyWrites (s : Store) (ws : List Entry) : Store := ws.foldl (fun s e => set s e.1 e.2) s

/-- `TransactionIndexer.Index`. -/
def index (s : Store) (t : TxRes) : Store := applyWrites s (writes [t])

/-- `TransactionIndexer.AddBatch` (the tm-db batch applies its operations in order). -/
def addBatch (s : Store) (ts : List TxRes) : Store := applyWrites s (writes ts)

/-! ## Reading -/

inductive Res (α : Type) where
  | ok (a : α)
  | err
deriving DecidableEq, Repr

/-- `TransactionIndexer.Get`: empty hash is an error; an absent key is `nil`; a value that is not
a marshalled result (an index entry looked up as if it were a hash) fails to unmarshal. -/
def get (s : Store) (hash : Bytes) : Res (Option TxRes) :=
  if hash = [] then .err
  else match lookup s hash with
    | none => .ok none
    | some (.result t) => .ok (some t)
    | some (.idx _) => .err

/-- What `getByPrefix` does with one iterator position: `t.Get(it.Value())`.  A result entry that
lies inside an index range would be looked up by its marshalled bytes (absent); this does not
happen for real hashes and the theorems exclude it by `HashOK`. -/
def getEntry (s : Store) (e : Entry) : Res (Option TxRes) :=
  match e.2 with
  | .idx h => get s h
  | .result _ => .ok none

/-- The loop of `getByPrefix` as coded: `skipCount`/`i` counters; `total` counts every position;
`Get` runs for every position that is not skipped, also beyond `Size`; any `Get` error aborts. -/
def pageLoop (s : Store) (skip size : Int) : List Entry → Nat → Nat → Res (List (Option TxRes) × Nat)
  | [], _, _ => .ok ([], 0)
  | e :: es, i, sc =>
    if (sc : Int) < skip then
      match pageLoop s skip size es i (sc + 1) with
      | .ok (r, t) => .ok (r, t + 1)
      | .err => .err
    else
      match getEntry s e with
      | .err => .err
      | .ok v =>
        match pageLoop s skip size es (i + 1) sc with
        | .ok (r, t) => .ok (if (i : Int) < size then v :: r else r, t + 1)
        | .err => .err

inductive SortArg where
  | asc    -- "asc"
  | desc   -- "desc"
  | other  -- anything else: `sorting order: … not supported`
deriving DecidableEq, Repr

inductive Dir where
  | forward  -- db.Iterator
  | reverse  -- db.ReverseIterator
deriving DecidableEq, Repr

/-- `PrefixIterator` **as coded**: `"asc"` opens the *reverse* iterator, `"desc"` the forward one. -/
def sortMapAsIs : SortArg → Option Dir
  | .asc => some .reverse
  | .desc => some .forward
  | .other => none

/-- The mapping after `fixes/C42-sort-direction.patch`. -/
def sortMapFixed : SortArg → Option Dir
  | .asc => some .forward
  | .desc => some .reverse
  | .other => none

/-- `PrefixIterator` with the direction mapping as a parameter. -/
def prefixIterator (m : SortArg → Option Dir) (s : Store) (pre : Bytes) (sort : SortArg) : Option (List Entry) :=
  match m sort with
  | some .forward => some (iterator s pre (endKey pre))
  | some .reverse => some (reverseIterator s pre (endKey pre))
  | none => none

/-- `maxPerPage`. -/
def maxPerPage : Int := 10000

/-- `getByPrefix` (with the `Size > maxPerPage` clamp of `Search`). -/
def getByPrefix (m : SortArg → Option Dir) (s : Store) (pre : Bytes) (sort : SortArg) (skip size : Int) :
    Res (List (Option TxRes) × Nat) :=
  match prefixIterator m s pre sort with
  | none => .err
  | some es => pageLoop s skip (if size > maxPerPage then maxPerPage else size) es 0 0

/-- `Search` with `tx.height=h`. -/
def searchHeight (m : SortArg → Option Dir) (s : Store) (h : Nat) (sort : SortArg) (skip size : Int) :=
  getByPrefix m s (prefixKeyForHeight h) sort skip size

/-- `Search` with `tx.signer='a'` (`ns = txSignerKey`) or `tx.recipient='a'`. -/
def searchAddr (m : SortArg → Option Dir) (s : Store) (ns a : Bytes) (sort : SortArg) (skip size : Int) :=
  getByPrefix m s (prefixKeyForAddr ns a) sort skip size

/-- `Search` with `tx.signer='a' AND tx.height=h`. -/
def searchAddrHeight (m : SortArg → Option Dir) (s : Store) (ns a : Bytes) (h : Nat) (sort : SortArg)
    (skip size : Int) :=
  getByPrefix m s (prefixKeyForAddrAndHeight ns a h) sort skip size

/-- `Search` with `tx.hash='…'` (`hashQuery`): one element, `total = 1`, also when absent. -/
def searchHash (s : Store) (hash : Bytes) : Res (List (Option TxRes) × Nat) :=
  match get s hash with
  | .err => .err
  | .ok v => .ok ([v], 1)

end Indexer
