import PocketModel.Basic.Bytes
/-!
# Merkle-sum-index tree of relay evidence (`x/pocketcore/types/merkle.go`)

Executable model of the code **as it is**.  The hash function (`merkleHash` = blake2b-256) is the
parameter `H`; leaves are byte strings (`Proof.Bytes()`), a leaf's *sum* is the little-endian
value of the first eight bytes of its hash.  `uint64` range bounds are carried as `Nat`; the only
arithmetic the Go code does on them is `lower + 1` for padding leaves, modelled with the
wrap-around (`% 2^64`) it has.  Go panics (index out of range) are `none`.

`post : Bool` selects the parent-hash layout: `true` = at/after the codec upgrade height
(`ModuleCdc.IsAfterCodecUpgrade(height)`, the child indices are absorbed), `false` = before it.
-/
namespace SumIndex

/-- 2^64. -/
def two64 : Nat := 18446744073709551616

/-- `k` little-endian bytes of `x` (`binary.LittleEndian.PutUint64` for `k = 8`). -/
def leBytes : Nat → Nat → Bytes
  | 0, _ => []
  | k + 1, x => UInt8.ofNat (x % 256) :: leBytes k (x / 256)

/-- `binary.LittleEndian.PutUint64`; the argument is a `uint64`, i.e. taken modulo 2^64. -/
def le8 (x : Nat) : Bytes := leBytes 8 x

/-- Little-endian value of a byte string. -/
def leNat : Bytes → Nat
  | [] => 0
  | b :: bs => b.toNat + 256 * leNat bs

/-- `sumFromHash`: `binary.LittleEndian.Uint64(hash[:8])`.  (Go panics for hashes shorter than 8
bytes; every hash this is applied to is an output of `merkleHash`, 32 bytes.) -/
def sumFromHash (h : Bytes) : Nat := leNat (h.take 8)

/-- `HashRange` (`Hash`, `Range.Lower`, `Range.Upper`). -/
structure HashRange where
  hash : Bytes
  lower : Nat
  upper : Nat
deriving DecidableEq, Repr, Inhabited

/-- `MerkleProof` (`TargetIndex int64`, `HashRanges`, `Target`). -/
structure MerkleProof where
  index : Int
  hashRanges : List HashRange
  target : HashRange
deriving DecidableEq, Repr, Inhabited

/-- `HashRange.isValidRange`: `Upper != 0` and `Lower < Upper`, the comparison on the numbers
themselves (the bounds are `uint64` values, carried as naturals `< 2^64`; no subtraction, hence no
wrap-around: an inverted range `Lower > Upper` is as invalid as an empty one). -/
def HashRange.isValid (hr : HashRange) : Bool :=
  !(hr.upper == 0) && decide (hr.lower < hr.upper)

/-- Outcome of the merkle part of `MsgProof.ValidateBasic`. -/
inductive BasicVerdict where
  | combo   -- fewer than three sibling entries (`InvalidLeafCousinProofsCombo`)
  | range   -- the target's range is not a proper range (`InvalidMerkleRangeError`)
  | pass    -- goes on to the leaf's own checks
deriving DecidableEq, Repr

/-- `MsgProof.ValidateBasic`, merkle part: at least three levels, then `Target.isValidRange()`. -/
def msgProofBasic (p : MerkleProof) : BasicVerdict :=
  if p.hashRanges.length < 3 then .combo
  else if !p.target.isValid then .range
  else .pass

/-- `MultiAppend(make([]byte, size), parts...)`: successive `copy`s into a fixed, zeroed buffer —
the concatenation cut at `size` and zero-padded to `size`. -/
def multiAppend (size : Nat) (parts : List Bytes) : Bytes :=
  let c := parts.flatten.take size
  c ++ List.replicate (size - c.length) 0

/-- The byte string that `parentHash` hashes.  Post-upgrade: `h1‖h2‖LE(i1)‖LE(i2)‖LE(lo)‖LE(up)` in
a 96-byte buffer; pre-upgrade: `h1‖h2‖LE(lo)‖LE(up)` in an 80-byte buffer. -/
def parentInput (post : Bool) (h1 h2 : Bytes) (lo up i1 i2 : Nat) : Bytes :=
  if post then multiAppend 96 [h1, h2, le8 i1 ++ le8 i2, le8 lo ++ le8 up]
  else multiAppend 80 [h1, h2, le8 lo ++ le8 up]

/-- `parentHash`. -/
def parentHash (H : Bytes → Bytes) (post : Bool) (h1 h2 : Bytes) (lo up i1 i2 : Nat) : Bytes :=
  H (parentInput post h1 h2 lo up i1 i2)

/-- The parent node of two adjacent nodes at positions `i`, `i+1` of a level (`levelUp` body). -/
def parent (H : Bytes → Bytes) (post : Bool) (i : Nat) (a b : HashRange) : HashRange :=
  { hash := parentHash H post a.hash b.hash a.lower b.upper i (i + 1), lower := a.lower, upper := b.upper }

/-- `levelUp` from position `i` on: pairs `(data[i], data[i+1])` become parents; a dangling last
element makes Go index out of range (`none`).  (The Go code overwrites `data[i/2]` in place; the
slot written at step `i` is never read afterwards, so the in-place version computes this.) -/
def levelUpFrom (H : Bytes → Bytes) (post : Bool) : Nat → List HashRange → Option (List HashRange)
  | _, [] => some []
  | _, [_] => none
  | i, a :: b :: rest => (levelUpFrom H post (i + 2) rest).map (parent H post i a b :: ·)

/-- `levelUp`. -/
def levelUp (H : Bytes → Bytes) (post : Bool) (data : List HashRange) : Option (List HashRange) :=
  levelUpFrom H post 0 data

/-- `root`: level up until one node is left.  `fuel` bounds the recursion (the Go code recurses
forever on an empty level, which cannot arise: `sortAndStructure` panics first). -/
def rootOf (H : Bytes → Bytes) (post : Bool) : Nat → List HashRange → Option HashRange
  | 0, _ => none
  | fuel + 1, data =>
    match levelUp H post data with
    | none => none
    | some next => if next.length = 1 then next.head? else rootOf H post fuel next

/-- The sibling position of `index` (`index-1` if odd, `index+1` if even). -/
def sibIndex (index : Nat) : Nat := if index % 2 = 1 then index - 1 else index + 1

/-- `merkleProof`: the sibling at every level, bottom-up. -/
def merklePath (H : Bytes → Bytes) (post : Bool) : Nat → List HashRange → Nat → Option (List HashRange)
  | 0, _, _ => none
  | fuel + 1, data, index =>
    match data[sibIndex index]? with
    | none => none
    | some sib =>
      match levelUp H post data with
      | none => none
      | some next =>
        if next.length = 1 then some [sib]
        else (merklePath H post fuel next (index / 2)).map (sib :: ·)

/-- `nextPowerOfTwo(v uint)` with 64-bit `uint` arithmetic (shifts up to 16 only). -/
def nextPowerOfTwo (v : Nat) : Nat :=
  let v := (v + two64 - 1) % two64
  let v := v ||| (v >>> 1)
  let v := v ||| (v >>> 2)
  let v := v ||| (v >>> 4)
  let v := v ||| (v >>> 8)
  let v := v ||| (v >>> 16)
  (v + 1) % two64

/-- Set the lower bound of each node to the previous upper bound (second loop of
`sortAndStructure`); returns the nodes and the last upper bound. -/
def chainLower : Nat → List HashRange → List HashRange × Nat
  | lower, [] => ([], lower)
  | lower, x :: xs =>
    let r := chainLower x.upper xs
    ({ x with lower := lower } :: r.1, r.2)

/-- Padding leaves for positions `i, i+1, …` (`count` of them): hash of the decimal position,
range `[lower, lower+1)` (`uint64` addition). -/
def padding (H : Bytes → Bytes) : Nat → Nat → Nat → List HashRange
  | 0, _, _ => []
  | count + 1, i, lower =>
    let up := (lower + 1) % two64
    { hash := H (Bytes.ofString (toString i)), lower := lower, upper := up } :: padding H count (i + 1) up

/-- A leaf with its hash, as sorted by `sortAndStructure`. -/
structure Entry where
  leaf : Bytes
  hash : Bytes
deriving DecidableEq, Repr, Inhabited

/-- `Less` of `SortByProof`, as the `≤` that a stable sort uses. -/
def Entry.le (a b : Entry) : Bool := decide (sumFromHash a.hash ≤ sumFromHash b.hash)

/-- `sortAndStructure` on leaves whose hashes are given: sort by sum (`sort.Sort` is not stable;
entries with equal sums and different hashes would need a 64-bit hash-prefix collision, identical
entries are interchangeable), chain the lower bounds, pad to `nextPowerOfTwo`.
`none` = Go panic (no leaves / negative padding length). -/
def structureEntries (H : Bytes → Bytes) (es : List Entry) : Option (List HashRange × List Bytes) :=
  let n := es.length
  if n = 0 then none else
  let sorted := es.mergeSort Entry.le
  let r := chainLower 0 (sorted.map fun e => { hash := e.hash, lower := 0, upper := sumFromHash e.hash })
  let proper := nextPowerOfTwo n
  if proper < n then none else
  some (r.1 ++ padding H (proper - n) n r.2, sorted.map (·.leaf))

/-- Leaves with their hashes (`merkleHash(proofs[i].Bytes())`). -/
def entries (H : Bytes → Bytes) (leaves : List Bytes) : List Entry :=
  leaves.map fun l => { leaf := l, hash := H l }

/-- `sortAndStructure`. -/
def sortAndStructure (H : Bytes → Bytes) (leaves : List Bytes) : Option (List HashRange × List Bytes) :=
  structureEntries H (entries H leaves)

/-- `GenerateRoot` on entries. -/
def genRootE (H : Bytes → Bytes) (post : Bool) (es : List Entry) : Option (HashRange × List Bytes) :=
  match structureEntries H es with
  | none => none
  | some (data, sorted) => (rootOf H post data.length data).map (·, sorted)

/-- `GenerateRoot`. -/
def genRoot (H : Bytes → Bytes) (post : Bool) (leaves : List Bytes) : Option (HashRange × List Bytes) :=
  genRootE H post (entries H leaves)

/-- `GenerateProofs` on entries; `index` is a position in the *sorted* leaves. -/
def genProofE (H : Bytes → Bytes) (post : Bool) (es : List Entry) (index : Nat) : Option (MerkleProof × Bytes) :=
  match structureEntries H es with
  | none => none
  | some (data, sorted) =>
    match merklePath H post data.length data index, sorted[index]?, data[index]? with
    | some path, some leaf, some target => some ({ index := index, hashRanges := path, target := target }, leaf)
    | _, _, _ => none

/-- `GenerateProofs`. -/
def genProof (H : Bytes → Bytes) (post : Bool) (leaves : List Bytes) (index : Nat) : Option (MerkleProof × Bytes) :=
  genProofE H post (entries H leaves) index

/-- `uint64(x)` of an `int64`. -/
def u64 (i : Int) : Nat := (i % (two64 : Int)).toNat

/-- Go's `i%2 == 1` on a signed integer (false for negative odd numbers). -/
def goOdd (i : Int) : Bool := Int.tmod i 2 == 1

/-- The position the verification loop actually walks: its binary digits are the parity tests
`idx%2 == 1` of the successively halved index (`levels` of them). -/
def pathIndex : Nat → Int → Nat
  | 0, _ => 0
  | l + 1, idx => (if goOdd idx then 1 else 0) + 2 * pathIndex l (Int.tdiv idx 2)

/-- Outcome of the verification loop. -/
inductive Climb where
  | panic
  | fail (replay : Bool)
  | top (t : HashRange) (index : Int)
deriving DecidableEq, Repr

/-- The `for i := 0; i < numOfLevels; i++` loop of `MerkleProof.Validate`; the list is
`mp.HashRanges[i:]`. -/
def climb (H : Bytes → Bytes) (post : Bool) : Nat → Int → HashRange → List HashRange → Climb
  | 0, idx, t, _ => .top t idx
  | n + 1, idx, t, sibs =>
    if !t.isValid then .fail true else
    match sibs with
    | [] => .panic
    | s :: rest =>
      if !s.isValid then .fail true else
      if goOdd idx then
        if t.lower ≠ s.upper then .fail false else
        climb H post n (Int.tdiv idx 2)
          { hash := parentHash H post s.hash t.hash s.lower t.upper (u64 (idx - 1)) (u64 idx),
            lower := s.lower, upper := t.upper } rest
      else
        if t.upper ≠ s.lower then .fail false else
        climb H post n (Int.tdiv idx 2)
          { hash := parentHash H post t.hash s.hash t.lower s.upper (u64 idx) (u64 (idx + 1)),
            lower := t.lower, upper := s.upper } rest

/-- `MerkleProof.Validate` with the leaf hash given: `(isValid, isReplayAttack)`, `none` = panic. -/
def validateH (H : Bytes → Bytes) (post : Bool) (p : MerkleProof) (root : HashRange) (leafHash : Bytes)
    (levels : Nat) : Option (Bool × Bool) :=
  if root.lower ≠ 0 then some (false, false)
  else if p.target.hash ≠ leafHash then some (false, false)
  else if p.target.upper ≠ sumFromHash p.target.hash then some (false, false)
  else match climb H post levels p.index p.target p.hashRanges with
    | .panic => none
    | .fail r => some (false, r)
    | .top t _ => if root = t then some (true, false) else some (false, true)

/-- `MerkleProof.Validate(height, root, leaf, numOfLevels)`. -/
def validate (H : Bytes → Bytes) (post : Bool) (p : MerkleProof) (root : HashRange) (leaf : Bytes)
    (levels : Nat) : Option (Bool × Bool) :=
  validateH H post p root (H leaf) levels

/-- `int(math.Ceil(math.Log2(float64(n))))` for `n ≥ 1` as exact integer arithmetic: the least `k`
with `n ≤ 2^k`.  (The float expression is compared with this by the correspondence check.) -/
def levels (n : Nat) : Nat := if n ≤ 1 then 0 else (n - 1).log2 + 1

/-- The `hasMatch` loop of `Keeper.ValidateProof`: some sibling entry, or the target, must end where
the claimed root ends. -/
def hasMatch (p : MerkleProof) (root : HashRange) : Bool :=
  p.hashRanges.any (fun m => m.upper == root.upper) || p.target.upper == root.upper

/-- The merkle part of `Keeper.ValidateProof` with the leaf hash given: the number of sibling
entries must equal `levels totalProofs` (this is what keeps `HashRanges[i]` in range), the
`hasMatch` test, then `Validate` with that many levels.  Both early errors are `(false, false)`. -/
def validateProofH (H : Bytes → Bytes) (post : Bool) (p : MerkleProof) (root : HashRange) (leafHash : Bytes)
    (totalProofs : Nat) : Option (Bool × Bool) :=
  if p.hashRanges.length ≠ levels totalProofs then some (false, false)
  else if !hasMatch p root then some (false, false)
  else validateH H post p root leafHash p.hashRanges.length

/-- The merkle part of `Keeper.ValidateProof`. -/
def validateProof (H : Bytes → Bytes) (post : Bool) (p : MerkleProof) (root : HashRange) (leaf : Bytes)
    (totalProofs : Nat) : Option (Bool × Bool) :=
  validateProofH H post p root (H leaf) totalProofs

/-- Which parent-hash layout the keeper verifies with: `ValidateProof` hands
`claim.SessionHeader.SessionBlockHeight` to `Validate`, so it is the layout in force at the
*session* height — the one root and proof were generated with — whatever the height of the block
that carries the proof transaction. -/
def verifierScheme (postSession _postProofBlock : Bool) : Bool := postSession

/-- `Keeper.ValidateProof` (merkle part) for a claim whose session height is on side `postSession`
of the hashing upgrade, run in a block on side `postProofBlock`. -/
def keeperValidateH (H : Bytes → Bytes) (postSession postProofBlock : Bool) (p : MerkleProof)
    (root : HashRange) (leafHash : Bytes) (totalProofs : Nat) : Option (Bool × Bool) :=
  validateProofH H (verifierScheme postSession postProofBlock) p root leafHash totalProofs

/-- `Keeper.ValidateProof` (merkle part). -/
def keeperValidate (H : Bytes → Bytes) (postSession postProofBlock : Bool) (p : MerkleProof)
    (root : HashRange) (leaf : Bytes) (totalProofs : Nat) : Option (Bool × Bool) :=
  keeperValidateH H postSession postProofBlock p root (H leaf) totalProofs

end SumIndex
