import Std.Data.HashMap
import PocketModel.Basic.Proto
import PocketModel.Merkle.SumIndex
/-!
# Line-protocol driver shared by C29 and C30 (trace written by `harness/cmd/c29`)

The model is parametric in the hash function.  The driver instantiates it with the *table* built
from the `h <input> => <output>` lines of the trace (entries computed by the harness with
`x/crypto/blake2b`, never by pocket-core code).  A lookup miss yields a 33-byte sentinel that no
real hash can equal, so a missing entry surfaces as `DIFF hash-table-miss`, never as agreement.

Executable specification evaluated on the implementation's own verdicts (`val` lines):

* the proof is the *committed* one (equal to the model's `genProofE` for its index, committed root,
  committed leaf, `levels n`) and its path meets no empty range  ⇒ must be `(true,false)`
  (`valid-proof-rejected`);
* committed and the path meets an empty range (replayed relays)    ⇒ must be `(false,true)`
  (`zero-width-not-replay`);
* anything else (some field differs from the committed proof)      ⇒ must not be valid
  (`forged-proof-accepted-<kind>`), except that before the codec upgrade the index is bound only
  through its `levels` parity bits (theorem `C30.pre_index_only_bits`): an index with the same
  bits is the same proof;
* kinds `mut-sib-zero`, `mut-tlower-zero` on a tree without empty ranges ⇒ must be `(false,true)`.
-/
namespace SumIndex.Driver
open SumIndex

/-- A value no 32-byte hash can equal. -/
def sentinel : Bytes := List.replicate 33 0xEE

structure St where
  tbl : Std.HashMap String Bytes := {}
  treeId : Nat := 0
  post : Bool := false
  es : List Entry := []
  root : Option HashRange := none
  lastIdx : Nat := 0
  lastProof : Option (MerkleProof × Bytes) := none

def hexChars : Array Char := #['0','1','2','3','4','5','6','7','8','9','a','b','c','d','e','f']

/-- Same string as `Bytes.render` (lower-case hex, `-` for empty), built by `String.push`. -/
def fastHex (b : Bytes) : String :=
  if b.isEmpty then "-" else
  b.foldl (fun acc x => (acc.push (hexChars[x.toNat / 16]!)).push (hexChars[x.toNat % 16]!)) ""

def St.H (s : St) : Bytes → Bytes := fun b => (s.tbl.get? (fastHex b)).getD sentinel

def parseHR (w : String) : Option HashRange :=
  match w.splitOn ":" with
  | [h, lo, up] => do
    let hb ← Bytes.parse h
    let l ← lo.toNat?
    let u ← up.toNat?
    pure ⟨hb, l, u⟩
  | _ => none

def parseHRs (w : String) : Option (List HashRange) :=
  if w = "-" then some [] else (w.splitOn ",").mapM parseHR

def parseHashes (w : String) : Option (List Bytes) :=
  if w = "-" then some [] else (w.splitOn ",").mapM Bytes.parse

def renderHR (h : HashRange) : String := s!"{Bytes.render h.hash}:{h.lower}:{h.upper}"
def renderHRs (hs : List HashRange) : String :=
  if hs.isEmpty then "-" else ",".intercalate (hs.map renderHR)
def renderHashes (hs : List Bytes) : String :=
  if hs.isEmpty then "-" else ",".intercalate (hs.map Bytes.render)

def hasSentinel (s : String) : Bool := (s.splitOn "eeeeeeeeeeeeeeeeeeeeeeeeeeeeeeeeeeeeeeeeeeeeeeeeeeeeeeeeeeeeeeeeee").length > 1

def cmpRes (model : String) (impl : List String) : Verdict :=
  let i := " ".intercalate impl
  if model = i then .ok
  else if hasSentinel model then .diff s!"hash-table-miss model={model}"
  else .diff s!"model={model} impl={i}"

/-- Does the path of a (committed) proof — the target's ancestors below the root, whose ranges are
the unions of the ranges below them, and their siblings — meet a range that `isValidRange` rejects? -/
def pathHasInvalid : Nat → Nat → Nat → List HashRange → Bool
  | _, _, _, [] => false
  | i, lo, up, s :: rest =>
    !(HashRange.isValid ⟨[], lo, up⟩) || !s.isValid ||
      (if i % 2 = 1 then pathHasInvalid (i / 2) s.lower up rest else pathHasInvalid (i / 2) lo s.upper rest)

/-- The hypothesis of C29 on a leaf set: at least two leaves, sums positive and pairwise distinct,
largest sum plus padding below 2^64. -/
def hypOK (es : List Entry) : Bool :=
  let sums := es.map fun e => sumFromHash e.hash
  let pad := nextPowerOfTwo es.length - es.length
  decide (2 ≤ es.length) && sums.all (fun s => decide (0 < s) && decide (s + pad < two64)) &&
    decide (sums.eraseDups.length = sums.length)

/-- First `n` in `[lo, lo+count)` with `levels n ≠ v`. -/
def firstLevelsMismatch (v : Nat) : Nat → Nat → Option Nat
  | 0, _ => none
  | count + 1, lo => if levels lo ≠ v then some lo else firstLevelsMismatch v count (lo + 1)

def renderVerdict : Option (Bool × Bool) → String
  | none => "PANIC"
  | some (v, r) => s!"{v} {r}"

def kindSig (kind : String) : String :=
  if kind.startsWith "mut-" then (kind.drop 4).toString else kind

def step (s : St) (pre post : List String) : St × Verdict :=
  match pre with
  | ["h", i] =>
    match post with
    | [o] =>
      match Bytes.parse o with
      | some ob =>
        match s.tbl.get? i with
        | some old => (s, if old = ob then .ok else .bad "hash table: two outputs for one input")
        | none => ({ s with tbl := s.tbl.insert i ob }, .ok)
      | none => (s, .bad "hash output")
    | _ => (s, .bad "arity")
  | ["tree", id, _height, po, leaves] =>
    match id.toNat?, Proto.parseBool po, parseHashes leaves with
    | some tid, some pb, some lhs =>
      -- the leaf's identity is its hash (the harness hashes `Proof.Bytes()` itself)
      let es : List Entry := lhs.map fun h => ⟨h, h⟩
      let H := s.H
      let m := genRootE H pb es
      let s' := { s with treeId := tid, post := pb, es := es, root := m.map (·.1), lastProof := none }
      let ms := match m with
        | none => "PANIC"
        | some (r, sorted) => s!"{renderHR r} {renderHashes sorted}"
      (s', cmpRes ms post)
    | _, _, _ => (s, .bad "tree args")
  | ["proof", id, idx] =>
    match id.toNat?, idx.toNat? with
    | some tid, some i =>
      if tid ≠ s.treeId then (s, .bad "tree id") else
      let m := genProofE s.H s.post s.es i
      let ms := match m with
        | none => "PANIC"
        | some (p, leaf) => s!"{p.index} {renderHR p.target} {renderHRs p.hashRanges} {Bytes.render leaf}"
      ({ s with lastIdx := i, lastProof := m }, cmpRes ms post)
    | _, _ => (s, .bad "proof args")
  | ["val", id, kind, po, idx, target, sibs, leafHash, root, lv] =>
    match id.toNat?, Proto.parseBool po, idx.toInt?, parseHR target, parseHRs sibs, Bytes.parse leafHash, parseHR root, lv.toNat? with
    | some tid, some pb, some ix, some tg, some sb, some lh, some rt, some nl =>
      if tid ≠ s.treeId || pb ≠ s.post then (s, .bad "tree id/era") else
      let H := s.H
      let p : MerkleProof := ⟨ix, sb, tg⟩
      let model := validateH H pb p rt lh nl
      let n := s.es.length
      -- is this the committed proof (possibly up to the pre-upgrade index bits)?
      let cix : Option Nat :=
        if pb then (if 0 ≤ ix ∧ ix.toNat < nextPowerOfTwo n then some ix.toNat else none)
        else some (pathIndex nl ix)
      let (s, committedAt) : St × Option (Nat × MerkleProof) :=
        match cix with
        | none => (s, none)
        | some c =>
          let (s, hp) := if s.lastProof.isSome && s.lastIdx = c then (s, s.lastProof)
            else let m := genProofE H pb s.es c; ({ s with lastIdx := c, lastProof := m }, m)
          match hp with
          | some (hpf, hleaf) =>
            if hpf.hashRanges = sb ∧ hpf.target = tg ∧ hleaf = lh ∧ s.root = some rt ∧ nl = levels n
              ∧ (pb = true → hpf.index = ix) then (s, some (c, hpf)) else (s, none)
          | none => (s, none)
      let implS := " ".intercalate post
      let impl : Option (Option (Bool × Bool)) :=
        match post with
        | ["PANIC"] => some none
        | [v, r] => match Proto.parseBool v, Proto.parseBool r with
          | some vb, some rb => some (some (vb, rb))
          | _, _ => none
        | _ => none
      match impl with
      | none => (s, .bad "val result")
      | some im =>
        let specV : Verdict :=
          match committedAt with
          | some (c, hpf) =>
            if pathHasInvalid c hpf.target.lower hpf.target.upper hpf.hashRanges then
              if im = some (false, true) then .ok else .propfail "zero-width-not-replay" s!"tree={tid} index={ix} kind={kind} impl={implS}"
            else
              if im = some (true, false) then .ok else .propfail "valid-proof-rejected" s!"tree={tid} n={n} index={ix} post={pb} impl={implS}"
          | none =>
            match im with
            | some (true, _) => .propfail s!"forged-proof-accepted-{kindSig kind}" s!"tree={tid} n={n} index={ix} post={pb} impl={implS}"
            | _ =>
              if (kind = "mut-sib-zero" || kind = "mut-tlower-zero") && hypOK s.es && im ≠ some (false, true) then
                .propfail "zero-width-not-replay" s!"tree={tid} index={ix} kind={kind} impl={implS}"
              else .ok
        match specV with
        | .ok => (s, cmpRes (renderVerdict model) post)
        | v => (s, v)
    | _, _, _, _, _, _, _, _ => (s, .bad "val args")
  | ["lv", n] =>
    match n.toNat? with
    | some k => (s, cmpRes (toString (levels k)) post)
    | none => (s, .bad "lv arg")
  | ["lvx", n] =>
    -- beyond 2^48 the float expression is known to fall one short just above a power of two
    match n.toNat?, post with
    | some k, [v] =>
      if v.toNat? = some (levels k) || v.toNat? = some (levels k - 1) then (s, .ok)
      else (s, .diff s!"levels {k}: model={levels k} impl={v}")
    | _, _ => (s, .bad "lvx arg")
  | ["lvrun", a, b] =>
    match a.toNat?, b.toNat?, post with
    | some lo, some hi, [v] =>
      match v.toNat? with
      | some vv =>
        -- every n in [lo,hi] (the model is evaluated at each point)
        match firstLevelsMismatch vv (hi + 1 - lo) lo with
        | none => (s, .ok)
        | some k => (s, .diff s!"levels {k}: model={levels k} impl={vv}")
      | none => (s, .diff s!"levels [{lo},{hi}]: impl={v}")
    | _, _, _ => (s, .bad "lvrun args")
  | _ => (s, .bad "op")

end SumIndex.Driver
