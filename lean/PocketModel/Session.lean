import PocketModel.Basic.Bytes
/-!
# Session node selection (`x/pocketcore/types/session.go`, `crypto.go`)

`NewSessionNodes` draws `sessionNodesCount` distinct eligible nodes from the address list that
`GetValidatorsByChain(sessionCtx, chain)` returned (state at session start), checking eligibility
against `Validator(ctx, addr)` at the reference context.  The draw uses the stream
`PseudorandomSelection(total, Hⁱ(sessionKey))`, `i = 0, 1, …`; the hash `H` (SHA3-256) is a
parameter of the model and the loop takes the resulting index stream as an argument.

The Go loop has no iteration bound; the model is fuel-indexed and reports `outOfFuel`.
-/
namespace Session

abbrev Addr := Bytes
abbrev Chain := Bytes

/-- What `Validator(ctx, addr)` tells the loop about a node (`ValidatorI.IsJailed`, `GetChains`). -/
structure NodeRec where
  jailed : Bool
  chains : List Chain
deriving DecidableEq, Repr

/-- Inputs that stay fixed during one `NewSessionNodes` call. -/
structure Cfg where
  /-- `GetValidatorsByChain(sessionCtx, chain)`: staked-for-chain addresses at session start. -/
  addrs : List Addr
  /-- `keeper.Validator(ctx, ·)` at the reference context; `none` = `nil`. -/
  lookup : Addr → Option NodeRec
  chain : Chain
  /-- `sessionNodesCount`. -/
  count : Nat
  /-- `keeper.MaxChains(sessionCtx)`. -/
  maxChains : Int
  /-- `ModuleCdc.IsAfterEnforceMaxChainsUpgrade(ctx.BlockHeight())`. -/
  enforce : Bool
  /-- `stream i` = the index drawn in iteration `i`. -/
  stream : Nat → Nat

inductive Result where
  | ok (nodes : List Addr)
  | insufficient            -- `NewInsufficientNodesError`
  | panic                   -- index out of range (`sessionNodesCount = 0`, or a stream value ≥ total)
  | outOfFuel               -- the model's bound on iterations was reached (Go: still looping)
deriving DecidableEq, Repr

/-- `ModuleCdc.IsAfterEnforceMaxChainsUpgrade(h)` with `TestMode = 0`:
`UpgradeFeatureMap["MAXCH"] != 0 && h >= UpgradeFeatureMap["MAXCH"]`. -/
def enforceAt (featureHeight h : Int) : Bool := featureHeight != 0 && decide (h ≥ featureHeight)

/-- The eligibility filter of the loop body (all but the "already chosen" test):
found, within the chain limit if enforced, not jailed, staked for the chain. -/
def eligible (c : Cfg) (n : Addr) : Bool :=
  match c.lookup n with
  | none => false
  | some r =>
    !(c.enforce && decide ((r.chains.length : Int) > c.maxChains)) && !r.jailed && r.chains.contains c.chain

/-- Loop state: iteration number, the tried set `m` (insertion order, newest first), the nodes
chosen so far (`sessionNodes[:numOfNodes]`). -/
structure LoopSt where
  i : Nat
  tried : List Addr
  chosen : List Addr
deriving Repr

/-- One iteration of the `for` loop: either a final result or the next state. -/
def iter (c : Cfg) (s : LoopSt) : Result ⊕ LoopSt :=
  if s.tried.length ≥ c.addrs.length then .inl .insufficient
  else
    match c.addrs[c.stream s.i]? with
    | none => .inl .panic
    | some n =>
      if n ∈ s.tried then .inr { s with i := s.i + 1 }
      else if eligible c n && !(s.chosen.contains n) then
        if c.count = 0 then .inl .panic
        else if s.chosen.length + 1 = c.count then .inl (.ok (s.chosen ++ [n]))
        else .inr { i := s.i + 1, tried := n :: s.tried, chosen := s.chosen ++ [n] }
      else .inr { s with i := s.i + 1, tried := n :: s.tried }

/-- The loop with at most `fuel` iterations. -/
def run (c : Cfg) : Nat → LoopSt → Result
  | 0, _ => .outOfFuel
  | fuel + 1, s =>
    match iter c s with
    | .inl r => r
    | .inr s' => run c fuel s'

/-- `NewSessionNodes`: the `totalNodes < sessionNodesCount` guard, then the loop. -/
def newSessionNodes (c : Cfg) (fuel : Nat) : Result :=
  if c.addrs.length < c.count then .insufficient
  else run c fuel { i := 0, tried := [], chosen := [] }

/-! ## The stream: `PseudorandomSelection` over the iterated hash -/

/-- Big-endian value of a byte string (`new(big.Int).SetBytes`). -/
def beNat (b : Bytes) : Nat := b.foldl (fun acc x => acc * 256 + x.toNat) 0

/-- `PseudorandomSelection(max, hash)`: the first 8 bytes as a big-endian number, mod `max`. -/
def pseudorandomSelection (max : Nat) (hash : Bytes) : Nat := beNat (hash.take 8) % max

/-- `Hⁱ(key)`: the session key after `i` re-hashes (`sessionKey = Hash(sessionKey)`). -/
def iterHash (H : Bytes → Bytes) : Nat → Bytes → Bytes
  | 0, k => k
  | i + 1, k => iterHash H i (H k)

/-- The index stream of a session key. -/
def streamOf (H : Bytes → Bytes) (key : Bytes) (total : Nat) (i : Nat) : Nat :=
  pseudorandomSelection total (iterHash H i key)

end Session
