/-!
# The evidence store as a cache layer (C34, serial executions)

`x/pocketcore/types/cache.go` `CacheStorage` = an LRU cache (`hashicorp/golang-lru/simplelru`, capacity
`max_evidence_cache_entries`) in front of a key-value DB, plus the seal map.  Entries are written
to the cache only; they reach the DB when the whole cache is **flushed** — which happens (a) in
`SetWithoutLockAndSealCheck` when the cache is full and the key is new, (b) when an iterator is
opened (`EvidenceIterator`).  This file models that layer **as coded**, for relays handled one at
a time over several sessions (keys), together with the claim loop's iterator and seals, and next
to it the same operations over a plain map (`Ref…`): the cache should be unobservable.

`fixedGet := true` is the code as it is (fix 534ec75: a value read from the DB enters the LRU
through the flush-aware helper).  `fixedGet := false` is the historical read path: a bare
`Cache.Add`, which silently evicted the oldest cached entry of a full cache — an entry that may
never have been flushed.

The uniqueness test is exact membership here; the real bloom filter (sized for `max` elements,
1% target) also refuses some FRESH relays as duplicates — an availability effect that only makes
the node answer less, so the property (no duplicate, ≤ allowance, answered ⇒ recorded) is
unaffected; the harness uses proofs that are not false positives of each other.
-/
namespace SerialCache

abbrev P := Nat
abbrev K := Nat

structure C where
  cap : Nat
  /-- most recently used first -/
  lru : List (K × List P)
  db : List (K × List P)
  sealed_ : List K
  /-- evidence copies the claim loop took when it opened the iterator -/
  snap : List (K × List P)
  deriving DecidableEq, Repr

def lookup (l : List (K × List P)) (k : K) : Option (List P) := (l.find? (·.1 == k)).map (·.2)

def erase (l : List (K × List P)) (k : K) : List (K × List P) := l.filter (·.1 != k)

/-- `simplelru.Add`: update/insert at the front, evict the oldest when over capacity. -/
def lruAdd (cap : Nat) (lru : List (K × List P)) (k : K) (v : List P) : List (K × List P) :=
  let l := (k, v) :: erase lru k
  if l.length > cap then l.dropLast else l

/-- `FlushToDBWithoutLock`: every cached entry is written to the DB, the cache is emptied. -/
def flush (c : C) : C :=
  { c with db := c.lru.foldr (fun kv db => kv :: erase db kv.1) c.db, lru := [] }

/-- `SetWithoutLockAndSealCheck`: flush first when the cache is full and the key is new. -/
def setNoCheck (c : C) (k : K) (v : List P) : C :=
  let c := if c.lru.length == c.cap && (lookup c.lru k).isNone then flush c else c
  { c with lru := lruAdd c.cap c.lru k v }

/-- `GetWithoutLock`: cache hit (moves the entry to the front), else the DB — and the value read
from the DB is added to the cache (`fixedGet = false`: bare `Cache.Add`, as coded). -/
def get (fixedGet : Bool) (c : C) (k : K) : Option (List P) × C :=
  match lookup c.lru k with
  | some v => (some v, { c with lru := (k, v) :: erase c.lru k })
  | none =>
    match lookup c.db k with
    | none => (none, c)
    | some v => (some v, if fixedGet then setNoCheck c k v else { c with lru := lruAdd c.cap c.lru k v })

/-- `CacheStorage.Seal`. -/
def sealKey (c : C) (k : K) (v : List P) : C :=
  if c.sealed_.contains k then c else setNoCheck { c with sealed_ := k :: c.sealed_ } k v

/-- `CacheStorage.Set`: dropped when something is stored under a sealed key. -/
def set (fixedGet : Bool) (c : C) (k : K) (v : List P) : C :=
  let (r, c) := get fixedGet c k
  if r.isSome && c.sealed_.contains k then c else setNoCheck c k v

/-- `GetEvidence(header, max)`: a stored evidence that has reached the allowance is sealed. -/
def getEvidence (fixedGet : Bool) (c : C) (k : K) (max : Nat) : List P × C :=
  match get fixedGet c k with
  | (none, c) => ([], c)
  | (some v, c) =>
    if c.sealed_.contains k then (v, c)
    else if max ≠ 0 ∧ v.length ≥ max then (v, sealKey c k v)
    else (v, c)

inductive Op where
  | relay (k : K) (p : P)
  | iter
  | sealSnap (k : K)
  deriving DecidableEq, Repr

inductive Out where
  | ok | sealed90 | dup37 | over71 | none | sealedNow | nosnap
  deriving DecidableEq, Repr

/-- One operation, relays handled strictly one at a time: `Relay.Validate`'s evidence part, then
`Proof.Store` = `SetProof` (`GetEvidence`; `AddProof`; `SetEvidence`). -/
def step (fixedGet : Bool) (max : Nat) (c : C) : Op → C × Out
  | .relay k p =>
    let (ev, c) := getEvidence fixedGet c k max
    if c.sealed_.contains k then (c, .sealed90)
    else if ev.contains p then (c, .dup37)
    else if ev.length ≥ max then (c, .over71)
    else
      let (ev2, c) := getEvidence fixedGet c k max
      (set fixedGet c k (ev2 ++ [p]), .ok)
  | .iter =>
    let c := flush c
    ({ c with snap := c.db }, .none)
  | .sealSnap k =>
    match lookup c.snap k with
    | none => (c, .nosnap)
    | some v => (sealKey c k v, .sealedNow)

def run (fixedGet : Bool) (max : Nat) (c : C) : List Op → C × List Out
  | [] => (c, [])
  | op :: ops =>
    let (c', o) := step fixedGet max c op
    let (c'', os) := run fixedGet max c' ops
    (c'', o :: os)

def init (cap : Nat) : C := ⟨cap, [], [], [], []⟩

/-- what is stored for a key (cache over DB) -/
def stored (c : C) (k : K) : List P := ((lookup c.lru k).orElse fun _ => lookup c.db k).getD []

/-! ## the same operations over a plain map (no cache) -/

structure R where
  m : List (K × List P)
  sealed_ : List K
  snap : List (K × List P)
  deriving DecidableEq, Repr

def rset (m : List (K × List P)) (k : K) (v : List P) : List (K × List P) := (k, v) :: erase m k

def rgetEvidence (r : R) (k : K) (max : Nat) : List P × R :=
  match lookup r.m k with
  | none => ([], r)
  | some v =>
    if r.sealed_.contains k then (v, r)
    else if max ≠ 0 ∧ v.length ≥ max then (v, { r with sealed_ := k :: r.sealed_ })
    else (v, r)

def rstep (max : Nat) (r : R) : Op → R × Out
  | .relay k p =>
    let (ev, r) := rgetEvidence r k max
    if r.sealed_.contains k then (r, .sealed90)
    else if ev.contains p then (r, .dup37)
    else if ev.length ≥ max then (r, .over71)
    else ({ r with m := rset r.m k (ev ++ [p]) }, .ok)
  | .iter => ({ r with snap := r.m }, .none)
  | .sealSnap k =>
    match lookup r.snap k with
    | none => (r, .nosnap)
    | some v => (if r.sealed_.contains k then r else { r with sealed_ := k :: r.sealed_, m := rset r.m k v }, .sealedNow)

def rrun (max : Nat) (r : R) : List Op → R × List Out
  | [] => (r, [])
  | op :: ops =>
    let (r', o) := rstep max r op
    let (r'', os) := rrun max r' ops
    (r'', o :: os)

def rinit : R := ⟨[], [], []⟩

end SerialCache
