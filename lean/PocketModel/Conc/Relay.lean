/-!
# Relay evidence under concurrency (C34): an interleaving LTS

Shared state of one session's relay evidence on a node (`x/pocketcore/types/cache.go`,
`evidence.go`) and the steps concurrent `HandleRelay` calls and the claim sender take on it, at
the granularity of the lock `CacheStorage.l` as it is used in the code:

* `validate` — `Relay.Validate`'s evidence part: `GetTotalProofs` (→ `GetEvidence`: `Get` under the
  lock, seal when the allowance is reached), `IsSealed`, `IsUniqueProof` (bloom test), `n < max`.
  Modelled as ONE atomic step (the real one takes the lock three times — a coarser model has
  fewer behaviours, so every counterexample below is a behaviour of the code).
* `get; add; set` — `RelayProof.Store` = `SetProof` = `GetEvidence` (lock), `Evidence.AddProof`
  (NO lock: appends to the local copy and mutates the bloom filter, which is a *pointer* shared
  with the cached evidence it was copied from), `SetEvidence` → `CacheStorage.Set` (lock; dropped
  when the stored evidence is sealed).
* `respond` — the relay is executed and the signed response returned.
* `cread; cseal` — the claim sender: `EvidenceIterator` (flushes the cache to the DB and yields a
  deep copy), later `GenerateMerkleRoot` → `SealEvidence`, which marks the header sealed **and
  writes the copy it holds back** to the cache.

Bloom filters are heap objects (`blooms`), referenced by id; a bloom test is exact set membership
(false positives of the real filter only reject more).  Proofs are natural numbers; identical
requests carry equal numbers.  Not modelled: word-level data races (two appends into the same
backing array when `cap > len`, concurrent bit sets) and the Go scheduler.
-/
namespace ConcRelay

abbrev P := Nat

/-- An `Evidence` value: proofs, `NumOfProofs`, and the id of its bloom filter object. -/
structure Ev where
  proofs : List P
  n : Nat
  bloom : Nat
  deriving DecidableEq, Repr, Inhabited

inductive Pc where
  | start | validated | got | added | stored | responded | rejected
  deriving DecidableEq, Repr, Inhabited

structure Thread where
  proof : P
  pc : Pc
  loc : Ev
  deriving DecidableEq, Repr, Inhabited

inductive SealerPc where
  | idle | read | done
  deriving DecidableEq, Repr, Inhabited

inductive Event where
  | resp (i : Nat)
  | seal
  deriving DecidableEq, Repr

structure St where
  max : Nat
  stored : Option Ev
  /-- the stored evidence lives only in the DB (after a flush): the next `Get` unmarshals it into a
  fresh object with its own bloom filter -/
  flushed : Bool
  blooms : List (List P)
  sealed_ : Bool
  threads : List Thread
  sealer : SealerPc
  snap : Ev
  log : List Event          -- responses and the seal, newest first
  deriving DecidableEq, Repr, Inhabited

def init (max : Nat) (proofs : List P) : St :=
  { max, stored := none, flushed := false, blooms := [], sealed_ := false,
    threads := proofs.map fun p => ⟨p, .start, ⟨[], 0, 0⟩⟩, sealer := .idle, snap := ⟨[], 0, 0⟩, log := [] }

inductive Act where
  | validate | get | add | set | respond
  deriving DecidableEq, Repr

inductive Label where
  | relay (i : Nat) (a : Act)
  | cread
  | cseal
  deriving DecidableEq, Repr

def bloomOf (s : St) (id : Nat) : List P := s.blooms.getD id []

/-- `CacheStorage.Get` + `GetEvidence`: the stored evidence (re-materialised from the DB after a
flush), or a fresh one with a new bloom filter; seals when the allowance is reached.
Returns the evidence handed to the caller and the new shared state. -/
def getEvidence (s : St) : Ev × St :=
  match s.stored with
  | none =>
    -- not found: a new Evidence with a new bloom filter (not stored)
    (⟨[], 0, s.blooms.length⟩, { s with blooms := s.blooms ++ [[]] })
  | some e =>
    let (e, s) :=
      if s.flushed then
        let e' : Ev := { e with bloom := s.blooms.length }
        (e', { s with blooms := s.blooms ++ [bloomOf s e.bloom], stored := some e', flushed := false })
      else (e, s)
    if s.sealed_ then (e, s)
    else if s.max ≠ 0 ∧ e.n ≥ s.max then (e, { s with sealed_ := true })
    else (e, s)

def setThread (s : St) (i : Nat) (t : Thread) : St := { s with threads := s.threads.set i t }

/-- One step of the LTS; a label that is not enabled leaves the state unchanged. -/
def step (s : St) : Label → St
  | .relay i a =>
    match s.threads[i]? with
    | none => s
    | some t =>
      match a, t.pc with
      | .validate, .start =>
        let (e, s) := getEvidence s
        let ok := !s.sealed_ && !(bloomOf s e.bloom).contains t.proof && decide (e.n < s.max)
        setThread s i { t with pc := if ok then .validated else .rejected }
      | .get, .validated =>
        let (e, s) := getEvidence s
        setThread s i { t with pc := .got, loc := e }
      | .add, .got =>
        -- AddProof on the local copy; the bloom object is shared
        let e := t.loc
        let e' : Ev := { e with proofs := e.proofs ++ [t.proof], n := e.n + 1 }
        let s := { s with blooms := s.blooms.set e.bloom (bloomOf s e.bloom ++ [t.proof]) }
        setThread s i { t with pc := .added, loc := e' }
      | .set, .added =>
        -- CacheStorage.Set: dropped when an evidence is stored and the header is sealed
        let s := if s.stored.isSome ∧ s.sealed_ then s else { s with stored := some t.loc, flushed := false }
        setThread s i { t with pc := .stored }
      | .respond, .stored =>
        setThread { s with log := .resp i :: s.log } i { t with pc := .responded }
      | _, _ => s
  | .cread =>
    match s.sealer, s.stored with
    | .idle, some e =>
      -- EvidenceIterator: flush to the DB, deep copy for the claim sender
      let id := s.blooms.length
      { s with flushed := true, blooms := s.blooms ++ [bloomOf s e.bloom], snap := { e with bloom := id }, sealer := .read }
    | _, _ => s
  | .cseal =>
    match s.sealer with
    | .read =>
      if s.sealed_ then { s with sealer := .done }
      else { s with sealed_ := true, stored := some s.snap, flushed := false, sealer := .done, log := .seal :: s.log }
    | _ => s

def run (s : St) : List Label → St
  | [] => s
  | l :: ls => run (step s l) ls

/-! ## one at a time -/

/-- all five steps of relay `i`, uninterrupted -/
def relayBlock (i : Nat) : List Label :=
  [.relay i .validate, .relay i .get, .relay i .add, .relay i .set, .relay i .respond]

/-- the claim sender's two steps, uninterrupted -/
def claimBlock : List Label := [.cread, .cseal]

inductive Turn where
  | relay (i : Nat)
  | claim
  deriving DecidableEq, Repr

/-- A sequential schedule: whole turns, in any order (a repeated turn finds nothing left to do). -/
def seqSched : List Turn → List Label
  | [] => []
  | .relay i :: ts => relayBlock i ++ seqSched ts
  | .claim :: ts => claimBlock ++ seqSched ts

/-! ## the property, as a decidable predicate on a final state -/

def storedProofs (s : St) : List P := (s.stored.map (·.proofs)).getD []
def storedN (s : St) : Nat := (s.stored.map (·.n)).getD 0

/-- threads whose response was returned before the seal (all responders when nothing was sealed) -/
def respondedBeforeSeal (s : St) : List Nat :=
  let chrono := s.log.reverse
  (chrono.takeWhile (· ≠ .seal)).filterMap fun e => match e with | .resp i => some i | .seal => none

def noDup (s : St) : Bool := decide (storedProofs s).Nodup
def withinLimit (s : St) : Bool := decide (storedN s ≤ s.max ∧ (storedProofs s).length ≤ s.max)
def recorded (s : St) : Bool :=
  (respondedBeforeSeal s).all fun i => match s.threads[i]? with
    | some t => (storedProofs s).contains t.proof
    | none => true

def exact (s : St) : Bool := noDup s && withinLimit s && recorded s

/-! ## the repaired design: validate + store under one lock, sealing reads under the lock -/

inductive ALabel where
  | serve (i : Nat)       -- validate; get; add; set — atomically
  | respond (i : Nat)
  | seal                  -- read the stored evidence and seal it — atomically
  deriving DecidableEq, Repr

structure ASt where
  max : Nat
  proofs : List P          -- the stored evidence
  sealed_ : Bool
  threads : List (P × Pc)
  log : List Event
  deriving DecidableEq, Repr

def ainit (max : Nat) (proofs : List P) : ASt :=
  { max, proofs := [], sealed_ := false, threads := proofs.map fun p => (p, .start), log := [] }

/-- Does `GetEvidence` seal now?  (an evidence that exists and has reached the allowance) -/
def ASt.sealsNow (s : ASt) : Bool := s.sealed_ || (!s.proofs.isEmpty && s.max != 0 && decide (s.proofs.length ≥ s.max))

def astep (s : ASt) : ALabel → ASt
  | .serve i =>
    match s.threads[i]? with
    | some (p, .start) =>
      if !s.sealsNow && !s.proofs.contains p && decide (s.proofs.length < s.max) then
        { s with proofs := s.proofs ++ [p], threads := s.threads.set i (p, .stored) }
      else { s with sealed_ := s.sealsNow, threads := s.threads.set i (p, .rejected) }
    | _ => s
  | .respond i =>
    match s.threads[i]? with
    | some (p, .stored) => { s with threads := s.threads.set i (p, .responded), log := .resp i :: s.log }
    | _ => s
  | .seal =>
    -- the claim sender finds nothing to claim when no evidence exists
    if s.proofs.isEmpty || s.sealed_ then s else { s with sealed_ := true, log := .seal :: s.log }

def arun (s : ASt) : List ALabel → ASt
  | [] => s
  | l :: ls => arun (astep s l) ls


/-- the property on the repaired design's state -/
def aexact (s : ASt) : Bool :=
  decide s.proofs.Nodup && decide (s.proofs.length ≤ s.max) &&
  s.log.all fun e => match e with
    | .resp i => (match s.threads[i]? with | some (p, _) => s.proofs.contains p | none => false)
    | .seal => true

end ConcRelay
