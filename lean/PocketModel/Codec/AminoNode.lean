import PocketModel.Codec.Amino
/-!
# IAVL node encoding (store/iavl/node.go: `writeBytes`, `writeHashBytes`, `MakeNode`)

`NodeRec` is a Go `*Node` restricted to the fields that are persisted or hashed:
`height int8`, `size int64`, `version int64`, `key`, and either `value` (leaf, `height == 0`) or
`leftHash`/`rightHash` (inner).  Go's `nil` and empty slices are both `[]` (`MakeNode` never
distinguishes them: `DecodeByteSlice` always allocates).
-/
namespace NodeDB
open Amino

structure NodeRec where
  height : Int
  size : Int
  version : Int
  key : Bytes
  value : Bytes
  leftHash : Bytes
  rightHash : Bytes
  deriving DecidableEq, Repr, Inhabited

/-- `node.isLeaf()`: `height == 0`. -/
def NodeRec.isLeaf (n : NodeRec) : Bool := n.height == 0

/-- `Node.writeBytes`: height (int8 varint), size, version (varints), key, then value (leaf) or
left hash, right hash (inner).  Unlike `writeHashBytes` the key is written for inner nodes. -/
def writeBytes (n : NodeRec) : Bytes :=
  encodeInt8 n.height ++ (encodeVarint n.size ++ (encodeVarint n.version ++ (encodeByteSlice n.key ++
    (if n.height = 0 then encodeByteSlice n.value
     else encodeByteSlice n.leftHash ++ encodeByteSlice n.rightHash))))

/-- `Node.writeHashBytes`: height, size, version; a leaf adds key and `tmhash(value)`, an inner node
adds the child hashes and **not** its key. -/
def writeHashBytes (H : Bytes → Bytes) (n : NodeRec) : Bytes :=
  encodeInt8 n.height ++ (encodeVarint n.size ++ (encodeVarint n.version ++
    (if n.height = 0 then encodeByteSlice n.key ++ encodeByteSlice (H n.value)
     else encodeByteSlice n.leftHash ++ encodeByteSlice n.rightHash)))

/-- `Node._hash`: `tmhash(writeHashBytes)`. -/
def NodeRec.hash (H : Bytes → Bytes) (n : NodeRec) : Bytes := H (writeHashBytes H n)

/-- `MakeNode`: header (height, size, version, key) then the body chosen by `height == 0`.
Trailing bytes are ignored, as in Go. -/
def makeNode (buf : Bytes) : Option NodeRec :=
  match decodeInt8 buf with
  | none => none
  | some (height, buf) =>
  match decodeVarint buf with
  | none => none
  | some (size, buf) =>
  match decodeVarint buf with
  | none => none
  | some (ver, buf) =>
  match decodeByteSlice buf with
  | none => none
  | some (key, buf) =>
    if height = 0 then
      match decodeByteSlice buf with
      | none => none
      | some (val, _) => some ⟨height, size, ver, key, val, [], []⟩
    else
      match decodeByteSlice buf with
      | none => none
      | some (lh, buf) =>
      match decodeByteSlice buf with
      | none => none
      | some (rh, _) => some ⟨height, size, ver, key, [], lh, rh⟩

/-- A record `writeBytes` can represent and `MakeNode` returns unchanged: machine-integer ranges,
slice lengths below 2^63, and the normal form of the unused body fields. -/
structure NodeRec.WF (n : NodeRec) : Prop where
  height : isInt8 n.height
  size : isInt64 n.size
  version : isInt64 n.version
  key : n.key.length < 2 ^ 63
  value : n.value.length < 2 ^ 63
  lh : n.leftHash.length < 2 ^ 63
  rh : n.rightHash.length < 2 ^ 63
  leaf : n.height = 0 → n.leftHash = [] ∧ n.rightHash = []
  inner : n.height ≠ 0 → n.value = []

end NodeDB
