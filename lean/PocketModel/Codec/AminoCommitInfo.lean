import PocketModel.Store.NodeDB
/-!
# The multistore's own records (store/rootmulti/store.go: `setCommitInfo`, `setLatestVersion`)

`cdc.LegacyMarshalBinaryLengthPrefixed` = go-amino reflection encoding of

    CommitInfo{Version int64; StoreInfos []StoreInfo}
    StoreInfo{Name string; Core StoreCore}   StoreCore{CommitID CommitID}   CommitID{Version int64; Hash []byte}

Amino numbers the fields by their position in the Go struct (so `StoreCore.CommitID` is field 1,
whatever the `.proto` says), writes `int64` as a plain uvarint of `uint64(v)`, skips fields holding
the zero value, and *rolls back* a struct-typed field whose encoding is the single byte `00` (an
empty struct).  Elements of the repeated field are always written (an all-default element as `12 00`).
The whole value is then prefixed with its uvarint length.

The decoder mirrors `decodeReflectBinaryStruct` for exactly this schema: fields in ascending order,
each optional.  Simplification: trailing *unknown* fields, which amino skips, are rejected here
(the records are only ever written by the encoder above).
-/
namespace NodeDB
open Amino

/-- `uint64(v)` of an `int64`. -/
def toU64 (v : Int) : Nat := (v % (2 ^ 64 : Int)).toNat
/-- `int64(u)` of a `uint64`. -/
def ofU64 (u : Nat) : Int := if u < 2 ^ 63 then (u : Int) else (u : Int) - 2 ^ 64

/-- A varint field: skipped when zero. -/
def encIntField (key : UInt8) (v : Int) : Bytes := if v = 0 then [] else key :: encodeUvarint (toU64 v)
/-- A bytes/string field: skipped when empty. -/
def encBytesField (key : UInt8) (b : Bytes) : Bytes := if b = [] then [] else key :: encodeByteSlice b
/-- A struct field: rolled back when the struct body is empty (its encoding would be `00`). -/
def encStructField (key : UInt8) (body : Bytes) : Bytes := if body = [] then [] else key :: encodeByteSlice body

def encCommitID (c : CID) : Bytes := encIntField 0x08 c.version ++ encBytesField 0x12 c.hash
def encStoreCore (c : CID) : Bytes := encStructField 0x0a (encCommitID c)
def encStoreInfo (si : SInfo) : Bytes := encBytesField 0x0a si.name ++ encStructField 0x12 (encStoreCore si.cid)
def encCommitInfoBare (ci : CInfo) : Bytes :=
  encIntField 0x08 ci.version ++ ci.infos.flatMap fun si => 0x12 :: encodeByteSlice (encStoreInfo si)

/-- The `s/<version>` record. -/
def encCommitInfo (ci : CInfo) : Bytes := encodeByteSlice (encCommitInfoBare ci)

/-- The `s/latest` record: `sdk.Int64` bare, length-prefixed. -/
def encLatest (v : Int) : Bytes := encodeByteSlice (encodeUvarint (toU64 v))

def decIntField (key : UInt8) (bz : Bytes) : Option (Int × Bytes) :=
  match bz with
  | k :: rest => if k = key then (decodeUvarint rest).map fun (u, r) => (ofU64 u, r) else some (0, bz)
  | [] => some (0, [])

def decBytesField (key : UInt8) (bz : Bytes) : Option (Bytes × Bytes) :=
  match bz with
  | k :: rest => if k = key then decodeByteSlice rest else some ([], bz)
  | [] => some ([], [])

def decCommitID (body : Bytes) : Option CID :=
  match decIntField 0x08 body with
  | none => none
  | some (v, r) =>
    match decBytesField 0x12 r with
    | none => none
    | some (h, r) => if r = [] then some ⟨v, h⟩ else none

def decStoreCore (body : Bytes) : Option CID :=
  match decBytesField 0x0a body with
  | none => none
  | some (b, r) => if r = [] then decCommitID b else none

def decStoreInfo (body : Bytes) : Option SInfo :=
  match decBytesField 0x0a body with
  | none => none
  | some (name, r) =>
    match decBytesField 0x12 r with
    | none => none
    | some (core, r) => if r = [] then (decStoreCore core).map fun c => ⟨name, c⟩ else none

/-- Repeated field 2: as many `12 <len> <StoreInfo>` entries as follow. -/
def decStoreInfos : Nat → Bytes → Option (List SInfo)
  | 0, _ => none
  | _ + 1, [] => some []
  | fuel + 1, k :: rest =>
    if k = 0x12 then
      match decodeByteSlice rest with
      | none => none
      | some (b, r) =>
        match decStoreInfo b, decStoreInfos fuel r with
        | some si, some l => some (si :: l)
        | _, _ => none
    else none

def decCommitInfoBare (bz : Bytes) : Option CInfo :=
  match decIntField 0x08 bz with
  | none => none
  | some (v, r) => (decStoreInfos (r.length + 1) r).map fun l => ⟨v, l⟩

/-- `getCommitInfo`'s unmarshal. -/
def decCommitInfo (bz : Bytes) : Option CInfo :=
  match decodeByteSlice bz with
  | some (b, []) => decCommitInfoBare b
  | _ => none

/-- `getLatestVersion`'s unmarshal. -/
def decLatest (bz : Bytes) : Option Int :=
  match decodeByteSlice bz with
  | some (b, []) =>
    match decodeUvarint b with
    | some (u, []) => some (ofU64 u)
    | _ => none
  | _ => none

end NodeDB
