import PocketModel.Basic.Bytes
/-!
# Protobuf wire format as pocket-core's generated (gogoproto) marshalers read and write it

Mirrors the code generated into `/repo/x/*/types/*.pb.go`, `/repo/types/*.pb.go`
(`MarshalToSizedBuffer`, `Unmarshal`, `skipXxx`, `encodeVarintXxx`) and the framing in
`/repo/codec/proto_codec.go`.  The model is two-layered, like the wire format itself:

* **tokens** — `tokenize : Bytes → Option (List Tok)` is the schema-independent reading of a buffer
  (tag varint, wire type, payload), exactly as the generated `Unmarshal` loops and `skipXxx` do it:
  varints of any length ≤ 10 are accepted and bits above 2^64 are silently dropped, the field number
  is `int32(wire >> 3)` and must be positive, wire type 4 at top level is an error, unknown fields are
  validated by `skip` (groups included) and then ignored, lengths are Go `int`s (negative = error);
* **schema interpretation** — `decFields : List FSpec → List Tok → Option (List Value)` gives every
  field its value from the tokens carrying its number: last one wins for scalars, repeated fields
  collect, embedded messages merge (decoding the concatenation of all occurrences), oneof members
  replace, everything else is skipped.  `encFields` is the generated marshaler: fields in schema
  order, proto3 omission of defaults unless the field is non-nullable (`always`), minimal varints.

Schemas (`FSpec`) are regenerated from `/repo/proto/**/*.proto` on every check run and handed to the
driver as data.
-/

namespace Wire

def two64 : Nat := 18446744073709551616
def two63 : Nat := 9223372036854775808
def two32 : Nat := 4294967296
def two31 : Nat := 2147483648

/-! ## Varints -/

/-- `encodeVarintXxx(dAtA, offset, v uint64)` / `binary.PutUvarint`: minimal little-endian base-128.
Fuel 10 is enough for every `uint64`. -/
def encVarintAux : Nat → Nat → Bytes
  | 0, _ => []
  | f + 1, n => if n < 128 then [UInt8.ofNat n] else UInt8.ofNat (n % 128 + 128) :: encVarintAux f (n / 128)

def encodeVarint (n : Nat) : Bytes := encVarintAux 10 n

/-- The inlined varint loop of every generated `Unmarshal`/`skip`:
`for shift := uint(0); ; shift += 7 { if shift >= 64 {overflow}; if iNdEx >= l {EOF}; b := dAtA[iNdEx]; iNdEx++; x |= uint64(b&0x7F) << shift; if b < 0x80 {break} }`.
At most 10 bytes; the 10th byte's high bits fall off the 64-bit word (no error); non-minimal encodings
are accepted. -/
def decVarintAux : Nat → Nat → Nat → Bytes → Option (Nat × Bytes)
  | 0, _, _, _ => none
  | _ + 1, _, _, [] => none
  | f + 1, shift, acc, b :: rest =>
    let acc' := (acc + (b.toNat % 128) * 2 ^ shift) % two64
    if b.toNat < 128 then some (acc', rest) else decVarintAux f (shift + 7) acc' rest

def decodeVarint (b : Bytes) : Option (Nat × Bytes) := decVarintAux 10 0 0 b

/-- Zig-zag (`sint32/sint64`, `binary.PutVarint`): not used by pocket-core's own schemas but part of
the wire format (go-amino's `EncodeVarint`). -/
def zigzag (i : Int) : Nat := if 0 ≤ i then (2 * i).toNat else (-2 * i - 1).toNat
def unzigzag (n : Nat) : Int := if n % 2 = 0 then (n / 2 : Nat) else -((n / 2 : Nat) : Int) - 1

/-- Result of Go's `encoding/binary.Uvarint`: value and byte count; `n = 0` buffer too small,
`n < 0` overflow. -/
inductive UvRes where
  | ok (x : Nat) (n : Nat)
  | short
  | overflow
  deriving Repr, DecidableEq

/-- `binary.Uvarint`: unlike the generated loops it rejects a 10th byte > 1 and an 11th byte. -/
def uvarintAux : Nat → Nat → Nat → Bytes → UvRes
  | _, _, _, [] => .short
  | i, s, x, b :: rest =>
    if i = 10 then .overflow
    else if b.toNat < 128 then
      if i = 9 ∧ b.toNat > 1 then .overflow else .ok (x + b.toNat * 2 ^ s) (i + 1)
    else uvarintAux (i + 1) (s + 7) (x + (b.toNat % 128) * 2 ^ s) rest

def uvarintStd (b : Bytes) : UvRes := uvarintAux 0 0 0 b

/-! ## Tokens -/

inductive Payload where
  | varint (n : Nat)
  | fixed64 (b : Bytes)
  | len (b : Bytes)
  | group (b : Bytes)
  | fixed32 (b : Bytes)
  deriving Repr, DecidableEq

structure Tok where
  num : Nat
  p : Payload
  deriving Repr, DecidableEq

def Payload.wt : Payload → Nat
  | .varint _ => 0 | .fixed64 _ => 1 | .len _ => 2 | .group _ => 3 | .fixed32 _ => 5

/-- The body of `skipXxx` once a start-group tag has been read (`depth` = further nesting): tags and
payloads are skipped until the matching end-group; field numbers inside are not looked at. -/
def skipGroup : Nat → Nat → Bytes → Option Bytes
  | 0, _, _ => none
  | f + 1, depth, b =>
    match decodeVarint b with
    | none => none
    | some (wire, r) =>
      match wire % 8 with
      | 0 => match decodeVarint r with
             | none => none
             | some (_, r') => skipGroup f depth r'
      | 1 => if r.length < 8 then none else skipGroup f depth (r.drop 8)
      | 2 => match decodeVarint r with
             | none => none
             | some (n, r') => if n ≥ two63 ∨ n > r'.length then none else skipGroup f depth (r'.drop n)
      | 3 => skipGroup f (depth + 1) r
      | 4 => if depth = 0 then some r else skipGroup f (depth - 1) r
      | 5 => if r.length < 4 then none else skipGroup f depth (r.drop 4)
      | _ => none

/-- One iteration of a generated `Unmarshal` loop up to the point where the payload is delimited:
tag varint, `fieldNum := int32(wire >> 3)`, `wireType := int(wire & 7)`, the two top-level checks
(`wireType == 4`, `fieldNum <= 0`), then the payload as the field case / `skipXxx` delimits it. -/
def readTok (b : Bytes) : Option (Tok × Bytes) :=
  match decodeVarint b with
  | none => none
  | some (wire, r) =>
    let wt := wire % 8
    let fn := (wire / 8) % two32
    if wt = 4 then none
    else if fn = 0 ∨ fn ≥ two31 then none
    else match wt with
      | 0 => match decodeVarint r with
             | none => none
             | some (n, r') => some (⟨fn, .varint n⟩, r')
      | 1 => if r.length < 8 then none else some (⟨fn, .fixed64 (r.take 8)⟩, r.drop 8)
      | 2 => match decodeVarint r with
             | none => none
             | some (n, r') =>
               if n ≥ two63 ∨ n > r'.length then none else some (⟨fn, .len (r'.take n)⟩, r'.drop n)
      | 3 => match skipGroup r.length 0 r with
             | none => none
             | some r' => some (⟨fn, .group (r.take (r.length - r'.length))⟩, r')
      | 5 => if r.length < 4 then none else some (⟨fn, .fixed32 (r.take 4)⟩, r.drop 4)
      | _ => none

/-- The `for iNdEx < l` loop of a generated `Unmarshal`, schema-independent part. -/
def tokenizeAux : Nat → Bytes → Option (List Tok)
  | _, [] => some []
  | 0, _ :: _ => none
  | f + 1, b =>
    match readTok b with
    | none => none
    | some (t, r) =>
      match tokenizeAux f r with
      | none => none
      | some ts => some (t :: ts)

def tokenize (b : Bytes) : Option (List Tok) := tokenizeAux b.length b

/-- What the generated marshalers write for one field occurrence: minimal tag varint, then the
payload (minimal length varint for length-delimited). -/
def serTok (t : Tok) : Bytes :=
  encodeVarint (t.num * 8 + t.p.wt) ++
    match t.p with
    | .varint n => encodeVarint n
    | .fixed64 b => b
    | .len b => encodeVarint b.length ++ b
    | .group b => b
    | .fixed32 b => b

def serToks (ts : List Tok) : Bytes := ts.flatMap serTok

/-! ## Schemas and values -/

/-- How a varint field's 64-bit word is stored in the Go struct. -/
inductive IntKind where
  | i64   -- int64 / uint64: all 64 bits
  | i32   -- int32 / enum: `int32(b&0x7F) << shift` keeps the low 32 bits; written as `uint64(int32)` (sign-extended)
  | u32   -- uint32
  | u8    -- casttype to a `byte`-based Go type (`types.StakeStatus`): `StakeStatus(b&0x7F) << shift` keeps 8 bits
  | bool  -- `v != 0`
  deriving Repr, DecidableEq

/-- Value domain of the Go field as a 64-bit word (`uint64(m.Field)`). -/
def IntKind.trunc : IntKind → Nat → Nat
  | .i64, n => n % two64
  | .u32, n => n % two32
  | .u8, n => n % 256
  | .i32, n => let m := n % two32; if m < two31 then m else m + (two64 - two32)
  | .bool, n => if n % two64 = 0 then 0 else 1

inductive BytesKind where
  | bytes    -- `[]byte`: nil when absent, `[]byte{}` when present and empty
  | str      -- `string`
  | bigint   -- gogoproto customtype `types.BigInt`/`BigDec`, non-nullable: decimal text, always written,
             -- a nil `BigInt` is written as "0", an empty payload is ignored by `BigInt.Unmarshal`
  deriving Repr, DecidableEq

/-- One field of a message schema, as far as the generated code distinguishes. -/
inductive FSpec where
  | int (num : Nat) (k : IntKind) (always : Bool)
  | bytes (num : Nat) (k : BytesKind) (always : Bool)
  /-- embedded message: `nullable = false` ⇒ struct value, always written, repeated occurrences merge;
  `nullable = true` ⇒ pointer, written iff non-nil. -/
  | msg (num : Nat) (nullable : Bool) (sub : List FSpec)
  | repBytes (num : Nat) (k : BytesKind)
  /-- `repeated Msg` with `nullable = false`, also the entry list of a `map<string, uint32>`. -/
  | repMsg (num : Nat) (sub : List FSpec)
  /-- `oneof` of message-typed members: the last member on the wire replaces the whole field. -/
  | oneof (alts : List (Nat × List FSpec))
  deriving Repr

inductive Value where
  | int (n : Nat)
  | bytes (b : Option Bytes)
  | msg (m : Option (List Value))
  | rep (l : Option (List Value))
  | one (sel : Option (Nat × Value))
  deriving Repr

abbrev Schema := List FSpec

/-- Field numbers a spec answers to. -/
def FSpec.nums : FSpec → List Nat
  | .int n _ _ => [n]
  | .bytes n _ _ => [n]
  | .msg n _ _ => [n]
  | .repBytes n _ => [n]
  | .repMsg n _ => [n]
  | .oneof alts => alts.map (·.1)


def FSpec.owns (f : FSpec) (t : Tok) : Bool := f.nums.contains t.num

/-- Bytes written for a bytes-like Go value. -/
def BytesKind.toWire : BytesKind → Option Bytes → Bytes
  | .bigint, none => [0x30]
  | .bigint, some [] => [0x30]
  | _, none => []
  | _, some b => b

/-- Zero value of a bytes-like Go field (what an absent field decodes to). -/
def BytesKind.zero : BytesKind → Option Bytes
  | .str => some []
  | _ => none

/-- What a bytes-like Go value reads back as after a round trip. -/
def BytesKind.norm : BytesKind → Bool → Option Bytes → Option Bytes
  | .bytes, false, none => none
  | .bytes, false, some [] => none
  | .bytes, true, none => some []
  | .str, _, none => some []
  | .bigint, _, none => some [0x30]
  | .bigint, _, some [] => some [0x30]
  | _, _, some b => some b

mutual
/-- Zero value of a field (`T{}` in Go). -/
def zeroField : FSpec → Value
  | .int _ _ _ => .int 0
  | .bytes _ k _ => .bytes k.zero
  | .msg _ nullable sub => if nullable then .msg none else .msg (some (zeroFields sub))
  | .repBytes _ _ => .rep none
  | .repMsg _ _ => .rep none
  | .oneof _ => .one none
def zeroFields : List FSpec → List Value
  | [] => []
  | f :: fs => zeroField f :: zeroFields fs
end

/-- One element of a `repeated bytes/string` field. -/
def repBytesTok (num : Nat) (k : BytesKind) : Value → Tok
  | .bytes ob => ⟨num, .len (k.toWire ob)⟩
  | _ => ⟨num, .len []⟩

mutual
/-- `MarshalToSizedBuffer` for one field. -/
def encField : FSpec → Value → List Tok
  | .int num k always, v =>
    match v with
    | .int n => if k.trunc n = 0 ∧ always = false then [] else [⟨num, .varint (k.trunc n)⟩]
    | _ => []
  | .bytes num k always, v =>
    match v with
    | .bytes ob => if k.toWire ob = [] ∧ always = false then [] else [⟨num, .len (k.toWire ob)⟩]
    | _ => []
  | .msg num nullable sub, v =>
    match v with
    | .msg (some vs) => [⟨num, .len (serToks (encFields sub vs))⟩]
    | _ => if nullable then [] else [⟨num, .len []⟩]
  | .repBytes num k, v =>
    match v with
    | .rep (some vs) => vs.map (repBytesTok num k)
    | _ => []
  | .repMsg num sub, v =>
    match v with
    | .rep (some vs) =>
      vs.map fun e => match e with
        | .msg (some fs) => ⟨num, .len (serToks (encFields sub fs))⟩
        | _ => ⟨num, .len []⟩
    | _ => []
  | .oneof alts, v =>
    match v with
    | .one (some (n, v')) => encAlts alts n v'
    | _ => []
/-- `MarshalToSizedBuffer` of a message: its fields in schema (= field number) order. -/
def encFields : List FSpec → List Value → List Tok
  | f :: fs, v :: vs => encField f v ++ encFields fs vs
  | _, _ => []
/-- `ProofI_RelayProof.MarshalToSizedBuffer` etc.: the selected oneof member. -/
def encAlts : List (Nat × List FSpec) → Nat → Value → List Tok
  | [], _, _ => []
  | (k, sub) :: rest, n, v =>
    if k = n then
      match v with
      | .msg (some fs) => [⟨k, .len (serToks (encFields sub fs))⟩]
      | _ => []
    else encAlts rest n v
end

def Tok.lenBytes (t : Tok) : Option Bytes := match t.p with | .len b => some b | _ => none
def Tok.varintVal (t : Tok) : Option Nat := match t.p with | .varint n => some n | _ => none

/-- Last element's projection, with a default. -/
def lastD {α} (l : List α) (d : α) : α := l.getLast?.getD d

/-- Bytes-like field from the payloads of all its occurrences: last one wins; `BigInt.Unmarshal`
ignores an empty payload. -/
def BytesKind.pick : BytesKind → List Bytes → Option Bytes
  | .bytes, bs => bs.getLast?
  | .str, bs => some (lastD bs [])
  | .bigint, bs => (bs.filter (· ≠ [])).getLast?

mutual
/-- The `case <num>:` arm(s) of a generated `Unmarshal`, applied to all tokens of a buffer. -/
def decField : FSpec → List Tok → Option Value
  | .int num k _, toks =>
    match (toks.filter (fun t => t.num == num)).mapM Tok.varintVal with
    | none => none   -- "wrong wireType"
    | some ns => some (.int (k.trunc (lastD ns 0)))
  | .bytes num k _, toks =>
    match (toks.filter (fun t => t.num == num)).mapM Tok.lenBytes with
    | none => none
    | some bs => some (.bytes (k.pick bs))
  | .msg num nullable sub, toks =>
    match (toks.filter (fun t => t.num == num)).mapM Tok.lenBytes with
    | none => none
    | some bs =>
      if bs = [] ∧ nullable = true then some (.msg none)
      else
        match bs.mapM tokenize with
        | none => none
        | some tss =>
          match decFields sub tss.flatten with
          | none => none
          | some vs => some (.msg (some vs))
  | .repBytes num _, toks =>
    match (toks.filter (fun t => t.num == num)).mapM Tok.lenBytes with
    | none => none
    | some bs => if bs = [] then some (.rep none) else some (.rep (some (bs.map fun b => .bytes (some b))))
  | .repMsg num sub, toks =>
    match (toks.filter (fun t => t.num == num)).mapM Tok.lenBytes with
    | none => none
    | some bs =>
      if bs = [] then some (.rep none)
      else
        match bs.mapM (fun b => match tokenize b with
                                | none => none
                                | some ts => match decFields sub ts with
                                             | none => none
                                             | some vs => some (Value.msg (some vs))) with
        | none => none
        | some vs => some (.rep (some vs))
  | .oneof alts, toks =>
    match (toks.filter (fun t => (alts.map (·.1)).contains t.num)).mapM (fun t => decAlts alts t) with
    | none => none
    | some sels => some (.one sels.getLast?)
/-- Generated `Unmarshal` of a message, given the tokens of its buffer. -/
def decFields : List FSpec → List Tok → Option (List Value)
  | [], _ => some []
  | f :: fs, toks =>
    match decField f toks with
    | none => none
    | some v => match decFields fs toks with
                | none => none
                | some vs => some (v :: vs)
/-- One oneof member occurrence: `v := &T{}; v.Unmarshal(payload); m.Proof = &Wrapper{v}`. -/
def decAlts : List (Nat × List FSpec) → Tok → Option (Nat × Value)
  | [], _ => none
  | (k, sub) :: rest, t =>
    if k = t.num then
      match t.lenBytes with
      | none => none
      | some b =>
        match tokenize b with
        | none => none
        | some ts =>
          match decFields sub ts with
          | none => none
          | some vs => some (k, .msg (some vs))
    else decAlts rest t
end

/-- `m.Marshal()` -/
def encodeMsg (s : Schema) (vs : List Value) : Bytes := serToks (encFields s vs)

/-- `m.Unmarshal(bz)` on a zero `m` -/
def decodeMsg (s : Schema) (b : Bytes) : Option (List Value) :=
  match tokenize b with
  | none => none
  | some ts => decFields s ts

/-! ## The equality a round trip can have: nil ↔ empty, default ↔ absent -/

/-- One element of a `repeated bytes/string` field after a round trip (a nil element comes back
as an empty one). -/
def normRepBytes (k : BytesKind) : Value → Value
  | .bytes ob => .bytes (some (k.toWire ob))
  | _ => .bytes (some [])

mutual
def normField : FSpec → Value → Value
  | .int _ k _, v =>
    match v with
    | .int n => .int (k.trunc n)
    | _ => .int 0
  | .bytes _ k always, v =>
    match v with
    | .bytes ob => .bytes (k.norm always ob)
    | _ => .bytes k.zero
  | .msg _ nullable sub, v =>
    match v with
    | .msg (some vs) => .msg (some (normFields sub vs))
    | _ => if nullable then .msg none else .msg (some (zeroFields sub))
  | .repBytes _ k, v =>
    match v with
    | .rep (some (x :: xs)) => .rep (some ((x :: xs).map (normRepBytes k)))
    | _ => .rep none
  | .repMsg _ sub, v =>
    match v with
    | .rep (some (x :: xs)) =>
      .rep (some ((x :: xs).map fun e => match e with
        | .msg (some fs) => .msg (some (normFields sub fs))
        | _ => .msg (some (zeroFields sub))))
    | _ => .rep none
  | .oneof alts, v =>
    match v with
    | .one (some (n, v')) => .one (normAlts alts n v')
    | _ => .one none
def normFields : List FSpec → List Value → List Value
  | [], _ => []
  | f :: fs, v :: vs => normField f v :: normFields fs vs
  | f :: fs, [] => zeroField f :: normFields fs []
def normAlts : List (Nat × List FSpec) → Nat → Value → Option (Nat × Value)
  | [], _, _ => none
  | (k, sub) :: rest, n, v =>
    if k = n then
      match v with
      | .msg (some fs) => some (k, .msg (some (normFields sub fs)))
      | _ => none
    else normAlts rest n v
end

/-! ## Well-formed schemas -/

def numOK (n : Nat) : Bool := 0 < n && n < 536870912

mutual
def wfField : FSpec → Bool
  | .int n _ _ => numOK n
  | .bytes n _ _ => numOK n
  | .msg n _ sub => numOK n && wfFields sub && (allNums sub).Nodup
  | .repBytes n _ => numOK n
  | .repMsg n sub => numOK n && wfFields sub && (allNums sub).Nodup
  | .oneof alts => wfAlts alts
def wfFields : List FSpec → Bool
  | [] => true
  | f :: fs => wfField f && wfFields fs
def wfAlts : List (Nat × List FSpec) → Bool
  | [] => true
  | (k, sub) :: rest => numOK k && wfFields sub && (allNums sub).Nodup && wfAlts rest
/-- All field numbers of one message level. -/
def allNums : List FSpec → List Nat
  | [] => []
  | f :: fs => f.nums ++ allNums fs
end

/-- Field numbers are valid and pairwise distinct at every level. -/
def wfSchema (s : Schema) : Bool := wfFields s && (allNums s).Nodup


/-! ## Framing (`codec/proto_codec.go`) and `Any` -/

/-- `ProtoCodec.MarshalBinaryLengthPrefixed`: `binary.PutUvarint(size)` then the body. -/
def marshalLP (body : Bytes) : Bytes := encodeVarint body.length ++ body

/-- `ProtoCodec.UnmarshalBinaryLengthPrefixed`: `binary.Uvarint`; only `n < 0` is an error, so a
truncated prefix (`n = 0`) reads as size 0 with nothing consumed; the size must equal the rest. -/
def unmarshalLP (b : Bytes) : Option Bytes :=
  match uvarintStd b with
  | .overflow => none
  | .short => if b.length = 0 then some [] else none
  | .ok size n => if size = b.length - n then some (b.drop n) else none

/-- `google.protobuf.Any { string type_url = 1; bytes value = 2; }` -/
def anySchema : Schema := [.bytes 1 .str false, .bytes 2 .bytes false]

/-- `types.NewAnyWithValue(msg)` then marshal: type URL and the packed message's bytes. -/
def packAny (url : Bytes) (s : Schema) (vs : List Value) : List Value :=
  [.bytes (some url), .bytes (some (encodeMsg s vs))]

/-- `InterfaceRegistry.UnpackAny`: resolve the type URL, unmarshal the value with that type. -/
def unpackAny (reg : List (Bytes × Schema)) : List Value → Option (Bytes × List Value)
  | [.bytes (some url), .bytes ob] =>
    match reg.lookup url with
    | none => none
    | some s => match decodeMsg s (ob.getD []) with
                | none => none
                | some vs => some (url, vs)
  | _ => none

/-! ## The upgrade-height switch (`codec/codec.go`) -/

structure SwitchCfg where
  /-- `GetCodecUpgradeHeight()` -/
  upgradeHeight : Int
  /-- `cdc.upgradeOverride`: -1 off, 0 force amino, 1 force proto -/
  override : Int := -1
  /-- `TestMode <= -1` -/
  testMode : Bool := false

/-- `const UpgradeCodecHeight` -/
def upgradeCodecHeight : Int := 30024

/-- `Codec.IsAfterCodecUpgrade` -/
def isAfterCodecUpgrade (c : SwitchCfg) (h : Int) : Bool :=
  if c.override ≠ -1 then c.override = 1
  else (c.upgradeHeight ≤ h || h = -1) || c.testMode

/-- `codec.GetCodecUpgradeHeight()` from the globals `UpgradeHeight`, `OldUpgradeHeight`. -/
def getCodecUpgradeHeight (upgradeHeight oldUpgradeHeight : Int) : Int :=
  if upgradeHeight ≥ upgradeCodecHeight then upgradeCodecHeight
  else if oldUpgradeHeight ≠ 0 ∧ oldUpgradeHeight < upgradeHeight then oldUpgradeHeight
  else upgradeHeight

/-- `Codec.MarshalBinaryBare(o, height)` for a proto-capable object, with the two codecs abstract. -/
def marshalAt {α} (c : SwitchCfg) (aminoEnc protoEnc : α → Option Bytes) (h : Int) (v : α) : Option Bytes :=
  if isAfterCodecUpgrade c h then protoEnc v else aminoEnc v

/-- `Codec.UnmarshalBinaryBare(bz, ptr, height)`: proto after the upgrade, except that at exactly
`UpgradeCodecHeight` and before the upgrade amino is tried first with proto as the fallback. -/
def unmarshalAt {α} (c : SwitchCfg) (aminoDec protoDec : Bytes → Option α) (h : Int) (b : Bytes) : Option α :=
  if isAfterCodecUpgrade c h then
    if h = upgradeCodecHeight then
      match aminoDec b with
      | some v => some v
      | none => protoDec b
    else protoDec b
  else
    match aminoDec b with
    | some v => some v
    | none => protoDec b

end Wire
