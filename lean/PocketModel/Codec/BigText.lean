import PocketModel.Codec.Wire
import PocketModel.Codec.Json
/-!
# The text form of `types.BigInt` / `types.BigDec` on the wire

`BigInt.Unmarshal` (`/repo/types/int.go`) hands the field's bytes to `(*big.Int).UnmarshalText`, i.e.
`SetString(text, 0)`: **base 0**.  Besides the canonical decimal text written by `BigInt.Marshal`
the decoder therefore accepts an explicit `+`, the prefixes `0x/0X`, `0b/0B`, `0o/0O`, a leading `0`
(octal) and `_` separators between digits — different bytes, same integer.  This file mirrors
`math/big`'s `nat.scan` for that case and lifts it to decoded values (`canonFields`), which is the
last step of the real decoder after the wire interpretation of `Wire.lean`.
-/
namespace BigText

def digitVal (c : UInt8) : Option Nat :=
  let n := c.toNat
  if 48 ≤ n ∧ n ≤ 57 then some (n - 48)
  else if 97 ≤ n ∧ n ≤ 122 then some (n - 97 + 10)
  else if 65 ≤ n ∧ n ≤ 90 then some (n - 65 + 10)
  else none

/-- `prev` of `nat.scan`: `'.'` nothing yet, `'0'` a digit (or the leading zero of a prefix), `'_'`. -/
inductive Prev where
  | none | digit | sep
  deriving DecidableEq

/-- The digit loop of `nat.scan(r, base = 0)`: `(count, value)` or failure (invalid separator,
or a byte that is not a digit of the base — `setFromScanner` then finds unread input). -/
def scanDigits (b : Nat) : Prev → Nat → Nat → Bytes → Option (Nat × Nat)
  | prev, count, acc, [] => if prev = .sep then none else some (count, acc)
  | prev, count, acc, c :: rest =>
    if c = 95 then  -- '_'
      if prev = .digit then scanDigits b .sep count acc rest else none
    else
      match digitVal c with
      | none => none
      | some d => if d < b then scanDigits b .digit (count + 1) (acc * b + d) rest else none

/-- `nat.scan` with `base = 0`, `fracOk = false`, whole input consumed. -/
def scanNat : Bytes → Option Nat
  | [] => none
  | [48] => some 0
  | 48 :: c :: rest =>
    if c = 98 ∨ c = 66 then (scanDigits 2 .digit 0 0 rest).bind fun (n, v) => if n = 0 then none else some v
    else if c = 111 ∨ c = 79 then (scanDigits 8 .digit 0 0 rest).bind fun (n, v) => if n = 0 then none else some v
    else if c = 120 ∨ c = 88 then (scanDigits 16 .digit 0 0 rest).bind fun (n, v) => if n = 0 then none else some v
    else (scanDigits 8 .digit 0 0 (c :: rest)).map (·.2)   -- octal; "only the prefix" reads as 0
  | s => (scanDigits 10 .none 0 0 s).bind fun (n, v) => if n = 0 then none else some v

/-- `(*big.Int).SetString(text, 0)` -/
def parseGoInt : Bytes → Option Int
  | 45 :: rest => (scanNat rest).map fun n => -(n : Int)
  | 43 :: rest => (scanNat rest).map fun n => (n : Int)
  | s => (scanNat s).map fun n => (n : Int)

/-- `maxBitLen = 255` -/
def inRange (v : Int) : Bool := v.natAbs < 2 ^ 255

/-- `BigInt.Unmarshal` followed by `BigInt.Marshal`: the canonical text of what was read. -/
def canonText (text : Bytes) : Option Bytes :=
  match parseGoInt text with
  | none => none
  | some v => if inRange v then some (Json.intDigits v) else none

open Wire

mutual
/-- Interpret every `BigInt` field of a decoded value (fails as `BigInt.Unmarshal` fails). -/
def canonField : FSpec → Value → Option Value
  | .bytes _ .bigint _, v =>
    match v with
    | .bytes (some t) => (canonText t).map fun c => .bytes (some c)
    | v => some v
  | .msg _ _ sub, v =>
    match v with
    | .msg (some vs) => (canonFields sub vs).map fun r => .msg (some r)
    | v => some v
  | .repMsg _ sub, v =>
    match v with
    | .rep (some es) =>
      (es.mapM fun (e : Value) => match e with
        | Value.msg (some fs) => (canonFields sub fs).map fun r => Value.msg (some r)
        | e => some e).map fun r => Value.rep (some r)
    | v => some v
  | .oneof alts, v =>
    match v with
    | .one (some (n, v')) => (canonAlts alts n v').map fun r => .one (some (n, r))
    | v => some v
  | _, v => some v
def canonFields : List FSpec → List Value → Option (List Value)
  | f :: fs, v :: vs =>
    match canonField f v with
    | none => none
    | some v' => (canonFields fs vs).map fun r => v' :: r
  | _, _ => some []
def canonAlts : List (Nat × List FSpec) → Nat → Value → Option Value
  | [], _, v => some v
  | (k, sub) :: rest, n, v =>
    if k = n then
      match v with
      | .msg (some fs) => (canonFields sub fs).map fun r => .msg (some r)
      | v => some v
    else canonAlts rest n v
end

end BigText
