import PocketModel.Basic.Bytes
/-!
# JSON canonicalisation used for transaction sign bytes

Mirrors what pocket-core does to compute the canonical "sign bytes" of a transaction:

* `types/utils.go: SortJSON` = `json.Unmarshal` into an `interface{}` followed by `json.Marshal`
  (Go standard library `encoding/json`, behaviour of the local toolchain go1.23.5):
  objects become `map[string]interface{}` (a duplicate key: the LAST member wins), the encoder emits
  map keys sorted bytewise (`strings.Compare`), compact, with HTML escaping on;
* `x/auth/types/stdtx.go: StdSignBytes` = amino-JSON of `StdSignDoc{ChainID, Fee, Memo, Msg, Entropy}`
  (json keys `chain_id`, `fee`, `memo`, `msg`, `entropy`; the `int64` entropy is rendered by
  amino-JSON as a decimal *string*) passed through `MustSortJSON`.

Scope of the model (everything else is answered `none` by `parse`, i.e. "not modelled"):

* numbers are integers `n` with `|n| ≤ 2^53` and not the literal `-0`.  Go decodes every number to a
  `float64`; inside that range the round trip is exact and the encoder prints the plain decimal.
  Outside it Go silently rounds (`9007199254740993` ↦ `9007199254740992`), prints exponents
  (`1e21` and above), keeps the sign of `-0` and drops `.0`; none of this occurs for the types
  signed by pocket-core (amino-JSON writes 64-bit integers and big integers as strings).
* input strings are assumed to be valid UTF-8 (Go replaces invalid bytes by U+FFFD on decoding;
  the model copies bytes ≥ 0x80 through unchanged).
* Go's decoder nesting limit (10000) is not modelled.
-/
namespace Json

/-- A decoded JSON document: the `interface{}` tree built by `json.Unmarshal`, except that objects
are kept as the member list in input order (`sortJSON` turns it into the Go map's sorted view).
Strings and keys are UTF-8 byte strings (Go compares map keys bytewise). -/
inductive Json where
  | null
  | bool (b : Bool)
  | num (n : Int)
  | str (s : Bytes)
  | arr (xs : List Json)
  | obj (kvs : List (Bytes × Json))
  deriving Inhabited

export Json (null bool num str arr obj)

/-! ## Equality test -/

mutual
/-- Structural equality of documents (what `reflect.DeepEqual` would answer on the trees, member
order included). -/
def beq : Json → Json → Bool
  | .null, .null => true
  | .bool a, .bool b => a == b
  | .num a, .num b => a == b
  | .str a, .str b => a == b
  | .arr a, .arr b => beqList a b
  | .obj a, .obj b => beqMembers a b
  | _, _ => false
/-- `beq` on arrays. -/
def beqList : List Json → List Json → Bool
  | [], [] => true
  | x :: xs, y :: ys => beq x y && beqList xs ys
  | _, _ => false
/-- `beq` on member lists (same keys in the same order, equal values). -/
def beqMembers : List (Bytes × Json) → List (Bytes × Json) → Bool
  | [], [] => true
  | (k, x) :: xs, (l, y) :: ys => k == l && beq x y && beqMembers xs ys
  | _, _ => false
end

instance : BEq Json := ⟨beq⟩

/-! ## Decoder (`json.Unmarshal` into `interface{}`) -/

/-- `encoding/json: isSpace`: space, `\t`, `\r`, `\n`. -/
def isWs (c : UInt8) : Bool := c == 0x20 || c == 0x09 || c == 0x0a || c == 0x0d

/-- Skip insignificant whitespace (the scanner's `isSpace` transitions). -/
def skipWs : Bytes → Bytes
  | [] => []
  | c :: rest => if isWs c then skipWs rest else c :: rest

/-- `utf8.EncodeRune` for a code point `n ≤ 0x10FFFF` (surrogates never reach this function). -/
def utf8Encode (n : Nat) : Bytes :=
  if n < 0x80 then [UInt8.ofNat n]
  else if n < 0x800 then [UInt8.ofNat (0xC0 + n / 64), UInt8.ofNat (0x80 + n % 64)]
  else if n < 0x10000 then
    [UInt8.ofNat (0xE0 + n / 4096), UInt8.ofNat (0x80 + n / 64 % 64), UInt8.ofNat (0x80 + n % 64)]
  else
    [UInt8.ofNat (0xF0 + n / 262144), UInt8.ofNat (0x80 + n / 4096 % 64),
     UInt8.ofNat (0x80 + n / 64 % 64), UInt8.ofNat (0x80 + n % 64)]

/-- One hexadecimal digit, either case (as in `encoding/json: getu4`). -/
def hexDigitVal (c : UInt8) : Option Nat :=
  if 0x30 ≤ c && c ≤ 0x39 then some (c.toNat - 0x30)
  else if 0x61 ≤ c && c ≤ 0x66 then some (c.toNat - 0x61 + 10)
  else if 0x41 ≤ c && c ≤ 0x46 then some (c.toNat - 0x41 + 10)
  else none

/-- Four hexadecimal digits (the `XXXX` of `\uXXXX`), with the remaining input. -/
def hex4 : Bytes → Option (Nat × Bytes)
  | a :: b :: c :: d :: rest =>
    match hexDigitVal a, hexDigitVal b, hexDigitVal c, hexDigitVal d with
    | some x, some y, some z, some w => some (((x * 16 + y) * 16 + z) * 16 + w, rest)
    | _, _, _, _ => none
  | _ => none

/-- `encoding/json: getu4`: a complete `\uXXXX` escape at the head of the input. -/
def getu4 : Bytes → Option (Nat × Bytes)
  | a :: b :: rest => if a == 0x5c && b == 0x75 then hex4 rest else none
  | _ => none

/-- The UTF-8 encoding of U+FFFD (`unicode.ReplacementChar`). -/
def replacementChar : Bytes := [0xEF, 0xBF, 0xBD]

/-- `encoding/json: unquoteBytes` fused with the scanner's string states: the input is positioned
just after the opening quote; returns the decoded string and the input after the closing quote.
`acc` is the decoded prefix in reverse.  Raw bytes below 0x20 and unknown escapes are errors; `\uXXXX`
is decoded to UTF-8, a high surrogate followed by a `\u` low surrogate is combined
(`utf16.DecodeRune`), any other surrogate becomes U+FFFD *without* consuming what follows.
Bytes ≥ 0x80 are copied (input assumed valid UTF-8). -/
def parseStrAux : Nat → Bytes → Bytes → Option (Bytes × Bytes)
  | 0, _, _ => none
  | f + 1, s, acc =>
    match s with
    | [] => none
    | c :: rest =>
      if c == 0x22 then some (acc.reverse, rest)
      else if c == 0x5c then
        match rest with
        | [] => none
        | e :: rest' =>
          if e == 0x22 then parseStrAux f rest' (0x22 :: acc)
          else if e == 0x5c then parseStrAux f rest' (0x5c :: acc)
          else if e == 0x2f then parseStrAux f rest' (0x2f :: acc)
          else if e == 0x62 then parseStrAux f rest' (0x08 :: acc)
          else if e == 0x66 then parseStrAux f rest' (0x0c :: acc)
          else if e == 0x6e then parseStrAux f rest' (0x0a :: acc)
          else if e == 0x72 then parseStrAux f rest' (0x0d :: acc)
          else if e == 0x74 then parseStrAux f rest' (0x09 :: acc)
          else if e == 0x75 then
            match hex4 rest' with
            | none => none
            | some (u, r1) =>
              if 0xD800 ≤ u && u < 0xE000 then
                match (if u < 0xDC00 then getu4 r1 else none) with
                | some (lo, r2) =>
                  if 0xDC00 ≤ lo && lo < 0xE000 then
                    parseStrAux f r2
                      ((utf8Encode (0x10000 + (u - 0xD800) * 1024 + (lo - 0xDC00))).reverse ++ acc)
                  else parseStrAux f r1 (replacementChar.reverse ++ acc)
                | none => parseStrAux f r1 (replacementChar.reverse ++ acc)
              else parseStrAux f r1 ((utf8Encode u).reverse ++ acc)
          else none
      else if c < 0x20 then none
      else parseStrAux f rest (c :: acc)

/-- A JSON string literal body (after the opening quote); see `parseStrAux`. -/
def parseStr (s : Bytes) : Option (Bytes × Bytes) := parseStrAux (s.length + 1) s []

/-- ASCII decimal digit test. -/
def isDigit (c : UInt8) : Bool := 0x30 ≤ c && c ≤ 0x39

/-- Longest prefix of decimal digits, with the remaining input. -/
def spanDigits : Bytes → Bytes × Bytes
  | [] => ([], [])
  | c :: rest =>
    if isDigit c then let (ds, r) := spanDigits rest; (c :: ds, r) else ([], c :: rest)

/-- Value of a digit string. -/
def digitsVal (ds : Bytes) : Nat := ds.foldl (fun acc c => acc * 10 + (c.toNat - 0x30)) 0

/-- A JSON number as accepted by the scanner (`-`? then `0` or a digit string without leading zero)
and converted by `decodeState.convertNumber` (`strconv.ParseFloat`) — restricted to what the model
supports: a fraction or exponent, `|n| > 2^53` and the literal `-0` are answered `none`. -/
def parseNum (s : Bytes) : Option (Int × Bytes) :=
  let (neg, s1) := match s with
    | c :: rest => if c == 0x2d then (true, rest) else (false, c :: rest)
    | [] => (false, [])
  let (ds, rest) := spanDigits s1
  match ds with
  | [] => none
  | d :: ds' =>
    if d == 0x30 && !ds'.isEmpty then none
    else
      let unsupported := match rest with
        | c :: _ => c == 0x2e || c == 0x65 || c == 0x45
        | [] => false
      if unsupported then none
      else
        let n := digitsVal (d :: ds')
        if n > 9007199254740992 then none
        else if neg && n == 0 then none
        else some (if neg then -(n : Int) else (n : Int), rest)

/-- `true` iff the input starts with the given bytes; returns the remaining input. -/
def dropPrefix : Bytes → Bytes → Option Bytes
  | [], s => some s
  | _ :: _, [] => none
  | p :: ps, c :: s => if p == c then dropPrefix ps s else none

mutual
/-- One JSON value (`decodeState.value` → `valueInterface`), leading whitespace allowed; returns the
tree and the remaining input.  The first argument is fuel (every recursive call spends one unit;
`2 * length + 4` is enough because every second call consumes a byte). -/
def parseValue : Nat → Bytes → Option (Json × Bytes)
  | 0, _ => none
  | f + 1, s =>
    match skipWs s with
    | [] => none
    | c :: rest =>
      if c == 0x7b then
        match skipWs rest with
        | [] => none
        | d :: rest' =>
          if d == 0x7d then some (.obj [], rest')
          else match parseMembers f (d :: rest') with
            | some (kvs, r) => some (.obj kvs, r)
            | none => none
      else if c == 0x5b then
        match skipWs rest with
        | [] => none
        | d :: rest' =>
          if d == 0x5d then some (.arr [], rest')
          else match parseElems f (d :: rest') with
            | some (xs, r) => some (.arr xs, r)
            | none => none
      else if c == 0x22 then
        match parseStr rest with
        | some (b, r) => some (.str b, r)
        | none => none
      else if c == 0x6e then
        match dropPrefix [0x75, 0x6c, 0x6c] rest with
        | some r => some (.null, r)
        | none => none
      else if c == 0x74 then
        match dropPrefix [0x72, 0x75, 0x65] rest with
        | some r => some (.bool true, r)
        | none => none
      else if c == 0x66 then
        match dropPrefix [0x61, 0x6c, 0x73, 0x65] rest with
        | some r => some (.bool false, r)
        | none => none
      else
        match parseNum (c :: rest) with
        | some (n, r) => some (.num n, r)
        | none => none
/-- The elements of a non-empty array up to and including the closing `]`
(`decodeState.arrayInterface`). -/
def parseElems : Nat → Bytes → Option (List Json × Bytes)
  | 0, _ => none
  | f + 1, s =>
    match parseValue f s with
    | none => none
    | some (v, r) =>
      match skipWs r with
      | [] => none
      | c :: r' =>
        if c == 0x2c then
          match parseElems f r' with
          | some (vs, r'') => some (v :: vs, r'')
          | none => none
        else if c == 0x5d then some ([v], r')
        else none
/-- The members of a non-empty object up to and including the closing `}`
(`decodeState.objectInterface`), in input order, duplicates kept (the Go map assignment
`m[key] = value` is modelled by `sortKVs`). -/
def parseMembers : Nat → Bytes → Option (List (Bytes × Json) × Bytes)
  | 0, _ => none
  | f + 1, s =>
    match skipWs s with
    | [] => none
    | q :: r0 =>
      if q != 0x22 then none
      else
        match parseStr r0 with
        | none => none
        | some (k, r1) =>
          match skipWs r1 with
          | [] => none
          | c :: r2 =>
            if c != 0x3a then none
            else
              match parseValue f r2 with
              | none => none
              | some (v, r3) =>
                match skipWs r3 with
                | [] => none
                | d :: r4 =>
                  if d == 0x2c then
                    match parseMembers f r4 with
                    | some (kvs, r5) => some ((k, v) :: kvs, r5)
                    | none => none
                  else if d == 0x7d then some ([(k, v)], r4)
                  else none
end

/-- `json.Unmarshal(b, &c)` with `c interface{}`: one value, surrounded by optional whitespace,
consuming the whole input.  `none` = Go error *or* outside the modelled fragment (see the module
comment: non-integer / large numbers, `-0`).  Input assumed to be valid UTF-8. -/
def parse (b : Bytes) : Option Json :=
  match parseValue (2 * b.length + 4) b with
  | some (j, r) => if (skipWs r).isEmpty then some j else none
  | none => none

/-! ## Encoder (`json.Marshal`, compact, HTML escaping on) -/

/-- Lower-case hexadecimal digit (`encoding/json: hex = "0123456789abcdef"`). -/
def hexDig (n : Nat) : UInt8 := if n < 10 then UInt8.ofNat (0x30 + n) else UInt8.ofNat (0x57 + n)

/-- `\u00XX` for a byte. -/
def u00 (c : UInt8) : Bytes :=
  [0x5c, 0x75, 0x30, 0x30, hexDig (c.toNat / 16), hexDig (c.toNat % 16)]

/-- `encoding/json: appendString` for one ASCII byte with `escapeHTML = true` (go1.23: `\b` and `\f`
have short forms — Go before 1.22 printed `\u0008`/`\u000c`; 0x7f is not escaped). -/
def escByte (c : UInt8) : Bytes :=
  if c == 0x22 then [0x5c, 0x22]
  else if c == 0x5c then [0x5c, 0x5c]
  else if c == 0x08 then [0x5c, 0x62]
  else if c == 0x0c then [0x5c, 0x66]
  else if c == 0x0a then [0x5c, 0x6e]
  else if c == 0x0d then [0x5c, 0x72]
  else if c == 0x09 then [0x5c, 0x74]
  else if c < 0x20 || c == 0x3c || c == 0x3e || c == 0x26 then u00 c
  else [c]

/-- Body of `encoding/json: appendString`: per-byte escaping, and U+2028/U+2029 (UTF-8
`E2 80 A8`/`E2 80 A9`) written as the six ASCII characters backslash `u2028` / backslash `u2029`.  All other bytes ≥ 0x80 are copied (valid
UTF-8 assumed; Go would print backslash `ufffd` for an invalid byte). -/
def renderStrAux : Nat → Bytes → Bytes
  | 0, _ => []
  | _ + 1, [] => []
  | f + 1, c :: rest =>
    match rest with
    | d :: e :: rest' =>
      if c == 0xE2 && d == 0x80 && (e == 0xA8 || e == 0xA9) then
        [0x5c, 0x75, 0x32, 0x30, 0x32, if e == 0xA8 then 0x38 else 0x39] ++ renderStrAux f rest'
      else escByte c ++ renderStrAux f rest
    | _ => escByte c ++ renderStrAux f rest

/-- `renderStrAux` with enough fuel (one unit per byte). -/
def renderStrBody (s : Bytes) : Bytes := renderStrAux (s.length + 1) s

/-- `encoding/json: appendString`: a quoted, escaped string. -/
def renderStr (s : Bytes) : Bytes := 0x22 :: (renderStrBody s ++ [0x22])

/-- Decimal digits of a natural number, most significant first (first argument: fuel). -/
def natDigitsAux : Nat → Nat → Bytes → Bytes
  | 0, _, acc => acc
  | f + 1, n, acc =>
    if n < 10 then UInt8.ofNat (0x30 + n) :: acc
    else natDigitsAux f (n / 10) (UInt8.ofNat (0x30 + n % 10) :: acc)

/-- `strconv.AppendUint(nil, n, 10)`. -/
def natDigits (n : Nat) : Bytes := natDigitsAux (n + 1) n []

/-- `strconv.AppendInt(nil, n, 10)`; also what `floatEncoder` prints for an integral `float64`
below 2^53 in magnitude. -/
def intDigits (n : Int) : Bytes :=
  if n < 0 then 0x2d :: natDigits n.natAbs else natDigits n.natAbs

mutual
/-- `json.Marshal` of the tree, compact; object members in list order (`sortJSON` provides the
sorted order of `mapEncoder.encode`). -/
def render : Json → Bytes
  | .null => [0x6e, 0x75, 0x6c, 0x6c]
  | .bool true => [0x74, 0x72, 0x75, 0x65]
  | .bool false => [0x66, 0x61, 0x6c, 0x73, 0x65]
  | .num n => intDigits n
  | .str s => renderStr s
  | .arr xs => 0x5b :: (renderElems xs ++ [0x5d])
  | .obj kvs => 0x7b :: (renderMembers kvs ++ [0x7d])
/-- Comma-separated elements (`arrayEncoder.encode`). -/
def renderElems : List Json → Bytes
  | [] => []
  | [x] => render x
  | x :: y :: rest => render x ++ 0x2c :: renderElems (y :: rest)
/-- Comma-separated `"key":value` members (`mapEncoder.encode`). -/
def renderMembers : List (Bytes × Json) → Bytes
  | [] => []
  | [(k, v)] => renderStr k ++ 0x3a :: render v
  | (k, v) :: y :: rest => renderStr k ++ 0x3a :: (render v ++ 0x2c :: renderMembers (y :: rest))
end

/-! ## Canonicalisation (`SortJSON`) -/

/-- The Go map assignment `m[k] = v` seen through the encoder's sorted key order: insert into a list
sorted strictly ascending by key (bytewise), replacing the value if the key is present. -/
def insertKV (k : Bytes) (v : Json) : List (Bytes × Json) → List (Bytes × Json)
  | [] => [(k, v)]
  | (k', v') :: rest =>
    if k < k' then (k, v) :: (k', v') :: rest
    else if k = k' then (k, v) :: rest
    else (k', v') :: insertKV k v rest

/-- `objectInterface` (assign members in input order into a fresh map) followed by
`mapEncoder.encode`'s `slices.SortFunc(sv, strings.Compare)`: last duplicate wins, keys ascending. -/
def sortKVs (kvs : List (Bytes × Json)) : List (Bytes × Json) :=
  kvs.foldl (fun acc kv => insertKV kv.1 kv.2 acc) []

mutual
/-- `SortJSON` on trees: what `json.Marshal(json.Unmarshal(·))` does to the structure — arrays keep
their order, objects become sorted maps, recursively. -/
def sortJSON : Json → Json
  | .arr xs => .arr (sortList xs)
  | .obj kvs => .obj (sortKVs (sortMembers kvs))
  | .null => .null
  | .bool b => .bool b
  | .num n => .num n
  | .str s => .str s
/-- `sortJSON` on every element of an array. -/
def sortList : List Json → List Json
  | [] => []
  | x :: xs => sortJSON x :: sortList xs
/-- `sortJSON` on every member value of an object (keys and order untouched). -/
def sortMembers : List (Bytes × Json) → List (Bytes × Json)
  | [] => []
  | (k, v) :: rest => (k, sortJSON v) :: sortMembers rest
end

/-! ## Sign bytes (`StdSignBytes`) -/

/-- ASCII string literal as bytes (all literals used here are ASCII). -/
def ascii (s : String) : Bytes := s.toList.map (fun c => UInt8.ofNat c.toNat)

/-- The five members of `StdSignDoc` in struct-field order, as amino-JSON writes them
(`ModuleCdc.MarshalJSON(StdSignDoc{…})`); `entropy` (`int64`) is a decimal string. -/
def signDocMembers (chainId : Bytes) (entropy : Int) (fee msg : Json) (memo : Bytes) :
    List (Bytes × Json) :=
  [(ascii "chain_id", .str chainId), (ascii "fee", fee), (ascii "memo", .str memo),
   (ascii "msg", msg), (ascii "entropy", .str (intDigits entropy))]

/-- The decoded amino-JSON of `StdSignDoc` (`x/auth/types/stdtx.go: StdSignBytes`, before sorting). -/
def signDoc (chainId : Bytes) (entropy : Int) (fee msg : Json) (memo : Bytes) : Json :=
  .obj (signDocMembers chainId entropy fee msg memo)

/-- `StdSignBytes`: `MustSortJSON(ModuleCdc.MarshalJSON(StdSignDoc{…}))`. -/
def signBytes (chainId : Bytes) (entropy : Int) (fee msg : Json) (memo : Bytes) : Bytes :=
  render (sortJSON (signDoc chainId entropy fee msg memo))

/-- `SortJSON` on bytes: `none` is the Go error (or input outside the modelled fragment). -/
def sortJSONBytes (b : Bytes) : Option Bytes := (parse b).map fun j => render (sortJSON j)

/-- Executable spec "these bytes are their own canonical form": `SortJSON(b) == b`. -/
def isCanonical (b : Bytes) : Bool :=
  match parse b with
  | some j => render (sortJSON j) == b
  | none => false

end Json
