import PocketModel.Codec.Wire
import PocketModel.Codec.BigText
/-!
# The transaction wire schema and the byte-level transaction decoder

`stdTxSchema` is `message ProtoStdTx` of `/repo/proto/x/auth/auth.proto` as the harness regenerates
it on every run (`schema x.auth.ProtoStdTx m1.0{b1.s.0,b2.b.0},R2{b1.s.0,b2.n.1},m3.0{b1.b.0,b2.b.0},b4.s.0,i5.l.0`);
the driver compares the regenerated schema with this constant.  `decodeTx` is
`auth.DefaultTxDecoder` after the codec upgrade: `UnmarshalBinaryLengthPrefixed` into `ProtoStdTx`
(the `Any` is resolved by `unpackAny` with the interface registry as data).
-/
namespace Wire

def coinSchema : Schema := [.bytes 1 .str false, .bytes 2 .bigint true]
def stdSignatureSchema : Schema := [.bytes 1 .bytes false, .bytes 2 .bytes false]
def stdTxSchema : Schema :=
  [.msg 1 false anySchema, .repMsg 2 coinSchema, .msg 3 false stdSignatureSchema, .bytes 4 .str false, .int 5 .i64 false]

/-- `ProtoCodec.UnmarshalBinaryLengthPrefixed(txBytes, &ProtoStdTx{})` -/
def decodeTx (b : Bytes) : Option (List Value) :=
  match unmarshalLP b with
  | none => none
  | some body => decodeMsg stdTxSchema body

/-- `DefaultTxEncoder`: `MarshalBinaryLengthPrefixed` of the `ProtoStdTx`. -/
def encodeTx (vs : List Value) : Bytes := marshalLP (encodeMsg stdTxSchema vs)

mutual
def FSpec.beq : FSpec → FSpec → Bool
  | .int a k x, .int b k' y => a == b && decide (k = k') && x == y
  | .bytes a k x, .bytes b k' y => a == b && decide (k = k') && x == y
  | .msg a n s, .msg b n' s' => a == b && n == n' && FSpec.beqList s s'
  | .repBytes a k, .repBytes b k' => a == b && decide (k = k')
  | .repMsg a s, .repMsg b s' => a == b && FSpec.beqList s s'
  | .oneof as, .oneof bs => FSpec.beqAlts as bs
  | _, _ => false
def FSpec.beqList : List FSpec → List FSpec → Bool
  | [], [] => true
  | a :: as, b :: bs => FSpec.beq a b && FSpec.beqList as bs
  | _, _ => false
def FSpec.beqAlts : List (Nat × List FSpec) → List (Nat × List FSpec) → Bool
  | [], [] => true
  | (k, s) :: as, (k', s') :: bs => k == k' && FSpec.beqList s s' && FSpec.beqAlts as bs
  | _, _ => false
end

end Wire
