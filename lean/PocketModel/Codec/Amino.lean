import PocketModel.Basic.Bytes
/-!
# go-amino primitive encoders used by the IAVL node format and by tendermint's simple merkle map

Mirrors `github.com/tendermint/go-amino@v0.15.1` `encoder.go`/`decoder.go` and the Go standard
library `encoding/binary` varint routines they call:

* `EncodeUvarint`/`DecodeUvarint` = `binary.PutUvarint`/`binary.Uvarint` (LEB128, at most 10 bytes,
  the 10th byte may only be 0 or 1),
* `EncodeVarint`/`DecodeVarint` = `binary.PutVarint`/`binary.Varint` (zig-zag),
* `EncodeInt8`/`DecodeInt8` (a varint with a range check on decode),
* `EncodeByteSlice`/`DecodeByteSlice` (uvarint length prefix).

Machine integers: `uint64` values are `Nat` (the encoder is only specified below 2^64), `int64`
values are `Int`.  Decoders return the value and the *remaining* bytes (`Go: value, n` and the
caller's `buf = buf[n:]`); `none` is the Go error return.
-/
namespace Amino

/-- The loop of `binary.PutUvarint`: `for x >= 0x80 { buf[i] = byte(x) | 0x80; x >>= 7 }; buf[i] = byte(x)`.
`fuel` bounds the number of continuation bytes (structural recursion, so that the model evaluates in
the kernel). -/
def encodeUvarintFuel : Nat → Nat → Bytes
  | 0, x => [UInt8.ofNat x]
  | fuel + 1, x =>
    if x < 128 then [UInt8.ofNat x]
    else UInt8.ofNat (x % 128 + 128) :: encodeUvarintFuel fuel (x / 128)

/-- `binary.PutUvarint` for a `uint64`: at most 9 continuation bytes + 1 final byte. -/
def encodeUvarint (x : Nat) : Bytes := encodeUvarintFuel 9 x

/-- Loop of `binary.Uvarint`: `i` is the byte index, `acc` the value collected so far (the shift is
`7*i`).  `i == MaxVarintLen64` ⇒ overflow; a final byte at index 9 greater than 1 ⇒ overflow; running
out of bytes ⇒ "buffer too small". -/
def decodeUvarintAux : Nat → Nat → Bytes → Option (Nat × Bytes)
  | _, _, [] => none
  | i, acc, b :: rest =>
    if i = 10 then none
    else if b.toNat < 128 then
      if i = 9 ∧ b.toNat > 1 then none else some (acc + b.toNat * 128 ^ i, rest)
    else decodeUvarintAux (i + 1) (acc + (b.toNat - 128) * 128 ^ i) rest

/-- `amino.DecodeUvarint`. -/
def decodeUvarint (bz : Bytes) : Option (Nat × Bytes) := decodeUvarintAux 0 0 bz

/-- Zig-zag of `binary.PutVarint`: `ux := uint64(x) << 1; if x < 0 { ux = ^ux }`. -/
def zigzag (i : Int) : Nat := if 0 ≤ i then (2 * i).toNat else (-2 * i - 1).toNat

/-- Inverse zig-zag of `binary.Varint`: `x := int64(ux >> 1); if ux&1 != 0 { x = ^x }`. -/
def unzigzag (u : Nat) : Int := if u % 2 = 0 then (u / 2 : Nat) else -((u / 2 : Nat) : Int) - 1

/-- `amino.EncodeVarint` (`binary.PutVarint`). -/
def encodeVarint (i : Int) : Bytes := encodeUvarint (zigzag i)

/-- `amino.DecodeVarint` (`binary.Varint`). -/
def decodeVarint (bz : Bytes) : Option (Int × Bytes) :=
  (decodeUvarint bz).map fun (u, rest) => (unzigzag u, rest)

/-- `amino.EncodeInt8`: a varint. -/
def encodeInt8 (i : Int) : Bytes := encodeVarint i

/-- `amino.DecodeInt8`: a varint, rejected outside `[-128, 127]`. -/
def decodeInt8 (bz : Bytes) : Option (Int × Bytes) :=
  match decodeVarint bz with
  | none => none
  | some (i, rest) => if i < -128 ∨ i > 127 then none else some (i, rest)

/-- `amino.EncodeByteSlice`: uvarint length, then the bytes. -/
def encodeByteSlice (bz : Bytes) : Bytes := encodeUvarint bz.length ++ bz

/-- `amino.DecodeByteSlice`: `int(count) < 0` and `len(bz) < count` are errors. -/
def decodeByteSlice (bz : Bytes) : Option (Bytes × Bytes) :=
  match decodeUvarint bz with
  | none => none
  | some (count, rest) =>
    if count ≥ 2 ^ 63 then none
    else if rest.length < count then none
    else some (rest.take count, rest.drop count)

/-- int64 range. -/
def isInt64 (i : Int) : Prop := -(2 ^ 63) ≤ i ∧ i < 2 ^ 63
/-- int8 range. -/
def isInt8 (i : Int) : Prop := -128 ≤ i ∧ i ≤ 127

instance (i : Int) : Decidable (isInt64 i) := by unfold isInt64; infer_instance
instance (i : Int) : Decidable (isInt8 i) := by unfold isInt8; infer_instance

end Amino
