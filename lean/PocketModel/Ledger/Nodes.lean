import PocketModel.Basic.Bytes
import PocketModel.Num.BigDec
/-!
# The nodes-module ledger (x/nodes) — shared model of C19, C21, C22, C23, C24, C25

Executable model of pocket-core's `x/nodes` keeper **as coded**, for the modern rule set (every
named feature active: NCUST, OEDIT, RSCAL, VEDIT, RewardDelegators, ClearUnjailedValSession; codec
upgrade at height 1, validator split from height `splitHeight = 2`).  Deliver mode has no rollback
(`baseapp.runTx` runs the handler on a `CopyStore` of the root multistore that shares the IAVL
substores), so every function writes in the order of the Go code and keeps what was written before
an early return.

Store prefixes of `x/nodes/types/keys.go` and their model fields:

| prefix | Go                               | field        |
|--------|----------------------------------|--------------|
| 0x21   | `AllValidatorsKey`               | `vals`       |
| 0x22   | `StakedValidatorsByNetIDKey`     | `chainIdx`   |
| 0x23   | `StakedValidatorsKey`            | `stakedIdx`  |
| 0x31   | `PrevStateValidatorsPowerKey`    | `prevPower`  |
| 0x32   | `PrevStateTotalPowerKey`         | `prevTotal`  |
| 0x41   | `UnstakingValidatorsKey`         | `unstQ`      |
| 0x43   | `WaitingToBeginUnstakingKey`     | `waiting`    |
| 0x11   | `ValidatorSigningInfoKey`        | `signInfo`   |
| 0x12   | `ValidatorMissedBlockBitArrayKey`| `missedBits` |

Amounts are `Int` (uPOKT), time is `Int` nanoseconds since the Unix epoch, Go's zero `time.Time`
is the constant `zeroTime`.  Addresses are byte strings; the nil address is `[]`.
Bank: only the staked-pool module account (`pool`), the total supply and an abstract per-address
balance map (`bal`) are modelled.  `log` is a ghost event list (payouts, burns, …) used by the
trace-level theorems; no function reads it.
-/
namespace Nodes

abbrev Addr := Bytes

/-! ## Association lists and list-sets (store prefixes) -/
section Assoc
variable {κ : Type} [DecidableEq κ] {α : Type}

/-- `store.Get` -/
def aget : List (κ × α) → κ → Option α
  | [], _ => none
  | (k', v) :: t, k => if k' = k then some v else aget t k

/-- `store.Delete` -/
def adel (l : List (κ × α)) (k : κ) : List (κ × α) := l.filter (fun p => decide (p.1 ≠ k))

/-- `store.Set` -/
def aset (l : List (κ × α)) (k : κ) (v : α) : List (κ × α) := (k, v) :: adel l k

/-- `store.Set` of a key whose value is determined by the key (index entries) -/
def sins (l : List κ) (x : κ) : List κ := if x ∈ l then l else x :: l

/-- `store.Delete` of an index entry -/
def sdel (l : List κ) (x : κ) : List κ := l.filter (fun y => decide (y ≠ x))
end Assoc

/-! ## Records -/

/-- `sdk.StakeStatus` (`Unstaked = 0`, `Unstaking = 1`, `Staked = 2`) -/
inductive Status where
  | unstaked | unstaking | staked
  deriving DecidableEq, Repr, Inhabited

/-- Go's zero `time.Time` (0001-01-01T00:00:00Z) in Unix nanoseconds. -/
def zeroTime : Int := -62135596800000000000

/-- `types.Validator` (x/nodes/types/validator.go).  `chains` are the decoded network identifiers,
`delegators` the `RewardDelegators` map as a key-sorted list, `output = []` is a nil output address. -/
structure Val where
  addr : Addr
  pk : Bytes
  jailed : Bool
  status : Status
  chains : List Bytes
  url : Bytes
  tokens : Int
  unstTime : Int
  output : Addr
  delegators : List (Bytes × Nat)
  deriving DecidableEq, Repr, Inhabited

/-- `types.ValidatorSigningInfo` -/
structure SignInfo where
  startHeight : Int
  index : Int
  jailedUntil : Int
  missed : Int
  jailedBlocks : Int
  deriving DecidableEq, Repr, Inhabited

/-- `ValidatorSigningInfo.ResetSigningInfo` -/
def SignInfo.reset (i : SignInfo) : SignInfo := { i with jailedBlocks := 0, missed := 0, index := 0 }

/-- The x/nodes parameters the modelled code reads.  `minSigned` is the derived
`MinBlocksSignedPerWindow` (a `BigDec` product rounded by the keeper); the slash fractions are
`BigDec` values scaled by 10¹⁸. -/
structure Params where
  unstakingTime : Int
  maxValidators : Int
  minStake : Int
  blocksPerSession : Int
  window : Int
  minSigned : Int
  downtimeJail : Int
  slashDowntime : Int
  slashDoubleSign : Int
  maxEvidenceAge : Int
  maxJailedBlocks : Int
  maxChains : Int
  floorMult : Int
  ceiling : Int
  deriving DecidableEq, Repr, Inhabited

/-- Why an address was put into the waiting-to-unstake set. -/
inductive Cause where
  | request      -- MsgBeginUnstake by the operator or the output address
  | belowMin     -- ForceValidatorUnstake after a slash below the minimum stake
  | jailedTooLong -- ForceValidatorUnstake from IncrementJailedValidators
  | unjailTooLow -- ValidateUnjailMessage "defensive against stuck in jail"
  deriving DecidableEq, Repr

/-- Ghost events. -/
inductive Event where
  | stakeIn (a payer : Addr) (amt : Int)
  | payout (a out : Addr) (amt : Int) (ok : Bool)
  | burn (a : Addr) (requested burned : Int) (ok : Bool)
  | waitingSet (a : Addr) (c : Cause)
  | beganUnstaking (a : Addr) (completion : Int)
  | jailed (a : Addr)
  | unjailed (a : Addr)
  | recordDeleted (a : Addr)
  deriving DecidableEq, Repr

/-- One `abci.ValidatorUpdate` (keyed by the validator's public key; the address is carried along). -/
structure Update where
  addr : Addr
  pk : Bytes
  power : Int
  deriving DecidableEq, Repr

structure State where
  vals : List (Addr × Val) := []
  stakedIdx : List (Int × Addr) := []
  chainIdx : List (Bytes × Addr) := []
  unstQ : List (Int × List Addr) := []
  waiting : List Addr := []
  prevPower : List (Addr × Int) := []
  prevTotal : Int := 0
  signInfo : List (Addr × SignInfo) := []
  missedBits : List (Addr × Int) := []
  pool : Int := 0
  supply : Int := 0
  bal : List (Addr × Int) := []
  params : Params := default
  /-- ghost: validator set held by the consensus engine = all updates so far applied to ∅ -/
  tmSet : List (Addr × Int) := []
  /-- ghost: events, newest last -/
  log : List Event := []
  deriving Repr, Inhabited

def State.emit (s : State) (e : Event) : State := { s with log := s.log ++ [e] }

/-! ## Powers and keys -/

/-- `sdk.TokensToConsensusPower`: tokens / 10⁶ (tokens are never negative). -/
def powerOf (tokens : Int) : Int := tokens / 1000000

/-- `Validator.ConsensusPower` -/
def Val.consPower (v : Val) : Int :=
  if v.status = .staked ∧ v.jailed = false then powerOf v.tokens else 0

/-- `GetOutputAddressFromValidator` -/
def Val.outAddr (v : Val) : Addr := if v.output = [] then v.addr else v.output

/-- `KeyForValidatorInStakingSet`: (power big-endian, inverted address) — the model keeps the pair. -/
def Val.stakedKey (v : Val) : Int × Addr := (powerOf v.tokens, v.addr)

/-! ## Index primitives (valStaked.go, valUnstaked.go, validator.go) -/

/-- `SetStakedValidator` -/
def setStaked (s : State) (v : Val) : State := { s with stakedIdx := sins s.stakedIdx v.stakedKey }

/-- `deleteValidatorFromStakingSet`: the key is computed from the record that is passed in. -/
def delStaked (s : State) (v : Val) : State := { s with stakedIdx := sdel s.stakedIdx v.stakedKey }

/-- `SetStakedValidatorByChains` -/
def setChains (s : State) (v : Val) : State :=
  { s with chainIdx := v.chains.foldl (fun l c => sins l (c, v.addr)) s.chainIdx }

/-- `deleteValidatorForChains` -/
def delChains (s : State) (v : Val) : State :=
  { s with chainIdx := v.chains.foldl (fun l c => sdel l (c, v.addr)) s.chainIdx }

/-- `GetValidatorsByChain`: prefix scan of `0x22 ‖ chain`; the "address" is whatever follows the chain bytes
in the key (`AddressForValidatorByNetworkIDKey`) -/
def validatorsByChain (s : State) (c : Bytes) : List Bytes :=
  (s.chainIdx.filter fun e => c.isPrefixOf (e.1 ++ e.2)).map fun e => (e.1 ++ e.2).drop c.length

/-- `getUnstakingValidators` -/
def getQ (s : State) (t : Int) : List Addr := (aget s.unstQ t).getD []

/-- `SetUnstakingValidator`: append to the slice stored under the completion time. -/
def setUnstaking (s : State) (v : Val) : State :=
  { s with unstQ := aset s.unstQ v.unstTime (getQ s v.unstTime ++ [v.addr]) }

/-- `deleteUnstakingValidator`: remove every occurrence; delete the key when the slice gets empty. -/
def delUnstaking (s : State) (v : Val) : State :=
  let l := (getQ s v.unstTime).filter (fun a => decide (a ≠ v.addr))
  { s with unstQ := if l = [] then adel s.unstQ v.unstTime else aset s.unstQ v.unstTime l }

/-- `SetValidator`: the record, then the unstaking queue / the staked set by status. -/
def setValidator (s : State) (v : Val) : State :=
  let s := { s with vals := aset s.vals v.addr v }
  let s := if v.status = .unstaking then setUnstaking s v else s
  if v.status = .staked ∧ v.jailed = false then setStaked s v else s

/-- `DeleteValidator`: record and signing info (the missed-block bit array is **not** cleared). -/
def deleteValidator (s : State) (a : Addr) : State :=
  ({ s with vals := adel s.vals a, signInfo := adel s.signInfo a }).emit (.recordDeleted a)

/-- `SetWaitingValidator` -/
def setWaiting (s : State) (a : Addr) (c : Cause) : State :=
  ({ s with waiting := sins s.waiting a }).emit (.waitingSet a c)

/-- `DeleteWaitingValidator` -/
def delWaiting (s : State) (a : Addr) : State := { s with waiting := sdel s.waiting a }

/-! ## Signing info (signing_info.go) -/

def clearMissed (s : State) (a : Addr) : State :=
  { s with missedBits := s.missedBits.filter (fun p => decide (p.1 ≠ a)) }

def missedAt (s : State) (a : Addr) (i : Int) : Bool := decide ((a, i) ∈ s.missedBits)

def setMissed (s : State) (a : Addr) (i : Int) (b : Bool) : State :=
  { s with missedBits := if b then sins s.missedBits (a, i) else sdel s.missedBits (a, i) }

/-- `ResetValidatorSigningInfo` (creates the entry when missing; `JailedUntil` is then Go's zero time) -/
def resetSigningInfo (s : State) (a : Addr) (h : Int) : State :=
  let si := (aget s.signInfo a).getD ⟨h, 0, zeroTime, 0, 0⟩
  clearMissed { s with signInfo := aset s.signInfo a si.reset } a

/-- the hard-coded "june 30 fork" height in `EditStakeValidator` / `handleValidatorSignature` -/
def patchHeight : Int := 30040

/-- `IsAfterValidatorSplitUpgrade` for the modern configuration (`UpgradeHeight = 2 > 1`). -/
def splitHeight : Int := 2

/-! ## Bank primitives (pool.go over x/auth/keeper/bank.go) -/

def balOf (s : State) (a : Addr) : Int := (aget s.bal a).getD 0

/-- `coinsFromUnstakedToStaked` -/
def toPool (s : State) (payer : Addr) (amt : Int) : Option State :=
  if amt < 0 then none
  else if balOf s payer < amt then none
  else some { s with bal := aset s.bal payer (balOf s payer - amt), pool := s.pool + amt }

/-- `SendCoinsFromModuleToAccount(StakedPoolName, …)` -/
def fromPool (s : State) (to : Addr) (amt : Int) : Option State :=
  if s.pool < amt then none
  else some { s with bal := aset s.bal to (balOf s to + amt), pool := s.pool - amt }

/-- `burnStakedTokens` -/
def burnPool (s : State) (amt : Int) : Option State :=
  if amt ≤ 0 then some s
  else if s.pool < amt then none
  else some { s with pool := s.pool - amt, supply := s.supply - amt }

/-- `mint` (reward.go): `MintCoins` into the staking pool, then `SendCoinsFromModuleToAccount`; when the
send fails the minted coins stay in the pool -/
def mintTo (s : State) (amount : Int) (to : Addr) : State :=
  let s1 := { s with pool := s.pool + amount, supply := s.supply + amount }
  match fromPool s1 to amount with
  | some s2 => s2
  | none => s1

/-! ## Jailing, forced unstake, slashing (valStateChanges.go, slash.go) -/

/-- `JailValidator` -/
def jailValidator (s : State) (a : Addr) : State :=
  match aget s.vals a with
  | none => s
  | some v =>
    if v.jailed then s
    else if v.status = .unstaked then s
    else (setValidator (delStaked s v) { v with jailed := true }).emit (.jailed a)

/-- `ForceValidatorUnstake` (the modern one: jail and queue; no coins move) -/
def forceUnstake (s : State) (v : Val) (c : Cause) : State :=
  setWaiting (jailValidator s v.addr) v.addr c

/-- `removeValidatorTokens` (the staking-set delete persists when `RemoveStakedTokens` fails) -/
def removeTokens (s : State) (v : Val) (k : Int) : State × Option Val :=
  let s := delStaked s v
  if k < 0 ∨ v.tokens < k then (s, none)
  else
    let v' := { v with tokens := v.tokens - k }
    (setValidator s v', some v')

/-- the amount a slash actually removes: `MaxInt(MinInt(amount, tokens), 0)` -/
def burnAmount (requested tokens : Int) : Int := max (min requested tokens) 0

/-- common tail of `slash` and `simpleSlash` -/
def slashCore (s : State) (v : Val) (requested : Int) : State :=
  let k := burnAmount requested v.tokens
  match removeTokens s v k with
  | (s, none) => s
  | (s, some v') =>
    match burnPool s k with
    | none => s.emit (.burn v.addr requested k false)
    | some s =>
      let s := s.emit (.burn v.addr requested k true)
      if v'.tokens < s.params.minStake then forceUnstake s v' .belowMin else s

/-- `simpleSlash` (reached from `BurnForChallenge`) -/
def simpleSlash (s : State) (a : Addr) (amount : Int) : State :=
  if amount ≤ 0 then s
  else match aget s.vals a with
    | none => s
    | some v => if v.status = .unstaked then s else slashCore s v amount

/-- `TokensFromConsensusPower(power).ToDec().Mul(factor).TruncateInt()` -/
def slashAmount (power factor : Int) : Int :=
  BigDec.truncateInt (BigDec.chopRound (BigDec.ofInt (power * 1000000) * factor))

/-- `slash` -/
def slash (s : State) (h : Int) (a : Addr) (infractionHeight power factor : Int) : State :=
  if factor ≤ 0 then s
  else if infractionHeight > h then s
  else match aget s.vals a with
    | none => s
    | some v => if v.status = .unstaked then s else slashCore s v (slashAmount power factor)

/-! ## BeginBlocker (abci.go) -/

structure Vote where
  addr : Addr
  power : Int
  signed : Bool
  deriving DecidableEq, Repr

structure Evidence where
  addr : Addr
  power : Int
  height : Int
  time : Int
  deriving DecidableEq, Repr

/-- `handleValidatorSignature`, part 1: the signing info is reset every `SignedBlocksWindow` blocks -/
def sigWindowReset (s : State) (h : Int) (a : Addr) (si0 : SignInfo) : State × SignInfo :=
  if h % s.params.window = 0 then (clearMissed s a, si0.reset) else (s, si0)

/-- part 2: the missed-block bit array at the current index, the counter, the index -/
def sigRecord (s : State) (a : Addr) (si : SignInfo) (signed : Bool) : State × SignInfo :=
  let previous := missedAt s a si.index
  if !previous && !signed then
    (setMissed s a si.index true, { si with missed := si.missed + 1, index := si.index + 1 })
  else if previous && signed then
    (setMissed s a si.index false, { si with missed := si.missed - 1, index := si.index + 1 })
  else (s, { si with index := si.index + 1 })

/-- part 3: downtime confirmed — slash, reset, jail, set the jail period -/
def sigPunish (s : State) (p : Params) (h t : Int) (vt : Vote) (si : SignInfo) : State :=
  let s := slash s h vt.addr (h - 1 - 1) vt.power p.slashDowntime
  let s := clearMissed s vt.addr
  let s := jailValidator s vt.addr
  { s with signInfo := aset s.signInfo vt.addr { si.reset with jailedUntil := t + p.downtimeJail } }

/-- `handleValidatorSignature` -/
def handleSig (s : State) (h t : Int) (vt : Vote) : State :=
  match aget s.vals vt.addr with
  | none => s
  | some _ =>
    match aget s.signInfo vt.addr with
    | none => if h ≥ patchHeight then resetSigningInfo s vt.addr h else s
    | some si0 =>
      let p := s.params
      let r1 := sigWindowReset s h vt.addr si0
      let r2 := sigRecord r1.1 vt.addr r1.2 vt.signed
      if r2.2.missed > p.window - p.minSigned then sigPunish r2.1 p h t vt r2.2
      else { r2.1 with signInfo := aset r2.1.signInfo vt.addr r2.2 }

/-- `handleDoubleSign` (+ `validateDoubleSign`) — slashes, does not jail -/
def handleDoubleSign (s : State) (h t : Int) (e : Evidence) : State :=
  match aget s.vals e.addr with
  | none => s
  | some v =>
    if v.status = .unstaked then s
    else if t - e.time > s.params.maxEvidenceAge then s
    else match aget s.signInfo e.addr with
      | none => s
      | some _ => slash s h e.addr (e.height - 1) e.power s.params.slashDoubleSign

/-- `int(MaxEvidenceAge.Minutes()) / 15`, at least 1 -/
def evidenceAgeInBlocks (p : Params) : Int :=
  let m := (p.maxEvidenceAge / 60000000000) / 15
  if m = 0 then 1 else m

/-- the evidence loop of `BeginBlocker` (only `duplicate/vote` evidence is passed in) -/
def handleEvidence (s : State) (h t : Int) (e : Evidence) : State :=
  if h - e.height ≤ evidenceAgeInBlocks s.params then handleDoubleSign s h t e else s

/-- `BeginBlocker` without the fee distribution (`blockReward` moves no pool coins and touches no
node record) -/
def beginBlock (s : State) (h t : Int) (votes : List Vote) (evs : List Evidence) : State :=
  let s := votes.foldl (fun s v => handleSig s h t v) s
  evs.foldl (fun s e => handleEvidence s h t e) s

/-! ## EndBlocker (abci.go, valStateChanges.go, valUnstaked.go) -/

/-- one jailed validator of `IncrementJailedValidators` -/
def incrementJailedOne (s : State) (h : Int) (v : Val) : State :=
  if v.jailed then
    let si := (aget s.signInfo v.addr).getD ⟨h, 0, zeroTime, 0, 0⟩
    let si := { si with jailedBlocks := si.jailedBlocks + 1 }
    if si.jailedBlocks > s.params.maxJailedBlocks then forceUnstake s v .jailedTooLong
    else { s with signInfo := aset s.signInfo v.addr si }
  else s

/-- `IncrementJailedValidators`: the records are the ones seen by the store iterator -/
def incrementJailed (s : State) (h : Int) : State :=
  s.vals.foldl (fun s p => incrementJailedOne s h p.2) s

/-- `BeginUnstakingValidator` -/
def beginUnstaking (s : State) (t : Int) (v : Val) : State :=
  let s := delChains (delStaked s v) v
  let v' := { v with status := .unstaking,
                     unstTime := if v.unstTime = zeroTime then t + s.params.unstakingTime else v.unstTime }
  (setValidator s v').emit (.beganUnstaking v.addr v'.unstTime)

/-- `GetWaitingValidators`: stops (and drops the entry) at the first address without a record -/
def getWaiting (s : State) : List Addr → List Val → List Val × State
  | [], acc => (acc, s)
  | a :: rest, acc =>
    match aget s.vals a with
    | none => (acc, delWaiting s a)
    | some v => getWaiting s rest (acc ++ [v])

/-- insertion of an address into an ascending list (store iteration order) -/
def insertAddr (a : Addr) : List Addr → List Addr
  | [] => [a]
  | b :: t => if a ≤ b then a :: b :: t else b :: insertAddr a t

def sortAddrs (l : List Addr) : List Addr := l.foldr insertAddr []

/-- the loop body of `ReleaseWaitingValidators` -/
def releaseOne (s : State) (t : Int) (v : Val) : State :=
  let s := if v.status = .staked then beginUnstaking s t v else s
  delWaiting s v.addr

/-- `ReleaseWaitingValidators` -/
def releaseWaiting (s : State) (t : Int) : State :=
  let (vs, s) := getWaiting s (sortAddrs s.waiting) []
  vs.foldl (fun s v => releaseOne s t v) s

/-- reverse key order of the staked set: higher power first, then lower address first -/
def stakedBefore (x y : Int × Addr) : Bool := decide (x.1 > y.1) || (decide (x.1 = y.1) && decide (x.2 ≤ y.2))

def insertStaked (x : Int × Addr) : List (Int × Addr) → List (Int × Addr)
  | [] => [x]
  | y :: t => if stakedBefore x y then x :: y :: t else y :: insertStaked x t

def sortStaked (l : List (Int × Addr)) : List (Int × Addr) := l.foldr insertStaked []

/-- accumulator of the main loop of `UpdateTendermintValidators` -/
structure TmAcc where
  st : State
  count : Int := 0
  remaining : List (Addr × Int)
  updates : List Update := []
  total : Int := 0

/-- loop body: the loop condition `count < maxValidators` is evaluated before every entry -/
def tmStep (maxV : Int) (acc : TmAcc) (e : Int × Addr) : TmAcc :=
  if ¬ (acc.count < maxV) then acc
  else match aget acc.st.vals e.2 with
    | none => acc
    | some v =>
      if v.jailed then acc
      else if v.consPower = 0 then acc
      else
        let cur := v.consPower
        let changed := aget acc.remaining e.2 ≠ some cur
        { st := if changed then { acc.st with prevPower := aset acc.st.prevPower e.2 cur } else acc.st
          count := acc.count + 1
          remaining := adel acc.remaining e.2
          updates := if changed then acc.updates ++ [⟨v.addr, v.pk, cur⟩] else acc.updates
          total := acc.total + cur }

/-- one no-longer-staked address -/
def leaverStep (h : Int) (acc : State × List Update) (a : Addr) : State × List Update :=
  match aget acc.1.vals a with
  | none => acc
  | some v =>
    let s := { acc.1 with prevPower := adel acc.1.prevPower v.addr }
    let u : Update := ⟨v.addr, v.pk, if h ≥ splitHeight then 0 else v.consPower⟩
    let s := if v.status = .unstaked then deleteValidator s v.addr else s
    (s, acc.2 ++ [u])

/-- apply validator updates to a consensus-engine validator set (power 0 removes) -/
def applyUpdates (tm : List (Addr × Int)) (us : List Update) : List (Addr × Int) :=
  us.foldl (fun tm u => if u.power = 0 then adel tm u.addr else aset tm u.addr u.power) tm

/-- `UpdateTendermintValidators` -/
def updateTm (s : State) (h t : Int) : State × List Update :=
  let s := if h % s.params.blocksPerSession = 0 then releaseWaiting s t else s
  let acc := (sortStaked s.stakedIdx).foldl (tmStep s.params.maxValidators) { st := s, remaining := s.prevPower }
  let leavers := sortAddrs (acc.remaining.map (·.1))
  let (s, ups) := leavers.foldl (leaverStep h) (acc.st, acc.updates)
  let s := if ups = [] then s else { s with prevTotal := acc.total }
  ({ s with tmSet := applyUpdates s.tmSet ups }, ups)

/-- `FinishUnstakingValidator` followed by `DeleteValidator` (the body of the mature loop) -/
def finishUnstaking (s : State) (v : Val) : State :=
  let s := delUnstaking s v
  let out := match aget s.vals v.addr with
    | some r => r.outAddr
    | none => []
  let s := match fromPool s out v.tokens with
    | some s' => s'.emit (.payout v.addr out v.tokens true)
    | none => s.emit (.payout v.addr out v.tokens false)
  let s := setValidator s { v with tokens := v.tokens - v.tokens, status := .unstaked, unstTime := zeroTime }
  deleteValidator s v.addr

/-- one address of one mature queue slice -/
def matureOne (s : State) (a : Addr) : State :=
  match aget s.vals a with
  | none => s
  | some v => if v.status = .unstaking then finishUnstaking s v else s

/-- one mature queue key: every address of the slice read by the iterator, then delete the key -/
def matureSlice (s : State) (e : Int × List Addr) : State :=
  let s := e.2.foldl matureOne s
  { s with unstQ := adel s.unstQ e.1 }

/-- `unstakeAllMatureValidators`: the iterator covers the keys `≤ key(blockTime)` as they were when
it was opened -/
def unstakeMature (s : State) (t : Int) : State :=
  (s.unstQ.filter (fun e => decide (e.1 ≤ t))).foldl matureSlice s

/-- `EndBlocker` -/
def endBlock (s : State) (h t : Int) : State × List Update :=
  let s := incrementJailed s h
  let (s, ups) := updateTm s h t
  (unstakeMature s t, ups)

/-! ## Transactions (handler.go) -/

/-- result class of a handler (pos codespace codes of x/nodes/types/errors.go) -/
inductive Res where
  | ok
  | err (code : Nat)
  deriving DecidableEq, Repr

/-- `MsgStake` after decoding; `addr` is the address of `pk` -/
structure StakeMsg where
  addr : Addr
  pk : Bytes
  chains : List Bytes
  amount : Int
  url : Bytes
  output : Addr
  delegators : List (Bytes × Nat)
  deriving DecidableEq, Repr

/-- `ValidateValidatorMsgSigner` -/
def signerOk (addr output signer : Addr) : Bool :=
  if output = [] then decide (signer = addr) else decide (signer = addr) || decide (signer = output)

/-- `NormalizeRewardDelegators` succeeds: every share positive, total ≤ 100 (addresses are well formed
by construction of the trace) -/
def delegatorsOk (d : List (Bytes × Nat)) : Bool :=
  d.all (fun p => decide (p.2 > 0)) && decide ((d.map (·.2)).sum ≤ 100)

/-- `ValidateEditStake` -/
def validateEditStake (s : State) (cur : Val) (m : StakeMsg) (signer : Addr) : Res :=
  let diff := m.amount - cur.tokens
  if diff < 0 then .err 122
  else if m.amount < s.params.ceiling ∧ m.amount - m.amount % s.params.floorMult ≤ cur.tokens then .err 122
  else if diff ≠ 0 ∧ balOf s signer < diff then .err 112
  else if cur.output ≠ [] ∧ signer ≠ cur.output ∧ m.output ≠ cur.output then .err 127
  else if m.delegators ≠ cur.delegators ∧ signer ≠ cur.addr then .err 129
  else if cur.addr ∈ s.waiting then .err 117
  else .ok

/-- `ValidateValidatorStaking` -/
def validateStaking (s : State) (m : StakeMsg) (signer : Addr) : Res :=
  let cur := aget s.vals m.addr
  let skip : Bool := match cur with
    | some c => decide (m.output ≠ [] ∧ c.output ≠ m.output ∧ c.output = signer)
    | none => false
  if skip = false ∧ signerOk m.addr m.output signer = false then .err 125
  else if m.output = [] then .err 123
  else if (m.chains.length : Int) > s.params.maxChains then .err 120
  else match cur with
    | some c =>
      if signerOk c.addr c.output signer = false then .err 125
      else if c.status = .staked then validateEditStake s c m signer
      else if c.status ≠ .unstaked then .err 110
      else if m.amount < s.params.minStake then .err 111
      else if balOf s signer < m.amount then .err 112
      else .ok
    | none =>
      if m.amount < s.params.minStake then .err 111
      else if balOf s signer < m.amount then .err 112
      else .ok

/-- `EditStakeValidator` -/
def editStake (s : State) (h : Int) (cur : Val) (m : StakeMsg) (signer : Addr) : State × Res :=
  let diff := m.amount - cur.tokens
  let r := if diff > 0 then toPool s signer diff else some s
  match r with
  | none => (s, .err 10)
  | some s =>
    let s := if diff > 0 then s.emit (.stakeIn cur.addr signer diff) else s
    let upd : Val := { cur with tokens := if diff > 0 then cur.tokens + diff else cur.tokens,
                                output := m.output, delegators := m.delegators,
                                chains := m.chains, url := m.url }
    let s := delChains (delStaked s cur) cur
    let s := deleteValidator s cur.addr
    let s := setChains (setValidator s upd) upd
    let s := if h ≥ patchHeight then resetSigningInfo s cur.addr h else s
    (s, .ok)

/-- `StakeValidator` -/
def stakeValidator (s : State) (h : Int) (m : StakeMsg) (signer : Addr) : State × Res :=
  match aget s.vals m.addr with
  | some c =>
    if c.status = .staked then editStake s h c m signer else
    stakeNew s
  | none => stakeNew s
where
  stakeNew (s : State) : State × Res :=
    match toPool s signer m.amount with
    | none => (s, .err 10)
    | some s =>
      let s := s.emit (.stakeIn m.addr signer m.amount)
      let v : Val := { addr := m.addr, pk := m.pk, jailed := false, status := .staked, chains := m.chains,
                       url := m.url, tokens := m.amount, unstTime := zeroTime, output := m.output,
                       delegators := m.delegators }
      let s := setChains (setValidator s v) v
      let s := match aget s.signInfo m.addr with
        | some _ => s
        | none => { s with signInfo := aset s.signInfo m.addr ⟨h, 0, 0, 0, 0⟩ }
      (s, .ok)

/-- `handleStake` -/
def handleStake (s : State) (h : Int) (m : StakeMsg) (signer : Addr) : State × Res :=
  if m.url.length > 255 then (s, .err 118)
  else if delegatorsOk m.delegators = false then (s, .err 128)
  else match validateStaking s m signer with
    | .err c => (s, .err c)
    | .ok => stakeValidator s h m signer

/-- `handleMsgBeginUnstake` -/
def handleBeginUnstake (s : State) (a signer : Addr) : State × Res :=
  match aget s.vals a with
  | none => (s, .err 101)
  | some v =>
    if signerOk v.addr v.output signer = false then (s, .err 125)
    else if v.status ≠ .staked then (s, .err 110)
    else (setWaiting s v.addr .request, .ok)

/-- `UnjailValidator` -/
def unjailValidator (s : State) (h : Int) (a : Addr) : State :=
  match aget s.vals a with
  | none => s
  | some v =>
    if v.jailed = false then s
    else resetSigningInfo ((setValidator s { v with jailed := false }).emit (.unjailed a)) a h

/-- `handleMsgUnjail` (`ValidateUnjailMessage` + `UnjailValidator`) after /repo 286039a: the jail period is compared with
the block time only (the earlier code also compared it with `time.Now()`, the wall clock of the executing node — C12) -/
def handleUnjail (s : State) (h t : Int) (a signer : Addr) : State × Res :=
  match aget s.vals a with
  | none => (s, .err 101)
  | some v =>
    if signerOk v.addr v.output signer = false then (s, .err 125)
    else if v.tokens < s.params.minStake then (setWaiting s v.addr .unjailTooLow, .err 105)
    else if v.jailed = false then (s, .err 105)
    else match aget s.signInfo v.addr with
      | none => (s, .err 101)
      | some si =>
        if t < si.jailedUntil then (s, .err 104)
        else (unjailValidator s h v.addr, .ok)

/-! ## Genesis (genesis.go) -/

/-- `InitGenesis`, one validator of the genesis file: record, indexes, signing info -/
def genesisOne (s : State) (v : Val) : State :=
  let s := setChains (setValidator s v) v
  match aget s.signInfo v.addr with
  | some _ => s
  | none => { s with signInfo := aset s.signInfo v.addr ⟨0, 0, 0, 0, 0⟩ }

/-- `InitGenesis` up to (not including) its closing `UpdateTendermintValidators`: the pool receives the tokens
of the validators that are **staked** (`IsStaked()`), not of the unstaking ones -/
def initGenesis (p : Params) (vs : List Val) (bal : List (Addr × Int)) (supply0 : Int) : State :=
  let s := vs.foldl genesisOne { params := p, bal := bal, supply := supply0 }
  let staked := ((vs.filter fun v => decide (v.status = .staked)).map (·.tokens)).sum
  { s with pool := staked, supply := s.supply + staked }

/-! ## Operations and histories -/

inductive Op where
  | stake (h : Int) (m : StakeMsg) (signer : Addr)
  | beginUnstake (a signer : Addr)
  | unjail (h t : Int) (a signer : Addr)
  | burn (a : Addr) (amount : Int)
  | beginBlock (h t : Int) (votes : List Vote) (evs : List Evidence)
  | endBlock (h t : Int)
  | setParams (p : Params)
  /-- any other activity (sends, fees, rewards net of the mint-and-send through the pool) on an
  ordinary account -/
  | credit (a : Addr) (d : Int)
  /-- a relay reward or proposer reward paid through `mint` -/
  | reward (to : Addr) (amount : Int)
  /-- `MsgSend` whose recipient is the address of the staking pool's module account (nothing in
  `x/auth` or `x/nodes` rejects it) -/
  | sendToPool (sender : Addr) (amount : Int)

/-- the operation is a plain transfer to the staking pool's address -/
def Op.isPoolSend : Op → Bool
  | .sendToPool _ _ => true
  | _ => false

def step (s : State) : Op → State
  | .stake h m signer => (handleStake s h m signer).1
  | .beginUnstake a signer => (handleBeginUnstake s a signer).1
  | .unjail h t a signer => (handleUnjail s h t a signer).1
  | .burn a amount => simpleSlash s a amount
  | .beginBlock h t votes evs => beginBlock s h t votes evs
  | .endBlock h t => (endBlock s h t).1
  | .setParams p => { s with params := p }
  | .credit a d => { s with bal := aset s.bal a (balOf s a + d), supply := s.supply + d }
  | .reward to amount => mintTo s amount to
  | .sendToPool sender amount =>
    if amount ≤ 0 ∨ balOf s sender < amount then s
    else { s with bal := aset s.bal sender (balOf s sender - amount), pool := s.pool + amount }

def run (s : State) (ops : List Op) : State := ops.foldl step s

end Nodes
