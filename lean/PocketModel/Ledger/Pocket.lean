import PocketModel.Basic.Bytes
/-!
# Claim / proof life-cycle of `x/pocketcore` (ledger level, modern rule set)

Mirrors `x/pocketcore/handler.go` (`handleClaimMsg`, `handleProofMsg`),
`x/pocketcore/keeper/claim.go` (`ValidateClaim`, `SetClaim`, `GetClaim`, `DeleteClaim`,
`ClaimIsMature`, `DeleteExpiredClaims`), `x/pocketcore/keeper/proof.go` (`ValidateProof`,
`ExecuteProof`, `HandleReplayAttack`) and `x/pocketcore/module.go` (`BeginBlock`), as they are.

What other properties own is an **oracle input** of the transition (an explicit field of
`ClaimEnv` / `ProofEnv`): session selection ("node ∈ session", C33), the application's allowance
(`MaxPossibleRelays`, C28), the required pseudorandom index (C31), the merkle-sum-index verdict
(C29/C30), leaf validation (signatures, C35/C39), the reward and burn amounts (C26/C27),
transaction authentication (C14–C16).  What is modelled here is the order of the checks, which
of them lead to which result code, what is written to the claims store and the supply in every
branch (the replay-attack branch *writes and returns an error*; deliver mode has no rollback),
and the expiry sweep of `BeginBlock`.

The claims store is a map keyed by `KeyForClaim(addr, header, evidenceType)`
(`0x02 ‖ addr ‖ Hash(header) ‖ type`); the model keeps the components (a collision of the header
hash is outside the model).
-/

namespace Pocket

/-- An ABCI error: codespace and number (`sdk.Error.Codespace()/Code()`).  A transaction result
carries `Option Code`; `none` is success (code 0). -/
structure Code where
  space : String
  code : Nat
deriving DecidableEq, Repr

namespace Code
/-- `x/pocketcore/types/errors.go` code in codespace `pocketcore`. -/
def pc (n : Nat) : Code := ⟨"pocketcore", n⟩
/-- `sdk.ErrInternal`. -/
def internal : Code := ⟨"sdk", 1⟩
/-- Placeholder for "rejected by the ante handler" (the concrete code is C14–C16's subject). -/
def ante : Code := ⟨"ante", 0⟩
/-- `codeDuplicateTransaction` of `baseapp.DeliverTx` (the same bytes were delivered before). -/
def duplicate : Code := ⟨"auth", 6⟩
def noEvidenceType := pc 84
def invalidBlockHeight := pc 60
def invalidProofs := pc 49
def chainNotSupported := pc 53
def nodeNotFound := pc 48
def appNotFound := pc 45
def overService := pc 71
def chainsOverLimit := pc 91
def invalidSession := pc 14
def invalidAppPubKey := pc 61
def expiredProofsSubmission := pc 69
def claimNotFound := pc 65
def invalidMerkleVerify := pc 66
def replayAttack := pc 86
end Code

/-- The components of `KeyForClaim`: servicer address, session header (application public key,
chain, session block height) and evidence type (`RelayEvidence = 1`, `ChallengeEvidence = 2`). -/
structure ClaimKey where
  node : Bytes
  app : Bytes
  chain : Bytes
  sbh : Int
  et : Nat
deriving DecidableEq, Repr

/-- The stored part of a `MsgClaim` beyond its key. `root` identifies the merkle root. -/
structure Claim where
  total : Int
  root : Bytes
  expiration : Int
deriving DecidableEq, Repr

/-- The claims store (prefix `0x02` of the pocketcore store) as an association list. -/
abbrev Claims := List (ClaimKey × Claim)

namespace Claims

/-- `GetClaim`. -/
def get : Claims → ClaimKey → Option Claim
  | [], _ => none
  | (k', c) :: rest, k => if k' = k then some c else get rest k

/-- `DeleteClaim` (`store.Delete`). -/
def del : Claims → ClaimKey → Claims
  | [], _ => []
  | (k', c) :: rest, k => if k' = k then del rest k else (k', c) :: del rest k

/-- `store.Set(key, …)` of `SetClaim`: overwrites. -/
def set (cs : Claims) (k : ClaimKey) (c : Claim) : Claims := (k, c) :: del cs k

/-- A store holds one value per key. -/
def WF (cs : Claims) : Prop := (cs.map (·.1)).Nodup

end Claims

/-- The part of the ledger this property is about. -/
structure State where
  height : Int
  claims : Claims
  supply : Int
deriving Repr

/-- What a transition did (ghost trace; the theorems count these). -/
inductive Event where
  /-- `SetClaim` stored this claim under this key (possibly replacing an older one). -/
  | accepted (k : ClaimKey) (c : Claim)
  /-- `AwardCoinsForRelays` minted `amount` for the claim found under `k`. -/
  | minted (k : ClaimKey) (c : Claim) (amount : Int)
  /-- `HandleReplayAttack` burned `amount` of the claimer's stake. -/
  | burned (k : ClaimKey) (c : Claim) (amount : Int)
  /-- `BurnCoinsForChallenges` (challenge leaf) burned `amount` of the minority node's stake. -/
  | challengeBurn (amount : Int)
  /-- `DeleteClaim` was called with this key. -/
  | deleted (k : ClaimKey)
  /-- `DeleteExpiredClaims` removed this entry. -/
  | expired (k : ClaimKey) (c : Claim)
deriving DecidableEq, Repr

structure TxResult where
  /-- `none` = the result is OK; `some c` = the result is the error `c`. -/
  err : Option Code
  state : State
  events : List Event

/-! ## MsgClaim -/

/-- `MsgClaim`: key components, `TotalProofs`, `MerkleRoot`, `ExpirationHeight`. -/
structure MsgClaim where
  key : ClaimKey
  total : Int
  root : Bytes
  expiration : Int := 0

/-- Every fact `ValidateClaim`/`SetClaim` read that is not part of the message or of the claims
store.  "session context" = `ctx.PrevCtx(SessionBlockHeight)`. -/
structure ClaimEnv where
  /-- the same transaction bytes were delivered before (`baseapp.DeliverTx` transaction cache; C16). -/
  dup : Bool := false
  /-- `MsgClaim.ValidateBasic()` (stateless syntax; run by `baseapp.runTx` before the ante handler). -/
  vb : Option Code
  /-- the ante handler accepts the transaction (signature of `FromAddress`, fee, not a duplicate). -/
  anteOk : Bool
  /-- `ctx.PrevCtx(SessionBlockHeight)` succeeds. -/
  sessCtxOk : Bool
  /-- `BlocksPerSession(sessionContext)`. -/
  sessB : Int
  /-- `MinimumNumberOfProofs(sessionContext)`. -/
  minProofs : Int
  /-- `IsPocketSupportedBlockchain(sessionContext, chain)`. -/
  chainSupported : Bool
  /-- `GetNode(sessionContext, FromAddress)` finds a node. -/
  nodeFound : Bool
  /-- `GetAppFromPublicKey(sessionContext, ApplicationPubKey)` finds an application. -/
  appFound : Bool
  /-- `MaxPossibleRelays(app, SessionNodeCount(sessionContext))`. -/
  maxRelays : Int
  /-- `len(app.GetChains()) > appKeeper.MaxChains(sessionContext)`. -/
  chainsOverLimit : Bool
  /-- an error of `NewSession` or of `Session.Validate` before its last check (membership). -/
  sessionPre : Option Code
  /-- the session header names the application (and the chain) in canonical spelling: its
  `ApplicationPubKey` TEXT equals `app.GetPublicKey().RawString()` (lower-case hex).  The claim store
  key, the evidence key and the session key are derived from the header text, so another spelling of
  the same key would be a second, independent claim for the same session (`Session.Validate`). -/
  headerCanonical : Bool := true
  /-- `session.SessionNodes.Contains(FromAddress)`. -/
  inSession : Bool
  /-- `ClaimSubmissionWindow(ctx)` and `BlocksPerSession(ctx)` (current context, `ClaimIsMature`). -/
  curW : Int
  curB : Int
  /-- `ClaimExpiration(sessionContext)`. -/
  claimExp : Int

/-- `Keeper.ValidateClaim`, check by check in the order of the Go code (`none` = valid). -/
def validateClaim (h : Int) (m : MsgClaim) (e : ClaimEnv) : Option Code :=
  if m.key.et = 0 then some Code.noEvidenceType
  else if !e.sessCtxOk then some Code.internal
  else if h ≤ m.key.sbh + e.sessB - 1 then some Code.invalidBlockHeight
  else if m.total < e.minProofs then some Code.invalidProofs
  else if !e.chainSupported then some Code.chainNotSupported
  else if !e.nodeFound then some Code.nodeNotFound
  else if !e.appFound then some Code.appNotFound
  else if e.maxRelays < m.total then some Code.overService
  else if e.chainsOverLimit then some Code.chainsOverLimit
  else match e.sessionPre with
    | some c => some c
    | none =>
      if !e.headerCanonical then some Code.invalidAppPubKey
      else if !e.inSession then some Code.invalidSession
      else if h > e.curW * e.curB + m.key.sbh then some Code.expiredProofsSubmission
      else none

/-- The claim `SetClaim` stores: the expiration height is generated when the message carries 0. -/
def storedClaim (h : Int) (m : MsgClaim) (e : ClaimEnv) : Claim :=
  { total := m.total, root := m.root,
    expiration := if m.expiration = 0 then h + e.claimExp * e.sessB else m.expiration }

/-- `handleClaimMsg` (validate, then `SetClaim`; `KeyForClaim` refuses evidence types other than 1, 2). -/
def handleClaim (s : State) (m : MsgClaim) (e : ClaimEnv) : TxResult :=
  match validateClaim s.height m e with
  | some c => ⟨some c, s, []⟩
  | none =>
    if m.key.et ≠ 1 ∧ m.key.et ≠ 2 then ⟨some Code.internal, s, []⟩
    else
      let c := storedClaim s.height m e
      ⟨none, { s with claims := s.claims.set m.key c }, [.accepted m.key c]⟩

/-- DeliverTx of a claim transaction: duplicate check, `ValidateBasic`, ante handler, handler. -/
def deliverClaim (s : State) (m : MsgClaim) (e : ClaimEnv) : TxResult :=
  if e.dup then ⟨some Code.duplicate, s, []⟩ else
  match e.vb with
  | some c => ⟨some c, s, []⟩
  | none => if !e.anteOk then ⟨some Code.ante, s, []⟩ else handleClaim s m e

/-! ## MsgProof -/

/-- Verdict pair of `MerkleProof.Validate`: `(true, _)`, `(false, true)`, `(false, false)`. -/
inductive Merkle where
  | valid | replay | invalid
deriving DecidableEq, Repr

/-- Go type of `MsgProof.Leaf` (`ExecuteProof` switches on it). -/
inductive LeafKind where
  | relay | challenge
deriving DecidableEq, Repr

/-- The evidence type `ExecuteProof` passes to `DeleteClaim` in the branch of this leaf type. -/
def LeafKind.et : LeafKind → Nat
  | .relay => 1
  | .challenge => 2

/-- `MsgProof` as the handler sees it: the key it looks the claim up with is
`(GetSigners()[0], Leaf.SessionHeader(), EvidenceType)`; `leaf` is the Go type of the leaf. -/
structure MsgProof where
  key : ClaimKey
  leaf : LeafKind

/-- Every fact `ValidateProof`/`ExecuteProof` read beyond the claims store. -/
structure ProofEnv where
  /-- the same transaction bytes were delivered before (`baseapp.DeliverTx` transaction cache; C16). -/
  dup : Bool := false
  vb : Option Code
  anteOk : Bool
  /-- `len(HashRanges) == ceil(log2(claim.TotalProofs))`. -/
  levelOk : Bool
  /-- some hash range (or the target) has the root's upper bound. -/
  rootMatch : Bool
  /-- `ctx.PrevCtx(claim.SessionBlockHeight)` succeeds. -/
  sessCtxOk : Bool
  /-- `getPseudorandomIndex` succeeds (the block it hashes exists). -/
  indexAvail : Bool
  /-- the required index equals `MerkleProof.TargetIndex`. -/
  indexOk : Bool
  merkle : Merkle
  appFound : Bool
  /-- `Leaf.Validate(app chains, session node count, session height)`. -/
  leafErr : Option Code
  /-- what `AwardCoinsForRelays` mints in total in this execution. -/
  reward : Int
  /-- what `HandleReplayAttack` burns. -/
  burn : Int
  /-- what `BurnCoinsForChallenges` burns (challenge leaf). -/
  challengeBurn : Int

/-- The key `ExecuteProof` deletes.  As coded (`fixed = false`) the evidence type is the constant
of the leaf's branch; `fixed = true` is the repaired variant that deletes the claim it looked up. -/
def deleteKey (fixed : Bool) (m : MsgProof) : ClaimKey :=
  if fixed then m.key else { m.key with et := m.leaf.et }

/-- `ExecuteProof` for a validated proof of the stored claim `c`.

Relay leaf: `AwardCoinsForRelays(TotalProofs)`, then `DeleteClaim(…, RelayEvidence)`.

Challenge leaf, as coded (`fixed = false`): the switch runs on the *dereferenced* leaf but the next
line asserts `proof.GetLeaf().(pc.ChallengeProofInvalidData)` on the original value, which is a
pointer for every decoded transaction (`ProofI.FromProto` returns `x.ChallengeProof`), so the
branch always returns `InvalidProofs` before it burns, deletes or pays anything.  `fixed = true`
executes the branch as it was meant: burn the minority node, delete, pay `TotalProofs/100` relays. -/
def executeProof (fixed : Bool) (s : State) (m : MsgProof) (c : Claim) (e : ProofEnv) : TxResult :=
  match m.leaf with
  | .relay =>
    ⟨none, { s with claims := s.claims.del (deleteKey fixed m), supply := s.supply + e.reward },
      [.minted m.key c e.reward, .deleted (deleteKey fixed m)]⟩
  | .challenge =>
    if fixed then
      ⟨none, { s with claims := s.claims.del (deleteKey fixed m), supply := s.supply - e.challengeBurn + e.reward },
        [.challengeBurn e.challengeBurn, .minted m.key c e.reward, .deleted (deleteKey fixed m)]⟩
    else ⟨some Code.invalidProofs, s, []⟩

/-- `handleProofMsg` = `ValidateProof` (checks in the order of the Go code) + the handler's error
branches + `ExecuteProof`. -/
def handleProof (fixed : Bool) (s : State) (m : MsgProof) (e : ProofEnv) : TxResult :=
  match s.claims.get m.key with
  | none => ⟨some Code.claimNotFound, s, []⟩
  | some c =>
    if !e.levelOk then ⟨some Code.invalidProofs, s, []⟩
    else if !e.rootMatch then ⟨some Code.invalidMerkleVerify, s, []⟩
    else if !e.sessCtxOk then ⟨some Code.internal, s, []⟩
    else if !e.indexAvail then ⟨some Code.internal, s, []⟩
    else if !e.indexOk then ⟨some Code.invalidProofs, s, []⟩
    else match e.merkle with
      | .replay =>
        -- the result is an error, the burn and the deletion persist
        ⟨some Code.replayAttack, { s with claims := s.claims.del m.key, supply := s.supply - e.burn },
          [.burned m.key c e.burn, .deleted m.key]⟩
      | .invalid => ⟨some Code.invalidMerkleVerify, s, []⟩
      | .valid =>
        if !e.appFound then ⟨some Code.appNotFound, s, []⟩
        else match e.leafErr with
          | some code => ⟨some code, s, []⟩
          | none => executeProof fixed s m c e

/-- DeliverTx of a proof transaction. -/
def deliverProof (fixed : Bool) (s : State) (m : MsgProof) (e : ProofEnv) : TxResult :=
  if e.dup then ⟨some Code.duplicate, s, []⟩ else
  match e.vb with
  | some c => ⟨some c, s, []⟩
  | none => if !e.anteOk then ⟨some Code.ante, s, []⟩ else handleProof fixed s m e

/-! ## BeginBlock -/

/-- `DeleteExpiredClaims` at the new height: entries with `ExpirationHeight <= height` go. -/
def beginBlock (s : State) : State × List Event :=
  let h := s.height + 1
  ({ s with height := h, claims := s.claims.filter fun p => decide (h < p.2.expiration) },
   (s.claims.filter fun p => decide (p.2.expiration ≤ h)).map fun p => .expired p.1 p.2)

/-! ## Histories -/

inductive Op where
  | begin
  | claim (m : MsgClaim) (e : ClaimEnv)
  | proof (m : MsgProof) (e : ProofEnv)

def step (fixed : Bool) (s : State) : Op → State × List Event
  | .begin => beginBlock s
  | .claim m e => let r := deliverClaim s m e; (r.state, r.events)
  | .proof m e => let r := deliverProof fixed s m e; (r.state, r.events)

/-- Run a history; the events of all transitions in order. -/
def run (fixed : Bool) : State → List Op → State × List Event
  | s, [] => (s, [])
  | s, op :: ops =>
    let (s1, ev1) := step fixed s op
    let (s2, ev2) := run fixed s1 ops
    (s2, ev1 ++ ev2)

/-- A relay-proof leaf is presented for a claim of evidence type 1 (`RelayEvidence`).  The Go code
never checks that the leaf type and the evidence type agree. -/
def Op.typed : Op → Prop
  | .proof m _ => m.leaf = .relay → m.key.et = 1
  | _ => True

/-- A history in which every proof is `typed`. -/
def WellTyped (ops : List Op) : Prop := ∀ op ∈ ops, op.typed

/-! ## Reading a trace -/

/-- Effect of one event on the store entry of key `k`. -/
def Event.apply (k : ClaimKey) (cur : Option Claim) : Event → Option Claim
  | .accepted k' c => if k' = k then some c else cur
  | .deleted k' => if k' = k then none else cur
  | .expired k' _ => if k' = k then none else cur
  | _ => cur

/-- The store entry of `k` according to the trace. -/
def replay (k : ClaimKey) (init : Option Claim) (evs : List Event) : Option Claim :=
  evs.foldl (Event.apply k) init

/-- Number of reward payments recorded for key `k`. -/
def mints (k : ClaimKey) : List Event → Nat
  | [] => 0
  | .minted k' _ _ :: evs => (if k' = k then 1 else 0) + mints k evs
  | _ :: evs => mints k evs

/-- Number of times a claim was stored under key `k`. -/
def accepts (k : ClaimKey) : List Event → Nat
  | [] => 0
  | .accepted k' _ :: evs => (if k' = k then 1 else 0) + accepts k evs
  | _ :: evs => accepts k evs

/-- Total amount minted for key `k`. -/
def mintedTotal (k : ClaimKey) : List Event → Int
  | [] => 0
  | .minted k' _ a :: evs => (if k' = k then a else 0) + mintedTotal k evs
  | _ :: evs => mintedTotal k evs

/-- 1 if the store has an entry for `k`. -/
def live (cs : Claims) (k : ClaimKey) : Nat := if (cs.get k).isSome then 1 else 0

/-! ## Executable specification (what the driver evaluates on the implementation's outputs) -/

/-- Everything the property demands of an accepted claim. -/
def claimAcceptable (h : Int) (m : MsgClaim) (e : ClaimEnv) : Bool :=
  !e.dup && e.vb.isNone && e.anteOk && (m.key.et == 1 || m.key.et == 2) && e.sessCtxOk
  && decide (h > m.key.sbh + e.sessB - 1)           -- the session has ended
  && decide (e.minProofs ≤ m.total)
  && e.chainSupported && e.nodeFound && e.appFound
  && decide (m.total ≤ e.maxRelays)                  -- within the application's allowance
  && !e.chainsOverLimit && e.sessionPre.isNone && e.headerCanonical && e.inSession
  && decide (h ≤ e.curW * e.curB + m.key.sbh)        -- not mature yet

/-- Everything the property demands of a proof that is paid, given the stored claim. -/
def proofPayable (cs : Claims) (m : MsgProof) (e : ProofEnv) : Bool :=
  !e.dup && e.vb.isNone && e.anteOk && (cs.get m.key).isSome && e.levelOk && e.rootMatch && e.sessCtxOk
  && e.indexAvail && e.indexOk && (e.merkle == .valid) && e.appFound && e.leafErr.isNone

end Pocket
