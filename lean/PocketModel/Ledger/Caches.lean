/-!
# Node-local caches of pocket-core as explicit state (C13)

Mirrors, as they are:

* `types/lru.go` — `Cache` (hashicorp LRU): `Get` (promotes), `Add` (insert/update at the front,
  evict the oldest beyond capacity), `Remove`; `GetWithCtx/AddWithCtx/RemoveWithCtx` do nothing when
  `ctx.IsPrevCtx()`.
* `x/apps/keeper/application.go` — `GetApplication` (cache first, then store, then fill),
  `SetApplication`, `DeleteApplication`; the cache is **not keyed by height**.
* `x/nodes/keeper/validator.go` — `GetValidator` never reads `validatorCache` (only fills it).
* `types/context.go` — `PrevCtx(height)`: `GlobalCtxCache` keyed by height.
* `x/nodes/keeper/valStaked.go` — `GetValidatorsByChain`: `VbCCache` keyed by
  `(ctx.BlockHeight(), chain)`, filled from the context's *store*.
* `x/pocketcore/keeper/session.go`, `claim.go` — `GlobalSessionCache` keyed by session header, filled
  by `HandleDispatch` (session filtered against the *latest* state) and read by `ValidateClaim`
  (which otherwise filters against the *session-end* state).
* context flavours: block execution and `CheckTx` use non-prev contexts on the working store;
  `app.NewContext(h)` (RPC) is a prev context on version `h`; `baseapp.handleQueryCustom` builds
  (since /repo 7e2b97e) a **prev** context whose header height and store are both those of
  `req.Height` (`QueryCtx.fixed`); before that commit it was a non-prev context with the latest
  block's header over the store of `req.Height` (`QueryCtx.asis`, kept for the historical
  counterexamples).
* `ValidateClaim` (since /repo fbab444) always computes the session from the session-start node
  list and the session-end state and never reads `GlobalSessionCache` (`claimSession false`).
* The whole node with all caches and all off-chain traffic: `FNode`, `fstep`, `frun` (section
  "The whole node").
-/
namespace Caches

/-- `types.Cache`: most recently used first. -/
structure LRU (K V : Type) where
  cap : Nat
  items : List (K × V)
  deriving Repr

variable {K V : Type} [DecidableEq K]

def LRU.empty (cap : Nat) : LRU K V := ⟨cap, []⟩

/-- `Peek`. -/
def LRU.peek (c : LRU K V) (k : K) : Option V := (c.items.find? (fun e => e.1 = k)).map (·.2)

/-- `Get`: a hit moves the entry to the front. -/
def LRU.get (c : LRU K V) (k : K) : LRU K V × Option V :=
  match c.peek k with
  | none => (c, none)
  | some v => ({ c with items := (k, v) :: c.items.filter (fun e => e.1 ≠ k) }, some v)

/-- `Add`: insert or update at the front; evict beyond capacity. -/
def LRU.add (c : LRU K V) (k : K) (v : V) : LRU K V :=
  { c with items := ((k, v) :: c.items.filter (fun e => e.1 ≠ k)).take c.cap }

/-- `Remove`. -/
def LRU.remove (c : LRU K V) (k : K) : LRU K V :=
  { c with items := c.items.filter (fun e => e.1 ≠ k) }

/-- A key-value store (one version of the application substore). -/
abbrev Store (K V : Type) := K → Option V

def upd (s : Store K V) (k : K) (v : Option V) : Store K V := fun x => if x = k then v else s x

/-! ## ApplicationCache -/

/-- `Keeper.GetApplication(ctx, addr)`; `prev = ctx.IsPrevCtx()`, `s` = the store of `ctx`. -/
def getApp (prev : Bool) (s : Store K V) (c : LRU K V) (k : K) : LRU K V × Option V :=
  if prev then (c, s k)
  else
    match c.get k with
    | (c', some v) => (c', some v)
    | (_, none) =>
      match s k with
      | none => (c, none)
      | some v => (c.add k v, some v)

/-- `Keeper.SetApplication`. -/
def setApp (prev : Bool) (s : Store K V) (c : LRU K V) (k : K) (v : V) : Store K V × LRU K V :=
  (upd s k (some v), if prev then c else c.add k v)

/-- `Keeper.DeleteApplication`. -/
def delApp (prev : Bool) (s : Store K V) (c : LRU K V) (k : K) : Store K V × LRU K V :=
  (upd s k none, if prev then c else c.remove k)

/-- The invariant: every cached record is the record of the working store. -/
def Coherent (c : LRU K V) (s : Store K V) : Prop := ∀ k v, (k, v) ∈ c.items → s k = some v

/-- Which context `baseapp.handleQueryCustom` builds. -/
inductive QueryCtx where
  | asis   -- not prev; header of the latest block, store of the requested version
  | fixed  -- prev; header height = requested version
  deriving DecidableEq, Repr

def QueryCtx.prev : QueryCtx → Bool
  | .asis => false
  | .fixed => true

/-- Node state as far as the application substore is concerned. -/
structure Node (K V : Type) where
  work : Store K V
  versions : List (Store K V)
  cache : LRU K V

/-- Reads and writes of block execution (handlers, end blockers) on the application substore. -/
inductive Op (K V : Type) where
  | get (k : K)
  | set (k : K) (v : V)
  | del (k : K)

/-- Off-chain requests that reach `GetApplication`. -/
inductive Off (K V : Type) where
  /-- `Query custom/application/application` at a height (0 = latest committed). -/
  | customQuery (height : Nat) (k : K)
  /-- RPC `QueryApp` through `app.NewContext(height)` (prev context). -/
  | rpcQuery (height : Nat) (k : K)
  /-- `CheckTx` / simulate ante handler: non-prev context on the working store. -/
  | checkTx (k : K)
  /-- `Query app/simulate` of a transaction whose handler reads and writes the record of `k`
  (application stake / edit-stake): since /repo 3ee4649 the handler runs on a **prev** context over
  a store layer that is discarded, so neither the store nor the cache changes. -/
  | simulate (k : K) (v : V)

inductive Step (K V : Type) where
  | cons (op : Op K V)
  | commit
  | restart (cap : Nat)
  | off (o : Off K V)

def Step.isOff : Step K V → Bool
  | .off _ => true
  | _ => false

/-- Steps that are part of the chain's execution (everything but off-chain requests). -/
def Step.onChain : Step K V → Bool
  | .off _ => false
  | _ => true

def version (n : Node K V) (height : Nat) : Option (Store K V) :=
  if height = 0 then n.versions.getLast? else n.versions[height - 1]?

/-- One step; the output is what block execution observes (`get` results). -/
def step (q : QueryCtx) (n : Node K V) : Step K V → Node K V × List (Option V)
  | .cons (.get k) => let r := getApp false n.work n.cache k; ({ n with cache := r.1 }, [r.2])
  | .cons (.set k v) => let r := setApp false n.work n.cache k v; ({ n with work := r.1, cache := r.2 }, [])
  | .cons (.del k) => let r := delApp false n.work n.cache k; ({ n with work := r.1, cache := r.2 }, [])
  | .commit => ({ n with versions := n.versions ++ [n.work] }, [])
  | .restart cap => ({ n with cache := LRU.empty cap }, [])
  | .off (.customQuery h k) =>
    match version n h with
    | none => (n, [])
    | some s => ({ n with cache := (getApp q.prev s n.cache k).1 }, [])
  | .off (.rpcQuery h k) =>
    match version n h with
    | none => (n, [])
    | some s => ({ n with cache := (getApp true s n.cache k).1 }, [])
  | .off (.checkTx k) => ({ n with cache := (getApp false n.work n.cache k).1 }, [])
  | .off (.simulate k v) =>
    -- handler: GetApplication then SetApplication, both under a prev context; the written store is dropped
    let c1 := (getApp true n.work n.cache k).1
    ({ n with cache := (setApp true n.work c1 k v).2 }, [])

def run (q : QueryCtx) (n : Node K V) : List (Step K V) → Node K V × List (Option V)
  | [] => (n, [])
  | s :: ss => let r := step q n s; let r' := run q r.1 ss; (r'.1, r.2 ++ r'.2)

/-- The cache-less reference semantics: what a node that never caches anything observes. -/
def stepPure (w : Store K V) : Step K V → Store K V × List (Option V)
  | .cons (.get k) => (w, [w k])
  | .cons (.set k v) => (upd w k (some v), [])
  | .cons (.del k) => (upd w k none, [])
  | _ => (w, [])

def runPure (w : Store K V) : List (Step K V) → Store K V × List (Option V)
  | [] => (w, [])
  | s :: ss => let r := stepPure w s; let r' := runPure r.1 ss; (r'.1, r.2 ++ r'.2)

/-- A custom query is *benign* in state `n` when the version it reads agrees with the working
store on the queried key (e.g. latest height between blocks, key untouched since). -/
def benign (n : Node K V) : Step K V → Prop
  | .off (.customQuery h k) => ∀ s, version n h = some s → s k = n.work k
  | _ => True

/-! ## ValidatorCache (write-only) -/

/-- `Keeper.GetValidator`: the cache lookup is commented out; the store is always read. -/
def getVal (prev : Bool) (s : Store K V) (c : LRU K V) (k : K) : LRU K V × Option V :=
  match s k with
  | none => (c, none)
  | some v => (if prev then c else c.add k v, some v)

/-! ## GlobalCtxCache: `PrevCtx(height)` -/

/-- `Context.PrevCtx(height)` for `height ≠ ctx.BlockHeight()`: cache, else load the version and
cache it.  `S` is a whole committed multistore version. -/
def prevCtx {S : Type} (versions : List S) (c : LRU Nat S) (height : Nat) : LRU Nat S × Option S :=
  match c.get height with
  | (c', some s) => (c', some s)
  | (_, none) =>
    match versions[height - 1]? with
    | none => (c, none)
    | some s => (c.add height s, some s)

def CtxCoherent {S : Type} (versions : List S) (c : LRU Nat S) : Prop :=
  ∀ h s, (h, s) ∈ c.items → versions[h - 1]? = some s

/-! ## VbCCache: validators by chain, keyed by (header height, chain) -/

/-- `GetValidatorsByChain(ctx, chain)`: `hdr` = `ctx.BlockHeight()`, `s` = the store of `ctx`,
`vbc` = the store iteration. -/
def getVbc {S C L : Type} [DecidableEq C] (vbc : S → C → L) (hdr : Nat) (s : S) (c : LRU (Nat × C) L) (ch : C) :
    LRU (Nat × C) L × L :=
  match c.get (hdr, ch) with
  | (c', some l) => (c', l)
  | (_, none) => (c.add (hdr, ch) (vbc s ch), vbc s ch)

def VbcCoherent {S C L : Type} (vbc : S → C → L) (versions : List S) (c : LRU (Nat × C) L) : Prop :=
  ∀ h ch l, ((h, ch), l) ∈ c.items → ∃ s, versions[h - 1]? = some s ∧ l = vbc s ch

/-- The (header height, store) pair of the context built by `handleQueryCustom` for a request at
`req` when the latest committed height is `latest`. -/
def queryCtxOf {S : Type} (q : QueryCtx) (versions : List S) (latest req : Nat) : Option (Nat × S) :=
  match versions[req - 1]? with
  | none => none
  | some s => some (match q with | .asis => latest | .fixed => req, s)

/-! ## GlobalSessionCache -/

/-- `sess start end_` = `NewSession(sessionCtx, endCtx, …)`: nodes drawn from the session-start
state, filtered (jailed / missing / chains) against a second state. -/
structure SessionFn (S H Sess : Type) where
  sess : H → S → S → Sess

/-- `HandleDispatch`: cache lookup, else compute against the *latest* state and cache. -/
def dispatch {S H Sess : Type} [DecidableEq H] (f : SessionFn S H Sess) (c : LRU H Sess) (hdr : H) (start latest : S) :
    LRU H Sess × Sess :=
  match c.get hdr with
  | (c', some x) => (c', x)
  | (_, none) => (c.add hdr (f.sess hdr start latest), f.sess hdr start latest)

/-- `ValidateClaim` as it is: cached session if present, else computed against the session-end
state (and not cached).  `useCache = false` is the repaired validation. -/
def claimSession {S H Sess : Type} [DecidableEq H] (useCache : Bool) (f : SessionFn S H Sess) (c : LRU H Sess) (hdr : H)
    (start end_ : S) : Sess :=
  if useCache then
    match c.peek hdr with
    | some x => x
    | none => f.sess hdr start end_
  else f.sess hdr start end_

/-! ## The whole node: every cache, every kind of off-chain traffic (the code as it is now) -/

/-- What sessions are made of. `vbc s c` = `GetValidatorsByChain` on version `s`; `sess hdr nodes
end_` = `NewSession` from the session-start node list filtered against the state `end_`;
`startOf`/`endOf`/`chainOf` read a session header. -/
structure World (S C L H Sess : Type) where
  vbc : S → C → L
  sess : H → L → S → Sess
  startOf : H → Nat
  endOf : H → Nat
  chainOf : H → C

/-- Node state: the application substore with its cache (`Node`), the committed multistore
versions, the validators-by-chain cache and the session cache. -/
structure FNode (K V S C L H Sess : Type) where
  app : Node K V
  ms : List S
  vbcCache : LRU (Nat × C) L
  sessCache : LRU H Sess

/-- Everything that can happen to a node. -/
inductive FStep (K V S H : Type) where
  /-- block execution / off-chain request touching the application substore (see `Step`) -/
  | app (s : Step K V)
  /-- `Commit`: the working application store and the multistore snapshot `ms` become a version -/
  | commit (ms : S)
  /-- block execution: `ValidateClaim` for session header `hdr` -/
  | claim (hdr : H)
  /-- off-chain: `HandleDispatch` for `hdr`, served on a context of height `at` — the RPC path
  (`app.NewContext(latest)`) and `Query custom/pocketcore/dispatch` at `req.Height = at` alike: in
  both the context's header height and store version agree -/
  | dispatch (hdr : H) (at_ : Nat)
  /-- a process restart: every node-local cache is empty again -/
  | restart (cap : Nat)

def FStep.onChain {K V S H : Type} : FStep K V S H → Bool
  | .app s => s.onChain
  | .dispatch _ _ => false
  | _ => true

/-- What block execution observes. -/
inductive Obs (V Sess : Type) where
  | appRead (v : Option V)
  | session (s : Option Sess)

variable {S C L H Sess : Type} [DecidableEq C] [DecidableEq H]

/-- One step of the whole node (query context flavour `QueryCtx.fixed`, claim validation without
the session cache). -/
def fstep (W : World S C L H Sess) (n : FNode K V S C L H Sess) : FStep K V S H → FNode K V S C L H Sess × List (Obs V Sess)
  | .app s => let r := step .fixed n.app s; ({ n with app := r.1 }, r.2.map .appRead)
  | .commit m => ({ n with app := (step .fixed n.app .commit).1, ms := n.ms ++ [m] }, [])
  | .claim hdr =>
    match n.ms[W.startOf hdr - 1]?, n.ms[W.endOf hdr - 1]? with
    | some st, some en =>
      -- GetValidatorsByChain(sessionCtx = PrevCtx(start)): header height and store agree
      let r := getVbc W.vbc (W.startOf hdr) st n.vbcCache (W.chainOf hdr)
      ({ n with vbcCache := r.1 }, [.session (some (W.sess hdr r.2 en))])
    | _, _ => (n, [.session none])
  | .dispatch hdr at_ =>
    match n.ms[W.startOf hdr - 1]?, n.ms[at_ - 1]? with
    | some st, some cur =>
      match (n.sessCache.get hdr).2 with
      | some _ => ({ n with sessCache := (n.sessCache.get hdr).1 }, [])
      | none =>
        let r := getVbc W.vbc (W.startOf hdr) st n.vbcCache (W.chainOf hdr)
        ({ n with vbcCache := r.1, sessCache := n.sessCache.add hdr (W.sess hdr r.2 cur) }, [])
    | _, _ => (n, [])
  | .restart cap =>
    ({ n with app := { n.app with cache := LRU.empty cap }, vbcCache := LRU.empty n.vbcCache.cap,
              sessCache := LRU.empty n.sessCache.cap }, [])

def frun (W : World S C L H Sess) (n : FNode K V S C L H Sess) : List (FStep K V S H) → FNode K V S C L H Sess × List (Obs V Sess)
  | [] => (n, [])
  | s :: ss => let r := fstep W n s; let r' := frun W r.1 ss; (r'.1, r.2 ++ r'.2)

/-- The cache-less reference: working application store and committed multistore versions only. -/
def fstepPure (W : World S C L H Sess) (w : Store K V) (ms : List S) : FStep K V S H → (Store K V × List S) × List (Obs V Sess)
  | .app s => let r := stepPure w s; ((r.1, ms), r.2.map .appRead)
  | .commit m => ((w, ms ++ [m]), [])
  | .claim hdr =>
    match ms[W.startOf hdr - 1]?, ms[W.endOf hdr - 1]? with
    | some st, some en => ((w, ms), [.session (some (W.sess hdr (W.vbc st (W.chainOf hdr)) en))])
    | _, _ => ((w, ms), [.session none])
  | _ => ((w, ms), [])

def frunPure (W : World S C L H Sess) (w : Store K V) (ms : List S) : List (FStep K V S H) → (Store K V × List S) × List (Obs V Sess)
  | [] => ((w, ms), [])
  | s :: ss => let r := fstepPure W w ms s; let r' := frunPure W r.1.1 r.1.2 ss; (r'.1, r.2 ++ r'.2)

end Caches
