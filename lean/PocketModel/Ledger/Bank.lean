import PocketModel.Basic.Bytes
/-!
# Ledger / Bank — the auth keeper's coin primitives (x/auth/keeper/bank.go, account.go, supply.go)

The auth store holds one entry per address (`BaseAccount` or `ModuleAccount`) and one supply entry.
At ledger level a balance is the `upokt` amount (`Int`); the multi-denomination algebra of
`types.Coins` is C41's (`PocketModel/Num/Coins.lean`).  The `amt` argument of every primitive is the
`sdk.Coins` value the Go code receives, read as

* `amt > 0` — the one-coin set `{amt upokt}`,
* `amt = 0` — the empty set (what `sdk.NewCoins` makes of a zero coin; `IsValid` is true),
* `amt < 0` — a coin set that fails `Coins.IsValid` (a non-positive coin built without `NewCoin`).

Every function returns the store **after** the call together with the error class, because in
deliver mode nothing is rolled back: whatever was written before an early return stays written.
-/
namespace Ledger

abbrev Addr := Bytes

/-- One auth-store entry.  `module = some name` is a `ModuleAccount`, `none` a `BaseAccount`. -/
structure Account where
  bal : Int
  module : Option String := none
deriving DecidableEq, Repr

/-- The account part of the auth store: association list, first entry for a key wins
(`store.Get(AddressStoreKey(addr))`). -/
abbrev Accounts := List (Addr × Account)

namespace Accounts

/-- `Keeper.GetAccount`. -/
def get : Accounts → Addr → Option Account
  | [], _ => none
  | (k, v) :: r, a => if k = a then some v else get r a

/-- `Keeper.SetAccount` (`store.Set`): overwrite in place, or append a new entry. -/
def set : Accounts → Addr → Account → Accounts
  | [], a, v => [(a, v)]
  | (k, w) :: r, a, v => if k = a then (k, v) :: r else (k, w) :: set r a v

/-- `GetCoins(addr).AmountOf(upokt)`: an absent account has no coins. -/
def balOf (l : Accounts) (a : Addr) : Int :=
  match get l a with
  | some v => v.bal
  | none => 0

/-- Σ of all stored balances (what `IterateAccounts` sums in `InitGenesis`). -/
def total : Accounts → Int
  | [] => 0
  | (_, v) :: r => v.bal + total r

end Accounts

/-- `permAddrs[name]` (x/auth/keeper/keeper.go): the module accounts the app registers, with
their address and the two permissions the bank looks at. -/
structure ModInfo where
  name : String
  addr : Addr
  minter : Bool
  burner : Bool
deriving DecidableEq, Repr

abbrev ModTable := List ModInfo

/-- `GetModuleAddressAndPermissions`. -/
def ModTable.find (mt : ModTable) (name : String) : Option ModInfo :=
  List.find? (fun m => m.name == name) mt

/-- Accounts + the supply entry (`SupplyKeyPrefix`). -/
structure Bank where
  accts : Accounts
  supply : Int
deriving DecidableEq, Repr

/-- Error classes of the bank primitives (`sdk.Error` codes, or a Go panic). -/
inductive Err where
  | invalidCoins    -- sdk.ErrInvalidCoins
  | insufficient    -- sdk.ErrInsufficientCoins
  | unknownAddress  -- sdk.ErrUnknownAddress
  | moduleCreate    -- sdk.ErrModuleAccountCreate
  | forbidden       -- sdk.ErrForbidden
  | internal        -- sdk.ErrInternal (wrapping an inner error)
  | panic           -- nil dereference of the empty `ModuleAccount{}` value
  | badMsg          -- `ValidateBasic` of the message failed (nothing executed)
deriving DecidableEq, Repr

/-- Store after the call, and the error (none = success). -/
structure Out where
  st : Bank
  err : Option Err
deriving DecidableEq, Repr

namespace Bank

def balOf (b : Bank) (a : Addr) : Int := b.accts.balOf a

/-- `Keeper.SetCoins`: validity check of the *new* coin set, create a `BaseAccount` when the
address has no entry, overwrite the coins, store. -/
def setCoins (b : Bank) (addr : Addr) (amt : Int) : Out :=
  if amt < 0 then ⟨b, some .invalidCoins⟩
  else
    let acc : Account := match b.accts.get addr with
      | some a => a
      | none => { bal := 0, module := none }
    ⟨{ b with accts := b.accts.set addr { acc with bal := amt } }, none⟩

/-- `Keeper.SubtractCoins`: amount validity, spendable ≥ amount (`SafeSub` has no negative),
then `SetCoins(old − amt)`.  Nothing is written on failure. -/
def subtractCoins (b : Bank) (addr : Addr) (amt : Int) : Out :=
  if amt < 0 then ⟨b, some .invalidCoins⟩
  else
    let old := b.balOf addr
    if old - amt < 0 then ⟨b, some .insufficient⟩
    else setCoins b addr (old - amt)

/-- `Keeper.AddCoins`: amount validity, `old + amt` not negative, then `SetCoins`. -/
def addCoins (b : Bank) (addr : Addr) (amt : Int) : Out :=
  if amt < 0 then ⟨b, some .invalidCoins⟩
  else
    let new := b.balOf addr + amt
    if new < 0 then ⟨b, some .insufficient⟩
    else setCoins b addr new

/-- `Keeper.SendCoins`: subtract, return on error, add, return on error. -/
def sendCoins (b : Bank) (src dst : Addr) (amt : Int) : Out :=
  let o := subtractCoins b src amt
  match o.err with
  | some e => ⟨o.st, some e⟩
  | none => addCoins o.st dst amt

/-- `MsgSend.ValidateBasic` + `handleMsgSend` (x/nodes/handler.go → nodes keeper `SendCoins` →
auth `SendCoins`); the fee is the ante handler's business (C15) and is not part of this function. -/
def msgSend (b : Bank) (src dst : Addr) (amt : Int) : Out :=
  if src = [] ∨ dst = [] ∨ amt ≤ 0 then ⟨b, some .badMsg⟩ else sendCoins b src dst amt

/-- What `GetModuleAccountAndPermissions` hands back. -/
inductive MAcc where
  | missing                 -- name not registered: `nil`
  | broken                  -- the address holds a `BaseAccount`: the empty `ModuleAccount{}` value
  | ok (mi : ModInfo)
deriving DecidableEq, Repr

/-- `Keeper.GetModuleAccount`: looks the account up and **creates an empty module account** when
the address has no entry yet (a store write by a getter). -/
def getModuleAccount (mt : ModTable) (b : Bank) (name : String) : Bank × MAcc :=
  match mt.find name with
  | none => (b, .missing)
  | some mi =>
    match b.accts.get mi.addr with
    | some acc => if acc.module.isSome then (b, .ok mi) else (b, .broken)
    | none => ({ b with accts := b.accts.set mi.addr { bal := 0, module := some mi.name } }, .ok mi)

/-- `Keeper.SendCoinsFromModuleToAccount`: address lookup only (no account creation). -/
def sendModuleToAccount (mt : ModTable) (b : Bank) (m : String) (dst : Addr) (amt : Int) : Out :=
  match mt.find m with
  | none => ⟨b, some .unknownAddress⟩
  | some mi => sendCoins b mi.addr dst amt

/-- `Keeper.SendCoinsFromAccountToModule`. -/
def sendAccountToModule (mt : ModTable) (b : Bank) (src : Addr) (m : String) (amt : Int) : Out :=
  match getModuleAccount mt b m with
  | (b1, .missing) => ⟨b1, some .moduleCreate⟩
  | (b1, .broken) => ⟨b1, some .panic⟩
  | (b1, .ok mi) => sendCoins b1 src mi.addr amt

/-- `Keeper.SendCoinsFromModuleToModule`. -/
def sendModuleToModule (mt : ModTable) (b : Bank) (m1 m2 : String) (amt : Int) : Out :=
  match mt.find m1 with
  | none => ⟨b, some .unknownAddress⟩
  | some s =>
    match getModuleAccount mt b m2 with
    | (b1, .missing) => ⟨b1, some .moduleCreate⟩
    | (b1, .broken) => ⟨b1, some .panic⟩
    | (b1, .ok mi) => sendCoins b1 s.addr mi.addr amt

/-- `Keeper.MintCoins`: module account (created if absent), minter permission, `AddCoins`, then
`SetSupply(supply.Inflate(amt))`. -/
def mintCoins (mt : ModTable) (b : Bank) (m : String) (amt : Int) : Out :=
  match getModuleAccount mt b m with
  | (b1, .missing) => ⟨b1, some .unknownAddress⟩
  | (b1, .broken) => ⟨b1, some .forbidden⟩
  | (b1, .ok mi) =>
    if !mi.minter then ⟨b1, some .forbidden⟩
    else
      let o := addCoins b1 mi.addr amt
      match o.err with
      | some _ => ⟨o.st, some .internal⟩
      | none => ⟨{ o.st with supply := o.st.supply + amt }, none⟩

/-- `Keeper.BurnCoins`: module account, burner permission, `SubtractCoins`, then
`SetSupply(supply.Deflate(amt))`. -/
def burnCoins (mt : ModTable) (b : Bank) (m : String) (amt : Int) : Out :=
  match getModuleAccount mt b m with
  | (b1, .missing) => ⟨b1, some .unknownAddress⟩
  | (b1, .broken) => ⟨b1, some .moduleCreate⟩
  | (b1, .ok mi) =>
    if !mi.burner then ⟨b1, some .moduleCreate⟩
    else
      let o := subtractCoins b1 mi.addr amt
      match o.err with
      | some _ => ⟨o.st, some .internal⟩
      | none => ⟨{ o.st with supply := o.st.supply - amt }, none⟩

end Bank

/-- The bank operations other modules call (E-FACTS tie C17: nothing else writes balances or the
supply after genesis).  `touch` is a bare `GetModuleAccount` (e.g. `GetStakedPool`,
`GetDAOAccount`, `getFeePool`), which may create the empty module account. -/
inductive Op where
  | send (src dst : Addr) (amt : Int)
  | modToAcc (m : String) (dst : Addr) (amt : Int)
  | accToMod (src : Addr) (m : String) (amt : Int)
  | modToMod (m1 m2 : String) (amt : Int)
  | mint (m : String) (amt : Int)
  | burn (m : String) (amt : Int)
  | touch (m : String)
deriving DecidableEq, Repr

namespace Bank

/-- One bank operation. -/
def step (mt : ModTable) (b : Bank) : Op → Out
  | .send s d a => sendCoins b s d a
  | .modToAcc m d a => sendModuleToAccount mt b m d a
  | .accToMod s m a => sendAccountToModule mt b s m a
  | .modToMod m1 m2 a => sendModuleToModule mt b m1 m2 a
  | .mint m a => mintCoins mt b m a
  | .burn m a => burnCoins mt b m a
  | .touch m => ⟨(getModuleAccount mt b m).1, none⟩

/-- Any sequence of operations (failed ones keep whatever they wrote). -/
def run (mt : ModTable) (b : Bank) (ops : List Op) : Bank :=
  ops.foldl (fun s op => (step mt s op).st) b

/-- What an observer of result codes attributes to the supply: a successful mint adds its amount, a
successful burn removes it, everything else nothing. -/
def supplyEffect (mt : ModTable) (b : Bank) (op : Op) : Int :=
  match op, (step mt b op).err with
  | .mint _ a, none => a
  | .burn _ a, none => -a
  | _, _ => 0

/-- Σ of the observed effects along a run. -/
def netMintBurn (mt : ModTable) : Bank → List Op → Int
  | _, [] => 0
  | b, op :: ops => supplyEffect mt b op + netMintBurn mt (step mt b op).st ops

/-- C17 invariant. -/
def SupplyInv (b : Bank) : Prop := b.supply = b.accts.total

instance (b : Bank) : Decidable (SupplyInv b) := by unfold SupplyInv; infer_instance

/-- C18 invariant at ledger level: no stored balance is negative (a stored `Coins` value is the empty
set or one positive `upokt` coin — the canonical form). -/
def NonNeg (b : Bank) : Prop := ∀ p ∈ b.accts, 0 ≤ p.2.bal

def nonNegB (b : Bank) : Bool := b.accts.all fun p => decide (0 ≤ p.2.bal)

end Bank
end Ledger

/-! ## Genesis (x/auth/genesis.go, x/nodes/genesis.go, x/apps/genesis.go, x/gov/keeper/genesis.go) -/
namespace Ledger
namespace Bank

/-- `auth.InitGenesis`: store the accounts; an empty genesis supply is replaced by Σ accounts. -/
def genesisAuth (accts : Accounts) (supply : Option Int) : Bank :=
  ⟨accts, supply.getD accts.total⟩

/-- The pool part of `nodes.InitGenesis` / `apps.InitGenesis`: the pool account is fetched (created
empty if absent); **if it holds nothing** it is set to the staked total, otherwise it is left alone
(the code then only checks equality); in both cases the supply is inflated by the staked total. -/
def genesisFundPool (mt : ModTable) (b : Bank) (pool : String) (staked : Int) : Bank :=
  match getModuleAccount mt b pool with
  | (b1, .ok mi) =>
    if b1.balOf mi.addr = 0 then
      { accts := b1.accts.set mi.addr { bal := staked, module := some mi.name }, supply := b1.supply + staked }
    else { b1 with supply := b1.supply + staked }
  | (b1, _) => b1   -- os.Exit(1): no chain

/-- `gov.InitGenesis`: `MintCoins(dao, DAOTokens)` (an error is only logged). -/
def genesisDAO (mt : ModTable) (b : Bank) (daoTokens : Int) : Bank := (mintCoins mt b "dao" daoTokens).st

/-- Module genesis order of app.go: auth, nodes, apps, (pocketcore), gov. -/
def genesis (mt : ModTable) (accts : Accounts) (supply : Option Int) (nodePool appPool : String)
    (stakedNodes stakedApps daoTokens : Int) : Bank :=
  genesisDAO mt (genesisFundPool mt (genesisFundPool mt (genesisAuth accts supply) nodePool stakedNodes) appPool stakedApps) daoTokens

end Bank
end Ledger
